//go:build verif

package traefikoidc

// SUPPORTING TESTING for property C13 (never a proof): many goroutines hammer
// one small Cache with Set/Get/Delete/Cleanup under the race detector.  While
// they run a checker goroutine inspects the real state (under the cache's own
// mutex) and at the end the state must be well formed and within capacity.
// A watchdog turns a hang into a report.  The result goes to
// $VERIF_OUT/race_result.json; a data race makes the race detector fail the
// test binary (exit status != 0, "WARNING: DATA RACE" in the log).

import (
	"fmt"
	"sync"
	"sync/atomic"
	"testing"
	"time"
)

type vfLruRaceResult struct {
	Seed       uint64           `json:"seed"`
	Goroutines int              `json:"goroutines"`
	Capacity   int              `json:"capacity"`
	Keys       int              `json:"keys"`
	LoadMs     int              `json:"load_ms"`
	Ops        map[string]int64 `json:"ops"`
	OpsTotal   int64            `json:"ops_total"`
	Hits       int64            `json:"hits"`
	Snapshots  int64            `json:"snapshots_checked"`
	MaxSize    int              `json:"max_size_seen"`
	Deadlock   bool             `json:"deadlock_suspected"`
	Problems   []string         `json:"problems"`
	ElapsedMs  int64            `json:"elapsed_ms"`
	// phase 2: retention of live entries while Cleanup runs concurrently (capacity never reached)
	RetentionRounds int64 `json:"retention_rounds"`
	RetentionSweeps int64 `json:"retention_sweeps"`
	// phase 3: lookups count as use also when other goroutines are busy with the cache
	LruRounds int64 `json:"lru_rounds"`
}

func TestVF_CacheRace(t *testing.T) {
	seed := vfSeed()
	g := vfEnvInt("VERIF_RACE_G", 24)
	loadMs := vfEnvInt("VERIF_RACE_MS", 6000)
	capacity := vfEnvInt("VERIF_RACE_CAP", 6)
	nkeys := vfEnvInt("VERIF_RACE_KEYS", 14)
	res := vfLruRaceResult{Seed: seed, Goroutines: g, Capacity: capacity, Keys: nkeys, LoadMs: loadMs,
		Ops: map[string]int64{}, Problems: []string{}}

	c := vfNewCache(capacity)
	var mu sync.Mutex // protects res.Problems
	problem := func(s string) {
		mu.Lock()
		if len(res.Problems) < 20 {
			res.Problems = append(res.Problems, s)
		}
		mu.Unlock()
	}
	var nSet, nGet, nDel, nClean, nHit, nSnap int64
	var maxSeen int64
	stop := make(chan struct{})
	deadline := time.Now().Add(time.Duration(loadMs) * time.Millisecond)
	start := time.Now()
	root := vfNewRand(seed).fork(13)

	var wg sync.WaitGroup
	for i := 0; i < g; i++ {
		r := root.fork(uint64(i + 1))
		own := fmt.Sprintf("own%d", i) // touched by this goroutine only
		wg.Add(1)
		go func(i int) {
			defer wg.Done()
			defer func() {
				if p := recover(); p != nil {
					problem(fmt.Sprintf("panic in goroutine %d: %v", i, p))
				}
			}()
			lastOwn := int64(-1) // value of the last Set of the private key
			val := int64(i) << 32
			for n := 0; ; n++ {
				if n%64 == 0 && time.Now().After(deadline) {
					return
				}
				x := r.intn(100)
				k := vfCacheKey(r.intn(nkeys))
				switch {
				case x < 35:
					ttl := time.Duration(r.pick([]int{-1, 0, 1, 1, 50, 3600000})) * time.Millisecond
					val++
					c.Set(k, val, ttl)
					atomic.AddInt64(&nSet, 1)
				case x < 70:
					if _, ok := c.Get(k); ok {
						atomic.AddInt64(&nHit, 1)
					}
					atomic.AddInt64(&nGet, 1)
				case x < 80:
					c.Delete(k)
					atomic.AddInt64(&nDel, 1)
				case x < 84:
					c.Cleanup()
					atomic.AddInt64(&nClean, 1)
				case x < 92:
					val++
					c.Set(own, val, time.Hour)
					lastOwn = val
					atomic.AddInt64(&nSet, 1)
				default:
					// single-writer key: a lookup returns nothing (evicted) or the last value written
					if v, ok := c.Get(own); ok {
						atomic.AddInt64(&nHit, 1)
						if x, isInt := v.(int64); !isInt || x != lastOwn {
							problem(fmt.Sprintf("goroutine %d: Get(%s) returned %v, last Set stored %d", i, own, v, lastOwn))
						}
					}
					atomic.AddInt64(&nGet, 1)
				}
			}
		}(i)
	}
	// checker: the state seen under the cache's own mutex is well formed at every instant
	wg.Add(1)
	go func() {
		defer wg.Done()
		for {
			select {
			case <-stop:
				return
			default:
			}
			if time.Now().After(deadline) {
				return
			}
			for _, p := range vfLruCacheProblems(c) {
				problem("during load: " + p)
			}
			if s := int64(vfLruCacheSize(c)); s > atomic.LoadInt64(&maxSeen) {
				atomic.StoreInt64(&maxSeen, s)
			}
			atomic.AddInt64(&nSnap, 1)
			time.Sleep(200 * time.Microsecond)
		}
	}()

	done := make(chan struct{})
	go func() { wg.Wait(); close(done) }()
	select {
	case <-done:
	case <-time.After(time.Duration(loadMs)*time.Millisecond + 30*time.Second):
		res.Deadlock = true
		problem("watchdog: goroutines still blocked 30 s after the end of the load (deadlock suspected)")
	}
	close(stop)
	if !res.Deadlock {
		for _, p := range vfLruCacheProblems(c) {
			problem("final state: " + p)
		}
	}
	// ---- phase 2: a live entry is never lost while the cache is below capacity, whatever Cleanup does
	// concurrently.  Each writer owns one key: it stores it already expired, re-stores it with a long
	// lifetime and looks it up; sweepers call Cleanup in a loop over a cache with many (live) entries, so
	// that a sweep takes long enough to overlap the writers' stores.
	if !res.Deadlock {
		big := vfNewCache(60000)
		for i := 0; i < 20000; i++ {
			big.Set(fmt.Sprintf("fill%d", i), int64(i), time.Hour)
		}
		var rounds, sweeps int64
		end := time.Now().Add(time.Duration(vfEnvInt("VERIF_RACE_RETENTION_MS", 1500)) * time.Millisecond)
		var wg2 sync.WaitGroup
		for i := 0; i < 8; i++ {
			wg2.Add(1)
			go func(i int) {
				defer wg2.Done()
				key := fmt.Sprintf("writer%d", i)
				v := int64(i) << 40
				for time.Now().Before(end) {
					v++
					big.Set(key, v, -time.Nanosecond)
					v++
					big.Set(key, v, time.Hour)
					got, ok := big.Get(key)
					if x, isInt := got.(int64); !ok || !isInt || x != v {
						problem(fmt.Sprintf("retention: %s stored live (value %d) below capacity, the next lookup returned (%v, %v) while Cleanup ran concurrently", key, v, got, ok))
						return
					}
					atomic.AddInt64(&rounds, 1)
				}
			}(i)
		}
		for i := 0; i < 2; i++ {
			wg2.Add(1)
			go func() {
				defer wg2.Done()
				for time.Now().Before(end) {
					big.Cleanup()
					atomic.AddInt64(&sweeps, 1)
				}
			}()
		}
		for i := 0; i < 6; i++ { // readers of the writers' keys: a lookup that saw the expired value must not undo the live one stored since
			wg2.Add(1)
			go func(i int) {
				defer wg2.Done()
				for n := 0; time.Now().Before(end); n++ {
					big.Get(fmt.Sprintf("writer%d", (i+n)%8))
				}
			}(i)
		}
		fin := make(chan struct{})
		go func() { wg2.Wait(); close(fin) }()
		select {
		case <-fin:
		case <-time.After(40 * time.Second):
			res.Deadlock = true
			problem("watchdog: retention phase still blocked 40 s after its start (deadlock suspected)")
		}
		if !res.Deadlock {
			for _, p := range vfLruCacheProblems(big) {
				problem("retention phase, final state: " + p)
			}
		}
		res.RetentionRounds, res.RetentionSweeps = atomic.LoadInt64(&rounds), atomic.LoadInt64(&sweeps)
	}
	// ---- phase 3: "lookups count as use" under contention.  A full cache, nothing expired.  Background goroutines
	// only call Cleanup and Get on one hot key (neither changes the relative order of the other entries).  The main
	// loop looks up the entry that is least recently used, stores one new key (which must evict the NEXT least recently
	// used entry) and checks, without touching the order, that the entry it just looked up is still there.
	if !res.Deadlock {
		const capacity = 64
		lc := vfNewCache(capacity)
		var queue []string // the test's own record of the recency order of the non-hot keys, least recent first
		for i := 0; i < capacity-1; i++ {
			k := fmt.Sprintf("e%d", i)
			lc.Set(k, int64(i), time.Hour)
			queue = append(queue, k)
		}
		lc.Set("hot", int64(-1), time.Hour)
		stop3 := make(chan struct{})
		var wg3 sync.WaitGroup
		for g := 0; g < 6; g++ {
			wg3.Add(1)
			go func(g int) {
				defer wg3.Done()
				for {
					select {
					case <-stop3:
						return
					default:
					}
					if g%2 == 0 {
						lc.Cleanup()
					} else {
						lc.Get("hot")
					}
				}
			}(g)
		}
		end := time.Now().Add(time.Duration(vfEnvInt("VERIF_RACE_LRU_MS", 1200)) * time.Millisecond)
		var rounds int64
		for n := 0; time.Now().Before(end); n++ {
			x := queue[0]
			if _, ok := lc.Get(x); !ok {
				problem(fmt.Sprintf("lru phase: %s, the least recently used live entry of a cache at capacity, was not found before any insertion", x))
				break
			}
			queue = append(queue[1:], x) // x is now the most recently used of them
			nk := fmt.Sprintf("n%d", n)
			lc.Set(nk, int64(n), time.Hour) // evicts the entry at the front of the order: queue[0] (or hot, if hot is older -- it never is: it is looked up constantly)
			evicted := queue[0]
			queue = append(queue[1:], nk)
			snap := vfCacheSnapshot(lc, func(interface{}) int64 { return 0 })
			present := map[string]bool{}
			for _, it := range snap.Items {
				present[it.Key] = true
			}
			if !present[x] {
				problem(fmt.Sprintf("lru phase: %s was looked up and then one new key was stored; the lookup did not count as use (it was evicted, %s kept) while other goroutines were using the cache", x, evicted))
				break
			}
			rounds++
		}
		close(stop3)
		fin3 := make(chan struct{})
		go func() { wg3.Wait(); close(fin3) }()
		select {
		case <-fin3:
		case <-time.After(30 * time.Second):
			res.Deadlock = true
			problem("watchdog: lru phase goroutines still blocked (deadlock suspected)")
		}
		res.LruRounds = rounds
	}
	res.Ops["set"], res.Ops["get"], res.Ops["del"], res.Ops["cleanup"] = atomic.LoadInt64(&nSet), atomic.LoadInt64(&nGet), atomic.LoadInt64(&nDel), atomic.LoadInt64(&nClean)
	res.OpsTotal = res.Ops["set"] + res.Ops["get"] + res.Ops["del"] + res.Ops["cleanup"]
	res.Hits = atomic.LoadInt64(&nHit)
	res.Snapshots = atomic.LoadInt64(&nSnap)
	res.MaxSize = int(atomic.LoadInt64(&maxSeen))
	res.ElapsedMs = time.Since(start).Milliseconds()
	mu.Lock()
	vfWriteJSON(t, "race_result.json", res)
	n := len(res.Problems)
	mu.Unlock()
	if n > 0 {
		t.Errorf("%d problem(s), see race_result.json", n)
	}
}
