//go:build verif

package traefikoidc

// Accessors through which the C02 harness (zz_vf_jwt_test.go) touches
// unexported names of the package under verification.  If a refactor renames
// one of them only this file stops compiling ("harness build").

import (
	"context"
	"io"
	"net/http"
	"time"

	"golang.org/x/time/rate"
)

// vfJwtFakeJWKS is a JWKCacheInterface that serves a fixed key set.
type vfJwtFakeJWKS struct{ set *JWKSet }

func (f *vfJwtFakeJWKS) GetJWKS(ctx context.Context, jwksURL string, httpClient *http.Client) (*JWKSet, error) {
	return f.set, nil
}
func (f *vfJwtFakeJWKS) Cleanup() {}

// vfJwtNewInstance builds a fresh verifier instance: empty token cache, empty
// blacklist, a limiter that never refuses, the given issuer / client ID and key set.
func vfJwtNewInstance(issuer, clientID string, set *JWKSet) *TraefikOidc {
	lg := NewLogger("error")
	lg.logError.SetOutput(io.Discard)
	return &TraefikOidc{
		issuerURL:      issuer,
		clientID:       clientID,
		jwksURL:        "http://jwks.invalid/keys",
		jwkCache:       &vfJwtFakeJWKS{set: set},
		httpClient:     &http.Client{Timeout: time.Second},
		logger:         lg,
		limiter:        rate.NewLimiter(rate.Inf, 1000000),
		tokenCache:     NewTokenCache(),
		tokenBlacklist: NewCache(),
	}
}

// vfJwtCloseInstance stops the cleanup goroutines of the instance's caches.
func vfJwtCloseInstance(t *TraefikOidc) {
	t.tokenCache.cache.Close()
	t.tokenBlacklist.Close()
}

// vfJwtLadder is parseJWT followed by VerifyJWTSignatureAndClaims.
func vfJwtLadder(t *TraefikOidc, token string) bool {
	j, err := parseJWT(token)
	if err != nil {
		return false
	}
	return t.VerifyJWTSignatureAndClaims(j, token) == nil
}

// vfJwtVerifyToken is the TokenVerifier entry point.
func vfJwtVerifyToken(t *TraefikOidc, token string) bool { return t.VerifyToken(token) == nil }

func vfJwtSkews() (future, past time.Duration) { return ClockSkewToleranceFuture, ClockSkewTolerancePast }

// vfJwtKeyUsable: does jwkToPEM accept this JWKS entry?
func vfJwtKeyUsable(k *JWK) bool {
	_, err := jwkToPEM(k)
	return err == nil
}

// vfJwtSetKeys replaces the key set the instance's (fake) JWKS source serves: the provider rotated its keys
func vfJwtSetKeys(t *TraefikOidc, set *JWKSet) {
	if f, ok := t.jwkCache.(*vfJwtFakeJWKS); ok {
		f.set = set
	}
}
