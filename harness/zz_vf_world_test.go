//go:build verif

package traefikoidc

// World harness: scripted histories (deployment configuration + a list of
// browser / attacker / operator actions), their execution on real instances
// built through New() against the fake provider, and the generators.

import (
	"text/template"
	"encoding/base64"
	"encoding/json"
	"fmt"
	"net/url"
	"os"
	"strings"
	"testing"
	"time"
)

type vfMintSpec struct {
	Auth          bool       `json:"auth"`
	CreatedAgoSec int64      `json:"created_ago_sec"`
	Email         string     `json:"email"`
	Tok           *vfTokSpec `json:"tok,omitempty"`
	RefreshLen    int        `json:"refresh_len"`
	KeyB          bool       `json:"key_b,omitempty"`
	Only          []string   `json:"only,omitempty"` // keep only these cookie kinds: m a r chunks
}

type vfAction struct {
	Kind      string      `json:"kind"` // req | authorize | callback | tamper | mint | newinst | sleep
	Req       *vfReq      `json:"req,omitempty"`
	Browser   int         `json:"browser"`
	Slot      int         `json:"slot"`
	Realm     string      `json:"realm,omitempty"` // newinst: the tenant of the provider the new instance is configured for
	StateMode string      `json:"state_mode,omitempty"` // own | stale | foreign | absent | garbage
	CodeMode  string      `json:"code_mode,omitempty"`  // own | absent | garbage | reused
	ErrParam  string      `json:"err_param,omitempty"`
	ErrDesc   string      `json:"err_desc,omitempty"`
	From      int         `json:"from,omitempty"`
	Tamper    string      `json:"tamper,omitempty"`
	Name      string      `json:"name,omitempty"`  // cookie kind: m a r a0 a1 r0 ...
	Name2     string      `json:"name2,omitempty"`
	Mint      *vfMintSpec `json:"mint,omitempty"`
	SleepMs   int         `json:"sleep_ms,omitempty"`
	Tag       int         `json:"tag,omitempty"`
	AcceptJS  bool        `json:"accept_json,omitempty"`
	Script    *vfTokenScript `json:"token_script,omitempty"`
	// reconf: the deployment is reconfigured and / or the provider changes what it publishes; the history goes on in a new
	// segment (the model starts it with fresh instance state and the configuration / endpoints valid from then on)
	Cfg2 *vfWorldCfg `json:"cfg2,omitempty"` // the new configuration (Traefik reload: every instance is rebuilt from it)
	Prov string      `json:"prov,omitempty"` // move_end | drop_end | add_end | move_auth : what the provider changes in its document
	Mode string      `json:"mode,omitempty"` // reload (default: instances rebuilt) | tick (same instances; their metadata refresh runs)
}

type vfScript struct {
	Cfg      vfWorldCfg `json:"cfg"`
	Browsers int        `json:"browsers"`
	Actions  []vfAction `json:"actions"`
}

type vfWorldCase struct {
	ID     int                      `json:"id"`
	Kind   string                   `json:"kind"`
	Script vfScript                 `json:"script"`
	Obs    []map[string]interface{} `json:"obs,omitempty"`
	Coq    string                   `json:"coq,omitempty"`
	Stats  map[string]int           `json:"stats,omitempty"`
}

func vfCookieKindName(kind string) string {
	m, a, r := vfCookieNames()
	switch {
	case kind == "m":
		return m
	case kind == "a":
		return a
	case kind == "r":
		return r
	case strings.HasPrefix(kind, "a"):
		return a + "_" + kind[1:]
	case strings.HasPrefix(kind, "r"):
		return r + "_" + kind[1:]
	}
	return kind
}

func (w *vfWorld) tamper(a vfAction) {
	b := w.browsers[a.Browser]
	name := vfCookieKindName(a.Name)
	switch a.Tamper {
	case "drop":
		delete(b.jar, name)
	case "clear":
		b.jar = map[string]string{}
	case "junk":
		raw := make([]byte, 120)
		for i := range raw {
			raw[i] = byte(w.r.next())
		}
		b.jar[name] = base64.URLEncoding.EncodeToString(raw)
	case "huge": // an oversized value (beyond what the cookie codec accepts at all), base64-looking
		raw := make([]byte, 3000+int(w.r.next()%3000))
		for i := range raw {
			raw[i] = byte(w.r.next())
		}
		b.jar[name] = base64.URLEncoding.EncodeToString(raw)
	case "truncate":
		if v, ok := b.jar[name]; ok && len(v) > 8 {
			b.jar[name] = v[:len(v)/2]
		}
	case "flip":
		if v, ok := b.jar[name]; ok && len(v) > 8 {
			i := len(v) / 2
			c := byte('A')
			if v[i] == 'A' {
				c = 'B'
			}
			b.jar[name] = v[:i] + string(c) + v[i+1:]
		}
	case "swap":
		n2 := vfCookieKindName(a.Name2)
		v1, ok1 := b.jar[name]
		v2, ok2 := b.jar[n2]
		if ok1 && ok2 {
			b.jar[name], b.jar[n2] = v2, v1
		} else if ok1 {
			b.jar[n2] = v1
			delete(b.jar, name)
		}
	case "copy":
		if v, ok := w.browsers[a.From].jar[name]; ok {
			b.jar[name] = v
		}
	case "copyall":
		for k, v := range w.browsers[a.From].jar {
			b.jar[k] = v
		}
	case "snap": // the browser's cookies as they are now are kept aside ...
		b.snap = map[string]string{}
		for k, v := range b.jar {
			b.snap[k] = v
		}
	case "restore": // ... and put back later: a second tab / a retried request / a restored browser session sends the OLD cookies again
		if b.snap != nil {
			b.jar = map[string]string{}
			for k, v := range b.snap {
				b.jar[k] = v
			}
		}
	case "plant":
		// hand-written cookies whose names look like the deployment's own (its prefix + a short suffix) and whose
		// values are readable text -- a local path, an e-mail, a token-like word -- each carrying a marker unique in
		// this world: none of them was produced under the key, so nothing of them may ever surface anywhere
		m, _, _ := vfCookieNames()
		prefix := m[:strings.LastIndex(m, "_")+1]
		var sfx []string
		for c := 'a'; c <= 'z'; c++ {
			sfx = append(sfx, string(c))
		}
		sfx = append(sfx, "state", "return", "target", "path", "redirect", "rd", "next", "csrf", "nonce", "email", "user", "id", "session", "ctx", "flow", "login")
		for i, sx := range sfx {
			name := prefix + sx
			if _, known := vfCname(name); known {
				continue
			}
			mark := fmt.Sprintf("planted-%s-%x", sx, w.r.next()&0xffffff)
			var v string
			switch i % 4 {
			case 0:
				v = "/" + mark + "/page?confirm=yes"
			case 1:
				v = url.QueryEscape("/" + mark + "/page?confirm=yes&x=1")
			case 2:
				v = mark + "@example.net"
			default:
				v = base64.StdEncoding.EncodeToString([]byte("/" + mark + "/p"))
				mark = v
			}
			w.planted = append(w.planted, mark)
			b.jar[name] = v
		}
	}
}

func (w *vfWorld) reconf(a vfAction) {
	w.segs = append(w.segs, w.caseTerm(w.caseID))
	w.steps = nil
	w.prov.mu.Lock()
	switch a.Prov {
	case "move_end":
		w.prov.endSession, w.prov.endPath = true, "/v2/logout"
	case "drop_end":
		w.prov.endSession = false
	case "add_end":
		w.prov.endSession = true
	case "rotate_keys": // the provider replaces its first signing key (new key ID); with the reload that follows, instances see only the new set
		vfRotateKey1()
	case "move_auth":
		w.prov.authPath = "/v2/authorize"
		w.prov.authPaths = append(w.prov.authPaths, "/v2/authorize")
	}
	w.prov.mu.Unlock()
	if a.Cfg2 != nil {
		keep := w.cfg
		w.cfg = *a.Cfg2
		// what belongs to the world rather than to the deployment's configuration stays
		w.cfg.LongKeys, w.cfg.ForeignDefaultKey, w.cfg.EndSession, w.cfg.Revocation, w.cfg.ChallengeMethods, w.cfg.TxnRedirect =
			keep.LongKeys, keep.ForeignDefaultKey, keep.EndSession, keep.Revocation, keep.ChallengeMethods, keep.TxnRedirect
		w.cfgObjs = nil // a reload parses the configuration anew: a new object
		w.tmpls, w.tmplRows, w.tmplUsed = nil, nil, map[string]bool{}
		for _, tm := range w.cfg.Templates {
			t, err := template.New(tm.Name).Parse(tm.Value)
			if err != nil {
				t = nil
			}
			w.tmpls = append(w.tmpls, t)
		}
	}
	for slot, idx := range w.slots {
		if idx < 0 {
			continue
		}
		in := w.insts[idx]
		if a.Mode == "tick" && a.Cfg2 == nil && a.Prov == "rotate_keys" {
			vfWorldExpireJWKS(in.t) // the same instance goes on; the key set it had loaded has run out meanwhile
		} else if a.Mode == "tick" && a.Cfg2 == nil {
			vfWorldRefreshTick(in.t, w.prov.issuer+in.realm)
		} else {
			w.addInstanceRealm(slot, in.realm)
		}
	}
}

func (w *vfWorld) mint(a vfAction) {
	ms := a.Mint
	b := w.browsers[a.Browser]
	inst := w.inst(a.Slot).t
	if ms.KeyB {
		inst = w.foreignInstance()
	}
	idtok := ""
	if ms.Tok != nil {
		m := vfMintToken(w.prov.issuer, vfClientID, *ms.Tok, w.r)
		w.prov.mu.Lock()
		w.prov.minted = append(w.prov.minted, m)
		w.prov.mu.Unlock()
		w.noteMinted()
		idtok = m.Token
		w.prov.mu.Lock()
		if w.prov.lastID == "" { // the token the session holds is one the provider issued: it may hand it out again (script same_token)
			w.prov.lastID = idtok
		}
		w.prov.mu.Unlock()
	}
	rt := ""
	if ms.RefreshLen > 0 {
		rt = w.prov.newRefreshToken(ms.RefreshLen)
		w.noteText(rt)
	}
	created := int64(0)
	if ms.CreatedAgoSec != 0 {
		created = time.Now().Unix() - ms.CreatedAgoSec
	}
	cookies, err := vfMintSession(vfSessionManager(inst), ms.Auth, created, ms.Email, idtok, rt, "", "", "", "")
	if err != nil {
		w.tb.Fatalf("mint: %v", err)
	}
	keep := func(name string) bool {
		if len(ms.Only) == 0 {
			return true
		}
		m, ac, rf := vfCookieNames()
		for _, k := range ms.Only {
			switch {
			case k == "m" && name == m, k == "a" && name == ac, k == "r" && name == rf:
				return true
			case k == "chunks" && name != m && name != ac && name != rf:
				return true
			}
		}
		return false
	}
	for _, c := range cookies {
		if ms.KeyB {
			w.noteOrigin(c.Value, 2)
		} else {
			w.noteOrigin(c.Value, 1)
		}
		if c.MaxAge >= 0 && keep(c.Name) {
			b.jar[c.Name] = c.Value
		}
	}
}

func (w *vfWorld) callback(a vfAction) {
	b := w.browsers[a.Browser]
	q := url.Values{}
	switch a.StateMode {
	case "", "own":
		if b.lastAuth != nil {
			q.Set("state", b.lastAuth["state"])
		}
	case "stale":
		if b.prevAuth != nil {
			q.Set("state", b.prevAuth["state"])
		} else {
			q.Set("state", "stale-state-0000")
		}
	case "foreign":
		if o := w.browsers[a.From]; o.lastAuth != nil {
			q.Set("state", o.lastAuth["state"])
		} else {
			q.Set("state", "foreign-state-0000")
		}
	case "garbage":
		q.Set("state", "garbage-state-"+fmt.Sprint(w.r.intn(1000)))
	case "absent":
	}
	switch a.CodeMode {
	case "", "own":
		if b.code != "" {
			q.Set("code", b.code)
			b.usedCode = b.code
		}
	case "reused":
		if b.usedCode != "" {
			q.Set("code", b.usedCode)
		} else {
			q.Set("code", "code-never-issued")
		}
	case "foreign": // the still unused code the provider issued for ANOTHER browser's login
		if o := w.browsers[a.From]; o.code != "" {
			q.Set("code", o.code)
		} else {
			q.Set("code", "code-never-issued")
		}
	case "garbage":
		q.Set("code", "code-never-issued")
	case "markup":
		q.Set("code", "\"><script>alert(9)</script><b x='")
	case "absent":
	}
	if a.ErrParam != "" {
		q.Set("error", a.ErrParam)
	}
	if a.ErrDesc != "" {
		q.Set("error_description", a.ErrDesc)
	}
	// parameters real providers add to the authorization response (Keycloak's session_state, RFC 9207 iss, Azure's
	// client_info, the granted scope): none of them is part of what the middleware may rely on
	switch w.r.intn(6) {
	case 0:
		q.Set("session_state", fmt.Sprintf("%08x-1111-2222-3333-444455556666", w.r.next()&0xffffffff))
	case 1:
		q.Set("iss", w.prov.issuer)
		q.Set("session_state", "s1")
	case 2:
		q.Set("iss", "https://login.other-tenant.example/")
		q.Set("scope", "openid profile email offline_access")
		q.Set("client_info", "eyJ1aWQiOiIxIn0")
	}
	tag := a.Tag
	if tag == 0 {
		tag = 2
	}
	w.do(vfReq{Browser: a.Browser, Slot: a.Slot, Method: "GET", Target: vfCallbackPath + "?" + q.Encode(),
		AcceptJS: a.AcceptJS, Script: a.Script, Tag: tag})
}

func (w *vfWorld) run(actions []vfAction) {
	for _, a := range actions {
		switch a.Kind {
		case "req":
			w.do(*a.Req)
		case "authorize":
			b := w.browsers[a.Browser]
			if b.lastAuth != nil {
				b.code = w.prov.authorize(b.lastAuth["nonce"], b.lastAuth["code_challenge"], b.lastAuth["redirect_uri"])
			}
		case "callback":
			w.callback(a)
		case "tamper":
			w.tamper(a)
		case "reconf":
			w.reconf(a)
		case "follow": // the browser follows the redirect it was just given, when that stays on the application's origin
			b := w.browsers[a.Browser]
			loc := strings.TrimPrefix(strings.TrimPrefix(b.lastLoc, "http://app.example.test"), "https://app.example.test")
			if strings.HasPrefix(loc, "/") && !strings.HasPrefix(loc, "//") {
				tag := a.Tag
				if tag == 0 {
					tag = 4
				}
				w.do(vfReq{Browser: a.Browser, Slot: a.Slot, Method: "GET", Target: loc, Tag: tag})
			}
		case "mint":
			w.mint(a)
		case "newinst":
			w.addInstanceRealm(a.Slot, a.Realm)
		case "sleep":
			time.Sleep(time.Duration(a.SleepMs) * time.Millisecond)
		}
	}
}

func vfRunWorldCase(tb testingTB, cs *vfWorldCase, r *vfRand) {
	w := vfNewWorld(tb, cs.Script.Cfg, cs.Script.Browsers, r)
	defer w.close()
	w.caseID = cs.ID
	w.run(cs.Script.Actions)
	cs.Coq = strings.Join(append(w.segs, w.caseTerm(cs.ID)), ";\n")
	cs.Obs = w.stepObs
	cs.Stats = map[string]int{"steps": len(w.steps), "tokens": len(w.tokOrder), "instances": len(w.insts), "strings": len(w.in.strs)}
}

// ---------------------------------------------------------------- script building blocks

func vfGated(b, slot int, target string, tag int) vfAction {
	return vfAction{Kind: "req", Req: &vfReq{Browser: b, Slot: slot, Method: "GET", Target: target, Tag: tag}}
}

// a complete, successful login of browser b: gated request, provider visit, callback
func vfLogin(b, slot int, target string, script *vfTokenScript) []vfAction {
	return []vfAction{
		vfGated(b, slot, target, 1),
		{Kind: "authorize", Browser: b},
		{Kind: "callback", Browser: b, Slot: slot, Script: script, Tag: 2},
	}
}

func vfPtr64(x int64) *int64 { return &x }

// ---------------------------------------------------------------- generators

var vfPaths = []string{"/", "/app", "/app/data?id=7&x=y", "/api/items", "/index.html", "/a/b/c/d?q=%2F%2Fevil", "/healthz-not", "/oauth2"}

func vfGenCfg(r *vfRand) vfWorldCfg {
	c := vfWorldCfg{PKCE: r.chance(1, 2), ForceHTTPS: r.chance(1, 2), EndSession: r.chance(2, 3), GraceSec: 60}
	if r.chance(1, 4) {
		c.GraceSec = 3600
	}
	if r.chance(1, 3) {
		c.Excluded = []string{"/public", "/health"}
	}
	c.TxnRedirect = r.chance(1, 8)
	switch r.intn(4) {
	case 0:
		c.PostLogout = ""
	case 1:
		c.PostLogout = "/bye"
	case 2:
		c.PostLogout = "https://www.example.org/after-logout"
	case 3:
		c.PostLogout = "/"
	}
	if r.chance(1, 4) {
		c.Domains = []string{"example.com", "corp.example.org"}
	}
	if r.chance(1, 4) {
		c.Roles = []string{"admin", "dev"}
	}
	if r.chance(1, 4) {
		c.Templates = []vfTemplate{{"X-Email-Copy", "{{.Claims.email}}"}, {"X-Deep", "{{.Claims.realm.roles}}"}}
	}
	return c
}

func vfGenTokSpec(r *vfRand, cfg vfWorldCfg) *vfTokSpec {
	s := &vfTokSpec{Sub: "user-" + fmt.Sprint(r.intn(5)), Email: "user" + fmt.Sprint(r.intn(3)) + "@example.com", ExpIn: 3600, IatIn: -5}
	if r.chance(1, 2) {
		s.Jti = fmt.Sprintf("jti-%x", r.next())
	}
	if r.chance(1, 4) {
		s.NbfIn = vfPtr64(-30)
	}
	if r.chance(1, 2) {
		s.Groups = []interface{}{"staff", "admin"}
	}
	if r.chance(1, 3) {
		s.Roles = []interface{}{"dev"}
	}
	switch r.intn(6) {
	case 0:
		s.Pad = 3000
	case 1:
		s.Pad = 4000
		s.PadRandom = true
	case 2:
		s.Pad = 9000
		s.PadRandom = true
	}
	return s
}

// a general mixed history: logins, requests, refreshes, logouts, tampering
func vfGenMixed(r *vfRand, id int) *vfWorldCase {
	cfg := vfGenCfg(r)
	cs := &vfWorldCase{ID: id, Kind: "mixed", Script: vfScript{Cfg: cfg, Browsers: 2}}
	var acts []vfAction
	n := 3 + r.intn(8)
	for i := 0; i < n; i++ {
		b := r.intn(2)
		slot := 0
		if r.chance(1, 6) {
			slot = 1
		}
		switch r.intn(10) {
		case 0, 1, 2:
			sc := &vfTokenScript{Kind: "ok", Spec: vfGenTokSpec(r, cfg)}
			if r.chance(1, 4) {
				sc.RefreshLen = 2500 + r.intn(3000)
			}
			acts = append(acts, vfLogin(b, slot, vfPaths[r.intn(len(vfPaths))], sc)...)
		case 3, 4, 5:
			rq := &vfReq{Browser: b, Slot: slot, Method: []string{"GET", "GET", "POST", "OPTIONS", "HEAD"}[r.intn(5)],
				Target: vfPaths[r.intn(len(vfPaths))], Tag: 1, AcceptJS: r.chance(1, 4)}
			if r.chance(1, 4) {
				rq.Origin = "https://other.example"
			}
			if r.chance(1, 3) {
				rq.ClientIDs = []int{1 + r.intn(5)}
			}
			if r.chance(1, 3) {
				rq.Script = &vfTokenScript{Kind: []string{"ok", "ok", "invalid_grant", "server_error"}[r.intn(4)], Spec: vfGenTokSpec(r, cfg), Rotate: r.chance(1, 2)}
			}
			acts = append(acts, vfAction{Kind: "req", Req: rq})
		case 6:
			acts = append(acts, vfAction{Kind: "req", Req: &vfReq{Browser: b, Slot: slot, Method: "GET", Target: vfLogoutPath, Tag: 3}})
		case 7:
			acts = append(acts, vfAction{Kind: "tamper", Browser: b, Tamper: []string{"drop", "junk", "truncate", "flip", "swap"}[r.intn(5)],
				Name: []string{"m", "a", "r", "a0"}[r.intn(4)], Name2: []string{"a", "r", "m"}[r.intn(3)]})
		case 8:
			acts = append(acts, vfAction{Kind: "callback", Browser: b, Slot: slot,
				StateMode: []string{"own", "stale", "foreign", "absent", "garbage"}[r.intn(5)],
				CodeMode:  []string{"own", "absent", "garbage", "reused"}[r.intn(4)], From: 1 - b})
		case 9:
			acts = append(acts, vfAction{Kind: "mint", Browser: b, Slot: slot, Mint: &vfMintSpec{Auth: true, Email: "minted@example.com",
				Tok: &vfTokSpec{Sub: "m", Email: "minted@example.com", ExpIn: int64([]int{3600, 30, -30, -300}[r.intn(4)]), IatIn: -600},
				RefreshLen: []int{0, 20, 20}[r.intn(3)], CreatedAgoSec: int64([]int{0, 0, 3600, 90000}[r.intn(4)])}})
		}
	}
	cs.Script.Actions = acts
	return cs
}

func vfWorldCorpus() []*vfWorldCase {
	login := vfLogin(0, 0, "/app?x=1", &vfTokenScript{Kind: "ok", Spec: &vfTokSpec{Sub: "u", Email: "u@example.com", ExpIn: 3600, IatIn: -5, Jti: "jti-corpus-1"}})
	c1 := &vfWorldCase{Kind: "corpus", Script: vfScript{Cfg: vfWorldCfg{PKCE: true, EndSession: true, GraceSec: 60}, Browsers: 1,
		Actions: append(append([]vfAction{}, login...), vfGated(0, 0, "/app", 1), vfGated(0, 0, "/other", 1),
			vfAction{Kind: "req", Req: &vfReq{Browser: 0, Slot: 0, Method: "GET", Target: vfLogoutPath, Tag: 3}}, vfGated(0, 0, "/app", 1))}}
	return []*vfWorldCase{c1}
}

// vfWorldProfile: a generator of scripted histories plus its regression corpus, selected by VERIF_PROFILE.
// Property-specific profiles live in their own files (zz_vf_world_<id>_test.go) and register in init().
type vfWorldProfile struct {
	Gen    func(r *vfRand, id int) *vfWorldCase
	Corpus func() []*vfWorldCase
}

var vfWorldProfiles = map[string]vfWorldProfile{
	"mixed": {Gen: vfGenMixed, Corpus: vfWorldCorpus},
}

func TestVF_World(t *testing.T) {
	out := vfOpenLines(t, "cases.jsonl")
	defer out.close()
	profile := os.Getenv("VERIF_PROFILE")
	r := vfNewRand(vfSeed()).fork(101)
	if rp := vfReplayFile(); rp != "" {
		vfReadLines(t, rp, func(line []byte) {
			var cs vfWorldCase
			if err := json.Unmarshal(line, &cs); err != nil {
				t.Fatal(err)
			}
			cs.Obs, cs.Coq = nil, ""
			vfRunWorldCase(t, &cs, r.fork(uint64(cs.ID)))
			out.put(&cs)
		})
		return
	}
	prof, ok := vfWorldProfiles[profile]
	if !ok {
		prof = vfWorldProfiles["mixed"]
	}
	id := 0
	corpus := vfWorldCorpus()
	if prof.Corpus != nil {
		corpus = append(prof.Corpus(), vfWorldCorpus()...)
	}
	for _, cs := range corpus {
		cs.ID = id
		vfRunWorldCase(t, cs, r.fork(uint64(id)))
		out.put(cs)
		id++
	}
	n := vfEnvInt("VERIF_N", 40)
	for i := 0; i < n; i++ {
		cs := prof.Gen(r, id)
		cs.ID = id
		vfRunWorldCase(t, cs, r.fork(uint64(id)))
		out.put(cs)
		id++
	}
	vfWriteJSON(t, "params.json", map[string]interface{}{"max_cookie_size": vfMaxCookieSize()})
}
