//go:build verif

package traefikoidc

// Accessors through which the discovery harness (property C20) touches
// unexported names of the package.  If a refactor renames one of them only
// this file stops compiling and bin/check reports the broken tie.

import (
	"io"
	"math"
	"net/http"
	"time"
)

// vfDiscAsOidc: the handler returned by New() is the middleware itself
func vfDiscAsOidc(h http.Handler) *TraefikOidc {
	t, _ := h.(*TraefikOidc)
	return t
}

// vfDiscReady: initComplete is closed
func vfDiscReady(t *TraefikOidc) bool {
	select {
	case <-t.initComplete:
		return true
	default:
		return false
	}
}

// vfDiscQuiet silences the instance's error log (hundreds of instances fail on purpose)
func vfDiscQuiet(t *TraefikOidc) {
	if t.logger != nil && t.logger.logError != nil {
		t.logger.logError.SetOutput(io.Discard)
	}
}

// vfDiscEndpoints: issuerURL, authURL, tokenURL, jwksURL, revocationURL, endSessionURL
func vfDiscEndpoints(t *TraefikOidc) [6]string {
	return [6]string{t.issuerURL, t.authURL, t.tokenURL, t.jwksURL, t.revocationURL, t.endSessionURL}
}

// vfDiscCacheView: does the metadata cache hold a document, and its remaining
// lifetime rounded to the nearest minute
func vfDiscCacheView(t *TraefikOidc) (bool, int64) {
	c := t.metadataCache
	c.mutex.RLock()
	defer c.mutex.RUnlock()
	if c.metadata == nil {
		return false, 0
	}
	d := c.expiresAt.Sub(time.Now())
	return true, int64(math.Floor((float64(d) + float64(30*time.Second)) / float64(time.Minute)))
}

// vfDiscShiftExpiry lets d "elapse" for the metadata cache
func vfDiscShiftExpiry(t *TraefikOidc, d time.Duration) {
	c := t.metadataCache
	c.mutex.Lock()
	defer c.mutex.Unlock()
	c.expiresAt = c.expiresAt.Add(-d)
}

// vfDiscRefreshTick is the body of the `for range ticker.C` loop of
// startMetadataRefresh (main.go), which cannot be waited for (1 h ticker)
func vfDiscRefreshTick(t *TraefikOidc, providerURL string) {
	metadata, err := t.metadataCache.GetMetadata(providerURL, t.httpClient, t.logger)
	if err != nil {
		return
	}
	if metadata != nil {
		t.updateMetadataEndpoints(metadata)
	}
}

// vfDiscCleanupTick is what the metadata cache's 5-minute auto-cleanup calls
func vfDiscCleanupTick(t *TraefikOidc) { t.metadataCache.Cleanup() }

// vfDiscBare builds just enough of a TraefikOidc for initializeMetadata to be
// called synchronously (same fields New() sets for it)
func vfDiscBare(client *http.Client) *TraefikOidc {
	t := &TraefikOidc{
		metadataCache: NewMetadataCache(),
		httpClient:    client,
		logger:        NewLogger("error"),
		initComplete:  make(chan struct{}),
	}
	vfDiscQuiet(t)
	return t
}

// vfDiscInitialize runs initializeMetadata to its return
func vfDiscInitialize(t *TraefikOidc, providerURL string) { t.initializeMetadata(providerURL) }

// vfDiscDiscover calls discoverProviderMetadata once; reports whether it succeeded
func vfDiscDiscover(providerURL string, client *http.Client) bool {
	l := NewLogger("error")
	l.logError.SetOutput(io.Discard)
	md, err := discoverProviderMetadata(providerURL, client, l)
	return err == nil && md != nil
}

// vfDiscDefaultClientTimeout: the overall timeout of the HTTP client New() builds when none is configured
func vfDiscDefaultClientTimeout() time.Duration { return createDefaultHTTPClient().Timeout }
