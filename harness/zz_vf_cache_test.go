//go:build verif

package traefikoidc

// Correspondence harness for the generic Cache (properties C12, C13): runs
// generated operation histories on the real Cache and records, after every
// operation, the result and a projection of the real internal state.

import (
	"math"
	"sort"
	"encoding/json"
	"fmt"
	"os"
	"strconv"
	"strings"
	"testing"
	"time"
)

type vfCacheOp struct {
	O   string `json:"o"` // set | get | del | cleanup | adv (adv: time passes, not a cache operation)
	K   int    `json:"k"`
	V   int64  `json:"v,omitempty"`
	TTL int64  `json:"ttl,omitempty"` // ns
	D   int64  `json:"d,omitempty"`   // ns, for adv
}

type vfCacheStep struct {
	T     int64       `json:"t"` // model instant (ns): elapsed virtual time + step index
	Op    vfCacheOp   `json:"op"`
	Hit   bool        `json:"hit"`
	Out   int64       `json:"out"`
	State vfCacheView `json:"state"`
}

type vfCacheCase struct {
	ID    int           `json:"id"`
	Kind  string        `json:"kind"` // generator stream the case came from
	Cap   int           `json:"cap"`
	Wrap  bool          `json:"wrap,omitempty"` // operations go through the TokenCache wrapper (prefixed keys, claims maps) around the cache
	Ops   []vfCacheOp   `json:"ops"`
	Steps []vfCacheStep `json:"steps,omitempty"`
}

// keys are what the middleware uses as keys: short identifiers, and whole tokens of several kilobytes
func vfCacheKey(k int) string {
	if k%7 == 5 {
		return fmt.Sprintf("k%d~%s", k, strings.Repeat("x", 2100+(k%3)*1500))
	}
	return fmt.Sprintf("k%d", k)
}

func vfRunCacheCase(cs *vfCacheCase) {
	c := vfNewCache(cs.Cap)
	var tc *TokenCache
	if cs.Wrap {
		tc = vfWrapCache(c)
	}
	valOf := func(v interface{}) int64 {
		if m, ok := v.(map[string]interface{}); ok { // the wrapper stores claims maps
			v = m["v"]
		}
		if x, ok := v.(int64); ok {
			return x
		}
		return -999
	}
	var vnow int64
	idx := int64(0)
	last := time.Now()
	cs.Steps = cs.Steps[:0]
	// what callers of the token cache use as keys are tokens: three dot-separated parts, the last of which (a signature) can be
	// the same text for different tokens (HMAC tokens over the same header and payload prefix, deliberately forged look-alikes)
	vfCacheKey := vfCacheKey
	if tc != nil {
		vfCacheKey = func(k int) string {
			return fmt.Sprintf("k%d.cGF5bG9hZA.%s%d", k, strings.Repeat("SIGNATUREsignature", 3), (k/2)%5)
		}
	}
	for _, op := range cs.Ops {
		last = vfTick(last)
		if op.O == "adv" {
			vfCacheAdvance(c, time.Duration(op.D))
			vnow += op.D
			continue
		}
		idx++
		st := vfCacheStep{T: vnow + idx, Op: op}
		switch op.O {
		case "set":
			if tc != nil {
				tc.Set(vfCacheKey(op.K), map[string]interface{}{"v": op.V}, time.Duration(op.TTL))
			} else {
				c.Set(vfCacheKey(op.K), op.V, time.Duration(op.TTL))
			}
		case "get":
			var v interface{}
			var ok bool
			if tc != nil {
				var m map[string]interface{}
				m, ok = tc.Get(vfCacheKey(op.K))
				v = m
			} else {
				v, ok = c.Get(vfCacheKey(op.K))
			}
			st.Hit = ok
			if ok {
				st.Out = valOf(v)
			}
		case "del":
			if tc != nil {
				tc.Delete(vfCacheKey(op.K))
			} else {
				c.Delete(vfCacheKey(op.K))
			}
		case "cleanup":
			if tc != nil {
				tc.Cleanup()
			} else {
				c.Cleanup()
			}
		}
		last = time.Now()
		st.State = vfCacheSnapshot(c, valOf)
		if tc != nil { // the wrapper's keys carry its prefix: the model speaks about the caller's keys
			strip := func(k string) string { return strings.TrimPrefix(k, "t-") }
			for i := range st.State.Order {
				st.State.Order[i] = strip(st.State.Order[i])
			}
			for i := range st.State.Items {
				st.State.Items[i].Key = strip(st.State.Items[i].Key)
			}
			for i := range st.State.Elems {
				st.State.Elems[i] = strip(st.State.Elems[i])
			}
			sort.Slice(st.State.Items, func(i, j int) bool { return st.State.Items[i].Key < st.State.Items[j].Key })
			sort.Strings(st.State.Elems)
		}
		cs.Steps = append(cs.Steps, st)
	}
}

var vfTTLHours = []int{-2, -1, 0, 0, 1, 1, 2, 5, 100}
var vfAdvMinutes = []int{1, 30, 59, 60, 61, 120, 299, 300, 301}

func vfGenCacheCase(r *vfRand, id int, profile string) *vfCacheCase {
	cs := &vfCacheCase{ID: id}
	var nops, nkeys int
	switch profile {
	case "C13":
		cs.Kind = "overflow"
		cs.Cap = 1 + r.intn(4)
		nkeys = cs.Cap + 1 + r.intn(3)
		nops = 8 + r.intn(40)
	default:
		cs.Kind = "mixed"
		cs.Wrap = r.chance(1, 4)
		cs.Cap = 1 + r.intn(8)
		nkeys = 2*cs.Cap + 2
		if r.chance(1, 3) { // histories that stay within capacity exercise the completeness clause
			nkeys = 1 + r.intn(cs.Cap)
			cs.Kind = "within-capacity"
		}
		nops = 5 + r.intn(56)
		if r.chance(1, 10) {
			nops = 100 + r.intn(100)
		}
	}
	val := int64(1)
	koff := 0
	if r.chance(1, 2) { // half of the histories have a token-sized key (several kilobytes) among theirs: key numbers 5, 12, 19 ...
		koff = 5
	}
	for i := 0; i < nops; i++ {
		x := r.intn(100)
		k := koff + r.intn(nkeys)
		switch {
		case x < 40:
			ttl := int64(r.pick(vfTTLHours)) * int64(time.Hour)
			if r.chance(1, 12) { // lifetimes of centuries, up to the largest a Duration can express
				ttl = []int64{250 * 365 * 24 * int64(time.Hour), math.MaxInt64, 100 * 365 * 24 * int64(time.Hour), math.MaxInt64 - 1}[r.intn(4)]
			}
			if profile == "C13" {
				ttl = int64(r.pick([]int{-1, 1, 1, 100})) * int64(time.Hour)
			}
			cs.Ops = append(cs.Ops, vfCacheOp{O: "set", K: k, V: val, TTL: ttl})
			val++
		case x < 70:
			cs.Ops = append(cs.Ops, vfCacheOp{O: "get", K: k})
		case x < 78:
			cs.Ops = append(cs.Ops, vfCacheOp{O: "del", K: k})
		case x < 86:
			cs.Ops = append(cs.Ops, vfCacheOp{O: "cleanup"})
		default:
			cs.Ops = append(cs.Ops, vfCacheOp{O: "adv", D: int64(r.pick(vfAdvMinutes)) * int64(time.Minute)})
		}
	}
	return cs
}

// vfEnumLetters: the operation alphabet of the enumeration over `nkeys` keys:
// {set live, set expired-on-arrival, get} per key + {advance past the live TTL}
func vfEnumLetters(nkeys int) []vfCacheOp {
	var letters []vfCacheOp
	for k := 0; k < nkeys; k++ {
		letters = append(letters,
			vfCacheOp{O: "set", K: k, V: 1, TTL: int64(time.Hour)},
			vfCacheOp{O: "set", K: k, V: 2, TTL: -int64(time.Hour)},
			vfCacheOp{O: "get", K: k})
	}
	return append(letters, vfCacheOp{O: "adv", D: int64(61 * time.Minute)})
}

// vfEnumWord builds the case for one word over the alphabet; with prefill the
// cache is first filled to capacity (keys 0..capacity-1, live) so that every
// word of the enumeration acts on a full cache
func vfEnumWord(capacity int, prefill bool, letters []vfCacheOp, idx []int, kind string) *vfCacheCase {
	cs := &vfCacheCase{Kind: kind, Cap: capacity}
	v := int64(1)
	if prefill {
		for k := 0; k < capacity; k++ {
			cs.Ops = append(cs.Ops, vfCacheOp{O: "set", K: k, V: v, TTL: 2 * int64(time.Hour)})
			v++
		}
	}
	for _, i := range idx {
		op := letters[i]
		if op.O == "set" {
			op.V = v
			v++
		}
		cs.Ops = append(cs.Ops, op)
	}
	return cs
}

// vfEnumCacheCases: EVERY history of length n over the alphabet (see vfEnumLetters)
func vfEnumCacheCases(capacity, nkeys, n int, prefill bool, emit func(*vfCacheCase)) {
	letters := vfEnumLetters(nkeys)
	idx := make([]int, n)
	for {
		emit(vfEnumWord(capacity, prefill, letters, idx, "enum"))
		p := n - 1
		for p >= 0 {
			idx[p]++
			if idx[p] < len(letters) {
				break
			}
			idx[p] = 0
			p--
		}
		if p < 0 {
			return
		}
	}
}

// vfEnumSpecs parses "cap:keys:depth[:extra],..." (extra: prefill flag 0/1, or a sample count)
func vfEnumSpecs(s string) [][]int {
	var out [][]int
	for _, part := range strings.Split(s, ",") {
		part = strings.TrimSpace(part)
		if part == "" {
			continue
		}
		var row []int
		for _, f := range strings.Split(part, ":") {
			n, err := strconv.Atoi(f)
			if err != nil {
				panic("bad enumeration spec " + part)
			}
			row = append(row, n)
		}
		if len(row) < 3 {
			panic("bad enumeration spec " + part)
		}
		out = append(out, row)
	}
	return out
}

func TestVF_Cache(t *testing.T) {
	profile := os.Getenv("VERIF_PROFILE")
	if profile == "" {
		profile = "C12"
	}
	out := vfOpenLines(t, "cases.jsonl")
	defer out.close()

	if rp := vfReplayFile(); rp != "" {
		vfReadLines(t, rp, func(line []byte) {
			var cs vfCacheCase
			if err := json.Unmarshal(line, &cs); err != nil {
				t.Fatal(err)
			}
			vfRunCacheCase(&cs)
			out.put(&cs)
		})
		return
	}

	// corpus first
	id := 0
	for _, cs := range vfCacheCorpus() {
		cs.ID = id
		vfRunCacheCase(cs)
		out.put(cs)
		id++
	}
	r := vfNewRand(vfSeed()).fork(12)
	if profile == "C13" {
		// exhaustive part, before the random histories so that the shortest failing cases get the
		// smallest ids: VERIF_ENUM = "cap:keys:depth[:prefill],..." (default: capacity 2, 3 keys, VERIF_ENUM_DEPTH)
		spec := os.Getenv("VERIF_ENUM")
		if spec == "" {
			spec = fmt.Sprintf("2:3:%d", vfEnvInt("VERIF_ENUM_DEPTH", 4))
		}
		for _, e := range vfEnumSpecs(spec) {
			prefill := len(e) > 3 && e[3] != 0
			vfEnumCacheCases(e[0], e[1], e[2], prefill, func(cs *vfCacheCase) {
				cs.ID = id
				vfRunCacheCase(cs)
				out.put(cs)
				id++
			})
		}
	}
	n := vfEnvInt("VERIF_N", 300)
	for i := 0; i < n; i++ {
		cs := vfGenCacheCase(r, id, profile)
		vfRunCacheCase(cs)
		out.put(cs)
		id++
	}
	if profile == "C13" {
		// sampled part (deeper words, drawn from the same PRNG): VERIF_ENUM_SAMPLE = "cap:keys:depth:count,..."
		for _, e := range vfEnumSpecs(os.Getenv("VERIF_ENUM_SAMPLE")) {
			if len(e) < 4 {
				continue
			}
			letters := vfEnumLetters(e[1])
			idx := make([]int, e[2])
			for i := 0; i < e[3]; i++ {
				for j := range idx {
					idx[j] = r.intn(len(letters))
				}
				cs := vfEnumWord(e[0], true, letters, idx, "enum-sample")
				cs.ID = id
				vfRunCacheCase(cs)
				out.put(cs)
				id++
			}
		}
	}
	vfWriteJSON(t, "params.json", map[string]interface{}{
		"default_max_size":  DefaultMaxSize,
		"new_cache_maxsize": vfCacheMaxSize(func() *Cache { c := NewCache(); c.Close(); return c }()),
	})
}

// minimised regression histories, run before anything generated
// a larger cache whose only expired entry sits deep in the recency list (position pos from the LRU end):
// the victim of the next insertion must still be that expired entry, however far the scan has to go
func vfDeepExpiredCase(capacity, pos int) *vfCacheCase {
	h := int64(time.Hour)
	cs := &vfCacheCase{Kind: "corpus-deep", Cap: capacity}
	for k := 0; k < capacity; k++ {
		ttl := 100 * h
		if k == pos {
			ttl = h
		}
		cs.Ops = append(cs.Ops, vfCacheOp{O: "set", K: k, V: int64(k + 1), TTL: ttl})
	}
	cs.Ops = append(cs.Ops, vfCacheOp{O: "adv", D: int64(61 * time.Minute)},
		vfCacheOp{O: "set", K: capacity, V: 999, TTL: h}, vfCacheOp{O: "get", K: 0}, vfCacheOp{O: "get", K: pos})
	return cs
}

func vfCacheCorpus() []*vfCacheCase {
	h := int64(time.Hour)
	m := int64(time.Minute)
	return []*vfCacheCase{
		vfDeepExpiredCase(40, 35), vfDeepExpiredCase(70, 64),
		// through the token-cache wrapper and directly: a value stored right after a Delete of its key is observable; a Delete
		// of an absent key changes nothing (a full cache keeps its entries); long keys among them
		{Kind: "corpus", Cap: 4, Wrap: true, Ops: []vfCacheOp{
			{O: "set", K: 0, V: 1, TTL: h}, {O: "get", K: 0}, {O: "del", K: 0}, {O: "get", K: 0}, {O: "set", K: 0, V: 2, TTL: h}, {O: "get", K: 0},
			{O: "set", K: 5, V: 3, TTL: h}, {O: "del", K: 5}, {O: "set", K: 5, V: 4, TTL: h}, {O: "get", K: 5}, {O: "adv", D: m}, {O: "get", K: 0}, {O: "get", K: 5}}},
		{Kind: "corpus", Cap: 2, Wrap: true, Ops: []vfCacheOp{
			{O: "set", K: 0, V: 1, TTL: h}, {O: "set", K: 1, V: 2, TTL: h}, {O: "del", K: 2}, {O: "get", K: 0}, {O: "get", K: 1}, {O: "del", K: 5}, {O: "del", K: 3},
			{O: "get", K: 0}, {O: "get", K: 1}}},
		{Kind: "corpus", Cap: 2, Ops: []vfCacheOp{
			{O: "set", K: 5, V: 1, TTL: h}, {O: "set", K: 1, V: 2, TTL: h}, {O: "set", K: 2, V: 3, TTL: h}, {O: "set", K: 3, V: 4, TTL: h}, {O: "get", K: 5}, {O: "get", K: 1},
			{O: "set", K: 12, V: 5, TTL: -h}, {O: "set", K: 1, V: 6, TTL: h}, {O: "set", K: 4, V: 7, TTL: h}, {O: "get", K: 12}, {O: "get", K: 4}}},
		{Kind: "corpus", Cap: 2, Ops: []vfCacheOp{ // LRU victim is the least recently *used*, reads count
			{O: "set", K: 0, V: 1, TTL: h}, {O: "set", K: 1, V: 2, TTL: h}, {O: "get", K: 0},
			{O: "set", K: 2, V: 3, TTL: h}, {O: "get", K: 0}, {O: "get", K: 1}, {O: "get", K: 2}}},
		{Kind: "corpus", Cap: 2, Ops: []vfCacheOp{ // an expired entry is preferred over the LRU one
			{O: "set", K: 0, V: 1, TTL: 100 * h}, {O: "set", K: 1, V: 2, TTL: h}, {O: "adv", D: 61 * m},
			{O: "set", K: 2, V: 3, TTL: h}, {O: "get", K: 0}, {O: "get", K: 1}, {O: "get", K: 2}}},
		{Kind: "corpus", Cap: 3, Ops: []vfCacheOp{ // non-positive lifetimes are never observable
			{O: "set", K: 0, V: 1, TTL: 0}, {O: "get", K: 0}, {O: "set", K: 1, V: 2, TTL: -h}, {O: "get", K: 1},
			{O: "set", K: 0, V: 3, TTL: h}, {O: "get", K: 0}}},
		{Kind: "corpus", Cap: 3, Ops: []vfCacheOp{ // cleanup removes expired only; delete; overwrite of an expired key
			{O: "set", K: 0, V: 1, TTL: h}, {O: "set", K: 1, V: 2, TTL: 2 * h}, {O: "adv", D: 61 * m}, {O: "cleanup"},
			{O: "get", K: 1}, {O: "get", K: 0}, {O: "set", K: 0, V: 5, TTL: h}, {O: "del", K: 1}, {O: "get", K: 0}, {O: "get", K: 1}}},
		{Kind: "corpus", Cap: 3, Wrap: true, Ops: []vfCacheOp{ // through the wrapper: a live value re-stored with a non-positive lifetime is gone
			{O: "set", K: 0, V: 1, TTL: h}, {O: "get", K: 0}, {O: "set", K: 0, V: 2, TTL: 0}, {O: "get", K: 0}, {O: "cleanup"}, {O: "get", K: 0},
			{O: "set", K: 1, V: 3, TTL: h}, {O: "set", K: 1, V: 4, TTL: -h}, {O: "get", K: 1}, {O: "del", K: 0}, {O: "get", K: 0}}},
		{Kind: "corpus", Cap: 3, Ops: []vfCacheOp{ // entries that live for centuries (a token with exp=9999999999, an unbounded Duration) are live
			{O: "set", K: 0, V: 1, TTL: 250 * 365 * 24 * h}, {O: "set", K: 1, V: 2, TTL: math.MaxInt64}, {O: "set", K: 2, V: 3, TTL: h},
			{O: "get", K: 0}, {O: "get", K: 1}, {O: "cleanup"}, {O: "get", K: 0}, {O: "get", K: 1}, {O: "adv", D: 61 * m}, {O: "cleanup"},
			{O: "get", K: 2}, {O: "set", K: 3, V: 4, TTL: h}, {O: "get", K: 0}, {O: "get", K: 1}, {O: "get", K: 3}}},
		{Kind: "corpus", Cap: 2, Ops: []vfCacheOp{ // cleanup at 95% of a lifetime keeps the entry
			{O: "set", K: 0, V: 1, TTL: 5 * h}, {O: "adv", D: 299 * m}, {O: "cleanup"}, {O: "get", K: 0}}},
	}
}
