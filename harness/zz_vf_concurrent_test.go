//go:build verif

package traefikoidc

// Concurrency harness for property C05 (supporting runs: testing, not proof).
//  (1) deterministic schedules: an unauthenticated request A is paused at its k-th write to the
//      response (every k), another browser's authenticated request B runs to completion, A resumes;
//  (2) stress: many browsers drive logins, requests, refreshes and logouts concurrently on ONE
//      instance (run under -race by bin/check), with a watchdog for deadlock.
// Every response is checked against what that request alone can explain: the state in a login
// redirect equals the state in the same response's cookie, and no cookie or forwarded header
// carries another browser's e-mail or token.

import (
	"context"
	"encoding/json"
	"fmt"
	"net/http"
	"net/http/httptest"
	"net/url"
	"runtime"
	"runtime/debug"
	"strings"
	"sync"
	"sync/atomic"
	"testing"
	"time"
)

type vfConcDown struct {
	mu   sync.Mutex
	seen map[string]http.Header
}

func (d *vfConcDown) ServeHTTP(w http.ResponseWriter, r *http.Request) {
	d.mu.Lock()
	d.seen[r.Header.Get("X-Vf-Req")] = r.Header.Clone()
	d.mu.Unlock()
	w.WriteHeader(200)
}

func (d *vfConcDown) take(id string) http.Header {
	d.mu.Lock()
	defer d.mu.Unlock()
	h := d.seen[id]
	delete(d.seen, id)
	return h
}

// gated response writer: blocks at the k-th call of Header()
type vfGatedWriter struct {
	*httptest.ResponseRecorder
	n       int32
	at      int32
	reached chan struct{}
	release chan struct{}
}

func (g *vfGatedWriter) Header() http.Header {
	if atomic.AddInt32(&g.n, 1) == g.at {
		close(g.reached)
		<-g.release
	}
	return g.ResponseRecorder.Header()
}

type vfConcBrowser struct {
	email  string
	jar    map[string]string
	tokens map[string]bool
}

type vfConc struct {
	w      *vfWorld
	t      *TraefikOidc
	down   *vfConcDown
	reqSeq int64
	mu     sync.Mutex
	viol   []string
	nreq   int64
}

func (c *vfConc) violate(format string, a ...interface{}) {
	c.mu.Lock()
	if len(c.viol) < 50 {
		c.viol = append(c.viol, fmt.Sprintf(format, a...))
	}
	c.mu.Unlock()
}

func (c *vfConc) send(b *vfConcBrowser, rw http.ResponseWriter, rec *httptest.ResponseRecorder, method, target string) (*httptest.ResponseRecorder, string) {
	id := fmt.Sprintf("r%d", atomic.AddInt64(&c.reqSeq, 1))
	req := httptest.NewRequest(method, "http://app.example.test"+target, nil)
	req.Header.Set("Accept", "text/html")
	req.Header.Set("X-Vf-Req", id)
	// every browser sits at its own network address and user agent (whatever the middleware keeps per client is exercised
	// with many distinct clients at once); a quarter of the requests arrive from an address never seen before
	seq := atomic.LoadInt64(&c.reqSeq)
	h := 0
	for _, ch := range b.email {
		h = h*31 + int(ch)
	}
	addr := fmt.Sprintf("10.%d.%d.%d", (h>>16)&0xff, (h>>8)&0xff, h&0xff)
	if seq%4 == 0 {
		addr = fmt.Sprintf("172.16.%d.%d", (seq>>8)&0xff, seq&0xff)
	}
	req.RemoteAddr = fmt.Sprintf("%s:%d", addr, 40000+seq%20000)
	req.Header.Set("X-Real-Ip", addr)
	req.Header.Set("X-Forwarded-For", addr+", 192.0.2.7")
	req.Header.Set("User-Agent", fmt.Sprintf("vf-browser/%d (%s)", h&0xffff, b.email))
	for n, v := range b.jar {
		req.AddCookie(&http.Cookie{Name: n, Value: v})
	}
	func() {
		defer func() {
			if p := recover(); p != nil {
				c.violate("panic serving %s %s for %s: %v", method, target, b.email, p)
			}
		}()
		c.t.ServeHTTP(rw, req)
	}()
	atomic.AddInt64(&c.nreq, 1)
	return rec, id
}

// check one response against what browser b's request alone can explain; then apply its cookies
func (c *vfConc) check(b *vfConcBrowser, target string, rec *httptest.ResponseRecorder, id string) {
	cookies := vfParseSetCookies(rec.Header())
	codecs := vfInstanceCodecs(c.t)
	var lastMain map[interface{}]interface{}
	m, a, _ := vfCookieNames()
	for _, ck := range cookies {
		vals := map[interface{}]interface{}{}
		if err := vfDecode(codecs, ck.Name, ck.Value, &vals); err != nil {
			c.violate("%s: response to %s carries an undecodable cookie %s", b.email, target, ck.Name)
			continue
		}
		if ck.Name == m {
			lastMain = vals
			if e, _ := vals["email"].(string); e != "" && e != b.email {
				c.violate("%s: response to %s stores another user's e-mail %q", b.email, target, e)
			}
		}
		if ck.Name == a {
			if tok, _ := vals["token"].(string); tok != "" {
				plain := vfDecompress(tok)
				if claims, ok := vfClaimsOf(plain); ok {
					if e, _ := claims["email"].(string); e != b.email {
						c.violate("%s: response to %s stores another user's ID token (%q)", b.email, target, e)
					}
				}
			}
		}
	}
	loc := rec.Header().Get("Location")
	if rec.Code == 302 && strings.HasPrefix(loc, c.w.prov.issuer+"/authorize") {
		u, _ := url.Parse(loc)
		q := u.Query()
		if lastMain == nil {
			c.violate("%s: login redirect for %s without a main cookie", b.email, target)
		} else {
			if s, _ := lastMain["csrf"].(string); s != q.Get("state") {
				c.violate("%s: state in the redirect (%s) differs from the state in the same response's cookie (%s)", b.email, q.Get("state"), s)
			}
			if s, _ := lastMain["nonce"].(string); s != q.Get("nonce") {
				c.violate("%s: nonce in the redirect differs from the nonce in the same response's cookie", b.email)
			}
			if s, _ := lastMain["incoming_path"].(string); s != target {
				c.violate("%s: login redirect for %s remembers another request's URI %q", b.email, target, s)
			}
		}
	}
	if h := c.down.take(id); h != nil {
		if u := h.Get("X-Forwarded-User"); u != b.email {
			c.violate("%s: request %s forwarded as %q", b.email, target, u)
		}
		if tok := h.Get("X-Auth-Request-Token"); tok != "" {
			if claims, ok := vfClaimsOf(tok); ok {
				if e, _ := claims["email"].(string); e != b.email {
					c.violate("%s: request %s forwarded with another user's token (%q)", b.email, target, e)
				}
			}
		}
	}
	for _, ck := range cookies {
		if ck.MaxAge < 0 {
			delete(b.jar, ck.Name)
		} else {
			b.jar[ck.Name] = ck.Value
		}
	}
}

func (c *vfConc) get(b *vfConcBrowser, target string) *httptest.ResponseRecorder {
	rec := httptest.NewRecorder()
	_, id := c.send(b, rec, rec, "GET", target)
	c.check(b, target, rec, id)
	return rec
}

func (c *vfConc) login(b *vfConcBrowser, target string) bool {
	rec := c.get(b, target)
	loc := rec.Header().Get("Location")
	if rec.Code != 302 || !strings.HasPrefix(loc, c.w.prov.issuer+"/authorize") {
		return false
	}
	u, _ := url.Parse(loc)
	q := u.Query()
	code := c.w.prov.authorizeAs(b.email, q.Get("nonce"), q.Get("code_challenge"), q.Get("redirect_uri"))
	cb := c.get(b, vfCallbackPath+"?"+url.Values{"state": {q.Get("state")}, "code": {code}}.Encode())
	if cb.Code != 302 {
		c.violate("%s: login did not complete (callback status %d)", b.email, cb.Code)
		return false
	}
	return true
}

func vfNewConc(t *testing.T, grace int) *vfConc { return vfNewConcRate(t, grace, 0) }

// rateLimit 0: effectively unlimited (the stress phases are not about the limiter); otherwise the configured verifications per second
func vfNewConcRate(t *testing.T, grace, rateLimit int) *vfConc {
	w := vfNewWorld(t, vfWorldCfg{PKCE: true, EndSession: true, GraceSec: grace, RateLimit: rateLimit}, 0, vfNewRand(vfSeed()).fork(5))
	down := &vfConcDown{seen: map[string]http.Header{}}
	h, err := New(context.Background(), down, w.config(vfKeyA), "vf-conc")
	if err != nil {
		t.Fatal(err)
	}
	inst := h.(*TraefikOidc)
	if !vfWaitReady(inst, 10*time.Second) {
		t.Fatal("not ready")
	}
	return &vfConc{w: w, t: inst, down: down}
}

func TestVF_Concurrent(t *testing.T) {
	res := map[string]interface{}{}

	// ---- (1) deterministic schedules
	prevProcs := runtime.GOMAXPROCS(1)
	prevGC := debug.SetGCPercent(-1)
	c := vfNewConc(t, 60)
	bob := &vfConcBrowser{email: "bob@example.com", jar: map[string]string{}}
	if !c.login(bob, "/bob") {
		t.Fatalf("bob could not log in")
	}
	schedules := 0
	for k := int32(1); k <= 16; k++ {
		alice := &vfConcBrowser{email: "alice@example.com", jar: map[string]string{}}
		target := fmt.Sprintf("/alice/%d", k)
		rec := httptest.NewRecorder()
		g := &vfGatedWriter{ResponseRecorder: rec, at: k, reached: make(chan struct{}), release: make(chan struct{})}
		done := make(chan string, 1)
		go func() {
			_, id := c.send(alice, g, rec, "GET", target)
			done <- id
		}()
		var id string
		select {
		case <-g.reached: // A is paused inside its k-th write: run B completely, then let A go on
			c.get(bob, fmt.Sprintf("/bob/%d", k))
			close(g.release)
			id = <-done
		case id = <-done: // A finished before reaching k writes
		case <-time.After(20 * time.Second):
			c.violate("deadlock: paused request never reached yield point %d nor finished", k)
			continue
		}
		c.check(alice, target, rec, id)
		schedules++
	}
	c.w.close()
	runtime.GOMAXPROCS(prevProcs)
	debug.SetGCPercent(prevGC)
	res["schedules"] = schedules

	// ---- (2) stress
	dur := time.Duration(vfEnvInt("VERIF_STRESS_MS", 4000)) * time.Millisecond
	nb := vfEnvInt("VERIF_STRESS_BROWSERS", 24)
	c2 := vfNewConc(t, 7200) // every authenticated request refreshes first: refreshes run concurrently too
	var wg sync.WaitGroup
	stop := time.Now().Add(dur)
	for i := 0; i < nb; i++ {
		wg.Add(1)
		go func(i int) {
			defer wg.Done()
			b := &vfConcBrowser{email: fmt.Sprintf("user%d@example.com", i), jar: map[string]string{}}
			for n := 0; time.Now().Before(stop); n++ {
				if i%5 == 0 { // a returning browser whose session holds an expired ID token and no refresh token: the expired-token
					// path (session saved, cleared, login restarted) runs concurrently with everybody else's logins
					old := vfMintToken(c2.w.prov.issuer, vfClientID, vfTokSpec{Sub: "old", Email: b.email, ExpIn: -600, IatIn: -4000}, vfNewRand(uint64(i*1000+n)))
					if cookies, err := vfMintSession(vfSessionManager(c2.t), true, 0, b.email, old.Token, "", "", "", "", ""); err == nil {
						b.jar = map[string]string{}
						for _, ck := range cookies {
							if ck.MaxAge >= 0 {
								b.jar[ck.Name] = ck.Value
							}
						}
						if r := c2.get(b, fmt.Sprintf("/u%d/returning/%d", i, n)); r.Code == 200 {
							c2.violate("%s: a session holding an expired ID token and no refresh token was forwarded", b.email)
						}
					}
				}
				if !c2.login(b, fmt.Sprintf("/u%d/start/%d", i, n)) {
					c2.violate("%s: a complete login (gated request, provider, callback) did not end in a session although the provider is healthy", b.email)
					return
				}
				for j := 0; j < 4 && time.Now().Before(stop); j++ {
					r := c2.get(b, fmt.Sprintf("/u%d/page/%d", i, j))
					if r.Code != 200 {
						c2.violate("%s: authenticated request answered %d", b.email, r.Code)
					}
				}
				if n%2 == 0 {
					c2.get(b, vfLogoutPath)
				} else {
					b.jar = map[string]string{}
				}
			}
		}(i)
	}
	finished := make(chan struct{})
	go func() { wg.Wait(); close(finished) }()
	select {
	case <-finished:
	case <-time.After(dur + 30*time.Second):
		c2.violate("deadlock: %d browsers did not finish within %s", nb, dur+30*time.Second)
	}
	c2.w.close()
	// ---- (3) key-set refetch under concurrency: keys loaded, expired and dropped by the cleanup tick,
	// then two browsers' refreshing requests overlap one slow JWKS fetch
	c3 := vfNewConc(t, 7200)
	jwksRounds := 0
	if vfJWKSetLifetime(c3.t, 120*time.Millisecond) {
		al := &vfConcBrowser{email: "alice@example.com", jar: map[string]string{}}
		bo := &vfConcBrowser{email: "bob@example.com", jar: map[string]string{}}
		if !c3.login(al, "/alice/j") || !c3.login(bo, "/bob/j") {
			t.Fatalf("phase 3: logins failed")
		}
		for round := 0; round < 3; round++ {
			c3.get(al, "/alice/warm") // loads the key set (fresh ID token from the refresh must be verified)
			time.Sleep(200 * time.Millisecond)
			vfJWKCleanup(c3.t)
			gate, arrived := make(chan struct{}), make(chan struct{}, 1)
			c3.w.prov.mu.Lock()
			c3.w.prov.jwksGate, c3.w.prov.jwksArrived = gate, arrived
			c3.w.prov.mu.Unlock()
			type out struct {
				rec *httptest.ResponseRecorder
				id  string
			}
			ach, bch := make(chan out, 1), make(chan out, 1)
			go func() {
				rec := httptest.NewRecorder()
				_, id := c3.send(al, rec, rec, "GET", fmt.Sprintf("/alice/j/%d", round))
				ach <- out{rec, id}
			}()
			select {
			case <-arrived:
			case <-time.After(5 * time.Second): // no fetch happened (keys still cached): nothing to overlap
			}
			go func() {
				rec := httptest.NewRecorder()
				_, id := c3.send(bo, rec, rec, "GET", fmt.Sprintf("/bob/j/%d", round))
				bch <- out{rec, id}
			}()
			time.Sleep(150 * time.Millisecond)
			c3.w.prov.mu.Lock()
			c3.w.prov.jwksGate, c3.w.prov.jwksArrived = nil, nil
			c3.w.prov.mu.Unlock()
			close(gate)
			for i, ch := range []chan out{ach, bch} {
				b, tgt := al, fmt.Sprintf("/alice/j/%d", round)
				if i == 1 {
					b, tgt = bo, fmt.Sprintf("/bob/j/%d", round)
				}
				select {
				case o := <-ch:
					if o.rec.Code != 200 {
						c3.violate("key-set refetch: %s's authenticated request answered %d while another request was fetching the keys", b.email, o.rec.Code)
					}
					c3.check(b, tgt, o.rec, o.id)
				case <-time.After(20 * time.Second):
					c3.violate("deadlock: %s's request did not finish after the key-set fetch was released", b.email)
				}
			}
			jwksRounds++
		}
	}
	c3.w.close()
	// ---- (4) a token endpoint behind a gateway that redirects and keeps each transaction in a cookie: the code exchanges
	// and refreshes of many browsers overlap; every browser must still get its OWN provider answer
	c4 := vfNewConc(t, 7200)
	c4.w.prov.mu.Lock()
	c4.w.prov.txnRedirect, c4.w.prov.txnWait = true, 25*time.Millisecond
	c4.w.prov.mu.Unlock()
	var wg4 sync.WaitGroup
	stop4 := time.Now().Add(time.Duration(vfEnvInt("VERIF_TXN_MS", 1500)) * time.Millisecond)
	for i := 0; i < 10; i++ {
		wg4.Add(1)
		go func(i int) {
			defer wg4.Done()
			b := &vfConcBrowser{email: fmt.Sprintf("txn%d@example.com", i), jar: map[string]string{}}
			for n := 0; time.Now().Before(stop4); n++ {
				if !c4.login(b, fmt.Sprintf("/t%d/start/%d", i, n)) {
					c4.violate("%s: a complete login did not end in a session although the provider (token endpoint behind redirects) is healthy", b.email)
					return
				}
				for j := 0; j < 3 && time.Now().Before(stop4); j++ {
					if r := c4.get(b, fmt.Sprintf("/t%d/page/%d", i, j)); r.Code != 200 {
						c4.violate("%s: authenticated request answered %d (token endpoint behind redirects)", b.email, r.Code)
					}
				}
				b.jar = map[string]string{}
			}
		}(i)
	}
	fin4 := make(chan struct{})
	go func() { wg4.Wait(); close(fin4) }()
	select {
	case <-fin4:
	case <-time.After(40 * time.Second):
		c4.violate("deadlock: browsers did not finish (token endpoint behind redirects)")
	}
	c4.w.close()
	// ---- (5) the DEFAULT verification rate limit (100 per second): twelve browsers complete their logins at the same moment --
	// far below the limit; each of them gets the answer it would get alone
	c5 := vfNewConcRate(t, 60, 100)
	var wg5 sync.WaitGroup
	start5 := make(chan struct{})
	for i := 0; i < 12; i++ {
		wg5.Add(1)
		go func(i int) {
			defer wg5.Done()
			b := &vfConcBrowser{email: fmt.Sprintf("burst%d@example.com", i), jar: map[string]string{}}
			rec := c5.get(b, fmt.Sprintf("/b%d/start", i))
			loc := rec.Header().Get("Location")
			u, err := url.Parse(loc)
			if rec.Code != 302 || err != nil {
				c5.violate("%s: no login redirect (status %d)", b.email, rec.Code)
				return
			}
			q := u.Query()
			code := c5.w.prov.authorizeAs(b.email, q.Get("nonce"), q.Get("code_challenge"), q.Get("redirect_uri"))
			<-start5
			cb := c5.get(b, vfCallbackPath+"?"+url.Values{"state": {q.Get("state")}, "code": {code}}.Encode())
			if cb.Code != 302 {
				c5.violate("%s: one of twelve simultaneous logins (verification limit 100 per second) was answered %d instead of completing", b.email, cb.Code)
				return
			}
			if r := c5.get(b, fmt.Sprintf("/b%d/page", i)); r.Code != 200 {
				c5.violate("%s: request after a simultaneous login answered %d", b.email, r.Code)
			}
		}(i)
	}
	time.Sleep(300 * time.Millisecond)
	close(start5)
	fin5 := make(chan struct{})
	go func() { wg5.Wait(); close(fin5) }()
	select {
	case <-fin5:
	case <-time.After(40 * time.Second):
		c5.violate("deadlock: simultaneous logins did not finish")
	}
	c5.w.close()
	res["txn_redirect_requests"] = atomic.LoadInt64(&c4.nreq)
	res["jwks_refetch_rounds"] = jwksRounds
	res["stress_requests"] = atomic.LoadInt64(&c2.nreq)
	res["stress_browsers"] = nb
	res["violations"] = append(append(append(append(append([]string{}, c.viol...), c2.viol...), c3.viol...), c4.viol...), c5.viol...)
	b, _ := json.Marshal(res)
	vfWriteJSON(t, "concurrent.json", json.RawMessage(b))
}

// TestVF_ConcurrentTick (run WITHOUT the race detector: the unsynchronised endpoint fields are a recorded observation,
// DESIGN.md section 11 (i)): the hourly metadata refresh, executed in a tight loop, overlaps login redirects, callbacks
// and authenticated requests of many browsers on one instance.  Judged: no deadlock (watchdog), no panic, every response
// explainable by its own request (same monitor as the stress run).
func TestVF_ConcurrentTick(t *testing.T) {
	res := map[string]interface{}{}
	c := vfNewConc(t, 60)
	dur := time.Duration(vfEnvInt("VERIF_TICK_MS", 1500)) * time.Millisecond
	stop := time.Now().Add(dur)
	var ticks int64
	var wg sync.WaitGroup
	wg.Add(1)
	go func() {
		defer wg.Done()
		for time.Now().Before(stop) {
			vfDiscShiftExpiry(c.t, 2*time.Hour) // the cached document is stale: the tick really fetches and rewrites the endpoints
			vfDiscRefreshTick(c.t, c.w.prov.issuer)
			atomic.AddInt64(&ticks, 1)
		}
	}()
	for i := 0; i < 12; i++ {
		wg.Add(1)
		go func(i int) {
			defer wg.Done()
			b := &vfConcBrowser{email: fmt.Sprintf("tick%d@example.com", i), jar: map[string]string{}}
			for n := 0; time.Now().Before(stop); n++ {
				if i%3 == 0 { // login redirects only (they build the authorization URL from the endpoint fields)
					anon := &vfConcBrowser{email: b.email, jar: map[string]string{}}
					c.get(anon, fmt.Sprintf("/t%d/anon/%d", i, n))
					continue
				}
				if !c.login(b, fmt.Sprintf("/t%d/start/%d", i, n)) {
					return
				}
				c.get(b, fmt.Sprintf("/t%d/page/%d", i, n))
				c.get(b, vfLogoutPath)
			}
		}(i)
	}
	fin := make(chan struct{})
	go func() { wg.Wait(); close(fin) }()
	select {
	case <-fin:
	case <-time.After(dur + 25*time.Second):
		c.violate("deadlock: requests and the metadata refresh did not finish within %s of a %s run (login redirects blocked by the refresh?)", dur+25*time.Second, dur)
	}
	res["ticks"] = atomic.LoadInt64(&ticks)
	res["requests"] = atomic.LoadInt64(&c.nreq)
	res["violations"] = append([]string{}, c.viol...)
	b, _ := json.Marshal(res)
	vfWriteJSON(t, "concurrent_tick.json", json.RawMessage(b))
	// no c.w.close(): blocked goroutines (if any) would make it hang; the process ends with the test
}
