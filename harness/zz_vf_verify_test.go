//go:build verif

package traefikoidc

// Correspondence harness for VerifyToken / RevokeToken histories (property C14):
// token sets (valid long-lived, short-lived, expired, invalid for each reason,
// and tokens that share the signature segment or the payload of a valid one),
// histories of verify / revoke / wait steps on one instance built with New().
// "wait" is a real sleep (short) or a shift of both caches' expiry times (long).

import (
	"net/http/httptest"
	"encoding/json"
	"fmt"
	"strings"
	"sync"
	"testing"
	"time"
)

type vfVTok struct {
	Kind string     `json:"kind"` // minted | same_sig_other_payload | same_payload_other_sig | alg_none_same_sig | garbage
	Spec *vfTokSpec `json:"spec,omitempty"`
	Base int        `json:"base"` // for derived tokens: index of the token they are derived from
}

type vfVStep struct {
	Op   string `json:"op"` // verify | revoke | sleep | shift
	Tok  int    `json:"tok"`
	Ms   int64  `json:"ms,omitempty"`
	Hour int64  `json:"hours,omitempty"`
}

type vfVObs struct {
	Now      int64 `json:"now"` // ns since base, including shifts
	Accepted bool  `json:"accepted"`
	Cached   bool  `json:"cached"` // the verification cache holds an unexpired entry for the token afterwards
}

type vfVCase struct {
	ID     int       `json:"id"`
	Kind   string    `json:"kind"`
	Toks   []vfVTok  `json:"toks"`
	Steps  []vfVStep `json:"steps"`
	Obs    []vfVObs  `json:"obs,omitempty"`
	Coq    string    `json:"coq,omitempty"`
}

func vfRunVerifyCase(t testing.TB, cs *vfVCase, r *vfRand) {
	w := vfNewWorld(t, vfWorldCfg{GraceSec: 60}, 0, r)
	defer w.close()
	inst := w.inst(0).t
	// build the tokens
	strs := make([]string, len(cs.Toks))
	infos := make([]string, len(cs.Toks))
	for i, vt := range cs.Toks {
		switch vt.Kind {
		case "minted":
			m := vfMintToken(w.prov.issuer, vfClientID, *vt.Spec, r)
			strs[i] = m.Token
			infos[i] = w.tokinfoTerm(&m)
		case "same_sig_other_payload", "alg_none_same_sig", "same_payload_other_sig":
			base := strs[vt.Base]
			parts := strings.Split(base, ".")
			switch vt.Kind {
			case "same_sig_other_payload":
				parts[1] = vfB64([]byte(fmt.Sprintf(`{"iss":%q,"aud":%q,"sub":"admin","email":"root@example.com","exp":%d,"iat":%d}`,
					w.prov.issuer, vfClientID, time.Now().Unix()+360000, time.Now().Unix()-5)))
			case "alg_none_same_sig":
				parts[0] = vfB64([]byte(`{"alg":"none","typ":"JWT","kid":"vf-key-1"}`))
			case "same_payload_other_sig":
				other := vfMintToken(w.prov.issuer, vfClientID, vfTokSpec{Sub: "x", Email: "x@example.com", ExpIn: 3600, IatIn: -5}, r)
				parts[2] = strings.Split(other.Token, ".")[2]
			}
			strs[i] = strings.Join(parts, ".")
			// never acceptable (the signature does not cover these bytes); claims readable; times irrelevant
			infos[i] = fmt.Sprintf("(mkTok false true %s %s None 0 0 0 ClAbsent ClAbsent)", vfZ(360000), vfZ(-5))
		default:
			strs[i] = "not.a.token"
			infos[i] = "no_token"
		}
	}
	var shift int64
	obs := []string{}
	cs.Obs = nil
	for _, st := range cs.Steps {
		switch st.Op {
		case "sleep":
			time.Sleep(time.Duration(st.Ms) * time.Millisecond)
		case "shift":
			d := time.Duration(st.Hour) * time.Hour
			vfCacheAdvance(inst.tokenCache.cache, d)
			vfCacheAdvance(inst.tokenBlacklist, d)
			shift += int64(d)
		case "session":
			// an ordinary request of a browser whose session holds this token goes through the middleware: whatever it
			// does with its caches on the way, the next verdict of VerifyToken is judged as before
			if cookies, err := vfMintSession(vfSessionManager(inst), true, 0, "u@example.com", strs[st.Tok], "", "", "", "", ""); err == nil {
				req := httptest.NewRequest("GET", "http://app.example.test/app", nil)
				for _, c := range cookies {
					if c.MaxAge >= 0 {
						req.AddCookie(c)
					}
				}
				inst.ServeHTTP(httptest.NewRecorder(), req)
			}
		case "peer":
			// another application of the same provider, running in the same process, is shown the token (a token issued to
			// some-other-client is ITS token): whatever it concludes is its business and changes nothing here
			w.peerInstance().VerifyToken(strs[st.Tok])
		case "revoke":
			now := time.Since(w.base).Nanoseconds() + shift
			inst.RevokeToken(strs[st.Tok])
			obs = append(obs, fmt.Sprintf("(VRevoke %d, %s, false, false)", w.in.id(strs[st.Tok]), vfZ(now)))
			cs.Obs = append(cs.Obs, vfVObs{Now: now})
		case "verify":
			now := time.Since(w.base).Nanoseconds() + shift
			err := inst.VerifyToken(strs[st.Tok])
			_, cached := inst.tokenCache.Get(strs[st.Tok])
			obs = append(obs, fmt.Sprintf("(VVerify %d, %s, %s, %s)", w.in.id(strs[st.Tok]), vfZ(now), vfBool(err == nil), vfBool(cached)))
			cs.Obs = append(cs.Obs, vfVObs{Now: now, Accepted: err == nil, Cached: cached})
		}
	}
	var toks []string
	for i := range strs {
		toks = append(toks, fmt.Sprintf("(%d, %s)", w.in.id(strs[i]), infos[i]))
	}
	cs.Coq = fmt.Sprintf("(mkVCase %d [%s] [%s])", cs.ID, strings.Join(toks, "; "), strings.Join(obs, "; "))
}

func vfGenVerifyCase(r *vfRand, id int) *vfVCase {
	cs := &vfVCase{ID: id, Kind: "verify-history"}
	robust := r.chance(1, 3) // only tokens whose verdict cannot change within days: long waits allowed
	nt := 2 + r.intn(4)
	for i := 0; i < nt; i++ {
		sp := vfTokSpec{Sub: fmt.Sprintf("u%d", i), Email: "u@example.com", ExpIn: 3600, IatIn: -5}
		if r.chance(1, 2) {
			sp.Jti = fmt.Sprintf("jti-%d-%x", id, r.next())
		}
		if robust {
			sp.ExpIn = int64([]int{600000, 600000, -400, 700000}[r.intn(4)]) // far beyond the total simulated wait (<= 120 h)
			sp.IatIn = -500
		} else {
			switch r.intn(8) {
			case 0:
				sp.ExpIn = 2 // expires during the history
			case 1:
				sp.ExpIn = -60
				sp.IatIn = -600 // expired, inside the tolerance: acceptable but never cacheable
			case 2:
				sp.ExpIn = -300
				sp.IatIn = -900
			case 3:
				sp.BadSig = true
			case 4:
				sp.WrongAud = true
			case 5:
				sp.NbfIn = vfPtr64(3600)
			case 6:
				sp.Sub = "" // correctly signed, every other claim present, no subject: never acceptable, whatever was verified before it
			}
		}
		spc := sp
		cs.Toks = append(cs.Toks, vfVTok{Kind: "minted", Spec: &spc})
	}
	// tokens derived from the first (usually valid) one
	for _, k := range []string{"same_sig_other_payload", "alg_none_same_sig", "same_payload_other_sig"} {
		if r.chance(1, 2) {
			cs.Toks = append(cs.Toks, vfVTok{Kind: k, Base: 0})
		}
	}
	if r.chance(1, 4) {
		cs.Toks = append(cs.Toks, vfVTok{Kind: "garbage"})
	}
	n := 4 + r.intn(14)
	slept := 0
	shifted := int64(0)
	for i := 0; i < n; i++ {
		k := r.intn(len(cs.Toks))
		switch x := r.intn(10); {
		case x < 6:
			cs.Steps = append(cs.Steps, vfVStep{Op: "verify", Tok: k})
		case x < 7:
			cs.Steps = append(cs.Steps, vfVStep{Op: "revoke", Tok: k}, vfVStep{Op: "verify", Tok: k})
		case x < 8:
			if r.chance(1, 2) {
				cs.Steps = append(cs.Steps, vfVStep{Op: "peer", Tok: k}, vfVStep{Op: "verify", Tok: k})
				break
			}
			cs.Steps = append(cs.Steps, vfVStep{Op: "session", Tok: k}, vfVStep{Op: "verify", Tok: k})
		case x == 8 && robust && shifted < 90:
			h := int64([]int{1, 23, 25, 30}[r.intn(4)])
			shifted += h
			cs.Steps = append(cs.Steps, vfVStep{Op: "shift", Hour: h})
		case x == 9 && !robust && slept < 1:
			cs.Steps = append(cs.Steps, vfVStep{Op: "sleep", Ms: 2600})
			slept++
		default:
			cs.Steps = append(cs.Steps, vfVStep{Op: "verify", Tok: 0})
		}
	}
	return cs
}

func vfVerifyCorpus() []*vfVCase {
	valid := vfTokSpec{Sub: "u", Email: "u@example.com", ExpIn: 3600, IatIn: -5, Jti: "jti-corpus-v"}
	long := vfTokSpec{Sub: "u", Email: "u@example.com", ExpIn: 600000, IatIn: -500}
	// 3 s before the END of the expiry tolerance: accepted now, and whatever is cached, rejected once the tolerance is over
	edge := vfTokSpec{Sub: "u", Email: "u@example.com", ExpIn: -117, IatIn: -900}
	edgeJ := vfTokSpec{Sub: "u", Email: "u@example.com", ExpIn: -117, IatIn: -900, Jti: "jti-corpus-edge"}
	rv2 := vfTokSpec{Sub: "held", Email: "u@example.com", ExpIn: 3600, IatIn: -5, Jti: "jti-corpus-held"}
	rv3 := vfTokSpec{Sub: "held2", Email: "u@example.com", ExpIn: 3600, IatIn: -5}
	crowd := &vfVCase{Kind: "corpus-crowd"}
	rv := vfTokSpec{Sub: "revoked", Email: "u@example.com", ExpIn: 3600, IatIn: -5, Jti: "jti-corpus-revoked"}
	crowd.Toks = append(crowd.Toks, vfVTok{Kind: "minted", Spec: &rv})
	crowd.Steps = append(crowd.Steps, vfVStep{Op: "verify", Tok: 0}, vfVStep{Op: "revoke", Tok: 0}, vfVStep{Op: "verify", Tok: 0})
	for i := 1; i <= 300; i++ {
		sp := vfTokSpec{Sub: fmt.Sprintf("c%d", i), Email: "u@example.com", ExpIn: 3600, IatIn: -5, Jti: fmt.Sprintf("jti-corpus-crowd-%d", i)}
		crowd.Toks = append(crowd.Toks, vfVTok{Kind: "minted", Spec: &sp})
		crowd.Steps = append(crowd.Steps, vfVStep{Op: "verify", Tok: i}, vfVStep{Op: "verify", Tok: i})
	}
	crowd.Steps = append(crowd.Steps, vfVStep{Op: "verify", Tok: 0}, vfVStep{Op: "verify", Tok: 0})
	// verify, revoke, then the browser that still holds the token sends an ordinary request: still revoked afterwards
	held := &vfVCase{Kind: "corpus", Toks: []vfVTok{{Kind: "minted", Spec: &rv2}, {Kind: "minted", Spec: &rv3}},
		Steps: []vfVStep{{Op: "verify", Tok: 0}, {Op: "revoke", Tok: 0}, {Op: "verify", Tok: 0}, {Op: "session", Tok: 0}, {Op: "verify", Tok: 0},
			{Op: "session", Tok: 1}, {Op: "verify", Tok: 1}, {Op: "revoke", Tok: 1}, {Op: "session", Tok: 1}, {Op: "session", Tok: 1}, {Op: "verify", Tok: 1}}}
	// two applications of one provider in one process: each one's tokens are the other's wrong-audience tokens, whoever sees them first
	theirs := vfTokSpec{Sub: "peer-user", Email: "p@example.com", ExpIn: 3600, IatIn: -5, WrongAud: true, Jti: "jti-corpus-peer"}
	mine := vfTokSpec{Sub: "my-user", Email: "u@example.com", ExpIn: 3600, IatIn: -5}
	peers := &vfVCase{Kind: "corpus", Toks: []vfVTok{{Kind: "minted", Spec: &theirs}, {Kind: "minted", Spec: &mine}},
		Steps: []vfVStep{{Op: "peer", Tok: 0}, {Op: "verify", Tok: 0}, {Op: "verify", Tok: 1}, {Op: "peer", Tok: 1}, {Op: "verify", Tok: 1},
			{Op: "revoke", Tok: 1}, {Op: "peer", Tok: 1}, {Op: "verify", Tok: 1}, {Op: "peer", Tok: 0}, {Op: "verify", Tok: 0}}}
	// tokens that "never expire" (exp = 9999999999, the year 2286, and beyond): revoked means revoked for them too
	far := vfTokSpec{Sub: "svc", Email: "svc@example.com", ExpIn: 9999999999 - time.Now().Unix(), IatIn: -5, Jti: "jti-corpus-far"}
	far2 := vfTokSpec{Sub: "svc2", Email: "svc@example.com", ExpIn: 9999999999 - time.Now().Unix(), IatIn: -5}
	far3 := vfTokSpec{Sub: "svc3", Email: "svc@example.com", ExpIn: 99999999999, IatIn: -5}
	never := &vfVCase{Kind: "corpus", Toks: []vfVTok{{Kind: "minted", Spec: &far}, {Kind: "minted", Spec: &far2}, {Kind: "minted", Spec: &far3}},
		Steps: []vfVStep{{Op: "verify", Tok: 0}, {Op: "verify", Tok: 0}, {Op: "revoke", Tok: 0}, {Op: "verify", Tok: 0}, {Op: "verify", Tok: 0},
			{Op: "revoke", Tok: 1}, {Op: "verify", Tok: 1}, {Op: "verify", Tok: 2}, {Op: "revoke", Tok: 2}, {Op: "verify", Tok: 2}, {Op: "session", Tok: 2}, {Op: "verify", Tok: 2}}}
	// a revocation list that is exactly full (500 revocations), one of them repeated: every one of them still holds
	full := &vfVCase{Kind: "corpus-full-list"}
	for i := 0; i < 500; i++ {
		sp := vfTokSpec{Sub: fmt.Sprintf("f%d", i), Email: "u@example.com", ExpIn: 3600, IatIn: -5, NoFlavour: true}
		full.Toks = append(full.Toks, vfVTok{Kind: "minted", Spec: &sp})
		full.Steps = append(full.Steps, vfVStep{Op: "revoke", Tok: i})
	}
	full.Steps = append(full.Steps, vfVStep{Op: "verify", Tok: 0}, vfVStep{Op: "revoke", Tok: 499}, vfVStep{Op: "verify", Tok: 0}, vfVStep{Op: "verify", Tok: 1},
		vfVStep{Op: "revoke", Tok: 250}, vfVStep{Op: "verify", Tok: 2}, vfVStep{Op: "verify", Tok: 499})
	return []*vfVCase{
		crowd, held, peers, never, full,
		{Kind: "corpus", Toks: []vfVTok{{Kind: "minted", Spec: &edge}, {Kind: "minted", Spec: &edgeJ}},
			Steps: []vfVStep{{Op: "verify", Tok: 0}, {Op: "verify", Tok: 1}, {Op: "verify", Tok: 0}, {Op: "sleep", Ms: 4300},
				{Op: "verify", Tok: 0}, {Op: "verify", Tok: 1}, {Op: "verify", Tok: 0}}},
		{Kind: "corpus", Toks: []vfVTok{{Kind: "minted", Spec: &valid}, {Kind: "same_sig_other_payload", Base: 0}, {Kind: "alg_none_same_sig", Base: 0}},
			Steps: []vfVStep{{Op: "verify", Tok: 1}, {Op: "verify", Tok: 0}, {Op: "verify", Tok: 1}, {Op: "verify", Tok: 2}, {Op: "verify", Tok: 0},
				{Op: "revoke", Tok: 0}, {Op: "verify", Tok: 0}, {Op: "verify", Tok: 0}}},
		{Kind: "corpus", Toks: []vfVTok{{Kind: "minted", Spec: &long}},
			Steps: []vfVStep{{Op: "verify", Tok: 0}, {Op: "revoke", Tok: 0}, {Op: "verify", Tok: 0}, {Op: "shift", Hour: 25}, {Op: "verify", Tok: 0},
				{Op: "shift", Hour: 30}, {Op: "verify", Tok: 0}}},
	}
}

func TestVF_Verify(t *testing.T) {
	out := vfOpenLines(t, "cases.jsonl")
	defer out.close()
	r := vfNewRand(vfSeed()).fork(14)
	if rp := vfReplayFile(); rp != "" {
		vfReadLines(t, rp, func(line []byte) {
			var cs vfVCase
			if err := json.Unmarshal(line, &cs); err != nil {
				t.Fatal(err)
			}
			vfRunVerifyCase(t, &cs, r.fork(uint64(cs.ID)))
			out.put(&cs)
		})
		vfWriteJSON(t, "params.json", map[string]interface{}{})
		return
	}
	var all []*vfVCase
	for _, cs := range vfVerifyCorpus() {
		cs.ID = len(all)
		all = append(all, cs)
	}
	n := vfEnvInt("VERIF_N", 60)
	for i := 0; i < n; i++ {
		all = append(all, vfGenVerifyCase(r, len(all)))
	}
	// cases are independent (own provider and instance); several sleep for real, so run them side by side
	rands := make([]*vfRand, len(all))
	for i := range all {
		rands[i] = r.fork(uint64(i))
	}
	work := make(chan int)
	var wg sync.WaitGroup
	for k := 0; k < 12; k++ {
		wg.Add(1)
		go func() {
			defer wg.Done()
			for i := range work {
				vfRunVerifyCase(t, all[i], rands[i])
			}
		}()
	}
	for i := range all {
		work <- i
	}
	close(work)
	wg.Wait()
	for _, cs := range all {
		out.put(cs)
	}
	vfWriteJSON(t, "params.json", map[string]interface{}{})
}
