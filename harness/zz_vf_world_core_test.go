//go:build verif

package traefikoidc

// World harness core: deployments, instances built through New(), browsers with
// cookie jars, the abstraction of observations into Gallina terms (interned
// strings, decoded cookies, structured locations) and the step runner.

import (
	"sync"
	"io"
	"compress/gzip"
	"bufio"
	"bytes"
	"context"
	"crypto/sha256"
	"encoding/base64"
	"encoding/json"
	"fmt"
	htmlpkg "html"
	"net/http"
	"net/http/httptest"
	"net/url"
	"regexp"
	"sort"
	"strconv"
	"strings"
	"text/template"
	"time"
	"unicode/utf8"

	"github.com/gorilla/securecookie"
)

func vfNewRecorder() *httptest.ResponseRecorder { return httptest.NewRecorder() }

func vfParseSetCookies(h http.Header) []*http.Cookie {
	resp := http.Response{Header: h}
	return resp.Cookies()
}

// ---- configuration of a deployment (part of a case's script)

type vfTemplate struct {
	Name  string `json:"name"`
	Value string `json:"value"`
}

type vfWorldCfg struct {
	PKCE       bool         `json:"pkce"`
	ForceHTTPS bool         `json:"force_https"`
	Domains    []string     `json:"domains"`
	Roles      []string     `json:"roles"`
	GraceSec   int          `json:"grace_sec"`
	PostLogout string       `json:"post_logout"`
	Excluded   []string     `json:"excluded"`
	EndSession bool         `json:"end_session"`
	Templates  []vfTemplate `json:"templates"`
	RateLimit  int          `json:"rate_limit"`
	// "" : the provider advertises no revocation endpoint; "ok" / "fail": it does, and answers 200 / 503
	Revocation string `json:"revocation,omitempty"`
	// X-Forwarded-Proto carried by every request of this world that does not set its own ("" = none)
	ClientProto string `json:"client_proto,omitempty"`
	// the deployment's and the foreign deployment's session keys are long (> 100 bytes) and differ only near the end
	LongKeys bool `json:"long_keys,omitempty"`
	KeyStyle string `json:"key_style,omitempty"` // newline | padded | blank (see keyA / keyB)
	// what the provider advertises as code_challenge_methods_supported (nil: nothing)
	ChallengeMethods []string `json:"challenge_methods,omitempty"`
	TxnRedirect bool `json:"txn_redirect,omitempty"` // the token endpoint answers through redirects carrying a transaction cookie
	// the foreign deployment uses the key the plugin falls back to when none is configured (it is in the source: public)
	ForeignDefaultKey bool `json:"foreign_default_key,omitempty"`
	// the browser also holds cookies of OTHER applications on the same host whose names merely contain the middleware's
	ForeignCookies bool `json:"foreign_cookies,omitempty"`
}

const (
	vfCallbackPath = "/oauth2/callback"
	vfLogoutPath   = "/oauth2/logout"
	vfClientID     = "vf-client"
	vfKeyA         = "vf-session-key-A-0123456789abcdef0123456789abcdef"
	vfKeyB         = "vf-session-key-B-fedcba9876543210fedcba9876543210"
	vfKeyLongBase  = "vf-long-session-key/0123456789abcdef0123456789abcdef0123456789abcdef0123456789abcdef0123456789abcdef0123456789abcdef/0123456789"
	vfKeyLongA     = vfKeyLongBase + "-production"
	vfKeyLongB     = vfKeyLongBase + "-staging"
)

// ---- downstream recorder

type vfDownstream struct {
	calls   int
	headers http.Header
	uri     string
}

func (d *vfDownstream) ServeHTTP(w http.ResponseWriter, r *http.Request) {
	d.calls++
	d.headers = r.Header.Clone()
	d.uri = r.URL.RequestURI()
	w.WriteHeader(200)
	w.Write([]byte("downstream"))
}

// ---- a deployment: provider + instances sharing one key and configuration

type vfInstance struct {
	t     *TraefikOidc
	down  *vfDownstream
	idx   int    // index in the case (fresh instance = new index)
	realm string // "" the provider's main realm; "/realms/b": a second tenant served by the SAME provider host
}

type vfWorld struct {
	tb        testingTB
	cfg       vfWorldCfg
	prov      *vfProvider
	insts     []*vfInstance // every instance ever created in this case
	slots     []int         // slot -> index into insts (a slot is what the script addresses)
	peer      *TraefikOidc  // another application (client ID) of the same provider in this process
	foreign   *TraefikOidc  // an instance of ANOTHER deployment (other key), used only to mint/decode foreign cookies
	browsers  []*vfBrowser
	base      time.Time
	baseUnix  int64
	r         *vfRand
	in        *vfIntern
	steps     []string // Gallina terms of the steps
	stepObs   []map[string]interface{}
	tokens    map[string]*vfMinted
	tokOrder  []string
	textOwner []string // strings stored through SetAccessToken/SetRefreshToken (for chunk recognition)
	compCache map[string]string
	tmpls     []*template.Template
	tmplUsed  map[string]bool
	tmplRows  []string
	incoming  []string // return URIs seen in main cookies
	ownCodecs map[string][]securecookie.Codec
	cfgObjs   map[string]*Config
	listJoins map[string][]string // header text of a list claim -> the claim's values
	issuedVals map[string][]string // "state" / "nonce" -> values seen in login redirects of this world
	caseID    int
	segs      []string       // Gallina terms of the segments of this history closed so far (action "reconf")
	planted   []string       // markers inside hand-written cookies with look-alike names (tamper "plant")
	origin    map[string]int // cookie value -> who produced it: 1 the deployment (any instance with its key), 2 the foreign deployment
	decodeFallback bool // cookies are read through the deployment's own codec (see codecsFor)
}

type testingTB interface {
	Fatalf(format string, args ...interface{})
	Logf(format string, args ...interface{})
}

type vfBrowser struct {
	lastLoc  string            // Location of the browser's most recent response when that was a redirect
	snap     map[string]string // cookies kept aside by tamper "snap"
	jar      map[string]string
	lastAuth map[string]string // parameters of the most recent authorization redirect
	prevAuth map[string]string // the one before (a stale initiation)
	code     string
	usedCode string
	said     []string // every string this browser's user supplied in earlier requests (target parts, headers): C16 scans bodies for them
}

// ---- interning

type vfIntern struct {
	ids   map[string]uint64
	strs  []string
	bytes map[uint64]bool // ids whose bytes the model needs
}

func vfNewIntern() *vfIntern {
	in := &vfIntern{ids: map[string]uint64{}, bytes: map[uint64]bool{}}
	in.id("")
	in.id("/")
	in.bytes[1] = true
	return in
}

func (in *vfIntern) id(s string) uint64 {
	if v, ok := in.ids[s]; ok {
		return v
	}
	v := uint64(len(in.strs))
	in.ids[s] = v
	in.strs = append(in.strs, s)
	return v
}

func (in *vfIntern) idb(s string) uint64 { // interned and its bytes are given to the model
	v := in.id(s)
	in.bytes[v] = true
	return v
}

// ---- building a world

var vfEarlierOnce sync.Once

func vfNewWorld(tb testingTB, cfg vfWorldCfg, nbrowsers int, r *vfRand) *vfWorld {
	w := &vfWorld{tb: tb, cfg: cfg, r: r, in: vfNewIntern(), tokens: map[string]*vfMinted{}, compCache: map[string]string{},
		tmplUsed: map[string]bool{}}
	vfResetRotation()
	w.prov = vfNewProvider(vfClientID, cfg.EndSession, r.fork(77))
	// the process has a past: before the first history, the deployment (every session key the histories use) ran once in its most
	// permissive configuration -- no forceHTTPS, no PKCE, no allow-lists, nothing excluded.  Instances are independent of one
	// another, so this changes nothing -- unless something process-wide remembers what an earlier instance was configured with
	vfEarlierOnce.Do(func() {
		for _, k := range []string{vfKeyA, vfKeyB, vfKeyLongA, vfKeyLongB} {
			c := CreateConfig()
			c.ProviderURL = w.prov.issuer
			c.CallbackURL = vfCallbackPath
			c.LogoutURL = vfLogoutPath
			c.ClientID = vfClientID
			c.ClientSecret = "vf-secret"
			c.SessionEncryptionKey = k
			c.ForceHTTPS = false
			c.EnablePKCE = false
			c.LogLevel = "none"
			c.RateLimit = 100000
			if h, err := New(context.Background(), &vfDownstream{}, c, "vf-earlier"); err == nil {
				vfWaitReady(h.(*TraefikOidc), 5*time.Second)
			}
		}
	})
	w.prov.revocation = cfg.Revocation
	w.prov.challengeMethods = cfg.ChallengeMethods
	w.prov.txnRedirect = cfg.TxnRedirect
	w.base = time.Now().Truncate(time.Second)
	w.baseUnix = w.base.Unix()
	for i := 0; i < nbrowsers; i++ {
		w.browsers = append(w.browsers, &vfBrowser{jar: map[string]string{}})
	}
	for _, tm := range cfg.Templates {
		t, err := template.New(tm.Name).Parse(tm.Value)
		if err != nil {
			t = nil
		}
		w.tmpls = append(w.tmpls, t)
	}
	return w
}

func (w *vfWorld) close() { w.prov.close() }

func (w *vfWorld) config(key string) *Config {
	// ONE configuration object per deployment, handed to every New() (one middleware attached to several routers,
	// a handler rebuilt on reload): what New() does to it stays done
	if c, ok := w.cfgObjs[key]; ok {
		return c
	}
	if w.cfgObjs == nil {
		w.cfgObjs = map[string]*Config{}
	}
	c := w.buildConfig(key)
	w.cfgObjs[key] = c
	return c
}

func (w *vfWorld) buildConfig(key string) *Config {
	c := CreateConfig()
	c.ProviderURL = w.prov.issuer
	c.CallbackURL = vfCallbackPath
	c.LogoutURL = vfLogoutPath
	c.ClientID = vfClientID
	c.ClientSecret = "vf-secret"
	c.SessionEncryptionKey = key
	c.ForceHTTPS = w.cfg.ForceHTTPS
	c.EnablePKCE = w.cfg.PKCE
	c.LogLevel = "none"
	c.RateLimit = w.cfg.RateLimit
	if c.RateLimit == 0 {
		c.RateLimit = 100000
	}
	c.ExcludedURLs = append([]string{}, w.cfg.Excluded...)
	c.AllowedUserDomains = append([]string{}, w.cfg.Domains...)
	c.AllowedRolesAndGroups = append([]string{}, w.cfg.Roles...)
	c.PostLogoutRedirectURI = w.cfg.PostLogout
	c.RefreshGracePeriodSeconds = w.cfg.GraceSec
	for _, t := range w.cfg.Templates {
		c.Headers = append(c.Headers, TemplatedHeader{Name: t.Name, Value: t.Value})
	}
	return c
}

func (w *vfWorld) newInstance(key string) (*TraefikOidc, *vfDownstream) {
	down := &vfDownstream{}
	h, err := New(context.Background(), down, w.config(key), "vf")
	if err != nil {
		w.tb.Fatalf("New: %v", err)
	}
	t := h.(*TraefikOidc)
	if !vfWaitReady(t, 10*time.Second) {
		w.tb.Fatalf("instance did not become ready")
	}
	return t, down
}

// peerInstance: ANOTHER application of the same provider (its own client ID and session key), configured in the same process
func (w *vfWorld) peerInstance() *TraefikOidc {
	if w.peer == nil {
		c := *w.config(w.keyB())
		c.ClientID = "some-other-client"
		h, err := New(context.Background(), &vfDownstream{}, &c, "vf-peer")
		if err != nil {
			w.tb.Fatalf("New (peer): %v", err)
		}
		w.peer = h.(*TraefikOidc)
		if !vfWaitReady(w.peer, 10*time.Second) {
			w.tb.Fatalf("peer instance did not become ready")
		}
	}
	return w.peer
}

// addInstance creates a new instance in the given slot (replacing the one there)
func (w *vfWorld) keyA() string {
	switch w.cfg.KeyStyle { // keys as operators really configure them: read from a file with its newline, indented in YAML, left blank
	case "newline":
		return vfKeyA + "\n"
	case "padded":
		return " " + vfKeyA + "\t"
	case "blank":
		return strings.Repeat(" ", 40)
	}
	if w.cfg.LongKeys {
		return vfKeyLongA
	}
	return vfKeyA
}

func (w *vfWorld) keyB() string {
	switch w.cfg.KeyStyle { // the OTHER deployment's key is the same text without the white space (blank: the plugin's public fall-back key)
	case "newline", "padded":
		return vfKeyA
	case "blank":
		return "0123456789abcdef0123456789abcdef0123456789abcdef0123456789abcdef"
	}
	if w.cfg.ForeignDefaultKey {
		return "0123456789abcdef0123456789abcdef0123456789abcdef0123456789abcdef"
	}
	if w.cfg.LongKeys {
		return vfKeyLongB
	}
	return vfKeyB
}

// noteOrigin remembers which deployment produced a cookie value (values of unknown origin are
// modifications made by the harness: they are never genuine, whatever a codec says about them)
func (w *vfWorld) noteOrigin(value string, who int) {
	if w.origin == nil {
		w.origin = map[string]int{}
	}
	if value != "" {
		if _, seen := w.origin[value]; !seen {
			w.origin[value] = who
		}
	}
}

func (w *vfWorld) addInstance(slot int) { w.addInstanceRealm(slot, "") }

// addInstanceRealm: an instance of the deployment configured for another tenant (realm) of the same provider host
func (w *vfWorld) addInstanceRealm(slot int, realm string) {
	var t *TraefikOidc
	var down *vfDownstream
	if realm == "" {
		t, down = w.newInstance(w.keyA())
	} else {
		down = &vfDownstream{}
		c := w.buildConfig(w.keyA())
		c.ProviderURL = w.prov.issuer + realm
		h, err := New(context.Background(), down, c, "vf-realm")
		if err != nil {
			w.tb.Fatalf("New (realm %s): %v", realm, err)
		}
		t = h.(*TraefikOidc)
		if !vfWaitReady(t, 10*time.Second) {
			w.tb.Fatalf("realm instance did not become ready")
		}
	}
	in := &vfInstance{t: t, down: down, idx: len(w.insts), realm: realm}
	w.insts = append(w.insts, in)
	for len(w.slots) <= slot {
		w.slots = append(w.slots, -1)
	}
	w.slots[slot] = in.idx
}

func (w *vfWorld) inst(slot int) *vfInstance {
	if slot >= len(w.slots) || w.slots[slot] < 0 {
		w.addInstance(slot)
	}
	return w.insts[w.slots[slot]]
}

func (w *vfWorld) foreignInstance() *TraefikOidc {
	if w.foreign == nil {
		w.foreign, _ = w.newInstance(w.keyB())
	}
	return w.foreign
}

// ---- compressed text recognition

func (w *vfWorld) comp(s string) string {
	if c, ok := w.compCache[s]; ok {
		return c
	}
	c := vfCompress(s)
	w.compCache[s] = c
	return c
}

func (w *vfWorld) noteText(s string) {
	for _, x := range w.textOwner {
		if x == s {
			return
		}
	}
	w.textOwner = append(w.textOwner, s)
}

func (w *vfWorld) noteIncoming(s string) {
	for _, x := range w.incoming {
		if x == s {
			return
		}
	}
	w.incoming = append(w.incoming, s)
}

func (w *vfWorld) nchunks(s string) int {
	n := (len(w.comp(s)) + vfMaxCookieSize() - 1) / vfMaxCookieSize()
	if n < 1 {
		n = 1
	}
	return n
}

// ctext abstracts a stored (compressed) text: "" -> [], compressToken(t) -> whole t, a chunk -> one slice
func (w *vfWorld) ctext(s string) string {
	if s == "" {
		return "[]"
	}
	max := vfMaxCookieSize()
	cands := append([]string{""}, w.textOwner...)
	for _, t := range cands {
		c := w.comp(t)
		if c == s {
			n := w.nchunks(t)
			parts := make([]string, n)
			for i := range parts {
				parts[i] = fmt.Sprintf("PSlice %d %d%%nat", w.in.id(t), i)
			}
			return "[" + strings.Join(parts, "; ") + "]"
		}
		for i := 0; i*max < len(c); i++ {
			end := (i + 1) * max
			if end > len(c) {
				end = len(c)
			}
			if c[i*max:end] == s {
				return fmt.Sprintf("[PSlice %d %d%%nat]", w.in.id(t), i)
			}
		}
	}
	return "[PSlice 999999 0%nat]"
}

// ---- cookies

var vfChunkRe = regexp.MustCompile(`^(_oidc_raczylo_[ar])_(\d+)$`)

func vfCname(name string) (string, bool) {
	m, a, r := vfCookieNames()
	switch name {
	case m:
		return "CMain", true
	case a:
		return "CAcc", true
	case r:
		return "CRef", true
	}
	if g := vfChunkRe.FindStringSubmatch(name); g != nil {
		i, _ := strconv.Atoi(g[2])
		if i > 64 {
			return "", false
		}
		if g[1] == a {
			return fmt.Sprintf("(CAccChunk %d%%nat)", i), true
		}
		return fmt.Sprintf("(CRefChunk %d%%nat)", i), true
	}
	return "", false
}

func (w *vfWorld) candidateNames() []string {
	m, a, r := vfCookieNames()
	names := []string{m, a, r}
	for i := 0; i < 8; i++ {
		names = append(names, fmt.Sprintf("%s_%d", a, i), fmt.Sprintf("%s_%d", r, i))
	}
	return names
}

// codecsFor returns a codec the harness built ITSELF from the session key (the authentication key is
// the configured key, the encryption key is derived from it as the deployment documents), so that
// reading cookies does not go through the code under test.  If that codec cannot read a cookie the
// deployment has just produced (the key derivation was changed), the deployment's own codecs are used
// instead and the case says so.
func (w *vfWorld) codecsFor(key string, inst *TraefikOidc) []securecookie.Codec {
	if c, ok := w.ownCodecs[key]; ok {
		return c
	}
	block := sha256.Sum256([]byte("traefikoidc session cookie encryption|" + key))
	own := securecookie.CodecsFromPairs([]byte(key), block[:])
	plain := securecookie.CodecsFromPairs([]byte(key))
	chosen := vfInstanceCodecs(inst)
	if cookies, err := vfMintSession(vfSessionManager(inst), false, 0, "probe@example.com", "", "", "", "", "", ""); err == nil {
		for _, c := range cookies {
			m, _, _ := vfCookieNames()
			if c.Name != m {
				continue
			}
			v := map[interface{}]interface{}{}
			if securecookie.DecodeMulti(c.Name, c.Value, &v, own...) == nil {
				chosen = own
			} else if securecookie.DecodeMulti(c.Name, c.Value, &v, plain...) == nil {
				chosen = plain // signed but not encrypted: still read independently of the code under test
			} else {
				w.decodeFallback = true
			}
		}
	}
	if w.ownCodecs == nil {
		w.ownCodecs = map[string][]securecookie.Codec{}
	}
	w.ownCodecs[key] = chosen
	return chosen
}

// decodeCookie finds the (key, name) under which a cookie value decodes; keyid 1 = the deployment, 2 = the foreign one
func (w *vfWorld) decodeCookie(name, value string) (keyid int, asName string, vals map[interface{}]interface{}, ok bool) {
	try := func(codecs []securecookie.Codec, n string) (map[interface{}]interface{}, bool) {
		v := map[interface{}]interface{}{}
		if err := securecookie.DecodeMulti(n, value, &v, codecs...); err != nil {
			return nil, false
		}
		return v, true
	}
	type dep struct {
		id     int
		codecs []securecookie.Codec
	}
	deps := []dep{}
	if len(w.insts) > 0 {
		deps = append(deps, dep{1, w.codecsFor(w.keyA(), w.insts[0].t)})
	}
	if w.foreign != nil {
		deps = append(deps, dep{2, w.codecsFor(w.keyB(), w.foreign)})
	}
	// the origin of a value decides whose cookie it is, not the codec that happens to open it: a value the
	// harness made up or modified belongs to nobody, a value minted by the foreign deployment stays foreign
	// even if the deployment's codec opens it (two keys the code fails to tell apart)
	who, known := w.origin[value]
	if !known {
		return 0, "", nil, false
	}
	var mine []dep
	for _, d := range deps {
		if d.id == who {
			mine = append(mine, d)
		}
	}
	deps = mine
	names := append([]string{name}, w.candidateNames()...)
	for _, d := range deps {
		for _, n := range names {
			if v, ok := try(d.codecs, n); ok {
				return d.id, n, v, true
			}
		}
	}
	return 0, "", nil, false
}

func (w *vfWorld) payloadTerm(cname string, vals map[interface{}]interface{}) string {
	type fv struct {
		f int
		v string
	}
	var fs []fv
	str := func(f int, key string, withBytes bool) {
		if x, ok := vals[key]; ok {
			if s, ok := x.(string); ok {
				id := w.in.id(s)
				if withBytes {
					w.in.bytes[id] = true
				}
				fs = append(fs, fv{f, fmt.Sprintf("VS %d", id)})
			} else {
				fs = append(fs, fv{f, "VS 999998"})
			}
		}
	}
	if cname == "CMain" {
		if x, ok := vals["authenticated"]; ok {
			b, _ := x.(bool)
			fs = append(fs, fv{1, "VB " + vfBool(b)})
		}
		if x, ok := vals["created_at"]; ok {
			if c, ok := x.(int64); ok {
				fs = append(fs, fv{2, fmt.Sprintf("VZ %s", vfZ(c-w.baseUnix))})
			} else {
				fs = append(fs, fv{2, "VB false"})
			}
		}
		str(3, "csrf", false)
		str(4, "nonce", false)
		str(5, "code_verifier", false)
		str(6, "email", true)
		str(7, "incoming_path", true)
		if s, ok := vals["incoming_path"].(string); ok {
			w.noteIncoming(s)
		}
	} else if cname == "CAcc" || cname == "CRef" {
		if x, ok := vals["token"]; ok {
			s, _ := x.(string)
			fs = append(fs, fv{1, "VC " + w.ctext(s)})
		}
		if x, ok := vals["compressed"]; ok {
			b, _ := x.(bool)
			fs = append(fs, fv{2, "VB " + vfBool(b)})
		}
	} else {
		if x, ok := vals["token_chunk"]; ok {
			s, _ := x.(string)
			fs = append(fs, fv{1, "VC " + w.ctext(s)})
		}
	}
	sort.Slice(fs, func(i, j int) bool { return fs[i].f < fs[j].f })
	parts := make([]string, len(fs))
	for i, x := range fs {
		parts[i] = fmt.Sprintf("(%d, %s)", x.f, x.v)
	}
	return "[" + strings.Join(parts, "; ") + "]"
}

func vfBool(b bool) string {
	if b {
		return "true"
	}
	return "false"
}

func vfZ(x int64) string {
	if x < 0 {
		return fmt.Sprintf("(%d)%%Z", x)
	}
	return fmt.Sprintf("%d%%Z", x)
}

// cookieTerm abstracts a cookie value found in a jar
func (w *vfWorld) cookieTerm(name, value string) string {
	keyid, asName, vals, ok := w.decodeCookie(name, value)
	if !ok {
		return "Junk"
	}
	cn, _ := vfCname(asName)
	return fmt.Sprintf("(Sealed %d %s %s)", keyid, cn, w.payloadTerm(strings.Trim(strings.Split(cn, " ")[0], "("), vals))
}

func (w *vfWorld) jarTerm(jar map[string]string) string {
	var names []string
	for n := range jar {
		names = append(names, n)
	}
	sort.Strings(names)
	var parts []string
	for _, n := range names {
		cn, ok := vfCname(n)
		if !ok {
			continue
		}
		parts = append(parts, fmt.Sprintf("(%s, %s)", cn, w.cookieTerm(n, jar[n])))
	}
	return "[" + strings.Join(parts, "; ") + "]"
}

// ---- independent read-back (C07): what an independent reader gets out of a jar of GENUINE cookies -- own codec,
// own base64+gzip -- against what the code's own session getters return for the same cookies

func vfOwnDecompress(s string) (string, bool) {
	data, err := base64.StdEncoding.DecodeString(s)
	if err != nil {
		return "", false
	}
	zr, err := gzip.NewReader(bytes.NewReader(data))
	if err != nil {
		return "", false
	}
	out, err := io.ReadAll(zr)
	if err != nil {
		return "", false
	}
	return string(out), true
}

// ownToken reads one token (base cookie + chunk cookies) the way the documentation says it is stored; ok=false
// whenever anything is not plainly well formed (a cookie of unknown origin, a gap, no "compressed" mark, bad gzip):
// the comparison is made on well-formed jars only
func (w *vfWorld) ownToken(jar map[string]string, base string) (string, bool) {
	dec := func(name string) (map[interface{}]interface{}, bool) {
		v, present := jar[name]
		if !present {
			return nil, false
		}
		who, asName, vals, ok := w.decodeCookie(name, v)
		if !ok || who != 1 || asName != name {
			return nil, false
		}
		return vals, true
	}
	bv, ok := dec(base)
	if !ok {
		return "", false
	}
	if c, _ := bv["compressed"].(bool); !c {
		return "", false
	}
	text, _ := bv["token"].(string)
	if text == "" {
		for i := 0; ; i++ {
			name := fmt.Sprintf("%s_%d", base, i)
			if _, present := jar[name]; !present {
				break
			}
			cv, ok := dec(name)
			if !ok {
				return "", false
			}
			piece, _ := cv["token_chunk"].(string)
			text += piece
		}
		if text == "" {
			return "", false
		}
	}
	return vfOwnDecompress(text)
}

// readBackDiffers: the code's getters, given exactly this jar, return another ID or refresh token than the independent reader
func (w *vfWorld) readBackDiffers(in *vfInstance, jar map[string]string) bool {
	mainName, acc, ref := vfCookieNames()
	// a session at or past the absolute timeout is dropped as a whole by design: nothing to read back
	if v, present := jar[mainName]; present {
		if who, asName, vals, ok := w.decodeCookie(mainName, v); ok && who == 1 && asName == mainName {
			if created, ok := vals["created_at"].(int64); ok && time.Now().Unix()-created > 24*3600-10 {
				return false
			}
		}
	}
	wantA, okA := w.ownToken(jar, acc)
	wantR, okR := w.ownToken(jar, ref)
	if !okA && !okR {
		return false
	}
	gotA, gotR, ok := vfReadTokens(vfSessionManager(in.t), jar)
	if !ok {
		return false // the session as a whole was refused (too old, ...): not a read-back matter
	}
	return (okA && gotA != wantA) || (okR && gotR != wantR)
}

// ---- tokens

func (w *vfWorld) noteMinted() {
	w.prov.mu.Lock()
	defer w.prov.mu.Unlock()
	for i := range w.prov.minted {
		m := &w.prov.minted[i]
		if _, ok := w.tokens[m.Token]; !ok {
			w.tokens[m.Token] = m
			w.tokOrder = append(w.tokOrder, m.Token)
			w.noteText(m.Token)
			// the list headers carry a claim's values joined with ",": a value that itself contains a comma cannot be told
			// from two values by splitting, so the joins of the claims actually issued are remembered
			for _, claim := range []interface{}{m.Spec.Groups, m.Spec.Roles} {
				if arr, ok := claim.([]interface{}); ok && len(arr) > 0 {
					strs := make([]string, 0, len(arr))
					for _, x := range arr {
						if sx, ok := x.(string); ok {
							strs = append(strs, sx)
						}
					}
					if len(strs) == len(arr) {
						if w.listJoins == nil {
							w.listJoins = map[string][]string{}
						}
						if _, seen := w.listJoins[strings.Join(strs, ",")]; !seen {
							w.listJoins[strings.Join(strs, ",")] = strs
						}
					}
				}
			}
		}
	}
}

func (w *vfWorld) shapeTerm(v interface{}) string {
	if v == nil {
		return "ClAbsent"
	}
	arr, ok := v.([]interface{})
	if !ok {
		return "ClNotArray"
	}
	parts := make([]string, len(arr))
	for i, x := range arr {
		if s, ok := x.(string); ok {
			parts[i] = fmt.Sprintf("Some %d", w.in.id(s))
		} else {
			parts[i] = "None"
		}
	}
	return "(ClArr [" + strings.Join(parts, "; ") + "])"
}

func (w *vfWorld) tokinfoTerm(m *vfMinted) string {
	s := m.Spec
	static := !s.BadSig && !s.WrongAud && !s.WrongIss && s.Sub != "" && !vfKidsGone[m.Kid]
	email := uint64(0)
	if e, ok := s.Email.(string); ok && e != "" {
		email = w.in.idb(e)
	}
	nonce := uint64(0)
	if n, ok := s.Nonce.(string); ok && n != "" {
		nonce = w.in.id(n)
	}
	jti := uint64(0)
	if s.Jti != "" {
		jti = w.in.id(s.Jti)
	}
	nbf := "None"
	if m.Nbf != nil {
		nbf = fmt.Sprintf("(Some %s)", vfZ(*m.Nbf-w.baseUnix))
	}
	return fmt.Sprintf("(mkTok %s true %s %s %s %d %d %d %s %s)", vfBool(static), vfZ(m.Exp-w.baseUnix), vfZ(m.Iat-w.baseUnix),
		nbf, jti, email, nonce, w.shapeTerm(s.Groups), w.shapeTerm(s.Roles))
}

// claims of a minted token as the template engine sees them (JSON round trip, like the code under test)
func vfClaimsOf(token string) (map[string]interface{}, bool) {
	parts := strings.Split(token, ".")
	if len(parts) != 3 {
		return nil, false
	}
	b, err := base64Raw(parts[1])
	if err != nil {
		return nil, false
	}
	var c map[string]interface{}
	if json.Unmarshal(b, &c) != nil {
		return nil, false
	}
	return c, true
}

// ---- requests

type vfReq struct {
	Browser   int               `json:"browser"`
	Slot      int               `json:"slot"`
	Method    string            `json:"method"`
	Target    string            `json:"target"` // path?query as sent
	AcceptJS  bool              `json:"accept_json"`
	Accept    string            `json:"accept,omitempty"`
	Origin    string            `json:"origin,omitempty"`
	XFProto   string            `json:"xf_proto,omitempty"`
	XFHost    string            `json:"xf_host,omitempty"`
	ClientIDs []int             `json:"client_ids,omitempty"` // identity header codes the client supplies
	Headers   map[string]string `json:"headers,omitempty"`
	Script    *vfTokenScript    `json:"token_script,omitempty"`
	Tag       int               `json:"tag"`
	NoCookies bool              `json:"no_cookies,omitempty"`
}

var vfIdentityNames = map[int]string{1: "X-Forwarded-User", 2: "X-Auth-Request-User", 3: "X-Auth-Request-Token",
	4: "X-User-Groups", 5: "X-User-Roles", 6: "X-Auth-Request-Redirect", 150: "X-Vf-Unrelated"}

func (w *vfWorld) headerName(code int) string {
	if n, ok := vfIdentityNames[code]; ok {
		return n
	}
	if code >= 100 && code-100 < len(w.cfg.Templates) {
		return w.cfg.Templates[code-100].Name
	}
	return fmt.Sprintf("X-Vf-Code-%d", code)
}

func vfMarker(code int) string { return fmt.Sprintf("CLIENT-VALUE-%d", code) }

type vfObserved struct {
	Status   int
	Location string
	Cookies  []*http.Cookie
	RawSet   []string
	Body     string
	CType    string
	NoSniff  bool
	Down     bool
	DownHdr  http.Header
	Calls    []vfTokenCall
	Answers  []vfProvAnswer
	CORS     bool
	Panic    interface{}
}

// vfWireSafe: printable ASCII without the bytes a request line cannot carry (a browser would escape more:
// quotes, angle brackets ...; a hand-made client need not, and net/http accepts them raw)
func vfWireSafe(t string) bool {
	for i := 0; i < len(t); i++ {
		c := t[i]
		if c <= 0x20 || c >= 0x7f || c == '#' {
			return false
		}
	}
	return true
}

// do sends one request and records the step
func (w *vfWorld) do(rq vfReq) *vfObserved {
	in := w.inst(rq.Slot)
	b := w.browsers[rq.Browser]
	method := rq.Method
	if method == "" {
		method = "GET"
	}
	// the target is given in the form a user agent would have typed it; path and query are
	// escaped the way a browser does before they reach the server
	req := httptest.NewRequest(method, "http://app.example.test/", nil)
	tpath, tquery := rq.Target, ""
	if i := strings.Index(rq.Target, "?"); i >= 0 {
		tpath, tquery = rq.Target[:i], rq.Target[i+1:]
	}
	if u, err := url.ParseRequestURI(tpath); err == nil && !strings.ContainsAny(tpath, " \"<>`{}|^") {
		req.URL.Path, req.URL.RawPath = u.Path, u.RawPath
	} else {
		req.URL.Path, req.URL.RawPath = tpath, ""
	}
	req.URL.RawQuery = vfEscapeQuery(tquery)
	req.RequestURI = req.URL.RequestURI()
	// What reaches the handler behind a real server: the request line is parsed by net/http itself
	// (origin-form: URL holds path and query only, RequestURI the raw bytes).  A target made of
	// wire-safe bytes only is sent exactly as given (a non-browser client does not re-escape, e.g. a
	// literal backslash); anything else in the escaped form computed above.
	wire := req.RequestURI
	if vfWireSafe(rq.Target) && strings.HasPrefix(rq.Target, "/") {
		wire = rq.Target
	}
	if parsed, err := http.ReadRequest(bufio.NewReader(strings.NewReader(method + " " + wire + " HTTP/1.1\r\nHost: app.example.test\r\n\r\n"))); err == nil {
		parsed.RemoteAddr = req.RemoteAddr
		parsed.Body = http.NoBody
		req = parsed.WithContext(req.Context())
	}
	if rq.Accept != "" {
		req.Header.Set("Accept", rq.Accept)
	} else if rq.AcceptJS {
		req.Header.Set("Accept", "application/json")
	} else {
		req.Header.Set("Accept", "text/html,application/xhtml+xml")
	}
	if rq.Origin != "" {
		req.Header.Set("Origin", rq.Origin)
	}
	if rq.XFProto == "" {
		rq.XFProto = w.cfg.ClientProto
	}
	if rq.XFProto != "" {
		req.Header.Set("X-Forwarded-Proto", rq.XFProto)
	}
	if rq.XFHost != "" {
		req.Header.Set("X-Forwarded-Host", rq.XFHost)
	}
	for k, v := range rq.Headers {
		req.Header.Set(k, v)
	}
	for _, c := range rq.ClientIDs {
		req.Header.Set(w.headerName(c), vfMarker(c))
	}
	if w.cfg.ForeignCookies {
		for _, n := range []string{"shop_oidc_raczylo_a_0", "shop_oidc_raczylo_a_1", "my_oidc_raczylo_m", "x_oidc_raczylo_r_0", "_oidc_raczylo", "oidc_raczylo_a", "_OIDC_RACZYLO_A_0"} {
			req.AddCookie(&http.Cookie{Name: n, Value: "foreign-application-data"})
		}
	}
	jarSent := map[string]string{}
	if !rq.NoCookies {
		var names []string
		for n := range b.jar {
			names = append(names, n)
		}
		sort.Strings(names)
		for _, n := range names {
			req.AddCookie(&http.Cookie{Name: n, Value: b.jar[n]})
			jarSent[n] = b.jar[n]
		}
	}
	w.prov.setScript(rq.Script)
	w.prov.takeLog()
	in.down.calls = 0
	in.down.headers = nil
	rec := httptest.NewRecorder()
	now := time.Since(w.base).Nanoseconds()
	obs := &vfObserved{}
	func() {
		defer func() {
			if p := recover(); p != nil {
				obs.Panic = p
			}
		}()
		in.t.ServeHTTP(rec, req)
	}()
	obs.Status = rec.Code
	obs.Location = rec.Header().Get("Location")
	obs.Cookies = vfParseSetCookies(rec.Header())
	obs.RawSet = rec.Header().Values("Set-Cookie")
	obs.Body = rec.Body.String()
	obs.CType = rec.Header().Get("Content-Type")
	obs.NoSniff = rec.Header().Get("X-Content-Type-Options") == "nosniff"
	obs.Down = in.down.calls > 0
	obs.DownHdr = in.down.headers
	obs.CORS = rec.Header().Get("Access-Control-Allow-Origin") != ""
	obs.Calls, obs.Answers = w.prov.takeLog()
	w.noteMinted()
	for _, a := range obs.Answers {
		if a.RefreshToken != "" {
			w.noteText(a.RefreshToken)
		}
	}
	// browser: apply Set-Cookie with replace/delete semantics
	for _, c := range obs.Cookies {
		w.noteOrigin(c.Value, 1)
		// RFC 6265: a cookie is identified by (name, domain, path); without a Path attribute the path is the
		// directory of the request path.  The jar models the root-path cookies (the only ones sent with every
		// request): a Set-Cookie for another path neither replaces nor deletes them.
		eff := c.Path
		if eff == "" || eff[0] != '/' {
			eff = "/"
			if i := strings.LastIndexByte(req.URL.Path, '/'); i > 0 {
				eff = req.URL.Path[:i]
			}
		}
		if eff != "/" {
			continue
		}
		if c.MaxAge < 0 || (c.MaxAge == 0 && !c.Expires.IsZero() && c.Expires.Before(time.Now())) {
			delete(b.jar, c.Name)
		} else {
			b.jar[c.Name] = c.Value
		}
	}
	b.lastLoc = ""
	if obs.Status >= 300 && obs.Status < 400 {
		b.lastLoc = obs.Location
	}
	// remember the authorization redirect
	if obs.Status == 302 && w.isAuthorizeURL(obs.Location) {
		if u, err := url.Parse(obs.Location); err == nil {
			q := u.Query()
			b.prevAuth = b.lastAuth
			b.lastAuth = map[string]string{"state": q.Get("state"), "nonce": q.Get("nonce"),
				"code_challenge": q.Get("code_challenge"), "redirect_uri": q.Get("redirect_uri")}
		}
	}
	w.record(rq, in, req, jarSent, now, obs)
	return obs
}

// ---- recording a step as a Gallina term

func vfScheme(req *http.Request) string {
	if s := req.Header.Get("X-Forwarded-Proto"); s != "" {
		return s
	}
	if req.TLS != nil {
		return "https"
	}
	return "http"
}

func vfHost(req *http.Request) string {
	if h := req.Header.Get("X-Forwarded-Host"); h != "" {
		return h
	}
	return req.Host
}

func (w *vfWorld) tvalOfString(s string) string {
	if s == "" {
		return "TEmpty"
	}
	for _, t := range w.textOwner {
		if t == s {
			return fmt.Sprintf("(TTok %d)", w.in.id(s))
		}
	}
	return "TJunk"
}

var vfFixedMessages = []struct {
	code int
	text string
}{
	{1, "Access denied: Your email domain is not allowed. To log out, visit: " + vfLogoutPath},
	{2, "Access denied: You do not have any of the allowed roles or groups. To log out, visit: " + vfLogoutPath},
	{3, "State parameter missing in callback"},
	{4, "CSRF token missing in session"},
	{5, "Invalid state parameter (CSRF mismatch)"},
	{6, "No authorization code received in callback"},
	{7, "Authentication failed: Could not exchange code for token"},
	{8, "Authentication failed: Could not verify ID token"},
	{9, "Authentication failed: Could not extract claims from token"},
	{10, "Authentication failed: Nonce missing in token"},
	{11, "Authentication failed: Nonce missing in session"},
	{12, "Authentication failed: Nonce mismatch"},
	{13, "Authentication failed: Email missing in token"},
	{14, "Authentication failed: Email domain not allowed"},
}

func (w *vfWorld) messageTerm(msg string) string {
	for _, m := range vfFixedMessages {
		if m.text == msg {
			return fmt.Sprintf("(MFixed %d)", m.code)
		}
	}
	const pfx = "Authentication error from provider: "
	if strings.HasPrefix(msg, pfx) {
		return fmt.Sprintf("(MProviderError %d)", w.in.idb(vfValidUTF8(msg[len(pfx):])))
	}
	return fmt.Sprintf("(MFixed %d)", 900+w.in.id(msg))
}

var vfHTMLMsgRe = regexp.MustCompile(`(?s)<h1>Authentication Error</h1>\s*<p>(.*?)</p>\s*<p><a href="`)

// bodyTerm classifies a response body without depending on the static text of the error page or on
// the wording of the fixed messages: a body is "the provider-error message carrying <desc>" when the
// request had an error parameter and the (escaped / JSON-encoded) description appears in it, otherwise
// "some fixed message".
func (w *vfWorld) bodyTerm(o *vfObserved, req *http.Request) string {
	ct := o.CType
	q := req.URL.Query()
	cand := ""
	if q.Get("error") != "" {
		cand = q.Get("error_description")
		if cand == "" {
			cand = q.Get("error")
		}
	}
	switch {
	case o.Body == "" || o.Down:
		return "BNone"
	case strings.HasPrefix(ct, "text/plain"):
		if o.NoSniff {
			return "BPlain"
		}
		return "BNone"
	case strings.HasPrefix(ct, "application/json"):
		var m map[string]interface{}
		if err := json.Unmarshal([]byte(o.Body), &m); err != nil {
			return "(BJson (MFixed 999))"
		}
		if _, has := m["error_description"]; !has && o.Status == 401 {
			return "BJson401"
		}
		if d, ok := m["error_description"].(string); ok {
			if cand != "" && strings.HasSuffix(d, vfValidUTF8(cand)) {
				return fmt.Sprintf("(BJson (MProviderError %d))", w.in.idb(vfValidUTF8(cand)))
			}
			return "(BJson (MFixed 0))"
		}
		return "(BJson (MFixed 998))"
	case strings.HasPrefix(ct, "text/html"):
		if o.Status >= 300 && o.Status < 400 {
			return "BNone" // the <a href> stub written by http.Redirect
		}
		if cand != "" && strings.Contains(o.Body, htmlpkg.EscapeString(cand)) {
			return fmt.Sprintf("(BHtml (MProviderError %d))", w.in.idb(vfValidUTF8(cand)))
		}
		return "(BHtml (MFixed 0))"
	}
	return "BNone"
}

func (w *vfWorld) postLocTerm(loc string, req *http.Request) (string, bool) {
	pl := w.cfg.PostLogout
	if pl == "" {
		pl = "/"
	}
	if strings.HasPrefix(pl, "http") {
		if loc == pl {
			return fmt.Sprintf("(LPostAbs %d)", w.in.id(pl)), true
		}
		return "", false
	}
	base := vfScheme(req) + "://" + vfHost(req)
	if loc == base+pl {
		return fmt.Sprintf("(LPostRel %d %d %d)", w.in.id(vfScheme(req)), w.in.id(vfHost(req)), w.in.id(pl)), true
	}
	return "", false
}

func (w *vfWorld) isAuthorizeURL(loc string) bool {
	for _, ap := range append([]string{"/authorize", w.prov.authPathNow()}, w.prov.authPaths...) {
		if strings.HasPrefix(loc, w.prov.issuer+ap+"?") || strings.HasPrefix(loc, w.prov.issuer+"/realms/b"+ap+"?") {
			return true
		}
	}
	return false
}

func (w *vfWorld) locationTerm(o *vfObserved, req *http.Request) string {
	loc := o.Location
	if loc == "" {
		return "None"
	}
	authBase := w.prov.issuer + w.prov.authPathNow()
	endBase := w.prov.issuer + w.prov.endPathNow()
	// an authorization / end-session address the provider published EARLIER is still recognised as one (whether it is the
	// one to use now is the monitors' business: they compare with what the provider publishes now)
	for _, old := range append([]string{"/authorize"}, w.prov.authPaths...) {
		if strings.HasPrefix(loc, w.prov.issuer+old+"?") {
			authBase = w.prov.issuer + old
		}
	}
	for _, old := range []string{"/logout", "/v2/logout"} {
		if strings.HasPrefix(loc, w.prov.issuer+old+"?") || loc == w.prov.issuer+old {
			endBase = w.prov.issuer + old
		}
	}
	// the endpoints of every tenant the provider serves are authorization / end-session endpoints (WHICH one an
	// instance must use is the monitors' business: they compare with what the provider publishes for its realm)
	for _, realm := range []string{"/realms/b"} {
		if strings.HasPrefix(loc, w.prov.issuer+realm+"/authorize?") {
			authBase = w.prov.issuer + realm + "/authorize"
		}
		if strings.HasPrefix(loc, w.prov.issuer+realm+"/logout?") {
			endBase = w.prov.issuer + realm + "/logout"
		}
	}
	if strings.HasPrefix(loc, authBase+"?") {
		u, err := url.Parse(loc)
		if err == nil {
			q := u.Query()
			chOf := uint64(0)
			if ch := q.Get("code_challenge"); ch != "" {
				chOf = 999997
				// whose S256 is it: the verifier stored in this response's main cookie
				for _, c := range o.Cookies {
					if cn, ok := vfCname(c.Name); ok && cn == "CMain" {
						if _, _, vals, ok := w.decodeCookie(c.Name, c.Value); ok {
							if v, ok := vals["code_verifier"].(string); ok && v != "" {
								h := sha256.Sum256([]byte(v))
								if vfB64(h[:]) == ch && q.Get("code_challenge_method") == "S256" {
									chOf = w.in.id(v)
								}
							}
						}
					}
				}
			}
			rs, rh := uint64(999996), uint64(999996)
			if sch, host, ok := vfSplitRedirectURI(q.Get("redirect_uri")); ok {
				rs, rh = w.in.id(sch), w.in.id(host)
			}
			ok := q.Get("client_id") == vfClientID && q.Get("response_type") == "code" &&
				strings.Contains(" "+q.Get("scope")+" ", " openid ")
			base := w.in.id(authBase)
			if !ok {
				base = 999995
			}
			return fmt.Sprintf("(Some (LAuth %d %d %d %d %d %d))", base, w.in.id(q.Get("state")), w.in.id(q.Get("nonce")), chOf, rs, rh)
		}
	}
	if strings.HasPrefix(loc, endBase+"?") {
		if u, err := url.Parse(loc); err == nil {
			q := u.Query()
			if post, ok := w.postLocTerm(q.Get("post_logout_redirect_uri"), req); ok {
				return fmt.Sprintf("(Some (LEndSession %d %s %s))", w.in.id(endBase), w.tvalOfString(q.Get("id_token_hint")), post)
			}
		}
	}
	if post, ok := w.postLocTerm(loc, req); ok {
		return "(Some " + post + ")"
	}
	return fmt.Sprintf("(Some (LPath %d))", w.in.idb(loc))
}

// vfSplitRedirectURI reads scheme and host out of scheme://host/<callback path> without a URL parser
// (hosts taken from X-Forwarded-Host may contain anything)
func vfSplitRedirectURI(ru string) (scheme, host string, ok bool) {
	i := strings.Index(ru, "://")
	if i < 0 {
		return "", "", false
	}
	rest := ru[i+3:]
	if !strings.HasSuffix(rest, vfCallbackPath) {
		return "", "", false
	}
	return ru[:i], rest[:len(rest)-len(vfCallbackPath)], true
}

func (w *vfWorld) hvalTerm(code int, v string) string {
	if code == 4 || code == 5 {
		parts := strings.Split(v, ",")
		if known, ok := w.listJoins[v]; ok {
			parts = known
		}
		ids := make([]string, len(parts))
		for i, p := range parts {
			ids[i] = fmt.Sprintf("%d", w.in.id(p))
		}
		return "(HList [" + strings.Join(ids, "; ") + "])"
	}
	return fmt.Sprintf("(HStr %d)", w.in.id(v))
}

func (w *vfWorld) fwdTerm(rq vfReq, o *vfObserved) string {
	if !o.Down {
		return "None"
	}
	codes := map[int]bool{1: true, 2: true, 3: true, 4: true, 5: true, 6: true}
	for i := range w.cfg.Templates {
		codes[100+i] = true
	}
	for _, c := range rq.ClientIDs {
		codes[c] = true
	}
	type row struct {
		code int
		term string
	}
	var rows []row
	for c := range codes {
		vals := o.DownHdr.Values(w.headerName(c))
		if len(vals) == 0 {
			continue
		}
		survived := false
		for _, v := range vals {
			if v == vfMarker(c) {
				survived = true
			}
		}
		if survived {
			rows = append(rows, row{1000 + c, "(HStr 0)"})
		} else {
			rows = append(rows, row{c, w.hvalTerm(c, vals[0])})
		}
	}
	sort.Slice(rows, func(i, j int) bool { return rows[i].code < rows[j].code })
	parts := make([]string, len(rows))
	for i, r := range rows {
		parts[i] = fmt.Sprintf("(%d, %s)", r.code, r.term)
	}
	return "(Some [" + strings.Join(parts, "; ") + "])"
}

func (w *vfWorld) callsTerm(o *vfObserved) string {
	parts := []string{}
	for _, c := range o.Calls {
		if c.GrantType == "authorization_code" {
			rs, rh := uint64(999996), uint64(999996)
			if sch, host, ok := vfSplitRedirectURI(c.RedirectURI); ok {
				rs, rh = w.in.id(sch), w.in.id(host)
			}
			parts = append(parts, fmt.Sprintf("PExchange %d %d %d %d", w.in.id(c.Code), rs, rh, w.in.id(c.CodeVerifier)))
		} else {
			parts = append(parts, "PRefresh "+w.tvalOfString(c.RefreshToken))
		}
	}
	return "[" + strings.Join(parts, "; ") + "]"
}

func (w *vfWorld) answerTerm(o *vfObserved) string {
	if len(o.Answers) == 0 {
		return "None"
	}
	a := o.Answers[len(o.Answers)-1]
	if !a.OK {
		return fmt.Sprintf("(Some (AErr %s))", vfBool(a.InvalidGrant))
	}
	return fmt.Sprintf("(Some (AOk %d %d))", w.in.id(a.IDToken), w.in.id(a.RefreshToken))
}

func (w *vfWorld) setCookiesTerm(o *vfObserved) string {
	parts := []string{}
	for _, c := range o.Cookies {
		cn, ok := vfCname(c.Name)
		if !ok {
			parts = append(parts, "(CMain, [(99, VB false)], false)") // a cookie the model never emits
			continue
		}
		del := c.MaxAge < 0
		_, asName, vals, ok := w.decodeCookie(c.Name, c.Value)
		if !ok || asName != c.Name {
			parts = append(parts, fmt.Sprintf("(%s, [(98, VB false)], %s)", cn, vfBool(del)))
			continue
		}
		parts = append(parts, fmt.Sprintf("(%s, %s, %s)", cn, w.payloadTerm(strings.Trim(strings.Split(cn, " ")[0], "("), vals), vfBool(del)))
	}
	return "[" + strings.Join(parts, "; ") + "]"
}

func (w *vfWorld) record(rq vfReq, in *vfInstance, req *http.Request, jar map[string]string, now int64, o *vfObserved) {
	b := w.browsers[rq.Browser]
	q := req.URL.Query()
	// random values drawn by this step: read from the response's main cookie (last one wins)
	csrf, nonce, verifier := uint64(0), uint64(0), uint64(0)
	for _, c := range o.Cookies {
		if cn, ok := vfCname(c.Name); ok && cn == "CMain" {
			if _, _, vals, ok := w.decodeCookie(c.Name, c.Value); ok {
				if s, ok := vals["csrf"].(string); ok {
					csrf = w.in.id(s)
				}
				if s, ok := vals["nonce"].(string); ok {
					nonce = w.in.id(s)
				}
				if s, ok := vals["code_verifier"].(string); ok {
					verifier = w.in.id(s)
				}
			}
		}
	}
	ids := make([]string, len(rq.ClientIDs))
	for i, c := range rq.ClientIDs {
		ids[i] = strconv.Itoa(c)
	}
	uri := req.URL.RequestURI()
	rqTerm := fmt.Sprintf("(mkReq %s %d %d %d%%nat %d %d %d %d %s %d %d %d false [%s] %s)",
		vfBool(req.Method == "OPTIONS"), w.in.idb(req.URL.Path), w.in.idb(uri), len(uri),
		w.in.id(vfValidUTF8(q.Get("error"))), w.in.idb(vfValidUTF8(q.Get("error_description"))), w.in.id(q.Get("state")), w.in.id(q.Get("code")),
		vfBool(strings.Contains(req.Header.Get("Accept"), "application/json")), w.in.id(req.Header.Get("Origin")),
		w.in.id(vfScheme(req)), w.in.id(vfHost(req)), strings.Join(ids, "; "), w.jarTerm(jar))
	status := o.Status
	if o.Panic != nil {
		status = 999
	}
	obsTerm := fmt.Sprintf("(mkResp %d %s %s %s %s %s %s %s)", status, w.locationTerm(o, req), w.setCookiesTerm(o),
		w.bodyTerm(o, req), w.fwdTerm(rq, o), vfBool(o.CORS), w.callsTerm(o), w.flagsTerm(req, jar, o, b.said, in))
	for _, d := range w.clientStrings(req, nil) {
		if len(d) >= 3 && vfHasMarkup(d) && len(b.said) < 400 {
			b.said = append(b.said, d)
		}
	}
	step := fmt.Sprintf("(mkStep %d %d %s %s (%d, %d, %d) %s %s %d)", in.idx, rq.Browser, vfZ(now), rqTerm,
		csrf, nonce, verifier, w.answerTerm(o), obsTerm, rq.Tag)
	w.steps = append(w.steps, step)
	w.stepObs = append(w.stepObs, map[string]interface{}{"status": o.Status, "location": vfTrunc(o.Location, 200),
		"set_cookies": len(o.Cookies), "downstream": o.Down, "calls": len(o.Calls), "target": vfTrunc(rq.Target, 120),
		"tag": rq.Tag, "panic": fmt.Sprint(o.Panic), "max_cookie_line": vfMaxLineLen(o.RawSet)})
	w.noteTemplates()
}

// ---- anomalies found in the raw response (the model never predicts any)

func vfHasMarkup(s string) bool { return strings.ContainsAny(s, "<>\"'&") }

func (w *vfWorld) clientStrings(req *http.Request, jar map[string]string) []string {
	var out []string
	for _, vs := range req.URL.Query() {
		out = append(out, vs...)
	}
	out = append(out, req.URL.Path, req.URL.RawQuery, req.Host)
	for _, h := range []string{"Accept", "Origin", "X-Forwarded-Host", "X-Forwarded-Proto", "User-Agent", "Referer"} {
		out = append(out, req.Header.Values(h)...)
	}
	for _, v := range jar {
		out = append(out, v)
	}
	return out
}

func (w *vfWorld) cookieLineBad(line string) bool {
	parts := strings.Split(line, ";")
	nv := strings.SplitN(parts[0], "=", 2)
	if !strings.HasPrefix(strings.TrimSpace(nv[0]), "_oidc_raczylo_") {
		return true
	}
	has := map[string]string{}
	for _, p := range parts[1:] {
		kv := strings.SplitN(strings.TrimSpace(p), "=", 2)
		v := ""
		if len(kv) == 2 {
			v = kv[1]
		}
		has[strings.ToLower(kv[0])] = v
	}
	if has["path"] != "/" {
		return true
	}
	if _, ok := has["httponly"]; !ok {
		return true
	}
	if strings.ToLower(has["samesite"]) != "lax" {
		return true
	}
	if ma, ok := has["max-age"]; ok {
		if n, err := strconv.Atoi(ma); err != nil || n > 86400 {
			return true
		}
	} else {
		return true // a session cookie without Max-Age would outlive the 24 h bound only by browser policy; the code always sets it
	}
	if w.cfg.ForceHTTPS {
		if _, ok := has["secure"]; !ok {
			return true
		}
	}
	return false
}

// secrets the deployment put into cookies of this world so far
func (w *vfWorld) secrets(req *http.Request, o *vfObserved) [][]byte {
	var out [][]byte
	add := func(s string) {
		if len(s) >= 8 {
			out = append(out, []byte(s))
		}
	}
	// where the user was going is session content too (it comes back after the login)
	if req != nil && len(req.URL.RequestURI()) >= 24 {
		add(req.URL.RequestURI())
	}
	for _, t := range w.textOwner {
		add(t)
		c := w.comp(t)
		if len(c) > 48 {
			add(c[12:48]) // a stretch of the compressed text past the constant gzip header
		}
	}
	for _, m := range w.tokens {
		if e, ok := m.Spec.Email.(string); ok {
			add(e)
		}
	}
	for _, c := range o.Cookies {
		if cn, ok := vfCname(c.Name); ok && cn == "CMain" {
			if _, _, vals, ok := w.decodeCookie(c.Name, c.Value); ok {
				for _, k := range []string{"csrf", "nonce", "code_verifier", "email", "incoming_path"} {
					if s, ok := vals[k].(string); ok {
						add(s)
					}
				}
			}
		}
	}
	return out
}

// vfKeylessViews: what a party WITHOUT the key can derive from a cookie value by decoding alone
func vfKeylessViews(value string) [][]byte {
	views := [][]byte{[]byte(value)}
	if u, err := url.QueryUnescape(value); err == nil && u != value {
		views = append(views, []byte(u))
	}
	if std, err := base64.StdEncoding.DecodeString(value); err == nil {
		views = append(views, std)
	}
	outer, err := base64.URLEncoding.DecodeString(value)
	if err != nil {
		return views
	}
	views = append(views, outer)
	parts := bytes.SplitN(outer, []byte("|"), 3)
	if len(parts) == 3 {
		if inner, err := base64.URLEncoding.DecodeString(string(parts[1])); err == nil {
			views = append(views, inner)
		}
	}
	return views
}

func (w *vfWorld) flagsTerm(req *http.Request, jar map[string]string, o *vfObserved, said []string, in *vfInstance) string {
	flags := map[int]bool{}
	ct := o.CType
	if !o.Down && o.Body != "" {
		switch {
		case strings.HasPrefix(ct, "text/html"):
			for _, d := range append(w.clientStrings(req, jar), said...) {
				if len(d) >= 3 && vfHasMarkup(d) && strings.Contains(o.Body, d) {
					flags[1] = true
				}
			}
		case strings.HasPrefix(ct, "application/json"):
			var m map[string]interface{}
			if json.Unmarshal([]byte(o.Body), &m) != nil {
				flags[1] = true
			} else if o.Status >= 400 {
				_, d1 := m["error_description"].(string)
				_, d2 := m["message"].(string)
				if !d1 && !d2 {
					flags[1] = true
				}
			}
		default:
			if o.Status >= 400 && !(strings.HasPrefix(ct, "text/plain") && o.NoSniff) {
				flags[1] = true
			}
		}
	}
	for _, line := range o.RawSet {
		if w.cookieLineBad(line) {
			flags[2] = true
		}
		if len("Set-Cookie: ")+len(line) > 4096+len("Set-Cookie: ") {
			flags[3] = true
		}
	}
	if len(o.Cookies) > 0 {
		secrets := w.secrets(req, o)
		for _, c := range o.Cookies {
			for _, view := range vfKeylessViews(c.Value) {
				for _, s := range secrets {
					if bytes.Contains(view, s) {
						flags[4] = true
					}
				}
			}
		}
	}
	if o.Panic != nil {
		flags[5] = true
	}
	if in != nil && w.readBackDiffers(in, jar) {
		flags[6] = true
	}
	// flag 7: the state or nonce of this login redirect is nearly the same text as one issued before in this world
	// (at least half of the positions identical): values with that much structure in common are predictable
	if o.Status == 302 && strings.Contains(o.Location, "/authorize?") {
		if u, err := url.Parse(o.Location); err == nil {
			for _, k := range []string{"state", "nonce"} {
				v := u.Query().Get(k)
				if v == "" {
					continue
				}
				for _, old := range w.issuedVals[k] {
					if len(old) == len(v) && old != v {
						same := 0
						for i := 0; i < len(v); i++ {
							if v[i] == old[i] {
								same++
							}
						}
						if 2*same >= len(v) {
							flags[7] = true
						}
					}
				}
				if w.issuedVals == nil {
					w.issuedVals = map[string][]string{}
				}
				if len(w.issuedVals[k]) < 200 {
					w.issuedVals[k] = append(w.issuedVals[k], v)
				}
			}
		}
	}
	// flag 8: a marker that reached the deployment only inside a hand-written look-alike cookie surfaces in what it
	// answers, forwards or stores: a cookie not produced under the key was taken as session content
	for _, mk := range w.planted {
		hit := strings.Contains(o.Location, mk) || strings.Contains(o.Body, mk)
		if u, err := url.QueryUnescape(o.Location); err == nil && strings.Contains(u, mk) {
			hit = true
		}
		for k, vs := range o.DownHdr {
			if k == "Cookie" {
				continue
			}
			for _, v := range vs {
				if strings.Contains(v, mk) {
					hit = true
				}
			}
		}
		for _, c := range o.Cookies {
			if _, _, vals, ok := w.decodeCookie(c.Name, c.Value); ok {
				for _, v := range vals {
					if sv, ok := v.(string); ok && strings.Contains(sv, mk) {
						hit = true
					}
				}
			}
		}
		if hit {
			flags[8] = true
		}
	}
	var parts []string
	for f := 1; f <= 8; f++ {
		if flags[f] {
			parts = append(parts, strconv.Itoa(f))
		}
	}
	return "[" + strings.Join(parts, "; ") + "]"
}

// vfEscapeQuery percent-encodes what a browser would in a query string, leaving separators alone
func vfEscapeQuery(q string) string {
	var b strings.Builder
	for i := 0; i < len(q); i++ {
		c := q[i]
		if c <= 0x20 || c >= 0x7f || strings.IndexByte("\"<>`{}|^\\", c) >= 0 {
			fmt.Fprintf(&b, "%%%02X", c)
		} else {
			b.WriteByte(c)
		}
	}
	return b.String()
}

// vfValidUTF8 replaces every invalid byte by U+FFFD (what encoding/json does when it writes a string)
func vfValidUTF8(s string) string {
	if utf8.ValidString(s) {
		return s
	}
	var b strings.Builder
	for i := 0; i < len(s); {
		r, n := utf8.DecodeRuneInString(s[i:])
		if r == utf8.RuneError && n == 1 {
			b.WriteString("\uFFFD")
		} else {
			b.WriteString(s[i : i+n])
		}
		i += n
	}
	return b.String()
}

func base64Raw(s string) ([]byte, error) { return base64.RawURLEncoding.DecodeString(s) }

func vfMaxLineLen(lines []string) int {
	m := 0
	for _, l := range lines {
		if len(l) > m {
			m = len(l)
		}
	}
	return m
}

func vfTrunc(s string, n int) string {
	if len(s) > n {
		return s[:n] + "..."
	}
	return s
}

// template oracle rows for every (template, known token) pair
func (w *vfWorld) noteTemplates() {
	for n, t := range w.tmpls {
		for _, tk := range w.tokOrder {
			key := fmt.Sprintf("%d|%s", n, tk)
			if w.tmplUsed[key] {
				continue
			}
			w.tmplUsed[key] = true
			res := "None"
			if t != nil {
				if claims, ok := vfClaimsOf(tk); ok {
					data := struct {
						AccessToken, IdToken, RefreshToken string
						Claims                             map[string]interface{}
					}{tk, tk, "", claims}
					var buf bytes.Buffer
					if err := t.Execute(&buf, data); err == nil {
						res = fmt.Sprintf("(Some %d)", w.in.id(buf.String()))
					}
				}
			}
			w.tmplRows = append(w.tmplRows, fmt.Sprintf("(%d, (%d, %s))", n, w.in.id(tk), res))
		}
	}
}

// ---- the whole case as a Gallina term

func vfBytesTerm(s string) string {
	parts := make([]string, len(s))
	for i := 0; i < len(s); i++ {
		parts[i] = strconv.Itoa(int(s[i]))
	}
	return "[" + strings.Join(parts, ";") + "]"
}

func (w *vfWorld) caseTerm(id int) string {
	idl := func(ss []string, withBytes bool) string {
		parts := make([]string, len(ss))
		for i, s := range ss {
			if withBytes {
				parts[i] = strconv.FormatUint(w.in.idb(s), 10)
			} else {
				parts[i] = strconv.FormatUint(w.in.id(s), 10)
			}
		}
		return "[" + strings.Join(parts, "; ") + "]"
	}
	excluded := append(append([]string{}, w.cfg.Excluded...), "/favicon")
	pl := w.cfg.PostLogout
	if pl == "" {
		pl = "/"
	}
	grace := w.cfg.GraceSec
	if grace <= 0 {
		grace = 60
	}
	tids := make([]string, len(w.cfg.Templates))
	for i := range tids {
		tids[i] = strconv.Itoa(i)
	}
	cfg := fmt.Sprintf("(mkCfg 1 %d %d %s %s %s %s %s %s %d %s [%s])", w.in.id(vfCallbackPath), w.in.id(vfLogoutPath),
		idl(excluded, true), vfBool(w.cfg.PKCE), vfBool(w.cfg.ForceHTTPS), idl(w.cfg.Domains, true), idl(w.cfg.Roles, false),
		vfZ(int64(grace)*1e9), w.in.id(pl), vfBool(strings.HasPrefix(pl, "http")), strings.Join(tids, "; "))
	// tokens and chunk counts
	var toks, chunks []string
	for _, tk := range w.tokOrder {
		toks = append(toks, fmt.Sprintf("(%d, %s)", w.in.id(tk), w.tokinfoTerm(w.tokens[tk])))
	}
	for _, s := range append([]string{""}, w.textOwner...) {
		chunks = append(chunks, fmt.Sprintf("(%d, %d%%nat)", w.in.id(s), w.nchunks(s)))
	}
	var insts []string
	for _, in := range w.insts {
		// what the provider publishes for the instance's realm (NOT what the instance believes)
		auth, end := w.prov.issuer+in.realm+"/authorize", ""
		if in.realm == "" {
			auth = w.prov.issuer + w.prov.authPathNow()
		}
		if w.prov.endSession {
			end = w.prov.issuer + in.realm + "/logout"
			if in.realm == "" {
				end = w.prov.issuer + w.prov.endPathNow()
			}
		}
		insts = append(insts, fmt.Sprintf("(%d, (true, (%d, %d)))", in.idx, w.in.id(auth), w.in.id(end)))
	}
	// what net/http.Redirect makes of each remembered return URI (net/http is an oracle, not code under test)
	var redirRows []string
	for _, u := range w.incoming {
		rec := httptest.NewRecorder()
		http.Redirect(rec, httptest.NewRequest("GET", "http://app.example.test"+vfCallbackPath, nil), u, http.StatusFound)
		loc := rec.Header().Get("Location")
		if loc != u {
			redirRows = append(redirRows, fmt.Sprintf("(%d, %d)", w.in.id(u), w.in.idb(loc)))
		}
	}
	// bytes table last: everything above may have interned new strings
	var byt []string
	ids := make([]uint64, 0, len(w.in.bytes))
	for id := range w.in.bytes {
		ids = append(ids, id)
	}
	sort.Slice(ids, func(i, j int) bool { return ids[i] < ids[j] })
	for _, id := range ids {
		if id == 0 {
			continue
		}
		byt = append(byt, fmt.Sprintf("(%d, %s)", id, vfBytesTerm(w.in.strs[id])))
	}
	return fmt.Sprintf("(mkWCase %d %s\n [%s]\n [%s]\n [%s]\n [%s]\n [%s]\n [%s]\n [%s])", id, cfg,
		strings.Join(byt, "; "), strings.Join(toks, "; "), strings.Join(chunks, "; "), strings.Join(w.tmplRows, "; "),
		strings.Join(redirRows, "; "), strings.Join(insts, "; "), strings.Join(w.steps, ";\n  "))
}
