//go:build verif

package traefikoidc

// C16 sweep: messages (ASCII with markup, every byte value, invalid UTF-8, long,
// empty) handed to the middleware's sendErrorResponse for an HTML client and
// for a JSON client.  For each message the case records the message, Go's
// html.EscapeString of it, what the HTML body holds between the fixed prefix
// (ending in <p>) and the fixed suffix (starting with </p>), and whether the
// JSON body parses and carries the message as a string.  The fixed prefix and
// suffix are those of the page produced for the empty message.
// Bytes travel as hex: JSON strings cannot carry invalid UTF-8.

import (
	"encoding/hex"
	"encoding/json"
	"html"
	"net/http"
	"net/http/httptest"
	"strings"
	"testing"
)

type vfEscCase struct {
	ID     int    `json:"id"`
	Kind   string `json:"kind"`
	MsgHex string `json:"msg_hex"`
	Status int    `json:"status"`
	// observations
	GoHex    string `json:"go_hex,omitempty"`
	PageHex  string `json:"page_hex,omitempty"`
	Shape    bool   `json:"shape"`
	CType    bool   `json:"ctype"`
	JSONOK   bool   `json:"json_ok"`
	JSONBody string `json:"json_body_hex,omitempty"`
	HTMLType string `json:"html_content_type,omitempty"`
	JSONType string `json:"json_content_type,omitempty"`
	Observed bool   `json:"observed"`
}

func vfEscPage(msg string, status int, accept string) *httptest.ResponseRecorder {
	req, _ := http.NewRequest("GET", "http://app.example.com/oidc/callback", nil)
	if accept != "" {
		req.Header.Set("Accept", accept)
	}
	rec := httptest.NewRecorder()
	vfMiscSendError(rec, req, msg, status)
	return rec
}

// vfEscFrame: prefix and suffix of the HTML page, from the page for the empty message
func vfEscFrame(t testing.TB) (string, string) {
	body := vfEscPage("", 400, "text/html").Body.String()
	i := strings.Index(body, "<p>")
	if i < 0 || !strings.HasPrefix(body[i+3:], "</p>") {
		t.Fatalf("the error page for the empty message has no <p></p> element: the page model no longer applies")
	}
	return body[:i+3], body[i+3:]
}

func vfEscObserve(c *vfEscCase, prefix, suffix string) {
	raw, _ := hex.DecodeString(c.MsgHex)
	msg := string(raw)
	c.GoHex = hex.EncodeToString([]byte(html.EscapeString(msg)))
	// HTML client
	rec := vfEscPage(msg, c.Status, "text/html,application/xhtml+xml")
	body := rec.Body.String()
	c.HTMLType = rec.Header().Get("Content-Type")
	if strings.HasPrefix(body, prefix) && strings.HasSuffix(body, suffix) && len(body) >= len(prefix)+len(suffix) {
		c.Shape = true
		c.PageHex = hex.EncodeToString([]byte(body[len(prefix) : len(body)-len(suffix)]))
	} else {
		c.Shape = false
		c.PageHex = hex.EncodeToString([]byte(body))
	}
	htmlOK := strings.HasPrefix(c.HTMLType, "text/html") && rec.Code == c.Status
	// JSON client
	jrec := vfEscPage(msg, c.Status, "application/json")
	c.JSONType = jrec.Header().Get("Content-Type")
	jsonTypeOK := strings.HasPrefix(c.JSONType, "application/json") && jrec.Code == c.Status
	c.CType = htmlOK && jsonTypeOK
	var m map[string]interface{}
	c.JSONOK = false
	if err := json.Unmarshal(jrec.Body.Bytes(), &m); err == nil {
		d, isStr := m["error_description"].(string)
		sc, isNum := m["status_code"].(float64)
		if isStr && d == vfValidUTF8(msg) && isNum && int(sc) == c.Status {
			c.JSONOK = true
		}
	}
	if !c.JSONOK || len(jrec.Body.Bytes()) <= 400 {
		c.JSONBody = hex.EncodeToString(jrec.Body.Bytes())
	}
	c.Observed = true
}

func vfEscGenerate(r *vfRand, n int) []*vfEscCase {
	var out []*vfEscCase
	add := func(kind string, msg []byte, status int) {
		out = append(out, &vfEscCase{ID: len(out), Kind: kind, MsgHex: hex.EncodeToString(msg), Status: status})
	}
	statuses := []int{400, 401, 403, 500}
	// corpus
	for _, s := range []string{
		"", "plain message", "<script>alert(1)</script>", `"><img src=x onerror=alert(1)>`, "'", `"`, "&", "<", ">",
		"&lt;script&gt;", "&amp;amp;", "&#39;&#34;", "</p><script>x</script><p>", "a&b<c>d\"e'f", "&&&&", "<<<<>>>>",
		"Authentication error from provider: <b onmouseover='x'>hover</b>",
		"\x00\x01\x02", "\xff\xfe\xfd", "\xc3\x28", "\xe2\x82", "caf\xc3\xa9 \xe2\x9c\x93", "\xf0\x9f\x98\x80<\xf0\x9f",
		"line1\nline2\r\n\ttab", "  ", "%3Cscript%3E", "\\u003cscript\\u003e", "{{.}}", "%s%d%v", "<!--", "-->", "<![CDATA[", "]]>",
	} {
		add("corpus", []byte(s), 400)
	}
	// every byte value on its own and inside text
	for b := 0; b < 256; b++ {
		add("byte", []byte{byte(b)}, 400)
	}
	all := make([]byte, 256)
	for b := 0; b < 256; b++ {
		all[b] = byte(b)
	}
	add("all-bytes", all, 500)
	// long
	long1 := []byte(strings.Repeat("<a href=\"x\">'&'</a>", 150))
	add("long", long1, 400)
	long2 := make([]byte, 3000)
	for i := range long2 {
		long2[i] = byte(r.intn(256))
	}
	add("long", long2, 403)
	add("long", []byte(strings.Repeat("&", 2000)), 400)
	// random
	markup := []byte("<>\"'&;#lgtampLGT3947/=() ")
	for len(out) < n {
		k := r.intn(4)
		l := r.intn(60)
		if r.chance(1, 20) {
			l = 100 + r.intn(400)
		}
		b := make([]byte, l)
		kind := ""
		for i := range b {
			switch k {
			case 0: // ASCII text dense in markup and entity fragments
				kind = "ascii-markup"
				if r.chance(1, 2) {
					b[i] = markup[r.intn(len(markup))]
				} else {
					b[i] = byte(32 + r.intn(95))
				}
			case 1: // arbitrary bytes
				kind = "bytes"
				b[i] = byte(r.intn(256))
			case 2: // invalid UTF-8 mixed with markup
				kind = "invalid-utf8"
				switch r.intn(4) {
				case 0:
					b[i] = byte(0x80 + r.intn(0x80))
				case 1:
					b[i] = markup[r.intn(len(markup))]
				default:
					b[i] = byte(32 + r.intn(95))
				}
			default: // entity-like text: already-escaped input must be escaped again
				kind = "entities"
				frag := []string{"&amp;", "&lt;", "&gt;", "&#39;", "&#34;", "&quot;", "&apos;", "&#x3c;", "&", ";", "lt;", "#3"}
				f := frag[r.intn(len(frag))]
				b[i] = f[r.intn(len(f))]
			}
		}
		if k == 3 { // build from whole fragments
			var sb strings.Builder
			frag := []string{"&amp;", "&lt;", "&gt;", "&#39;", "&#34;", "&quot;", "&apos;", "&#x3c;", "&", ";", "lt;", "#3", "<", "x"}
			for sb.Len() < l {
				sb.WriteString(frag[r.intn(len(frag))])
			}
			b = []byte(sb.String())
		}
		if kind == "" {
			kind = "empty"
		}
		add(kind, b, statuses[r.intn(len(statuses))])
	}
	return out
}

func TestVF_Escape(t *testing.T) {
	r := vfNewRand(vfSeed())
	prefix, suffix := vfEscFrame(t)
	var cases []*vfEscCase
	if rp := vfReplayFile(); rp != "" {
		vfReadLines(t, rp, func(line []byte) {
			var c vfEscCase
			if err := json.Unmarshal(line, &c); err != nil {
				t.Fatalf("replay case: %v", err)
			}
			if c.Status == 0 {
				c.Status = 400
			}
			cases = append(cases, &c)
		})
	} else {
		cases = vfEscGenerate(r, vfEnvInt("VERIF_N", 400))
	}
	out := vfOpenLines(t, "cases.jsonl")
	defer out.close()
	for _, c := range cases {
		vfEscObserve(c, prefix, suffix)
		out.put(c)
	}
	vfWriteJSON(t, "params.json", map[string]interface{}{
		"prefix_len": len(prefix), "suffix_len": len(suffix),
		"prefix_tail": prefix[len(prefix)-3:], "suffix_head": vfTrunc(suffix, 4),
		"cases": len(cases),
	})
}
