//go:build verif

package traefikoidc

// Accessors to unexported names of the package used only by the C13 harness
// (kept apart from zz_vf_internals_test.go, which other checks extend
// concurrently).  Same rule: unexported names are touched only here.

import "fmt"

// vfLruCacheProblems inspects the real state of a Cache under its own mutex and
// returns every way in which items / order / elems disagree or the size exceeds
// maxSize (empty = well formed: the `wf` + capacity invariant of the model).
func vfLruCacheProblems(c *Cache) []string {
	p := vfPartsOf(c)
	p.mutex.Lock()
	defer p.mutex.Unlock()
	items, elems, order, maxSize := *p.items, *p.elems, *p.order, *p.maxSize
	var bad []string
	if len(items) > maxSize {
		bad = append(bad, fmt.Sprintf("size %d exceeds maxSize %d", len(items), maxSize))
	}
	if len(items) != len(elems) {
		bad = append(bad, fmt.Sprintf("len(items)=%d len(elems)=%d", len(items), len(elems)))
	}
	if order.Len() != len(elems) {
		bad = append(bad, fmt.Sprintf("order.Len()=%d len(elems)=%d", order.Len(), len(elems)))
	}
	seen := map[string]bool{}
	n := 0
	for e := order.Front(); e != nil; e = e.Next() {
		n++
		if n > len(items)+len(elems)+8 {
			bad = append(bad, "order list longer than the maps (cycle or leak)")
			break
		}
		key, ok := vfEntryKey(e.Value)
		if !ok {
			bad = append(bad, "order element carries no key")
			continue
		}
		if seen[key] {
			bad = append(bad, "key twice in order: "+key)
		}
		seen[key] = true
		if _, ok := items[key]; !ok {
			bad = append(bad, "key in order but not in items: "+key)
		}
		if el, ok := elems[key]; !ok || el != e {
			bad = append(bad, "elems does not point at the order element of "+key)
		}
	}
	for k := range items {
		if !seen[k] {
			bad = append(bad, "key in items but not in order: "+k)
		}
	}
	return bad
}

// vfLruCacheSize is len(c.items) under the mutex.
func vfLruCacheSize(c *Cache) int {
	p := vfPartsOf(c)
	p.mutex.Lock()
	defer p.mutex.Unlock()
	return len(*p.items)
}
