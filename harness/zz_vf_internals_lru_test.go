//go:build verif

package traefikoidc

// Accessors to unexported names of the package used only by the C13 harness
// (kept apart from zz_vf_internals_test.go, which other checks extend
// concurrently).  Same rule: unexported names are touched only here.

import "fmt"

// vfLruCacheProblems inspects the real state of a Cache under its own mutex and
// returns every way in which items / order / elems disagree or the size exceeds
// maxSize (empty = well formed: the `wf` + capacity invariant of the model).
func vfLruCacheProblems(c *Cache) []string {
	c.mutex.Lock()
	defer c.mutex.Unlock()
	var bad []string
	if len(c.items) > c.maxSize {
		bad = append(bad, fmt.Sprintf("size %d exceeds maxSize %d", len(c.items), c.maxSize))
	}
	if len(c.items) != len(c.elems) {
		bad = append(bad, fmt.Sprintf("len(items)=%d len(elems)=%d", len(c.items), len(c.elems)))
	}
	if c.order.Len() != len(c.elems) {
		bad = append(bad, fmt.Sprintf("order.Len()=%d len(elems)=%d", c.order.Len(), len(c.elems)))
	}
	seen := map[string]bool{}
	n := 0
	for e := c.order.Front(); e != nil; e = e.Next() {
		n++
		if n > len(c.items)+len(c.elems)+8 {
			bad = append(bad, "order list longer than the maps (cycle or leak)")
			break
		}
		le, ok := e.Value.(lruEntry)
		if !ok {
			bad = append(bad, "order element is not an lruEntry")
			continue
		}
		if seen[le.key] {
			bad = append(bad, "key twice in order: "+le.key)
		}
		seen[le.key] = true
		if _, ok := c.items[le.key]; !ok {
			bad = append(bad, "key in order but not in items: "+le.key)
		}
		if el, ok := c.elems[le.key]; !ok || el != e {
			bad = append(bad, "elems does not point at the order element of "+le.key)
		}
	}
	for k := range c.items {
		if !seen[k] {
			bad = append(bad, "key in items but not in order: "+k)
		}
	}
	return bad
}

// vfLruCacheSize is len(c.items) under the mutex.
func vfLruCacheSize(c *Cache) int {
	c.mutex.Lock()
	defer c.mutex.Unlock()
	return len(c.items)
}
