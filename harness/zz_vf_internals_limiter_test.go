//go:build verif

package traefikoidc

// Accessors to unexported names used by the C19 (rate limiter) harness.  Like
// zz_vf_internals_test.go this is the only place where the C19 harness touches
// unexported identifiers: if a refactor renames one of them this file stops
// compiling and bin/check reports the broken tie ("harness build").

import (
	"net/http/httptest"
	"math"
	"net/http"
	"time"

	"golang.org/x/time/rate"
)

// vfLimInstance returns the middleware behind the handler New() returned.
func vfLimInstance(h http.Handler) *TraefikOidc {
	t, _ := h.(*TraefikOidc)
	return t
}

// vfLimLimiter is the limiter New() built for the instance.
func vfLimLimiter(t *TraefikOidc) *rate.Limiter { return t.limiter }

// vfLimMeasure reads what New() built: Limit() in millitokens per second
// (rounded; -1 for rate.Inf) and Burst().
func vfLimMeasure(t *TraefikOidc) (rateMilli int64, burst int) {
	l := t.limiter.Limit()
	if l == rate.Inf || float64(l) > 1e12 {
		return -1, t.limiter.Burst()
	}
	return int64(math.Round(float64(l) * 1000)), t.limiter.Burst()
}

// vfLimWaitInit waits for provider discovery of the instance to complete.
func vfLimWaitInit(t *TraefikOidc, d time.Duration) bool {
	select {
	case <-t.initComplete:
		return true
	case <-time.After(d):
		return false
	}
}

func vfLimSetJWKCache(t *TraefikOidc, c JWKCacheInterface) { t.jwkCache = c }

func vfLimIssuer(t *TraefikOidc) string { return t.issuerURL }

// vfLimTokenCached: is there a verified-claims entry for this raw token?
func vfLimTokenCached(t *TraefikOidc, token string) bool {
	c, ok := t.tokenCache.Get(token)
	return ok && len(c) > 0
}

// vfLimCacheSizes: entries in the verified-token cache and in the blacklist.
func vfLimCacheSizes(t *TraefikOidc) (tokens int, blacklist int) {
	return vfLimCacheLen(t.tokenCache.cache), vfLimCacheLen(t.tokenBlacklist)
}

func vfLimCacheLen(c *Cache) int { return vfCacheLen(c) }

// vfLimReplayHas: has jwt.Verify recorded this jti in the process-global replay map?
func vfLimReplayHas(jti string) bool {
	replayCacheMu.Lock()
	defer replayCacheMu.Unlock()
	_, ok := replayCache[jti]
	return ok
}

// vfLimPreCheck runs the pre-verification step that consults the limiter.
func vfLimPreCheck(t *TraefikOidc, token string) error { return t.performPreVerificationChecks(token) }

// vfLimPreChecks runs what VerifyToken runs before any parsing or signature work
func vfLimPreChecks(t *TraefikOidc, token string) error { return t.performPreVerificationChecks(token) }

// vfLimMintSession: cookies of an authenticated session holding the given ID token, as the instance's session manager writes them
func vfLimMintSession(t *TraefikOidc, email, idToken string) ([]*http.Cookie, error) {
	req, _ := http.NewRequest("GET", "http://mint.invalid/", nil)
	sd, err := t.sessionManager.GetSession(req)
	if err != nil {
		return nil, err
	}
	sd.SetAuthenticated(true)
	sd.SetEmail(email)
	sd.SetAccessToken(idToken)
	rec := httptest.NewRecorder()
	if err := sd.Save(req, rec); err != nil {
		return nil, err
	}
	return rec.Result().Cookies(), nil
}

// vfLimMintSessionRT: as vfLimMintSession, with a refresh token
func vfLimMintSessionRT(t *TraefikOidc, email, idToken, refreshToken string) ([]*http.Cookie, error) {
	req, _ := http.NewRequest("GET", "http://mint.invalid/", nil)
	sd, err := t.sessionManager.GetSession(req)
	if err != nil {
		return nil, err
	}
	sd.SetAuthenticated(true)
	sd.SetEmail(email)
	sd.SetAccessToken(idToken)
	sd.SetRefreshToken(refreshToken)
	rec := httptest.NewRecorder()
	if err := sd.Save(req, rec); err != nil {
		return nil, err
	}
	return rec.Result().Cookies(), nil
}

// vfLimMintLogin: cookies of a browser in the middle of a login (state and nonce stored, not authenticated)
func vfLimMintLogin(t *TraefikOidc, csrf, nonce string) ([]*http.Cookie, error) {
	req, _ := http.NewRequest("GET", "http://mint.invalid/", nil)
	sd, err := t.sessionManager.GetSession(req)
	if err != nil {
		return nil, err
	}
	sd.SetCSRF(csrf)
	sd.SetNonce(nonce)
	sd.SetIncomingPath("/start")
	rec := httptest.NewRecorder()
	if err := sd.Save(req, rec); err != nil {
		return nil, err
	}
	return rec.Result().Cookies(), nil
}
