//go:build verif

package traefikoidc

// Generator profiles of the world harness, one per property that is checked on
// world histories.  Each returns a scripted history (deployment configuration +
// actions); all random choices come from the given PRNG.

import (
	"fmt"
	"strings"
	"time"
)

func init() {
	for name, p := range map[string]vfWorldProfile{
		"C01": {Gen: vfGenC01, Corpus: vfCorpusC01},
		"C03": {Gen: vfGenC03, Corpus: vfCorpusC03},
		"C04": {Gen: vfGenC04, Corpus: vfCorpusC04},
		"C06": {Gen: vfGenC06, Corpus: vfCorpusC06},
		"C07": {Gen: vfGenC07, Corpus: vfCorpusC07},
		"C08": {Gen: vfGenC08, Corpus: vfCorpusC08},
		"C09": {Gen: vfGenC09, Corpus: vfCorpusC09},
		"C10": {Gen: vfGenC10, Corpus: vfCorpusC10},
		"C11": {Gen: vfGenC11, Corpus: vfCorpusC11},
		"C15": {Gen: vfGenC15, Corpus: vfCorpusC15},
		"C16": {Gen: vfGenC16, Corpus: vfCorpusC16},
		"C17": {Gen: vfGenC17, Corpus: vfCorpusC17},
		"C18": {Gen: vfGenC18, Corpus: vfCorpusC18},
	} {
		vfWorldProfiles[name] = p
	}
}

func vfPick(r *vfRand, xs ...string) string { return xs[r.intn(len(xs))] }

func vfOkScript(spec *vfTokSpec) *vfTokenScript { return &vfTokenScript{Kind: "ok", Spec: spec} }

func vfPlainTok(email string, expIn int64) *vfTokSpec {
	return &vfTokSpec{Sub: "user-1", Email: email, ExpIn: expIn, IatIn: -5}
}

func vfReqAct(b, slot int, method, target string, tag int, mod func(*vfReq)) vfAction {
	rq := &vfReq{Browser: b, Slot: slot, Method: method, Target: target, Tag: tag}
	if mod != nil {
		mod(rq)
	}
	return vfAction{Kind: "req", Req: rq}
}

func vfLogoutAct(b, slot int) vfAction { return vfReqAct(b, slot, "GET", vfLogoutPath, 3, nil) }

// ---------------------------------------------------------------- C01: the gate

var vfTokenStates = []string{"valid", "near", "expired_in_skew", "expired", "bad_sig", "wrong_aud", "wrong_aud_azp", "wrong_iss", "chunked", "none"}

func vfTokForState(r *vfRand, st string) *vfTokSpec {
	t := vfPlainTok("user@example.com", 3600)
	switch st {
	case "near":
		t.ExpIn = 30
	case "expired_in_skew":
		t.ExpIn = -60
		t.IatIn = -600
	case "expired":
		t.ExpIn = -300
		t.IatIn = -900
	case "bad_sig":
		t.BadSig = true
	case "wrong_aud":
		t.WrongAud = true
	case "wrong_aud_azp":
		t.WrongAud = true
		t.Extra = map[string]interface{}{"azp": vfClientID, "client_id": vfClientID}
	case "wrong_iss":
		t.WrongIss = true
	case "chunked":
		t.Pad = 5000
		t.PadRandom = true
	case "none":
		return nil
	}
	return t
}

func vfGenC01(r *vfRand, id int) *vfWorldCase {
	cfg := vfWorldCfg{PKCE: r.chance(1, 2), ForceHTTPS: r.chance(1, 2), EndSession: true, GraceSec: 60}
	switch r.intn(4) {
	case 0:
		cfg.Excluded = []string{"/public", "/health"}
	case 1:
		cfg.Excluded = []string{"/api/public/", "/static/"}
	case 2:
		cfg.Excluded = []string{"/assets/", "/health"}
	}
	cfg.LongKeys = r.chance(1, 4) // two deployments whose long keys differ only in their last characters
	if !cfg.LongKeys && r.chance(1, 6) {
		cfg.KeyStyle = vfPick(r, "newline", "padded", "blank")
	}
	// where the browser lands after a logout is no statement about what is public
	cfg.PostLogout = vfPick(r, "", "", "/", "/?logged_out=1", "/#/bye", "https://www.example.com/", "/bye", "https://www.example.org", "/public-landing", "/app")
	cs := &vfWorldCase{ID: id, Kind: "gate", Script: vfScript{Cfg: cfg, Browsers: 2}}
	var acts []vfAction
	// browser 1 holds a genuine session obtained by a real login (source of cookies to steal / merge)
	if r.chance(1, 2) {
		acts = append(acts, vfLogin(1, 0, "/app", vfOkScript(vfTokForState(r, vfPick(r, "valid", "chunked"))))...)
	}
	// browser 0: jar state
	switch r.intn(8) {
	case 0: // no cookies
	case 1, 2, 3: // a session minted with a chosen token state, flag, age, refresh token
		st := vfTokenStates[r.intn(len(vfTokenStates))]
		ms := &vfMintSpec{Auth: r.chance(4, 5), Email: "user@example.com", Tok: vfTokForState(r, st),
			RefreshLen: []int{0, 0, 24, 24, 3000}[r.intn(5)], CreatedAgoSec: int64([]int{0, 0, 0, 3600, 86000, 90000}[r.intn(6)])}
		if r.chance(1, 6) {
			ms.KeyB = true
		}
		if r.chance(1, 6) {
			ms.Only = [][]string{{"m"}, {"a", "r"}, {"m", "a"}, {"m", "chunks"}}[r.intn(4)]
		}
		acts = append(acts, vfAction{Kind: "mint", Browser: 0, Mint: ms})
	case 4: // genuine login, then tampering
		acts = append(acts, vfLogin(0, 0, "/app", vfOkScript(vfTokForState(r, vfPick(r, "valid", "chunked"))))...)
	case 5: // all cookies of another browser's session (stolen jar): that IS a session of this deployment
		acts = append(acts, vfAction{Kind: "tamper", Browser: 0, Tamper: "copyall", From: 1})
	case 6: // merged jar: main cookie of one session, token cookies of a minted one
		acts = append(acts, vfAction{Kind: "mint", Browser: 0, Mint: &vfMintSpec{Auth: true, Email: "x@example.com",
			Tok: vfTokForState(r, vfPick(r, "expired", "bad_sig", "chunked", "valid")), RefreshLen: 0}})
		acts = append(acts, vfAction{Kind: "tamper", Browser: 0, Tamper: "copy", Name: vfPick(r, "m", "a", "a1", "r"), From: 1})
	case 7: // unauthenticated flow state only
		acts = append(acts, vfGated(0, 0, "/start", 1))
	}
	for i := r.intn(3); i > 0; i-- {
		acts = append(acts, vfAction{Kind: "tamper", Browser: 0, Tamper: vfPick(r, "drop", "junk", "truncate", "flip", "swap"),
			Name: vfPick(r, "m", "a", "r", "a0", "a1"), Name2: vfPick(r, "a", "r", "m")})
	}
	if r.chance(1, 5) { // the provider has rotated its signing key meanwhile
		acts = append(acts, vfAction{Kind: "reconf", Prov: "rotate_keys", Mode: vfPick(r, "tick", "reload")})
	}
	// the probing requests
	paths := []string{"/", "/app", "/api/x", "/public", "/public/a.css", "/x/public", "/publicity", "/health", "/healthz", "/favicon.ico",
		vfCallbackPath, vfLogoutPath, "/app?next=/public", "/api/public/docs", "/api/public", "/api/publications", "/api/public-admin/users",
		"/static/app.js", "/static", "/staticfiles/x", "/assets/logo.png", "/assets", "/assetsmanager", "/favico", "/Public/x", "/api//public/"}
	for i := 1 + r.intn(3); i > 0; i-- {
		p := paths[r.intn(len(paths))]
		acts = append(acts, vfReqAct(0, 0, vfPick(r, "GET", "GET", "POST", "OPTIONS", "HEAD", "PUT", "DELETE"), p, 1, func(q *vfReq) {
			q.Accept = vfPick(r, "", "", "text/html", "application/json", "text/event-stream", "text/event-stream, text/html", "*/*")
			if r.chance(1, 3) {
				q.Origin = "https://spa.example"
			}
			if r.chance(1, 4) { // the headers of a CORS preflight (whatever the method is)
				q.Headers = map[string]string{"Access-Control-Request-Method": vfPick(r, "GET", "POST", "DELETE")}
				if r.chance(1, 2) {
					q.Headers["Access-Control-Request-Headers"] = "authorization, content-type"
				}
			}
			if r.chance(1, 4) {
				q.ClientIDs = []int{1 + r.intn(5)}
			}
			if r.chance(1, 3) { // what a proxy in front (or a client pretending to be one) says about the path: routing is by the URL only
				if q.Headers == nil {
					q.Headers = map[string]string{}
				}
				q.Headers[vfPick(r, "X-Forwarded-Prefix", "X-Forwarded-Prefix", "X-Forwarded-Uri", "X-Original-Url", "X-Rewrite-Url", "X-Forwarded-Path", "X-Envoy-Original-Path")] =
					vfPick(r, "/public", "/health", "/health/", "/favicon", "/favicon.ico", "/static/", "/api/public/", "/assets/", vfCallbackPath, vfLogoutPath)
			}
			if r.chance(1, 2) {
				q.Script = &vfTokenScript{Kind: vfPick(r, "ok", "ok", "invalid_grant", "server_error", "no_id_token"),
					Spec: vfTokForState(r, vfPick(r, "valid", "valid", "bad_sig", "expired", "wrong_aud", "wrong_aud_azp")), Rotate: r.chance(1, 2)}
			}
		}))
	}
	cs.Script.Actions = acts
	return cs
}

// the provider rotates its signing key; once the instances have the new key set (reload, or the cached set has run out), sessions
// whose ID token was signed with the retired key are not forwarded any more, and new logins work
func vfC01Rotation(mode string, refresh int) *vfWorldCase {
	acts := append(vfLogin(0, 0, "/app", vfOkScript(vfPlainTok("user@example.com", 3600))), vfGated(0, 0, "/app", 1))
	acts = append(acts, vfAction{Kind: "mint", Browser: 1, Mint: &vfMintSpec{Auth: true, Email: "b@example.com", Tok: vfPlainTok("b@example.com", 3600), RefreshLen: refresh}}, vfGated(1, 0, "/b", 1))
	acts = append(acts, vfAction{Kind: "reconf", Prov: "rotate_keys", Mode: mode}, vfGated(0, 0, "/app", 1),
		vfReqAct(1, 0, "GET", "/b", 1, func(q *vfReq) { q.Script = vfOkScript(vfPlainTok("b@example.com", 3600)) }), vfGated(1, 0, "/b/2", 1))
	acts = append(acts, vfLogin(0, 0, "/app", vfOkScript(vfPlainTok("user@example.com", 3600)))...)
	acts = append(acts, vfGated(0, 0, "/app", 1))
	return &vfWorldCase{Kind: "corpus", Script: vfScript{Cfg: vfWorldCfg{EndSession: true, GraceSec: 60}, Browsers: 2, Actions: acts}}
}

func vfCorpusC01() []*vfWorldCase {
	sse := &vfWorldCase{Kind: "corpus", Script: vfScript{Cfg: vfWorldCfg{EndSession: true, GraceSec: 60}, Browsers: 1, Actions: []vfAction{
		vfReqAct(0, 0, "GET", "/app/events", 1, func(q *vfReq) { q.Accept = "text/event-stream" })}}}
	foreign := &vfWorldCase{Kind: "corpus", Script: vfScript{Cfg: vfWorldCfg{EndSession: true, GraceSec: 60, Excluded: []string{"/public"}}, Browsers: 1, Actions: []vfAction{
		{Kind: "mint", Browser: 0, Mint: &vfMintSpec{Auth: true, Email: "a@example.com", Tok: vfPlainTok("a@example.com", 3600), KeyB: true}},
		vfGated(0, 0, "/app", 1), vfGated(0, 0, "/x/public", 1), vfGated(0, 0, "/public/x", 1)}}}
	// a refresh grant answered without an ID token (or with an unacceptable one) must not keep an expired session alive
	stale := func(kind string, js bool, spec *vfTokSpec) *vfWorldCase {
		return &vfWorldCase{Kind: "corpus", Script: vfScript{Cfg: vfWorldCfg{EndSession: true, GraceSec: 60}, Browsers: 1, Actions: []vfAction{
			{Kind: "mint", Browser: 0, Mint: &vfMintSpec{Auth: true, Email: "a@example.com", Tok: vfTokForState(nil, "expired"), RefreshLen: 24}},
			vfReqAct(0, 0, "GET", "/app", 1, func(q *vfReq) { q.AcceptJS = js; q.Script = &vfTokenScript{Kind: kind, Spec: spec} }),
			vfGated(0, 0, "/app", 1)}}}
	}
	// a session without refresh token whose ID token is 3 s from the END of the expiry tolerance: served once more,
	// then (real time passes) the tolerance is over and nothing may be forwarded, whatever was cached meanwhile
	edgeTok := vfPlainTok("a@example.com", -117)
	edgeTok.IatIn = -900
	edge := &vfWorldCase{Kind: "corpus", Script: vfScript{Cfg: vfWorldCfg{EndSession: true, GraceSec: 60}, Browsers: 1, Actions: []vfAction{
		{Kind: "mint", Browser: 0, Mint: &vfMintSpec{Auth: true, Email: "a@example.com", Tok: edgeTok, RefreshLen: 0}},
		vfGated(0, 0, "/app", 1), {Kind: "sleep", SleepMs: 4300}, vfGated(0, 0, "/app", 1), vfGated(0, 0, "/app/again", 1)}}}
	foreignLong := &vfWorldCase{Kind: "corpus", Script: vfScript{Cfg: vfWorldCfg{EndSession: true, GraceSec: 60, LongKeys: true}, Browsers: 1, Actions: []vfAction{
		{Kind: "mint", Browser: 0, Mint: &vfMintSpec{Auth: true, Email: "a@example.com", Tok: vfPlainTok("a@example.com", 3600), KeyB: true}},
		vfGated(0, 0, "/app", 1), vfGated(0, 0, "/app/2", 1)}}}
	preflight := &vfWorldCase{Kind: "corpus", Script: vfScript{Cfg: vfWorldCfg{EndSession: true, GraceSec: 60, Excluded: []string{"/public"}}, Browsers: 1, Actions: []vfAction{
		vfReqAct(0, 0, "OPTIONS", "/admin/users", 1, func(q *vfReq) {
			q.Origin = "https://spa.example"
			q.Headers = map[string]string{"Access-Control-Request-Method": "DELETE", "Access-Control-Request-Headers": "authorization"}
		}),
		vfReqAct(0, 0, "OPTIONS", "/admin/users", 1, func(q *vfReq) { q.Origin = "https://spa.example" }),
		vfReqAct(0, 0, "OPTIONS", "/public/x", 1, func(q *vfReq) {
			q.Origin = "https://spa.example"
			q.Headers = map[string]string{"Access-Control-Request-Method": "GET"}
		})}}}
	azp := &vfWorldCase{Kind: "corpus", Script: vfScript{Cfg: vfWorldCfg{EndSession: true, GraceSec: 60}, Browsers: 1, Actions: append(
		vfLogin(0, 0, "/app", vfOkScript(vfTokForState(nil, "wrong_aud_azp"))), vfGated(0, 0, "/app", 1),
		vfAction{Kind: "mint", Browser: 0, Mint: &vfMintSpec{Auth: true, Email: "user@example.com", Tok: vfTokForState(nil, "wrong_aud_azp")}}, vfGated(0, 0, "/app", 1))}}
	return []*vfWorldCase{vfC01Rotation("tick", 0), vfC01Rotation("tick", 24), vfC01Rotation("reload", 24), sse, foreign, foreignLong, preflight, azp, stale("no_id_token", false, nil), stale("no_id_token", true, nil),
		stale("ok", false, vfTokForState(nil, "expired")), stale("ok", false, vfTokForState(nil, "bad_sig")), edge}
}

// ---------------------------------------------------------------- C03: state, nonce, PKCE binding

func vfGenC03(r *vfRand, id int) *vfWorldCase {
	cfg := vfWorldCfg{PKCE: r.chance(2, 3), ForceHTTPS: r.chance(1, 2), EndSession: true, GraceSec: 60}
	if r.chance(1, 4) {
		cfg.ChallengeMethods = [][]string{{"plain"}, {"S256"}, {"plain", "S256"}, {}}[r.intn(4)]
	}
	nb := 1 + r.intn(3)
	cs := &vfWorldCase{ID: id, Kind: "login-binding", Script: vfScript{Cfg: cfg, Browsers: nb}}
	var acts []vfAction
	if r.chance(1, 5) { // callback before any initiation
		acts = append(acts, vfAction{Kind: "callback", Browser: 0, StateMode: vfPick(r, "garbage", "absent", "foreign"), CodeMode: "garbage", From: nb - 1})
	}
	n := 2 + r.intn(7)
	for i := 0; i < n; i++ {
		b := r.intn(nb)
		slot := 0
		if r.chance(1, 5) {
			slot = 1
		}
		switch r.intn(9) {
		case 0, 1: // initiation
			acts = append(acts, vfGated(b, slot, vfPaths[r.intn(len(vfPaths))], 1))
		case 2: // initiation twice: the first state becomes stale
			acts = append(acts, vfGated(b, slot, "/first", 1), vfGated(b, slot, "/second", 1))
		case 3: // provider visit
			acts = append(acts, vfAction{Kind: "authorize", Browser: b})
		case 4, 5: // complete own login
			sc := &vfTokenScript{Kind: "ok", Spec: vfPlainTok("user@example.com", 3600), NonceMode: vfPick(r, "", "", "", "other", "missing")}
			acts = append(acts, vfGated(b, slot, "/app", 1), vfAction{Kind: "authorize", Browser: b},
				vfAction{Kind: "callback", Browser: b, Slot: slot, Script: sc})
			if r.chance(1, 2) { // the same callback again, from the updated jar
				acts = append(acts, vfAction{Kind: "callback", Browser: b, Slot: slot, CodeMode: "reused", Script: sc})
			}
		case 6: // callback with deviations
			acts = append(acts, vfAction{Kind: "callback", Browser: b, Slot: slot,
				StateMode: vfPick(r, "own", "stale", "foreign", "absent", "garbage"),
				CodeMode:  vfPick(r, "own", "own", "absent", "garbage", "reused", "foreign"), From: (b + 1) % nb,
				Script: &vfTokenScript{Kind: vfPick(r, "ok", "ok", "invalid_grant", "server_error", "malformed", "no_id_token", "drop"),
					Spec: vfPlainTok("user@example.com", 3600), NonceMode: vfPick(r, "", "", "other", "missing")}})
		case 7: // provider error redirect
			acts = append(acts, vfAction{Kind: "callback", Browser: b, Slot: slot, ErrParam: "access_denied", ErrDesc: "user said no", CodeMode: vfPick(r, "own", "absent")})
		case 8: // callback whose token the verifier rejects
			acts = append(acts, vfGated(b, slot, "/app", 1), vfAction{Kind: "authorize", Browser: b},
				vfAction{Kind: "callback", Browser: b, Slot: slot, Script: &vfTokenScript{Kind: "ok",
					Spec: vfTokForState(r, vfPick(r, "bad_sig", "expired", "wrong_aud", "wrong_iss"))}})
		}
	}
	cs.Script.Actions = acts
	return cs
}

func vfCorpusC03() []*vfWorldCase {
	ok := vfOkScript(vfPlainTok("u@example.com", 3600))
	replay := &vfWorldCase{Kind: "corpus", Script: vfScript{Cfg: vfWorldCfg{PKCE: true, EndSession: true, GraceSec: 60}, Browsers: 2, Actions: []vfAction{
		vfGated(0, 0, "/a", 1), vfGated(0, 0, "/b", 1), {Kind: "authorize", Browser: 0},
		{Kind: "callback", Browser: 0, StateMode: "stale", Script: ok},
		{Kind: "callback", Browser: 0, Script: ok},
		{Kind: "callback", Browser: 0, CodeMode: "reused", Script: ok},
		vfGated(1, 0, "/c", 1), {Kind: "callback", Browser: 1, StateMode: "foreign", From: 0, CodeMode: "garbage", Script: ok}}}}
	// PKCE enabled against providers that advertise which challenge methods they support: whatever they say,
	// a login that completes was bound to its own verifier
	adv := func(methods []string) *vfWorldCase {
		return &vfWorldCase{Kind: "corpus", Script: vfScript{Cfg: vfWorldCfg{PKCE: true, EndSession: true, GraceSec: 60, ChallengeMethods: methods}, Browsers: 1,
			Actions: append(vfLogin(0, 0, "/a", ok), vfGated(0, 0, "/a", 1))}}
	}
	// somebody else's complete authorization response (state AND code, both unused) opened in a browser that holds no
	// login cookie at all, in one that has a pending login of its own, and in one that is logged in
	other := func(pkce bool, prep ...vfAction) *vfWorldCase {
		acts := []vfAction{vfGated(0, 0, "/private", 1), {Kind: "authorize", Browser: 0}}
		acts = append(acts, prep...)
		acts = append(acts, vfAction{Kind: "callback", Browser: 1, StateMode: "foreign", CodeMode: "foreign", From: 0, Script: ok}, vfGated(1, 0, "/private", 1),
			vfAction{Kind: "callback", Browser: 0, Script: ok}, vfGated(0, 0, "/private", 1))
		return &vfWorldCase{Kind: "corpus", Script: vfScript{Cfg: vfWorldCfg{PKCE: pkce, EndSession: true, GraceSec: 60}, Browsers: 2, Actions: acts}}
	}
	// an authorization response that carries BOTH an error and the browser's own unused state and code: never a session
	both := func(desc string, js bool) *vfWorldCase {
		acts := []vfAction{vfGated(0, 0, "/protected", 1), {Kind: "authorize", Browser: 0},
			{Kind: "callback", Browser: 0, AcceptJS: js, ErrParam: "access_denied", ErrDesc: desc, StateMode: "own", CodeMode: "own", Script: ok}, vfGated(0, 0, "/protected", 1)}
		return &vfWorldCase{Kind: "corpus", Script: vfScript{Cfg: vfWorldCfg{PKCE: true, EndSession: true, GraceSec: 60}, Browsers: 1, Actions: acts}}
	}
	lg := vfLogin(1, 0, "/mine", ok)
	return []*vfWorldCase{both("", false), both("user said no", true), replay, adv([]string{"plain"}), adv([]string{"S256", "plain"}), adv([]string{}),
		other(false), other(true), other(true, vfGated(1, 0, "/mine", 1)), other(false, lg...)}
}

// ---------------------------------------------------------------- C04: an established session keeps working

func vfGenC04(r *vfRand, id int) *vfWorldCase {
	cfg := vfWorldCfg{PKCE: r.chance(1, 2), ForceHTTPS: r.chance(1, 2), EndSession: r.chance(1, 2), GraceSec: []int{60, 60, 300, 1}[r.intn(4)]}
	if r.chance(1, 4) {
		cfg.Templates = []vfTemplate{{"X-Email-Copy", "{{.Claims.email}}"}}
	}
	cs := &vfWorldCase{ID: id, Kind: "steady-session", Script: vfScript{Cfg: cfg, Browsers: 1}}
	spec := vfPlainTok("user@example.com", 3600)
	if r.chance(1, 5) { // lifetimes not far beyond the refresh grace period
		spec.ExpIn = int64(cfg.GraceSec + []int{8, 30, 90, 119, 125, 200}[r.intn(6)])
	}
	if r.chance(2, 3) {
		spec.Jti = fmt.Sprintf("jti-%x", r.next())
	}
	if r.chance(1, 3) {
		spec.NbfIn = vfPtr64(-20)
	}
	switch r.intn(6) {
	case 0:
		spec.Pad = 300
	case 1:
		spec.Pad = 2500
		spec.PadRandom = true
	case 2:
		spec.Pad = 12000
		spec.PadRandom = true
	case 3:
		spec.Pad = []int{30000, 32768, 33000, 48000, 70000}[r.intn(5)] // tens of kilobytes (compressible)
	case 4:
		// standard OIDC claims this plugin does not read; auth_time (the user's authentication at the provider) is minutes,
		// more than a day or more than a year old: a long-lived provider SSO session
		spec.Extra = map[string]interface{}{"realm_access": map[string]interface{}{"roles": []interface{}{"a", "b"}}, "acr": "1", "amr": []interface{}{"pwd"},
			"auth_time": time.Now().Unix() - []int64{300, 108000, 34560000}[id%3], "sid": "sid-" + fmt.Sprint(id)}
	}
	if r.chance(1, 4) { // group / role claims of every JSON shape providers emit (single string, null, objects ...)
		spec.Groups = vfClaimShapes[r.intn(len(vfClaimShapes))]
		spec.Roles = vfClaimShapes[r.intn(len(vfClaimShapes))]
	}
	sc := vfOkScript(spec)
	if r.chance(1, 3) {
		sc.RefreshLen = 3000
	}
	if r.chance(1, 4) {
		sc.NoRefresh = true
	}
	var acts []vfAction
	nslots := 1 + r.intn(2)
	swap := func() {
		if r.chance(1, 4) {
			acts = append(acts, vfAction{Kind: "newinst", Slot: r.intn(nslots)})
		}
	}
	slot := func() int { return r.intn(nslots) }
	if r.chance(1, 3) {
		// leftovers of an earlier session with a much larger token, logged out before the login under test
		big := vfOkScript(vfSizedTok(r, []int{6000, 9000, 20000}[r.intn(3)], true))
		big.RefreshLen = []int{0, 5200}[r.intn(2)]
		acts = append(acts, vfLogin(0, slot(), "/earlier", big)...)
		acts = append(acts, vfGated(0, slot(), "/earlier", 1))
		acts = append(acts, vfLogoutAct(0, slot()))
	}
	acts = append(acts, vfGated(0, slot(), "/app?q=1", 1))
	swap()
	acts = append(acts, vfAction{Kind: "authorize", Browser: 0})
	swap()
	acts = append(acts, vfAction{Kind: "callback", Browser: 0, Slot: slot(), Script: sc})
	if r.chance(1, 2) {
		// the login token is already inside the grace period: the first request replaces it by a fresh,
		// long-lived one (of another size); from then on no further provider round-trip is due
		spec.ExpIn = int64(cfg.GraceSec) - 1
		if spec.ExpIn < 20 {
			spec.ExpIn = 20
			cs.Script.Cfg.GraceSec = 60
		}
		fresh := vfSizedTok(r, vfSizes[r.intn(len(vfSizes))], r.chance(2, 3))
		if spec.Jti != "" {
			fresh.Jti = fmt.Sprintf("jti-%x", r.next())
		}
		rs := vfOkScript(fresh)
		rs.Rotate = r.chance(1, 2)
		if !sc.NoRefresh {
			acts = append(acts, vfReqAct(0, slot(), "GET", "/app/first", 1, func(q *vfReq) { q.Script = rs }))
		}
	}
	for i := 1 + r.intn(12); i > 0; i-- {
		swap()
		if r.chance(1, 8) {
			// the logged-in browser opens an authorization response again (back button, reload of the callback address, a bookmark,
			// a stale or made-up one): whatever the answer, the established session goes on
			acts = append(acts, vfAction{Kind: "callback", Browser: 0, Slot: slot(), AcceptJS: r.chance(1, 4),
				StateMode: vfPick(r, "own", "own", "garbage", "absent"), CodeMode: vfPick(r, "reused", "reused", "garbage", "absent"), Script: sc})
			continue
		}
		acts = append(acts, vfReqAct(0, slot(), vfPick(r, "GET", "GET", "POST", "HEAD", "PUT", "OPTIONS", "OPTIONS", "DELETE", "PATCH", "PROPFIND"), vfPaths[r.intn(len(vfPaths))], 1, func(q *vfReq) {
			q.AcceptJS = r.chance(1, 4)
		}))
	}
	acts = append(acts, vfGated(0, slot(), "/app/last", 1))
	cs.Script.Actions = acts
	return cs
}

func vfCorpusC04() []*vfWorldCase {
	spec := vfPlainTok("u@example.com", 3600)
	spec.Jti = "jti-corpus-c04"
	acts := append(vfLogin(0, 0, "/app", vfOkScript(spec)), vfGated(0, 0, "/app", 1), vfGated(0, 0, "/app", 1),
		vfAction{Kind: "callback", Browser: 0, CodeMode: "reused", Script: vfOkScript(spec)}, vfGated(0, 0, "/app/page", 1), vfGated(0, 0, "/", 1),
		vfAction{Kind: "newinst", Slot: 0}, vfGated(0, 0, "/app", 1), vfGated(0, 0, "/b", 1))
	// established sessions are served by a freshly started instance whatever the verification rate limit is:
	// 14 browsers log in (paced, so that the logins themselves stay within the limit of 10/s), the instance is
	// replaced, and all 14 come back at once
	var many []vfAction
	for b := 0; b < 14; b++ {
		sp := vfPlainTok(fmt.Sprintf("u%d@example.com", b), 3600)
		many = append(many, vfLogin(b, 0, fmt.Sprintf("/app/%d", b), vfOkScript(sp))...)
		many = append(many, vfAction{Kind: "sleep", SleepMs: 160})
	}
	many = append(many, vfAction{Kind: "newinst", Slot: 0})
	for b := 0; b < 14; b++ {
		many = append(many, vfGated(b, 0, fmt.Sprintf("/app/%d", b), 1))
	}
	// a token that is outside the refresh grace period but closer to its expiry than grace + the clock-skew tolerance
	soon := vfOkScript(vfPlainTok("u@example.com", 150))
	actsSoon := append(vfLogin(0, 0, "/app", soon), vfGated(0, 0, "/app", 1), vfReqAct(0, 0, "POST", "/app/save", 1, nil), vfGated(0, 0, "/app/2", 1))
	return []*vfWorldCase{
		{Kind: "corpus", Script: vfScript{Cfg: vfWorldCfg{EndSession: true, GraceSec: 60}, Browsers: 1, Actions: acts}},
		{Kind: "corpus", Script: vfScript{Cfg: vfWorldCfg{EndSession: true, GraceSec: 60, RateLimit: 10}, Browsers: 14, Actions: many}},
		{Kind: "corpus", Script: vfScript{Cfg: vfWorldCfg{EndSession: true, GraceSec: 60}, Browsers: 1, Actions: actsSoon}},
	}
}

// ---------------------------------------------------------------- C06: domain and role restrictions

var vfEmails = []interface{}{"alice@example.com", "bob@corp.example.org", "eve@evil.com", "eve@example.com.evil.com", "eve@sub.example.com",
	"eve@xexample.com", "eve@EXAMPLE.COM", "a@b@example.com", "example.com", "@example.com", "eve@example.com ", "eve@", "", nil, 42,
	"eve@examрle.com", "eve@example.co", "eve@example.comm"}

var vfClaimShapes = []interface{}{nil, []interface{}{"admin"}, []interface{}{"staff", "dev"}, []interface{}{"nobody"}, []interface{}{},
	[]interface{}{"guests,admin"}, []interface{}{"self-service, admin"}, []interface{}{"cn=guests,admin,dc=example"}, []interface{}{" admin"}, []interface{}{"admin;dev"}, []interface{}{"ADMIN"},
	[]interface{}{1, "admin", nil}, []interface{}{1, 2}, "admin", map[string]interface{}{"admin": true}, 7}

func vfGenC06(r *vfRand, id int) *vfWorldCase {
	cfg := vfWorldCfg{EndSession: true, GraceSec: 60}
	switch r.intn(4) {
	case 0:
		cfg.Domains = []string{"example.com"}
	case 1:
		cfg.Domains = []string{"example.com", "corp.example.org"}
	case 2:
		cfg.Roles = []string{"admin", "dev"}
	case 3:
		cfg.Domains = []string{"example.com"}
		cfg.Roles = []string{"admin"}
	}
	if r.chance(1, 8) {
		cfg.Domains, cfg.Roles = nil, nil
	}
	if r.chance(1, 8) { // lists that are configured but name nothing usable (an unset variable in a templated configuration)
		switch r.intn(4) {
		case 0:
			cfg.Domains = []string{""}
		case 1:
			cfg.Domains = []string{" ", ""}
		case 2:
			cfg.Roles = []string{""}
		case 3:
			cfg.Domains, cfg.Roles = []string{"", "example.com"}, []string{" "}
		}
	}
	refreshing := r.chance(1, 2)
	if refreshing {
		cfg.GraceSec = 7200 // every request on a one-hour token refreshes first
	}
	cs := &vfWorldCase{ID: id, Kind: "allow-lists", Script: vfScript{Cfg: cfg, Browsers: 1}}
	mk := func() *vfTokSpec {
		t := vfPlainTok("", 3600)
		t.Email = vfEmails[r.intn(len(vfEmails))]
		if r.chance(1, 2) {
			t.Email = vfPick(r, "alice@example.com", "bob@corp.example.org", "carol@example.com")
		}
		t.Groups = vfClaimShapes[r.intn(len(vfClaimShapes))]
		t.Roles = vfClaimShapes[r.intn(len(vfClaimShapes))]
		if r.chance(1, 3) { // tokens of every size class: a refresh may cross the single-cookie / chunked boundary in either direction
			t.Pad, t.PadRandom = []int{1200, 2500, 6000}[r.intn(3)], true
		}
		return t
	}
	acts := vfLogin(0, 0, "/app", vfOkScript(mk()))
	more := func() {
		for i := 1 + r.intn(4); i > 0; i-- {
			acts = append(acts, vfReqAct(0, 0, "GET", vfPaths[r.intn(len(vfPaths))], 1, func(q *vfReq) {
				q.AcceptJS = r.chance(1, 4)
				q.Script = &vfTokenScript{Kind: "ok", Spec: mk(), Rotate: r.chance(1, 2)}
			}))
		}
	}
	more()
	if r.chance(1, 3) {
		// the deployment is reconfigured (other allow-lists) and Traefik rebuilds the middleware: the sessions issued before
		// are judged by the lists valid NOW, whatever was decided about them earlier
		c2 := cfg
		switch r.intn(5) {
		case 0:
			c2.Roles = []string{"admin"}
		case 1:
			c2.Roles = []string{"nobody-has-this"}
		case 2:
			c2.Domains = []string{"corp.example.org"}
		case 3:
			c2.Domains, c2.Roles = nil, nil
		case 4:
			c2.Roles, c2.Domains = []string{"staff", "dev"}, []string{"example.com"}
		}
		acts = append(acts, vfAction{Kind: "reconf", Cfg2: &c2}, vfGated(0, 0, "/app", 1))
		more()
	}
	cs.Script.Actions = acts
	return cs
}

// a session accepted under one allow-list, then the same deployment with a tighter list (reload), and back
func vfC06Reload() *vfWorldCase {
	t := vfPlainTok("alice@example.com", 3600)
	t.Roles, t.Groups = []interface{}{"user"}, []interface{}{"staff"}
	c1 := vfWorldCfg{EndSession: true, GraceSec: 60, Roles: []string{"user"}}
	c2 := vfWorldCfg{EndSession: true, GraceSec: 60, Roles: []string{"admin"}}
	c3 := vfWorldCfg{EndSession: true, GraceSec: 60, Roles: []string{"user"}, Domains: []string{"corp.example.org"}}
	acts := append(vfLogin(0, 0, "/staff", vfOkScript(t)), vfGated(0, 0, "/staff", 1), vfGated(0, 0, "/staff/2", 1),
		vfAction{Kind: "reconf", Cfg2: &c2}, vfGated(0, 0, "/admin", 1), vfGated(0, 0, "/admin/2", 1),
		vfAction{Kind: "reconf", Cfg2: &c1}, vfGated(0, 0, "/staff", 1),
		vfAction{Kind: "reconf", Cfg2: &c3}, vfGated(0, 0, "/staff", 1))
	return &vfWorldCase{Kind: "corpus", Script: vfScript{Cfg: c1, Browsers: 1, Actions: acts}}
}

func vfCorpusC06() []*vfWorldCase {
	t1 := vfPlainTok("eve@example.com.evil.com", 3600)
	t2 := vfPlainTok("alice@example.com", 3600)
	t2.Groups = "admin"
	c := vfWorldCfg{EndSession: true, GraceSec: 60, Domains: []string{"example.com"}, Roles: []string{"admin"}}
	blankD := vfWorldCfg{EndSession: true, GraceSec: 60, Domains: []string{""}}
	blankR := vfWorldCfg{EndSession: true, GraceSec: 60, Roles: []string{" "}}
	t3 := vfPlainTok("mallory@evil.example", 3600)
	t3.Groups = []interface{}{"staff"}
	return []*vfWorldCase{vfC06Reload(),
		{Kind: "corpus", Script: vfScript{Cfg: c, Browsers: 1, Actions: append(vfLogin(0, 0, "/app", vfOkScript(t1)), vfGated(0, 0, "/app", 1))}},
		{Kind: "corpus", Script: vfScript{Cfg: c, Browsers: 1, Actions: append(vfLogin(0, 0, "/app", vfOkScript(t2)), vfGated(0, 0, "/app", 1))}},
		{Kind: "corpus", Script: vfScript{Cfg: blankD, Browsers: 1, Actions: append(vfLogin(0, 0, "/app", vfOkScript(t3)), vfGated(0, 0, "/app", 1))}},
		{Kind: "corpus", Script: vfScript{Cfg: blankR, Browsers: 1, Actions: append(vfLogin(0, 0, "/app", vfOkScript(t3)), vfGated(0, 0, "/app", 1))}},
	}
}

// ---------------------------------------------------------------- C07: read back what was last written (end to end)

func vfSizedTok(r *vfRand, size int, random bool) *vfTokSpec {
	t := vfPlainTok("user@example.com", 3600)
	t.Pad = size
	t.PadRandom = random
	return t
}

var vfSizes = []int{0, 10, 600, 1400, 1500, 2900, 3000, 4400, 4500, 6000, 9000, 20000}

func vfGenC07(r *vfRand, id int) *vfWorldCase {
	cfg := vfWorldCfg{PKCE: r.chance(1, 2), EndSession: r.chance(1, 2), GraceSec: 7200} // every request refreshes: a new write per request
	if r.chance(1, 4) {
		cfg.GraceSec = 60 // ... or none does: what the next request reads back is what gets forwarded downstream
	}
	cs := &vfWorldCase{ID: id, Kind: "overwrite-chain", Script: vfScript{Cfg: cfg, Browsers: 1}}
	sc := func() *vfTokenScript {
		s := vfOkScript(vfSizedTok(r, vfSizes[r.intn(len(vfSizes))], r.chance(2, 3)))
		if r.chance(1, 6) { // tens of kilobytes, around 32 KiB and beyond (mostly compressible, so that the cookies stay few)
			s = vfOkScript(vfSizedTok(r, []int{31000, 32000, 32768, 33500, 48000, 70000}[r.intn(6)], r.chance(1, 5)))
		}
		s.Rotate = r.chance(2, 3)
		s.RefreshLen = []int{0, 0, 1500, 2600, 5200, 9000}[r.intn(6)]
		s.RefreshGz = r.chance(1, 5) // contents that look like base64 of a gzip stream
		return s
	}
	acts := vfLogin(0, 0, "/app", sc())
	for i := 2 + r.intn(7); i > 0; i-- {
		switch r.intn(8) {
		case 0:
			acts = append(acts, vfLogoutAct(0, 0))
			acts = append(acts, vfLogin(0, 0, "/again", sc())...)
		case 1:
			acts = append(acts, vfReqAct(0, 0, "GET", "/app", 1, func(q *vfReq) { q.Script = &vfTokenScript{Kind: vfPick(r, "invalid_grant", "server_error")} }))
			acts = append(acts, vfLogin(0, 0, "/after-failure", sc())...)
		default:
			s := sc()
			acts = append(acts, vfReqAct(0, 0, "GET", "/app", 1, func(q *vfReq) { q.Script = s }))
		}
	}
	cs.Script.Actions = acts
	return cs
}

func vfCorpusC07() []*vfWorldCase {
	big := vfOkScript(vfSizedTok(nil, 6000, true))
	small := vfOkScript(vfSizedTok(nil, 1500, true))
	small.Rotate = true
	tiny := vfOkScript(vfSizedTok(nil, 10, false))
	acts := append(vfLogin(0, 0, "/app", big),
		vfReqAct(0, 0, "GET", "/app", 1, func(q *vfReq) { q.Script = small }),
		vfReqAct(0, 0, "GET", "/app", 1, func(q *vfReq) { q.Script = tiny }),
		vfReqAct(0, 0, "GET", "/app", 1, func(q *vfReq) { q.Script = big }),
		vfGated(0, 0, "/app", 1))
	// tens of kilobytes (compressible): 32768 and 32769 bytes of padding, 48000, then short again
	huge := func(n int) *vfTokenScript { return vfOkScript(vfSizedTok(nil, n, false)) }
	acts2 := append(vfLogin(0, 0, "/app", huge(32768)),
		vfReqAct(0, 0, "GET", "/app", 1, func(q *vfReq) { q.Script = huge(32769) }),
		vfReqAct(0, 0, "GET", "/app", 1, func(q *vfReq) { q.Script = huge(48000) }),
		vfReqAct(0, 0, "GET", "/app", 1, func(q *vfReq) { q.Script = tiny }),
		vfGated(0, 0, "/app", 1))
	// refresh tokens whose text is itself base64 of a gzip stream: small (one cookie) and large (chunked), rotated twice
	gz := func(n int) *vfTokenScript {
		x := vfOkScript(vfSizedTok(nil, 600, true))
		x.RefreshLen, x.RefreshGz, x.Rotate = n, true, true
		return x
	}
	acts4 := append(vfLogin(0, 0, "/app", gz(40)),
		vfReqAct(0, 0, "GET", "/app", 1, func(q *vfReq) { q.Script = gz(3000) }),
		vfReqAct(0, 0, "GET", "/app", 1, func(q *vfReq) { q.Script = gz(6000) }),
		vfReqAct(0, 0, "GET", "/app", 1, func(q *vfReq) { q.Script = gz(20) }),
		vfGated(0, 0, "/app", 1))
	// the same sizes with no refresh due: what is read back is what gets forwarded
	acts3 := append(vfLogin(0, 0, "/app", huge(33000)), vfGated(0, 0, "/app", 1), vfGated(0, 0, "/app/2", 1), vfLogoutAct(0, 0))
	acts3 = append(acts3, vfLogin(0, 0, "/app", huge(70000))...)
	acts3 = append(acts3, vfGated(0, 0, "/app", 1))
	return []*vfWorldCase{
		{Kind: "corpus", Script: vfScript{Cfg: vfWorldCfg{EndSession: true, GraceSec: 7200}, Browsers: 1, Actions: acts}},
		{Kind: "corpus", Script: vfScript{Cfg: vfWorldCfg{EndSession: true, GraceSec: 7200}, Browsers: 1, Actions: acts2}},
		{Kind: "corpus", Script: vfScript{Cfg: vfWorldCfg{EndSession: true, GraceSec: 60}, Browsers: 1, Actions: acts3}},
		{Kind: "corpus", Script: vfScript{Cfg: vfWorldCfg{EndSession: true, GraceSec: 7200}, Browsers: 1, Actions: acts4}},
	}
}

// ---------------------------------------------------------------- C08: refresh

func vfGenC08(r *vfRand, id int) *vfWorldCase {
	cfg := vfWorldCfg{PKCE: r.chance(1, 2), EndSession: true, GraceSec: []int{60, 60, 600, 7200}[r.intn(4)]}
	if r.chance(1, 4) {
		cfg.Domains = []string{"example.com"}
	}
	cs := &vfWorldCase{ID: id, Kind: "refresh", Script: vfScript{Cfg: cfg, Browsers: 1}}
	st := vfPick(r, "valid", "near", "near", "expired_in_skew", "expired", "expired", "bad_sig", "none")
	ms := &vfMintSpec{Auth: r.chance(5, 6), Email: "user@example.com", Tok: vfTokForState(r, st), RefreshLen: []int{0, 24, 24, 24, 2600}[r.intn(5)]}
	acts := []vfAction{{Kind: "mint", Browser: 0, Mint: ms}}
	for i := 1 + r.intn(5); i > 0; i-- {
		kind := vfPick(r, "ok", "ok", "ok", "invalid_grant", "invalid_client", "server_error", "malformed", "no_id_token", "drop")
		spec := vfTokForState(r, vfPick(r, "valid", "valid", "valid", "near", "bad_sig", "wrong_aud", "expired", "chunked"))
		if spec != nil && r.chance(1, 6) {
			spec.Email = vfEmails[r.intn(len(vfEmails))]
		}
		acts = append(acts, vfReqAct(0, 0, vfPick(r, "GET", "GET", "POST"), "/app", 1, func(q *vfReq) {
			q.AcceptJS = r.chance(1, 3)
			q.Script = &vfTokenScript{Kind: kind, Spec: spec, Rotate: r.chance(1, 2), SameToken: r.chance(1, 8), ForgeLast: kind == "ok" && r.chance(1, 6)}
		}))
	}
	if r.chance(1, 3) {
		// the same cookies presented twice: a request that refreshes, then (second tab, retry, restored browser session) the OLD
		// cookies again -- each presentation is a refresh of its own, and the provider's answer to it decides
		again := vfPick(r, "invalid_grant", "invalid_grant", "server_error", "ok", "drop")
		acts = append(acts, vfAction{Kind: "mint", Browser: 0, Mint: &vfMintSpec{Auth: true, Email: "user@example.com", Tok: vfTokForState(r, vfPick(r, "near", "expired")), RefreshLen: 24}},
			vfAction{Kind: "tamper", Browser: 0, Tamper: "snap"},
			vfReqAct(0, 0, "GET", "/app", 1, func(q *vfReq) { q.Script = &vfTokenScript{Kind: "ok", Spec: vfPlainTok("user@example.com", 3600), Rotate: true} }),
			vfAction{Kind: "tamper", Browser: 0, Tamper: "restore"},
			vfReqAct(0, 0, "GET", "/app/again", 1, func(q *vfReq) {
				q.AcceptJS = r.chance(1, 3)
				q.Script = &vfTokenScript{Kind: again, Spec: vfPlainTok("other@example.com", 3600), Rotate: true}
			}))
	}
	cs.Script.Actions = acts
	return cs
}

func vfCorpusC08() []*vfWorldCase {
	cfg := vfWorldCfg{EndSession: true, GraceSec: 60}
	mk := func(kind string, js bool) *vfWorldCase {
		return &vfWorldCase{Kind: "corpus", Script: vfScript{Cfg: cfg, Browsers: 1, Actions: []vfAction{
			{Kind: "mint", Browser: 0, Mint: &vfMintSpec{Auth: true, Email: "user@example.com", Tok: vfTokForState(nil, "expired"), RefreshLen: 24}},
			vfReqAct(0, 0, "GET", "/app", 1, func(q *vfReq) {
				q.AcceptJS = js
				q.Script = &vfTokenScript{Kind: kind, Spec: vfPlainTok("user@example.com", 3600), Rotate: true}
			}),
			vfGated(0, 0, "/app", 1)}}}
	}
	// a genuine refresh, then a refresh answered with that token's header and SIGNATURE around another identity
	near := func() *vfTokSpec { return vfPlainTok("alice@example.com", 30) }
	forged := &vfWorldCase{Kind: "corpus", Script: vfScript{Cfg: cfg, Browsers: 1, Actions: []vfAction{
		{Kind: "mint", Browser: 0, Mint: &vfMintSpec{Auth: true, Email: "alice@example.com", Tok: vfTokForState(nil, "near"), RefreshLen: 24}},
		vfReqAct(0, 0, "GET", "/app", 1, func(q *vfReq) { q.Script = &vfTokenScript{Kind: "ok", Spec: near(), Rotate: true} }),
		vfReqAct(0, 0, "GET", "/app", 1, func(q *vfReq) {
			q.AcceptJS = true
			q.Script = &vfTokenScript{Kind: "ok", Spec: vfPlainTok("admin@example.com", 3600), Rotate: true, ForgeLast: true}
		}),
		vfGated(0, 0, "/app", 1)}}}
	// a refresh answered with a properly signed ID token that names NO e-mail (claim absent / empty / not a string):
	// the session is not continued under the identity it had before
	noMail := func(e interface{}, js bool) *vfWorldCase {
		sp := vfPlainTok("", 3600)
		sp.Email = e
		return &vfWorldCase{Kind: "corpus", Script: vfScript{Cfg: cfg, Browsers: 1, Actions: []vfAction{
			{Kind: "mint", Browser: 0, Mint: &vfMintSpec{Auth: true, Email: "alice@example.com", Tok: vfTokForState(nil, "near"), RefreshLen: 24}},
			vfReqAct(0, 0, "GET", "/app", 1, func(q *vfReq) { q.AcceptJS = js; q.Script = &vfTokenScript{Kind: "ok", Spec: sp, Rotate: true} }),
			vfGated(0, 0, "/app", 1)}}}
	}
	// the provider answers the refresh with the very ID token the session already holds (expired / about to expire)
	echo := func(state string, js bool) *vfWorldCase {
		return &vfWorldCase{Kind: "corpus", Script: vfScript{Cfg: cfg, Browsers: 1, Actions: []vfAction{
			{Kind: "mint", Browser: 0, Mint: &vfMintSpec{Auth: true, Email: "alice@example.com", Tok: vfTokForState(nil, state), RefreshLen: 24}},
			vfReqAct(0, 0, "GET", "/app", 1, func(q *vfReq) { q.AcceptJS = js; q.Script = &vfTokenScript{Kind: "ok", Spec: near(), SameToken: true} }),
			vfReqAct(0, 0, "GET", "/app", 1, func(q *vfReq) { q.AcceptJS = js; q.Script = &vfTokenScript{Kind: "ok", Spec: near(), SameToken: true, Rotate: true} }),
			vfGated(0, 0, "/app", 1)}}}
	}
	twice := func(again string, js bool) *vfWorldCase {
		return &vfWorldCase{Kind: "corpus", Script: vfScript{Cfg: cfg, Browsers: 1, Actions: []vfAction{
			{Kind: "mint", Browser: 0, Mint: &vfMintSpec{Auth: true, Email: "alice@example.com", Tok: vfTokForState(nil, "near"), RefreshLen: 24}},
			{Kind: "tamper", Browser: 0, Tamper: "snap"},
			vfReqAct(0, 0, "GET", "/app", 1, func(q *vfReq) { q.Script = &vfTokenScript{Kind: "ok", Spec: near(), Rotate: true} }),
			{Kind: "tamper", Browser: 0, Tamper: "restore"},
			vfReqAct(0, 0, "GET", "/app", 1, func(q *vfReq) { q.AcceptJS = js; q.Script = &vfTokenScript{Kind: again, Spec: near(), Rotate: true} }),
			vfGated(0, 0, "/app", 1)}}}
	}
	return []*vfWorldCase{mk("ok", false), mk("invalid_grant", false), mk("invalid_grant", true), mk("server_error", true),
		mk("drop", false), mk("drop", true), forged, noMail(nil, false), noMail(nil, true), noMail("", false), noMail(42, true),
		twice("invalid_grant", false), twice("invalid_grant", true), twice("ok", false), twice("server_error", false),
		echo("expired", false), echo("expired", true), echo("near", false), echo("expired_in_skew", true)}
}

// ---------------------------------------------------------------- C09 / C18: every cookie of every flow (flags)

func vfGenC18(r *vfRand, id int) *vfWorldCase {
	cs := vfGenC07(r, id)
	cs.Kind = "cookie-attributes"
	cs.Script.Cfg.ForceHTTPS = r.chance(1, 2)
	// what the proxy in front says about the client's scheme: with forceHTTPS the cookies are Secure whatever it says
	cs.Script.Cfg.ClientProto = vfPick(r, "", "http", "https", "http")
	cs.Script.Cfg.ForeignCookies = r.chance(1, 3)
	// long request URIs at the start of a login, around the length where the main cookie is largest
	n := []int{10, 900, 1000, 1020, 1024, 1025, 1030, 1500, 1900, 1950, 1990, 2100, 4000}[r.intn(13)]
	cs.Script.Actions = append([]vfAction{vfGated(0, 0, "/long?"+strings.Repeat("a", n), 1)}, cs.Script.Actions...)
	if r.chance(1, 3) { // the browser lost one chunk cookie in the middle: the cookies behind it are orphans when the session is cleared
		big := vfOkScript(vfSizedTok(r, 6000, true))
		big.RefreshLen = 5200
		cs.Script.Actions = append(cs.Script.Actions, vfLogin(0, 0, "/app", big)...)
		cs.Script.Actions = append(cs.Script.Actions, vfAction{Kind: "tamper", Browser: 0, Tamper: "drop", Name: vfPick(r, "a1", "a0", "r1", "r0")},
			vfGated(0, 0, "/app", 1))
	}
	if r.chance(1, 4) { // reload with forceHTTPS flipped (same key): cookies follow the configuration valid now
		c2 := cs.Script.Cfg
		c2.ForceHTTPS = !c2.ForceHTTPS
		cs.Script.Actions = append(cs.Script.Actions, vfAction{Kind: "reconf", Cfg2: &c2}, vfGated(0, 0, "/app", 1))
	}
	cs.Script.Actions = append(cs.Script.Actions, vfLogoutAct(0, 0))
	if r.chance(1, 3) { // a session that is seconds, hours or almost a day old is written again (expired token, rejected refresh token)
		age := int64([]int{2, 90, 3600, 40000, 86000}[r.intn(5)])
		cs.Script.Actions = append(cs.Script.Actions,
			vfAction{Kind: "mint", Browser: 0, Mint: &vfMintSpec{Auth: true, Email: "user@example.com", Tok: vfTokForState(r, vfPick(r, "expired", "near", "expired_in_skew")),
				RefreshLen: []int{0, 24}[r.intn(2)], CreatedAgoSec: age}},
			vfReqAct(0, 0, "GET", "/app", 1, func(q *vfReq) { q.AcceptJS = r.chance(1, 2); q.Script = &vfTokenScript{Kind: vfPick(r, "invalid_grant", "server_error", "ok"), Spec: vfPlainTok("user@example.com", 3600)} }),
			vfGated(0, 0, "/app", 1))
	}
	return cs
}

func vfCorpusC18() []*vfWorldCase {
	var out []*vfWorldCase
	for _, n := range []int{1015, 1940, 1999} {
		out = append(out, &vfWorldCase{Kind: "corpus", Script: vfScript{Cfg: vfWorldCfg{PKCE: true, ForceHTTPS: true, GraceSec: 60}, Browsers: 1,
			Actions: []vfAction{vfGated(0, 0, "/p?"+strings.Repeat("a", n-3), 1)}}})
	}
	// forceHTTPS behind a proxy that reports plain http: login with chunked tokens, refresh, logout
	sc := vfOkScript(vfSizedTok(nil, 6000, true))
	sc.RefreshLen = 2600
	acts := append(vfLogin(0, 0, "/app", sc), vfGated(0, 0, "/app", 1), vfLogoutAct(0, 0))
	out = append(out, &vfWorldCase{Kind: "corpus", Script: vfScript{Cfg: vfWorldCfg{ForceHTTPS: true, EndSession: true, GraceSec: 7200, ClientProto: "http"},
		Browsers: 1, Actions: acts}})
	// a chunk cookie in the middle is gone (the browser dropped it): logout and the next login with the orphans in the jar
	sc2 := vfOkScript(vfSizedTok(nil, 9000, true))
	sc2.RefreshLen = 5200
	acts2 := append(vfLogin(0, 0, "/app", sc2), vfAction{Kind: "tamper", Browser: 0, Tamper: "drop", Name: "a1"}, vfGated(0, 0, "/app/deep/page", 1), vfLogoutAct(0, 0))
	acts2 = append(acts2, vfLogin(0, 0, "/app", sc2)...)
	out = append(out, &vfWorldCase{Kind: "corpus", Script: vfScript{Cfg: vfWorldCfg{EndSession: true, GraceSec: 60}, Browsers: 1, Actions: acts2}})
	// the deployment first runs without forceHTTPS, then is reloaded with it (same session key): from then on every cookie is Secure
	off := vfWorldCfg{ForceHTTPS: false, EndSession: true, GraceSec: 7200, ClientProto: "http"}
	on := off
	on.ForceHTTPS = true
	acts3 := append(vfLogin(0, 0, "/app", sc), vfGated(0, 0, "/app", 1), vfAction{Kind: "reconf", Cfg2: &on}, vfGated(0, 0, "/app", 1), vfGated(1, 0, "/new", 1), vfLogoutAct(0, 0))
	acts3 = append(acts3, vfLogin(1, 0, "/new", sc)...)
	acts3 = append(acts3, vfAction{Kind: "reconf", Cfg2: &off}, vfGated(1, 0, "/new", 1), vfAction{Kind: "reconf", Cfg2: &on}, vfGated(1, 0, "/new", 1), vfLogoutAct(1, 0))
	out = append(out, &vfWorldCase{Kind: "corpus", Script: vfScript{Cfg: off, Browsers: 2, Actions: acts3}})
	// other applications' cookies with look-alike names in the same browser: login with chunked tokens, a smaller refresh, logout
	out = append(out, &vfWorldCase{Kind: "corpus", Script: vfScript{Cfg: vfWorldCfg{EndSession: true, GraceSec: 7200, ForeignCookies: true}, Browsers: 1, Actions: acts}})
	return out
}

func vfGenC09(r *vfRand, id int) *vfWorldCase {
	if r.chance(1, 3) {
		cs := vfGenC07(r, id)
		cs.Kind = "cookie-opacity"
		for i := 1 + r.intn(3); i > 0; i-- {
			cs.Script.Actions = append(cs.Script.Actions, vfAction{Kind: "tamper", Browser: 0,
				Tamper: vfPick(r, "flip", "truncate", "swap", "junk"), Name: vfPick(r, "m", "a", "r", "a0", "a1", "r0"), Name2: vfPick(r, "a", "r", "m", "a0")},
				vfGated(0, 0, "/app", 1))
		}
		return cs
	}
	// a stable session (no refresh due) whose cookies the deployment has already seen in ordinary
	// requests; then what it emitted is modified, renamed or moved between two browsers
	cfg := vfWorldCfg{PKCE: r.chance(1, 2), ForceHTTPS: r.chance(1, 2), EndSession: true, GraceSec: 60, LongKeys: r.chance(1, 3)}
	if r.chance(1, 4) {
		cfg.LongKeys, cfg.KeyStyle = false, vfPick(r, "newline", "padded", "blank")
	}
	cs := &vfWorldCase{ID: id, Kind: "cookie-tamper", Script: vfScript{Cfg: cfg, Browsers: 2}}
	mk := func() *vfTokenScript {
		sc := vfOkScript(vfSizedTok(r, vfSizes[r.intn(len(vfSizes))], r.chance(2, 3)))
		sc.RefreshLen = []int{0, 24, 2600, 5200}[r.intn(4)]
		return sc
	}
	acts := vfLogin(0, 0, "/app", mk())
	if r.chance(1, 3) {
		// a login whose cookies are joined, before the provider sends the browser back, by hand-written look-alikes;
		// it starts at "/" or at a very long URI (neither leaves a return target of its own in the session)
		tgt := "/"
		if r.chance(1, 2) {
			tgt = "/reports/deep?filter=" + strings.Repeat("v", 1000+r.intn(1800))
		}
		lg := vfLogin(0, 0, tgt, mk())
		acts = append(lg[:2:2], vfAction{Kind: "tamper", Browser: 0, Tamper: "plant"}, lg[2])
	}
	acts = append(acts, vfLogin(1, 0, "/other", mk())...)
	acts = append(acts, vfGated(0, 0, "/app", 1), vfGated(1, 0, "/other", 1), vfGated(0, 0, "/app/2", 1))
	if r.chance(1, 3) {
		acts = append(acts, vfAction{Kind: "tamper", Browser: 1, Tamper: "plant"}, vfGated(1, 0, "/other", 1), vfGated(1, 0, "/logout", 1),
			vfGated(1, 0, "/other/again", 1))
	}
	for i := 1 + r.intn(4); i > 0; i-- {
		a := vfAction{Kind: "tamper", Browser: 0, Tamper: vfPick(r, "swap", "swap", "copy", "flip", "truncate", "junk"),
			Name: vfPick(r, "m", "a", "r", "a0", "a1", "r0", "r1"), Name2: vfPick(r, "a", "r", "m", "a0", "r0", "a1"), From: 1}
		acts = append(acts, a, vfGated(0, 0, "/app", 1))
		if r.chance(1, 3) {
			acts = append(acts, vfLogin(0, 0, "/app", mk())...)
			acts = append(acts, vfGated(0, 0, "/app", 1))
		}
	}
	cs.Script.Actions = acts
	return cs
}

func vfCorpusC09() []*vfWorldCase {
	sc := vfOkScript(vfPlainTok("u@example.com", 3600))
	swap := func(n1, n2 string) *vfWorldCase {
		acts := append(vfLogin(0, 0, "/app", sc), vfGated(0, 0, "/app", 1),
			vfAction{Kind: "tamper", Browser: 0, Tamper: "swap", Name: n1, Name2: n2}, vfGated(0, 0, "/app", 1))
		return &vfWorldCase{Kind: "corpus", Script: vfScript{Cfg: vfWorldCfg{EndSession: true, GraceSec: 60}, Browsers: 1, Actions: acts}}
	}
	// a whole session minted under ANOTHER key (short keys; long keys that differ only near their end), and such
	// cookies mixed into a genuine session: never session content
	other := func(long bool) *vfWorldCase {
		tk := vfPlainTok("mallory@example.com", 3600)
		acts := []vfAction{{Kind: "mint", Browser: 0, Mint: &vfMintSpec{Auth: true, Email: "mallory@example.com", Tok: tk, RefreshLen: 24, KeyB: true}},
			vfGated(0, 0, "/app", 1), vfGated(0, 0, "/app/2", 1)}
		acts = append(acts, vfLogin(1, 0, "/b", sc)...)
		acts = append(acts, vfGated(1, 0, "/b", 1), vfAction{Kind: "tamper", Browser: 1, Tamper: "copy", Name: "a", From: 0}, vfGated(1, 0, "/b", 1),
			vfAction{Kind: "tamper", Browser: 1, Tamper: "copy", Name: "m", From: 0}, vfGated(1, 0, "/b", 1))
		return &vfWorldCase{Kind: "corpus", Script: vfScript{Cfg: vfWorldCfg{EndSession: true, GraceSec: 60, LongKeys: long}, Browsers: 2, Actions: acts}}
	}
	// an outsider who only knows the plugin's public fall-back key mints a session; the deployment (configured with its
	// own key) is rebuilt from the same configuration object in between
	pub := func() *vfWorldCase {
		tk := vfPlainTok("mallory@example.com", 3600)
		acts := append(vfLogin(1, 0, "/b", sc), vfAction{Kind: "newinst", Slot: 0}, vfGated(1, 0, "/b", 1),
			vfAction{Kind: "mint", Browser: 0, Mint: &vfMintSpec{Auth: true, Email: "mallory@example.com", Tok: tk, RefreshLen: 24, KeyB: true}},
			vfGated(0, 0, "/app", 1), vfAction{Kind: "newinst", Slot: 0}, vfGated(0, 0, "/app/2", 1), vfGated(1, 0, "/b", 1))
		return &vfWorldCase{Kind: "corpus", Script: vfScript{Cfg: vfWorldCfg{EndSession: true, GraceSec: 60, ForeignDefaultKey: true}, Browsers: 2, Actions: acts}}
	}
	// hand-written cookies with look-alike names arrive with the provider's answer of a login started at "/" and
	// of one started at a very long URI, and with ordinary requests before and after a login
	plant := func(tgt string) *vfWorldCase {
		lg := vfLogin(0, 0, tgt, sc)
		acts := []vfAction{{Kind: "tamper", Browser: 0, Tamper: "plant"}, lg[0], lg[1], {Kind: "tamper", Browser: 0, Tamper: "plant"}, lg[2],
			vfGated(0, 0, "/app", 1), {Kind: "tamper", Browser: 0, Tamper: "plant"}, vfGated(0, 0, "/app/2", 1), vfGated(0, 0, "/logout", 1), vfGated(0, 0, "/", 1)}
		return &vfWorldCase{Kind: "corpus", Script: vfScript{Cfg: vfWorldCfg{EndSession: true, GraceSec: 60}, Browsers: 1, Actions: acts}}
	}
	// keys that differ from another deployment's only by white space around them, and a key that is nothing but blanks
	styled := func(style string) *vfWorldCase {
		c := other(false)
		c.Script.Cfg.KeyStyle = style
		return c
	}
	return append(vfCorpusC07(), swap("a", "r"), swap("m", "a"), swap("r", "m"), other(false), other(true), pub(), styled("newline"), styled("padded"), styled("blank"),
		plant("/"), plant("/app"), plant("/reports/deep?filter="+strings.Repeat("v", 1500)), plant("/reports/"+strings.Repeat("d/", 700)+"x"))
}

// ---------------------------------------------------------------- C10: identity headers

func vfGenC10(r *vfRand, id int) *vfWorldCase {
	cfg := vfWorldCfg{EndSession: true, GraceSec: 60}
	switch r.intn(4) {
	case 1:
		cfg.Templates = []vfTemplate{{"X-Email-Copy", "{{.Claims.email}}"}}
	case 2:
		cfg.Templates = []vfTemplate{{"X-Email-Copy", "{{.Claims.email}}"}, {"X-Deep", "{{.Claims.realm.roles}}"}, {"X-Tok", "Bearer {{.AccessToken}}"}}
	case 3:
		cfg.Templates = []vfTemplate{{"X-First-Group", "{{index .Claims.groups 0}}"}, {"X-Fail", "{{.Claims.missing.deeper}}"}}
	}
	if len(cfg.Templates) > 0 && r.chance(1, 2) { // header names as operators type them: not in canonical MIME case
		for i := range cfg.Templates {
			switch r.intn(3) {
			case 0:
				cfg.Templates[i].Name = strings.ToLower(cfg.Templates[i].Name)
			case 1:
				cfg.Templates[i].Name = strings.ToUpper(cfg.Templates[i].Name)
			}
		}
	}
	if r.chance(1, 3) { // a template that fails AFTER it produced output (org is a string for some users), followed by one that works
		cfg.Templates = append([]vfTemplate{{"X-Org-Info", "{{.Claims.email}}|{{.Claims.org.id}}"}}, cfg.Templates...)
		cfg.Templates = append(cfg.Templates, vfTemplate{"X-Sub-Copy", "{{.Claims.sub}}"})
	}
	cs := &vfWorldCase{ID: id, Kind: "identity-headers", Script: vfScript{Cfg: cfg, Browsers: 1}}
	t := vfPlainTok("user@example.com", 3600)
	t.Groups = vfClaimShapes[r.intn(len(vfClaimShapes))]
	t.Roles = vfClaimShapes[r.intn(len(vfClaimShapes))]
	if r.chance(1, 3) {
		t.Extra = map[string]interface{}{"realm": map[string]interface{}{"roles": "r1"}}
	}
	if len(cfg.Templates) > 0 && cfg.Templates[0].Name == "X-Org-Info" {
		if t.Extra == nil {
			t.Extra = map[string]interface{}{}
		}
		if r.chance(2, 3) {
			t.Extra["org"] = "acme" // .Claims.org.id fails after the e-mail was written
		} else {
			t.Extra["org"] = map[string]interface{}{"id": "42"}
		}
	}
	// half of the histories refresh: the first token is inside the grace period, so the next request
	// obtains a token with OTHER groups / roles / template claims (and e-mail): the forwarded headers of
	// that very request must come from the new token
	refreshing := r.chance(1, 2)
	if refreshing {
		t.ExpIn = int64(20 + r.intn(30))
	}
	acts := vfLogin(0, 0, "/app", vfOkScript(t))
	first := true
	for i := 1 + r.intn(4); i > 0; i-- {
		acts = append(acts, vfReqAct(0, 0, vfPick(r, "GET", "GET", "POST", "OPTIONS", "OPTIONS", "HEAD", "PUT", "DELETE", "PATCH"), "/app", 1, func(q *vfReq) {
			if r.chance(1, 3) { // cross-origin callers and their preflights: whatever is forwarded is cleaned first
				q.Origin = vfPick(r, "https://spa.example", "null", "http://localhost:3000")
				if r.chance(2, 3) {
					q.Headers = map[string]string{"Access-Control-Request-Method": vfPick(r, "GET", "POST", "DELETE"), "Access-Control-Request-Headers": "authorization, x-user-groups"}
				}
			}
			if refreshing && first {
				first = false
				t2 := vfPlainTok(vfPick(r, "user@example.com", "other@example.com"), 3600)
				t2.Groups = vfClaimShapes[r.intn(len(vfClaimShapes))]
				t2.Roles = vfClaimShapes[r.intn(len(vfClaimShapes))]
				if r.chance(1, 2) {
					t2.Extra = map[string]interface{}{"realm": map[string]interface{}{"roles": "r2"}}
				}
				q.Script = vfOkScript(t2)
			}
			pool := []int{1, 2, 3, 4, 5, 150}
			for j := range cfg.Templates {
				pool = append(pool, 100+j)
			}
			for _, c := range pool {
				if r.chance(1, 2) {
					q.ClientIDs = append(q.ClientIDs, c)
				}
			}
		}))
	}
	if r.chance(1, 3) { // another session of the SAME user (same e-mail) whose token carries other claims, through the same instance
		cs.Script.Browsers = 2
		t3 := vfPlainTok("user@example.com", 3600)
		t3.Groups = vfClaimShapes[r.intn(len(vfClaimShapes))]
		t3.Roles = vfClaimShapes[r.intn(len(vfClaimShapes))]
		acts = append(acts, vfLogin(1, 0, "/other", vfOkScript(t3))...)
		acts = append(acts, vfGated(1, 0, "/other", 1), vfGated(0, 0, "/app", 1), vfGated(1, 0, "/other/2", 1))
	}
	cs.Script.Actions = acts
	return cs
}

func vfCorpusC10() []*vfWorldCase {
	t := vfPlainTok("user@example.com", 3600)
	acts := append(vfLogin(0, 0, "/app", vfOkScript(t)), vfReqAct(0, 0, "GET", "/app", 1, func(q *vfReq) { q.ClientIDs = []int{4, 5, 100, 1} }))
	// refresh to a token with other groups, no roles and another templated claim
	t1 := vfPlainTok("user@example.com", 30)
	t1.Groups, t1.Roles = []interface{}{"admins"}, []interface{}{"superuser"}
	t1.Extra = map[string]interface{}{"realm": map[string]interface{}{"roles": "finance"}}
	t2 := vfPlainTok("user@example.com", 3600)
	t2.Groups = []interface{}{"staff"}
	t2.Extra = map[string]interface{}{"realm": map[string]interface{}{"roles": "support"}}
	acts2 := append(vfLogin(0, 0, "/app", vfOkScript(t1)),
		vfReqAct(0, 0, "GET", "/app", 1, func(q *vfReq) { q.Script = vfOkScript(t2); q.ClientIDs = []int{4, 5} }),
		vfReqAct(0, 0, "GET", "/app", 1, nil))
	// alice's template fails after writing her e-mail; bob's works: nothing of alice's may show up in bob's headers
	ta := vfPlainTok("alice@example.com", 3600)
	ta.Extra = map[string]interface{}{"org": "acme"}
	tb := vfPlainTok("bob@example.com", 3600)
	tb.Extra = map[string]interface{}{"org": map[string]interface{}{"id": "42"}}
	acts3 := append(vfLogin(0, 0, "/a", vfOkScript(ta)), vfLogin(1, 0, "/b", vfOkScript(tb))...)
	acts3 = append(acts3, vfGated(0, 0, "/a", 1), vfGated(1, 0, "/b", 1), vfGated(0, 0, "/a", 1), vfGated(1, 0, "/b", 1))
	// two sessions of one user: the first token has groups and roles, the second has none
	tg := vfPlainTok("alice@example.com", 3600)
	tg.Groups, tg.Roles = []interface{}{"admins", "staff"}, []interface{}{"superuser"}
	tn := vfPlainTok("alice@example.com", 3600)
	acts4 := append(vfLogin(0, 0, "/a", vfOkScript(tg)), vfGated(0, 0, "/a", 1))
	acts4 = append(acts4, vfLogin(1, 0, "/b", vfOkScript(tn))...)
	acts4 = append(acts4, vfGated(1, 0, "/b", 1), vfGated(0, 0, "/a", 1), vfGated(1, 0, "/b", 1))
	return []*vfWorldCase{
		{Kind: "corpus", Script: vfScript{Cfg: vfWorldCfg{EndSession: true, GraceSec: 60}, Browsers: 2, Actions: acts4}},
		{Kind: "corpus", Script: vfScript{Cfg: vfWorldCfg{EndSession: true, GraceSec: 60,
			Templates: []vfTemplate{{"X-Org-Info", "{{.Claims.email}}|{{.Claims.org.id}}"}, {"X-Sub-Copy", "{{.Claims.sub}}"}}}, Browsers: 2, Actions: acts3}},
		{Kind: "corpus", Script: vfScript{Cfg: vfWorldCfg{EndSession: true, GraceSec: 60,
			Templates: []vfTemplate{{"X-Fail", "{{.Claims.missing.deeper}}"}}}, Browsers: 1, Actions: acts}},
		{Kind: "corpus", Script: vfScript{Cfg: vfWorldCfg{EndSession: true, GraceSec: 60,
			Templates: []vfTemplate{{"X-Deep", "{{.Claims.realm.roles}}"}, {"X-Tok", "Bearer {{.AccessToken}}"}}}, Browsers: 1, Actions: acts2}},
	}
}

// ---------------------------------------------------------------- C11: logout

func vfGenC11(r *vfRand, id int) *vfWorldCase {
	cfg := vfWorldCfg{PKCE: r.chance(1, 2), ForceHTTPS: r.chance(1, 2), EndSession: r.chance(2, 3), GraceSec: []int{60, 7200}[r.intn(2)],
		PostLogout: vfPick(r, "", "/", "/bye", "/bye?x=1", "https://www.example.org/after", "http://other.example/x"),
		// providers with a revocation endpoint, healthy or failing: logging out of the browser must not depend on it
		Revocation: vfPick(r, "", "", "ok", "fail")}
	cs := &vfWorldCase{ID: id, Kind: "logout", Script: vfScript{Cfg: cfg, Browsers: 1}}
	sc := vfOkScript(vfSizedTok(r, vfSizes[r.intn(len(vfSizes))], r.chance(2, 3)))
	sc.RefreshLen = []int{0, 0, 2600, 9000}[r.intn(4)]
	sc.NoRefresh = r.chance(1, 4)
	acts := vfLogin(0, 0, "/app", sc)
	if r.chance(1, 4) { // a browser that comes back after a while and logs out first thing: the stored ID token has expired meanwhile (or is otherwise stale)
		acts = []vfAction{{Kind: "mint", Browser: 0, Mint: &vfMintSpec{Auth: true, Email: "user@example.com",
			Tok: vfTokForState(r, vfPick(r, "expired", "expired", "valid", "bad_sig")), RefreshLen: []int{0, 24, 2600}[r.intn(3)], CreatedAgoSec: int64([]int{0, 3600, 80000}[r.intn(3)])}}}
	}
	for i := r.intn(3); i > 0 && acts[0].Kind != "mint"; i-- {
		s2 := vfOkScript(vfSizedTok(r, vfSizes[r.intn(len(vfSizes))], true))
		s2.Rotate = true
		acts = append(acts, vfReqAct(0, 0, "GET", "/app", 1, func(q *vfReq) { q.Script = s2 }))
	}
	acts = append(acts, vfReqAct(0, 0, "GET", vfLogoutPath, 3, func(q *vfReq) {
		if r.chance(1, 3) {
			q.XFProto = "https"
			q.XFHost = "public.example.net"
		}
	}))
	for i := 1 + r.intn(4); i > 0; i-- {
		acts = append(acts, vfReqAct(0, 0, "GET", vfPaths[r.intn(len(vfPaths))], 1, func(q *vfReq) {
			q.AcceptJS = r.chance(1, 3)
			q.Script = vfOkScript(vfPlainTok("user@example.com", 3600))
		}))
	}
	if r.chance(1, 3) {
		acts = append(acts, vfLogin(0, 0, "/app", vfOkScript(vfPlainTok("user@example.com", 3600)))...)
		acts = append(acts, vfGated(0, 0, "/app", 1))
	}
	if r.chance(1, 4) { // the provider changes its end-session endpoint; metadata refresh (or reload); login and logout again
		acts = append(acts, vfAction{Kind: "reconf", Prov: vfPick(r, "move_end", "drop_end", "add_end"), Mode: vfPick(r, "tick", "tick", "reload")})
		acts = append(acts, vfLogin(0, 0, "/app", vfOkScript(vfPlainTok("user@example.com", 3600)))...)
		acts = append(acts, vfLogoutAct(0, 0), vfGated(0, 0, "/app", 1))
	}
	if r.chance(1, 3) { // the same instance reached under other public origins: each logout returns to the origin it came from
		for _, h := range []string{"admin.example.test", "", "shop.example.net"} {
			h := h
			acts = append(acts, vfReqAct(0, 0, "GET", vfLogoutPath, 3, func(q *vfReq) {
				q.XFHost = h
				if h != "" {
					q.XFProto = "https"
				}
			}))
		}
	}
	cs.Script.Actions = acts
	return cs
}

func vfCorpusC11() []*vfWorldCase {
	sc := vfOkScript(vfSizedTok(nil, 9000, true))
	sc.RefreshLen = 5200
	acts := append(vfLogin(0, 0, "/app", sc), vfLogoutAct(0, 0), vfGated(0, 0, "/app", 1),
		vfReqAct(0, 0, "GET", "/app", 1, func(q *vfReq) { q.AcceptJS = true }))
	// logouts of one instance from several origins, with and without a session
	lo := func(h, proto string) vfAction {
		return vfReqAct(0, 0, "GET", vfLogoutPath, 3, func(q *vfReq) { q.XFHost, q.XFProto = h, proto })
	}
	origins := append(vfLogin(0, 0, "/app", vfOkScript(vfPlainTok("user@example.com", 3600))), lo("shop.example.test", ""), lo("admin.example.test", "https"))
	origins = append(origins, vfLogin(0, 0, "/app", vfOkScript(vfPlainTok("user@example.com", 3600)))...)
	origins = append(origins, lo("admin.example.test", "https"), lo("", ""))
	// the provider moves, drops or introduces its end-session endpoint; after the middleware's next metadata refresh a logout
	// uses what the provider publishes NOW
	moved := func(first bool, changes ...string) *vfWorldCase {
		a := vfLogin(0, 0, "/app", vfOkScript(vfPlainTok("user@example.com", 3600)))
		a = append(a, vfLogoutAct(0, 0))
		for _, ch := range changes {
			a = append(a, vfLogin(0, 0, "/app", vfOkScript(vfPlainTok("user@example.com", 3600)))...)
			a = append(a, vfAction{Kind: "reconf", Prov: ch, Mode: "tick"}, vfGated(0, 0, "/app", 1), vfLogoutAct(0, 0), vfGated(0, 0, "/app", 1))
		}
		return &vfWorldCase{Kind: "corpus", Script: vfScript{Cfg: vfWorldCfg{EndSession: first, GraceSec: 60, PostLogout: "/bye"}, Browsers: 1, Actions: a}}
	}
	return []*vfWorldCase{moved(true, "move_end"), moved(true, "drop_end"), moved(false, "add_end", "move_end", "drop_end"),
		{Kind: "corpus", Script: vfScript{Cfg: vfWorldCfg{EndSession: true, GraceSec: 60, PostLogout: "/signed-out"}, Browsers: 1, Actions: origins}},
		{Kind: "corpus", Script: vfScript{Cfg: vfWorldCfg{EndSession: false, GraceSec: 60}, Browsers: 1, Actions: origins}},
		{Kind: "corpus", Script: vfScript{Cfg: vfWorldCfg{EndSession: true, GraceSec: 7200, PostLogout: "/bye"}, Browsers: 1, Actions: acts}},
		{Kind: "corpus", Script: vfScript{Cfg: vfWorldCfg{EndSession: true, GraceSec: 7200, PostLogout: "/bye", Revocation: "fail"}, Browsers: 1, Actions: acts}},
	}
}

// ---------------------------------------------------------------- C15: redirects

var vfEvilURIs = []string{"//evil.example/x", "///evil.example/x", "////evil.example", "/%2F/evil.example", "/%5Cevil.example", "/.//evil.example",
	"/;//evil.example", "//evil.example%2F..", "//evil.example/?a=b", "/ok/path?next=//evil.example", "/ok?u=https://evil.example",
	"//user@evil.example", "//evil.example:8443/", "/%09/evil.example", "/%0a/evil.example", "//%2F%2Fevil.example", "/a//b", "//", "/", "/%2e%2e//evil.example",
	// raw backslashes as a non-browser client sends them (dot segments in front: path cleaning happens after the check)
	"/./\\evil.example/", "/a/../\\evil.example/x", "/.\\evil.example", "/\\evil.example", "/x/..\\..//evil.example"}

func vfGenC15(r *vfRand, id int) *vfWorldCase {
	cfg := vfWorldCfg{PKCE: r.chance(1, 2), EndSession: r.chance(1, 2), GraceSec: 60,
		PostLogout: vfPick(r, "", "/", "/bye", "https://www.example.org/after")}
	cs := &vfWorldCase{ID: id, Kind: "redirect-targets", Script: vfScript{Cfg: cfg, Browsers: 1}}
	uri := vfEvilURIs[r.intn(len(vfEvilURIs))]
	if r.chance(1, 4) {
		uri = "/long/" + strings.Repeat("x", 200+r.intn(3000)) + "?q=//evil.example"
	}
	if r.chance(1, 5) { // hostile starts on URIs longer than what is remembered in full
		uri = vfPick(r, "/%09/evil.example/", "/%0d/evil.example/", "/%0a/evil.example/x", "/%5Cevil.example/", "/%2Fevil.example/", "//evil.example/", "/%09%2Fevil.example") +
			"?pad=" + strings.Repeat("a", []int{900, 1010, 1100, 2500}[r.intn(4)])
	}
	mod := func(q *vfReq) {
		if r.chance(1, 3) {
			q.XFHost = vfPick(r, "public.example.net", "evil.example", "a.example:8443")
		}
		if r.chance(1, 3) {
			q.XFProto = vfPick(r, "https", "http")
		}
		if r.chance(1, 4) { // other proxy headers naming hosts: none of them says where the client is
			q.Headers = map[string]string{vfPick(r, "X-Forwarded-Server", "X-Original-Host", "X-Host", "Forwarded"): vfPick(r, "edge-7.internal", "evil.example.net", "host=evil.example.net;proto=https")}
		}
		if r.chance(1, 4) { // headers a path-rewriting proxy adds: nothing of them may end up in a redirect target unchecked
			if q.Headers == nil {
				q.Headers = map[string]string{}
			}
			q.Headers[vfPick(r, "X-Forwarded-Prefix", "X-Forwarded-Uri", "X-Original-Uri", "X-Replaced-Path")] = vfPick(r, "/app/../\\evil.example", "//evil.example", "/\\evil.example/x", "/portal", "https://evil.example/")
		}
	}
	acts := []vfAction{vfReqAct(0, 0, "GET", uri, 1, mod), {Kind: "authorize", Browser: 0}}
	if r.chance(1, 3) { // the provider sends the browser back with one of the standard authorization errors while the login is pending
		acts = append(acts, vfAction{Kind: "callback", Browser: 0, AcceptJS: r.chance(1, 4), StateMode: vfPick(r, "own", "own", "absent"), CodeMode: "absent",
			ErrParam: vfPick(r, "login_required", "interaction_required", "consent_required", "temporarily_unavailable", "access_denied", "server_error",
				"account_selection_required", "invalid_request"), ErrDesc: vfPick(r, "", "AADSTS50058: A silent sign-in request was sent but no user is signed in.", "try again")})
	}
	acts = append(acts, vfAction{Kind: "callback", Browser: 0, Script: vfOkScript(vfPlainTok("user@example.com", 3600))},
		vfReqAct(0, 0, "GET", uri, 1, mod))
	if r.chance(1, 2) {
		acts = append(acts, vfReqAct(0, 0, "GET", vfLogoutPath, 3, mod))
	}
	if r.chance(1, 3) { // more logouts on the same instance, each from another public origin (no session left: direct redirect)
		for _, h := range []string{"tenant-a.example.net", "", "evil.example"} {
			h := h
			acts = append(acts, vfReqAct(0, 0, "GET", vfLogoutPath, 3, func(q *vfReq) { q.XFHost = h; q.NoCookies = true }))
		}
	}
	if r.chance(1, 4) { // the provider moves its authorization endpoint (same issuer); after the metadata refresh logins go to the new one
		acts = append(acts, vfAction{Kind: "reconf", Prov: "move_auth", Mode: vfPick(r, "tick", "tick", "reload")}, vfLogoutAct(0, 0),
			vfReqAct(0, 0, "GET", "/after-move", 1, mod), vfAction{Kind: "authorize", Browser: 0},
			vfAction{Kind: "callback", Browser: 0, Script: vfOkScript(vfPlainTok("user@example.com", 3600))}, vfReqAct(0, 0, "GET", "/after-move", 1, mod))
	}
	if r.chance(1, 3) { // expiry / refresh-failure re-initiation from an odd URI
		acts = append(acts, vfAction{Kind: "mint", Browser: 0, Mint: &vfMintSpec{Auth: true, Email: "user@example.com", Tok: vfTokForState(r, "expired"), RefreshLen: []int{0, 24}[r.intn(2)]}},
			vfReqAct(0, 0, "GET", vfEvilURIs[r.intn(len(vfEvilURIs))], 1, func(q *vfReq) { q.Script = &vfTokenScript{Kind: "invalid_grant"} }))
	}
	cs.Script.Actions = acts
	return cs
}

func vfCorpusC15() []*vfWorldCase {
	acts := []vfAction{vfGated(0, 0, "//evil.example/x", 1), {Kind: "authorize", Browser: 0},
		{Kind: "callback", Browser: 0, Script: vfOkScript(vfPlainTok("user@example.com", 3600))}}
	// the first logout an instance serves comes from a hostile Host; later ones from the real origins
	lo := func(h, proto string) vfAction {
		return vfReqAct(0, 0, "GET", vfLogoutPath, 3, func(q *vfReq) { q.XFHost = h; q.XFProto = proto; q.NoCookies = true })
	}
	srv := vfReqAct(0, 0, "GET", vfLogoutPath, 3, func(q *vfReq) {
		q.NoCookies = true
		q.Headers = map[string]string{"X-Forwarded-Server": "evil.example.net"}
	})
	acts2 := []vfAction{lo("evil.example", ""), lo("", ""), lo("tenant-b.example.net", "https"), lo("", ""), srv}
	// two middleware instances for two tenants of one provider host: each sends its users to ITS tenant's endpoints
	tenants := []vfAction{vfGated(0, 0, "/a", 1), {Kind: "newinst", Slot: 1, Realm: "/realms/b"}, vfGated(0, 1, "/b", 1), vfLogoutAct(0, 1),
		vfGated(0, 0, "/a2", 1), vfLogoutAct(0, 0), {Kind: "newinst", Slot: 0}, vfGated(0, 0, "/a3", 1), vfGated(0, 1, "/b2", 1)}
	pfx := func(h, v string) *vfWorldCase {
		mod := func(q *vfReq) { q.Headers = map[string]string{h: v} }
		a := []vfAction{vfReqAct(0, 0, "GET", "/dash", 1, mod), {Kind: "authorize", Browser: 0},
			{Kind: "callback", Browser: 0, Script: vfOkScript(vfPlainTok("user@example.com", 3600))}, vfReqAct(0, 0, "GET", "/dash", 1, mod)}
		return &vfWorldCase{Kind: "corpus", Script: vfScript{Cfg: vfWorldCfg{EndSession: true, GraceSec: 60}, Browsers: 1, Actions: a}}
	}
	mv := func(mode string) *vfWorldCase {
		a := []vfAction{vfGated(0, 0, "/first", 1), {Kind: "reconf", Prov: "move_auth", Mode: mode}, vfGated(0, 0, "/second", 1), {Kind: "authorize", Browser: 0},
			{Kind: "callback", Browser: 0, Script: vfOkScript(vfPlainTok("user@example.com", 3600))}, vfGated(0, 0, "/second", 1), vfLogoutAct(0, 0), vfGated(0, 0, "/third", 1)}
		return &vfWorldCase{Kind: "corpus", Script: vfScript{Cfg: vfWorldCfg{EndSession: true, GraceSec: 60}, Browsers: 1, Actions: a}}
	}
	return []*vfWorldCase{mv("tick"), mv("reload"),
		pfx("X-Forwarded-Prefix", "/app/../\\evil.example"), pfx("X-Forwarded-Prefix", "//evil.example"), pfx("X-Forwarded-Uri", "//evil.example/x"),
		{Kind: "corpus", Script: vfScript{Cfg: vfWorldCfg{EndSession: true, GraceSec: 60}, Browsers: 1, Actions: acts}},
		{Kind: "corpus", Script: vfScript{Cfg: vfWorldCfg{EndSession: false, GraceSec: 60, PostLogout: "/bye"}, Browsers: 1, Actions: acts2}},
		{Kind: "corpus", Script: vfScript{Cfg: vfWorldCfg{EndSession: true, GraceSec: 60}, Browsers: 1, Actions: acts2}},
		{Kind: "corpus", Script: vfScript{Cfg: vfWorldCfg{EndSession: true, GraceSec: 60}, Browsers: 1, Actions: tenants}},
		{Kind: "corpus", Script: vfScript{Cfg: vfWorldCfg{EndSession: false, GraceSec: 60, PKCE: true}, Browsers: 1, Actions: tenants}},
	}
}

// ---------------------------------------------------------------- C16: error bodies

var vfMarkup = []string{"&amp;<script>alert(4)</script>", "Tom &#39;n&#39; <b onmouseover=alert(5)>Jerry</b>", "a&lt;b<img src=x onerror=alert(6)>", "x&param=<svg/onload=alert(7)>",
	"<script>alert(1)</script>", "\"><img src=x onerror=alert(2)>", "'><svg/onload=alert(3)>", "a&lt;b & c", "</p><h1>x</h1>",
	"plain text", "éè<b>", "\xff\xfe<i>", "{{.}}", "%3Cscript%3E", "\\u003cscript\\u003e", "line1\nline2<br>"}

func vfGenC16(r *vfRand, id int) *vfWorldCase {
	cfg := vfWorldCfg{EndSession: true, GraceSec: 60}
	if r.chance(1, 2) {
		cfg.Domains = []string{"example.com"}
	}
	cs := &vfWorldCase{ID: id, Kind: "error-bodies", Script: vfScript{Cfg: cfg, Browsers: 1}}
	m := func() string {
		x := vfMarkup[r.intn(len(vfMarkup))]
		if r.chance(1, 3) { // text the page generator may treat specially (configured paths, URLs) followed by markup
			x = vfPick(r, vfLogoutPath, vfCallbackPath, "see "+vfLogoutPath+" ", "https://app.example.test"+vfLogoutPath, "http://", "/") + x
		}
		return x
	}
	var acts []vfAction
	if r.chance(2, 3) {
		// the login starts from a target that itself carries markup (sent raw, as a hand-made client can):
		// it is remembered in the session and must not come back unescaped in a later error page either
		tgt := "/app"
		if r.chance(2, 3) {
			tgt = "/app/search?q=" + vfPick(r, "\"><script>alert(7)</script>", "'><svg/onload=alert(8)>", "<b>x</b>&y=\"z\"", m())
		}
		acts = append(acts, vfGated(0, 0, tgt, 1), vfAction{Kind: "authorize", Browser: 0})
	}
	for i := 1 + r.intn(4); i > 0; i-- {
		if i > 1 && len(acts) > 0 && acts[len(acts)-1].Kind == "callback" && r.chance(1, 3) { // the previous failing callback again, in the OTHER format
			again := acts[len(acts)-1]
			again.AcceptJS = !again.AcceptJS
			acts = append(acts, again)
			continue
		}
		a := vfAction{Kind: "callback", Browser: 0, AcceptJS: r.chance(1, 2), StateMode: vfPick(r, "own", "own", "garbage", "absent"), CodeMode: vfPick(r, "own", "garbage", "absent", "markup", "markup"),
			Script: &vfTokenScript{Kind: vfPick(r, "ok", "invalid_grant", "html_error", "html_error_401", "server_error"), Spec: vfPlainTok(vfPick(r, "u@example.com", "u@evil.com"), 3600), NonceMode: vfPick(r, "", "other")}}
		switch x := r.intn(16); {
		case x < 4:
			a.ErrParam, a.ErrDesc = "access_denied", m()
		case x < 8:
			a.ErrParam = m()
		case x < 12:
			a.ErrParam, a.ErrDesc = m(), m()
		case x == 12: // the long, multi-line descriptions some providers send (several kilobytes, markup and quotes inside); rare: each
			// byte of a client string is a term of the case handed to Coq
			a.ErrParam = vfPick(r, "access_denied", "invalid_request", "server_error")
			a.ErrDesc = strings.Repeat("AADSTS50011: The reply URL <b>\"x\"</b> specified in the request doesn't match & isn't 'registered'. Trace ID: 0f2d\r\n", 36+r.intn(12))
		}
		acts = append(acts, a)
	}
	// other request fields carrying markup
	acts = append(acts, vfReqAct(0, 0, "GET", "/app/"+strings.ReplaceAll(m(), "?", "")+"?x="+m(), 1, func(q *vfReq) {
		q.Accept = vfPick(r, "text/html", "application/json", "text/html;"+m())
		q.Origin = vfPick(r, "", "https://x.example", m())
		q.XFHost = vfPick(r, "", m())
	}))
	cs.Script.Actions = acts
	return cs
}

// the token endpoint (a gateway in front of it) refuses the exchange with an HTML page repeating the submitted code
func vfC16Gateway(kind string, js bool) *vfWorldCase {
	acts := []vfAction{vfGated(0, 0, "/app", 1), {Kind: "authorize", Browser: 0},
		{Kind: "callback", Browser: 0, AcceptJS: js, StateMode: "own", CodeMode: "markup", Script: &vfTokenScript{Kind: kind}}}
	return &vfWorldCase{Kind: "corpus", Script: vfScript{Cfg: vfWorldCfg{EndSession: true, GraceSec: 60}, Browsers: 1, Actions: acts}}
}

// a provider error whose description is several kilobytes long (multi-line, markup and quotes inside), for both formats
func vfC16Long(js bool) *vfWorldCase {
	desc := strings.Repeat("AADSTS50011: The reply URL <b>\"x\"</b> specified in the request doesn't match & isn't 'registered'. Trace ID: 0f2d\r\n", 44)
	return &vfWorldCase{Kind: "corpus", Script: vfScript{Cfg: vfWorldCfg{EndSession: true, GraceSec: 60}, Browsers: 1, Actions: []vfAction{
		{Kind: "callback", Browser: 0, AcceptJS: js, ErrParam: "access_denied", ErrDesc: desc, CodeMode: "absent", StateMode: "absent"}}}}
}

func vfCorpusC16() []*vfWorldCase {
	mk := func(js bool) *vfWorldCase {
		return &vfWorldCase{Kind: "corpus", Script: vfScript{Cfg: vfWorldCfg{EndSession: true, GraceSec: 60}, Browsers: 1, Actions: []vfAction{
			{Kind: "callback", Browser: 0, AcceptJS: js, ErrParam: "access_denied", ErrDesc: "<script>alert(1)</script>", CodeMode: "absent", StateMode: "absent"}}}}
	}
	// markup in the query of the request that started the login, then an error page for that browser
	stored := &vfWorldCase{Kind: "corpus", Script: vfScript{Cfg: vfWorldCfg{EndSession: true, GraceSec: 60}, Browsers: 1, Actions: []vfAction{
		vfGated(0, 0, "/app/search?q=\"><script>alert(9)</script>", 1), {Kind: "authorize", Browser: 0},
		{Kind: "callback", Browser: 0, ErrParam: "access_denied", ErrDesc: "denied", CodeMode: "absent", StateMode: "own"},
		{Kind: "callback", Browser: 0, CodeMode: "garbage", StateMode: "garbage"}}}}
	linked := &vfWorldCase{Kind: "corpus", Script: vfScript{Cfg: vfWorldCfg{EndSession: true, GraceSec: 60}, Browsers: 1, Actions: []vfAction{
		{Kind: "callback", Browser: 0, ErrParam: "access_denied", ErrDesc: "log out at " + vfLogoutPath + "<img src=x onerror=alert(1)>", CodeMode: "absent", StateMode: "absent"},
		{Kind: "callback", Browser: 0, ErrParam: "access_denied", ErrDesc: vfCallbackPath + "\"><script>alert(2)</script>", CodeMode: "absent", StateMode: "absent"}}}}
	both := func(first bool) *vfWorldCase { // the same failing callback as a browser and as a JSON client, on ONE instance, in both orders
		cb := func(js bool) vfAction {
			return vfAction{Kind: "callback", Browser: 0, AcceptJS: js, ErrParam: "access_denied", ErrDesc: "<b>denied</b>", CodeMode: "absent", StateMode: "absent"}
		}
		return &vfWorldCase{Kind: "corpus", Script: vfScript{Cfg: vfWorldCfg{EndSession: true, GraceSec: 60}, Browsers: 1,
			Actions: []vfAction{cb(first), cb(!first), cb(first), {Kind: "callback", Browser: 0, AcceptJS: !first, CodeMode: "garbage", StateMode: "garbage"},
				{Kind: "callback", Browser: 0, AcceptJS: first, CodeMode: "garbage", StateMode: "garbage"}}}}
	}
	return []*vfWorldCase{mk(false), mk(true), stored, linked, both(false), both(true),
		vfC16Gateway("html_error", true), vfC16Gateway("html_error", false), vfC16Gateway("html_error_401", true), vfC16Long(true), vfC16Long(false)}
}

// ---------------------------------------------------------------- C17: bad client state

func vfGenC17(r *vfRand, id int) *vfWorldCase {
	cfg := vfWorldCfg{PKCE: r.chance(1, 2), ForceHTTPS: r.chance(1, 2), EndSession: true, GraceSec: 60}
	cs := &vfWorldCase{ID: id, Kind: "bad-client-state", Script: vfScript{Cfg: cfg, Browsers: 2}}
	var acts []vfAction
	// a starting jar
	switch r.intn(5) {
	case 0, 1:
		sc := vfOkScript(vfSizedTok(r, vfSizes[r.intn(len(vfSizes))], true))
		sc.RefreshLen = []int{0, 2600}[r.intn(2)]
		acts = append(acts, vfLogin(0, 0, "/app", sc)...)
	case 2:
		acts = append(acts, vfAction{Kind: "mint", Browser: 0, Mint: &vfMintSpec{Auth: true, Email: "user@example.com", Tok: vfTokForState(r, vfPick(r, "valid", "chunked", "expired")),
			RefreshLen: []int{0, 24}[r.intn(2)], CreatedAgoSec: int64([]int{86000, 86398, 86402, 90000, 900000, -3600}[r.intn(6)])}})
	case 3:
		acts = append(acts, vfAction{Kind: "mint", Browser: 0, Mint: &vfMintSpec{Auth: true, Email: "user@example.com", Tok: vfTokForState(r, "valid"), RefreshLen: 24, KeyB: true}})
	case 4:
		acts = append(acts, vfGated(0, 0, "/start", 1))
	}
	for i := 1 + r.intn(4); i > 0; i-- {
		a := vfAction{Kind: "tamper", Browser: 0, Tamper: vfPick(r, "junk", "junk", "truncate", "flip", "swap", "drop", "huge"),
			Name: vfPick(r, "m", "m", "a", "r", "a0", "a1", "a2", "r0", "r1"), Name2: vfPick(r, "a", "r", "m", "a0", "r0")}
		if a.Tamper == "drop" || a.Tamper == "swap" {
			// the property quantifies over cookie VALUES; a jar from which a single chunk cookie has vanished
			// (a gap in the chunk indices) is not a state the middleware or a value-tampering client produces
			a.Name = vfPick(r, "m", "a", "r")
			a.Name2 = vfPick(r, "a", "r", "m")
		}
		acts = append(acts, a)
	}
	// the request(s) with the bad state (sometimes a page with many sub-resources: a burst of uncompleted login redirects)
	nbad := 1 + r.intn(2)
	if r.chance(1, 5) {
		nbad = 6 + r.intn(5)
	}
	for i := nbad; i > 0; i-- {
		target := vfPick(r, "/app", "/", vfCallbackPath+"?state=x&code=y", vfLogoutPath, "/app?x="+strings.Repeat("u", []int{10, 1000, 1024, 1900, 2000, 2100, 3000, 8000, 16000}[r.intn(9)]),
			"/files/"+strings.Repeat("%7E", []int{100, 340, 400, 700, 900}[(id+i)%5])+vfPick(r, "", "?q=%2F%20"+strings.Repeat("%C3%A9", 200)))
		acts = append(acts, vfReqAct(0, 0, vfPick(r, "GET", "POST"), target, 1, func(q *vfReq) {
			q.AcceptJS = r.chance(1, 4)
			if r.chance(1, 4) {
				q.Headers = map[string]string{"X-Whatever": strings.Repeat("h", 8000), "User-Agent": strings.Repeat("ua", 2000)}
			}
			if r.chance(1, 4) {
				q.Origin = strings.Repeat("o", 4000)
			}
			q.Script = &vfTokenScript{Kind: vfPick(r, "ok", "invalid_grant")}
		}))
	}
	// healing: a complete login from the resulting jar (token of any size, with or without refresh token), then a gated request
	heal := vfOkScript(vfSizedTok(r, vfSizes[r.intn(len(vfSizes))], r.chance(2, 3)))
	heal.NoRefresh = r.chance(1, 2)
	heal.RefreshLen = []int{0, 2600, 5200}[r.intn(3)]
	if r.chance(1, 3) {
		// the browser goes on from wherever the last answer sent it: to the provider and back if that was a login redirect
		// (nothing happens otherwise), and then follows the redirect the completed login gives it
		acts = append(acts, vfAction{Kind: "authorize", Browser: 0}, vfAction{Kind: "callback", Browser: 0, Script: heal}, vfAction{Kind: "follow", Browser: 0})
	}
	acts = append(acts, vfLogin(0, 0, "/healed", heal)...)
	acts = append(acts, vfAction{Kind: "follow", Browser: 0}, vfReqAct(0, 0, "GET", "/healed", 4, nil))
	// "any header values": the headers the middleware derives scheme and host from, with values no URL parser accepts,
	// on every kind of request of the logged-in browser (the logout builds URLs from them)
	if r.chance(1, 2) {
		badHost := []string{"bad host", "%", "a.example:80a", "[::1", "exa mple.com", "host\twith\ttabs", "a/b", "@", ":", strings.Repeat("h", 300) + ".example"}
		badProto := []string{"ht tp", "%zz", "", "https, http", "javascript", "\"", "\" , x", "\"https", "'", ",", " , ", "https;", "\"\""}
		badHost = append(badHost, "\"", "\" , x", ",", " ", "\"\"", "a.example, b.example", "a.example,")
		for _, target := range []string{"/healed", vfLogoutPath, vfCallbackPath + "?state=x&code=y", "/after"} {
			target := target
			tag := 1
			if target == vfLogoutPath {
				tag = 3
			}
			acts = append(acts, vfReqAct(0, 0, "GET", target, tag, func(q *vfReq) {
				q.XFHost = badHost[r.intn(len(badHost))]
				if r.chance(1, 2) {
					q.XFProto = badProto[r.intn(len(badProto))]
				}
				if r.chance(1, 3) { // RFC 7239
					q.Headers = map[string]string{"Forwarded": vfPick(r, "for=1.2.3.4;host=\"", "for=1.2.3.4;proto=\";host=x", "host=\"a.example\";proto=https", ";;;", "for=\"[::1]:80\";by=_x;host=", "\"")}
				}
			}))
		}
	}
	cs.Script.Actions = acts
	return cs
}

func vfCorpusC17() []*vfWorldCase {
	cfg := vfWorldCfg{PKCE: true, EndSession: true, GraceSec: 60}
	heal := append(vfLogin(0, 0, "/healed", vfOkScript(vfPlainTok("user@example.com", 3600))), vfReqAct(0, 0, "GET", "/healed", 4, nil))
	junk := func(name string) *vfWorldCase {
		acts := append(vfLogin(0, 0, "/app", vfOkScript(vfPlainTok("user@example.com", 3600))),
			vfAction{Kind: "tamper", Browser: 0, Tamper: "junk", Name: name}, vfGated(0, 0, "/app", 1))
		return &vfWorldCase{Kind: "corpus", Script: vfScript{Cfg: cfg, Browsers: 1, Actions: append(acts, heal...)}}
	}
	old := &vfWorldCase{Kind: "corpus", Script: vfScript{Cfg: cfg, Browsers: 1, Actions: append([]vfAction{
		{Kind: "mint", Browser: 0, Mint: &vfMintSpec{Auth: true, Email: "user@example.com", Tok: vfTokForState(nil, "valid"), RefreshLen: 24, CreatedAgoSec: 90000}},
		vfGated(0, 0, "/app", 1)}, heal...)}}
	long := &vfWorldCase{Kind: "corpus", Script: vfScript{Cfg: cfg, Browsers: 1, Actions: append([]vfAction{
		vfGated(0, 0, "/app?x="+strings.Repeat("u", 2100), 1)}, heal...)}}
	chunkHeal := func(first, second int, tamper, name string) *vfWorldCase {
		s1 := vfOkScript(vfSizedTok(nil, first, true))
		s1.NoRefresh = true
		s2 := vfOkScript(vfSizedTok(nil, second, true))
		s2.NoRefresh = true
		acts := append(vfLogin(0, 0, "/app", s1), vfGated(0, 0, "/app", 1),
			vfAction{Kind: "tamper", Browser: 0, Tamper: tamper, Name: name}, vfGated(0, 0, "/app", 1))
		acts = append(acts, vfLogin(0, 0, "/healed", s2)...)
		acts = append(acts, vfReqAct(0, 0, "GET", "/healed", 4, nil))
		return &vfWorldCase{Kind: "corpus", Script: vfScript{Cfg: cfg, Browsers: 1, Actions: acts}}
	}
	huge := func(name string) *vfWorldCase { // a value longer than the cookie codec accepts at all
		acts := append(vfLogin(0, 0, "/app", vfOkScript(vfPlainTok("user@example.com", 3600))),
			vfAction{Kind: "tamper", Browser: 0, Tamper: "huge", Name: name}, vfGated(0, 0, "/app", 1), vfReqAct(0, 0, "GET", vfCallbackPath+"?code=x&state=y", 2, nil))
		return &vfWorldCase{Kind: "corpus", Script: vfScript{Cfg: cfg, Browsers: 1, Actions: append(acts, heal...)}}
	}
	hdr := func(host, proto string) *vfWorldCase {
		acts := append(vfLogin(0, 0, "/app", vfOkScript(vfPlainTok("user@example.com", 3600))),
			vfReqAct(0, 0, "GET", "/app", 1, func(q *vfReq) { q.XFHost, q.XFProto = host, proto }),
			vfReqAct(0, 0, "GET", vfLogoutPath, 3, func(q *vfReq) { q.XFHost, q.XFProto = host, proto }),
			vfReqAct(0, 0, "GET", "/app", 1, func(q *vfReq) { q.XFHost, q.XFProto = host, proto }))
		return &vfWorldCase{Kind: "corpus", Script: vfScript{Cfg: cfg, Browsers: 1, Actions: acts}}
	}
	var burst []vfAction
	for i := 0; i < 9; i++ {
		burst = append(burst, vfGated(0, 0, fmt.Sprintf("/page/asset-%d.js", i), 1))
	}
	burst = append(burst, heal...)
	many := &vfWorldCase{Kind: "corpus", Script: vfScript{Cfg: cfg, Browsers: 1, Actions: burst}}
	// a stale authorization response (bookmarked / reopened callback URL) in a browser whose cookies are unusable or gone; the
	// browser then goes wherever it is sent: through a login if it is given one, and on to the redirect that login ends with
	stale := func(prep ...vfAction) *vfWorldCase {
		acts := append(prep, vfReqAct(0, 0, "GET", vfCallbackPath+"?code=stale-code&state=stale-state", 2, nil),
			vfAction{Kind: "authorize", Browser: 0}, vfAction{Kind: "callback", Browser: 0, Script: vfOkScript(vfPlainTok("user@example.com", 3600))},
			vfAction{Kind: "follow", Browser: 0}, vfAction{Kind: "follow", Browser: 0})
		return &vfWorldCase{Kind: "corpus", Script: vfScript{Cfg: cfg, Browsers: 1, Actions: append(acts, heal...)}}
	}
	return []*vfWorldCase{many, stale(), stale(vfAction{Kind: "tamper", Browser: 0, Tamper: "junk", Name: "m"}, vfAction{Kind: "tamper", Browser: 0, Tamper: "junk", Name: "a"}),
		stale(vfAction{Kind: "mint", Browser: 0, Mint: &vfMintSpec{Auth: true, Email: "user@example.com", Tok: vfTokForState(nil, "valid"), RefreshLen: 24, KeyB: true}}),
		junk("m"), junk("a"), junk("r"), huge("m"), huge("a"), huge("r"), huge("a0"), old, long,
		hdr("bad host", ""), hdr("%", "ht tp"), hdr("a.example:80a", "https"), hdr("[::1", ""),
		chunkHeal(6000, 3000, "flip", "a0"), chunkHeal(6000, 3000, "junk", "a1"), chunkHeal(9000, 4400, "truncate", "a0"),
		chunkHeal(3000, 6000, "junk", "a0"), chunkHeal(6000, 6000, "junk", "a2")}
}
