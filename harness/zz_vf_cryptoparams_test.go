//go:build verif

package traefikoidc

// C09 parameter measurement: are cookie payloads ENCRYPTED, judged from outside.
// Sessions with planted high-entropy secrets (e-mail, state, nonce, PKCE
// verifier, ID token, refresh token; tokens from tiny to chunked) are written
// through the real SessionManager under several keys; every Set-Cookie value is
// handed to a decoder that does NOT know the key:
//     base64url -> split on '|' -> base64url (vfKeylessViews, shared with the world
//     harness) -> every base64-looking run -> base64 -> gunzip
// and every view is searched for every secret (raw, and the compressed token
// text as stored).  cookie_encrypted = no secret found in any view.
// The decoder is validated on the spot: the same payload under a store WITHOUT a
// block key must expose the e-mail (instrument self-test).

import (
	"bytes"
	"compress/gzip"
	"crypto/hmac"
	"crypto/sha256"
	"encoding/base64"
	"fmt"
	"io"
	"net/http"
	"net/http/httptest"
	"strings"
	"testing"

	"github.com/gorilla/sessions"
)

type vfCPCookie struct {
	ID       int      `json:"id"`
	Kind     string   `json:"kind"`
	KeyIdx   int      `json:"key"`
	Session  int      `json:"session"`
	Name     string   `json:"name"`
	ValueLen int      `json:"value_len"`
	Views    int      `json:"views"`
	Visible  []string `json:"visible"`
}

func vfCPRandString(r *vfRand, n int, alphabet string) string {
	b := make([]byte, n)
	for i := range b {
		b[i] = alphabet[r.intn(len(alphabet))]
	}
	return string(b)
}

const vfCPHex = "0123456789abcdef"
const vfCPB64 = "ABCDEFGHIJKLMNOPQRSTUVWXYZabcdefghijklmnopqrstuvwxyz0123456789-_"

func vfCPGunzip(b []byte) ([]byte, bool) {
	zr, err := gzip.NewReader(bytes.NewReader(b))
	if err != nil {
		return nil, false
	}
	out, err := io.ReadAll(io.LimitReader(zr, 1<<22))
	if len(out) == 0 && err != nil {
		return nil, false
	}
	return out, true
}

func vfCPIsB64(c byte) bool {
	return (c >= 'A' && c <= 'Z') || (c >= 'a' && c <= 'z') || (c >= '0' && c <= '9') || c == '+' || c == '/' || c == '-' || c == '_' || c == '='
}

// vfCPViews: everything derivable from a cookie value by decoding alone
func vfCPViews(value string) [][]byte {
	views := vfKeylessViews(value)
	views = append(views, []byte(value))
	base := len(views)
	for i := 0; i < base; i++ {
		v := views[i]
		// every maximal run of base64 characters of some length: try to decode, then gunzip
		for s := 0; s < len(v); {
			if !vfCPIsB64(v[s]) {
				s++
				continue
			}
			e := s
			for e < len(v) && vfCPIsB64(v[e]) {
				e++
			}
			if e-s >= 16 {
				run := string(v[s:e])
				for _, enc := range []*base64.Encoding{base64.StdEncoding, base64.URLEncoding, base64.RawStdEncoding, base64.RawURLEncoding} {
					if d, err := enc.DecodeString(run); err == nil {
						views = append(views, d)
						if g, ok := vfCPGunzip(d); ok {
							views = append(views, g)
						}
					}
				}
			}
			s = e
		}
	}
	return views
}

type vfCPSecret struct {
	Name string
	Val  []byte
}

// vfCPResign: what a party WITHOUT the session key can do to a cookie value it was given: take it apart (base64url,
// date|value|mac), optionally change one bit of the value's ciphertext, and put it together again under another cookie
// name with a MAC computed under a key of its own choosing
func vfCPResign(value, newName string, weak []byte, flipAt int) (string, bool) {
	outer, err := base64.URLEncoding.DecodeString(value)
	if err != nil {
		return "", false
	}
	parts := bytes.SplitN(outer, []byte("|"), 3)
	if len(parts) != 3 {
		return "", false
	}
	date, val := parts[0], parts[1]
	if flipAt >= 0 {
		raw, err := base64.URLEncoding.DecodeString(string(val))
		if err != nil || flipAt >= len(raw) {
			return "", false
		}
		raw[flipAt] ^= 0x01
		val = []byte(base64.URLEncoding.EncodeToString(raw))
	}
	h := hmac.New(sha256.New, weak)
	h.Write([]byte(newName + "|" + string(date) + "|" + string(val)))
	b := append([]byte(string(date)+"|"+string(val)+"|"), h.Sum(nil)...)
	return base64.URLEncoding.EncodeToString(b), true
}

type vfCPForged struct {
	Attack  string `json:"attack"`
	WeakKey string `json:"mac_key"`
	Cookie  string `json:"cookie"`
	Read    string `json:"read"`
}

// vfCPForgeries: cookies re-signed by a key-less party must never be accepted as session content
func vfCPForgeries(t *testing.T, r *vfRand) (tried int, accepted []vfCPForged) {
	mName, aName, rName := vfMiscCookieNames()
	for ki := 0; ki < 2; ki++ {
		key := vfCPRandString(r, 32+r.intn(33), vfCPB64)
		sm, err := vfMiscNewSessionManager(key, true)
		if err != nil {
			t.Fatalf("NewSessionManager: %v", err)
		}
		email := "mallory-" + vfCPRandString(r, 8, vfCPHex) + "@evil.example"
		idTok := vfCPRandString(r, 36, vfCPB64) + "." + vfCPRandString(r, 300, vfCPB64) + "." + vfCPRandString(r, 86, vfCPB64)
		lines, err := vfMiscSaveSession(sm, true, true, email, idTok, "rt-"+vfCPRandString(r, 40, vfCPB64), "c", "n", "v", "/p")
		if err != nil {
			t.Fatalf("Save: %v", err)
		}
		hdr := http.Header{}
		for _, l := range lines {
			hdr.Add("Set-Cookie", l)
		}
		jar := map[string]string{}
		for _, c := range vfParseSetCookies(hdr) {
			if c.MaxAge >= 0 {
				jar[c.Name] = c.Value
			}
		}
		if auth, em, acc, _, err := vfMiscLoad(sm, jar); err != nil || !auth || em != email || acc != idTok {
			t.Fatalf("forgery phase: the genuine cookies do not load (%v %v %q)", err, auth, em)
		}
		// (0) genuine values presented UNCHANGED under another of the deployment's cookie names
		tried += 2
		if _, _, _, ref, err := vfMiscLoad(sm, map[string]string{mName: jar[mName], aName: jar[aName], rName: jar[aName]}); err == nil && ref != "" {
			accepted = append(accepted, vfCPForged{"value of " + aName + " presented unchanged under the name " + rName, "none (nothing re-signed)", rName, "refresh token read: " + ref[:vfMinInt(len(ref), 40)]})
		}
		if _, _, acc, _, err := vfMiscLoad(sm, map[string]string{mName: jar[mName], aName: jar[rName]}); err == nil && acc != "" {
			accepted = append(accepted, vfCPForged{"value of " + rName + " presented unchanged under the name " + aName, "none (nothing re-signed)", aName, "ID token read: " + acc[:vfMinInt(len(acc), 40)]})
		}
		weakKeys := map[string][]byte{"empty": {}, "32 zero bytes": make([]byte, 32), "64 zero bytes": make([]byte, 64),
			"zero bytes, as many as the key has": make([]byte, len(key)), "the cookie name": []byte(mName), "32 bytes 0xff": bytes.Repeat([]byte{0xff}, 32),
			"the word secret": []byte("secret")}
		for wn, wk := range weakKeys {
			// (1) the access-token cookie's value presented as the refresh-token cookie
			if f, ok := vfCPResign(jar[aName], rName, wk, -1); ok {
				tried++
				if _, _, _, ref, err := vfMiscLoad(sm, map[string]string{mName: jar[mName], aName: jar[aName], rName: f}); err == nil && ref != "" {
					accepted = append(accepted, vfCPForged{"value of " + aName + " re-signed under the name " + rName, wn, rName, "refresh token read: " + ref[:vfMinInt(len(ref), 40)]})
				}
			}
			// (2) one bit of the main cookie's ciphertext changed (the stream cipher turns that into one changed character)
			raw, _ := base64.URLEncoding.DecodeString(jar[mName])
			n := len(raw) * 3 / 4
			for at := 16; at < n && at < 400; at += 3 {
				f, ok := vfCPResign(jar[mName], mName, wk, at)
				if !ok {
					break
				}
				tried++
				if auth, em, _, _, err := vfMiscLoad(sm, map[string]string{mName: f}); err == nil && (auth || em != "") {
					accepted = append(accepted, vfCPForged{fmt.Sprintf("bit flipped at ciphertext byte %d of %s, re-signed", at, mName), wn, mName,
						fmt.Sprintf("authenticated=%v e-mail=%q (written: %q)", auth, em, email)})
					break
				}
			}
		}
	}
	return tried, accepted
}

func TestVF_CryptoParams(t *testing.T) {
	r := vfNewRand(vfSeed())
	out := vfOpenLines(t, "cases.jsonl")
	defer out.close()
	type hit struct {
		Secret string `json:"secret"`
		Cookie string `json:"cookie"`
		Key    int    `json:"key"`
		Sess   int    `json:"session"`
	}
	var hits []hit
	id, cookies := 0, 0
	hasBlock, _, infoOK := false, 0, false
	sizes := []int{0, 40, 700, 1400, 2600, 5000, 12000, 40000}
	nkeys := 3
	if vfTier() == "thorough" {
		nkeys = 12
	}
	selfTest := false
	for ki := 0; ki < nkeys; ki++ {
		key := vfCPRandString(r, 32+r.intn(33), vfCPB64)
		for _, force := range []bool{true, false} {
			sm, err := vfMiscNewSessionManager(key, force)
			if err != nil {
				t.Fatalf("NewSessionManager: %v", err)
			}
			if ki == 0 && force {
				hasBlock, _, infoOK = vfMiscCodecInfo(sm)
			}
			for si, size := range sizes {
				email := "u-" + vfCPRandString(r, 16, vfCPHex) + "@s-" + vfCPRandString(r, 8, vfCPHex) + ".example"
				csrf := vfCPRandString(r, 36, vfCPHex)
				nonce := vfCPRandString(r, 44, vfCPB64)
				verifier := vfCPRandString(r, 43, vfCPB64)
				idTok, refTok := "", ""
				if size > 0 {
					// JWT-shaped, incompressible
					idTok = vfCPRandString(r, 36, vfCPB64) + "." + vfCPRandString(r, size, vfCPB64) + "." + vfCPRandString(r, 86, vfCPB64)
					refTok = "rt-" + vfCPRandString(r, size/2+24, vfCPB64)
				}
				lines, err := vfMiscSaveSession(sm, force, size > 0, email, idTok, refTok, csrf, nonce, verifier, "/deep/"+vfCPRandString(r, 24, vfCPHex))
				if err != nil {
					t.Fatalf("Save: %v", err)
				}
				secrets := []vfCPSecret{{"email", []byte(email)}, {"state", []byte(csrf)}, {"nonce", []byte(nonce)}, {"verifier", []byte(verifier)}}
				if size > 0 {
					secrets = append(secrets, vfCPSecret{"id_token", []byte(idTok)}, vfCPSecret{"refresh_token", []byte(refTok)},
						vfCPSecret{"id_token_part", []byte(idTok[40:72])}, vfCPSecret{"refresh_token_part", []byte(refTok[3:27])})
					for _, x := range []struct{ n, tok string }{{"id_token_compressed", idTok}, {"refresh_token_compressed", refTok}} {
						c := vfMiscCompress(x.tok)
						for off := 16; off+32 <= len(c); off += 1900 {
							secrets = append(secrets, vfCPSecret{x.n, []byte(c[off : off+32])})
						}
					}
				}
				hdr := http.Header{}
				for _, l := range lines {
					hdr.Add("Set-Cookie", l)
				}
				for _, c := range vfParseSetCookies(hdr) {
					views := vfCPViews(c.Value)
					cc := vfCPCookie{ID: id, Kind: "cookie", KeyIdx: ki, Session: si, Name: c.Name, ValueLen: len(c.Value), Views: len(views), Visible: []string{}}
					id++
					cookies++
					seen := map[string]bool{}
					for _, v := range views {
						for _, s := range secrets {
							if !seen[s.Name] && bytes.Contains(v, s.Val) {
								seen[s.Name] = true
								cc.Visible = append(cc.Visible, s.Name)
								hits = append(hits, hit{s.Name, c.Name, ki, si})
							}
						}
					}
					out.put(cc)
				}
				// instrument self-test, once: a store WITHOUT a block key must expose the e-mail and the token
				if !selfTest && size == 700 {
					plain := sessions.NewCookieStore([]byte(key))
					req := httptest.NewRequest("GET", "http://selftest.invalid/", nil)
					s, _ := plain.Get(req, "_oidc_raczylo_m")
					s.Values["email"] = email
					s.Values["token"] = vfMiscCompress(idTok)
					rec := httptest.NewRecorder()
					if err := s.Save(req, rec); err != nil {
						t.Fatalf("self-test save: %v", err)
					}
					foundEmail, foundTok := false, false
					for _, c := range vfParseSetCookies(rec.Header()) {
						for _, v := range vfCPViews(c.Value) {
							foundEmail = foundEmail || bytes.Contains(v, []byte(email))
							foundTok = foundTok || bytes.Contains(v, []byte(idTok))
						}
					}
					if !foundEmail || !foundTok {
						t.Fatalf("key-less decoder self-test failed (email %v, token %v): the instrument cannot see through a signed-only cookie", foundEmail, foundTok)
					}
					selfTest = true
				}
			}
		}
	}
	// main-cookie size sweep: the e-mail (provider-controlled, any length) makes the main cookie grow up
	// to and beyond the codec's length cap; whatever is emitted at any size must still be opaque (a Save
	// that fails emits nothing and is not a C09 matter)
	sweepSaved, sweepRefused := 0, 0
	{
		key := vfCPRandString(r, 48, vfCPB64)
		sm, err := vfMiscNewSessionManager(key, true)
		if err != nil {
			t.Fatalf("NewSessionManager: %v", err)
		}
		step := 24
		if vfTier() == "thorough" {
			step = 5
		}
		for n := 16; n <= 3400; n += step {
			email := "u-" + vfCPRandString(r, n, vfCPHex) + "@s-" + vfCPRandString(r, 8, vfCPHex) + ".example"
			csrf := vfCPRandString(r, 36, vfCPHex)
			nonce := vfCPRandString(r, 44, vfCPB64)
			lines, err := vfMiscSaveSession(sm, true, false, email, "", "", csrf, nonce, "", "/p")
			if err != nil {
				sweepRefused++
				continue
			}
			sweepSaved++
			secrets := []vfCPSecret{{"email", []byte(email)}, {"email_part", []byte(email[2:18])}, {"state", []byte(csrf)}, {"nonce", []byte(nonce)}}
			hdr := http.Header{}
			for _, l := range lines {
				hdr.Add("Set-Cookie", l)
			}
			for _, c := range vfParseSetCookies(hdr) {
				views := vfCPViews(c.Value)
				cc := vfCPCookie{ID: id, Kind: "size-sweep", KeyIdx: -1, Session: n, Name: c.Name, ValueLen: len(c.Value), Views: len(views), Visible: []string{}}
				id++
				cookies++
				seen := map[string]bool{}
				for _, v := range views {
					for _, s := range secrets {
						if !seen[s.Name] && bytes.Contains(v, s.Val) {
							seen[s.Name] = true
							cc.Visible = append(cc.Visible, s.Name)
							hits = append(hits, hit{s.Name, c.Name, -1, n})
						}
					}
				}
				out.put(cc)
			}
		}
	}
	if !selfTest {
		t.Fatalf("key-less decoder self-test did not run")
	}
	forgeTried, forged := vfCPForgeries(t, r.fork(909))
	if forged == nil {
		forged = []vfCPForged{}
	}
	if hits == nil {
		hits = []hit{}
	}
	first := ""
	if len(hits) > 0 {
		first = fmt.Sprintf("%s visible in cookie %s", hits[0].Secret, hits[0].Cookie)
	}
	vfWriteJSON(t, "params.json", map[string]interface{}{
		"forgeries_tried":    forgeTried,
		"forgeries_accepted": forged,
		"cookie_encrypted":   len(hits) == 0,
		"visible":            hits[:vfMinInt(len(hits), 20)],
		"visible_total":      len(hits),
		"first_visible":      first,
		"cookies_inspected":  cookies,
		"sweep_saved":        sweepSaved,
		"sweep_refused":      sweepRefused,
		"keys":               nkeys,
		"token_sizes":        sizes,
		"decoder_selftest":   selfTest,
		"codec_block_cipher": hasBlock,
		"codec_info_ok":      infoOK,
		"decoder":            strings.Join([]string{"base64url", "split |", "base64url", "base64 runs", "gunzip"}, " -> "),
	})
}

func vfMinInt(a, b int) int {
	if a < b {
		return a
	}
	return b
}
