//go:build verif

package traefikoidc

// C09 parameter measurement: are cookie payloads ENCRYPTED, judged from outside.
// Sessions with planted high-entropy secrets (e-mail, state, nonce, PKCE
// verifier, ID token, refresh token; tokens from tiny to chunked) are written
// through the real SessionManager under several keys; every Set-Cookie value is
// handed to a decoder that does NOT know the key:
//     base64url -> split on '|' -> base64url (vfKeylessViews, shared with the world
//     harness) -> every base64-looking run -> base64 -> gunzip
// and every view is searched for every secret (raw, and the compressed token
// text as stored).  cookie_encrypted = no secret found in any view.
// The decoder is validated on the spot: the same payload under a store WITHOUT a
// block key must expose the e-mail (instrument self-test).

import (
	"bytes"
	"compress/gzip"
	"encoding/base64"
	"fmt"
	"io"
	"net/http"
	"net/http/httptest"
	"strings"
	"testing"

	"github.com/gorilla/sessions"
)

type vfCPCookie struct {
	ID       int      `json:"id"`
	Kind     string   `json:"kind"`
	KeyIdx   int      `json:"key"`
	Session  int      `json:"session"`
	Name     string   `json:"name"`
	ValueLen int      `json:"value_len"`
	Views    int      `json:"views"`
	Visible  []string `json:"visible"`
}

func vfCPRandString(r *vfRand, n int, alphabet string) string {
	b := make([]byte, n)
	for i := range b {
		b[i] = alphabet[r.intn(len(alphabet))]
	}
	return string(b)
}

const vfCPHex = "0123456789abcdef"
const vfCPB64 = "ABCDEFGHIJKLMNOPQRSTUVWXYZabcdefghijklmnopqrstuvwxyz0123456789-_"

func vfCPGunzip(b []byte) ([]byte, bool) {
	zr, err := gzip.NewReader(bytes.NewReader(b))
	if err != nil {
		return nil, false
	}
	out, err := io.ReadAll(io.LimitReader(zr, 1<<22))
	if len(out) == 0 && err != nil {
		return nil, false
	}
	return out, true
}

func vfCPIsB64(c byte) bool {
	return (c >= 'A' && c <= 'Z') || (c >= 'a' && c <= 'z') || (c >= '0' && c <= '9') || c == '+' || c == '/' || c == '-' || c == '_' || c == '='
}

// vfCPViews: everything derivable from a cookie value by decoding alone
func vfCPViews(value string) [][]byte {
	views := vfKeylessViews(value)
	views = append(views, []byte(value))
	base := len(views)
	for i := 0; i < base; i++ {
		v := views[i]
		// every maximal run of base64 characters of some length: try to decode, then gunzip
		for s := 0; s < len(v); {
			if !vfCPIsB64(v[s]) {
				s++
				continue
			}
			e := s
			for e < len(v) && vfCPIsB64(v[e]) {
				e++
			}
			if e-s >= 16 {
				run := string(v[s:e])
				for _, enc := range []*base64.Encoding{base64.StdEncoding, base64.URLEncoding, base64.RawStdEncoding, base64.RawURLEncoding} {
					if d, err := enc.DecodeString(run); err == nil {
						views = append(views, d)
						if g, ok := vfCPGunzip(d); ok {
							views = append(views, g)
						}
					}
				}
			}
			s = e
		}
	}
	return views
}

type vfCPSecret struct {
	Name string
	Val  []byte
}

func TestVF_CryptoParams(t *testing.T) {
	r := vfNewRand(vfSeed())
	out := vfOpenLines(t, "cases.jsonl")
	defer out.close()
	type hit struct {
		Secret string `json:"secret"`
		Cookie string `json:"cookie"`
		Key    int    `json:"key"`
		Sess   int    `json:"session"`
	}
	var hits []hit
	id, cookies := 0, 0
	hasBlock, _, infoOK := false, 0, false
	sizes := []int{0, 40, 700, 1400, 2600, 5000, 12000, 40000}
	nkeys := 3
	if vfTier() == "thorough" {
		nkeys = 12
	}
	selfTest := false
	for ki := 0; ki < nkeys; ki++ {
		key := vfCPRandString(r, 32+r.intn(33), vfCPB64)
		for _, force := range []bool{true, false} {
			sm, err := vfMiscNewSessionManager(key, force)
			if err != nil {
				t.Fatalf("NewSessionManager: %v", err)
			}
			if ki == 0 && force {
				hasBlock, _, infoOK = vfMiscCodecInfo(sm)
			}
			for si, size := range sizes {
				email := "u-" + vfCPRandString(r, 16, vfCPHex) + "@s-" + vfCPRandString(r, 8, vfCPHex) + ".example"
				csrf := vfCPRandString(r, 36, vfCPHex)
				nonce := vfCPRandString(r, 44, vfCPB64)
				verifier := vfCPRandString(r, 43, vfCPB64)
				idTok, refTok := "", ""
				if size > 0 {
					// JWT-shaped, incompressible
					idTok = vfCPRandString(r, 36, vfCPB64) + "." + vfCPRandString(r, size, vfCPB64) + "." + vfCPRandString(r, 86, vfCPB64)
					refTok = "rt-" + vfCPRandString(r, size/2+24, vfCPB64)
				}
				lines, err := vfMiscSaveSession(sm, force, size > 0, email, idTok, refTok, csrf, nonce, verifier, "/deep/"+vfCPRandString(r, 24, vfCPHex))
				if err != nil {
					t.Fatalf("Save: %v", err)
				}
				secrets := []vfCPSecret{{"email", []byte(email)}, {"state", []byte(csrf)}, {"nonce", []byte(nonce)}, {"verifier", []byte(verifier)}}
				if size > 0 {
					secrets = append(secrets, vfCPSecret{"id_token", []byte(idTok)}, vfCPSecret{"refresh_token", []byte(refTok)},
						vfCPSecret{"id_token_part", []byte(idTok[40:72])}, vfCPSecret{"refresh_token_part", []byte(refTok[3:27])})
					for _, x := range []struct{ n, tok string }{{"id_token_compressed", idTok}, {"refresh_token_compressed", refTok}} {
						c := vfMiscCompress(x.tok)
						for off := 16; off+32 <= len(c); off += 1900 {
							secrets = append(secrets, vfCPSecret{x.n, []byte(c[off : off+32])})
						}
					}
				}
				hdr := http.Header{}
				for _, l := range lines {
					hdr.Add("Set-Cookie", l)
				}
				for _, c := range vfParseSetCookies(hdr) {
					views := vfCPViews(c.Value)
					cc := vfCPCookie{ID: id, Kind: "cookie", KeyIdx: ki, Session: si, Name: c.Name, ValueLen: len(c.Value), Views: len(views), Visible: []string{}}
					id++
					cookies++
					seen := map[string]bool{}
					for _, v := range views {
						for _, s := range secrets {
							if !seen[s.Name] && bytes.Contains(v, s.Val) {
								seen[s.Name] = true
								cc.Visible = append(cc.Visible, s.Name)
								hits = append(hits, hit{s.Name, c.Name, ki, si})
							}
						}
					}
					out.put(cc)
				}
				// instrument self-test, once: a store WITHOUT a block key must expose the e-mail and the token
				if !selfTest && size == 700 {
					plain := sessions.NewCookieStore([]byte(key))
					req := httptest.NewRequest("GET", "http://selftest.invalid/", nil)
					s, _ := plain.Get(req, "_oidc_raczylo_m")
					s.Values["email"] = email
					s.Values["token"] = vfMiscCompress(idTok)
					rec := httptest.NewRecorder()
					if err := s.Save(req, rec); err != nil {
						t.Fatalf("self-test save: %v", err)
					}
					foundEmail, foundTok := false, false
					for _, c := range vfParseSetCookies(rec.Header()) {
						for _, v := range vfCPViews(c.Value) {
							foundEmail = foundEmail || bytes.Contains(v, []byte(email))
							foundTok = foundTok || bytes.Contains(v, []byte(idTok))
						}
					}
					if !foundEmail || !foundTok {
						t.Fatalf("key-less decoder self-test failed (email %v, token %v): the instrument cannot see through a signed-only cookie", foundEmail, foundTok)
					}
					selfTest = true
				}
			}
		}
	}
	// main-cookie size sweep: the e-mail (provider-controlled, any length) makes the main cookie grow up
	// to and beyond the codec's length cap; whatever is emitted at any size must still be opaque (a Save
	// that fails emits nothing and is not a C09 matter)
	sweepSaved, sweepRefused := 0, 0
	{
		key := vfCPRandString(r, 48, vfCPB64)
		sm, err := vfMiscNewSessionManager(key, true)
		if err != nil {
			t.Fatalf("NewSessionManager: %v", err)
		}
		step := 24
		if vfTier() == "thorough" {
			step = 5
		}
		for n := 16; n <= 3400; n += step {
			email := "u-" + vfCPRandString(r, n, vfCPHex) + "@s-" + vfCPRandString(r, 8, vfCPHex) + ".example"
			csrf := vfCPRandString(r, 36, vfCPHex)
			nonce := vfCPRandString(r, 44, vfCPB64)
			lines, err := vfMiscSaveSession(sm, true, false, email, "", "", csrf, nonce, "", "/p")
			if err != nil {
				sweepRefused++
				continue
			}
			sweepSaved++
			secrets := []vfCPSecret{{"email", []byte(email)}, {"email_part", []byte(email[2:18])}, {"state", []byte(csrf)}, {"nonce", []byte(nonce)}}
			hdr := http.Header{}
			for _, l := range lines {
				hdr.Add("Set-Cookie", l)
			}
			for _, c := range vfParseSetCookies(hdr) {
				views := vfCPViews(c.Value)
				cc := vfCPCookie{ID: id, Kind: "size-sweep", KeyIdx: -1, Session: n, Name: c.Name, ValueLen: len(c.Value), Views: len(views), Visible: []string{}}
				id++
				cookies++
				seen := map[string]bool{}
				for _, v := range views {
					for _, s := range secrets {
						if !seen[s.Name] && bytes.Contains(v, s.Val) {
							seen[s.Name] = true
							cc.Visible = append(cc.Visible, s.Name)
							hits = append(hits, hit{s.Name, c.Name, -1, n})
						}
					}
				}
				out.put(cc)
			}
		}
	}
	if !selfTest {
		t.Fatalf("key-less decoder self-test did not run")
	}
	if hits == nil {
		hits = []hit{}
	}
	first := ""
	if len(hits) > 0 {
		first = fmt.Sprintf("%s visible in cookie %s", hits[0].Secret, hits[0].Cookie)
	}
	vfWriteJSON(t, "params.json", map[string]interface{}{
		"cookie_encrypted":   len(hits) == 0,
		"visible":            hits[:vfMinInt(len(hits), 20)],
		"visible_total":      len(hits),
		"first_visible":      first,
		"cookies_inspected":  cookies,
		"sweep_saved":        sweepSaved,
		"sweep_refused":      sweepRefused,
		"keys":               nkeys,
		"token_sizes":        sizes,
		"decoder_selftest":   selfTest,
		"codec_block_cipher": hasBlock,
		"codec_info_ok":      infoOK,
		"decoder":            strings.Join([]string{"base64url", "split |", "base64url", "base64 runs", "gunzip"}, " -> "),
	})
}

func vfMinInt(a, b int) int {
	if a < b {
		return a
	}
	return b
}
