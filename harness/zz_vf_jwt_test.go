//go:build verif

package traefikoidc

// Correspondence harness for ID-token verification (property C02).
//
// Every structured token is produced from a DESCRIPTION (vfJwtDesc); the model
// record (vfJwtRec) is derived from that description, never by parsing the
// token with the code under test.  The token is signed with Go's standard
// library directly.  An independent strict reference verifier (vfJwtRefVerify)
// cross-checks the symbolic description of the signature.  The observations
// are accept/reject of parseJWT+VerifyJWTSignatureAndClaims and of VerifyToken
// on fresh instances, under recover().

import (
	"crypto"
	"crypto/ecdsa"
	"crypto/elliptic"
	"crypto/hmac"
	"crypto/rand"
	"crypto/rsa"
	"crypto/sha256"
	"crypto/sha512"
	"crypto/x509"
	"encoding/base64"
	"encoding/json"
	"encoding/pem"
	"fmt"
	"hash"
	"hash/fnv"
	"math/big"
	"encoding/asn1"
	"os"
	"path/filepath"
	"strconv"
	"strings"
	"testing"
	"time"
)

// ---------------------------------------------------------------- interning

// strings that are only compared become numbers: a stable hash, so that the
// same string has the same number in every run (key sets are printed once per run)
var vfJwtInternTab = map[uint32]string{}

func vfJwtIntern(class, s string) int {
	h := fnv.New32a()
	h.Write([]byte(class + ":" + s))
	v := h.Sum32()%2000000000 + 1
	if prev, ok := vfJwtInternTab[v]; ok && prev != class+":"+s {
		panic(fmt.Sprintf("vfJwtIntern: collision between %q and %q", prev, class+":"+s))
	}
	vfJwtInternTab[v] = class + ":" + s
	return int(v)
}

// ---------------------------------------------------------------- keys

type vfJwtKey struct {
	Kid   string
	Mat   int    // identity of the key material (unique per private key), >0
	Kty   string // RSA | EC | other
	Bits  int
	PemOK bool // by construction: well-formed RSA / P-256/384/521 entry
	rsa   *rsa.PrivateKey
	ec    *ecdsa.PrivateKey
	jwk   JWK
}

type vfJwtKeySet struct {
	Keys []*vfJwtKey
	set  *JWKSet
}

type vfJwtConfig struct{ Issuer, Client string }

var vfJwtConfigs = []vfJwtConfig{
	{"https://issuer.example.com", "client-1"},
	{"https://issuer.example.com/realms/main", "c"},
}

func vfJwtB64(b []byte) string { return base64.RawURLEncoding.EncodeToString(b) }

func vfJwtLoadOrGenRSA(bits, idx int) *rsa.PrivateKey {
	dir := os.Getenv("VERIF_KEYCACHE")
	var p string
	if dir != "" {
		p = filepath.Join(dir, fmt.Sprintf("rsa_%d_%d.der", bits, idx))
		if b, err := os.ReadFile(p); err == nil {
			if k, err := x509.ParsePKCS1PrivateKey(b); err == nil && k.N.BitLen() == bits {
				return k
			}
		}
	}
	k, err := rsa.GenerateKey(rand.Reader, bits)
	if err != nil {
		panic(err)
	}
	if p != "" && bits > 2048 { // only the slow sizes are kept between runs
		os.MkdirAll(dir, 0o755)
		os.WriteFile(p, x509.MarshalPKCS1PrivateKey(k), 0o600)
	}
	return k
}

func vfJwtGenEC(c elliptic.Curve) *ecdsa.PrivateKey {
	k, err := ecdsa.GenerateKey(c, rand.Reader)
	if err != nil {
		panic(err)
	}
	return k
}

func vfJwtCurveName(c elliptic.Curve) string {
	switch c.Params().BitSize {
	case 256:
		return "P-256"
	case 384:
		return "P-384"
	default:
		return "P-521"
	}
}

func vfJwtRSAEntry(kid string, mat int, k *rsa.PrivateKey) *vfJwtKey {
	return &vfJwtKey{Kid: kid, Mat: mat, Kty: "RSA", Bits: k.N.BitLen(), PemOK: true, rsa: k,
		jwk: JWK{Kty: "RSA", Kid: kid, Use: "sig", N: vfJwtB64(k.N.Bytes()), E: vfJwtB64(big.NewInt(int64(k.E)).Bytes())}}
}

func vfJwtECEntry(kid string, mat int, k *ecdsa.PrivateKey) *vfJwtKey {
	n := (k.Curve.Params().BitSize + 7) / 8
	return &vfJwtKey{Kid: kid, Mat: mat, Kty: "EC", Bits: k.Curve.Params().BitSize, PemOK: true, ec: k,
		jwk: JWK{Kty: "EC", Kid: kid, Use: "sig", Crv: vfJwtCurveName(k.Curve),
			X: vfJwtB64(k.X.FillBytes(make([]byte, n))), Y: vfJwtB64(k.Y.FillBytes(make([]byte, n)))}}
}

func vfJwtFinishSet(keys []*vfJwtKey) *vfJwtKeySet {
	ks := &vfJwtKeySet{Keys: keys, set: &JWKSet{}}
	for _, k := range keys {
		ks.set.Keys = append(ks.set.Keys, k.jwk)
	}
	return ks
}

// vfJwtBuildKeySets: the provider key sets of a run.  Material ids are fixed by
// construction, so the sets print identically in every run of the same tier.
func vfJwtBuildKeySets() []*vfJwtKeySet {
	rsaA := vfJwtLoadOrGenRSA(2048, 0)
	rsaB := vfJwtLoadOrGenRSA(2048, 1)
	ecA := vfJwtGenEC(elliptic.P256())
	ecB := vfJwtGenEC(elliptic.P256())
	ecC := vfJwtGenEC(elliptic.P384())
	ecD := vfJwtGenEC(elliptic.P521())
	const (
		mRsaA = 1 + iota
		mRsaB
		mEcA
		mEcB
		mEcC
		mEcD
		mBad1
		mOct
		mBad2
		mBad3
		mRsa3072
		mRsa4096
	)
	bad1 := vfJwtECEntry("bad1", mBad1, ecA)
	bad1.jwk.Crv = "P-999"
	bad1.PemOK = false
	bad1.ec = nil
	oct := &vfJwtKey{Kid: "oct1", Mat: mOct, Kty: "other", PemOK: false, jwk: JWK{Kty: "oct", Kid: "oct1"}}
	bad2 := vfJwtRSAEntry("bad2", mBad2, rsaA)
	bad2.jwk.N = "!!!not-base64!!!"
	bad2.PemOK = false
	bad2.rsa = nil
	bad3 := vfJwtECEntry("bad3", mBad3, ecA)
	bad3.jwk.X = vfJwtB64([]byte{1})
	bad3.jwk.Y = vfJwtB64([]byte{1})
	bad3.PemOK = false
	bad3.ec = nil

	set0 := vfJwtFinishSet([]*vfJwtKey{
		vfJwtRSAEntry("r1", mRsaA, rsaA), // 0
		vfJwtRSAEntry("r2", mRsaB, rsaB), // 1
		vfJwtECEntry("e1", mEcA, ecA),    // 2
		vfJwtECEntry("e2", mEcC, ecC),    // 3
		vfJwtECEntry("e3", mEcD, ecD),    // 4
		vfJwtRSAEntry("dup", mRsaB, rsaB), // 5  kid shared by an RSA (first) ...
		vfJwtECEntry("dup", mEcB, ecB),    // 6  ... and an EC key
		vfJwtECEntry("dup2", mEcC, ecC),   // 7  the other way round
		vfJwtRSAEntry("dup2", mRsaA, rsaA), // 8
		bad1, oct, bad2, bad3, // 9 10 11 12
		vfJwtECEntry("", mEcB, ecB), // 13 an entry without kid
	})
	set1 := vfJwtFinishSet([]*vfJwtKey{
		vfJwtECEntry("e3", mEcD, ecD),
		vfJwtECEntry("e1", mEcB, ecB), // same kid as in set 0, other material
		vfJwtECEntry("e2", mEcC, ecC),
		vfJwtRSAEntry("r1", mRsaB, rsaB),
	})
	k2 := []*vfJwtKey{vfJwtRSAEntry("r1", mRsaB, rsaB), vfJwtRSAEntry("r2", mRsaA, rsaA)}
	if vfTier() == "thorough" {
		k2 = append(k2, vfJwtRSAEntry("r3", mRsa3072, vfJwtLoadOrGenRSA(3072, 0)),
			vfJwtRSAEntry("r4", mRsa4096, vfJwtLoadOrGenRSA(4096, 0)))
	}
	// providers that publish exactly ONE key (an RSA one, an EC one): nothing but its kid selects it
	one1 := vfJwtFinishSet([]*vfJwtKey{vfJwtRSAEntry("only-r", mRsaA, rsaA)})
	one2 := vfJwtFinishSet([]*vfJwtKey{vfJwtECEntry("only-e", mEcA, ecA)})
	return []*vfJwtKeySet{set0, set1, vfJwtFinishSet(k2), one1, one2}
}

// first entry of the set carrying this kid (the described selection rule)
func (ks *vfJwtKeySet) first(kid string) *vfJwtKey {
	for _, k := range ks.Keys {
		if k.Kid == kid {
			return k
		}
	}
	return nil
}

func (k *vfJwtKey) canSign() bool { return k.rsa != nil || k.ec != nil }

// ---------------------------------------------------------------- description

type vfJwtDesc struct {
	KS    int        `json:"ks"`
	Cfg   int        `json:"cfg"`
	SK    int        `json:"sk"`              // signing key: position in the key set
	SA    string     `json:"sa"`              // signing scheme: RS256..ES512 | HS256/384/512 (secret: the key's public PEM) | none
	SO    string     `json:"so,omitempty"`    // "" signature over the presented fields' canonical text | "base": over Base's text
	Base  *vfJwtDesc `json:"base,omitempty"`  // the token whose signature is reused (SO = base)
	HA    string     `json:"ha,omitempty"`    // header alg: "" = SA | "s:<text>" | #missing #number #null
	HK    string     `json:"hk,omitempty"`    // header kid: "" = kid of SK | "s:<text>" | #missing #number #null
	HF    string     `json:"hf,omitempty"`    // header form: "" | null array string notjson empty notb64
	HT    string     `json:"ht,omitempty"`    // header text changed after signing: "" | space reorder trailbits
	Iss   string     `json:"iss,omitempty"`   // "" = configured issuer | "s:<text>" | #missing #number #null #array
	Aud   string     `json:"aud,omitempty"`   // "" = client id | "s:<text>" | arr-has arr-mixed arr-not arr-nonstr arr-empty | #number #object #missing #null #bool
	Exp   string     `json:"exp,omitempty"`   // "" = o:300 | o:<secs from now> | f:<secs from now>(+.5) | lit:<json number> | #string #missing #null #bool
	Iat   string     `json:"iat,omitempty"`   // "" = o:-5
	Nbf   string     `json:"nbf,omitempty"`   // "" = #missing
	Sub   string     `json:"sub,omitempty"`   // "" = "user-1" | s:admin | empty | #number #missing #null #array
	Jti   string     `json:"jti,omitempty"`   // "" absent | str (unique per presentation) | #number
	Extra string     `json:"extra,omitempty"` // additional claim: deep5000 deep20000 big1mb
	PF    string     `json:"pf,omitempty"`    // payload form: "" | null array number notjson empty notb64
	PT    string     `json:"pt,omitempty"`    // payload text changed after signing
	Parts string     `json:"parts,omitempty"` // "" = 3 | 1 2 4 5
	SF    string     `json:"sf,omitempty"`    // signature value: "" canonical | padded padded2 stripped odd flip-first flip-mid flip-last empty random zero
	SB    string     `json:"sb,omitempty"`    // signature text: "" | trailbits notb64 pad=
}

func (d *vfJwtDesc) clone() *vfJwtDesc {
	c := *d
	if d.Base != nil {
		c.Base = d.Base.clone()
	}
	return &c
}

// model record (JSON form; bin/props/c02.py prints it as a Gallina term)
type vfJwtRec struct {
	P3    bool          `json:"p3"`
	H     bool          `json:"h"`
	C     bool          `json:"c"`
	SB    bool          `json:"sb"`
	Alg   []interface{} `json:"alg"` // null | ["std","RS",256] | ["none"] | ["hs",256] | ["other",id]
	Kid   *int          `json:"kid"`
	SMat  int           `json:"smat"`
	SAlg  []interface{} `json:"salg"`
	SIn   bool          `json:"sin"`
	SForm string        `json:"sform"` // canon padded stripped odd garbage empty
	Iss   *int          `json:"iss"`
	Aud   []interface{} `json:"aud"` // ["absent"] ["other"] ["str",id] ["arr",[id|null...]]
	Exp   []interface{} `json:"exp"` // ["absent"] ["other"] ["num","<decimal>"]
	Iat   []interface{} `json:"iat"`
	Nbf   []interface{} `json:"nbf"`
	Jti   *int          `json:"jti"`
	Sub   string        `json:"sub"` // absent other empty str
}

var vfJwtStdAlgs = []string{"RS256", "RS384", "RS512", "PS256", "PS384", "PS512", "ES256", "ES384", "ES512"}

func vfJwtClassifyAlg(s string) []interface{} {
	for _, a := range vfJwtStdAlgs {
		if s == a {
			n, _ := strconv.Atoi(s[2:])
			return []interface{}{"std", s[:2], n}
		}
	}
	switch s {
	case "none":
		return []interface{}{"none"}
	case "HS256", "HS384", "HS512":
		n, _ := strconv.Atoi(s[2:])
		return []interface{}{"hs", n}
	}
	return []interface{}{"other", vfJwtIntern("alg", s)}
}

func vfJwtHash(alg string) (crypto.Hash, func() hash.Hash) {
	switch alg[2:] {
	case "256":
		return crypto.SHA256, sha256.New
	case "384":
		return crypto.SHA384, sha512.New384
	default:
		return crypto.SHA512, sha512.New
	}
}

func vfJwtPublicPEM(k *vfJwtKey) []byte {
	var pub interface{}
	if k.rsa != nil {
		pub = &k.rsa.PublicKey
	} else {
		pub = &k.ec.PublicKey
	}
	b, err := x509.MarshalPKIXPublicKey(pub)
	if err != nil {
		panic(err)
	}
	return pem.EncodeToMemory(&pem.Block{Type: "PUBLIC KEY", Bytes: b})
}

func vfJwtJSONStr(s string) string {
	b, _ := json.Marshal(s)
	return string(b)
}

type vfJwtField struct{ k, v string } // key, JSON value text

func vfJwtObject(fs []vfJwtField, variant string) string {
	if variant == "reorder" && len(fs) > 1 {
		r := make([]vfJwtField, len(fs))
		for i := range fs {
			r[len(fs)-1-i] = fs[i]
		}
		fs = r
	}
	var b strings.Builder
	b.WriteString("{")
	if variant == "space" {
		b.WriteString(" ")
	}
	for i, f := range fs {
		if i > 0 {
			b.WriteString(",")
		}
		b.WriteString(vfJwtJSONStr(f.k))
		b.WriteString(":")
		b.WriteString(f.v)
	}
	b.WriteString("}")
	return b.String()
}

// vfJwtTrailBits: another base64url text for the same bytes (non-zero trailing bits);
// ok=false when the length leaves no trailing bits
func vfJwtTrailBits(raw []byte) (string, bool) {
	s := vfJwtB64(raw)
	if len(raw)%3 == 0 || len(s) == 0 {
		return s, false
	}
	const alpha = "ABCDEFGHIJKLMNOPQRSTUVWXYZabcdefghijklmnopqrstuvwxyz0123456789-_"
	i := strings.IndexByte(alpha, s[len(s)-1])
	return s[:len(s)-1] + string(alpha[i+1]), true // low bit of the last sextet is a trailing bit in both cases
}

type vfJwtNum struct {
	shape string // absent other num
	text  string // JSON value text when present
	secs  string // decimal integer part when num
}

// a numeric claim from its description; nowSec is the instant of minting (whole seconds)
func vfJwtNumClaim(mode, def string, nowSec int64) vfJwtNum {
	if mode == "" {
		mode = def
	}
	switch {
	case mode == "#missing":
		return vfJwtNum{shape: "absent"}
	case mode == "#string":
		return vfJwtNum{shape: "other", text: vfJwtJSONStr(strconv.FormatInt(nowSec+300, 10))}
	case mode == "#null":
		return vfJwtNum{shape: "other", text: "null"}
	case mode == "#bool":
		return vfJwtNum{shape: "other", text: "true"}
	case strings.HasPrefix(mode, "o:"):
		off, _ := strconv.ParseInt(mode[2:], 10, 64)
		v := strconv.FormatInt(nowSec+off, 10)
		return vfJwtNum{shape: "num", text: v, secs: v}
	case strings.HasPrefix(mode, "f:"):
		off, _ := strconv.ParseInt(mode[2:], 10, 64)
		return vfJwtNumLit(strconv.FormatInt(nowSec+off, 10) + ".5")
	case strings.HasPrefix(mode, "lit:"):
		return vfJwtNumLit(mode[4:])
	}
	panic("vfJwtNumClaim: bad mode " + mode)
}

// the integer part (truncation toward zero) of the float64 a JSON number literal denotes
func vfJwtNumLit(lit string) vfJwtNum {
	f, err := strconv.ParseFloat(lit, 64)
	if err != nil {
		panic("vfJwtNumLit: " + lit)
	}
	i, _ := new(big.Float).SetFloat64(f).Int(nil)
	return vfJwtNum{shape: "num", text: lit, secs: i.String()}
}

func (n vfJwtNum) rec() []interface{} {
	switch n.shape {
	case "absent":
		return []interface{}{"absent"}
	case "other":
		return []interface{}{"other"}
	}
	return []interface{}{"num", n.secs}
}

type vfJwtBuilt struct {
	Token  string
	Rec    *vfJwtRec
	RefKid *string // kid and alg as described in a well-formed header (for the reference verifier)
	RefAlg string
}

// header and payload JSON texts of a description (variant "" = canonical text)
func vfJwtTexts(d *vfJwtDesc, ks *vfJwtKeySet, nowSec int64, jti string, hv, pv string, rec *vfJwtRec, b *vfJwtBuilt) (string, string) {
	cfg := vfJwtConfigs[d.Cfg]
	sk := ks.Keys[d.SK]
	// ---- header
	var hf []vfJwtField
	switch {
	case d.HA == "":
		hf = append(hf, vfJwtField{"alg", vfJwtJSONStr(d.SA)})
		if rec != nil {
			rec.Alg = vfJwtClassifyAlg(d.SA)
			b.RefAlg = d.SA
		}
	case strings.HasPrefix(d.HA, "s:"):
		hf = append(hf, vfJwtField{"alg", vfJwtJSONStr(d.HA[2:])})
		if rec != nil {
			rec.Alg = vfJwtClassifyAlg(d.HA[2:])
			b.RefAlg = d.HA[2:]
		}
	case d.HA == "#number":
		hf = append(hf, vfJwtField{"alg", "256"})
	case d.HA == "#null":
		hf = append(hf, vfJwtField{"alg", "null"})
	case d.HA == "#missing":
	default:
		panic("bad ha " + d.HA)
	}
	setKid := func(s string) {
		hf = append(hf, vfJwtField{"kid", vfJwtJSONStr(s)})
		if rec != nil {
			id := vfJwtIntern("kid", s)
			rec.Kid = &id
			b.RefKid = &s
		}
	}
	switch {
	case d.HK == "":
		setKid(sk.Kid)
	case strings.HasPrefix(d.HK, "s:"):
		setKid(d.HK[2:])
	case d.HK == "#number":
		hf = append(hf, vfJwtField{"kid", "7"})
	case d.HK == "#null":
		hf = append(hf, vfJwtField{"kid", "null"})
	case d.HK == "#missing":
	default:
		panic("bad hk " + d.HK)
	}
	hf = append(hf, vfJwtField{"typ", `"JWT"`})
	header := vfJwtObject(hf, hv)

	// ---- payload
	var pf []vfJwtField
	switch {
	case d.Iss == "":
		pf = append(pf, vfJwtField{"iss", vfJwtJSONStr(cfg.Issuer)})
		if rec != nil {
			id := vfJwtIntern("iss", cfg.Issuer)
			rec.Iss = &id
		}
	case strings.HasPrefix(d.Iss, "s:"):
		pf = append(pf, vfJwtField{"iss", vfJwtJSONStr(d.Iss[2:])})
		if rec != nil {
			id := vfJwtIntern("iss", d.Iss[2:])
			rec.Iss = &id
		}
	case d.Iss == "#number":
		pf = append(pf, vfJwtField{"iss", "1"})
	case d.Iss == "#null":
		pf = append(pf, vfJwtField{"iss", "null"})
	case d.Iss == "#array":
		pf = append(pf, vfJwtField{"iss", "[" + vfJwtJSONStr(cfg.Issuer) + "]"})
	case d.Iss == "#missing":
	default:
		panic("bad iss " + d.Iss)
	}
	cid := vfJwtIntern("aud", cfg.Client)
	aud := []interface{}{"absent"}
	switch {
	case d.Aud == "":
		pf = append(pf, vfJwtField{"aud", vfJwtJSONStr(cfg.Client)})
		aud = []interface{}{"str", cid}
	case strings.HasPrefix(d.Aud, "s:"):
		pf = append(pf, vfJwtField{"aud", vfJwtJSONStr(d.Aud[2:])})
		aud = []interface{}{"str", vfJwtIntern("aud", d.Aud[2:])}
	case d.Aud == "arr-has":
		pf = append(pf, vfJwtField{"aud", `["other-client",` + vfJwtJSONStr(cfg.Client) + `]`})
		aud = []interface{}{"arr", []interface{}{vfJwtIntern("aud", "other-client"), cid}}
	case d.Aud == "arr-mixed":
		pf = append(pf, vfJwtField{"aud", `[1,null,` + vfJwtJSONStr(cfg.Client) + `,{"a":1}]`})
		aud = []interface{}{"arr", []interface{}{nil, nil, cid, nil}}
	case d.Aud == "arr-not":
		pf = append(pf, vfJwtField{"aud", `["other-client",` + vfJwtJSONStr(cfg.Client+"x") + `]`})
		aud = []interface{}{"arr", []interface{}{vfJwtIntern("aud", "other-client"), vfJwtIntern("aud", cfg.Client+"x")}}
	case d.Aud == "arr-nonstr":
		pf = append(pf, vfJwtField{"aud", `[1,true,[` + vfJwtJSONStr(cfg.Client) + `],{"aud":` + vfJwtJSONStr(cfg.Client) + `}]`})
		aud = []interface{}{"arr", []interface{}{nil, nil, nil, nil}}
	case d.Aud == "arr-empty":
		pf = append(pf, vfJwtField{"aud", `[]`})
		aud = []interface{}{"arr", []interface{}{}}
	case d.Aud == "#number":
		pf = append(pf, vfJwtField{"aud", "42"})
		aud = []interface{}{"other"}
	case d.Aud == "#object":
		pf = append(pf, vfJwtField{"aud", `{"client":` + vfJwtJSONStr(cfg.Client) + `}`})
		aud = []interface{}{"other"}
	case d.Aud == "#null":
		pf = append(pf, vfJwtField{"aud", "null"})
		aud = []interface{}{"other"}
	case d.Aud == "#bool":
		pf = append(pf, vfJwtField{"aud", "true"})
		aud = []interface{}{"other"}
	case d.Aud == "#missing":
	default:
		panic("bad aud " + d.Aud)
	}
	exp := vfJwtNumClaim(d.Exp, "o:300", nowSec)
	iat := vfJwtNumClaim(d.Iat, "o:-5", nowSec)
	nbf := vfJwtNumClaim(d.Nbf, "#missing", nowSec)
	if exp.shape != "absent" {
		pf = append(pf, vfJwtField{"exp", exp.text})
	}
	if iat.shape != "absent" {
		pf = append(pf, vfJwtField{"iat", iat.text})
	}
	if nbf.shape != "absent" {
		pf = append(pf, vfJwtField{"nbf", nbf.text})
	}
	sub := "absent"
	switch d.Sub {
	case "s:admin":
		pf = append(pf, vfJwtField{"sub", `"admin"`})
		sub = "str"
	case "":
		pf = append(pf, vfJwtField{"sub", `"user-1"`})
		sub = "str"
	case "empty":
		pf = append(pf, vfJwtField{"sub", `""`})
		sub = "empty"
	case "#number":
		pf = append(pf, vfJwtField{"sub", "12345"})
		sub = "other"
	case "#null":
		pf = append(pf, vfJwtField{"sub", "null"})
		sub = "other"
	case "#array":
		pf = append(pf, vfJwtField{"sub", `["user-1"]`})
		sub = "other"
	case "#missing":
	default:
		panic("bad sub " + d.Sub)
	}
	var jtiRec *int
	switch d.Jti {
	case "":
	case "str":
		pf = append(pf, vfJwtField{"jti", vfJwtJSONStr(jti)})
		id := vfJwtIntern("jti", "present") // only its presence matters on first presentation
		jtiRec = &id
	case "#number":
		pf = append(pf, vfJwtField{"jti", "99"})
	default:
		panic("bad jti " + d.Jti)
	}
	switch d.Extra {
	case "":
	case "deep5000":
		pf = append(pf, vfJwtField{"x", strings.Repeat("[", 5000) + strings.Repeat("]", 5000)})
	case "deep20000":
		pf = append(pf, vfJwtField{"x", strings.Repeat("[", 20000) + strings.Repeat("]", 20000)})
	case "big1mb":
		pf = append(pf, vfJwtField{"x", `"` + strings.Repeat("a", 1<<20) + `"`})
	case "azp-client": // other claims naming the client: none of them stands in for aud
		pf = append(pf, vfJwtField{"azp", vfJwtJSONStr(vfJwtConfigs[d.Cfg].Client)}, vfJwtField{"client_id", vfJwtJSONStr(vfJwtConfigs[d.Cfg].Client)},
			vfJwtField{"appid", vfJwtJSONStr(vfJwtConfigs[d.Cfg].Client)})
	default:
		panic("bad extra " + d.Extra)
	}
	payload := vfJwtObject(pf, pv)
	if rec != nil {
		rec.Aud, rec.Exp, rec.Iat, rec.Nbf, rec.Sub, rec.Jti = aud, exp.rec(), iat.rec(), nbf.rec(), sub, jtiRec
	}
	return header, payload
}

// vfJwtPart: the presented base64url part for a JSON text under a form / text variant.
// Returns (part text, decodes-to-a-JSON-object-or-null, fields-visible).
func vfJwtPart(canon, variantText, form, textVariant string) (part string, ok, fields, applicable bool) {
	switch form {
	case "":
	case "null":
		return vfJwtB64([]byte("null")), true, false, true
	case "array":
		return vfJwtB64([]byte(`["RS256"]`)), false, false, true
	case "string":
		return vfJwtB64([]byte(`"RS256"`)), false, false, true
	case "number":
		return vfJwtB64([]byte(`42`)), false, false, true
	case "notjson":
		return vfJwtB64([]byte(canon[:len(canon)-1])), false, false, true
	case "empty":
		return "", false, false, true
	case "notb64":
		return "!!" + vfJwtB64([]byte(canon)), false, false, true
	default:
		panic("bad form " + form)
	}
	switch textVariant {
	case "", "space", "reorder":
		return vfJwtB64([]byte(variantText)), true, true, true
	case "trailbits":
		raw := []byte(canon)
		if len(raw)%3 == 0 {
			raw = append(raw, ' ') // trailing white space keeps the JSON value; it is part of the changed text
		}
		s, ok := vfJwtTrailBits(raw)
		return s, true, true, ok
	}
	panic("bad text variant " + textVariant)
}

// vfJwtSign: signature bytes of the described scheme over input; form per d.SF.
// Returns (bytes, record form, applicable).
func vfJwtSign(d *vfJwtDesc, sk *vfJwtKey, input string) ([]byte, string, bool) {
	if d.SA == "none" {
		return nil, "empty", true
	}
	if strings.HasPrefix(d.SA, "HS") {
		_, hf := vfJwtHash(d.SA)
		m := hmac.New(hf, vfJwtPublicPEM(sk))
		m.Write([]byte(input))
		return vfJwtSigForm(d.SF, m.Sum(nil), false)
	}
	ch, hf := vfJwtHash(d.SA)
	h := hf()
	h.Write([]byte(input))
	digest := h.Sum(nil)
	switch d.SA[:2] {
	case "RS":
		if sk.rsa == nil {
			return nil, "", false
		}
		sig, err := rsa.SignPKCS1v15(rand.Reader, sk.rsa, ch, digest)
		if err != nil {
			panic(err)
		}
		return vfJwtSigForm(d.SF, sig, false)
	case "PS":
		if sk.rsa == nil {
			return nil, "", false
		}
		sig, err := rsa.SignPSS(rand.Reader, sk.rsa, ch, digest, &rsa.PSSOptions{SaltLength: rsa.PSSSaltLengthEqualsHash})
		if err != nil {
			panic(err)
		}
		return vfJwtSigForm(d.SF, sig, false)
	case "ES":
		if sk.ec == nil {
			return nil, "", false
		}
		n := (sk.ec.Curve.Params().BitSize + 7) / 8
		for tries := 0; ; tries++ {
			r, s, err := ecdsa.Sign(rand.Reader, sk.ec, digest)
			if err != nil {
				panic(err)
			}
			rb, sb := r.FillBytes(make([]byte, n)), s.FillBytes(make([]byte, n))
			switch d.SF {
			case "der": // the same (r, s) as an ASN.1 SEQUENCE, as OpenSSL / Java / KMS signers emit it: not the JWS form
				der, err := asn1.Marshal(struct{ R, S *big.Int }{r, s})
				if err != nil {
					panic(err)
				}
				return der, "garbage", true
			case "padded":
				return append(append([]byte{0}, rb...), append([]byte{0}, sb...)...), "padded", true
			case "padded2":
				return append(append([]byte{0, 0}, rb...), append([]byte{0, 0}, sb...)...), "padded", true
			case "stripped":
				if sk.Bits != 521 && !(sk.Bits == 256 && vfTier() == "thorough") {
					return nil, "", false // needs ~65000 signatures on the other curves (P-256: thorough only)
				}
				if rb[0] != 0 || sb[0] != 0 {
					if tries > 400000 {
						return nil, "", false
					}
					continue
				}
				return append(append([]byte{}, rb[1:]...), sb[1:]...), "stripped", true
			}
			return vfJwtSigForm(d.SF, append(rb, sb...), true)
		}
	}
	panic("bad sa " + d.SA)
}

func vfJwtSigForm(sf string, sig []byte, ec bool) ([]byte, string, bool) {
	out := append([]byte{}, sig...)
	switch sf {
	case "":
		return out, "canon", true
	case "padded": // RSA / HMAC: a leading zero byte
		return append([]byte{0}, out...), "padded", true
	case "padded2":
		return append([]byte{0, 0}, out...), "padded", true
	case "stripped", "der":
		return nil, "", false
	case "odd":
		if ec {
			return append([]byte{0}, out...), "odd", true
		}
		return append(out, 0), "odd", true
	case "flip-first":
		out[0] ^= 1
		return out, "garbage", true
	case "flip-mid":
		out[len(out)/2] ^= 0x10
		return out, "garbage", true
	case "flip-last":
		out[len(out)-1] ^= 0x80
		return out, "garbage", true
	case "empty":
		return nil, "empty", true
	case "random":
		rand.Read(out)
		return out, "garbage", true
	case "zero":
		for i := range out {
			out[i] = 0
		}
		return out, "garbage", true
	}
	panic("bad sf " + sf)
}

// vfJwtBuild mints the token of a description and derives the model record.
// ok=false: the description does not apply (e.g. no trailing bits at this length).
func vfJwtBuild(d *vfJwtDesc, sets []*vfJwtKeySet, nowSec int64, jti string) (*vfJwtBuilt, bool) {
	ks := sets[d.KS]
	if d.SK < 0 || d.SK >= len(ks.Keys) || !ks.Keys[d.SK].canSign() {
		return nil, false
	}
	sk := ks.Keys[d.SK]
	b := &vfJwtBuilt{}
	rec := &vfJwtRec{}
	b.Rec = rec
	canonH, canonP := vfJwtTexts(d, ks, nowSec, jti, "", "", rec, b)
	varH, varP := canonH, canonP
	if d.HT == "space" || d.HT == "reorder" {
		varH, _ = vfJwtTexts(d, ks, nowSec, jti, d.HT, "", nil, nil)
	}
	if d.PT == "space" || d.PT == "reorder" {
		_, varP = vfJwtTexts(d, ks, nowSec, jti, "", d.PT, nil, nil)
	}
	hPart, hOK, hFields, a1 := vfJwtPart(canonH, varH, d.HF, d.HT)
	pPart, pOK, pFields, a2 := vfJwtPart(canonP, varP, d.PF, d.PT)
	if !a1 || !a2 {
		return nil, false
	}
	if d.Extra == "deep20000" && pFields {
		// encoding/json refuses values nested deeper than 10000 levels: for this verifier the
		// payload is not a JSON document it can read (reported as an observation, not a violation)
		pOK, pFields = false, false
	}
	rec.H, rec.C = hOK, pOK
	if !hFields {
		rec.Alg, rec.Kid, b.RefKid, b.RefAlg = nil, nil, nil, ""
	}
	if !pFields {
		rec.Iss, rec.Jti, rec.Sub = nil, nil, "absent"
		rec.Aud, rec.Exp, rec.Iat, rec.Nbf = []interface{}{"absent"}, []interface{}{"absent"}, []interface{}{"absent"}, []interface{}{"absent"}
	}
	presented := hPart + "." + pPart
	// what the signature is made over
	signed := ""
	if d.SO == "base" {
		if d.Base == nil {
			return nil, false
		}
		bh, bp := vfJwtTexts(d.Base, ks, nowSec, jti, "", "", nil, nil)
		signed = vfJwtB64([]byte(bh)) + "." + vfJwtB64([]byte(bp))
	} else {
		// the canonical text of the presented fields, in the presented form
		ch, _, _, _ := vfJwtPart(canonH, canonH, d.HF, "")
		cp, _, _, _ := vfJwtPart(canonP, canonP, d.PF, "")
		signed = ch + "." + cp
	}
	sig, form, ok := vfJwtSign(d, sk, signed)
	if !ok {
		return nil, false
	}
	rec.SMat, rec.SAlg, rec.SIn, rec.SForm = sk.Mat, vfJwtClassifyAlg(d.SA), signed == presented, form
	if d.SF == "random" || d.SF == "zero" || d.SA == "none" {
		rec.SMat = 0
	}
	sPart := vfJwtB64(sig)
	rec.SB = true
	switch d.SB {
	case "":
	case "trailbits":
		s, ok := vfJwtTrailBits(sig)
		if !ok {
			return nil, false
		}
		sPart = s
	case "notb64":
		if len(sPart) < 4 {
			return nil, false
		}
		sPart = sPart[:3] + "*" + sPart[4:]
		rec.SB = false
	case "pad=":
		sPart = base64.URLEncoding.EncodeToString(sig)
		if !strings.HasSuffix(sPart, "=") {
			return nil, false
		}
		rec.SB = false
	default:
		panic("bad sb " + d.SB)
	}
	rec.P3 = true
	switch d.Parts {
	case "":
		b.Token = presented + "." + sPart
	case "1":
		b.Token, rec.P3, rec.SB = hPart, false, false
	case "2":
		b.Token, rec.P3, rec.SB = presented, false, false
	case "4":
		b.Token, rec.P3 = presented+"."+sPart+".AAAA", false
	case "5":
		b.Token, rec.P3 = presented+"."+sPart+".."+sPart, false
	default:
		panic("bad parts " + d.Parts)
	}
	return b, true
}

// ---------------------------------------------------------------- reference verifier

func vfJwtStrictB64(s string) bool {
	for i := 0; i < len(s); i++ {
		c := s[i]
		if !(c >= 'A' && c <= 'Z' || c >= 'a' && c <= 'z' || c >= '0' && c <= '9' || c == '-' || c == '_') {
			return false
		}
	}
	return len(s)%4 != 1
}

// vfJwtRefVerify: independent strict verdict on the signature of a compact JWS.
// Go standard library only; the key is the first of the set carrying the
// described kid; exact family; exact hash; RSA: PKCS#1 v1.5 / PSS with salt
// length = hash length; ECDSA: r||s of exactly 2*ceil(bits/8) bytes; the signing
// input is the exact text before the second dot.  (A base64url text with
// non-zero trailing bits denotes the same bytes and is not rejected: the
// property speaks of the decoded signature value.)
func vfJwtRefVerify(token string, ks *vfJwtKeySet, kid *string, alg string) bool {
	parts := strings.Split(token, ".")
	if len(parts) != 3 || kid == nil {
		return false
	}
	if !vfJwtStrictB64(parts[2]) {
		return false
	}
	sig, err := base64.RawURLEncoding.DecodeString(parts[2])
	if err != nil {
		return false
	}
	std := false
	for _, a := range vfJwtStdAlgs {
		std = std || a == alg
	}
	if !std {
		return false
	}
	k := ks.first(*kid)
	if k == nil || !k.PemOK {
		return false
	}
	ch, hf := vfJwtHash(alg)
	h := hf()
	h.Write([]byte(parts[0] + "." + parts[1]))
	digest := h.Sum(nil)
	switch alg[:2] {
	case "RS":
		return k.rsa != nil && rsa.VerifyPKCS1v15(&k.rsa.PublicKey, ch, digest, sig) == nil
	case "PS":
		return k.rsa != nil && rsa.VerifyPSS(&k.rsa.PublicKey, ch, digest, sig, &rsa.PSSOptions{SaltLength: rsa.PSSSaltLengthEqualsHash}) == nil
	case "ES":
		if k.ec == nil {
			return false
		}
		n := (k.ec.Curve.Params().BitSize + 7) / 8
		if len(sig) != 2*n {
			return false
		}
		return ecdsa.Verify(&k.ec.PublicKey, digest, new(big.Int).SetBytes(sig[:n]), new(big.Int).SetBytes(sig[n:]))
	}
	return false
}

// ---------------------------------------------------------------- running a case

type vfJwtObs struct {
	Now      int64     `json:"now"` // ns, read just before the ladder was called
	VJ       bool      `json:"vj"`
	VT       bool      `json:"vt"`
	Panic    bool      `json:"panic"`
	PanicMsg string    `json:"panic_msg,omitempty"`
	Ref      bool      `json:"ref"`
	Token    string    `json:"token"` // as presented to the ladder (first 2000 bytes)
	TokenLen int       `json:"token_len"`
	Rec      *vfJwtRec `json:"rec,omitempty"`
}

type vfJwtCase struct {
	ID    int        `json:"id"`
	Kind  string     `json:"kind"`
	Base  *vfJwtDesc `json:"base,omitempty"`  // generation recipe: Base with Devs applied (PRNG DSeed) gives Desc
	Devs  []string   `json:"devs,omitempty"`
	DSeed uint64     `json:"dseed,omitempty"`
	Desc  *vfJwtDesc `json:"desc,omitempty"`
	Raw   string     `json:"raw,omitempty"` // raw case: the bytes presented (standard base64)
	RKS   int        `json:"rks,omitempty"`
	RCfg  int        `json:"rcfg,omitempty"`
	RKid  string     `json:"rkid,omitempty"`
	RAlg  string     `json:"ralg,omitempty"`
	Mut   string     `json:"mut,omitempty"`
	// Prime = p+1: before the case's token is presented, the instance has served under key set p
	// (one valid token per usable key of that set was verified on it: an earlier key generation of the
	// provider); then the provider's key set is replaced by the case's.  The verdict must depend on
	// the CURRENT key set only.  0 = a fresh instance that has seen nothing.
	Prime int `json:"prime,omitempty"`
	Obs   *vfJwtObs  `json:"obs,omitempty"`
}

var vfJwtSerial int

func vfJwtProtect(f func() bool) (res bool, panicked bool, msg string) {
	defer func() {
		if r := recover(); r != nil {
			res, panicked, msg = false, true, fmt.Sprint(r)
		}
	}()
	return f(), false, ""
}

// the key-set history of the instance a case runs on (set by vfJwtRunCase): 0 none, p+1 = it served under set p before
var vfJwtPrime int
var vfJwtPrimeSets []*vfJwtKeySet
var vfJwtPrimeToks = map[string][]string{}

// vfJwtPrimeTokens: one valid long-lived token per usable, self-selected key of key set p for a configuration (built once)
func vfJwtPrimeTokens(p, cfgIdx int) []string {
	key := fmt.Sprintf("%d/%d", p, cfgIdx)
	if t, ok := vfJwtPrimeToks[key]; ok {
		return t
	}
	var toks []string
	ks := vfJwtPrimeSets[p]
	for _, rsaKeys := range []bool{true, false} {
		for _, sk := range vfJwtSigners(ks, rsaKeys) {
			alg := "RS256"
			if !rsaKeys {
				switch ks.Keys[sk].Bits {
				case 384:
					alg = "ES384"
				case 521:
					alg = "ES512"
				default:
					alg = "ES256"
				}
			}
			d := &vfJwtDesc{KS: p, Cfg: cfgIdx, SK: sk, SA: alg, Exp: "o:7000"}
			if b, ok := vfJwtBuild(d, vfJwtPrimeSets, time.Now().Unix(), ""); ok {
				toks = append(toks, b.Token)
			}
		}
	}
	vfJwtPrimeToks[key] = toks
	return toks
}

// observe presents tokA to the ladder and tokB to VerifyToken, each on an instance of its own (fresh, or primed: see vfJwtPrime)
func vfJwtObserve(cfg vfJwtConfig, ks *vfJwtKeySet, tokA, tokB string) *vfJwtObs {
	o := &vfJwtObs{}
	first := ks.set
	var prime []string
	if vfJwtPrime > 0 && vfJwtPrime-1 < len(vfJwtPrimeSets) {
		ci := 0
		for i, c := range vfJwtConfigs {
			if c == cfg {
				ci = i
			}
		}
		prime = vfJwtPrimeTokens(vfJwtPrime-1, ci)
		first = vfJwtPrimeSets[vfJwtPrime-1].set
	}
	i1 := vfJwtNewInstance(cfg.Issuer, cfg.Client, first)
	i2 := vfJwtNewInstance(cfg.Issuer, cfg.Client, first)
	defer vfJwtCloseInstance(i1)
	defer vfJwtCloseInstance(i2)
	for _, pt := range prime {
		vfJwtProtect(func() bool { return vfJwtLadder(i1, pt) })
		vfJwtProtect(func() bool { return vfJwtVerifyToken(i2, pt) })
	}
	if prime != nil { // the provider rotates its keys: from now on the case's key set is what it serves
		vfJwtSetKeys(i1, ks.set)
		vfJwtSetKeys(i2, ks.set)
	}
	// unrelated traffic just before: tokens with a complete claim set that are refused while being taken apart (signature text
	// not base64, payload not JSON, a part missing) -- whatever the code keeps from them must not reach the next token
	nowS := time.Now().Unix()
	noiseClaims := fmt.Sprintf(`{"iss":%q,"aud":%q,"sub":"noise-user","email":"noise@example.com","exp":%d,"iat":%d,"nbf":%d,"jti":"noise-%d","nonce":"noise"}`,
		cfg.Issuer, cfg.Client, nowS+3600, nowS-10, nowS-10, time.Now().UnixNano())
	noiseHdr := vfB64j([]byte(`{"alg":"RS256","typ":"JWT","kid":"noise-kid"}`))
	for _, nt := range []string{noiseHdr + "." + vfB64j([]byte(noiseClaims)) + ".!!not-base64!!", noiseHdr + "." + vfB64j([]byte(noiseClaims)),
		noiseHdr + "." + vfB64j([]byte(noiseClaims[:len(noiseClaims)-1])) + ".c2ln"} {
		nt := nt
		vfJwtProtect(func() bool { return vfJwtLadder(i1, nt) })
		vfJwtProtect(func() bool { return vfJwtVerifyToken(i2, nt) })
	}
	o.Now = time.Now().UnixNano()
	var p1, p2 bool
	var m1, m2 string
	o.VJ, p1, m1 = vfJwtProtect(func() bool { return vfJwtLadder(i1, tokA) })
	o.VT, p2, m2 = vfJwtProtect(func() bool { return vfJwtVerifyToken(i2, tokB) })
	o.Panic = p1 || p2
	o.PanicMsg = m1 + m2
	o.TokenLen = len(tokA)
	o.Token = tokA
	if len(o.Token) > 2000 {
		o.Token = o.Token[:2000]
	}
	return o
}

func vfB64j(b []byte) string { return base64.RawURLEncoding.EncodeToString(b) }

func vfJwtNearBoundary(mode string) bool {
	switch mode {
	case "o:-123", "o:-117", "o:7", "o:13":
		return true
	}
	return false
}

// vfJwtRunDesc mints (twice when a jti is present: the replay map is process-global)
// and observes.  ok=false: the description does not apply.
func vfJwtRunDesc(d *vfJwtDesc, sets []*vfJwtKeySet) (*vfJwtObs, bool) {
	for attempt := 0; ; attempt++ {
		start := time.Now()
		nowSec := start.Unix()
		vfJwtSerial++
		jtiA := fmt.Sprintf("j-%d-%d-a", start.UnixNano(), vfJwtSerial)
		jtiB := fmt.Sprintf("j-%d-%d-b", start.UnixNano(), vfJwtSerial)
		// the search for a signature with two leading zero bytes takes seconds on P-256:
		// such a token cannot be verified within 1 s of minting, so it is not combined
		// with claim times next to a tolerance boundary, and not re-minted
		slow := d.SF == "stripped" && sets[d.KS].Keys[d.SK].Bits != 521
		if slow && (vfJwtNearBoundary(d.Exp) || vfJwtNearBoundary(d.Iat) || vfJwtNearBoundary(d.Nbf)) {
			return nil, false
		}
		a, ok := vfJwtBuild(d, sets, nowSec, jtiA)
		if !ok {
			return nil, false
		}
		b := a
		if d.Jti == "str" || (d.Base != nil && d.Base.Jti == "str") {
			b, ok = vfJwtBuild(d, sets, nowSec, jtiB)
			if !ok {
				return nil, false
			}
		}
		o := vfJwtObserve(vfJwtConfigs[d.Cfg], sets[d.KS], a.Token, b.Token)
		// claim times were chosen >= 3 s from every boundary relative to nowSec; the code
		// reads the clock itself, so everything must have happened within 1 s of nowSec
		// (>= 2 s from every boundary at the moment of verification)
		if time.Since(start)+time.Duration(start.Nanosecond()) > 1000*time.Millisecond && attempt < 5 && !slow {
			continue
		}
		o.Rec = a.Rec
		o.Ref = vfJwtRefVerify(a.Token, sets[d.KS], a.RefKid, a.RefAlg)
		if rb := vfJwtRefVerify(b.Token, sets[d.KS], b.RefKid, b.RefAlg); rb != o.Ref {
			panic("vfJwtRunDesc: reference verifier disagrees between the two mintings of one description")
		}
		return o, true
	}
}

// ---------------------------------------------------------------- deviations

type vfJwtDevCtx struct {
	ks *vfJwtKeySet
	r  *vfRand
}

func (c *vfJwtDevCtx) isRSA(d *vfJwtDesc) bool { return c.ks.Keys[d.SK].rsa != nil }

// another signing-capable entry of the same / the other key type whose kid selects itself
func (c *vfJwtDevCtx) otherEntry(d *vfJwtDesc, sameType bool) int {
	cur := c.ks.Keys[d.SK]
	var cand []int
	for i, k := range c.ks.Keys {
		if !k.canSign() || c.ks.first(k.Kid) != k || k.Mat == cur.Mat {
			continue
		}
		if (k.Kty == cur.Kty) == sameType {
			cand = append(cand, i)
		}
	}
	if len(cand) == 0 {
		return -1
	}
	return cand[c.r.intn(len(cand))]
}

func vfJwtTampered(d *vfJwtDesc) { // keep the signature of the unmodified token
	if d.SO != "base" {
		d.Base = d.clone()
		d.Base.Base = nil
		d.SO = "base"
	}
}

type vfJwtDev struct {
	name string
	f    func(d *vfJwtDesc, c *vfJwtDevCtx) bool
}

func vfJwtSet(field func(d *vfJwtDesc) *string, val string) func(*vfJwtDesc, *vfJwtDevCtx) bool {
	return func(d *vfJwtDesc, c *vfJwtDevCtx) bool { *field(d) = val; return true }
}

func vfJwtFamilySwap(alg string, rsaKey bool) string {
	if rsaKey {
		return "ES" + alg[2:]
	}
	return "RS" + alg[2:]
}

var vfJwtDevs = func() []vfJwtDev {
	ha := func(d *vfJwtDesc) *string { return &d.HA }
	hk := func(d *vfJwtDesc) *string { return &d.HK }
	hf := func(d *vfJwtDesc) *string { return &d.HF }
	ht := func(d *vfJwtDesc) *string { return &d.HT }
	iss := func(d *vfJwtDesc) *string { return &d.Iss }
	aud := func(d *vfJwtDesc) *string { return &d.Aud }
	exp := func(d *vfJwtDesc) *string { return &d.Exp }
	iat := func(d *vfJwtDesc) *string { return &d.Iat }
	nbf := func(d *vfJwtDesc) *string { return &d.Nbf }
	sub := func(d *vfJwtDesc) *string { return &d.Sub }
	jti := func(d *vfJwtDesc) *string { return &d.Jti }
	extra := func(d *vfJwtDesc) *string { return &d.Extra }
	pf := func(d *vfJwtDesc) *string { return &d.PF }
	pt := func(d *vfJwtDesc) *string { return &d.PT }
	parts := func(d *vfJwtDesc) *string { return &d.Parts }
	sf := func(d *vfJwtDesc) *string { return &d.SF }
	sb := func(d *vfJwtDesc) *string { return &d.SB }
	issOf := func(d *vfJwtDesc) string { return vfJwtConfigs[d.Cfg].Issuer }
	cidOf := func(d *vfJwtDesc) string { return vfJwtConfigs[d.Cfg].Client }
	return []vfJwtDev{
		// ---- algorithm
		{"alg-none", func(d *vfJwtDesc, c *vfJwtDevCtx) bool { d.SA, d.HA = "none", ""; return true }},
		{"alg-none-keep-signature", func(d *vfJwtDesc, c *vfJwtDevCtx) bool { vfJwtTampered(d); d.HA = "s:none"; return true }},
		{"alg-none-signed", vfJwtSet(ha, "s:none")}, // header says none, genuinely signed over that header
		{"alg-None-case", func(d *vfJwtDesc, c *vfJwtDevCtx) bool { d.SA, d.HA = "none", "s:None"; return true }},
		{"alg-hs256-public-key-as-secret", func(d *vfJwtDesc, c *vfJwtDevCtx) bool { d.SA, d.HA = "HS256", ""; return true }},
		{"alg-hs384-public-key-as-secret", func(d *vfJwtDesc, c *vfJwtDevCtx) bool { d.SA, d.HA = "HS384", ""; return true }},
		{"alg-hs512-public-key-as-secret", func(d *vfJwtDesc, c *vfJwtDevCtx) bool { d.SA, d.HA = "HS512", ""; return true }},
		{"alg-hs256-header-only", vfJwtSet(ha, "s:HS256")},
		{"alg-unknown", vfJwtSet(ha, "s:XS256")},
		{"alg-lowercase", func(d *vfJwtDesc, c *vfJwtDevCtx) bool { d.HA = "s:" + strings.ToLower(d.SA); return true }},
		{"alg-trailing-space", func(d *vfJwtDesc, c *vfJwtDevCtx) bool { d.HA = "s:" + d.SA + " "; return true }},
		{"alg-empty", vfJwtSet(ha, "s:")},
		{"alg-missing", vfJwtSet(ha, "#missing")},
		{"alg-number", vfJwtSet(ha, "#number")},
		{"alg-null", vfJwtSet(ha, "#null")},
		{"alg-other-family", func(d *vfJwtDesc, c *vfJwtDevCtx) bool {
			if len(d.SA) != 5 {
				return false
			}
			d.HA = "s:" + vfJwtFamilySwap(d.SA, c.isRSA(d))
			return true
		}},
		{"alg-rs-ps-swap", func(d *vfJwtDesc, c *vfJwtDevCtx) bool {
			switch {
			case strings.HasPrefix(d.SA, "RS"):
				d.HA = "s:PS" + d.SA[2:]
			case strings.HasPrefix(d.SA, "PS"):
				d.HA = "s:RS" + d.SA[2:]
			default:
				return false
			}
			return true
		}},
		{"alg-hash-swap", func(d *vfJwtDesc, c *vfJwtDevCtx) bool {
			if len(d.SA) != 5 || strings.HasPrefix(d.SA, "HS") {
				return false
			}
			n := map[string]string{"256": "384", "384": "512", "512": "256"}[d.SA[2:]]
			d.HA = "s:" + d.SA[:2] + n
			return true
		}},
		{"alg-changed-after-signing", func(d *vfJwtDesc, c *vfJwtDevCtx) bool {
			if len(d.SA) != 5 || strings.HasPrefix(d.SA, "HS") {
				return false
			}
			vfJwtTampered(d)
			n := map[string]string{"256": "512", "384": "256", "512": "384"}[d.SA[2:]]
			d.HA = "s:" + d.SA[:2] + n
			return true
		}},
		// ---- key selection
		{"kid-missing", vfJwtSet(hk, "#missing")},
		{"kid-unknown", vfJwtSet(hk, "s:no-such-key")},
		{"kid-number", vfJwtSet(hk, "#number")},
		{"kid-null", vfJwtSet(hk, "#null")},
		{"kid-case", func(d *vfJwtDesc, c *vfJwtDevCtx) bool {
			k := c.ks.Keys[d.SK].Kid
			if k == "" || strings.ToUpper(k) == k {
				return false
			}
			d.HK = "s:" + strings.ToUpper(k)
			return true
		}},
		{"kid-of-other-key-same-type", func(d *vfJwtDesc, c *vfJwtDevCtx) bool { // = signature from another key
			i := c.otherEntry(d, true)
			if i < 0 {
				return false
			}
			d.HK = "s:" + c.ks.Keys[i].Kid
			return true
		}},
		{"kid-of-other-key-type", func(d *vfJwtDesc, c *vfJwtDevCtx) bool { // key-type confusion
			i := c.otherEntry(d, false)
			if i < 0 {
				return false
			}
			d.HK = "s:" + c.ks.Keys[i].Kid
			return true
		}},
		{"kid-and-alg-of-other-key-type", func(d *vfJwtDesc, c *vfJwtDevCtx) bool {
			i := c.otherEntry(d, false)
			if i < 0 || len(d.SA) != 5 {
				return false
			}
			d.HK = "s:" + c.ks.Keys[i].Kid
			d.HA = "s:" + vfJwtFamilySwap(d.SA, c.isRSA(d))
			return true
		}},
		{"kid-shared-signed-by-second", func(d *vfJwtDesc, c *vfJwtDevCtx) bool {
			// the kid is carried by two keys; the token is signed by the one listed second
			for i, k := range c.ks.Keys {
				if k.canSign() && c.ks.first(k.Kid) != k && k.Kty == c.ks.Keys[d.SK].Kty {
					d.SK, d.HK = i, ""
					return true
				}
			}
			return false
		}},
		{"kid-unusable-curve", vfJwtSet(hk, "s:bad1")},
		{"kid-oct-key", vfJwtSet(hk, "s:oct1")},
		{"kid-unusable-modulus", vfJwtSet(hk, "s:bad2")},
		{"kid-point-off-curve", vfJwtSet(hk, "s:bad3")},
		// ---- header / payload text changed after signing
		{"header-space-after-signing", vfJwtSet(ht, "space")},
		{"header-reordered-after-signing", vfJwtSet(ht, "reorder")},
		{"header-trailing-bits", vfJwtSet(ht, "trailbits")},
		{"payload-space-after-signing", vfJwtSet(pt, "space")},
		{"payload-reordered-after-signing", vfJwtSet(pt, "reorder")},
		{"payload-trailing-bits", vfJwtSet(pt, "trailbits")},
		{"payload-sub-changed-after-signing", func(d *vfJwtDesc, c *vfJwtDevCtx) bool { // signature of another token
			vfJwtTampered(d)
			d.Sub = "s:admin"
			return true
		}},
		// ---- signature value
		{"sig-flip-first", vfJwtSet(sf, "flip-first")},
		{"sig-flip-middle", vfJwtSet(sf, "flip-mid")},
		{"sig-flip-last", vfJwtSet(sf, "flip-last")},
		{"sig-empty", vfJwtSet(sf, "empty")},
		{"sig-random", vfJwtSet(sf, "random")},
		{"sig-all-zero", vfJwtSet(sf, "zero")},
		{"sig-odd-length", vfJwtSet(sf, "odd")},
		{"sig-zero-padded", vfJwtSet(sf, "padded")},
		{"sig-zero-padded-twice", vfJwtSet(sf, "padded2")},
		{"sig-leading-zeros-stripped", vfJwtSet(sf, "stripped")},
		{"sig-der-encoded", vfJwtSet(sf, "der")},
		{"sig-text-trailing-bits", vfJwtSet(sb, "trailbits")}, // same decoded value: still acceptable
		{"sig-text-not-base64", vfJwtSet(sb, "notb64")},
		{"sig-text-padded", vfJwtSet(sb, "pad=")},
		// ---- iss
		{"iss-prefix", func(d *vfJwtDesc, c *vfJwtDevCtx) bool { s := issOf(d); d.Iss = "s:" + s[:len(s)-1]; return true }},
		{"iss-trailing-slash", func(d *vfJwtDesc, c *vfJwtDevCtx) bool { d.Iss = "s:" + issOf(d) + "/"; return true }},
		{"iss-uppercase", func(d *vfJwtDesc, c *vfJwtDevCtx) bool { d.Iss = "s:" + strings.ToUpper(issOf(d)); return true }},
		{"iss-other", vfJwtSet(iss, "s:https://evil.example.net")},
		{"iss-empty", vfJwtSet(iss, "s:")},
		{"iss-missing", vfJwtSet(iss, "#missing")},
		{"iss-number", vfJwtSet(iss, "#number")},
		{"iss-null", vfJwtSet(iss, "#null")},
		{"iss-array", vfJwtSet(iss, "#array")},
		// ---- aud
		{"aud-other", vfJwtSet(aud, "s:other-client")},
		{"aud-suffix", func(d *vfJwtDesc, c *vfJwtDevCtx) bool { d.Aud = "s:" + cidOf(d) + "x"; return true }},
		{"aud-uppercase", func(d *vfJwtDesc, c *vfJwtDevCtx) bool { d.Aud = "s:" + strings.ToUpper(cidOf(d)); return true }},
		{"aud-array-containing", vfJwtSet(aud, "arr-has")},            // acceptable
		{"aud-array-mixed-containing", vfJwtSet(aud, "arr-mixed")},    // acceptable: contains the client ID
		{"aud-array-not-containing", vfJwtSet(aud, "arr-not")},
		{"aud-array-of-non-strings", vfJwtSet(aud, "arr-nonstr")},
		{"aud-array-empty", vfJwtSet(aud, "arr-empty")},
		{"aud-number", vfJwtSet(aud, "#number")},
		{"aud-object", vfJwtSet(aud, "#object")},
		{"aud-null", vfJwtSet(aud, "#null")},
		{"aud-bool", vfJwtSet(aud, "#bool")},
		{"aud-missing", vfJwtSet(aud, "#missing")},
		// ---- exp (tolerance 120 s)
		{"exp-123s-ago", vfJwtSet(exp, "o:-123")},
		{"exp-117s-ago", vfJwtSet(exp, "o:-117")}, // acceptable
		{"exp-now", vfJwtSet(exp, "o:0")},         // acceptable
		{"exp-fractional", vfJwtSet(exp, "f:300")}, // acceptable
		{"exp-hour-ago", vfJwtSet(exp, "o:-3600")},
		{"exp-string", vfJwtSet(exp, "#string")},
		{"exp-null", vfJwtSet(exp, "#null")},
		{"exp-bool", vfJwtSet(exp, "#bool")},
		{"exp-missing", vfJwtSet(exp, "#missing")},
		{"exp-zero", vfJwtSet(exp, "lit:0")},
		{"exp-negative", vfJwtSet(exp, "lit:-5")},
		{"exp-1e30", vfJwtSet(exp, "lit:1e30")}, // in time
		{"exp-minus-1e30", vfJwtSet(exp, "lit:-1e30")},
		{"exp-1e18", vfJwtSet(exp, "lit:1e18")},                // in time
		{"exp-near-2^63", vfJwtSet(exp, "lit:9223372036854774784")}, // in time
		// ---- iat (tolerance 10 s)
		{"iat-7s-ahead", vfJwtSet(iat, "o:7")}, // acceptable
		{"iat-13s-ahead", vfJwtSet(iat, "o:13")},
		{"iat-hour-ahead", vfJwtSet(iat, "o:3600")},
		{"iat-fractional", vfJwtSet(iat, "f:-60")}, // acceptable
		{"iat-string", vfJwtSet(iat, "#string")},
		{"iat-null", vfJwtSet(iat, "#null")},
		{"iat-missing", vfJwtSet(iat, "#missing")},
		{"iat-negative", vfJwtSet(iat, "lit:-5")}, // acceptable
		{"iat-1e30", vfJwtSet(iat, "lit:1e30")},
		{"iat-minus-1e30", vfJwtSet(iat, "lit:-1e30")}, // acceptable
		{"iat-1e18", vfJwtSet(iat, "lit:1e18")},
		{"iat-near-2^63", vfJwtSet(iat, "lit:9223372036854774784")},
		// ---- nbf (optional; tolerance 10 s)
		{"nbf-past", vfJwtSet(nbf, "o:-60")},   // acceptable
		{"nbf-7s-ahead", vfJwtSet(nbf, "o:7")}, // acceptable
		{"nbf-13s-ahead", vfJwtSet(nbf, "o:13")},
		{"nbf-fractional", vfJwtSet(nbf, "f:-60")}, // acceptable
		{"nbf-string", vfJwtSet(nbf, "#string")},
		{"nbf-null", vfJwtSet(nbf, "#null")},
		{"nbf-bool", vfJwtSet(nbf, "#bool")},
		{"nbf-1e30", vfJwtSet(nbf, "lit:1e30")},
		{"nbf-near-2^63", vfJwtSet(nbf, "lit:9223372036854774784")},
		// ---- sub, jti
		{"sub-empty", vfJwtSet(sub, "empty")},
		{"sub-number", vfJwtSet(sub, "#number")},
		{"sub-null", vfJwtSet(sub, "#null")},
		{"sub-array", vfJwtSet(sub, "#array")},
		{"sub-missing", vfJwtSet(sub, "#missing")},
		{"jti-present", vfJwtSet(jti, "str")},   // acceptable
		{"jti-number", vfJwtSet(jti, "#number")}, // acceptable
		// ---- structure
		{"parts-1", vfJwtSet(parts, "1")},
		{"parts-2", vfJwtSet(parts, "2")},
		{"parts-4", vfJwtSet(parts, "4")},
		{"parts-5", vfJwtSet(parts, "5")},
		{"header-empty", vfJwtSet(hf, "empty")},
		{"header-not-base64", vfJwtSet(hf, "notb64")},
		{"header-not-json", vfJwtSet(hf, "notjson")},
		{"header-null", vfJwtSet(hf, "null")},
		{"header-array", vfJwtSet(hf, "array")},
		{"header-string", vfJwtSet(hf, "string")},
		{"payload-empty", vfJwtSet(pf, "empty")},
		{"payload-not-base64", vfJwtSet(pf, "notb64")},
		{"payload-not-json", vfJwtSet(pf, "notjson")},
		{"payload-null", vfJwtSet(pf, "null")},
		{"payload-array", vfJwtSet(pf, "array")},
		{"payload-number", vfJwtSet(pf, "number")},
		{"claim-nested-5000-deep", vfJwtSet(extra, "deep5000")}, // acceptable
		{"claim-nested-20000-deep", vfJwtSet(extra, "deep20000")},
		{"claim-1mb", vfJwtSet(extra, "big1mb")}, // acceptable
		{"claim-azp-is-client", vfJwtSet(extra, "azp-client")}, // acceptable on its own; combined with a wrong aud (pairs below) it must not help
		{"aud-other-but-azp-is-client", func(d *vfJwtDesc, c *vfJwtDevCtx) bool { d.Aud = "s:inventory-api"; d.Extra = "azp-client"; return true }},
		{"aud-array-not-containing-but-azp-is-client", func(d *vfJwtDesc, c *vfJwtDevCtx) bool { d.Aud = "arr-not"; d.Extra = "azp-client"; return true }},
	}
}()

func vfJwtDevByName(n string) *vfJwtDev {
	for i := range vfJwtDevs {
		if vfJwtDevs[i].name == n {
			return &vfJwtDevs[i]
		}
	}
	return nil
}

// vfJwtApply: the description obtained from base by the named deviations, in order
func vfJwtApply(base *vfJwtDesc, devs []string, dseed uint64, sets []*vfJwtKeySet) (*vfJwtDesc, bool) {
	d := base.clone()
	c := &vfJwtDevCtx{ks: sets[base.KS], r: vfNewRand(dseed)}
	for _, n := range devs {
		dv := vfJwtDevByName(n)
		if dv == nil || !dv.f(d, c) {
			return nil, false
		}
	}
	return d, true
}

// ---------------------------------------------------------------- generators

// entries that can sign and are selected by their own kid, per family
func vfJwtSigners(ks *vfJwtKeySet, rsaKeys bool) []int {
	var out []int
	for i, k := range ks.Keys {
		if k.canSign() && ks.first(k.Kid) == k && (k.rsa != nil) == rsaKeys {
			out = append(out, i)
		}
	}
	return out
}

// a valid token description with some acceptable variety
func vfJwtValidDesc(r *vfRand, ksi, sk int, alg string) *vfJwtDesc {
	d := &vfJwtDesc{KS: ksi, Cfg: r.intn(len(vfJwtConfigs)), SK: sk, SA: alg}
	switch r.intn(4) {
	case 0:
		d.Aud = "arr-has"
	case 1:
		d.Aud = "arr-mixed"
	}
	if r.chance(1, 3) {
		d.Nbf = "o:-30"
	}
	if r.chance(1, 3) {
		d.Jti = "str"
	}
	if r.chance(1, 4) {
		d.Exp = "o:" + strconv.Itoa(3+r.intn(7200))
	}
	if r.chance(1, 4) {
		d.Iat = "o:" + strconv.Itoa(-r.intn(7200))
	}
	return d
}

func vfJwtRunCase(cs *vfJwtCase, sets []*vfJwtKeySet) bool {
	vfJwtPrime, vfJwtPrimeSets = cs.Prime, sets
	defer func() { vfJwtPrime = 0 }()
	if cs.Kind == "raw" {
		raw, err := base64.StdEncoding.DecodeString(cs.Raw)
		if err != nil {
			return false
		}
		tok := string(raw)
		o := vfJwtObserve(vfJwtConfigs[cs.RCfg], sets[cs.RKS], tok, tok)
		kid := cs.RKid
		o.Ref = vfJwtRefVerify(tok, sets[cs.RKS], &kid, cs.RAlg)
		cs.Obs = o
		return true
	}
	if cs.Base != nil && len(cs.Devs) > 0 {
		d, ok := vfJwtApply(cs.Base, cs.Devs, cs.DSeed, sets)
		if !ok {
			return false
		}
		cs.Desc = d
	} else if cs.Desc == nil && cs.Base != nil {
		cs.Desc = cs.Base.clone()
	}
	if cs.Desc == nil {
		return false
	}
	o, ok := vfJwtRunDesc(cs.Desc, sets)
	if !ok {
		return false
	}
	cs.Obs = o
	return true
}

var vfJwtMutations = []string{"flip-char", "delete-char", "insert-char", "truncate", "swap-parts", "double-dot", "drop-dot", "random-bytes-part", "nul-byte", "high-bytes"}

func vfJwtMutate(r *vfRand, tok string, m string) string {
	b := []byte(tok)
	const alpha = "ABCDEFGHIJKLMNOPQRSTUVWXYZabcdefghijklmnopqrstuvwxyz0123456789-_"
	switch m {
	case "flip-char":
		i := r.intn(len(b))
		b[i] = alpha[r.intn(64)]
	case "delete-char":
		i := r.intn(len(b))
		b = append(b[:i], b[i+1:]...)
	case "insert-char":
		i := r.intn(len(b) + 1)
		b = append(b[:i], append([]byte{alpha[r.intn(64)]}, b[i:]...)...)
	case "truncate":
		b = b[:r.intn(len(b))]
	case "swap-parts":
		p := strings.Split(tok, ".")
		i, j := r.intn(len(p)), r.intn(len(p))
		p[i], p[j] = p[j], p[i]
		b = []byte(strings.Join(p, "."))
	case "double-dot":
		b = []byte(strings.Replace(tok, ".", "..", 1))
	case "drop-dot":
		b = []byte(strings.Replace(tok, ".", "", 1))
	case "random-bytes-part":
		p := strings.Split(tok, ".")
		i := r.intn(len(p))
		x := make([]byte, 1+r.intn(200))
		for k := range x {
			x[k] = byte(r.intn(256))
		}
		p[i] = vfJwtB64(x)
		b = []byte(strings.Join(p, "."))
	case "nul-byte":
		i := r.intn(len(b))
		b[i] = 0
	case "high-bytes":
		for k := 0; k < 1+r.intn(8); k++ {
			b[r.intn(len(b))] = byte(128 + r.intn(128))
		}
	}
	return string(b)
}

func vfJwtRandomBytes(r *vfRand) string {
	n := r.pick([]int{0, 1, 2, 3, 10, 100, 1000, 5000})
	if n > 3 {
		n = r.intn(n) + 1
	}
	x := make([]byte, n)
	for k := range x {
		x[k] = byte(r.intn(256))
		if r.chance(1, 12) {
			x[k] = '.'
		}
	}
	return string(x)
}

// ---------------------------------------------------------------- measured parameters

func vfJwtProbeDesc(sk int, alg string) *vfJwtDesc { return &vfJwtDesc{KS: 0, Cfg: 0, SK: sk, SA: alg} }

func vfJwtProbeAccept(d *vfJwtDesc, sets []*vfJwtKeySet) bool {
	o, ok := vfJwtRunDesc(d, sets)
	if !ok {
		panic("vfJwtProbeAccept: probe description does not apply")
	}
	return o.VJ && o.VT && !o.Panic
}

func vfJwtMeasure(sets []*vfJwtKeySet) map[string]interface{} {
	with := func(sk int, alg string, f func(d *vfJwtDesc)) bool {
		d := vfJwtProbeDesc(sk, alg)
		f(d)
		return vfJwtProbeAccept(d, sets)
	}
	valid := with(2, "ES256", func(d *vfJwtDesc) {}) && with(0, "RS256", func(d *vfJwtDesc) {})
	padded := with(2, "ES256", func(d *vfJwtDesc) { d.SF = "padded" })
	iatHuge := with(0, "RS256", func(d *vfJwtDesc) { d.Iat = "lit:1e30" })
	expHuge := with(0, "RS256", func(d *vfJwtDesc) { d.Exp = "lit:1e30" })
	nbfStr := with(0, "RS256", func(d *vfJwtDesc) { d.Nbf = "#string" })
	// replay step of JWT.Verify: the same jti presented to two fresh instances through the ladder
	replay := func() bool {
		ks := sets[0]
		cfg := vfJwtConfigs[0]
		d := vfJwtProbeDesc(0, "RS256")
		d.Jti = "str"
		jti := fmt.Sprintf("probe-%d", time.Now().UnixNano())
		nowSec := time.Now().Unix()
		a, _ := vfJwtBuild(d, sets, nowSec, jti)
		d2 := d.clone()
		d2.Exp = "o:600" // another token, same jti
		b, _ := vfJwtBuild(d2, sets, nowSec, jti)
		i1 := vfJwtNewInstance(cfg.Issuer, cfg.Client, ks.set)
		i2 := vfJwtNewInstance(cfg.Issuer, cfg.Client, ks.set)
		defer vfJwtCloseInstance(i1)
		defer vfJwtCloseInstance(i2)
		first := vfJwtLadder(i1, a.Token)
		second := vfJwtLadder(i2, b.Token)
		return first && !second
	}()
	f, p := vfJwtSkews()
	hugePos, hugeNeg := 1e30, -1e30
	// observations that are reported but not part of the monitor (see evidence)
	obs := map[string]interface{}{}
	func() {
		ks := sets[0]
		cfg := vfJwtConfigs[0]
		d := vfJwtProbeDesc(2, "ES256")
		a, _ := vfJwtBuild(d, sets, time.Now().Unix(), "")
		p := strings.Split(a.Token, ".")
		nl := p[0] + "." + p[1] + "." + p[2][:10] + "\n" + p[2][10:30] + "\r\n" + p[2][30:]
		i1 := vfJwtNewInstance(cfg.Issuer, cfg.Client, ks.set)
		defer vfJwtCloseInstance(i1)
		obs["newlines_inside_signature_text_accepted"] = vfJwtLadder(i1, nl)
		// an RSA JWK whose exponent is 2^64 + 65537 (int(e.Int64()) keeps the low 64 bits)
		k := ks.Keys[0]
		e := new(big.Int).Add(new(big.Int).Lsh(big.NewInt(1), 64), big.NewInt(int64(k.rsa.E)))
		j := k.jwk
		j.Kid = "eovf"
		j.E = vfJwtB64(e.Bytes())
		set2 := &JWKSet{Keys: []JWK{j}}
		d2 := vfJwtProbeDesc(0, "RS256")
		d2.HK = "s:eovf"
		b, _ := vfJwtBuild(d2, sets, time.Now().Unix(), "")
		i2 := vfJwtNewInstance(cfg.Issuer, cfg.Client, set2)
		defer vfJwtCloseInstance(i2)
		obs["rsa_jwk_exponent_2^64+65537_treated_as_65537"] = vfJwtLadder(i2, b.Token)
		usable := map[string]bool{}
		for _, kk := range ks.Keys {
			jj := kk.jwk
			usable[fmt.Sprintf("%s/%s", kk.Kid, kk.Kty)] = vfJwtKeyUsable(&jj)
		}
		obs["jwkToPEM_accepts"] = usable
	}()
	return map[string]interface{}{
		"valid_tokens_accepted":  valid,
		"ec_sig_length_checked":  !padded,
		"time_claims_saturate":   !iatHuge && expHuge,
		"iat_1e30_accepted":      iatHuge,
		"exp_1e30_accepted":      expHuge,
		"nbf_type_checked":       !nbfStr,
		"verify_has_replay_step": replay,
		"skew_future_ns":         int64(f),
		"skew_past_ns":           int64(p),
		"int64_of_huge_pos":      strconv.FormatInt(int64(hugePos), 10),
		"int64_of_huge_neg":      strconv.FormatInt(int64(hugeNeg), 10),
		"observations":           obs,
	}
}

func vfJwtKeySetsJSON(sets []*vfJwtKeySet) []interface{} {
	var out []interface{}
	for _, ks := range sets {
		var keys []interface{}
		for _, k := range ks.Keys {
			keys = append(keys, map[string]interface{}{"kid": vfJwtIntern("kid", k.Kid), "kid_text": k.Kid, "mat": k.Mat,
				"kty": k.Kty, "bits": k.Bits, "pem_ok": k.PemOK})
		}
		out = append(out, keys)
	}
	return out
}

// ---------------------------------------------------------------- the test

func TestVF_Jwt(t *testing.T) {
	out := vfOpenLines(t, "cases.jsonl")
	defer out.close()
	sets := vfJwtBuildKeySets()

	writeParams := func() {
		var cfgs []interface{}
		for _, c := range vfJwtConfigs {
			cfgs = append(cfgs, map[string]interface{}{"issuer": vfJwtIntern("iss", c.Issuer), "client": vfJwtIntern("aud", c.Client),
				"issuer_text": c.Issuer, "client_text": c.Client})
		}
		var names []string
		for _, d := range vfJwtDevs {
			names = append(names, d.name)
		}
		vfWriteJSON(t, "params.json", map[string]interface{}{
			"measured": vfJwtMeasure(sets), "keysets": vfJwtKeySetsJSON(sets), "configs": cfgs, "deviations": names,
		})
	}

	if rp := vfReplayFile(); rp != "" {
		vfReadLines(t, rp, func(line []byte) {
			var cs vfJwtCase
			if err := json.Unmarshal(line, &cs); err != nil {
				t.Fatal(err)
			}
			cs.Obs = nil
			if vfJwtRunCase(&cs, sets) {
				out.put(&cs)
			}
		})
		writeParams()
		return
	}

	id := 0
	primer := vfNewRand(vfSeed()).fork(202)
	emit := func(cs *vfJwtCase) bool {
		cs.ID = id
		// a quarter of the cases run on an instance that served under ANOTHER key generation before
		if cs.Prime == 0 && len(sets) > 1 && cs.Kind != "corpus" && primer.chance(1, 4) {
			ksi := cs.RKS
			if cs.Base != nil {
				ksi = cs.Base.KS
			}
			cs.Prime = 1 + (ksi+1+primer.intn(len(sets)-1))%len(sets)
		}
		if !vfJwtRunCase(cs, sets) {
			return false
		}
		out.put(cs)
		id++
		return true
	}
	r := vfNewRand(vfSeed()).fork(2)

	// corpus first: minimised regression tokens (F2, F2b, F2c and the classics)
	for _, c := range []struct {
		sk   int
		alg  string
		devs []string
	}{
		{2, "ES256", []string{"sig-zero-padded"}},
		{4, "ES512", []string{"sig-leading-zeros-stripped"}},
		{0, "RS256", []string{"iat-1e30"}},
		{0, "PS256", []string{"nbf-1e30"}},
		{2, "ES384", []string{"exp-1e30"}},
		{1, "RS384", []string{"nbf-string"}},
		{0, "RS256", []string{"alg-none"}},
		{0, "RS256", []string{"alg-hs256-public-key-as-secret"}},
		{2, "ES256", []string{"sig-all-zero"}},
		{5, "RS512", nil}, // kid shared with an EC key, RSA listed first: valid
		{3, "ES256", nil}, // ES256 under a P-384 key: same family, valid
	} {
		emit(&vfJwtCase{Kind: "corpus", Base: vfJwtProbeDesc(c.sk, c.alg), Devs: c.devs, DSeed: 1})
	}

	// valid tokens: every key set x every self-selected signing entry x every algorithm of its family
	for ksi, ks := range sets {
		for _, rsaKeys := range []bool{true, false} {
			for _, sk := range vfJwtSigners(ks, rsaKeys) {
				for _, alg := range vfJwtStdAlgs {
					if (alg[0] == 'E') == rsaKeys {
						continue
					}
					emit(&vfJwtCase{Kind: "valid", Base: vfJwtValidDesc(r, ksi, sk, alg)})
				}
			}
		}
	}

	// every single deviation x every algorithm (key set 0, signing entry of the family chosen by the PRNG)
	baseFor := func(alg string) *vfJwtDesc {
		s := vfJwtSigners(sets[0], alg[0] != 'E')
		d := vfJwtProbeDesc(s[r.intn(len(s))], alg)
		d.Cfg = r.intn(len(vfJwtConfigs))
		return d
	}
	for _, alg := range vfJwtStdAlgs {
		for _, dv := range vfJwtDevs {
			emit(&vfJwtCase{Kind: "single", Base: baseFor(alg), Devs: []string{dv.name}, DSeed: r.next()})
		}
	}

	// every kid deviation against the single-key providers (one algorithm of the key's family each)
	for ksi, ks := range sets {
		if len(ks.Keys) != 1 {
			continue
		}
		alg := "RS256"
		if ks.Keys[0].ec != nil {
			alg = "ES256"
		}
		for _, dv := range vfJwtDevs {
			if strings.HasPrefix(dv.name, "kid-") {
				emit(&vfJwtCase{Kind: "single-one-key", Base: vfJwtValidDesc(r, ksi, 0, alg), Devs: []string{dv.name}, DSeed: r.next()})
			}
		}
	}

	// sampled pairs and triples
	nMulti := vfEnvInt("VERIF_N", 300)
	for i := 0; i < nMulti; i++ {
		k := 2
		if r.chance(1, 3) {
			k = 3
		}
		var devs []string
		for j := 0; j < k; j++ {
			devs = append(devs, vfJwtDevs[r.intn(len(vfJwtDevs))].name)
		}
		kind := "pair"
		if k == 3 {
			kind = "triple"
		}
		alg := vfJwtStdAlgs[r.intn(len(vfJwtStdAlgs))]
		ksi := 0
		base := baseFor(alg)
		if r.chance(1, 4) { // other key sets
			ksi = 1 + r.intn(len(sets)-1)
			s := vfJwtSigners(sets[ksi], alg[0] != 'E')
			if len(s) == 0 {
				continue
			}
			base = vfJwtValidDesc(r, ksi, s[r.intn(len(s))], alg)
		}
		emit(&vfJwtCase{Kind: kind, Base: base, Devs: devs, DSeed: r.next()})
	}

	// malformed stream: random bytes and random mutations of valid tokens
	nRaw := vfEnvInt("VERIF_NRAW", 200)
	for i := 0; i < nRaw; i++ {
		alg := vfJwtStdAlgs[r.intn(len(vfJwtStdAlgs))]
		d := baseFor(alg)
		b, ok := vfJwtBuild(d, sets, time.Now().Unix(), "")
		if !ok {
			continue
		}
		cs := &vfJwtCase{Kind: "raw", RKS: 0, RCfg: d.Cfg, RKid: sets[0].Keys[d.SK].Kid, RAlg: alg}
		var tok string
		if r.chance(1, 4) {
			tok, cs.Mut = vfJwtRandomBytes(r), "random-bytes"
		} else {
			tok = b.Token
			n := 1 + r.intn(3)
			for j := 0; j < n && len(tok) > 0; j++ {
				m := vfJwtMutations[r.intn(len(vfJwtMutations))]
				tok = vfJwtMutate(r, tok, m)
				cs.Mut += m + " "
			}
			if r.chance(1, 20) {
				tok, cs.Mut = b.Token, "none" // the unchanged valid token passes through the same path
			}
		}
		cs.Raw = base64.StdEncoding.EncodeToString([]byte(tok))
		emit(cs)
	}
	writeParams()
}
