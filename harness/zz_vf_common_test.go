//go:build verif

package traefikoidc

// Shared plumbing of the verification harness.  These files live in
// /verif/harness and are compiled INTO package traefikoidc through
// `go test -overlay` (see /verif/bin/check); nothing is written under /repo.

import (
	"bufio"
	"encoding/json"
	"fmt"
	"os"
	"path/filepath"
	"strconv"
	"testing"
	"time"
)

// ---- deterministic PRNG (splitmix64); every random choice of a run derives from VERIF_SEED

type vfRand struct{ s uint64 }

func vfNewRand(seed uint64) *vfRand { return &vfRand{s: seed*0x9E3779B97F4A7C15 + 0x1234567} }

func (r *vfRand) next() uint64 {
	r.s += 0x9E3779B97F4A7C15
	z := r.s
	z = (z ^ (z >> 30)) * 0xBF58476D1CE4E5B9
	z = (z ^ (z >> 27)) * 0x94D049BB133111EB
	return z ^ (z >> 31)
}
func (r *vfRand) intn(n int) int {
	if n <= 0 {
		return 0
	}
	return int(r.next() % uint64(n))
}
func (r *vfRand) pick(xs []int) int { return xs[r.intn(len(xs))] }
func (r *vfRand) chance(num, den int) bool {
	return r.intn(den) < num
}
func (r *vfRand) fork(tag uint64) *vfRand { return vfNewRand(r.next() ^ (tag * 0xD1B54A32D192ED03)) }

// ---- environment

func vfSeed() uint64 {
	if s := os.Getenv("VERIF_SEED"); s != "" {
		if v, err := strconv.ParseUint(s, 10, 64); err == nil {
			return v
		}
		if v, err := strconv.ParseInt(s, 10, 64); err == nil {
			return uint64(v)
		}
	}
	return 1
}

func vfTier() string {
	if os.Getenv("VERIF_TIER") == "thorough" {
		return "thorough"
	}
	return "quick"
}

func vfEnvInt(name string, def int) int {
	if s := os.Getenv(name); s != "" {
		if v, err := strconv.Atoi(s); err == nil {
			return v
		}
	}
	return def
}

func vfOutDir(t testing.TB) string {
	d := os.Getenv("VERIF_OUT")
	if d == "" {
		t.Fatalf("VERIF_OUT not set")
	}
	if err := os.MkdirAll(d, 0o755); err != nil {
		t.Fatalf("mkdir %s: %v", d, err)
	}
	return d
}

func vfWriteJSON(t testing.TB, name string, v interface{}) {
	p := filepath.Join(vfOutDir(t), name)
	f, err := os.Create(p)
	if err != nil {
		t.Fatalf("create %s: %v", p, err)
	}
	defer f.Close()
	enc := json.NewEncoder(f)
	if err := enc.Encode(v); err != nil {
		t.Fatalf("encode %s: %v", p, err)
	}
}

// vfJSONLines writes one JSON value per line (streamed, so big runs stay small in memory)
type vfJSONLines struct {
	f   *os.File
	enc *json.Encoder
	n   int
}

func vfOpenLines(t testing.TB, name string) *vfJSONLines {
	p := filepath.Join(vfOutDir(t), name)
	f, err := os.Create(p)
	if err != nil {
		t.Fatalf("create %s: %v", p, err)
	}
	return &vfJSONLines{f: f, enc: json.NewEncoder(f)}
}
func (l *vfJSONLines) put(v interface{}) {
	if err := l.enc.Encode(v); err != nil {
		panic(fmt.Sprintf("encode: %v", err))
	}
	l.n++
}
func (l *vfJSONLines) close() { l.f.Close() }

// vfTick waits until the wall clock has advanced past the given instant, so that
// two consecutive operations never observe the same time.Now() (the model's
// instants are strictly increasing; DESIGN.md §6 N1).
func vfTick(prev time.Time) time.Time {
	for {
		n := time.Now()
		if n.After(prev) {
			return n
		}
	}
}

// vfReplayFile returns the path of a replay file to run instead of generating cases ("" if none)
func vfReplayFile() string { return os.Getenv("VERIF_REPLAY") }

// vfReadLines calls f on every non-empty line of a (JSON lines) file
func vfReadLines(t testing.TB, path string, f func(line []byte)) {
	fh, err := os.Open(path)
	if err != nil {
		t.Fatalf("open %s: %v", path, err)
	}
	defer fh.Close()
	sc := bufio.NewScanner(fh)
	sc.Buffer(make([]byte, 1<<20), 1<<28)
	for sc.Scan() {
		if len(sc.Bytes()) > 0 {
			b := append([]byte(nil), sc.Bytes()...)
			f(b)
		}
	}
}
