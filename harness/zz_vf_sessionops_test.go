//go:build verif

package traefikoidc

// C07 at the level of the session API (the property quantifies over ALL sequences of session updates, not only the
// ones the request handlers perform): one browser, successive requests; in each request the session is loaded from
// the browser's cookies with the real SessionManager, what its getters return is recorded, a list of calls is made
// on it (setters in any order, Clear, Save, any number of times), and the Set-Cookie headers are applied to the jar
// (replace / delete, path-aware).  The recorded reads are judged in Coq (Corr/SessionCorr.v) against the model of
// Model/Session.v and against the reference "what was last written and saved".

import (
	"encoding/base64"
	"encoding/json"
	"fmt"
	"net/http"
	"net/http/httptest"
	"strings"
	"testing"
	"time"
)

type vfSOp struct {
	O string `json:"o"`           // auth | main | acc | ref | clear | save
	B bool   `json:"b,omitempty"` // auth
	F int    `json:"f,omitempty"` // main: 3 csrf, 4 nonce, 5 verifier, 6 e-mail, 7 incoming path
	V string `json:"v,omitempty"` // main: value; acc / ref: the token text
}

type vfSReads struct {
	Auth     bool   `json:"auth"`
	Email    string `json:"email"`
	CSRF     string `json:"csrf"`
	Nonce    string `json:"nonce"`
	Verifier string `json:"verifier"`
	Incoming string `json:"incoming"`
	Acc      string `json:"acc"`
	Ref      string `json:"ref"`
}

type vfSReq struct {
	Path string   `json:"path"`
	Ops  []vfSOp  `json:"ops"`
	Obs  *vfSReads `json:"obs,omitempty"`
	Now  int64    `json:"now,omitempty"`
}

type vfSCase struct {
	ID   int      `json:"id"`
	Kind string   `json:"kind"`
	Reqs []vfSReq `json:"reqs"`
	Coq  string   `json:"coq,omitempty"`
}

func vfSTok(r *vfRand, kind string, n int) string {
	switch kind {
	case "":
		return ""
	case "gz": // the text is itself base64 of a gzip stream
		p := &vfProvider{r: r, issuedRT: map[string]bool{}}
		return p.newRefreshTokenFor(&vfTokenScript{RefreshGz: true, RefreshLen: n})
	case "b64":
		raw := make([]byte, n*3/4+3)
		for i := range raw {
			raw[i] = byte(r.next())
		}
		return base64.StdEncoding.EncodeToString(raw)[:n]
	case "rep": // highly compressible
		return "tok-" + strings.Repeat("abcdefgh", n/8+1)[:n]
	default: // JWT-shaped, incompressible
		raw := make([]byte, n*3/4+3)
		for i := range raw {
			raw[i] = byte(r.next())
		}
		return "eyJhbGciOiJSUzI1NiJ9." + base64.RawURLEncoding.EncodeToString(raw)[:n] + ".c2ln"
	}
}

// vfSTokStored searches for a token whose STORED form (base64 of gzip) is exactly `target` characters long: values that fill
// their last chunk cookie to the last byte (and their neighbours one encoding quantum shorter and longer)
func vfSTokStored(r *vfRand, target int) string {
	n := target - 40
	best := ""
	for try := 0; try < 400; try++ {
		if n < 8 {
			n = 8
		}
		tok := vfSTok(r, "jwt", n)
		got := len(vfCompress(tok))
		if got == target {
			return tok
		}
		best = tok
		d := target - got
		if d > 3 || d < -3 {
			n += d * 3 / 4
		} else if d > 0 {
			n++
		} else {
			n--
		}
	}
	return best
}

var vfSSizes = []int{1, 10, 600, 1400, 1480, 1500, 1520, 2900, 3000, 3100, 4500, 6000, 9000, 20000, 33000}

func vfGenSCase(r *vfRand, id int) *vfSCase {
	cs := &vfSCase{ID: id, Kind: "session-ops"}
	vals := []string{"", "v1", "value-2", "user@example.com", "/app/deep?x=1", strings.Repeat("n", 43), "ünï", "a b",
		"Alice.Smith@Contoso.OnMicrosoft.COM", " carol@example.com ", "UPPER/Path?Q=1", "tab\tand\nnewline", "trailing/ "}
	nreq := 3 + r.intn(6)
	for i := 0; i < nreq; i++ {
		rq := vfSReq{Path: vfPick(r, "/", "/app", "/app/deep/page", "/oauth2/callback")}
		cleared := false
		for k := r.intn(7); k > 0 && !cleared; k-- {
			switch x := r.intn(20); {
			case x < 2:
				rq.Ops = append(rq.Ops, vfSOp{O: "auth", B: r.chance(3, 4)})
			case x < 8:
				rq.Ops = append(rq.Ops, vfSOp{O: "main", F: 3 + r.intn(5), V: vals[r.intn(len(vals))]})
			case x < 12 && r.chance(1, 4): // a stored form at (or one encoding quantum off) a chunk boundary
				rq.Ops = append(rq.Ops, vfSOp{O: vfPick(r, "acc", "ref"), V: vfSTokStored(r, (1+r.intn(4))*2000+[]int{-4, 0, 0, 4}[r.intn(4)])})
			case x < 12:
				rq.Ops = append(rq.Ops, vfSOp{O: "acc", V: vfSTok(r, vfPick(r, "jwt", "jwt", "rep", "b64", "gz", ""), vfSSizes[r.intn(len(vfSSizes))])})
			case x < 16:
				rq.Ops = append(rq.Ops, vfSOp{O: "ref", V: vfSTok(r, vfPick(r, "b64", "jwt", "rep", "gz", ""), vfSSizes[r.intn(len(vfSSizes))])})
			case x < 17: // Clear(r, w) hands the object back: it is the last call of its request
				rq.Ops = append(rq.Ops, vfSOp{O: "clear"})
				cleared = true
			default:
				rq.Ops = append(rq.Ops, vfSOp{O: "save"})
			}
		}
		if !cleared && r.chance(3, 4) {
			rq.Ops = append(rq.Ops, vfSOp{O: "save"})
		}
		cs.Reqs = append(cs.Reqs, rq)
	}
	cs.Reqs = append(cs.Reqs, vfSReq{Path: "/"}) // a last request that only reads
	return cs
}

func vfSCorpus(r *vfRand) []*vfSCase {
	big, small := vfSTok(r, "jwt", 6000), vfSTok(r, "jwt", 1400)
	return []*vfSCase{
		// login-flow values written in one request, only the flag and tokens in the next: everything written stays readable
		{Kind: "corpus", Reqs: []vfSReq{
			{Path: "/app", Ops: []vfSOp{{O: "main", F: 3, V: "csrf-1"}, {O: "main", F: 4, V: "nonce-1"}, {O: "main", F: 5, V: "verifier-1"}, {O: "main", F: 7, V: "/app"}, {O: "save"}}},
			{Path: "/oauth2/callback", Ops: []vfSOp{{O: "auth", B: true}, {O: "main", F: 6, V: "a@example.com"}, {O: "acc", V: small}, {O: "ref", V: "rt-1"}, {O: "save"}}},
			{Path: "/app"}}},
		// big over small over empty, each in its own request; then Clear on a deep path
		{Kind: "corpus", Reqs: []vfSReq{
			{Path: "/", Ops: []vfSOp{{O: "auth", B: true}, {O: "acc", V: big}, {O: "ref", V: vfSTok(r, "b64", 5200)}, {O: "save"}}},
			{Path: "/", Ops: []vfSOp{{O: "acc", V: small}, {O: "save"}}},
			{Path: "/", Ops: []vfSOp{{O: "acc", V: ""}, {O: "ref", V: ""}, {O: "save"}}},
			{Path: "/", Ops: []vfSOp{{O: "acc", V: big}, {O: "save"}}},
			{Path: "/portal/reports/monthly", Ops: []vfSOp{{O: "clear"}}},
			{Path: "/"}}},
		// unsaved changes are lost; a second Save in the same request after more changes
		{Kind: "corpus", Reqs: []vfSReq{
			{Path: "/", Ops: []vfSOp{{O: "main", F: 6, V: "x@example.com"}, {O: "save"}, {O: "main", F: 6, V: "y@example.com"}}},
			{Path: "/", Ops: []vfSOp{{O: "acc", V: small}, {O: "save"}, {O: "acc", V: big}, {O: "save"}, {O: "main", F: 3, V: "late"}}},
			{Path: "/"}}},
		// two Saves in ONE request, the second after a smaller token was set: the chunk cookies the first Save put
		// into this response are not in the request's jar
		{Kind: "corpus", Reqs: []vfSReq{
			{Path: "/", Ops: []vfSOp{{O: "acc", V: big}, {O: "save"}, {O: "acc", V: vfSTok(r, "jwt", 3000)}, {O: "save"}}},
			{Path: "/"}}},
		{Kind: "corpus", Reqs: []vfSReq{
			{Path: "/", Ops: []vfSOp{{O: "ref", V: big}, {O: "save"}, {O: "ref", V: small}, {O: "save"}}},
			{Path: "/"}}},
		// more than ten chunk cookies per token (two-digit chunk numbers), then fewer but still ten or more, then few, then none
		{Kind: "corpus", Reqs: []vfSReq{
			{Path: "/", Ops: []vfSOp{{O: "acc", V: vfSTok(r, "jwt", 33000)}, {O: "ref", V: vfSTok(r, "b64", 30000)}, {O: "save"}}},
			{Path: "/", Ops: []vfSOp{{O: "acc", V: vfSTok(r, "jwt", 4000)}, {O: "ref", V: vfSTok(r, "b64", 2500)}, {O: "save"}}},
			{Path: "/", Ops: []vfSOp{{O: "acc", V: vfSTokStored(r, 20000-8)}, {O: "ref", V: vfSTokStored(r, 19996)}, {O: "save"}}},
			{Path: "/", Ops: []vfSOp{{O: "acc", V: vfSTok(r, "jwt", 24000)}, {O: "ref", V: vfSTok(r, "b64", 16000)}, {O: "save"}}},
			{Path: "/", Ops: []vfSOp{{O: "acc", V: "short"}, {O: "ref", V: ""}, {O: "save"}}},
			{Path: "/"}}},
		// stored forms that fill their last chunk cookie exactly (2000, 4000, 6000 characters) and their neighbours
		{Kind: "corpus", Reqs: []vfSReq{
			{Path: "/", Ops: []vfSOp{{O: "acc", V: vfSTokStored(r, 4000)}, {O: "ref", V: vfSTokStored(r, 6000)}, {O: "save"}}},
			{Path: "/", Ops: []vfSOp{{O: "acc", V: vfSTokStored(r, 2000)}, {O: "ref", V: vfSTokStored(r, 3996)}, {O: "save"}}},
			{Path: "/", Ops: []vfSOp{{O: "acc", V: vfSTokStored(r, 4004)}, {O: "ref", V: vfSTokStored(r, 2004)}, {O: "save"}}},
			{Path: "/", Ops: []vfSOp{{O: "acc", V: vfSTokStored(r, 8000)}, {O: "ref", V: vfSTokStored(r, 1996)}, {O: "save"}}},
			{Path: "/"}}},
		{Kind: "corpus", Reqs: []vfSReq{
			{Path: "/", Ops: []vfSOp{{O: "acc", V: big}, {O: "ref", V: big}, {O: "save"}, {O: "clear"}}},
			{Path: "/"}, {Path: "/", Ops: []vfSOp{{O: "acc", V: vfSTok(r, "jwt", 3000)}, {O: "save"}}}, {Path: "/"}}},
	}
}

func vfRunSCase(t testing.TB, cs *vfSCase, r *vfRand) {
	w := vfNewWorld(t, vfWorldCfg{GraceSec: 60}, 0, r)
	defer w.close()
	sm := vfSessionManager(w.inst(0).t)
	jar := map[string]string{}
	known := map[string]bool{}
	tv := func(s string) string {
		switch {
		case s == "":
			return "TEmpty"
		case known[s]:
			return fmt.Sprintf("(TTok %d)", w.in.id(s))
		}
		return "TJunk"
	}
	var reqTerms []string
	for i := range cs.Reqs {
		rq := &cs.Reqs[i]
		req := httptest.NewRequest("GET", "http://app.example.test"+rq.Path, nil)
		for n, v := range jar {
			req.AddCookie(&http.Cookie{Name: n, Value: v})
		}
		rq.Now = int64(i+1) * int64(time.Second)
		sd, err := sm.GetSession(req)
		if err != nil {
			t.Fatalf("case %d request %d: GetSession: %v", cs.ID, i, err)
		}
		rq.Obs = &vfSReads{Auth: sd.GetAuthenticated(), Email: sd.GetEmail(), CSRF: sd.GetCSRF(), Nonce: sd.GetNonce(),
			Verifier: sd.GetCodeVerifier(), Incoming: sd.GetIncomingPath(), Acc: sd.GetAccessToken(), Ref: sd.GetRefreshToken()}
		obsTerm := fmt.Sprintf("(mkReads %s %d %d %d %d %d %s %s)", vfBool(rq.Obs.Auth), w.in.id(rq.Obs.Email), w.in.id(rq.Obs.CSRF),
			w.in.id(rq.Obs.Nonce), w.in.id(rq.Obs.Verifier), w.in.id(rq.Obs.Incoming), tv(rq.Obs.Acc), tv(rq.Obs.Ref))
		if len(rq.Obs.Acc) > 64 {
			rq.Obs.Acc = fmt.Sprintf("%s...(%d bytes)", rq.Obs.Acc[:40], len(rq.Obs.Acc))
		}
		if len(rq.Obs.Ref) > 64 {
			rq.Obs.Ref = fmt.Sprintf("%s...(%d bytes)", rq.Obs.Ref[:40], len(rq.Obs.Ref))
		}
		rec := httptest.NewRecorder()
		var ops []string
		for _, o := range rq.Ops {
			switch o.O {
			case "auth":
				sd.SetAuthenticated(o.B)
				ops = append(ops, "SAuth "+vfBool(o.B))
			case "main":
				switch o.F {
				case 3:
					sd.SetCSRF(o.V)
				case 4:
					sd.SetNonce(o.V)
				case 5:
					sd.SetCodeVerifier(o.V)
				case 6:
					sd.SetEmail(o.V)
				default:
					sd.SetIncomingPath(o.V)
				}
				ops = append(ops, fmt.Sprintf("SMain %d %d", o.F, w.in.id(o.V)))
			case "acc":
				known[o.V] = true
				w.noteText(o.V)
				sd.SetAccessToken(o.V)
				ops = append(ops, fmt.Sprintf("SAcc %d", w.in.id(o.V)))
			case "ref":
				known[o.V] = true
				w.noteText(o.V)
				sd.SetRefreshToken(o.V)
				ops = append(ops, fmt.Sprintf("SRef %d", w.in.id(o.V)))
			case "clear":
				sd.Clear(req, rec)
				ops = append(ops, "SClear")
			case "save":
				if err := sd.Save(req, rec); err != nil {
					t.Fatalf("case %d request %d: Save: %v", cs.ID, i, err)
				}
				ops = append(ops, "SSave")
			}
		}
		// the browser applies the Set-Cookie headers (a cookie for another path than "/" is another cookie)
		for _, c := range vfParseSetCookies(rec.Header()) {
			eff := c.Path
			if eff == "" || eff[0] != '/' {
				eff = "/"
				if j := strings.LastIndexByte(rq.Path, '/'); j > 0 {
					eff = rq.Path[:j]
				}
			}
			if eff != "/" {
				continue
			}
			if c.MaxAge < 0 || (c.MaxAge == 0 && !c.Expires.IsZero() && c.Expires.Before(time.Now())) {
				delete(jar, c.Name)
			} else {
				jar[c.Name] = c.Value
			}
		}
		reqTerms = append(reqTerms, fmt.Sprintf("(mkSReq %s %s [%s])", vfZ(rq.Now), obsTerm, strings.Join(ops, "; ")))
	}
	var chunks []string
	for s := range known {
		if s != "" {
			chunks = append(chunks, fmt.Sprintf("(%d, %d%%nat)", w.in.id(s), w.nchunks(s)))
		}
	}
	cs.Coq = fmt.Sprintf("(mkSCase %d 1 [%s] [%s])", cs.ID, strings.Join(chunks, "; "), strings.Join(reqTerms, "; "))
	// the JSON copy of a case keeps token texts short
	for i := range cs.Reqs {
		for k := range cs.Reqs[i].Ops {
			if v := cs.Reqs[i].Ops[k].V; len(v) > 20000 {
				_ = v // kept in full: a replay needs the exact text
			}
		}
	}
}

func TestVF_SessionOps(t *testing.T) {
	out := vfOpenLines(t, "cases.jsonl")
	defer out.close()
	r := vfNewRand(vfSeed()).fork(707)
	if rp := vfReplayFile(); rp != "" {
		vfReadLines(t, rp, func(line []byte) {
			var cs vfSCase
			if err := json.Unmarshal(line, &cs); err != nil {
				t.Fatal(err)
			}
			vfRunSCase(t, &cs, r.fork(uint64(cs.ID)))
			out.put(&cs)
		})
		vfWriteJSON(t, "params.json", map[string]interface{}{})
		return
	}
	var all []*vfSCase
	for _, cs := range vfSCorpus(r.fork(1)) {
		cs.ID = len(all)
		all = append(all, cs)
	}
	n := vfEnvInt("VERIF_N", 60)
	for i := 0; i < n; i++ {
		all = append(all, vfGenSCase(r, len(all)))
	}
	for _, cs := range all {
		vfRunSCase(t, cs, r.fork(uint64(1000+cs.ID)))
		out.put(cs)
	}
	vfWriteJSON(t, "params.json", map[string]interface{}{"cases": len(all)})
}
