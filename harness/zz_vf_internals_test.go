//go:build verif

package traefikoidc

// The ONE file through which the harness touches unexported names of the
// package under verification.  If a refactor renames one of them only this
// file stops compiling, and bin/check reports the broken tie ("harness build").

import (
	"math"
	"sort"
	"time"
)

// ---- Cache

type vfCacheItemView struct {
	Key    string `json:"k"`
	Val    int64  `json:"v"`
	RemMin int64  `json:"m"` // remaining lifetime rounded to the nearest minute
}

type vfCacheView struct {
	Order []string          `json:"order"` // c.order front to back
	Items []vfCacheItemView `json:"items"` // c.items sorted by key
	Elems []string          `json:"elems"` // keys of c.elems, sorted
}

func vfNewCache(capacity int) *Cache {
	c := NewCache()
	c.Close() // stop the 5-minute auto-cleanup goroutine: the harness calls Cleanup explicitly
	c.mutex.Lock()
	c.maxSize = capacity
	c.mutex.Unlock()
	return c
}

func vfCacheMaxSize(c *Cache) int {
	c.mutex.Lock()
	defer c.mutex.Unlock()
	return c.maxSize
}

// vfCacheAdvance lets d "elapse" for the cache: every entry's expiry moves d closer.
func vfCacheAdvance(c *Cache, d time.Duration) {
	c.mutex.Lock()
	defer c.mutex.Unlock()
	for k, it := range c.items {
		it.ExpiresAt = it.ExpiresAt.Add(-d)
		c.items[k] = it
	}
}

func vfRoundMin(d time.Duration) int64 {
	return int64(math.Floor((float64(d) + float64(30*time.Second)) / float64(time.Minute)))
}

func vfCacheSnapshot(c *Cache, valOf func(interface{}) int64) vfCacheView {
	c.mutex.Lock()
	defer c.mutex.Unlock()
	now := time.Now()
	v := vfCacheView{Order: []string{}, Items: []vfCacheItemView{}, Elems: []string{}}
	for e := c.order.Front(); e != nil; e = e.Next() {
		v.Order = append(v.Order, e.Value.(lruEntry).key)
	}
	for k, it := range c.items {
		v.Items = append(v.Items, vfCacheItemView{Key: k, Val: valOf(it.Value), RemMin: vfRoundMin(it.ExpiresAt.Sub(now))})
	}
	sort.Slice(v.Items, func(i, j int) bool { return v.Items[i].Key < v.Items[j].Key })
	for k := range c.elems {
		v.Elems = append(v.Elems, k)
	}
	sort.Strings(v.Elems)
	return v
}

func vfCacheLen(c *Cache) int {
	c.mutex.Lock()
	defer c.mutex.Unlock()
	return len(c.items)
}
