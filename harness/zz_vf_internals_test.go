//go:build verif

package traefikoidc

// The ONE file through which the harness touches unexported names of the
// package under verification.  If a refactor renames one of them only this
// file stops compiling, and bin/check reports the broken tie ("harness build").

import (
	"strings"
	"container/list"
	"fmt"
	"math"
	"reflect"
	"sort"
	"sync"
	"time"
	"unsafe"
)

// The fields of Cache are found BY TYPE, not by name, so that a rename of an
// unexported field (or of the list-entry type) does not break the tie:
//   the map[string]CacheItem, the *list.List, the map[string]*list.Element,
//   the sync.RWMutex and the first int field (the capacity).
// A Cache restructured beyond that makes vfCacheParts panic: the harness run
// fails and the check reports the broken tie.
type vfCacheParts struct {
	items   *map[string]CacheItem
	order   **list.List
	elems   *map[string]*list.Element
	mutex   *sync.RWMutex
	maxSize *int
}

func vfPartsOf(c *Cache) vfCacheParts {
	var p vfCacheParts
	v := reflect.ValueOf(c).Elem()
	for i := 0; i < v.NumField(); i++ {
		f := v.Field(i)
		ptr := unsafe.Pointer(f.UnsafeAddr())
		switch f.Type() {
		case reflect.TypeOf(map[string]CacheItem(nil)):
			if p.items == nil {
				p.items = (*map[string]CacheItem)(ptr)
			}
		case reflect.TypeOf((*list.List)(nil)):
			if p.order == nil {
				p.order = (**list.List)(ptr)
			}
		case reflect.TypeOf(map[string]*list.Element(nil)):
			if p.elems == nil {
				p.elems = (*map[string]*list.Element)(ptr)
			}
		case reflect.TypeOf(sync.RWMutex{}):
			if p.mutex == nil {
				p.mutex = (*sync.RWMutex)(ptr)
			}
		case reflect.TypeOf(int(0)):
			if p.maxSize == nil {
				p.maxSize = (*int)(ptr)
			}
		}
	}
	if p.items == nil || p.order == nil || p.elems == nil || p.mutex == nil || p.maxSize == nil {
		panic(fmt.Sprintf("verif harness: Cache no longer has the expected parts (items map, usage list, element map, RWMutex, capacity): %+v", p))
	}
	return p
}

// vfEntryKey: the key stored in an element of the usage list (a struct whose first string field is the key, or a string)
func vfEntryKey(x interface{}) (string, bool) {
	v := reflect.ValueOf(x)
	if v.Kind() == reflect.Ptr && !v.IsNil() {
		v = v.Elem()
	}
	switch v.Kind() {
	case reflect.String:
		return v.String(), true
	case reflect.Struct:
		for i := 0; i < v.NumField(); i++ {
			if v.Field(i).Kind() == reflect.String {
				return v.Field(i).String(), true
			}
		}
	}
	return "", false
}

// ---- Cache

type vfCacheItemView struct {
	Key    string `json:"k"`
	Val    int64  `json:"v"`
	RemMin int64  `json:"m"` // remaining lifetime rounded to the nearest minute
}

type vfCacheView struct {
	Order []string          `json:"order"` // c.order front to back
	Items []vfCacheItemView `json:"items"` // c.items sorted by key
	Elems []string          `json:"elems"` // keys of c.elems, sorted
}

func vfNewCache(capacity int) *Cache {
	c := NewCache()
	c.Close() // stop the 5-minute auto-cleanup goroutine: the harness calls Cleanup explicitly
	p := vfPartsOf(c)
	p.mutex.Lock()
	*p.maxSize = capacity
	p.mutex.Unlock()
	return c
}

func vfCacheMaxSize(c *Cache) int {
	p := vfPartsOf(c)
	p.mutex.Lock()
	defer p.mutex.Unlock()
	return *p.maxSize
}

// vfCacheAdvance lets d "elapse" for the cache: every entry's expiry moves d closer.
func vfCacheAdvance(c *Cache, d time.Duration) {
	p := vfPartsOf(c)
	p.mutex.Lock()
	defer p.mutex.Unlock()
	for k, it := range *p.items {
		vfItemShift(&it, d)
		(*p.items)[k] = it
	}
}

// the expiry instant of an entry, found by type: a time.Time field, or an int64 field named like an expiry (Unix nanoseconds)
func vfItemExpField(it interface{}) reflect.Value {
	v := reflect.ValueOf(it).Elem()
	for i := 0; i < v.NumField(); i++ {
		if v.Field(i).Type() == reflect.TypeOf(time.Time{}) {
			return v.Field(i)
		}
	}
	for i := 0; i < v.NumField(); i++ {
		if v.Field(i).Kind() == reflect.Int64 && strings.Contains(strings.ToLower(v.Type().Field(i).Name), "expir") {
			return v.Field(i)
		}
	}
	panic("harness: no expiry field found in the cache entry type")
}

func vfItemExpiry(it interface{}) time.Time {
	f := vfItemExpField(it)
	if f.Kind() == reflect.Int64 {
		return time.Unix(0, f.Int())
	}
	return f.Interface().(time.Time)
}

func vfItemShift(it interface{}, d time.Duration) {
	f := vfItemExpField(it)
	if f.Kind() == reflect.Int64 {
		f.SetInt(f.Int() - int64(d))
		return
	}
	f.Set(reflect.ValueOf(f.Interface().(time.Time).Add(-d)))
}

func vfRoundMin(d time.Duration) int64 {
	return int64(math.Floor((float64(d) + float64(30*time.Second)) / float64(time.Minute)))
}

func vfCacheSnapshot(c *Cache, valOf func(interface{}) int64) vfCacheView {
	p := vfPartsOf(c)
	p.mutex.Lock()
	defer p.mutex.Unlock()
	now := time.Now()
	v := vfCacheView{Order: []string{}, Items: []vfCacheItemView{}, Elems: []string{}}
	for e := (*p.order).Front(); e != nil; e = e.Next() {
		k, _ := vfEntryKey(e.Value)
		v.Order = append(v.Order, k)
	}
	for k, it := range *p.items {
		v.Items = append(v.Items, vfCacheItemView{Key: k, Val: valOf(it.Value), RemMin: vfRoundMin(vfItemExpiry(&it).Sub(now))})
	}
	sort.Slice(v.Items, func(i, j int) bool { return v.Items[i].Key < v.Items[j].Key })
	for k := range *p.elems {
		v.Elems = append(v.Elems, k)
	}
	sort.Strings(v.Elems)
	return v
}

func vfCacheLen(c *Cache) int {
	p := vfPartsOf(c)
	p.mutex.Lock()
	defer p.mutex.Unlock()
	return len(*p.items)
}

// vfWrapCache builds a TokenCache (helpers.go) around the given cache: the wrapper's only *Cache field is found by type
func vfWrapCache(c *Cache) *TokenCache {
	tc := NewTokenCache()
	v := reflect.ValueOf(tc).Elem()
	for i := 0; i < v.NumField(); i++ {
		f := v.Field(i)
		if f.Type() == reflect.TypeOf((*Cache)(nil)) {
			old := *(**Cache)(unsafe.Pointer(f.UnsafeAddr()))
			if old != nil {
				old.Close()
			}
			*(**Cache)(unsafe.Pointer(f.UnsafeAddr())) = c
			return tc
		}
	}
	panic("verif harness: TokenCache no longer wraps a *Cache")
}
