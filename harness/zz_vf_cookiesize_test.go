//go:build verif

package traefikoidc

// C18 sweep: Set-Cookie line lengths measured on the REAL SessionManager.
//   chunk : for EVERY payload length L = 0..maxCookieSize a chunk cookie whose
//           token_chunk has length L (name with a two-digit index, the options Save uses)
//   token : for EVERY L = 0..maxCookieSize the token cookie {token: L bytes, compressed: true}
//   main  : e-mail lengths 0..2600 step 20 with csrf 36, nonce 44, verifier 43,
//           incoming path 1024, authenticated: line length or "refused" (Save error)
//   flow  : whole sessions with incompressible tokens through SetAccessToken /
//           SetRefreshToken / Save: every line against the tables
// The size of a cookie depends on the LENGTHS of its values only (gob writes
// length-prefixed bytes, AES-CTR and base64 preserve lengths): validated for a
// sample of L with a second content.  Everything is written to params.json; one
// case per measured point goes to cases.jsonl.

import (
	"encoding/json"
	"fmt"
	"sort"
	"strconv"
	"strings"
	"testing"
)

const vfCSKey = "0123456789abcdef0123456789abcdef-cookie-size-sweep"

type vfCSCase struct {
	ID    int    `json:"id"`
	Kind  string `json:"kind"` // chunk | token | main
	L     int    `json:"l"`
	Force bool   `json:"force_https"`
	// observed
	Line    int    `json:"line"` // bytes of the Set-Cookie value line (name=value; attributes); 0 = refused
	Refused bool   `json:"refused"`
	Err     string `json:"err,omitempty"`
}

func vfCSFill(l int, alt bool, r *vfRand) string {
	const b64 = "ABCDEFGHIJKLMNOPQRSTUVWXYZabcdefghijklmnopqrstuvwxyz0123456789+/"
	b := make([]byte, l)
	for i := range b {
		if alt {
			b[i] = b64[r.intn(64)]
		} else {
			b[i] = 'A'
		}
	}
	return string(b)
}

func vfCSLineFor(lines []string, name string) string {
	for _, l := range lines {
		if strings.HasPrefix(l, name+"=") {
			return l
		}
	}
	return ""
}

type vfCSMeasure struct {
	sm    map[bool]*SessionManager
	names struct{ main, acc, ref string }
	r     *vfRand
}

func vfCSNew(t testing.TB, r *vfRand) *vfCSMeasure {
	m := &vfCSMeasure{sm: map[bool]*SessionManager{}, r: r}
	for _, f := range []bool{true, false} {
		sm, err := vfMiscNewSessionManager(vfCSKey, f)
		if err != nil {
			t.Fatalf("NewSessionManager: %v", err)
		}
		m.sm[f] = sm
	}
	m.names.main, m.names.acc, m.names.ref = vfMiscCookieNames()
	return m
}

func (m *vfCSMeasure) chunkName() string { return m.names.acc + "_99" }

// measure one point; alt = second content of the same length
func (m *vfCSMeasure) point(kind string, l int, force bool, alt bool) (line string, err error) {
	sm := m.sm[force]
	switch kind {
	case "chunk":
		lines, e := vfMiscSaveOne(sm, m.chunkName(), map[string]interface{}{"token_chunk": vfCSFill(l, alt, m.r)}, force)
		if e != nil {
			return "", e
		}
		return vfCSLineFor(lines, m.chunkName()), nil
	case "token":
		lines, e := vfMiscSaveOne(sm, m.names.acc, map[string]interface{}{"token": vfCSFill(l, alt, m.r), "compressed": true}, force)
		if e != nil {
			return "", e
		}
		return vfCSLineFor(lines, m.names.acc), nil
	case "session": // a whole session whose ID token has l incompressible bytes (refresh token 3l/2+7): the LONGEST line
		pr := vfNewRand(uint64(l)*7919 + 1)
		lines, e := vfMiscSaveSession(sm, force, true, "user@example.com", vfCSFill(l, true, pr), vfCSFill(l*3/2+7, true, pr), "", "", "", "")
		if e != nil {
			return "", e
		}
		longest := ""
		for _, ln := range lines {
			if len(ln) > len(longest) {
				longest = ln
			}
		}
		return longest, nil
	default: // main
		lines, e := vfMiscSaveSession(sm, force, true, vfCSFill(l, alt, m.r), "", "",
			vfCSFill(36, alt, m.r), vfCSFill(44, alt, m.r), vfCSFill(43, alt, m.r), "/"+vfCSFill(1023, alt, m.r))
		if e != nil {
			return "", e
		}
		return vfCSLineFor(lines, m.names.main), nil
	}
}

func (m *vfCSMeasure) observe(c *vfCSCase) string {
	line, err := m.point(c.Kind, c.L, c.Force, false)
	c.Line, c.Refused, c.Err = len(line), false, ""
	if err != nil {
		c.Line, c.Refused, c.Err = 0, true, vfTrunc(err.Error(), 160)
	} else if line == "" {
		c.Refused, c.Err = true, "no Set-Cookie line for the expected name"
	}
	return line
}

func vfCSAttrs(line string) string {
	if i := strings.Index(line, ";"); i >= 0 {
		return line[i:]
	}
	return ""
}

func vfCSMaxAge(line string) (int, bool) {
	for _, p := range strings.Split(line, ";") {
		p = strings.TrimSpace(p)
		if strings.HasPrefix(strings.ToLower(p), "max-age=") {
			n, err := strconv.Atoi(p[len("max-age="):])
			return n, err == nil
		}
	}
	return 0, false
}

func TestVF_CookieSize(t *testing.T) {
	r := vfNewRand(vfSeed())
	m := vfCSNew(t, r)
	out := vfOpenLines(t, "cases.jsonl")
	defer out.close()
	if rp := vfReplayFile(); rp != "" {
		vfReadLines(t, rp, func(line []byte) {
			var c vfCSCase
			if err := json.Unmarshal(line, &c); err != nil {
				t.Fatalf("replay case: %v", err)
			}
			m.observe(&c)
			out.put(&c)
		})
		vfWriteJSON(t, "params.json", map[string]interface{}{"replay": true, "max_cookie_size": vfMiscMaxCookieSize()})
		return
	}
	max := vfMiscMaxCookieSize()
	id := 0
	tables := map[string][]int{} // kind/force -> line per L
	attrs := map[string]string{}
	maxAges := map[int]bool{}
	contentDependent := []map[string]interface{}{}
	for _, kind := range []string{"chunk", "token"} {
		for _, force := range []bool{true, false} {
			tab := make([]int, max+1)
			for l := 0; l <= max; l++ {
				c := &vfCSCase{ID: id, Kind: kind, L: l, Force: force}
				id++
				line := m.observe(c)
				tab[l] = c.Line
				out.put(c)
				if line != "" {
					attrs[fmt.Sprintf("%s/secure=%v", kind, force)] = vfCSAttrs(line)
					if a, ok := vfCSMaxAge(line); ok {
						maxAges[a] = true
					}
				}
				if l%37 == 0 || l >= max-3 || l <= 3 {
					l2, err2 := m.point(kind, l, force, true)
					if (err2 != nil) != c.Refused || (err2 == nil && len(l2) != c.Line) {
						contentDependent = append(contentDependent, map[string]interface{}{"kind": kind, "l": l, "force_https": force, "line_a": c.Line, "line_b": len(l2)})
					}
				}
			}
			tables[fmt.Sprintf("%s_%v", kind, force)] = tab
		}
	}
	// main cookie
	type mainPoint struct {
		L, Line int
	}
	mainTab := map[bool][]mainPoint{}
	mainAcceptedMaxValue, mainFirstRefused, mainLastAccepted := 0, -1, -1
	for _, force := range []bool{true, false} {
		for l := 0; l <= 2600; l += 20 {
			c := &vfCSCase{ID: id, Kind: "main", L: l, Force: force}
			id++
			line := m.observe(c)
			out.put(c)
			mainTab[force] = append(mainTab[force], mainPoint{l, c.Line})
			if line != "" {
				attrs[fmt.Sprintf("main/secure=%v", force)] = vfCSAttrs(line)
				if a, ok := vfCSMaxAge(line); ok {
					maxAges[a] = true
				}
				v := strings.SplitN(strings.SplitN(line, ";", 2)[0], "=", 2)
				if len(v) == 2 && len(v[1]) > mainAcceptedMaxValue {
					mainAcceptedMaxValue = len(v[1])
				}
				if force && l > mainLastAccepted {
					mainLastAccepted = l
				}
			} else if force && mainFirstRefused < 0 {
				mainFirstRefused = l
			}
			if l%400 == 0 {
				l2, err2 := m.point("main", l, force, true)
				if (err2 != nil) != c.Refused || (err2 == nil && len(l2) != c.Line) {
					contentDependent = append(contentDependent, map[string]interface{}{"kind": "main", "l": l, "force_https": force, "line_a": c.Line, "line_b": len(l2)})
				}
			}
		}
	}
	// whole sessions, EVERY ID-token length over two and a half chunk periods (so that every residue of the
	// compressed length modulo the chunk size occurs, whatever the splitting rule does with short remainders)
	hi := 5200
	if vfTier() == "thorough" {
		hi = 12000
	}
	for _, force := range []bool{true, false} {
		for l := 1300; l <= hi; l++ {
			c := &vfCSCase{ID: id, Kind: "session", L: l, Force: force}
			id++
			m.observe(c)
			out.put(c)
		}
	}
	// whole sessions with incompressible tokens: every line against the tables
	flow := []map[string]interface{}{}
	flowBad := 0
	for _, size := range []int{10, 900, 1400, 1499, 1500, 1501, 1600, 2900, 3000, 3100, 6000, 20000, 40000} {
		for _, force := range []bool{true, false} {
			tokA := vfCSFill(size, true, r)
			tokR := vfCSFill(size/2+1, true, r)
			lines, err := vfMiscSaveSession(m.sm[force], force, true, "user@example.com", tokA, tokR, "", "", "", "")
			if err != nil {
				flow = append(flow, map[string]interface{}{"token_bytes": size, "force_https": force, "error": vfTrunc(err.Error(), 160)})
				flowBad++
				continue
			}
			for _, base := range []struct{ name, tok string }{{m.names.acc, tokA}, {m.names.ref, tokR}} {
				comp := vfMiscCompress(base.tok)
				var pieces []int
				if len(comp) > max {
					for rest := len(comp); rest > 0; rest -= max {
						if rest > max {
							pieces = append(pieces, max)
						} else {
							pieces = append(pieces, rest)
						}
					}
				}
				// the token cookie
				tl := len(comp)
				if len(comp) > max {
					tl = 0
				}
				got := len(vfCSLineFor(lines, base.name))
				want := tables[fmt.Sprintf("token_%v", force)][tl]
				ok := got == want
				if !ok {
					flowBad++
				}
				if !ok || (size == 3000 && force) {
					flow = append(flow, map[string]interface{}{"token_bytes": len(base.tok), "compressed_bytes": len(comp), "force_https": force, "cookie": base.name, "payload": tl, "line": got, "table": want, "agrees": ok})
				}
				for i, p := range pieces {
					name := fmt.Sprintf("%s_%d", base.name, i)
					got := len(vfCSLineFor(lines, name))
					want := tables[fmt.Sprintf("chunk_%v", force)][p] - (len(m.chunkName()) - len(name))
					ok := got == want
					if !ok {
						flowBad++
					}
					if !ok || (size == 3000 && force) {
						flow = append(flow, map[string]interface{}{"token_bytes": len(base.tok), "compressed_bytes": len(comp), "force_https": force, "cookie": name, "payload": p, "line": got, "table": want, "agrees": ok})
					}
				}
			}
		}
	}
	var ages []int
	for a := range maxAges {
		ages = append(ages, a)
	}
	sort.Ints(ages)
	hasBlock, capLen, capOK := vfMiscCodecInfo(m.sm[true])
	mainOut := map[string]interface{}{}
	for f, tab := range mainTab {
		var rows [][2]int
		for _, p := range tab {
			rows = append(rows, [2]int{p.L, p.Line})
		}
		mainOut[fmt.Sprintf("%v", f)] = rows
	}
	vfWriteJSON(t, "params.json", map[string]interface{}{
		"max_cookie_size":   max,
		"chunk_name":        m.chunkName(),
		"token_name":        m.names.acc,
		"main_name":         m.names.main,
		"chunk_secure":      tables["chunk_true"],
		"chunk_plain":       tables["chunk_false"],
		"token_secure":      tables["token_true"],
		"token_plain":       tables["token_false"],
		"main":              mainOut,
		"attrs":             attrs,
		"max_ages":          ages,
		"content_dependent": contentDependent,
		"flow_checks":       flow,
		"flow_disagreements": flowBad,
		"main_accepted_max_value_len": mainAcceptedMaxValue,
		"main_last_accepted_email":    mainLastAccepted,
		"main_first_refused_email":    mainFirstRefused,
		"codec_block_cipher":          hasBlock,
		"codec_max_length":            capLen,
		"codec_info_ok":               capOK,
		"points":                      id,
	})
}
