//go:build verif

package traefikoidc

// Fake OIDC provider for the world harness: discovery, JWKS, a simulated
// authorization endpoint (called directly by the harness's "browser"), and a
// token endpoint that ENFORCES single-use codes, redirect_uri equality and the
// PKCE S256 relation, with a scriptable behaviour per call.

import (
	"compress/gzip"
	"bytes"
	"crypto"
	"crypto/rand"
	"crypto/rsa"
	"crypto/sha256"
	"encoding/base64"
	"encoding/json"
	"fmt"
	"math/big"
	"net/http"
	"net/http/httptest"
	"net/url"
	"strings"
	"sync"
	"time"
)

var (
	vfProvKeyOnce sync.Once
	vfProvKey     *rsa.PrivateKey
	vfOtherKey    *rsa.PrivateKey // a key the provider does NOT publish
	vfProvKey2    *rsa.PrivateKey // the provider's second published key (providers publish several during a key roll-over)
)

func vfProviderKeys() (*rsa.PrivateKey, *rsa.PrivateKey) {
	vfProvKeyOnce.Do(func() {
		var err error
		if vfProvKey, err = rsa.GenerateKey(rand.Reader, 2048); err != nil {
			panic(err)
		}
		if vfOtherKey, err = rsa.GenerateKey(rand.Reader, 2048); err != nil {
			panic(err)
		}
		if vfProvKey2, err = rsa.GenerateKey(rand.Reader, 2048); err != nil {
			panic(err)
		}
	})
	return vfProvKey, vfOtherKey
}

// vfTokSpec describes an ID token; the model's view of the token is derived from
// this description, never from parsing with the code under test.
type vfTokSpec struct {
	Sub       string        `json:"sub"`
	Email     interface{}   `json:"email"` // string, or another JSON type, or nil (absent)
	Nonce     interface{}   `json:"nonce"` // filled by the provider for login tokens
	ExpIn     int64         `json:"exp_in"` // seconds relative to mint time
	IatIn     int64         `json:"iat_in"`
	NbfIn     *int64        `json:"nbf_in,omitempty"`
	Jti       string        `json:"jti,omitempty"`
	Groups    interface{}   `json:"groups,omitempty"` // any JSON value
	Roles     interface{}   `json:"roles,omitempty"`
	Pad       int           `json:"pad,omitempty"`     // bytes of extra claims
	PadRandom bool          `json:"pad_random,omitempty"` // incompressible padding
	BadSig    bool          `json:"bad_sig,omitempty"`
	WrongAud  bool          `json:"wrong_aud,omitempty"`
	WrongIss  bool          `json:"wrong_iss,omitempty"`
	Extra     map[string]interface{} `json:"extra,omitempty"`
	NoFlavour bool          `json:"no_flavour,omitempty"` // no provider-specific extra claims
}

// the provider's FIRST published key can be rotated (action reconf / rotate_keys): a new key under a new key ID takes its
// place, and tokens signed with a retired key are no longer verifiable by instances that load the key set afterwards.
// Process-wide (cases run one after the other; vfNewWorld resets it)
var (
	vfKey1Cur   *rsa.PrivateKey
	vfKid1Cur   = "vf-key-1"
	vfKidsGone  = map[string]bool{}
	vfRotations int
)

func vfResetRotation() {
	key, _ := vfProviderKeys()
	vfKey1Cur, vfKid1Cur, vfKidsGone = key, "vf-key-1", map[string]bool{}
}

func vfRotateKey1() {
	k, err := rsa.GenerateKey(rand.Reader, 2048)
	if err != nil {
		panic(err)
	}
	vfRotations++
	vfKidsGone[vfKid1Cur] = true
	vfKey1Cur, vfKid1Cur = k, fmt.Sprintf("vf-key-1-r%d", vfRotations)
}

type vfMinted struct {
	Kid   string
	Token string
	Spec  vfTokSpec
	Exp   int64 // unix seconds
	Iat   int64
	Nbf   *int64
}

func vfB64(b []byte) string { return base64.RawURLEncoding.EncodeToString(b) }

func vfMintToken(issuer, clientID string, spec vfTokSpec, r *vfRand) vfMinted {
	key, other := vfProviderKeys()
	now := time.Now().Unix()
	claims := map[string]interface{}{}
	claims["iss"] = issuer
	if spec.WrongIss {
		claims["iss"] = issuer + "/other"
	}
	claims["aud"] = clientID
	if spec.WrongAud {
		claims["aud"] = "some-other-client"
	}
	exp := now + spec.ExpIn
	iat := now + spec.IatIn
	claims["exp"] = exp
	claims["iat"] = iat
	var nbfp *int64
	if spec.NbfIn != nil {
		nbf := now + *spec.NbfIn
		claims["nbf"] = nbf
		nbfp = &nbf
	}
	if spec.Sub != "" {
		claims["sub"] = spec.Sub
	}
	if spec.Email != nil {
		claims["email"] = spec.Email
	}
	if spec.Nonce != nil {
		claims["nonce"] = spec.Nonce
	}
	if spec.Jti != "" {
		claims["jti"] = spec.Jti
	}
	if spec.Groups != nil {
		claims["groups"] = spec.Groups
	}
	if spec.Roles != nil {
		claims["roles"] = spec.Roles
	}
	// claims real providers add next to (or instead of) the ones the middleware is documented to read: other names for
	// the user (Azure AD / ADFS / Keycloak), verification marks, hosted domains, session and tenant identifiers.  The
	// second identity they name is NOT the token's e-mail: nothing of it may ever be used
	if r != nil && !spec.NoFlavour {
		shadow := fmt.Sprintf("shadow%d@example.com", r.intn(90)+10)
		var fl map[string]interface{}
		switch r.intn(9) {
		case 0:
			fl = map[string]interface{}{"preferred_username": shadow, "upn": shadow, "unique_name": shadow, "tid": "9188040d-6c67-4c5b-b112-36a304b66dad",
				"oid": "00000000-0000-0000-66f3-3332eca7ea81", "ver": "2.0", "name": "Shadow User"}
		case 1:
			fl = map[string]interface{}{"preferred_username": shadow, "email_verified": false, "session_state": "c7e1d6f0", "sid": "c7e1d6f0", "typ": "ID",
				"resource_access": map[string]interface{}{"account": map[string]interface{}{"roles": []interface{}{"admin", "manage-account"}}}}
		case 2:
			fl = map[string]interface{}{"email_verified": "false", "hd": "example.com", "at_hash": "HK6E_P6Dh8Y93mRNtsDB1Q", "emails": []interface{}{shadow},
				"https://example.com/email": shadow, "given_name": "Shadow", "locale": "en"}
		case 3: // namespaced custom claims (Auth0 rules, ADFS / WS-Federation claim types): other applications' business
			fl = map[string]interface{}{"https://other-app.example.org/roles": []interface{}{"admin", "dev"}, "https://other-app.example.org/groups": []interface{}{"admin", "staff"},
				"http://schemas.microsoft.com/ws/2008/06/identity/claims/role": []interface{}{"admin"}, "http://schemas.example.org/ws/claims/groups": []interface{}{"staff", "admin"},
				"http://schemas.xmlsoap.org/ws/2005/05/identity/claims/emailaddress": shadow, "cognito:groups": []interface{}{"admin"}}
		}
		if len(fl) > 0 {
			for k, v := range spec.Extra {
				fl[k] = v
			}
			spec.Extra = fl
		}
	}
	for k, v := range spec.Extra {
		claims[k] = v
	}
	if spec.Pad > 0 {
		if spec.PadRandom {
			b := make([]byte, spec.Pad*3/4+1)
			for i := range b {
				b[i] = byte(r.next())
			}
			claims["pad"] = base64.StdEncoding.EncodeToString(b)[:spec.Pad]
		} else {
			claims["pad"] = strings.Repeat("abcdefgh", spec.Pad/8+1)[:spec.Pad]
		}
	}
	// the provider signs with either of its two published keys (which one depends on the token's subject and e-mail)
	if vfKey1Cur == nil {
		vfResetRotation()
	}
	kid := vfKid1Cur
	key = vfKey1Cur
	hsum := 0
	for _, ch := range spec.Sub + fmt.Sprint(spec.Email) {
		hsum = hsum*31 + int(ch)
	}
	if hsum%3 == 1 {
		kid, key = "vf-key-2", vfProvKey2
	}
	hdr, _ := json.Marshal(map[string]interface{}{"alg": "RS256", "typ": "JWT", "kid": kid})
	pl, _ := json.Marshal(claims)
	signing := vfB64(hdr) + "." + vfB64(pl)
	h := sha256.Sum256([]byte(signing))
	k := key
	if spec.BadSig {
		k = other
	}
	sig, err := rsa.SignPKCS1v15(rand.Reader, k, crypto.SHA256, h[:])
	if err != nil {
		panic(err)
	}
	return vfMinted{Kid: kid, Token: signing + "." + vfB64(sig), Spec: spec, Exp: exp, Iat: iat, Nbf: nbfp}
}

// ---- the provider

type vfAuthReq struct {
	Nonce       string
	Challenge   string
	RedirectURI string
	Used        bool
	Email       string // when set, the e-mail of the user who logged in at the provider (concurrency harness)
}

type vfTokenCall struct {
	GrantType    string
	Code         string
	RedirectURI  string
	CodeVerifier string
	RefreshToken string
}

// how the token endpoint behaves for the next call
type vfTokenScript struct {
	Kind      string     `json:"kind"` // ok | invalid_grant | invalid_client | server_error | malformed | no_id_token
	Spec      *vfTokSpec `json:"spec,omitempty"` // token to mint (nonce filled in for logins)
	Rotate    bool       `json:"rotate"`         // return a new refresh token
	NoRefresh bool       `json:"no_refresh"`     // login: return no refresh token
	SameToken bool       `json:"same_token"`     // refresh: return the previous ID token again
	RefreshLen int       `json:"refresh_len,omitempty"` // length of the refresh token to issue (0: short)
	ForgeLast  bool      `json:"forge_last,omitempty"`  // the ID token returned is the previous genuine one's header and SIGNATURE around another payload (never acceptable)
	RefreshGz  bool      `json:"refresh_gz,omitempty"`  // the refresh token issued is itself the base64 text of a gzip stream (opaque to the client, as any refresh token)
	NonceMode string     `json:"nonce_mode,omitempty"` // "" own | other | missing
}

type vfProvider struct {
	srv        *httptest.Server
	mu         sync.Mutex
	issuer     string
	clientID   string
	endSession bool
	revocation string // "" none | ok | fail (set before the first discovery request)
	revokeHits int
	challengeMethods []string // advertised as code_challenge_methods_supported when not nil
	jwksGate   chan struct{} // when set: a JWKS request signals jwksArrived and waits for the gate to be closed (concurrency harness)
	jwksArrived chan struct{}
	codes      map[string]*vfAuthReq
	codeSeq    int
	rtSeq      int
	script     *vfTokenScript
	calls      []vfTokenCall
	answers    []vfProvAnswer
	discHits   int
	jwksHits   int
	r          *vfRand
	lastID     string
	minted     []vfMinted
	issuedRT   map[string]bool // refresh tokens this provider issued: anything else is refused, as a conformant provider would
	rtOwner    map[string]string // refresh token -> e-mail of the user it was issued to (concurrency harness)
	// a token endpoint behind a gateway that answers with redirects and keeps the transaction in a cookie: /token stores the
	// form, sets the cookie and redirects to /token/wait (which lets other transactions arrive for txnWait), which redirects
	// to /token/finish, which answers the transaction named by the cookie it is shown
	// the root tenant's endpoints as published NOW (a provider may move them between two metadata refreshes of a client)
	authPath  string   // "" = /authorize
	endPath   string   // "" = /logout
	authPaths []string // every authorization path ever published
	txnRedirect bool
	txnWait     time.Duration
	txnSeq      int
	txnForms    map[string]url.Values
	txnArrivals int
}

func (p *vfProvider) authPathNow() string {
	if p.authPath == "" {
		return "/authorize"
	}
	return p.authPath
}

func (p *vfProvider) endPathNow() string {
	if p.endPath == "" {
		return "/logout"
	}
	return p.endPath
}

// what the provider answered to a token-endpoint call (the model's `ans` input)
type vfProvAnswer struct {
	OK           bool
	InvalidGrant bool
	IDToken      string
	RefreshToken string
}

func vfNewProvider(clientID string, endSession bool, r *vfRand) *vfProvider {
	p := &vfProvider{clientID: clientID, endSession: endSession, codes: map[string]*vfAuthReq{}, r: r, issuedRT: map[string]bool{}, rtOwner: map[string]string{}}
	mux := http.NewServeMux()
	mux.HandleFunc("/.well-known/openid-configuration", func(w http.ResponseWriter, req *http.Request) {
		p.mu.Lock()
		p.discHits++
		p.mu.Unlock()
		p.mu.Lock()
		ap, ep, es := p.authPathNow(), p.endPathNow(), p.endSession
		p.mu.Unlock()
		doc := map[string]string{
			"issuer":                 p.issuer,
			"authorization_endpoint": p.issuer + ap,
			"token_endpoint":         p.issuer + "/token",
			"jwks_uri":               p.issuer + "/jwks",
		}
		if es {
			doc["end_session_endpoint"] = p.issuer + ep
		}
		if p.revocation != "" {
			doc["revocation_endpoint"] = p.issuer + "/revoke"
		}
		w.Header().Set("Content-Type", "application/json")
		if p.challengeMethods != nil {
			full := map[string]interface{}{}
			for k, v := range doc {
				full[k] = v
			}
			full["code_challenge_methods_supported"] = p.challengeMethods
			json.NewEncoder(w).Encode(full)
			return
		}
		w.Header().Set("Content-Type", "application/json")
		json.NewEncoder(w).Encode(doc)
	})
	// a second tenant on the same host: its own discovery document and endpoints under /realms/b
	mux.HandleFunc("/realms/b/.well-known/openid-configuration", func(w http.ResponseWriter, req *http.Request) {
		base := p.issuer + "/realms/b"
		doc := map[string]string{"issuer": base, "authorization_endpoint": base + "/authorize", "token_endpoint": base + "/token", "jwks_uri": p.issuer + "/jwks"}
		if p.endSession {
			doc["end_session_endpoint"] = base + "/logout"
		}
		w.Header().Set("Content-Type", "application/json")
		json.NewEncoder(w).Encode(doc)
	})
	mux.HandleFunc("/jwks", func(w http.ResponseWriter, req *http.Request) {
		p.mu.Lock()
		p.jwksHits++
		gate, arrived := p.jwksGate, p.jwksArrived
		p.mu.Unlock()
		if gate != nil {
			select {
			case arrived <- struct{}{}:
			default:
			}
			<-gate
		}
		vfProviderKeys()
		p.mu.Lock()
		if vfKey1Cur == nil {
			vfResetRotation()
		}
		key, kid1 := vfKey1Cur, vfKid1Cur
		p.mu.Unlock()
		jwk := map[string]string{"kty": "RSA", "kid": kid1, "use": "sig", "alg": "RS256",
			"n": vfB64(key.N.Bytes()), "e": vfB64(big.NewInt(int64(key.E)).Bytes())}
		jwk2 := map[string]string{"kty": "RSA", "kid": "vf-key-2", "use": "sig", "alg": "RS256",
			"n": vfB64(vfProvKey2.N.Bytes()), "e": vfB64(big.NewInt(int64(vfProvKey2.E)).Bytes())}
		w.Header().Set("Content-Type", "application/json")
		json.NewEncoder(w).Encode(map[string]interface{}{"keys": []interface{}{jwk, jwk2}})
	})
	mux.HandleFunc("/token", p.handleToken)
	mux.HandleFunc("/token/finish", p.handleToken)
	mux.HandleFunc("/token/wait", p.handleTokenWait)
	mux.HandleFunc("/revoke", func(w http.ResponseWriter, req *http.Request) {
		p.mu.Lock()
		p.revokeHits++
		mode := p.revocation
		p.mu.Unlock()
		if mode == "ok" {
			w.WriteHeader(200)
			return
		}
		http.Error(w, "revocation unavailable", http.StatusServiceUnavailable)
	})
	p.srv = httptest.NewServer(mux)
	p.issuer = p.srv.URL
	return p
}

func (p *vfProvider) close() { p.srv.Close() }

// authorizeAs is authorize for a named user (the ID token will carry that e-mail)
func (p *vfProvider) authorizeAs(email, nonce, challenge, redirectURI string) string {
	code := p.authorize(nonce, challenge, redirectURI)
	p.mu.Lock()
	p.codes[code].Email = email
	p.mu.Unlock()
	return code
}

// authorize simulates the user agent visiting the authorization endpoint and logging in
func (p *vfProvider) authorize(nonce, challenge, redirectURI string) string {
	p.mu.Lock()
	defer p.mu.Unlock()
	p.codeSeq++
	code := fmt.Sprintf("code-%d-%x", p.codeSeq, p.r.next()&0xffffff)
	p.codes[code] = &vfAuthReq{Nonce: nonce, Challenge: challenge, RedirectURI: redirectURI}
	return code
}

func (p *vfProvider) setScript(s *vfTokenScript) {
	p.mu.Lock()
	p.script = s
	p.mu.Unlock()
}

func (p *vfProvider) takeLog() ([]vfTokenCall, []vfProvAnswer) {
	p.mu.Lock()
	defer p.mu.Unlock()
	c, a := p.calls, p.answers
	p.calls, p.answers = nil, nil
	return c, a
}

func (p *vfProvider) fail(w http.ResponseWriter, status int, code string, invalidGrant bool) {
	p.answers = append(p.answers, vfProvAnswer{OK: false, InvalidGrant: invalidGrant})
	w.Header().Set("Content-Type", "application/json")
	w.WriteHeader(status)
	fmt.Fprintf(w, `{"error":%q,"error_description":"refused by the fake provider"}`, code)
}

func (p *vfProvider) newRefreshToken(n int) string {
	p.rtSeq++
	s := fmt.Sprintf("rt-%d-%x", p.rtSeq, p.r.next())
	if n > len(s) {
		b := make([]byte, (n-len(s))*3/4+3)
		for i := range b {
			b[i] = byte(p.r.next())
		}
		s += base64.RawURLEncoding.EncodeToString(b)[:n-len(s)]
	}
	p.issuedRT[s] = true
	return s
}

func (p *vfProvider) newRefreshTokenFor(sc *vfTokenScript) string {
	if !sc.RefreshGz {
		return p.newRefreshToken(sc.RefreshLen)
	}
	p.rtSeq++
	n := sc.RefreshLen
	if n < 8 {
		n = 8
	}
	payload := make([]byte, n)
	for i := range payload {
		payload[i] = byte(p.r.next()) // incompressible payload: the token's length is about 4/3 of it
	}
	var b bytes.Buffer
	zw := gzip.NewWriter(&b)
	fmt.Fprintf(zw, "rt-%d-", p.rtSeq)
	zw.Write(payload)
	zw.Close()
	s := base64.StdEncoding.EncodeToString(b.Bytes())
	p.issuedRT[s] = true
	return s
}

func (p *vfProvider) handleTokenWait(w http.ResponseWriter, req *http.Request) {
	p.mu.Lock()
	p.txnArrivals++
	seen, wait := p.txnArrivals, p.txnWait
	p.mu.Unlock()
	for end := time.Now().Add(wait); time.Now().Before(end); time.Sleep(200 * time.Microsecond) {
		p.mu.Lock()
		more := p.txnArrivals > seen
		p.mu.Unlock()
		if more { // another transaction has passed the first hop meanwhile
			time.Sleep(2 * time.Millisecond)
			break
		}
	}
	http.Redirect(w, req, p.issuer+"/token/finish", http.StatusTemporaryRedirect)
}

func (p *vfProvider) handleToken(w http.ResponseWriter, req *http.Request) {
	req.ParseForm()
	p.mu.Lock()
	defer p.mu.Unlock()
	if p.txnRedirect {
		if req.URL.Path == "/token" {
			p.txnSeq++
			id := fmt.Sprintf("txn-%d-%x", p.txnSeq, p.r.next()&0xffffff)
			if p.txnForms == nil {
				p.txnForms = map[string]url.Values{}
			}
			p.txnForms[id] = req.Form
			http.SetCookie(w, &http.Cookie{Name: "gw_txn", Value: id, Path: "/"})
			http.Redirect(w, req, p.issuer+"/token/wait", http.StatusTemporaryRedirect)
			return
		}
		ck, err := req.Cookie("gw_txn")
		if err != nil || p.txnForms[ck.Value] == nil {
			p.fail(w, 400, "invalid_request", false)
			return
		}
		req.Form = p.txnForms[ck.Value]
	}
	call := vfTokenCall{GrantType: req.Form.Get("grant_type"), Code: req.Form.Get("code"),
		RedirectURI: req.Form.Get("redirect_uri"), CodeVerifier: req.Form.Get("code_verifier"),
		RefreshToken: req.Form.Get("refresh_token")}
	p.calls = append(p.calls, call)
	sc := p.script
	if sc == nil {
		sc = &vfTokenScript{Kind: "ok"}
	}
	if req.Form.Get("client_id") != p.clientID {
		p.fail(w, 401, "invalid_client", false)
		return
	}
	if sc.Kind == "html_error" || sc.Kind == "html_error_401" {
		// a gateway / WAF in front of the token endpoint answers with its own HTML page that repeats what was submitted
		p.answers = append(p.answers, vfProvAnswer{OK: false})
		w.Header().Set("Content-Type", "text/html; charset=utf-8")
		if sc.Kind == "html_error" {
			w.WriteHeader(400)
		} else {
			w.WriteHeader(401)
		}
		fmt.Fprintf(w, "<html><body><h1>Request blocked</h1><p>code=%s refresh_token=%s</p></body></html>", call.Code, call.RefreshToken)
		return
	}
	nonce := interface{}(nil)
	owner := ""
	if call.GrantType == "refresh_token" {
		owner = p.rtOwner[call.RefreshToken]
	}
	if call.GrantType == "authorization_code" {
		ar, ok := p.codes[call.Code]
		if !ok || ar.Used {
			p.fail(w, 400, "invalid_grant", true)
			return
		}
		ar.Used = true
		if ar.RedirectURI != call.RedirectURI {
			p.fail(w, 400, "invalid_grant", true)
			return
		}
		if ar.Challenge != "" {
			h := sha256.Sum256([]byte(call.CodeVerifier))
			if vfB64(h[:]) != ar.Challenge {
				p.fail(w, 400, "invalid_grant", true)
				return
			}
		}
		nonce = ar.Nonce
		owner = ar.Email
	} else if !p.issuedRT[call.RefreshToken] {
		p.fail(w, 400, "invalid_grant", true)
		return
	}
	switch sc.Kind {
	case "invalid_grant":
		p.fail(w, 400, "invalid_grant", true)
		return
	case "invalid_client":
		p.fail(w, 401, "invalid_client", false)
		return
	case "server_error":
		p.fail(w, 500, "server_error", false)
		return
	case "drop":
		// the provider processes the request, but the connection dies before any answer reaches the client
		p.answers = append(p.answers, vfProvAnswer{OK: false})
		if hj, ok := w.(http.Hijacker); ok {
			if conn, _, err := hj.Hijack(); err == nil {
				conn.Close()
				return
			}
		}
		w.WriteHeader(502)
		return
	case "malformed":
		p.answers = append(p.answers, vfProvAnswer{OK: false})
		w.Header().Set("Content-Type", "application/json")
		w.Write([]byte(`{"id_token": 17, "refresh_`))
		return
	}
	spec := vfTokSpec{Sub: "user-1", Email: "user@example.com", ExpIn: 3600, IatIn: -5}
	if sc.Spec != nil {
		spec = *sc.Spec
	}
	if owner != "" {
		spec.Email = owner
		spec.Sub = "sub-" + owner
	}
	switch sc.NonceMode {
	case "other":
		spec.Nonce = "some-other-nonce"
	case "missing":
		spec.Nonce = nil
	default:
		if call.GrantType == "authorization_code" {
			spec.Nonce = nonce
		}
	}
	var id string
	if sc.ForgeLast && strings.Count(p.lastID, ".") == 2 {
		spec.BadSig = true
		m := vfMintToken(p.issuer, p.clientID, spec, p.r)
		lp, mp := strings.Split(p.lastID, "."), strings.Split(m.Token, ".")
		m.Token = lp[0] + "." + mp[1] + "." + lp[2]
		p.minted = append(p.minted, m)
		id = m.Token
	} else if sc.SameToken && p.lastID != "" {
		id = p.lastID
	} else {
		m := vfMintToken(p.issuer, p.clientID, spec, p.r)
		p.minted = append(p.minted, m)
		id = m.Token
	}
	if sc.Kind == "no_id_token" {
		id = ""
	} else if !sc.ForgeLast {
		p.lastID = id
	}
	rt := ""
	if call.GrantType == "authorization_code" {
		if !sc.NoRefresh {
			rt = p.newRefreshTokenFor(sc)
		}
	} else if sc.Rotate {
		rt = p.newRefreshTokenFor(sc)
	}
	if rt != "" && owner != "" {
		p.rtOwner[rt] = owner
	} else if rt == "" && owner != "" && call.GrantType == "refresh_token" {
		p.rtOwner[call.RefreshToken] = owner
	}
	p.answers = append(p.answers, vfProvAnswer{OK: true, IDToken: id, RefreshToken: rt})
	w.Header().Set("Content-Type", "application/json")
	json.NewEncoder(w).Encode(map[string]interface{}{"id_token": id, "access_token": "at-opaque", "refresh_token": rt,
		"token_type": "Bearer", "expires_in": 3600})
}

func (p *vfProvider) mintedByToken(tok string) *vfMinted {
	p.mu.Lock()
	defer p.mu.Unlock()
	for i := range p.minted {
		if p.minted[i].Token == tok {
			return &p.minted[i]
		}
	}
	return nil
}
