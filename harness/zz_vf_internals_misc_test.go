//go:build verif

package traefikoidc

// Accessors to unexported names used by the C16 / C18 / C09 parameter sweeps
// (zz_vf_escape_test.go, zz_vf_cookiesize_test.go, zz_vf_cryptoparams_test.go).
// See zz_vf_internals_test.go: unexported names are touched only in the
// zz_vf_internals_* files, so a refactor breaks exactly these.

import (
	"net/http"
	"reflect"

	"github.com/gorilla/securecookie"
	"github.com/gorilla/sessions"
)

// vfMiscSendError runs the middleware's own sendErrorResponse on a minimal instance
func vfMiscSendError(rw http.ResponseWriter, req *http.Request, msg string, code int) {
	t := &TraefikOidc{logger: NewLogger("error")}
	t.sendErrorResponse(rw, req, msg, code)
}

func vfMiscNewSessionManager(key string, forceHTTPS bool) (*SessionManager, error) {
	return NewSessionManager(key, forceHTTPS, NewLogger("error"))
}

func vfMiscMaxCookieSize() int { return maxCookieSize }

func vfMiscCookieNames() (main, access, refresh string) {
	return mainCookieName, accessTokenCookie, refreshTokenCookie
}

// vfMiscSaveOne stores one gorilla session of the manager's store under the given cookie
// name with the given values, using the options Save uses, and returns the raw
// Set-Cookie lines (the code path of SessionData.Save for one cookie).
func vfMiscSaveOne(sm *SessionManager, name string, vals map[string]interface{}, secureReq bool) ([]string, error) {
	req, _ := http.NewRequest("GET", "http://sweep.invalid/", nil)
	s, err := sm.store.Get(req, name)
	if s == nil {
		return nil, err
	}
	for k, v := range vals {
		s.Values[k] = v
	}
	s.Options = sm.getSessionOptions(secureReq)
	rec := vfNewRecorder()
	if err := s.Save(req, rec); err != nil {
		return nil, err
	}
	return rec.Header().Values("Set-Cookie"), nil
}

// vfMiscSaveSession writes a whole session through GetSession / setters / Save and returns
// the raw Set-Cookie lines, or the error Save returned.
func vfMiscSaveSession(sm *SessionManager, https bool, authenticated bool, email, idToken, refreshToken, csrf, nonce, verifier, incoming string) ([]string, error) {
	u := "http://sweep.invalid/"
	if https {
		u = "https://sweep.invalid/"
	}
	req, _ := http.NewRequest("GET", u, nil)
	sd, err := sm.GetSession(req)
	if err != nil {
		return nil, err
	}
	if authenticated {
		sd.SetAuthenticated(true)
	}
	if email != "" {
		sd.SetEmail(email)
	}
	if idToken != "" {
		sd.SetAccessToken(idToken)
	}
	if refreshToken != "" {
		sd.SetRefreshToken(refreshToken)
	}
	if csrf != "" {
		sd.SetCSRF(csrf)
	}
	if nonce != "" {
		sd.SetNonce(nonce)
	}
	if verifier != "" {
		sd.SetCodeVerifier(verifier)
	}
	if incoming != "" {
		sd.SetIncomingPath(incoming)
	}
	rec := vfNewRecorder()
	if err := sd.Save(req, rec); err != nil {
		return nil, err
	}
	return rec.Header().Values("Set-Cookie"), nil
}

func vfMiscCompress(s string) string { return compressToken(s) }

// vfMiscCodecInfo: does the store's first codec hold a block cipher, and what is its length cap
// (read by reflection: securecookie keeps both unexported; evidence only, never a verdict)
func vfMiscCodecInfo(sm *SessionManager) (hasBlock bool, maxLength int, ok bool) {
	cs, isCS := sm.store.(*sessions.CookieStore)
	if !isCS || len(cs.Codecs) == 0 {
		return false, 0, false
	}
	sc, isSC := cs.Codecs[0].(*securecookie.SecureCookie)
	if !isSC {
		return false, 0, false
	}
	v := reflect.ValueOf(sc).Elem()
	b := v.FieldByName("block")
	m := v.FieldByName("maxLength")
	if !b.IsValid() || !m.IsValid() {
		return false, 0, false
	}
	return !b.IsNil(), int(m.Int()), true
}

// vfMiscLoad reads a session from the given cookies through the real SessionManager and returns what its getters say
func vfMiscLoad(sm *SessionManager, cookies map[string]string) (auth bool, email, acc, ref string, err error) {
	req, _ := http.NewRequest("GET", "https://sweep.invalid/", nil)
	for n, v := range cookies {
		req.AddCookie(&http.Cookie{Name: n, Value: v})
	}
	sd, err := sm.GetSession(req)
	if err != nil {
		return false, "", "", "", err
	}
	return sd.GetAuthenticated(), sd.GetEmail(), sd.GetAccessToken(), sd.GetRefreshToken(), nil
}
