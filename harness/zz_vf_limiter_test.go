//go:build verif

package traefikoidc

// Correspondence harness for the verification rate limiter (property C19).
//
//  (i)   builds middleware instances through New() for several configured
//        rateLimit values and reads Limit()/Burst() of the limiter New() built;
//  (ii)  drives the REAL limiter object of an instance built by New() with
//        AllowN(base+offset, 1) at generated explicit instants and records
//        admitted/refused per arrival;
//  (iii) supporting (testing): a verification refused by the limiter performs
//        nothing (no JWKS lookup, nothing cached), and verifications answered
//        from the verified-token cache do not consume the limiter;
//  (iv)  thorough tier only: a short real-time run through the pre-verification
//        step at 0.8x and 2x the limit.

import (
	"context"
	"crypto"
	"crypto/rand"
	"crypto/rsa"
	"crypto/sha256"
	"encoding/base64"
	"encoding/json"
	"fmt"
	"math/big"
	"net/http"
	"net/http/httptest"
	"os"
	"strings"
	"sync/atomic"
	"testing"
	"time"
)

type vfLimCase struct {
	ID        int     `json:"id"`
	Kind      string  `json:"kind"`
	N         int     `json:"n"`  // configured rateLimit
	Ts        []int64 `json:"ts"` // arrival instants, ns after the case's base instant, non-decreasing
	RateMilli int64   `json:"rate_milli,omitempty"`
	Burst     int     `json:"burst,omitempty"`
	Adm       string  `json:"adm,omitempty"` // per arrival: '1' admitted, '0' refused
}

var vfLimConfigured = []int{10, 25, 100, 1000}

// configured limits whose limiter construction is measured ("for all configured limits": every value
// from the minimum to 130, then a spread including values that do not divide 1000 or 10^9 and values above 1000)
var vfLimSampled = func() []int {
	var l []int
	for n := 10; n <= 130; n++ {
		l = append(l, n)
	}
	return append(l, 150, 175, 199, 200, 250, 300, 333, 400, 500, 600, 750, 999, 1000, 1001, 1024, 1500, 2000, 3000, 5000, 10000)
}()

// limits beyond the usual ones for which arrival patterns are run as well
var vfLimOdd = []int{150, 400, 600, 1500}

// ---- a minimal provider (discovery + JWKS) on the loopback interface

type vfLimProvider struct {
	srv      *httptest.Server
	key      *rsa.PrivateKey
	jwksHits int64
	tokenHits int64
}

func vfLimNewProvider(t testing.TB) *vfLimProvider {
	key, err := rsa.GenerateKey(rand.Reader, 2048)
	if err != nil {
		t.Fatalf("rsa key: %v", err)
	}
	p := &vfLimProvider{key: key}
	mux := http.NewServeMux()
	mux.HandleFunc("/.well-known/openid-configuration", func(w http.ResponseWriter, r *http.Request) {
		u := p.srv.URL
		w.Header().Set("Content-Type", "application/json")
		json.NewEncoder(w).Encode(map[string]string{
			"issuer": u, "authorization_endpoint": u + "/auth", "token_endpoint": u + "/token",
			"jwks_uri": u + "/jwks", "revocation_endpoint": u + "/revoke", "end_session_endpoint": u + "/end",
		})
	})
	mux.HandleFunc("/jwks", func(w http.ResponseWriter, r *http.Request) {
		atomic.AddInt64(&p.jwksHits, 1)
		w.Header().Set("Content-Type", "application/json")
		json.NewEncoder(w).Encode(p.jwks())
	})
	// token endpoint (refresh grants only): a fresh one-hour ID token for the same user, refresh token rotated
	mux.HandleFunc("/token", func(w http.ResponseWriter, r *http.Request) {
		atomic.AddInt64(&p.tokenHits, 1)
		now := time.Now().Unix()
		claims := map[string]interface{}{"iss": p.srv.URL, "aud": "vf-client", "sub": "vf-refreshed", "email": "r@example.com",
			"iat": now - 1, "exp": now + 3600, "jti": fmt.Sprintf("vf-rf-%d", time.Now().UnixNano())}
		r.ParseForm()
		if code := r.Form.Get("code"); strings.HasPrefix(code, "n:") { // authorization-code grant of the harness: the code names the nonce to return
			claims["nonce"] = code[2:]
		}
		id := p.sign(t, claims)
		w.Header().Set("Content-Type", "application/json")
		json.NewEncoder(w).Encode(map[string]interface{}{"id_token": id, "access_token": "at", "refresh_token": fmt.Sprintf("rt-%d", now), "token_type": "Bearer", "expires_in": 3600})
	})
	p.srv = httptest.NewServer(mux)
	return p
}

func (p *vfLimProvider) jwks() *JWKSet {
	pub := p.key.PublicKey
	return &JWKSet{Keys: []JWK{{
		Kty: "RSA", Kid: "vf-k1", Use: "sig", Alg: "RS256",
		N: base64.RawURLEncoding.EncodeToString(pub.N.Bytes()),
		E: base64.RawURLEncoding.EncodeToString(big.NewInt(int64(pub.E)).Bytes()),
	}}}
}

// sign mints an RS256 ID token that the middleware accepts
func (p *vfLimProvider) sign(t testing.TB, claims map[string]interface{}) string {
	return p.signKid(t, "vf-k1", claims)
}

// signKid: the same, naming another key in the header (a key the provider has retired: not in its key set any more)
func (p *vfLimProvider) signKid(t testing.TB, kid string, claims map[string]interface{}) string {
	enc := func(v interface{}) string {
		b, err := json.Marshal(v)
		if err != nil {
			t.Fatalf("marshal: %v", err)
		}
		return base64.RawURLEncoding.EncodeToString(b)
	}
	signed := enc(map[string]string{"alg": "RS256", "kid": kid, "typ": "JWT"}) + "." + enc(claims)
	h := sha256.Sum256([]byte(signed))
	sig, err := rsa.SignPKCS1v15(rand.Reader, p.key, crypto.SHA256, h[:])
	if err != nil {
		t.Fatalf("sign: %v", err)
	}
	return signed + "." + base64.RawURLEncoding.EncodeToString(sig)
}

// counting stand-in for the JWKS cache: every key-set lookup of a verification is counted
type vfLimCountingJWKS struct {
	set   *JWKSet
	calls int64
}

func (c *vfLimCountingJWKS) GetJWKS(ctx context.Context, jwksURL string, httpClient *http.Client) (*JWKSet, error) {
	atomic.AddInt64(&c.calls, 1)
	return c.set, nil
}
func (c *vfLimCountingJWKS) Cleanup() {}

// vfLimNew builds an instance exactly as Traefik would: through New()
func vfLimNew(t testing.TB, providerURL string, n int) *TraefikOidc {
	cfg := CreateConfig()
	cfg.ProviderURL = providerURL
	cfg.CallbackURL = "/cb"
	cfg.ClientID = "vf-client"
	cfg.ClientSecret = "vf-secret"
	cfg.SessionEncryptionKey = "vf-0123456789abcdef0123456789abcdef0123456789abcdef"
	cfg.LogLevel = "error"
	cfg.RateLimit = n
	next := http.HandlerFunc(func(w http.ResponseWriter, r *http.Request) { w.WriteHeader(200) })
	h, err := New(context.Background(), next, cfg, "vf")
	if err != nil {
		t.Fatalf("New(rateLimit=%d): %v", n, err)
	}
	inst := vfLimInstance(h)
	if inst == nil {
		t.Fatalf("New() did not return a *TraefikOidc")
	}
	return inst
}

// ---- (ii) one case on the real limiter of a fresh instance

// vfLimRunRealTime drives the limiter through the CALL SITE (performPreVerificationChecks, what
// VerifyToken runs first) in real time: 6n verifications back to back, a pause, then n more.
// Arrival instants are read from the clock just before each call, so the limiter sees an instant
// a little later than the recorded one: never fewer tokens than the model computes.
func vfLimRunRealTime(t testing.TB, providerURL string, cs *vfLimCase) {
	inst := vfLimNew(t, providerURL, cs.N)
	cs.RateMilli, cs.Burst = vfLimMeasure(inst)
	base := time.Now()
	var adm []byte
	cs.Ts = cs.Ts[:0]
	call := func() {
		cs.Ts = append(cs.Ts, time.Since(base).Nanoseconds())
		if err := vfLimPreChecks(inst, "not.a.token"); err != nil && strings.Contains(err.Error(), "rate limit") {
			adm = append(adm, '0')
		} else {
			adm = append(adm, '1')
		}
	}
	for i := 0; i < 6*cs.N; i++ {
		call()
	}
	time.Sleep(1200 * time.Millisecond)
	for i := 0; i < cs.N; i++ {
		call()
	}
	cs.Adm = string(adm)
}

func vfLimRunCase(t testing.TB, providerURL string, cs *vfLimCase) {
	if strings.HasPrefix(cs.Kind, "rt-") {
		vfLimRunRealTime(t, providerURL, cs)
		return
	}
	inst := vfLimNew(t, providerURL, cs.N)
	cs.RateMilli, cs.Burst = vfLimMeasure(inst)
	lim := vfLimLimiter(inst)
	base := time.Now()
	adm := make([]byte, len(cs.Ts))
	for i, d := range cs.Ts {
		if lim.AllowN(base.Add(time.Duration(d)), 1) {
			adm[i] = '1'
		} else {
			adm[i] = '0'
		}
	}
	cs.Adm = string(adm)
}

// ---- generators: arrival patterns as segments appended to a growing list

type vfLimGen struct {
	r   *vfRand
	n   int
	p   int64 // ns per token at the configured limit
	now int64
	ts  []int64
}

func (g *vfLimGen) burst(k int) {
	for i := 0; i < k; i++ {
		g.ts = append(g.ts, g.now)
	}
}
func (g *vfLimGen) gap(d int64) { g.now += d }

// steady: k arrivals, one every `spacing` ns (the first one `spacing` after the current instant)
func (g *vfLimGen) steady(spacing int64, k int) {
	for i := 0; i < k; i++ {
		g.now += spacing
		g.ts = append(g.ts, g.now)
	}
}
func (g *vfLimGen) jitter(k int) {
	for i := 0; i < k; i++ {
		g.now += int64(g.r.intn(int(2*g.p) + 1))
		g.ts = append(g.ts, g.now)
	}
}

// spacing for a stream at num/den times the limit
func (g *vfLimGen) at(num, den int64) int64 { return g.p * den / num }

var vfLimRates = [][2]int64{{8, 10}, {1, 1}, {12, 10}, {2, 1}} // 0.8x 1x 1.2x 2x
var vfLimRateNames = []string{"0.8x", "1x", "1.2x", "2x"}
var vfLimGapsMs = []int{1, 10, 50, 100, 250, 500, 999, 1000, 1001, 1500, 3000}

func vfLimPickN(r *vfRand) int {
	x := r.intn(12)
	switch {
	case x < 4:
		return 10
	case x < 8:
		return 25
	case x < 11:
		return 100
	}
	return 1000
}

func vfGenLimCase(r *vfRand, id int) *vfLimCase {
	n := vfLimPickN(r)
	g := &vfLimGen{r: r, n: n, p: int64(time.Second) / int64(n)}
	budget := 400
	if n == 1000 {
		budget = 1300
	}
	kind := ""
	room := func() int { return budget - len(g.ts) }
	clip := func(k int) int {
		if k > room() {
			k = room()
		}
		if k < 0 {
			k = 0
		}
		return k
	}
	switch r.intn(7) {
	case 0: // one burst, possibly a second one a little later
		kind = "burst"
		g.burst(clip(n/2 + r.intn(2*n+n/2+6)))
		if r.chance(1, 2) {
			g.gap(int64(r.pick(vfLimGapsMs)) * int64(time.Millisecond))
			g.burst(clip(1 + r.intn(n+5)))
		}
	case 1, 2: // burst exhausted, then a steady stream
		i := r.intn(len(vfLimRates))
		kind = "drain+steady-" + vfLimRateNames[i]
		g.burst(n + r.intn(3))
		g.steady(g.at(vfLimRates[i][0], vfLimRates[i][1]), clip(20+r.intn(180)))
	case 3: // steady stream from a full bucket
		i := r.intn(len(vfLimRates))
		kind = "steady-" + vfLimRateNames[i]
		g.steady(g.at(vfLimRates[i][0], vfLimRates[i][1]), clip(20+r.intn(380)))
	case 4: // bursts separated by gaps
		kind = "gaps"
		for room() > 0 && (len(g.ts) < 20 || r.chance(3, 4)) {
			g.burst(clip(1 + r.intn(n+n/2+3)))
			g.gap(int64(r.pick(vfLimGapsMs)) * int64(time.Millisecond))
		}
	case 5: // arrivals one nanosecond around the instant a token becomes available
		kind = "edge"
		g.burst(n)
		for room() > 0 && (len(g.ts) < n+20 || r.chance(9, 10)) {
			g.steady(g.p+int64(r.pick([]int{-1, 0, 1, -1, 0, 2, -2})), 1)
		}
	default:
		kind = "mixture"
		for room() > 0 && (len(g.ts) < 20 || r.chance(4, 5)) {
			switch r.intn(5) {
			case 0:
				g.burst(clip(1 + r.intn(n+3)))
			case 1:
				g.gap(int64(r.pick(vfLimGapsMs)) * int64(time.Millisecond))
			case 2:
				i := r.intn(len(vfLimRates))
				g.steady(g.at(vfLimRates[i][0], vfLimRates[i][1]), clip(1+r.intn(60)))
			case 3:
				g.jitter(clip(1 + r.intn(40)))
			default:
				g.burst(clip(n))
			}
		}
	}
	if len(g.ts) == 0 {
		g.burst(1)
	}
	return &vfLimCase{ID: id, Kind: kind, N: n, Ts: g.ts}
}

// minimised regression patterns, run before anything generated
func vfLimCorpus() []*vfLimCase {
	var out []*vfLimCase
	// through the call site, in real time: refusals must not delay later admissions
	out = append(out, &vfLimCase{Kind: "rt-burst-then-recover", N: 10}, &vfLimCase{Kind: "rt-burst-then-recover", N: 25})
	for _, n := range vfLimConfigured {
		// the whole burst at once, then 15 arrivals spaced exactly 1/n s (defect F12 refuses these)
		g := &vfLimGen{n: n, p: int64(time.Second) / int64(n)}
		g.burst(n)
		g.steady(g.p, 15)
		out = append(out, &vfLimCase{Kind: "corpus-drain+steady-1x", N: n, Ts: g.ts})
	}
	for _, n := range vfLimOdd {
		// limits that do not divide a second evenly, and one above 1000: the whole burst, then one second
		// of arrivals at 1.25 times the limit (upper clause: at most n + n in that window)
		g := &vfLimGen{n: n, p: int64(time.Second) / int64(n)}
		g.burst(n)
		g.steady(int64(time.Second)/int64(n*5/4), n*5/4)
		out = append(out, &vfLimCase{Kind: "corpus-odd-limit-1.25x", N: n, Ts: g.ts})
		g2 := &vfLimGen{n: n, p: int64(time.Second) / int64(n)}
		g2.burst(2*n + 5)
		out = append(out, &vfLimCase{Kind: "corpus-odd-limit-at-once", N: n, Ts: g2.ts})
	}
	for _, n := range []int{10, 25, 100} {
		// 2n+5 at once, the same again just under one second later (upper clause)
		g := &vfLimGen{n: n, p: int64(time.Second) / int64(n)}
		g.burst(2*n + 5)
		g.gap(int64(time.Second) - 1)
		g.burst(2*n + 5)
		out = append(out, &vfLimCase{Kind: "corpus-double-burst", N: n, Ts: g.ts})
	}
	return out
}

// ---- (iii) a refused verification performs nothing; cached verifications are exempt

type vfLimSupport struct {
	Ran                  bool   `json:"ran"`
	ControlVerified      bool   `json:"control_verified"`       // with a token available a fresh token verifies and is cached
	ControlJWKSCalls     int64  `json:"control_jwks_calls"`     // key-set lookups of that verification (>= 1)
	Drained              bool   `json:"drained"`                // limiter brought to refuse
	RefusedNoJti         bool   `json:"refused_no_jti"`         // a token without jti presented while the limiter is drained: refused, nothing examined
	RefusedErr           bool   `json:"refused_err"`            // the verification attempted then returned an error
	RefusedJWKSCalls     int64  `json:"refused_jwks_calls"`     // key-set lookups during it (must be 0)
	RefusedCached        bool   `json:"refused_cached"`         // must be false
	RefusedCacheGrowth   int    `json:"refused_cache_growth"`   // verified-token cache + blacklist entries added (must be 0)
	RefusedReplayRecord  bool   `json:"refused_replay_record"`  // jti recorded by the replay map (must be false)
	AcceptedAfterRefill  bool   `json:"accepted_after_refill"`  // the same token verifies once a token is available again
	CachedCalls          int    `json:"cached_calls"`           // verifications of an already verified token with the limiter drained
	CachedOK             int    `json:"cached_ok"`              // of which succeeded (must be all)
	CachedConsumedTokens bool   `json:"cached_consumed_tokens"` // did they move the limiter (must be false)
	// traffic on already authenticated sessions: sessions issued by another instance of the deployment (nothing
	// about them is cached here), one request each, at once, on an instance whose limit is the minimum
	SessionRequests  int `json:"session_requests"`
	SessionForwarded int `json:"session_forwarded"` // must be all of them
	// a REFRESH is a full verification: with a token available it succeeds (control), with the limiter drained the
	// refreshed ID token is refused without being verified and the request is not forwarded
	// a burst of rateLimit complete logins on an idle instance: each login is ONE full verification, all are admitted
	LoginBurst         int `json:"login_burst"`
	LoginBurstAdmitted int `json:"login_burst_admitted"`
	// sessions whose ID token names a signing key the provider has retired arrive in numbers (one request each): they are
	// not logins or refreshes; the rateLimit logins that follow at once are all admitted
	StaleKeyRequests       int `json:"stale_key_requests"`
	StaleKeyForwarded      int `json:"stale_key_forwarded"` // must be none (their tokens cannot be verified)
	StaleKeyLogins         int `json:"stale_key_logins"`
	StaleKeyLoginsAdmitted int `json:"stale_key_logins_admitted"`
	RefreshControlForwarded bool `json:"refresh_control_forwarded"`
	RefreshRefusedWhenDrained bool `json:"refresh_refused_when_drained"`
	RefreshDrainedStatus int `json:"refresh_drained_status"`
	OK                   bool   `json:"ok"`
	Why                  string `json:"why,omitempty"`
}

func vfLimSupportRun(t testing.TB, p *vfLimProvider) vfLimSupport {
	var s vfLimSupport
	s.Ran = true
	const n = 10
	inst := vfLimNew(t, p.srv.URL, n)
	if !vfLimWaitInit(inst, 10*time.Second) {
		s.Why = "provider discovery did not complete"
		return s
	}
	fake := &vfLimCountingJWKS{set: p.jwks()}
	vfLimSetJWKCache(inst, fake)
	mint := func(tag string) (string, string) {
		now := time.Now().Unix()
		jti := fmt.Sprintf("vf-jti-%s-%d", tag, time.Now().UnixNano())
		return p.sign(t, map[string]interface{}{
			"iss": vfLimIssuer(inst), "aud": "vf-client", "sub": "vf-user", "email": "u@example.com",
			"iat": now - 5, "exp": now + 600, "jti": jti, "nonce": tag,
		}), jti
	}
	lim := vfLimLimiter(inst)

	// control: a fresh token is verified (this is what a refused one must NOT do)
	tokA, _ := mint("a")
	s.ControlVerified = inst.VerifyToken(tokA) == nil && vfLimTokenCached(inst, tokA)
	s.ControlJWKSCalls = atomic.LoadInt64(&fake.calls)

	// exhaust the burst at one explicit instant slightly in the future, so that the
	// limiter keeps refusing at time.Now() for the next moments whatever its rate
	at := time.Now().Add(50 * time.Millisecond)
	for i := 0; i < 100000 && lim.AllowN(at, 1); i++ {
	}
	s.Drained = !lim.AllowN(at, 1) && lim.TokensAt(time.Now()) < 1

	// a token WITHOUT a jti claim (legal; some providers never send one) is refused just the same while the bucket is empty
	{
		now := time.Now().Unix()
		tokC := p.sign(t, map[string]interface{}{"iss": vfLimIssuer(inst), "aud": "vf-client", "sub": "vf-user-nojti", "email": "u@example.com",
			"iat": now - 5, "exp": now + 600, "nonce": "c"})
		jc := atomic.LoadInt64(&fake.calls)
		s.RefusedNoJti = inst.VerifyToken(tokC) != nil && atomic.LoadInt64(&fake.calls) == jc && !vfLimTokenCached(inst, tokC)
	}
	tokB, jtiB := mint("b")
	c0, b0 := vfLimCacheSizes(inst)
	j0 := atomic.LoadInt64(&fake.calls)
	errB := inst.VerifyToken(tokB)
	s.RefusedErr = errB != nil
	s.RefusedJWKSCalls = atomic.LoadInt64(&fake.calls) - j0
	s.RefusedCached = vfLimTokenCached(inst, tokB)
	c1, b1 := vfLimCacheSizes(inst)
	s.RefusedCacheGrowth = (c1 - c0) + (b1 - b0)
	s.RefusedReplayRecord = vfLimReplayHas(jtiB)

	// already verified tokens are answered from the cache: not subject to the limit
	before := lim.TokensAt(at)
	s.CachedCalls = n + 20
	for i := 0; i < s.CachedCalls; i++ {
		if inst.VerifyToken(tokA) == nil {
			s.CachedOK++
		}
	}
	s.CachedConsumedTokens = lim.TokensAt(at) < before-1e-9

	// once a token is available again the refused token verifies: it was refused by the limiter only
	deadline := time.Now().Add(3 * time.Second)
	for time.Now().Before(deadline) && lim.TokensAt(time.Now()) < 1 {
		time.Sleep(10 * time.Millisecond)
	}
	s.AcceptedAfterRefill = inst.VerifyToken(tokB) == nil

	// sessions of a previous instance arriving all at once on a fresh one: none may be turned away by the limiter
	{
		fresh := vfLimNew(t, p.srv.URL, n)
		if vfLimWaitInit(fresh, 10*time.Second) {
			vfLimSetJWKCache(fresh, &vfLimCountingJWKS{set: p.jwks()})
			s.SessionRequests = 3*n + 5
			for i := 0; i < s.SessionRequests; i++ {
				now := time.Now().Unix()
				tok := p.sign(t, map[string]interface{}{
					"iss": vfLimIssuer(fresh), "aud": "vf-client", "sub": fmt.Sprintf("vf-user-%d", i), "email": fmt.Sprintf("u%d@example.com", i),
					"iat": now - 5, "exp": now + 3600, "nonce": fmt.Sprintf("s%d", i),
				})
				cookies, err := vfLimMintSession(inst, fmt.Sprintf("u%d@example.com", i), tok) // minted by the OTHER instance
				if err != nil {
					continue
				}
				req := httptest.NewRequest("GET", "http://app.example.test/page", nil)
				for _, c := range cookies {
					req.AddCookie(c)
				}
				rec := httptest.NewRecorder()
				fresh.ServeHTTP(rec, req)
				if rec.Code == 200 {
					s.SessionForwarded++
				}
			}
		}
	}

	// logins: rateLimit of them at once on an idle instance
	{
		const nb = 20
		linst := vfLimNew(t, p.srv.URL, nb)
		if vfLimWaitInit(linst, 10*time.Second) {
			vfLimSetJWKCache(linst, &vfLimCountingJWKS{set: p.jwks()})
			s.LoginBurst = nb
			for i := 0; i < nb; i++ {
				csrf, nonce := fmt.Sprintf("state-%d", i), fmt.Sprintf("nonce-%d", i)
				cookies, err := vfLimMintLogin(linst, csrf, nonce)
				if err != nil {
					continue
				}
				req := httptest.NewRequest("GET", "http://app.example.test/cb?state="+csrf+"&code=n:"+nonce, nil)
				for _, c := range cookies {
					req.AddCookie(c)
				}
				rec := httptest.NewRecorder()
				linst.ServeHTTP(rec, req)
				if rec.Code == 302 {
					s.LoginBurstAdmitted++
				}
			}
		}
	}
	// sessions signed with a retired key, then logins
	{
		kinst := vfLimNew(t, p.srv.URL, n)
		if vfLimWaitInit(kinst, 10*time.Second) {
			vfLimSetJWKCache(kinst, &vfLimCountingJWKS{set: p.jwks()})
			s.StaleKeyRequests = 3 * n
			for i := 0; i < s.StaleKeyRequests; i++ {
				now := time.Now().Unix()
				tok := p.signKid(t, "vf-k0-retired", map[string]interface{}{
					"iss": vfLimIssuer(kinst), "aud": "vf-client", "sub": fmt.Sprintf("vf-old-%d", i), "email": fmt.Sprintf("old%d@example.com", i),
					"iat": now - 5, "exp": now + 3600, "nonce": fmt.Sprintf("o%d", i)})
				cookies, err := vfLimMintSession(inst, fmt.Sprintf("old%d@example.com", i), tok)
				if err != nil {
					continue
				}
				req := httptest.NewRequest("GET", "http://app.example.test/page", nil)
				for _, c := range cookies {
					req.AddCookie(c)
				}
				rec := httptest.NewRecorder()
				kinst.ServeHTTP(rec, req)
				if rec.Code == 200 {
					s.StaleKeyForwarded++
				}
			}
			s.StaleKeyLogins = n
			for i := 0; i < n; i++ {
				csrf, nonce := fmt.Sprintf("kstate-%d", i), fmt.Sprintf("knonce-%d", i)
				cookies, err := vfLimMintLogin(kinst, csrf, nonce)
				if err != nil {
					continue
				}
				req := httptest.NewRequest("GET", "http://app.example.test/cb?state="+csrf+"&code=n:"+nonce, nil)
				for _, c := range cookies {
					req.AddCookie(c)
				}
				rec := httptest.NewRecorder()
				kinst.ServeHTTP(rec, req)
				if rec.Code == 302 {
					s.StaleKeyLoginsAdmitted++
				}
			}
		}
	}
	// refreshes are verifications: one with a token available (control), one with the limiter drained
	{
		rinst := vfLimNew(t, p.srv.URL, n)
		if vfLimWaitInit(rinst, 10*time.Second) {
			vfLimSetJWKCache(rinst, &vfLimCountingJWKS{set: p.jwks()})
			send := func(tag string) int {
				now := time.Now().Unix()
				tok := p.sign(t, map[string]interface{}{"iss": vfLimIssuer(rinst), "aud": "vf-client", "sub": "vf-" + tag, "email": tag + "@example.com",
					"iat": now - 600, "exp": now + 20, "nonce": tag}) // inside the refresh grace period
				cookies, err := vfLimMintSessionRT(inst, tag+"@example.com", tok, "rt-"+tag)
				if err != nil {
					return -1
				}
				req := httptest.NewRequest("GET", "http://app.example.test/page", nil)
				for _, c := range cookies {
					req.AddCookie(c)
				}
				rec := httptest.NewRecorder()
				rinst.ServeHTTP(rec, req)
				return rec.Code
			}
			s.RefreshControlForwarded = send("ctl") == 200
			rl := vfLimLimiter(rinst)
			at2 := time.Now().Add(50 * time.Millisecond)
			for i := 0; i < 100000 && rl.AllowN(at2, 1); i++ {
			}
			s.RefreshDrainedStatus = send("drained")
			s.RefreshRefusedWhenDrained = s.RefreshDrainedStatus != 200
		}
	}

	s.OK = s.ControlVerified && s.ControlJWKSCalls >= 1 && s.Drained && s.RefusedErr && s.RefusedNoJti && s.RefusedJWKSCalls == 0 &&
		!s.RefusedCached && s.RefusedCacheGrowth == 0 && !s.RefusedReplayRecord && s.AcceptedAfterRefill &&
		s.CachedOK == s.CachedCalls && !s.CachedConsumedTokens && s.SessionRequests > 0 && s.SessionForwarded == s.SessionRequests &&
		s.RefreshControlForwarded && s.RefreshRefusedWhenDrained && s.LoginBurst > 0 && s.LoginBurstAdmitted == s.LoginBurst &&
		s.StaleKeyLogins > 0 && s.StaleKeyLoginsAdmitted == s.StaleKeyLogins && s.StaleKeyForwarded == 0
	if !s.OK && s.Why == "" {
		switch {
		case !s.ControlVerified || s.ControlJWKSCalls < 1 || !s.Drained:
			s.Why = "harness precondition not met (control verification / draining)"
		case !s.RefusedNoJti:
			s.Why = "a verification of a token without a jti claim was admitted (or examined) although the limiter held no token"
		case !s.RefusedErr:
			s.Why = "a verification was admitted although the limiter held no token"
		case s.RefusedJWKSCalls != 0 || s.RefusedCached || s.RefusedCacheGrowth != 0 || s.RefusedReplayRecord:
			s.Why = "a verification refused by the limiter performed verification work"
		case s.SessionForwarded != s.SessionRequests || s.SessionRequests == 0:
			s.Why = fmt.Sprintf("requests on already authenticated sessions were limited: %d sessions issued by another instance, one request each on a fresh instance with rateLimit %d, only %d forwarded", s.SessionRequests, n, s.SessionForwarded)
		case s.LoginBurstAdmitted != s.LoginBurst || s.LoginBurst == 0:
			s.Why = fmt.Sprintf("logins were admitted below the configured rate: a burst of %d complete logins on an idle instance with rateLimit %d, only %d completed", s.LoginBurst, s.LoginBurst, s.LoginBurstAdmitted)
		case s.StaleKeyForwarded != 0:
			s.Why = fmt.Sprintf("%d of %d sessions whose ID token names a key that is not in the provider's key set were forwarded", s.StaleKeyForwarded, s.StaleKeyRequests)
		case s.StaleKeyLoginsAdmitted != s.StaleKeyLogins || s.StaleKeyLogins == 0:
			s.Why = fmt.Sprintf("logins were refused below the configured rate: after %d requests on sessions whose ID token names a retired signing key (no login, no refresh among them), only %d of %d logins on an instance with rateLimit %d completed", s.StaleKeyRequests, s.StaleKeyLoginsAdmitted, s.StaleKeyLogins, n)
		case !s.RefreshControlForwarded:
			s.Why = "harness precondition not met (a refresh with a limiter token available was not forwarded)"
		case !s.RefreshRefusedWhenDrained:
			s.Why = fmt.Sprintf("a refresh was admitted although the limiter held no token: the request carrying a session in its grace period was answered %d", s.RefreshDrainedStatus)
		case !s.AcceptedAfterRefill:
			s.Why = "the refused token does not verify once a token is available again (refusal not due to the limiter alone, or it left a trace)"
		default:
			s.Why = "verifications of an already verified token were limited or consumed tokens"
		}
	}
	return s
}

// ---- (iv) real time (thorough tier): the pre-verification step at 0.8x and 2x the limit

type vfLimRealTime struct {
	N         int     `json:"n"`
	Factor    float64 `json:"factor"`
	Seconds   float64 `json:"seconds"`
	Offered   int     `json:"offered"`
	Admitted  int     `json:"admitted"`
	LowerNeed int     `json:"lower_need"` // min(offered, n + 0.9*n*seconds) - 2
	UpperMax  int     `json:"upper_max"`  // n + 1.1*n*seconds + 2
	OK        bool    `json:"ok"`
}

func vfLimRealTimeRun(t testing.TB, providerURL string, n int, factor float64, seconds float64) vfLimRealTime {
	inst := vfLimNew(t, providerURL, n)
	res := vfLimRealTime{N: n, Factor: factor, Seconds: seconds}
	spacing := time.Duration(float64(time.Second) / (float64(n) * factor))
	start := time.Now()
	for i := 0; ; i++ {
		due := start.Add(time.Duration(i) * spacing)
		if due.Sub(start) > time.Duration(seconds*float64(time.Second)) {
			break
		}
		for time.Now().Before(due) {
			time.Sleep(200 * time.Microsecond)
		}
		res.Offered++
		if vfLimPreCheck(inst, fmt.Sprintf("vf-not-a-jwt-%d", i)) == nil {
			res.Admitted++
		}
	}
	el := time.Since(start).Seconds()
	need := float64(n) + 0.9*float64(n)*seconds
	if float64(res.Offered) < need {
		need = float64(res.Offered)
	}
	res.LowerNeed = int(need) - 2
	res.UpperMax = int(float64(n)+1.1*float64(n)*el) + 2
	res.OK = res.Admitted >= res.LowerNeed && res.Admitted <= res.UpperMax
	return res
}

// ---- the test

func TestVF_Limiter(t *testing.T) {
	p := vfLimNewProvider(t)
	defer p.srv.Close()
	out := vfOpenLines(t, "cases.jsonl")
	defer out.close()

	// (i) what New() builds
	type sample struct {
		N         int   `json:"n"`
		RateMilli int64 `json:"rate_milli"`
		Burst     int   `json:"burst"`
	}
	var samples []sample
	for _, n := range vfLimSampled {
		inst := vfLimNew(t, p.srv.URL, n)
		rm, b := vfLimMeasure(inst)
		samples = append(samples, sample{N: n, RateMilli: rm, Burst: b})
	}
	params := map[string]interface{}{"samples": samples, "min_rate_limit": MinRateLimit}

	if rp := vfReplayFile(); rp != "" {
		vfReadLines(t, rp, func(line []byte) {
			var cs vfLimCase
			if err := json.Unmarshal(line, &cs); err != nil {
				t.Fatal(err)
			}
			vfLimRunCase(t, p.srv.URL, &cs)
			out.put(&cs)
		})
		vfWriteJSON(t, "params.json", params)
		return
	}

	// (ii) corpus first, then generated arrival patterns
	id := 0
	for _, cs := range vfLimCorpus() {
		cs.ID = id
		vfLimRunCase(t, p.srv.URL, cs)
		out.put(cs)
		id++
	}
	r := vfNewRand(vfSeed()).fork(19)
	n := vfEnvInt("VERIF_N", 300)
	for i := 0; i < n; i++ {
		cs := vfGenLimCase(r, id)
		vfLimRunCase(t, p.srv.URL, cs)
		out.put(cs)
		id++
	}

	// (iii), (iv)
	params["support"] = vfLimSupportRun(t, p)
	if vfTier() == "thorough" && os.Getenv("VERIF_REALTIME") != "0" {
		params["realtime"] = []vfLimRealTime{
			vfLimRealTimeRun(t, p.srv.URL, 25, 0.8, 2.5),
			vfLimRealTimeRun(t, p.srv.URL, 25, 2.0, 2.5),
		}
	}
	vfWriteJSON(t, "params.json", params)
}
