//go:build verif

package traefikoidc

// Accessors to unexported names used by the world harness (see zz_vf_internals_test.go).

import (
	"net/http"
	"time"

	"github.com/gorilla/securecookie"
	"github.com/gorilla/sessions"
)

// vfInstanceCodecs returns the codecs the instance's session store encodes/decodes cookies with
func vfInstanceCodecs(t *TraefikOidc) []securecookie.Codec {
	if cs, ok := t.sessionManager.store.(*sessions.CookieStore); ok {
		return cs.Codecs
	}
	return nil
}

func vfCodecHasBlockKey(t *TraefikOidc) bool {
	// a codec without a block cipher produces values whose inner part is the plain gob encoding:
	// detected behaviourally by the key-less decoder in the C09 harness; here only a helper
	return len(vfInstanceCodecs(t)) > 0
}

// vfWaitReady waits for provider discovery to complete
func vfWaitReady(t *TraefikOidc, d time.Duration) bool {
	select {
	case <-t.initComplete:
		return true
	case <-time.After(d):
		return false
	}
}

func vfEndpoints(t *TraefikOidc) (auth, endSession, issuer string) {
	return t.authURL, t.endSessionURL, t.issuerURL
}

func vfSessionManager(t *TraefikOidc) *SessionManager { return t.sessionManager }

func vfMaxCookieSize() int { return maxCookieSize }

func vfCompress(s string) string { return compressToken(s) }

func vfCookieNames() (string, string, string) { return mainCookieName, accessTokenCookie, refreshTokenCookie }

// vfMintSession writes a session with the given content through the real SessionManager
// (GetSession on an empty request, setters, Save) and returns the Set-Cookie results.
// createdAt != 0 overrides the creation time (seconds since the epoch).
func vfMintSession(sm *SessionManager, authenticated bool, createdAt int64, email, idToken, refreshToken string,
	csrf, nonce, verifier, incoming string) ([]*http.Cookie, error) {
	req, _ := http.NewRequest("GET", "http://mint.invalid/", nil)
	sd, err := sm.GetSession(req)
	if err != nil {
		return nil, err
	}
	if authenticated {
		sd.SetAuthenticated(true)
	}
	if createdAt != 0 {
		sd.mainSession.Values["created_at"] = createdAt
	}
	if email != "" {
		sd.SetEmail(email)
	}
	if idToken != "" {
		sd.SetAccessToken(idToken)
	}
	if refreshToken != "" {
		sd.SetRefreshToken(refreshToken)
	}
	if csrf != "" {
		sd.SetCSRF(csrf)
	}
	if nonce != "" {
		sd.SetNonce(nonce)
	}
	if verifier != "" {
		sd.SetCodeVerifier(verifier)
	}
	if incoming != "" {
		sd.SetIncomingPath(incoming)
	}
	rec := vfNewRecorder()
	if err := sd.Save(req, rec); err != nil {
		return nil, err
	}
	return vfParseSetCookies(rec.Header()), nil
}


func vfDecode(codecs []securecookie.Codec, name, value string, dst *map[interface{}]interface{}) error {
	return securecookie.DecodeMulti(name, value, dst, codecs...)
}

func vfDecompress(s string) string { return decompressToken(s) }

// vfJWKSetLifetime shortens the lifetime of the key-set cache (an exported field of JWKCache,
// reached through the unexported jwkCache field); false when the instance uses another cache type
func vfJWKSetLifetime(t *TraefikOidc, d time.Duration) bool {
	c, ok := t.jwkCache.(*JWKCache)
	if ok {
		c.CacheLifetime = d
	}
	return ok
}

// vfJWKCleanup is what the once-a-minute cleanup tick does to the key-set cache
func vfJWKCleanup(t *TraefikOidc) { t.jwkCache.Cleanup() }

// vfReadTokens loads a session from exactly these cookies through the real SessionManager and returns what its
// getters read; ok=false when GetSession refuses the session as a whole
func vfReadTokens(sm *SessionManager, jar map[string]string) (idToken, refreshToken string, ok bool) {
	req, _ := http.NewRequest("GET", "http://readback.invalid/", nil)
	for n, v := range jar {
		req.AddCookie(&http.Cookie{Name: n, Value: v})
	}
	sd, err := sm.GetSession(req)
	if err != nil || sd == nil {
		return "", "", false
	}
	return sd.GetAccessToken(), sd.GetRefreshToken(), true
}

// vfWorldRefreshTick is what the hourly metadata refresh does (the body of the loop of startMetadataRefresh), after the
// cached provider document has run out: fetch it again and take the endpoints from it
func vfWorldRefreshTick(t *TraefikOidc, providerURL string) {
	c := t.metadataCache
	c.mutex.Lock()
	c.expiresAt = time.Now().Add(-time.Minute)
	c.mutex.Unlock()
	metadata, err := t.metadataCache.GetMetadata(providerURL, t.httpClient, t.logger)
	if err != nil || metadata == nil {
		return
	}
	t.updateMetadataEndpoints(metadata)
}

// vfWorldExpireJWKS lets the cached provider key set of an instance run out (its lifetime is one hour)
func vfWorldExpireJWKS(t *TraefikOidc) {
	if c, ok := t.jwkCache.(*JWKCache); ok {
		c.mutex.Lock()
		c.expiresAt = time.Now().Add(-time.Minute)
		c.mutex.Unlock()
	}
}
