//go:build verif

package traefikoidc

// Correspondence harness for provider discovery (property C20).  A fake
// provider whose discovery endpoint follows a per-instance script of fault
// kinds (then turns healthy); instances built through New(); requests before,
// during and after recovery; deterministic refresh ticks through accessors.
// All cases run in parallel: the retry pauses of the code are real sleeps.

import (
	"context"
	"encoding/json"
	"fmt"
	"net"
	"net/http"
	"net/http/httptest"
	"sort"
	"strings"
	"sync"
	"sync/atomic"
	"syscall"
	"testing"
	"time"
)

// ---- case format (inputs and, filled in by a run, observations)

type vfDiscReq struct {
	At         string `json:"at"`   // start | hit<k> (after the provider answered its k-th discovery request) | waiter
	Path       string `json:"path"` // gated | excluded | callback
	PatienceMs int    `json:"patience_ms"`
	// observations
	Done        bool `json:"done"`
	Status      int  `json:"status"`
	Fwd         bool `json:"fwd"`
	Loc         int  `json:"loc"` // -1 none, 0 not an announced authorization endpoint, else its identity
	Cookies     int  `json:"cookies"`
	OkAfter     int  `json:"ok_after"`
	ReadyBefore bool `json:"ready_before"`
	ReadyAfter  bool `json:"ready_after"`
	ElapsedMs   int  `json:"elapsed_ms"`
}

type vfDiscState struct {
	Hits   int    `json:"hits"`
	Ready  bool   `json:"ready"`
	Ep     [6]int `json:"ep"`
	Cached bool   `json:"cached"`
	RemMin int64  `json:"rem_min"`
}

type vfDiscOp struct {
	O          string   `json:"o"` // serve | script | shift | refresh | cleanup
	Path       string   `json:"path,omitempty"`
	PatienceMs int      `json:"patience_ms,omitempty"`
	Answers    []string `json:"answers,omitempty"`
	Healthy    string   `json:"healthy,omitempty"`
	Min        int      `json:"min,omitempty"`
	// observations
	Req   *vfDiscReq   `json:"req,omitempty"`
	State *vfDiscState `json:"state,omitempty"`
	Stuck bool         `json:"stuck,omitempty"` // refresh: the tick had not returned when the harness stopped waiting
}

type vfDiscCase struct {
	ID        int         `json:"id"`
	Kind      string      `json:"kind"`
	Direct    bool        `json:"direct"`
	TimeoutMs int         `json:"timeout_ms"`
	// the instance is built WITHOUT a configured HTTP client: New() makes its default one, whose overall
	// timeout (measured, not assumed) is what bounds a fetch; timeout_ms is overwritten with that value
	DefaultClient bool `json:"default_client,omitempty"`
	Script    []string    `json:"script"` // refused reset e500 e503 malformed truncated slow | doc1 doc2 doc3 partial empty
	Healthy   string      `json:"healthy"`
	Pre       []vfDiscReq `json:"pre"`
	Ops       []vfDiscOp  `json:"ops"`
	// observations
	Ran        bool     `json:"ran"`
	ReadyMs    int      `json:"ready_ms"` // -1: serving did not start while the harness waited
	ReadyLoc   int      `json:"ready_loc"`
	WaitedMs   int      `json:"waited_ms"`
	InitHits   int      `json:"init_hits"`
	Returned   bool     `json:"returned"` // direct: initializeMetadata returned
	HitTimesMs []int    `json:"hit_times_ms"`
	Served     []string `json:"served"`
	Note       string   `json:"note,omitempty"`
}

var vfDiscFaultKinds = []string{"refused", "reset", "e500", "e503", "malformed", "truncated", "slow", "nobody"}

const vfDiscBudget = 5 // attempts per GetMetadata as read from the source; only used to size the harness's waiting time

func vfDiscIsDoc(a string) bool {
	return strings.HasPrefix(a, "doc") || a == "partial" || a == "empty"
}

func vfDiscDocNum(a string) int {
	switch a {
	case "doc1":
		return 1
	case "doc2":
		return 2
	case "doc3":
		return 3
	case "doc4":
		return 4
	case "partial":
		return 9
	}
	return 0
}

// ---- the fake provider

type vfDiscInst struct {
	mu       sync.Mutex
	key      string
	script   []string
	healthy  string
	hits     int
	okHits   int
	served   []string
	hitTimes []time.Duration
	start    time.Time
	holdMs   int
	timeout  time.Duration
	hitCh    chan int
}

type vfDiscProvider struct {
	srv     *httptest.Server
	base    string
	refused string // address that refuses connections (bound, not listening)
	rfd     int
	mu      sync.Mutex
	inst    map[string]*vfDiscInst
}

var vfDiscFieldNames = [6]string{"", "/auth", "/token", "/jwks", "/revoke", "/end"}

func (p *vfDiscProvider) fieldURL(key string, k, f int) string {
	return fmt.Sprintf("%s/i/%s/d%d%s", p.base, key, k, vfDiscFieldNames[f])
}

func (p *vfDiscProvider) docJSON(key, a string) []byte {
	m := map[string]string{}
	k := vfDiscDocNum(a)
	switch a {
	case "empty":
	case "partial":
		m["issuer"] = p.fieldURL(key, k, 0)
		m["jwks_uri"] = p.fieldURL(key, k, 3)
	case "doc4": // a complete document of a provider without revocation and end-session endpoints
		m["issuer"] = p.fieldURL(key, k, 0)
		m["authorization_endpoint"] = p.fieldURL(key, k, 1)
		m["token_endpoint"] = p.fieldURL(key, k, 2)
		m["jwks_uri"] = p.fieldURL(key, k, 3)
	default:
		m["issuer"] = p.fieldURL(key, k, 0)
		m["authorization_endpoint"] = p.fieldURL(key, k, 1)
		m["token_endpoint"] = p.fieldURL(key, k, 2)
		m["jwks_uri"] = p.fieldURL(key, k, 3)
		m["revocation_endpoint"] = p.fieldURL(key, k, 4)
		m["end_session_endpoint"] = p.fieldURL(key, k, 5)
	}
	b, _ := json.Marshal(m)
	return b
}

// identity of an endpoint string as the Gallina side knows it: 10k+f+1, 0 for "", 999 unknown
func (p *vfDiscProvider) fieldID(key, s string) int {
	if s == "" {
		return 0
	}
	for _, k := range []int{1, 2, 3, 4, 7, 9} {
		for f := 0; f < 6; f++ {
			if s == p.fieldURL(key, k, f) {
				return 10*k + f + 1
			}
		}
	}
	return 999
}

func (p *vfDiscProvider) locID(key, loc string) int {
	if loc == "" {
		return -1
	}
	if i := strings.IndexByte(loc, '?'); i >= 0 {
		loc = loc[:i]
	}
	for _, k := range []int{1, 2, 3, 4} { // authorization endpoints of real documents only (not the typed-wrong answer's)
		if loc == p.fieldURL(key, k, 1) {
			return 10*k + 2
		}
	}
	return 0
}

// next answer of the instance's script; called with in.mu held
func (in *vfDiscInst) pop() (string, int) {
	a := in.healthy
	if len(in.script) > 0 {
		a = in.script[0]
		in.script = in.script[1:]
	}
	in.hits++
	in.hitTimes = append(in.hitTimes, time.Since(in.start))
	if vfDiscIsDoc(a) {
		in.okHits++
		in.served = append(in.served, a)
	}
	return a, in.hits
}

func (in *vfDiscInst) notify(idx int) {
	select {
	case in.hitCh <- idx:
	default:
	}
}

// a refused connection is produced on the client side of the wire: the
// instance's RoundTripper sends the request to an address nobody listens on
func (in *vfDiscInst) popIfRefused() (bool, int) {
	in.mu.Lock()
	defer in.mu.Unlock()
	next := in.healthy
	if len(in.script) > 0 {
		next = in.script[0]
	}
	if next != "refused" {
		return false, 0
	}
	_, idx := in.pop()
	return true, idx
}

type vfDiscRT struct {
	base    http.RoundTripper
	inst    *vfDiscInst
	refused string
}

func (rt *vfDiscRT) RoundTrip(req *http.Request) (*http.Response, error) {
	if strings.HasSuffix(req.URL.Path, "/.well-known/openid-configuration") {
		if yes, idx := rt.inst.popIfRefused(); yes {
			r2 := req.Clone(req.Context())
			r2.URL.Host = rt.refused
			r2.Host = rt.refused
			resp, err := rt.base.RoundTrip(r2)
			rt.inst.notify(idx)
			return resp, err
		}
	}
	return rt.base.RoundTrip(req)
}

func vfDiscNewProvider(t testing.TB) *vfDiscProvider {
	p := &vfDiscProvider{inst: map[string]*vfDiscInst{}}
	// an address that refuses connections for the whole run: bound but not listening
	fd, err := syscall.Socket(syscall.AF_INET, syscall.SOCK_STREAM, 0)
	if err != nil {
		t.Fatalf("socket: %v", err)
	}
	if err := syscall.Bind(fd, &syscall.SockaddrInet4{Port: 0, Addr: [4]byte{127, 0, 0, 1}}); err != nil {
		t.Fatalf("bind: %v", err)
	}
	sa, err := syscall.Getsockname(fd)
	if err != nil {
		t.Fatalf("getsockname: %v", err)
	}
	p.rfd = fd
	p.refused = fmt.Sprintf("127.0.0.1:%d", sa.(*syscall.SockaddrInet4).Port)
	p.srv = httptest.NewServer(http.HandlerFunc(p.handle))
	p.base = p.srv.URL
	return p
}

func (p *vfDiscProvider) close() {
	p.srv.CloseClientConnections()
	p.srv.Close()
	syscall.Close(p.rfd)
}

func (p *vfDiscProvider) newInst(key string, script []string, healthy string, holdMs int, timeout time.Duration) *vfDiscInst {
	in := &vfDiscInst{key: key, script: append([]string(nil), script...), healthy: healthy, holdMs: holdMs,
		timeout: timeout, hitCh: make(chan int, 64), start: time.Now()}
	p.mu.Lock()
	p.inst[key] = in
	p.mu.Unlock()
	return in
}

func (p *vfDiscProvider) client(in *vfDiscInst) *http.Client {
	tr := &http.Transport{
		DisableKeepAlives: true, // one connection per fetch: no transparent retry on a reused connection
		DialContext:       (&net.Dialer{Timeout: 2 * time.Second}).DialContext,
	}
	return &http.Client{Timeout: in.timeout, Transport: &vfDiscRT{base: tr, inst: in, refused: p.refused}}
}

func (p *vfDiscProvider) handle(w http.ResponseWriter, r *http.Request) {
	parts := strings.SplitN(strings.TrimPrefix(r.URL.Path, "/i/"), "/", 2)
	if len(parts) != 2 {
		http.NotFound(w, r)
		return
	}
	p.mu.Lock()
	in := p.inst[parts[0]]
	p.mu.Unlock()
	if in == nil {
		http.NotFound(w, r)
		return
	}
	if parts[1] != ".well-known/openid-configuration" {
		if strings.HasSuffix(parts[1], "/jwks") {
			w.Header().Set("Content-Type", "application/json")
			w.Write([]byte(`{"keys":[]}`))
			return
		}
		http.NotFound(w, r)
		return
	}
	in.mu.Lock()
	a, idx := in.pop()
	hold := 0
	if idx == 1 {
		hold = in.holdMs
	}
	in.mu.Unlock()
	defer in.notify(idx)
	if hold > 0 {
		time.Sleep(time.Duration(hold) * time.Millisecond) // network latency: lets the "start" requests arrive first
	}
	hijack := func() net.Conn {
		hj, ok := w.(http.Hijacker)
		if !ok {
			return nil
		}
		c, _, err := hj.Hijack()
		if err != nil {
			return nil
		}
		return c
	}
	switch a {
	case "reset":
		if c := hijack(); c != nil {
			if tc, ok := c.(*net.TCPConn); ok {
				tc.SetLinger(0)
			}
			c.Close()
		}
	case "e500":
		http.Error(w, "internal error", http.StatusInternalServerError)
	case "e503": // a maintenance page, as load balancers send it: most announce when to come back (the middleware's own back-off decides)
		switch idx % 3 {
		case 1:
			w.Header().Set("Retry-After", "3600")
		case 2:
			w.Header().Set("Retry-After", time.Now().Add(2*time.Hour).UTC().Format(http.TimeFormat))
		}
		http.Error(w, "unavailable", http.StatusServiceUnavailable)
	case "nobody": // 200, the right content type, and not a single byte of body
		w.Header().Set("Content-Type", "application/json")
		w.Header().Set("Content-Length", "0")
		w.WriteHeader(200)
	case "malformed":
		w.Header().Set("Content-Type", "application/json")
		w.Write([]byte(`{"issuer": "http://x.invalid", "authorization_endpoint": [}`))
	case "truncated":
		body := p.docJSON(in.key, "doc1")
		if c := hijack(); c != nil {
			fmt.Fprintf(c, "HTTP/1.1 200 OK\r\nContent-Type: application/json\r\nContent-Length: %d\r\nConnection: close\r\n\r\n", len(body))
			c.Write(body[:len(body)/2])
			c.Close()
		}
	case "typedwrong": // well-formed JSON, 200, but one member has the wrong type: not a usable document (and it names endpoints of its own)
		w.Header().Set("Content-Type", "application/json")
		fmt.Fprintf(w, `{"issuer":%q,"authorization_endpoint":%q,"token_endpoint":["x"],"jwks_uri":%q,"revocation_endpoint":%q,"end_session_endpoint":%q}`,
			p.fieldURL(in.key, 7, 0), p.fieldURL(in.key, 7, 1), p.fieldURL(in.key, 7, 3), p.fieldURL(in.key, 7, 4), p.fieldURL(in.key, 7, 5))
	case "stallbody": // headers and the beginning of the document at once, then nothing: only an overall timeout ends such a fetch
		w.Header().Set("Content-Type", "application/json")
		w.WriteHeader(200)
		w.Write([]byte(`{"issuer":"`))
		if f, ok := w.(http.Flusher); ok {
			f.Flush()
		}
		select {
		case <-r.Context().Done():
		case <-time.After(90 * time.Second):
		}
	case "slow":
		select {
		case <-r.Context().Done():
		case <-time.After(4*in.timeout + 2*time.Second):
		}
	default: // a document
		w.Header().Set("Content-Type", "application/json")
		w.Write(p.docJSON(in.key, a))
	}
}

// ---- running requests against an instance

type vfDiscRun struct {
	p    *vfDiscProvider
	in   *vfDiscInst
	h    http.Handler
	t    *TraefikOidc
	fwd  sync.Map
	next int64
}

func (ru *vfDiscRun) downstream() http.Handler {
	return http.HandlerFunc(func(w http.ResponseWriter, r *http.Request) {
		ru.fwd.Store(r.Header.Get("X-Vf-Req"), true)
		w.WriteHeader(200)
		w.Write([]byte("downstream"))
	})
}

func vfDiscTarget(path string) string {
	switch path {
	case "excluded":
		return "/public/info"
	case "callback":
		return "/cb?code=c0de&state=st4te"
	}
	return "/app/page"
}

func (ru *vfDiscRun) do(q *vfDiscReq) {
	id := fmt.Sprintf("r%d", atomic.AddInt64(&ru.next, 1))
	ctx, cancel := context.WithTimeout(context.Background(), time.Duration(q.PatienceMs)*time.Millisecond)
	defer cancel()
	req := httptest.NewRequest("GET", "http://app.test"+vfDiscTarget(q.Path), nil).WithContext(ctx)
	req.Header.Set("X-Vf-Req", id)
	rec := httptest.NewRecorder()
	q.ReadyBefore = vfDiscReady(ru.t)
	t0 := time.Now()
	ru.h.ServeHTTP(rec, req)
	q.ElapsedMs = int(time.Since(t0) / time.Millisecond)
	q.ReadyAfter = vfDiscReady(ru.t)
	ru.in.mu.Lock()
	q.OkAfter = ru.in.okHits
	ru.in.mu.Unlock()
	q.Done = true
	q.Status = rec.Code
	_, q.Fwd = ru.fwd.Load(id)
	q.Loc = ru.p.locID(ru.in.key, rec.Header().Get("Location"))
	q.Cookies = len(rec.Header()["Set-Cookie"])
}

func (ru *vfDiscRun) state() *vfDiscState {
	st := &vfDiscState{}
	ru.in.mu.Lock()
	st.Hits = ru.in.hits
	ru.in.mu.Unlock()
	st.Ready = vfDiscReady(ru.t)
	ep := vfDiscEndpoints(ru.t)
	for i, s := range ep {
		st.Ep[i] = ru.p.fieldID(ru.in.key, s)
	}
	st.Cached, st.RemMin = vfDiscCacheView(ru.t)
	return st
}

// ---- the waiting time the monitor allows (Spec/DiscoverySpec.v: heal_allowance_ms), mirrored here
// only so that the harness knows how long to wait; the verdict is computed in Coq

func vfDiscDelay(i int) time.Duration {
	d := time.Duration(1<<uint(i)) * time.Second
	if i > 10 || d > 30*time.Second {
		d = 30 * time.Second
	}
	return d
}

func vfDiscHealTime(n int, T time.Duration) time.Duration {
	var tot time.Duration
	k := 0
	for {
		if n < vfDiscBudget {
			for i := 0; i < n; i++ {
				tot += vfDiscDelay(i) + T
			}
			return tot
		}
		for i := 0; i < vfDiscBudget; i++ {
			tot += vfDiscDelay(i) + T
		}
		tot += vfDiscDelay(k)
		k++
		n -= vfDiscBudget
	}
}

func vfDiscAllowance(n int, T time.Duration) time.Duration {
	return vfDiscHealTime(n, T)*9/8 + T + 4*time.Second
}

// ---- one case

func vfDiscRunCase(p *vfDiscProvider, cs *vfDiscCase) {
	if cs.DefaultClient {
		cs.TimeoutMs = int(vfDiscDefaultClientTimeout() / time.Millisecond)
	}
	T := time.Duration(cs.TimeoutMs) * time.Millisecond
	key := fmt.Sprintf("c%d", cs.ID)
	hold := 100
	if cs.Direct {
		hold = 0
	}
	in := p.newInst(key, cs.Script, cs.Healthy, hold, T)
	client := p.client(in)
	url := p.base + "/i/" + key
	wait := vfDiscAllowance(len(cs.Script), T) + 300*time.Millisecond
	ru := &vfDiscRun{p: p, in: in}
	cs.Ran = true
	cs.ReadyMs, cs.ReadyLoc = -1, 0
	pre := make([]vfDiscReq, 0, len(cs.Pre)+1) // inputs only (a replay file carries the previous observations)
	for _, q := range cs.Pre {
		if q.At != "waiter" {
			pre = append(pre, vfDiscReq{At: q.At, Path: q.Path, PatienceMs: q.PatienceMs})
		}
	}
	cs.Pre = pre
	for i := range cs.Ops {
		cs.Ops[i].Req, cs.Ops[i].State = nil, nil
	}
	in.mu.Lock()
	in.start = time.Now()
	start := in.start
	in.mu.Unlock()

	if cs.Direct {
		ru.t = vfDiscBare(client)
		doneCh := make(chan struct{})
		go func() { vfDiscInitialize(ru.t, url); close(doneCh) }() // synchronous in the code: returns when it stops trying
		select {
		case <-doneCh:
			cs.Returned = true
		case <-time.After(wait + 2*time.Second): // still trying (or stuck) long after the bound: recorded as "did not get ready"
			cs.Note = "initializeMetadata had not returned when the harness stopped waiting"
		}
		cs.WaitedMs = int(time.Since(start) / time.Millisecond)
		if cs.Returned && vfDiscReady(ru.t) {
			cs.ReadyMs = cs.WaitedMs
		}
	} else {
		cfg := CreateConfig()
		cfg.ProviderURL = url
		cfg.CallbackURL = "/cb"
		cfg.ClientID = "vf-client"
		cfg.ClientSecret = "vf-secret"
		cfg.SessionEncryptionKey = "0123456789abcdef0123456789abcdef0123456789abcdef"
		cfg.ForceHTTPS = false
		cfg.LogLevel = "error"
		cfg.RateLimit = 100
		cfg.ExcludedURLs = []string{"/public"}
		cfg.HTTPClient = client
		if cs.DefaultClient {
			cfg.HTTPClient = nil
		}
		h, err := New(context.Background(), ru.downstream(), cfg, "vf-disc")
		if err != nil {
			cs.Note = "New: " + err.Error()
			return
		}
		ru.h = h
		ru.t = vfDiscAsOidc(h)
		if ru.t == nil {
			cs.Note = "New did not return *TraefikOidc"
			return
		}
		vfDiscQuiet(ru.t)

		var wg sync.WaitGroup
		byHit := map[int][]int{}
		for i := range cs.Pre {
			at := cs.Pre[i].At
			if at == "start" {
				wg.Add(1)
				go func(q *vfDiscReq) { defer wg.Done(); ru.do(q) }(&cs.Pre[i])
			} else if strings.HasPrefix(at, "hit") {
				var k int
				fmt.Sscanf(at, "hit%d", &k)
				byHit[k] = append(byHit[k], i)
			}
		}
		stop := make(chan struct{})
		var lw sync.WaitGroup
		lw.Add(1)
		go func() { // requests "during": right after the provider answered its k-th discovery request
			defer lw.Done()
			for {
				select {
				case k := <-in.hitCh:
					for _, i := range byHit[k] {
						wg.Add(1)
						go func(q *vfDiscReq) { defer wg.Done(); ru.do(q) }(&cs.Pre[i])
					}
					delete(byHit, k)
				case <-stop:
					return
				}
			}
		}()
		// the waiter: a gated request that waits for readiness, re-issued until it is answered by a login redirect
		waiter := vfDiscReq{At: "waiter", Path: "gated"}
		for {
			rem := wait - time.Since(start)
			if rem <= 0 {
				break
			}
			if rem > 20*time.Second {
				rem = 20 * time.Second
			}
			q := vfDiscReq{At: "waiter", Path: "gated", PatienceMs: int(rem/time.Millisecond) + 1}
			ru.do(&q)
			waiter = q
			if q.Status == 302 {
				cs.ReadyMs = int(time.Since(start) / time.Millisecond)
				cs.ReadyLoc = q.Loc
				if q.Loc < 0 {
					cs.ReadyLoc = 0
				}
				break
			}
			if q.Status != 408 && q.Status != 503 {
				break
			}
			time.Sleep(50 * time.Millisecond)
		}
		cs.WaitedMs = int(time.Since(start) / time.Millisecond)
		close(stop)
		lw.Wait()
		wg.Wait()
		if waiter.Done {
			cs.Pre = append(cs.Pre, waiter) // after every goroutine holding a pointer into cs.Pre is done
		}
	}
	in.mu.Lock()
	cs.InitHits = in.hits
	in.mu.Unlock()

	// operations after initialisation (only when the implementation says it is ready)
	if vfDiscReady(ru.t) {
		for i := range cs.Ops {
			op := &cs.Ops[i]
			switch op.O {
			case "serve":
				if ru.h == nil {
					continue
				}
				q := vfDiscReq{At: "after", Path: op.Path, PatienceMs: op.PatienceMs}
				ru.do(&q)
				op.Req = &q
			case "script":
				in.mu.Lock()
				in.script = append([]string(nil), op.Answers...)
				in.healthy = op.Healthy
				in.mu.Unlock()
			case "shift":
				vfDiscShiftExpiry(ru.t, time.Duration(op.Min)*time.Minute)
			case "refresh":
				// synchronous in the code (the body of the hourly loop): bounded here, a tick that does not come back within
				// the time a whole discovery run may take is recorded and the history goes on without it
				doneCh := make(chan struct{})
				go func() { vfDiscRefreshTick(ru.t, url); close(doneCh) }()
				select {
				case <-doneCh:
				case <-time.After(vfDiscAllowance(vfDiscBudget, T)):
					op.Stuck = true
				}
				if op.Stuck { // the tick still holds the metadata cache: nothing more can be observed on this instance
					cs.Note = fmt.Sprintf("the refresh tick (operation %d) had not returned after %s; the remaining operations were not run", i, vfDiscAllowance(vfDiscBudget, T))
					cs.Ops = cs.Ops[:i]
				}
			case "cleanup":
				vfDiscCleanupTick(ru.t)
			}
			if i >= len(cs.Ops) {
				break
			}
			op.State = ru.state()
		}
	}
	in.mu.Lock()
	cs.Served = append([]string{}, in.served...)
	cs.HitTimesMs = cs.HitTimesMs[:0]
	for _, d := range in.hitTimes {
		cs.HitTimesMs = append(cs.HitTimesMs, int(d/time.Millisecond))
	}
	in.mu.Unlock()
}

// ---- generators

func vfDiscStdPre(n int) []vfDiscReq {
	pre := []vfDiscReq{
		{At: "start", Path: "gated", PatienceMs: 40},
		{At: "start", Path: "excluded", PatienceMs: 40},
		{At: "start", Path: "callback", PatienceMs: 40},
	}
	paths := []string{"excluded", "gated", "callback"}
	for k := 1; k <= n && k <= 6; k++ {
		pre = append(pre, vfDiscReq{At: fmt.Sprintf("hit%d", k), Path: paths[k%3], PatienceMs: 40})
		if k == n {
			pre = append(pre, vfDiscReq{At: fmt.Sprintf("hit%d", k), Path: paths[(k+1)%3], PatienceMs: 60})
		}
	}
	if n >= vfDiscBudget { // not ready for more than 30 s: a client without a deadline of its own gets 503
		pre = append(pre, vfDiscReq{At: "start", Path: "gated", PatienceMs: 40000})
	}
	return pre
}

func vfDiscServe3() []vfDiscOp {
	return []vfDiscOp{
		{O: "serve", Path: "gated", PatienceMs: 3000},
		{O: "serve", Path: "excluded", PatienceMs: 3000},
		{O: "serve", Path: "callback", PatienceMs: 3000},
	}
}

func vfDiscOpsVariant(r *vfRand, v int) []vfDiscOp {
	ops := vfDiscServe3()
	g := vfDiscOp{O: "serve", Path: "gated", PatienceMs: 3000}
	switch v {
	case 0: // expired cache, provider announces new endpoints
		ops = append(ops, vfDiscOp{O: "script", Healthy: "doc2"}, vfDiscOp{O: "shift", Min: 61 + r.intn(120)}, vfDiscOp{O: "refresh"}, g)
	case 1: // tick while the cached document is still valid: no fetch
		ops = append(ops, vfDiscOp{O: "script", Healthy: "doc2"}, vfDiscOp{O: "shift", Min: 5 + r.intn(50)}, vfDiscOp{O: "refresh"}, g)
	case 2: // one failure, then new endpoints (1 s pause)
		f := vfDiscFaultKinds[r.intn(len(vfDiscFaultKinds))]
		ops = append(ops, vfDiscOp{O: "script", Answers: []string{f}, Healthy: "doc3"}, vfDiscOp{O: "shift", Min: 62}, vfDiscOp{O: "refresh"}, g)
	case 3: // valid, then expired and dropped by the cache's own clean-up, then fetched again
		ops = append(ops, vfDiscOp{O: "script", Healthy: "doc2"}, vfDiscOp{O: "shift", Min: 30}, vfDiscOp{O: "cleanup"}, vfDiscOp{O: "refresh"},
			vfDiscOp{O: "shift", Min: 32}, vfDiscOp{O: "cleanup"}, g, vfDiscOp{O: "refresh"}, g,
			vfDiscOp{O: "script", Healthy: "doc1"}, vfDiscOp{O: "shift", Min: 61}, vfDiscOp{O: "refresh"}, g)
	}
	return ops
}

func vfDiscRep(a string, n int) []string {
	out := make([]string, n)
	for i := range out {
		out[i] = a
	}
	return out
}

func vfDiscRandScript(r *vfRand, n int) []string {
	out := make([]string, n)
	for i := range out {
		out[i] = vfDiscFaultKinds[r.intn(len(vfDiscFaultKinds))]
	}
	return out
}

const vfDiscTimeoutMs = 1000

func vfDiscCorpus() []*vfDiscCase {
	g := vfDiscOp{O: "serve", Path: "gated", PatienceMs: 3000}
	x := vfDiscOp{O: "serve", Path: "excluded", PatienceMs: 3000}
	return []*vfDiscCase{
		// a 200 answer that is valid JSON without an issuer: "initialised" but closed until a tick brings a real document
		{Kind: "empty-doc", TimeoutMs: vfDiscTimeoutMs, Script: []string{"empty"}, Healthy: "doc1", Pre: vfDiscStdPre(0),
			Ops: []vfDiscOp{g, x, {O: "serve", Path: "callback", PatienceMs: 3000}, {O: "shift", Min: 61}, {O: "refresh"}, g, x}},
		// a document with an issuer but no authorization endpoint
		{Kind: "partial-doc", TimeoutMs: vfDiscTimeoutMs, Script: []string{"partial"}, Healthy: "doc1", Pre: vfDiscStdPre(0),
			Ops: []vfDiscOp{g, x, {O: "shift", Min: 61}, {O: "refresh"}, g}},
		// first document differs from the later one
		{Kind: "two-docs", TimeoutMs: vfDiscTimeoutMs, Script: []string{"e503", "doc2"}, Healthy: "doc1", Pre: vfDiscStdPre(1),
			Ops: append(vfDiscServe3(), vfDiscOp{O: "shift", Min: 59}, vfDiscOp{O: "refresh"}, g, vfDiscOp{O: "shift", Min: 2}, vfDiscOp{O: "refresh"}, g)},
		// a 200 answer with a wrongly typed member is a failure; the healthy document after it has FEWER endpoints
		{Kind: "typed-wrong-then-smaller-doc", TimeoutMs: vfDiscTimeoutMs, Script: []string{"typedwrong"}, Healthy: "doc4", Pre: vfDiscStdPre(1),
			Ops: []vfDiscOp{g, x, {O: "shift", Min: 61}, {O: "refresh"}, g}},
		// the DEFAULT client (no HTTPClient configured) against a provider that sends headers and then stalls the body
		{Kind: "default-client-stall", DefaultClient: true, Script: []string{"stallbody"}, Healthy: "doc1",
			Pre: []vfDiscReq{{At: "start", Path: "gated", PatienceMs: 40}, {At: "start", Path: "excluded", PatienceMs: 40}}, Ops: []vfDiscOp{g, x}},
		// one full retry budget of failures, then healthy (F13): initializeMetadata called synchronously ...
		{Kind: "budget-direct", Direct: true, TimeoutMs: vfDiscTimeoutMs, Script: vfDiscRep("e500", vfDiscBudget), Healthy: "doc1"},
		// ... and through New(), with requests all along
		{Kind: "budget", TimeoutMs: vfDiscTimeoutMs, Script: vfDiscRep("e500", vfDiscBudget), Healthy: "doc1",
			Pre: vfDiscStdPre(vfDiscBudget), Ops: vfDiscOpsVariant(vfNewRand(1), 0)},
		// refresh tick that fails for a whole budget: cached document kept, 5 more minutes; then recovers
		{Kind: "refresh-fail", TimeoutMs: vfDiscTimeoutMs, Script: nil, Healthy: "doc1", Pre: vfDiscStdPre(0),
			Ops: []vfDiscOp{g, {O: "script", Answers: vfDiscRep("e500", vfDiscBudget), Healthy: "doc2"}, {O: "shift", Min: 61}, {O: "refresh"}, g,
				{O: "refresh"}, {O: "shift", Min: 7}, {O: "refresh"}, g, x}},
		// the cache's clean-up drops the expired document, the tick then fails: endpoints stay, still serving
		{Kind: "cleanup-fail", TimeoutMs: vfDiscTimeoutMs, Script: nil, Healthy: "doc1", Pre: vfDiscStdPre(0),
			Ops: []vfDiscOp{g, {O: "shift", Min: 61}, {O: "cleanup"}, {O: "script", Answers: vfDiscRep("e503", vfDiscBudget), Healthy: "doc2"},
				{O: "refresh"}, g, {O: "refresh"}, g}},
	}
}

func vfDiscGenCases(r *vfRand, tier string) []*vfDiscCase {
	var out []*vfDiscCase
	add := func(kind string, script []string) {
		out = append(out, &vfDiscCase{Kind: kind, TimeoutMs: vfDiscTimeoutMs, Script: script, Healthy: "doc1",
			Pre: vfDiscStdPre(len(script)), Ops: vfDiscOpsVariant(r, r.intn(4))})
	}
	exh := 2
	if tier == "thorough" {
		exh = 3
		// an outage at start-up that outlasts five minutes (ten retry budgets), then a healthy provider: still heals
		add("long-outage", vfDiscRep("e503", 10*vfDiscBudget))
	}
	var enum func(prefix []string, depth int)
	enum = func(prefix []string, depth int) {
		add("enum", append([]string(nil), prefix...))
		if depth == 0 {
			return
		}
		for _, k := range vfDiscFaultKinds {
			enum(append(prefix, k), depth-1)
		}
	}
	enum(nil, exh)
	type lenN struct{ l, n int }
	plan := []lenN{{3, vfEnvInt("VERIF_N3", 40)}, {4, vfEnvInt("VERIF_N4", 8)}, {5, vfEnvInt("VERIF_N5", 2)}}
	if tier == "thorough" {
		plan = []lenN{{4, 20}, {5, 20}, {6, 20}, {7, 20}, {10, 2}, {15, 2}}
	}
	for _, pl := range plan {
		for i := 0; i < pl.n; i++ {
			add("random", vfDiscRandScript(r, pl.l))
		}
	}
	return out
}

// ---- measurement of the retry constants: one discoverProviderMetadata call against a provider that never recovers

func vfDiscMeasure(p *vfDiscProvider) map[string]interface{} {
	T := time.Duration(vfDiscTimeoutMs) * time.Millisecond
	in := p.newInst("measure", nil, "e500", 0, T)
	in.mu.Lock()
	in.start = time.Now()
	start := in.start
	in.mu.Unlock()
	ok := vfDiscDiscover(p.base+"/i/measure", p.client(in))
	ret := time.Since(start)
	in.mu.Lock()
	defer in.mu.Unlock()
	sleeps := []int{}
	for i, ht := range in.hitTimes {
		next := ret
		if i+1 < len(in.hitTimes) {
			next = in.hitTimes[i+1]
		}
		sleeps = append(sleeps, int((next-ht+500*time.Millisecond)/time.Second))
	}
	return map[string]interface{}{"disc_attempts": in.hits, "disc_sleeps_s": sleeps, "disc_failed": !ok}
}

func TestVF_Discovery(t *testing.T) {
	p := vfDiscNewProvider(t)
	defer p.close()
	out := vfOpenLines(t, "cases.jsonl")
	defer out.close()

	var cases []*vfDiscCase
	replay := vfReplayFile()
	if replay != "" {
		vfReadLines(t, replay, func(line []byte) {
			var cs vfDiscCase
			if err := json.Unmarshal(line, &cs); err != nil {
				t.Fatal(err)
			}
			cases = append(cases, &cs)
		})
	} else {
		cases = append(cases, vfDiscCorpus()...)
		cases = append(cases, vfDiscGenCases(vfNewRand(vfSeed()).fork(20), vfTier())...)
		for i, cs := range cases {
			cs.ID = i
		}
	}

	var wg sync.WaitGroup
	var params map[string]interface{}
	if replay == "" {
		wg.Add(1)
		go func() { defer wg.Done(); params = vfDiscMeasure(p) }()
	}
	for _, cs := range cases {
		wg.Add(1)
		go func(cs *vfDiscCase) { defer wg.Done(); vfDiscRunCase(p, cs) }(cs)
	}
	wg.Wait()
	sort.SliceStable(cases, func(i, j int) bool { return cases[i].ID < cases[j].ID })
	for _, cs := range cases {
		out.put(cs)
	}
	if replay == "" {
		for _, cs := range cases {
			if cs.Kind == "budget-direct" {
				params["init_retries_forever"] = cs.Returned && cs.ReadyMs >= 0
			}
			if cs.Kind == "budget" {
				for _, q := range cs.Pre {
					if q.PatienceMs >= 35000 && q.Done && q.Status == 503 {
						params["init_wait_s"] = (q.ElapsedMs + 500) / 1000
					}
				}
			}
		}
		vfWriteJSON(t, "params.json", params)
	}
}
