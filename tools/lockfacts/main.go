// lockfacts: structural lock-discipline facts about the generic Cache of the
// package under verification (property C13; DESIGN.md section 2.3 item 3).
//
// Reads the non-test Go files of the package directory $VERIF_REPO (default
// /repo) with go/parser (standard library only, no type checking: the facts
// are syntactic and name based) and prints one JSON document on stdout:
//
//	methods[]: for every method of Cache / *Cache
//	  name, exported
//	  locks    the body begins with  <recv>.mutex.Lock(); defer <recv>.mutex.Unlock()
//	  touches  the body mentions <recv>.items / .order / .elems / .maxSize
//	  clean    no other mention of <recv>.mutex in the body, no go statement, no function literal
//	  callers  functions of the package that mention <recv>.<name> (methods of Cache, by name) or,
//	           for unexported method names, x.<name> on anything ("file.go:Func")
//	outside[]: mentions of x.items/.order/.elems/.maxSize that are not <recv>.<field> inside a
//	           method of Cache ("file.go:Func:field"); composite-literal keys are not selectors
//	           and are not listed (the constructor fills the struct before publishing it)
//
// bin/props/c13.py turns this into coq/gen/params/ParamsLock.v; the rule that
// reads it is Spec/LockSpec.v (method_locked).
package main

import (
	"encoding/json"
	"fmt"
	"go/ast"
	"go/parser"
	"go/token"
	"os"
	"path/filepath"
	"sort"
	"strings"
)

const typeName = "Cache"
const mutexField = "mutex"

var guarded = map[string]bool{"items": true, "order": true, "elems": true, "maxSize": true}

type method struct {
	Name     string   `json:"name"`
	Exported bool     `json:"exported"`
	Locks    bool     `json:"locks"`
	Touches  bool     `json:"touches"`
	Clean    bool     `json:"clean"`
	Callers  []string `json:"callers"`
	Line     int      `json:"line"`
}

type report struct {
	Dir     string    `json:"dir"`
	File    string    `json:"file"`
	Methods []*method `json:"methods"`
	Outside []string  `json:"outside"`
}

// recvOf returns the receiver identifier and true when fn is a method of Cache or *Cache
func recvOf(fn *ast.FuncDecl) (string, bool) {
	if fn.Recv == nil || len(fn.Recv.List) != 1 {
		return "", false
	}
	t := fn.Recv.List[0].Type
	if s, ok := t.(*ast.StarExpr); ok {
		t = s.X
	}
	id, ok := t.(*ast.Ident)
	if !ok || id.Name != typeName {
		return "", false
	}
	if len(fn.Recv.List[0].Names) == 0 {
		return "_", true
	}
	return fn.Recv.List[0].Names[0].Name, true
}

func isRecvSel(e ast.Expr, recv, field string) bool {
	s, ok := e.(*ast.SelectorExpr)
	if !ok || s.Sel.Name != field {
		return false
	}
	id, ok := s.X.(*ast.Ident)
	return ok && id.Name == recv
}

// isMutexCall: <recv>.mutex.<what>()
func isMutexCall(e ast.Expr, recv, what string) bool {
	c, ok := e.(*ast.CallExpr)
	if !ok || len(c.Args) != 0 {
		return false
	}
	s, ok := c.Fun.(*ast.SelectorExpr)
	if !ok || s.Sel.Name != what {
		return false
	}
	return isRecvSel(s.X, recv, mutexField)
}

func main() {
	dir := os.Getenv("VERIF_REPO")
	if dir == "" {
		dir = "/repo"
	}
	fset := token.NewFileSet()
	names, err := filepath.Glob(filepath.Join(dir, "*.go"))
	if err != nil {
		fmt.Fprintln(os.Stderr, err)
		os.Exit(2)
	}
	sort.Strings(names)
	type fileFn struct {
		file string
		fn   *ast.FuncDecl
	}
	var fns []fileFn
	for _, p := range names {
		if strings.HasSuffix(p, "_test.go") {
			continue
		}
		f, err := parser.ParseFile(fset, p, nil, 0)
		if err != nil {
			fmt.Fprintln(os.Stderr, err)
			os.Exit(2)
		}
		for _, d := range f.Decls {
			if fn, ok := d.(*ast.FuncDecl); ok && fn.Body != nil {
				fns = append(fns, fileFn{filepath.Base(p), fn})
			}
		}
	}
	rep := report{Dir: dir, File: filepath.Join(dir, "cache.go"), Outside: []string{}}
	byName := map[string]*method{}
	for _, ff := range fns {
		if _, ok := recvOf(ff.fn); ok {
			m := &method{Name: ff.fn.Name.Name, Exported: ast.IsExported(ff.fn.Name.Name), Callers: []string{},
				Line: fset.Position(ff.fn.Pos()).Line}
			byName[m.Name] = m
			rep.Methods = append(rep.Methods, m)
		}
	}
	addCaller := func(m *method, who string) {
		for _, c := range m.Callers {
			if c == who {
				return
			}
		}
		m.Callers = append(m.Callers, who)
	}
	for _, ff := range fns {
		recv, isMethod := recvOf(ff.fn)
		who := ff.file + ":" + ff.fn.Name.Name
		var self *method
		if isMethod {
			self = byName[ff.fn.Name.Name]
			who = ff.fn.Name.Name
			body := ff.fn.Body.List
			if len(body) >= 2 {
				if es, ok := body[0].(*ast.ExprStmt); ok && isMutexCall(es.X, recv, "Lock") {
					if ds, ok := body[1].(*ast.DeferStmt); ok && isMutexCall(ds.Call, recv, "Unlock") {
						self.Locks = true
					}
				}
			}
			self.Clean = true
		}
		mutexMentions := 0
		ast.Inspect(ff.fn.Body, func(n ast.Node) bool {
			switch x := n.(type) {
			case *ast.GoStmt, *ast.FuncLit:
				if self != nil {
					self.Clean = false
				}
			case *ast.SelectorExpr:
				name := x.Sel.Name
				onRecv := false
				if id, ok := x.X.(*ast.Ident); ok && isMethod && id.Name == recv {
					onRecv = true
				}
				if guarded[name] {
					if onRecv {
						self.Touches = true
					} else {
						rep.Outside = append(rep.Outside, who+":"+name)
					}
				}
				if onRecv && name == mutexField {
					mutexMentions++
				}
				if m, ok := byName[name]; ok {
					if onRecv {
						addCaller(m, who)
					} else if !m.Exported {
						addCaller(m, ff.file+":"+ff.fn.Name.Name)
					}
				}
			}
			return true
		})
		if self != nil {
			want := 0
			if self.Locks {
				want = 2
			}
			if mutexMentions != want {
				self.Clean = false
			}
		}
	}
	sort.Slice(rep.Methods, func(i, j int) bool { return rep.Methods[i].Line < rep.Methods[j].Line })
	enc := json.NewEncoder(os.Stdout)
	enc.SetIndent("", " ")
	if err := enc.Encode(rep); err != nil {
		fmt.Fprintln(os.Stderr, err)
		os.Exit(2)
	}
}
