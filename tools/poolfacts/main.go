// poolfacts: where does the package hand SessionData objects back to the session pool?
// Reads the non-test Go files of the repository ($VERIF_REPO, default /repo) with go/ast and prints,
// as JSON, every call of the form <x>.sessionPool.Put(<arg>): the enclosing function and whether the
// statement that follows it in the same block is a `return nil, ...` (the object is then never handed
// to a caller).  This is source TEXT feeding the model (property C05): ownership cannot be observed
// by running the code sequentially.
package main

import (
	"encoding/json"
	"go/ast"
	"go/parser"
	"go/token"
	"os"
	"path/filepath"
	"strings"
)

type site struct {
	File             string `json:"file"`
	Func             string `json:"func"`
	Line             int    `json:"line"`
	ThenReturnsNil   bool   `json:"then_returns_nil"`
	ArgIsLocalObject bool   `json:"arg_is_local_object"`
}

func isPut(call *ast.CallExpr) bool {
	sel, ok := call.Fun.(*ast.SelectorExpr)
	if !ok || sel.Sel.Name != "Put" {
		return false
	}
	inner, ok := sel.X.(*ast.SelectorExpr)
	return ok && inner.Sel.Name == "sessionPool"
}

func returnsNilFirst(s ast.Stmt) bool {
	r, ok := s.(*ast.ReturnStmt)
	if !ok || len(r.Results) == 0 {
		return false
	}
	id, ok := r.Results[0].(*ast.Ident)
	return ok && id.Name == "nil"
}

func main() {
	repo := os.Getenv("VERIF_REPO")
	if repo == "" {
		repo = "/repo"
	}
	files, _ := filepath.Glob(filepath.Join(repo, "*.go"))
	fset := token.NewFileSet()
	sites := []site{}
	gets := 0
	for _, f := range files {
		if strings.HasSuffix(f, "_test.go") {
			continue
		}
		af, err := parser.ParseFile(fset, f, nil, 0)
		if err != nil {
			panic(err)
		}
		for _, d := range af.Decls {
			fd, ok := d.(*ast.FuncDecl)
			if !ok || fd.Body == nil {
				continue
			}
			ast.Inspect(fd.Body, func(n ast.Node) bool {
				if c, ok := n.(*ast.CallExpr); ok {
					if sel, ok := c.Fun.(*ast.SelectorExpr); ok && sel.Sel.Name == "Get" {
						if inner, ok := sel.X.(*ast.SelectorExpr); ok && inner.Sel.Name == "sessionPool" {
							gets++
						}
					}
				}
				blk, ok := n.(*ast.BlockStmt)
				if !ok {
					return true
				}
				for i, st := range blk.List {
					es, ok := st.(*ast.ExprStmt)
					if !ok {
						continue
					}
					call, ok := es.X.(*ast.CallExpr)
					if !ok || !isPut(call) {
						continue
					}
					s := site{File: filepath.Base(f), Func: fd.Name.Name, Line: fset.Position(call.Pos()).Line}
					if i+1 < len(blk.List) {
						s.ThenReturnsNil = returnsNilFirst(blk.List[i+1])
					}
					if len(call.Args) == 1 {
						_, s.ArgIsLocalObject = call.Args[0].(*ast.Ident)
					}
					sites = append(sites, s)
				}
				return true
			})
		}
	}
	json.NewEncoder(os.Stdout).Encode(map[string]interface{}{"put_sites": sites, "get_calls": gets})
}
