(* Executable model of /repo/session.go over a browser cookie jar — definitions
   only.  Strings are interned (istr, 0 = ""): only their equality matters at
   this level.  A cookie is symbolic (Dolev-Yao): either sealed under a key for
   one cookie name with a payload, or junk (anything else).  Compressed token
   text is symbolic too: a list of 2000-byte slices of compressToken(t).

   The payload of a cookie is gorilla's Values map: field code -> value.
     main cookie  : 1 authenticated  2 created_at  3 csrf  4 nonce
                    5 code_verifier  6 email       7 incoming_path
     token cookie : 1 token (compressed text, "" when chunked)  2 compressed
     chunk cookie : 1 token_chunk *)
From VF Require Import Base.Prelude.
Open Scope Z_scope.

Definition istr := N.

(* ------------------------------------------------------------------ token text *)

Inductive piece := PSlice (t : istr) (i : nat).      (* i-th chunk of compressToken(t) *)
Definition ctext := list piece.                        (* concatenation; [] is "" *)

Definition piece_eqb (a b : piece) : bool :=
  match a, b with PSlice t i, PSlice u j => N.eqb t u && Nat.eqb i j end.

Fixpoint ctext_eqb (a b : ctext) : bool :=
  match a, b with
  | [], [] => true
  | x :: a', y :: b' => piece_eqb x y && ctext_eqb a' b'
  | _, _ => false
  end.

Inductive tval := TEmpty | TTok (t : istr) | TJunk.   (* what a token getter returns *)

Definition tval_eqb (a b : tval) : bool :=
  match a, b with
  | TEmpty, TEmpty => true
  | TTok t, TTok u => N.eqb t u
  | TJunk, TJunk => true
  | _, _ => false
  end.

Section WithChunks.
  (* number of maxCookieSize-byte chunks of compressToken(t): at least 1 *)
  Variable nchunks : istr -> nat.

  Definition whole (t : istr) : ctext := map (PSlice t) (seq 0 (nchunks t)).

  (* decompressToken on a (possibly re-assembled) text: the original token when
     the text is exactly compressToken(t); "" for ""; otherwise the fallback
     returns the text itself, which is not a token *)
  Definition dec (c : ctext) : tval :=
    match c with
    | [] => TEmpty
    | PSlice t _ :: _ =>
        if ctext_eqb c (whole t) then (if N.eqb t 0 then TEmpty else TTok t) else TJunk
    end.

  (* ---------------------------------------------------------------- payloads *)

  Inductive val := VB (b : bool) | VZ (z : Z) | VS (s : istr) | VC (c : ctext).

  Definition val_eqb (a b : val) : bool :=
    match a, b with
    | VB x, VB y => Bool.eqb x y
    | VZ x, VZ y => Z.eqb x y
    | VS x, VS y => N.eqb x y
    | VC x, VC y => ctext_eqb x y
    | _, _ => false
    end.

  Definition payload := list (N * val).               (* sorted by field code *)

  Fixpoint setf (f : N) (v : val) (p : payload) : payload :=
    match p with
    | [] => [(f, v)]
    | (g, w) :: r => if N.eqb f g then (f, v) :: r
                     else if N.ltb f g then (f, v) :: (g, w) :: r
                     else (g, w) :: setf f v r
    end.

  Definition getf (f : N) (p : payload) : option val := lookup f p.

  Definition get_str (f : N) (p : payload) : istr :=
    match getf f p with Some (VS s) => s | _ => 0%N end.
  Definition get_bool (f : N) (p : payload) : bool :=
    match getf f p with Some (VB b) => b | _ => false end.
  Definition get_text (f : N) (p : payload) : ctext :=
    match getf f p with Some (VC c) => c | _ => [] end.

  Fixpoint payload_eqb (a b : payload) : bool :=
    match a, b with
    | [], [] => true
    | (f, v) :: a', (g, w) :: b' => N.eqb f g && val_eqb v w && payload_eqb a' b'
    | _, _ => false
    end.

  (* ---------------------------------------------------------------- cookies, jar *)

  Inductive cname := CMain | CAcc | CRef | CAccChunk (i : nat) | CRefChunk (i : nat).

  Definition cname_code (n : cname) : N :=
    match n with
    | CMain => 0 | CAcc => 1 | CRef => 2
    | CAccChunk i => 10 + 2 * N.of_nat i
    | CRefChunk i => 11 + 2 * N.of_nat i
    end%N.

  Definition cname_eqb (a b : cname) : bool := N.eqb (cname_code a) (cname_code b).

  Inductive cookie :=
  | Sealed (k : N) (n : cname) (p : payload)   (* produced by the codec under key k for name n *)
  | Junk.                                      (* anything else *)

  Definition jar := list (cname * cookie).

  Fixpoint jar_get (n : cname) (j : jar) : option cookie :=
    match j with
    | [] => None
    | (m, c) :: r => if cname_eqb n m then Some c else jar_get n r
    end.

  (* securecookie.Decode under key k for name n (HMAC covers the name) *)
  Definition decode (k : N) (n : cname) (c : cookie) : option payload :=
    match c with
    | Sealed k' n' p => if N.eqb k k' && cname_eqb n n' then Some p else None
    | Junk => None
    end.

  (* store.Get after the repair of GetSession: an absent or undecodable cookie
     yields a new empty session; the flag says whether a cookie was decoded
     (gorilla's IsNew = false) *)
  Definition get_session (k : N) (n : cname) (j : jar) : payload * bool :=
    match jar_get n j with
    | Some c => match decode k n c with Some p => (p, true) | None => ([], false) end
    | None => ([], false)
    end.

  (* getTokenChunkSessions: consecutive decodable chunk cookies from index 0 *)
  Fixpoint load_chunks (k : N) (mk : nat -> cname) (j : jar) (i fuel : nat) : list payload :=
    match fuel with
    | O => []
    | S fuel' =>
        match get_session k (mk i) j with
        | (p, true) => p :: load_chunks k mk j (S i) fuel'
        | (_, false) => []
        end
    end.

  (* expire...TokenChunks: consecutive chunk cookies PRESENT from index 0, decodable or not
     (the walk stops only where no cookie exists) *)
  Fixpoint present_chunks (mk : nat -> cname) (j : jar) (i fuel : nat) : nat :=
    match fuel with
    | O => O
    | S fuel' =>
        match jar_get (mk i) j with
        | Some _ => S (present_chunks mk j (S i) fuel')
        | None => O
        end
    end.

  (* ---------------------------------------------------------------- SessionData *)

  Record sdata := mkSd {
    s_main : payload; s_acc : payload; s_ref : payload;
    s_achunks : list payload; s_rchunks : list payload;   (* accessTokenChunks / refreshTokenChunks, index order *)
    s_jar_a : nat; s_jar_r : nat;     (* consecutive chunk cookies present in the request (decodable or not): what expire...Chunks(nil) walks *)
    s_marked_a : bool; s_marked_r : bool;   (* staleChunks holds the request's old chunk cookies *)
    s_live : bool;                    (* sd.request != nil *)
  }.

  Definition day_ns : Z := 86400 * 1000000000.

  Definition session_too_old (now : time) (main : payload) : bool :=
    match getf 2 main with
    | Some (VZ c) => Z.ltb day_ns (now - c * 1000000000)
    | _ => false
    end.

  Definition empty_payloads (l : list payload) : list payload := map (fun _ => @nil (N * val)) l.

  (* GetSession (after the repairs): never fails; a session past the absolute
     timeout is loaded with every value dropped *)
  Definition load (k : N) (now : time) (j : jar) : sdata :=
    let main := fst (get_session k CMain j) in
    let acc := fst (get_session k CAcc j) in
    let ref := fst (get_session k CRef j) in
    let ac := load_chunks k CAccChunk j 0 (length j) in
    let rc := load_chunks k CRefChunk j 0 (length j) in
    let na := present_chunks CAccChunk j 0 (length j) in
    let nr := present_chunks CRefChunk j 0 (length j) in
    if session_too_old now main
    then mkSd [] [] [] (empty_payloads ac) (empty_payloads rc) na nr false false true
    else mkSd main acc ref ac rc na nr false false true.

  (* GetAuthenticated *)
  Definition authenticated (now : time) (sd : sdata) : bool :=
    get_bool 1 (s_main sd) &&
    match getf 2 (s_main sd) with
    | Some (VZ c) => Z.leb (now - c * 1000000000) day_ns
    | _ => false
    end.

  (* SetAuthenticated *)
  Definition set_authenticated (now : time) (b : bool) (sd : sdata) : sdata :=
    let m := if b then setf 2 (VZ (now / 1000000000)) (s_main sd) else s_main sd in
    mkSd (setf 1 (VB b) m) (s_acc sd) (s_ref sd) (s_achunks sd) (s_rchunks sd)
         (s_jar_a sd) (s_jar_r sd) (s_marked_a sd) (s_marked_r sd) (s_live sd).

  Definition set_main (f : N) (s : istr) (sd : sdata) : sdata :=
    mkSd (setf f (VS s) (s_main sd)) (s_acc sd) (s_ref sd) (s_achunks sd) (s_rchunks sd)
         (s_jar_a sd) (s_jar_r sd) (s_marked_a sd) (s_marked_r sd) (s_live sd).

  (* the token cookie and chunk list for a token *)
  Definition store_token (t : istr) (old : payload) : payload * list payload :=
    if Nat.leb (nchunks t) 1
    then (setf 1 (VC (whole t)) (setf 2 (VB true) old), [])
    else (setf 1 (VC []) (setf 2 (VB true) old),
          map (fun i => [(1%N, VC [PSlice t i])]) (seq 0 (nchunks t))).

  (* SetAccessToken / SetRefreshToken *)
  Definition set_access (t : istr) (sd : sdata) : sdata :=
    let '(a, ch) := store_token t (s_acc sd) in
    mkSd (s_main sd) a (s_ref sd) ch (s_rchunks sd) (s_jar_a sd) (s_jar_r sd)
         (s_marked_a sd || s_live sd) (s_marked_r sd) (s_live sd).

  Definition set_refresh (t : istr) (sd : sdata) : sdata :=
    let '(r, ch) := store_token t (s_ref sd) in
    mkSd (s_main sd) (s_acc sd) r (s_achunks sd) ch (s_jar_a sd) (s_jar_r sd)
         (s_marked_a sd) (s_marked_r sd || s_live sd) (s_live sd).

  (* GetAccessToken / GetRefreshToken *)
  Definition read_token (tk : payload) (chunks : list payload) : tval :=
    match get_text 1 tk with
    | (_ :: _) as c => if get_bool 2 tk then dec c else TJunk
    | [] =>
        match chunks with
        | [] => TEmpty
        | _ => let joined := concat (map (get_text 1) chunks) in
               if get_bool 2 tk then dec joined
               else match joined with [] => TEmpty | _ => TJunk end
        end
    end.

  Definition get_access (sd : sdata) : tval := read_token (s_acc sd) (s_achunks sd).
  Definition get_refresh (sd : sdata) : tval := read_token (s_ref sd) (s_rchunks sd).

  (* ---------------------------------------------------------------- Save / Clear *)

  (* one Set-Cookie: name, payload, whether it deletes the cookie (Max-Age < 0) *)
  Definition setcookie := (cname * payload * bool)%type.

  Fixpoint number_from (mk : nat -> cname) (i : nat) (l : list payload) : list setcookie :=
    match l with
    | [] => []
    | p :: r => (mk i, p, false) :: number_from mk (S i) r
    end.

  Definition deletions (mk : nat -> cname) (marked : bool) (in_jar current : nat) : list setcookie :=
    if marked then map (fun i => (mk i, @nil (N * val), true)) (seq current (in_jar - current)) else [].

  Definition save_cookies (sd : sdata) : list setcookie :=
    [(CMain, s_main sd, false); (CAcc, s_acc sd, false); (CRef, s_ref sd, false)]
    ++ number_from CAccChunk 0 (s_achunks sd)
    ++ number_from CRefChunk 0 (s_rchunks sd)
    ++ deletions CAccChunk (s_marked_a sd) (s_jar_a sd) (length (s_achunks sd))
    ++ deletions CRefChunk (s_marked_r sd) (s_jar_r sd) (length (s_rchunks sd)).

  (* the chunk cookies a Save has written count, for a later Save of the same request, like the ones the
     request arrived with (savedChunks in session.go): the ones a token set meanwhile no longer uses are deleted *)
  Definition after_save (sd : sdata) : sdata :=
    mkSd (s_main sd) (s_acc sd) (s_ref sd) (s_achunks sd) (s_rchunks sd)
         (Nat.max (s_jar_a sd) (length (s_achunks sd))) (Nat.max (s_jar_r sd) (length (s_rchunks sd)))
         false false (s_live sd).

  (* Clear(r, w) with a response writer: drop every value, Save, forget the request *)
  Definition clear (sd : sdata) : sdata * list setcookie :=
    let sd1 := mkSd [] [] [] (empty_payloads (s_achunks sd)) (empty_payloads (s_rchunks sd))
                    (s_jar_a sd) (s_jar_r sd) (s_marked_a sd) (s_marked_r sd) (s_live sd) in
    let cs := save_cookies sd1 in
    (mkSd [] [] [] (s_achunks sd1) (s_rchunks sd1) (s_jar_a sd) (s_jar_r sd) false false false, cs).

  (* ---------------------------------------------------------------- browser *)

  Fixpoint jar_remove (n : cname) (j : jar) : jar :=
    match j with
    | [] => []
    | (m, c) :: r => if cname_eqb n m then jar_remove n r else (m, c) :: jar_remove n r
    end.

  (* replace / delete semantics of Set-Cookie, in emission order *)
  Definition apply_cookie (k : N) (j : jar) (sc : setcookie) : jar :=
    let '(n, p, del) := sc in
    if del then jar_remove n j else (n, Sealed k n p) :: jar_remove n j.

  Definition apply_cookies (k : N) (j : jar) (l : list setcookie) : jar :=
    fold_left (apply_cookie k) l j.

End WithChunks.
