(* Byte-level model of the HTML side of /repo/main.go sendErrorResponse:
   definitions only.

   html_escape transcribes html.EscapeString of the Go standard library, a
   strings.NewReplacer over the five pairs
       &  -> &amp;     '  -> &#39;     <  -> &lt;     >  -> &gt;     dquote -> &#34;
   i.e. a byte-for-byte replacement (it never looks at UTF-8 structure, so the
   model is over arbitrary byte lists, invalid UTF-8 included).

   The error page is  Sprintf(prefix ++ %s ++ suffix, EscapeString(message))
   where prefix ends with <p> and suffix starts with </p>: prefix and suffix
   are parameters here (measured by the harness from the page produced for the
   empty message); the CSS is not transcribed. *)
From VF Require Import Base.Prelude.
Open Scope N_scope.

(* what follows the '&' of each entity *)
Definition tail_amp  : list N := [97; 109; 112; 59].     (* amp;  *)
Definition tail_apos : list N := [35; 51; 57; 59].       (* #39;  *)
Definition tail_lt   : list N := [108; 116; 59].         (* lt;   *)
Definition tail_gt   : list N := [103; 116; 59].         (* gt;   *)
Definition tail_quot : list N := [35; 51; 52; 59].       (* #34;  *)

(* (escaped byte, entity tail) in the replacer's order *)
Definition entities : list (N * list N) :=
  [(38, tail_amp); (39, tail_apos); (60, tail_lt); (62, tail_gt); (34, tail_quot)].

Definition esc_byte (c : N) : list N :=
  if N.eqb c 38 then 38 :: tail_amp
  else if N.eqb c 39 then 38 :: tail_apos
  else if N.eqb c 60 then 38 :: tail_lt
  else if N.eqb c 62 then 38 :: tail_gt
  else if N.eqb c 34 then 38 :: tail_quot
  else [c].

Fixpoint html_escape (s : list N) : list N :=
  match s with
  | [] => []
  | c :: r => esc_byte c ++ html_escape r
  end.

(* bytes the HTML tokenizer of a browser gives a meaning to inside element
   content or a quoted attribute: 60 <  62 >  34 dquote  39 apostrophe *)
Definition markup_byte (c : N) : bool :=
  N.eqb c 60 || N.eqb c 62 || N.eqb c 34 || N.eqb c 39.

Fixpoint starts_with (p s : list N) : bool :=
  match p, s with
  | [], _ => true
  | x :: p', y :: s' => N.eqb x y && starts_with p' s'
  | _ :: _, [] => false
  end.

(* the entity whose tail begins s: (byte it stands for, length of the tail) *)
Fixpoint entity_of (es : list (N * list N)) (s : list N) : option (N * nat) :=
  match es with
  | [] => None
  | (c, t) :: r => if starts_with t s then Some (c, length t) else entity_of r s
  end.

Definition entity_at (s : list N) : option (N * nat) := entity_of entities s.

Definition has_entity_tail (s : list N) : bool :=
  match entity_at s with Some _ => true | None => false end.

(* decoder for exactly the five entities above; every other byte (a '&' that
   starts none of them included) is copied.  skip = bytes of an entity tail
   still to be dropped *)
Fixpoint unescape_from (skip : nat) (s : list N) : list N :=
  match s with
  | [] => []
  | c :: r =>
      match skip with
      | S k => unescape_from k r
      | O =>
          if N.eqb c 38 then
            match entity_at r with
            | Some (ch, n) => ch :: unescape_from n r
            | None => c :: unescape_from 0 r
            end
          else c :: unescape_from 0 r
      end
  end.

Definition html_unescape_basic (s : list N) : list N := unescape_from 0 s.

(* every '&' starts one of the five entities *)
Fixpoint amps_ok (s : list N) : bool :=
  match s with
  | [] => true
  | c :: r => (negb (N.eqb c 38) || has_entity_tail r) && amps_ok r
  end.

Fixpoint bytes_eq (a b : list N) : bool :=
  match a, b with
  | [], [] => true
  | x :: a', y :: b' => N.eqb x y && bytes_eq a' b'
  | _, _ => false
  end.

(* the HTML error page for a message *)
Definition page (prefix suffix msg : list N) : list N := prefix ++ html_escape msg ++ suffix.

(* what a body holds between a prefix and a suffix of known lengths *)
Definition between (lp ls : nat) (body : list N) : list N :=
  firstn (length body - lp - ls) (skipn lp body).
