(* What the request ladder (Model/Middleware.v) sees of a token, computed from
   the detailed token record of the verification ladder (Model/Jwt.v).
   Definitions only.  The two model files share constructor and field names
   (config, mkCfg, token, mkTok ...): both are required WITHOUT import and every
   name is qualified.

   summarize im cfg jw t : Middleware.tokinfo
     ti_static  every conjunct of Jwt.accept that does not read the clock, in
                the order of the ladder: parseJWT ok; kid and alg are strings;
                a key carries the kid; jwkToPEM ok; the signature verifies; the
                algorithm is supported; iss; aud; exp and iat are numbers; nbf is
                absent or a number (or, on a tree without the type check, any
                non-number); sub is a non-empty string
     ti_exp / ti_iat / ti_nbf
                the claim in seconds exactly as the ladder turns it into a
                time.Time (Jwt.claim_sec: saturating at +-2^62 s for a repaired
                tree, int64 conversion and wrap-around for the pinned one)
     ti_claims  extractClaims succeeds: three parts and a decodable JSON payload
     the session-level fields (jti, e-mail, nonce, groups, roles) are not part
     of token verification and are left empty; with_session_fields puts those
     of another tokinfo next to the verification part of a summary. *)
From VF Require Import Base.Prelude.
From VF Require Model.Jwt Model.Middleware.
Open Scope Z_scope.

Definition key_part (im : Jwt.impl) (jw : list Jwt.jwk) (t : Jwt.token) : bool :=
  match Jwt.t_kid t with
  | None => false                                        (* missing key ID *)
  | Some kid =>
  match Jwt.t_alg t with
  | None => false                                        (* missing algorithm *)
  | Some a =>
  match Jwt.find_key kid jw with
  | None => false                                        (* no matching public key *)
  | Some k => Jwt.jwk_to_pem_ok k && Jwt.verify_signature im k a (Jwt.t_sig t) && Jwt.supported_alg a
  end end end.

Definition iss_ok (cfg : Jwt.config) (t : Jwt.token) : bool :=
  match Jwt.t_iss t with Some i => N.eqb i (Jwt.c_issuer cfg) | None => false end.

Definition is_num (n : Jwt.numshape) : bool :=
  match n with Jwt.Num _ => true | _ => false end.

Definition nbf_typed (im : Jwt.impl) (n : Jwt.numshape) : bool :=
  match n with
  | Jwt.NumAbsent => true
  | Jwt.NumOther => negb (Jwt.nbf_type_checked im)
  | Jwt.Num _ => true
  end.

Definition static_ok (im : Jwt.impl) (cfg : Jwt.config) (jw : list Jwt.jwk) (t : Jwt.token) : bool :=
  Jwt.parse_ok t && key_part im jw t && iss_ok cfg t && Jwt.aud_ok (Jwt.c_client cfg) (Jwt.t_aud t)
  && is_num (Jwt.t_exp t) && is_num (Jwt.t_iat t) && nbf_typed im (Jwt.t_nbf t)
  && Jwt.sub_ok (Jwt.t_sub t).

Definition secs_of (im : Jwt.impl) (n : Jwt.numshape) : Z :=
  match n with Jwt.Num v => Jwt.claim_sec im v | _ => 0 end.

Definition nbf_of (im : Jwt.impl) (n : Jwt.numshape) : option Z :=
  match n with Jwt.Num v => Some (Jwt.claim_sec im v) | _ => None end.

Definition claims_extractable (t : Jwt.token) : bool := Jwt.t_parts3 t && Jwt.t_claims_ok t.

Definition summarize (im : Jwt.impl) (cfg : Jwt.config) (jw : list Jwt.jwk) (t : Jwt.token)
  : Middleware.tokinfo :=
  Middleware.mkTok (static_ok im cfg jw t) (claims_extractable t)
                   (secs_of im (Jwt.t_exp t)) (secs_of im (Jwt.t_iat t)) (nbf_of im (Jwt.t_nbf t))
                   0%N 0%N 0%N Middleware.ClAbsent Middleware.ClAbsent.

(* the same with the claim values taken as written (no machine conversion):
   what a table filled from the decimal text of the claims would hold *)
Definition raw_secs (n : Jwt.numshape) : Z := match n with Jwt.Num v => v | _ => 0 end.
Definition raw_nbf (n : Jwt.numshape) : option Z := match n with Jwt.Num v => Some v | _ => None end.

Definition summarize_raw (im : Jwt.impl) (cfg : Jwt.config) (jw : list Jwt.jwk) (t : Jwt.token)
  : Middleware.tokinfo :=
  Middleware.mkTok (static_ok im cfg jw t) (claims_extractable t)
                   (raw_secs (Jwt.t_exp t)) (raw_secs (Jwt.t_iat t)) (raw_nbf (Jwt.t_nbf t))
                   0%N 0%N 0%N Middleware.ClAbsent Middleware.ClAbsent.

(* the verification part of v, the session-level fields of o *)
Definition with_session_fields (v o : Middleware.tokinfo) : Middleware.tokinfo :=
  Middleware.mkTok (Middleware.ti_static v) (Middleware.ti_claims o)
                   (Middleware.ti_exp v) (Middleware.ti_iat v) (Middleware.ti_nbf v)
                   (Middleware.ti_jti o) (Middleware.ti_email o) (Middleware.ti_nonce o)
                   (Middleware.ti_groups o) (Middleware.ti_roles o).

(* the token table of an environment is given by summaries of the records rec
   assigns to strings: what Jwt.accept reads in rec s is what the request ladder
   reads in tok E s *)
Definition env_summarized (E : Middleware.env) (im : Jwt.impl) (cfg : Jwt.config) (jw : list Jwt.jwk)
           (rec : N -> Jwt.token) : Prop :=
  forall s, Middleware.tok E s = with_session_fields (summarize im cfg jw (rec s)) (Middleware.tok E s).
