(* Executable model of the request ladder of /repo/main.go + helpers.go
   (ServeHTTP, isUserAuthenticated, processAuthorizedRequest, handleCallback,
   refreshToken, handleExpiredToken, defaultInitiateAuthentication,
   handleLogout, sendErrorResponse, VerifyToken) — definitions only, same
   branch order as the source (as repaired by the fix: commits).

   One step:  serve env cfg st now rq rnd ans = (st', response)
     env : what strings denote (bytes of interned strings, what the JWT ladder
           sees in a token string, how many cookie chunks a token needs,
           template results) — an input, never an axiom
     cfg : configuration        st : instance state (verification cache, blacklist, endpoints)
     rnd : the fresh state / nonce / verifier this step would draw
     ans : the provider's answer to the single token-endpoint call this step may make *)
From VF Require Import Base.Prelude Model.Cache Model.Session.
Open Scope Z_scope.

(* ------------------------------------------------------------------ environment *)

Inductive claimshape :=
| ClAbsent
| ClNotArray
| ClArr (l : list (option istr)).        (* None: a non-string element *)

Record tokinfo := mkTok {
  ti_static : bool;       (* parseJWT ok and every time-independent check of
                             VerifyJWTSignatureAndClaims passes for this deployment *)
  ti_claims : bool;       (* extractClaims succeeds *)
  ti_exp : Z; ti_iat : Z; (* seconds *)
  ti_nbf : option Z;
  ti_jti : istr;          (* 0: no (string) jti *)
  ti_email : istr;        (* 0: missing / non-string / empty *)
  ti_nonce : istr;        (* 0: missing / non-string / empty *)
  ti_groups : claimshape;
  ti_roles : claimshape;
}.

Definition no_token : tokinfo := mkTok false false 0 0 None 0%N 0%N 0%N ClAbsent ClAbsent.

Record env := mkEnv {
  bytes_of : istr -> list N;                 (* the bytes of an interned string *)
  tok : istr -> tokinfo;                     (* what the verifier sees in a string *)
  nchunks : istr -> nat;                     (* chunks of compressToken(s), >= 1 *)
  tmpl : N -> istr -> option istr;           (* header template n executed on token t: None = error *)
  redir : istr -> istr;                      (* net/http.Redirect's rewriting of a scheme-less target (path cleaning) *)
}.

(* fixed entries of the intern table *)
Definition slash : istr := 1%N.              (* "/" *)

Definition skew_future_s : Z := 120.
Definition skew_past_s : Z := 10.
Definition sec : Z := 1000000000.

(* VerifyJWTSignatureAndClaims at instant now (stateless after the repair) *)
Definition accept_at (now : time) (ti : tokinfo) : bool :=
  ti_static ti
  && negb (Z.ltb ((ti_exp ti + skew_future_s) * sec) now)
  && negb (Z.ltb now ((ti_iat ti - skew_past_s) * sec))
  && match ti_nbf ti with Some n => negb (Z.ltb now ((n - skew_past_s) * sec)) | None => true end.

Open Scope N_scope.

(* ------------------------------------------------------------------ configuration, state *)

Record config := mkCfg {
  c_key : N;
  c_callback : istr; c_logout : istr;
  c_excluded : list istr;                    (* configured prefixes plus "/favicon" *)
  c_pkce : bool; c_force_https : bool;
  c_domains : list istr; c_roles : list istr;
  c_grace : Z;                               (* refresh grace period, ns *)
  c_post_logout : istr;                      (* never "" (New defaults it to "/") *)
  c_post_logout_abs : bool;                  (* it starts with "http" *)
  c_templates : list N;                      (* configured templated header ids *)
}.

Record inst := mkInst {
  i_ready : bool;
  i_auth_url : istr; i_end_session : istr;   (* discovered endpoints (0: none) *)
  i_tcache : cache;                          (* tokenCache: verified tokens *)
  i_black : cache;                           (* tokenBlacklist: raw tokens and jti *)
}.

(* ------------------------------------------------------------------ request, response *)

Inductive hval := HStr (s : istr) | HList (l : list istr).     (* HList: values joined with "," *)

Record request := mkReq {
  q_options : bool;             (* method is OPTIONS *)
  q_path : istr;                (* URL.Path *)
  q_uri : istr;                 (* URL.RequestURI() *)
  q_uri_len : nat;              (* its length in bytes *)
  q_error : istr; q_error_desc : istr; q_state : istr; q_code : istr;   (* callback query parameters *)
  q_json : bool;                (* Accept contains application/json *)
  q_origin : istr;              (* Origin header *)
  q_scheme : istr; q_host : istr;   (* determineScheme / determineHost *)
  q_ctx_done : bool;            (* the client gave up while waiting for initialisation *)
  q_client_ids : list N;        (* identity header names the client supplied (codes, see hname) *)
  q_jar : jar;
}.

(* identity header codes: 1 X-Forwarded-User 2 X-Auth-Request-User 3 X-Auth-Request-Token
   4 X-User-Groups 5 X-User-Roles 6 X-Auth-Request-Redirect  100+n templated header n *)

Inductive message :=
| MFixed (n : N)                  (* one of the fixed texts *)
| MProviderError (desc : istr).   (* "Authentication error from provider: " ++ desc *)

Inductive body :=
| BNone
| BPlain                          (* http.Error: text/plain; nosniff *)
| BHtml (m : message)             (* sendErrorResponse, HTML: message escaped *)
| BJson (m : message)             (* sendErrorResponse, JSON *)
| BJson401.                       (* refresh failure for JSON clients *)

Inductive location :=
| LAuth (base : istr) (state nonce : istr) (challenge_of : istr) (redir_scheme redir_host : istr)
| LEndSession (base : istr) (hint : tval) (post : location)
| LPostAbs (u : istr)
| LPostRel (scheme host : istr) (u : istr)
| LPath (p : istr).

Inductive pcall :=
| PExchange (code : istr) (redir_scheme redir_host : istr) (verifier : istr)
| PRefresh (rt : tval).

Inductive answer :=
| AErr (invalid_grant : bool)
| AOk (id_token : istr) (refresh_token : istr).

Record response := mkResp {
  r_status : N;
  r_loc : option location;
  r_cookies : list setcookie;
  r_body : body;
  r_fwd : option (list (N * hval));   (* the downstream handler ran: identity headers it saw, sorted by code;
                                         client-supplied ones that survived carry HStr 0 under code 1000+c *)
  r_cors : bool;
  r_calls : list pcall;
  r_flags : list N;    (* anomalies the harness found in the raw response; the model never produces any:
                          1 request data reflected unescaped / malformed JSON / error body of the wrong type
                          2 a Set-Cookie without the required attributes   3 a Set-Cookie line over 4096 bytes
                          4 a planted secret readable in a cookie value without the key   5 the handler panicked *)
}.

Definition resp0 : response := mkResp 0 None [] BNone None false [] [].

(* ------------------------------------------------------------------ helpers *)

Fixpoint prefixb (p s : list N) : bool :=
  match p, s with
  | [], _ => true
  | x :: p', y :: s' => N.eqb x y && prefixb p' s'
  | _ :: _, [] => false
  end.

Fixpoint bytes_eqb (a b : list N) : bool :=
  match a, b with
  | [], [] => true
  | x :: a', y :: b' => N.eqb x y && bytes_eqb a' b'
  | _, _ => false
  end.

Section Serve.
  Variable E : env.
  Variable cfg : config.

  Definition NC := nchunks E.

  (* determineExcludedURL *)
  Definition has_prefix_of (path : istr) (p : istr) : bool :=
    prefixb (bytes_of E p) (bytes_of E path).
  Definition excluded (path : istr) : bool :=
    existsb (has_prefix_of path) (c_excluded cfg).

  (* isAllowedDomain: exactly one '@' and the part after it is a listed domain *)
  Fixpoint split_at (s : list N) : list (list N) :=
    match s with
    | [] => [[]]
    | x :: r => if N.eqb x 64 then [] :: split_at r
                else match split_at r with
                     | h :: t => (x :: h) :: t
                     | [] => [[x]]
                     end
    end.

  Definition domain_listed (d : list N) (dom : istr) : bool := bytes_eqb d (bytes_of E dom).

  Definition allowed_domain (email : istr) : bool :=
    match c_domains cfg with
    | [] => true
    | ds => match split_at (bytes_of E email) with
            | [_; d] => existsb (domain_listed d) ds
            | _ => false
            end
    end.

  (* isLocalRedirectPath *)
  Definition printable (c : N) : bool := N.leb 32 c && negb (N.eqb c 127).

  Definition local_path_bytes (b : list N) : bool :=
    match b with
    | 47%N :: [] => true
    | 47%N :: c :: _ => negb (N.eqb c 47 || N.eqb c 92) && forallb printable b
    | _ => false
    end.

  Definition local_path (p : istr) : bool := local_path_bytes (bytes_of E p).

  (* extractGroupsAndRoles *)
  Fixpoint strings_of (l : list (option istr)) : list istr :=
    match l with
    | [] => []
    | Some s :: r => s :: strings_of r
    | None :: r => strings_of r
    end.

  Definition shape_strings (c : claimshape) : option (list istr) :=
    match c with
    | ClAbsent => Some []
    | ClNotArray => None
    | ClArr l => Some (strings_of l)
    end.

  (* extractGroupsAndRoles(token string): None = error *)
  Definition groups_roles (t : tval) : option (list istr * list istr) :=
    match t with
    | TTok s =>
        if ti_claims (tok E s) then
          match shape_strings (ti_groups (tok E s)), shape_strings (ti_roles (tok E s)) with
          | Some g, Some r => Some (g, r)
          | _, _ => None
          end
        else None
    | _ => None
    end.

  Definition role_listed (x : istr) : bool := memk x (c_roles cfg).

  (* ---------------------------------------------------------------- VerifyToken *)

  Definition day : Z := (86400 * sec)%Z.

  Definition verify_token (st : inst) (now : time) (t : istr) : inst * bool :=
    let '(tc1, hit) := get now t (i_tcache st) in
    match hit with
    | Some _ => (mkInst (i_ready st) (i_auth_url st) (i_end_session st) tc1 (i_black st), true)
    | None =>
        let '(b1, raw) := get now t (i_black st) in
        let st1 := mkInst (i_ready st) (i_auth_url st) (i_end_session st) tc1 b1 in
        match raw with
        | Some _ => (st1, false)
        | None =>
            let ti := tok E t in
            let jti := if ti_claims ti then ti_jti ti else 0 in
            let '(b2, seen) := if N.eqb jti 0 then (b1, None) else get now jti b1 in
            let st2 := mkInst (i_ready st) (i_auth_url st) (i_end_session st) tc1 b2 in
            match seen with
            | Some _ => (st2, false)
            | None =>
                if accept_at now ti then
                  let tc2 := set now t 1%Z (ti_exp ti * sec - now)%Z tc1 in
                  let b3 := if N.eqb (ti_jti ti) 0 then b2 else set now (ti_jti ti) 1%Z day b2 in
                  (mkInst (i_ready st) (i_auth_url st) (i_end_session st) tc2 b3, true)
                else (st2, false)
            end
        end
    end.

  (* ---------------------------------------------------------------- the ladder *)

  (* isUserAuthenticated: (authenticated, needsRefresh, expired) *)
  Definition is_user_authenticated (now : time) (sd : sdata) : bool * bool * bool :=
    let rt := negb (tval_eqb (get_refresh NC sd) TEmpty) in
    if negb (authenticated now sd) then (false, rt, false)
    else match get_access NC sd with
         | TEmpty => (false, rt, negb rt)
         | TJunk => (false, rt, negb rt)
         | TTok t =>
             let ti := tok E t in
             if negb (accept_at now ti) then (false, rt, negb rt)
             else if Z.ltb (ti_exp ti * sec)%Z (now + c_grace cfg)%Z then (true, rt, false)
             else (true, false, false)
         end.

  Definition send_error (rq : request) (m : message) (code : N) (cookies : list setcookie) (calls : list pcall) : response :=
    mkResp code None cookies (if q_json rq then BJson m else BHtml m) None false calls [].

  (* defaultInitiateAuthentication *)
  Definition initiate (rq : request) (rnd : istr * istr * istr) (st : inst) (sd : sdata)
             (cookies : list setcookie) (calls : list pcall) : response :=
    let '(csrf, nonce, verifier) := rnd in
    let '(sd1, cs1) := clear sd in
    let sd2 := set_main 4 nonce (set_main 3 csrf sd1) in
    let sd3 := if c_pkce cfg then set_main 5 verifier sd2 else sd2 in
    let stored := if Nat.ltb 1024%nat (q_uri_len rq) then slash else q_uri rq in
    let sd4 := set_main 7 stored sd3 in
    mkResp 302
           (Some (LAuth (i_auth_url st) csrf nonce (if c_pkce cfg then verifier else 0%N)
                        (q_scheme rq) (q_host rq)))
           (cookies ++ cs1 ++ save_cookies sd4) BNone None false calls [].

  (* fixed message texts (codes agreed with the harness) *)
  Definition msg_domain_denied := MFixed 1.      (* 403 Access denied: Your email domain is not allowed ... *)
  Definition msg_roles_denied := MFixed 2.       (* 403 Access denied: You do not have any of the allowed roles or groups ... *)
  Definition msg_state_missing := MFixed 3.      (* 400 State parameter missing in callback *)
  Definition msg_csrf_missing := MFixed 4.       (* 400 CSRF token missing in session *)
  Definition msg_csrf_mismatch := MFixed 5.      (* 400 Invalid state parameter (CSRF mismatch) *)
  Definition msg_no_code := MFixed 6.            (* 400 No authorization code received in callback *)
  Definition msg_exchange_failed := MFixed 7.    (* 500 Could not exchange code for token *)
  Definition msg_verify_failed := MFixed 8.      (* 500 Could not verify ID token *)
  Definition msg_claims_failed := MFixed 9.      (* 500 Could not extract claims from token *)
  Definition msg_nonce_missing_token := MFixed 10.   (* 500 Nonce missing in token *)
  Definition msg_nonce_missing_session := MFixed 11. (* 500 Nonce missing in session *)
  Definition msg_nonce_mismatch := MFixed 12.    (* 500 Nonce mismatch *)
  Definition msg_email_missing := MFixed 13.     (* 500 Email missing in token *)
  Definition msg_domain_denied_login := MFixed 14.   (* 403 Email domain not allowed *)

  Fixpoint insert_hdr (c : N) (v : hval) (l : list (N * hval)) : list (N * hval) :=
    match l with
    | [] => [(c, v)]
    | (d, w) :: r => if N.eqb c d then (c, v) :: r
                     else if N.ltb c d then (c, v) :: (d, w) :: r
                     else (d, w) :: insert_hdr c v r
    end.

  (* headers set from the templates: claims extraction error => none at all *)
  Definition template_headers (t : tval) (l : list (N * hval)) : list (N * hval) :=
    match c_templates cfg with
    | [] => l
    | ts =>
        match t with
        | TTok s =>
            if ti_claims (tok E s)
            then fold_left (fun acc n => match tmpl E n s with
                                         | Some v => insert_hdr (100 + n) (HStr v) acc
                                         | None => acc
                                         end) ts l
            else l
        | _ => l
        end
    end.

  (* identity header names removed from the incoming request before forwarding *)
  Definition identity_code (c : N) : bool :=
    (N.leb 1 c && N.leb c 5) || existsb (fun n => N.eqb c (100 + n)) (c_templates cfg).

  Definition surviving_client_headers (rq : request) : list (N * hval) :=
    map (fun c => (1000 + c, HStr 0))%N (filter (fun c => negb (identity_code c)) (q_client_ids rq)).

  (* processAuthorizedRequest *)
  Definition process_authorized (rq : request) (rnd : istr * istr * istr) (st : inst) (sd : sdata)
             (cookies : list setcookie) (calls : list pcall) : response :=
    let email := get_str 6 (s_main sd) in
    if N.eqb email 0 then initiate rq rnd st sd cookies calls
    else if negb (allowed_domain email) then send_error rq msg_domain_denied 403 cookies calls
    else
      let t := get_access NC sd in
      let gr := groups_roles t in
      let h0 := surviving_client_headers rq in
      let h1 := match gr with
                | Some (g, r) =>
                    let hg := match g with [] => h0 | _ => insert_hdr 4 (HList g) h0 end in
                    match r with [] => hg | _ => insert_hdr 5 (HList r) hg end
                | None => h0
                end in
      let allowed :=
        match c_roles cfg with
        | [] => true
        | _ => match gr with
               | Some (g, r) => existsb role_listed (g ++ r)
               | None => false
               end
        end in
      if negb allowed then send_error rq msg_roles_denied 403 cookies calls
      else
        let h2 := insert_hdr 6 (HStr (q_uri rq)) (insert_hdr 2 (HStr email) (insert_hdr 1 (HStr email) h1)) in
        let h3 := match t with
                  | TTok s => insert_hdr 3 (HStr s) h2
                  | TJunk => insert_hdr 3 (HStr 0) h2      (* a non-token string: never a forwardable state, see theorems *)
                  | TEmpty => h2
                  end in
        let h4 := template_headers t h3 in
        let cors := negb (N.eqb (q_origin rq) 0) in
        if cors && q_options rq
        then mkResp 200 None cookies BNone None true calls []
        else mkResp 200 None cookies BNone (Some h4) cors calls [].

  (* handleExpiredToken *)
  Definition handle_expired (rq : request) (rnd : istr * istr * istr) (st : inst) (sd : sdata) : response :=
    let sd1 := set_authenticated 0%Z false sd in
    let sd2 := set_refresh NC 0 (set_access NC 0 sd1) in
    let sd3 := set_main 6 0 sd2 in
    initiate rq rnd st (after_save sd3) (save_cookies sd3) [].

  (* handleCallback *)
  Definition handle_callback (rq : request) (st : inst) (now : time) (sd : sdata) (ans : option answer)
    : inst * response :=
    if negb (N.eqb (q_error rq) 0) then
      (st, send_error rq (MProviderError (if N.eqb (q_error_desc rq) 0 then q_error rq else q_error_desc rq)) 400 [] [])
    else if N.eqb (q_state rq) 0 then (st, send_error rq msg_state_missing 400 [] [])
    else
      let csrf := get_str 3 (s_main sd) in
      if N.eqb csrf 0 then (st, send_error rq msg_csrf_missing 400 [] [])
      else if negb (N.eqb (q_state rq) csrf) then (st, send_error rq msg_csrf_mismatch 400 [] [])
      else if N.eqb (q_code rq) 0 then (st, send_error rq msg_no_code 400 [] [])
      else
        let call := PExchange (q_code rq) (q_scheme rq) (q_host rq) (get_str 5 (s_main sd)) in
        match ans with
        | None | Some (AErr _) => (st, send_error rq msg_exchange_failed 500 [] [call])
        | Some (AOk id rt) =>
            let '(st1, ok) := verify_token st now id in
            if negb ok then (st1, send_error rq msg_verify_failed 500 [] [call])
            else
              let ti := tok E id in
              if negb (ti_claims ti) then (st1, send_error rq msg_claims_failed 500 [] [call])
              else if N.eqb (ti_nonce ti) 0 then (st1, send_error rq msg_nonce_missing_token 500 [] [call])
              else
                let sn := get_str 4 (s_main sd) in
                if N.eqb sn 0 then (st1, send_error rq msg_nonce_missing_session 500 [] [call])
                else if negb (N.eqb (ti_nonce ti) sn) then (st1, send_error rq msg_nonce_mismatch 500 [] [call])
                else if N.eqb (ti_email ti) 0 then (st1, send_error rq msg_email_missing 500 [] [call])
                else if negb (allowed_domain (ti_email ti)) then (st1, send_error rq msg_domain_denied_login 403 [] [call])
                else
                  let sd1 := set_authenticated now true sd in
                  let sd2 := set_main 6 (ti_email ti) sd1 in
                  let sd3 := set_refresh NC rt (set_access NC id sd2) in
                  let sd4 := set_main 5 0 (set_main 4 0 (set_main 3 0 sd3)) in
                  let inc := get_str 7 (s_main sd) in
                  let target := if negb (N.eqb inc 0) && negb (N.eqb inc (c_callback cfg)) && local_path inc
                                then inc else slash in
                  let sd5 := set_main 7 0 sd4 in
                  (st1, mkResp 302 (Some (LPath (redir E target))) (save_cookies sd5) BNone None false [call] [])
        end.

  (* refreshToken: (state, session, cookies emitted, calls, success) *)
  Definition refresh_token (st : inst) (now : time) (sd : sdata) (ans : option answer)
    : inst * sdata * list setcookie * list pcall * bool :=
    let rt := get_refresh NC sd in
    match rt with
    | TEmpty => (st, sd, [], [], false)
    | _ =>
        let call := PRefresh rt in
        match ans with
        | None | Some (AErr false) => (st, sd, [], [call], false)
        | Some (AErr true) =>
            let sd1 := set_refresh NC 0 sd in
            (st, after_save sd1, save_cookies sd1, [call], false)
        | Some (AOk id newrt) =>
            if N.eqb id 0 then (st, sd, [], [call], false)
            else
              let '(st1, ok) := verify_token st now id in
              if negb ok then (st1, sd, [], [call], false)
              else
                let ti := tok E id in
                if negb (ti_claims ti) then (st1, sd, [], [call], false)
                else if N.eqb (ti_email ti) 0 then (st1, sd, [], [call], false)
                else
                  let sd1 := set_main 6 (ti_email ti) sd in
                  let sd2 := set_access NC id sd1 in
                  let sd3 := match newrt, rt with
                             | 0%N, TTok old => set_refresh NC old sd2
                             | 0%N, _ => sd2          (* a junk refresh token cannot be re-stored as a token id *)
                             | n, _ => set_refresh NC n sd2
                             end in
                  let sd4 := set_authenticated now true sd3 in
                  (st1, after_save sd4, save_cookies sd4, [call], true)
        end
    end.

  (* handleLogout *)
  Definition post_logout (rq : request) : location :=
    if c_post_logout_abs cfg then LPostAbs (c_post_logout cfg)
    else LPostRel (q_scheme rq) (q_host rq) (c_post_logout cfg).

  Definition handle_logout (rq : request) (st : inst) (sd : sdata) : response :=
    let t := get_access NC sd in
    let '(_, cs) := clear sd in
    let loc := match t with
               | TEmpty => post_logout rq
               | _ => if N.eqb (i_end_session st) 0 then post_logout rq
                      else LEndSession (i_end_session st) t (post_logout rq)
               end in
    mkResp 302 (Some loc) cs BNone None false [] [].

  (* ServeHTTP *)
  Definition serve (st : inst) (now : time) (rq : request) (rnd : istr * istr * istr) (ans : option answer)
    : inst * response :=
    if negb (i_ready st) then
      (st, mkResp (if q_ctx_done rq then 408 else 503) None [] BPlain None false [] [])
    else if excluded (q_path rq) then
      (st, mkResp 200 None [] BNone (Some (map (fun c => (1000 + c, HStr 0))%N (q_client_ids rq))) false [] [])
    else
      let sd := load (c_key cfg) now (q_jar rq) in
      if N.eqb (q_path rq) (c_logout cfg) then (st, handle_logout rq st sd)
      else if N.eqb (q_path rq) (c_callback cfg) then handle_callback rq st now sd ans
      else
        let '(auth, refresh, expired) := is_user_authenticated now sd in
        if expired then (st, handle_expired rq rnd st sd)
        else if auth && negb refresh then (st, process_authorized rq rnd st sd [] [])
        else if refresh && negb (tval_eqb (get_refresh NC sd) TEmpty) then
          let '(st1, sd1, cs, calls, ok) := refresh_token st now sd ans in
          if ok then (st1, process_authorized rq rnd st1 sd1 cs calls)
          else if q_json rq then (st1, mkResp 401 None cs BJson401 None false calls [])
          else (st1, initiate rq rnd st1 sd1 cs calls)
        else (st, initiate rq rnd st sd [] []).

End Serve.
