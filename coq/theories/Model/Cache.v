(* Executable model of /repo/cache.go (Cache) — definitions only, no proofs.
   Branch order follows the Go source so that a diverging case can be read
   against it line by line.

   items  : the map  c.items            (association list, keys unique by invariant)
   order  : the list c.order, front = least recently used; a key is in c.elems
            exactly when it is in this list (c.elems maps keys to list elements)
   cap    : c.maxSize
   Every operation takes the instant `now` that the Go code obtains from
   time.Now() once per operation. *)
From VF Require Import Base.Prelude.
Open Scope Z_scope.

Record entry := mkEntry { e_val : Z; e_exp : time }.

Record cache := mkCache { cap : nat; items : list (key * entry); order : list key }.

Definition empty (c : nat) : cache := mkCache c [] [].

(* time.Now().After(item.ExpiresAt) *)
Definition expired (now : time) (e : entry) : bool := Z.ltb (e_exp e) now.

(* removeItem *)
Definition remove (k : key) (c : cache) : cache :=
  mkCache (cap c) (remove_assoc k (items c)) (remove_key k (order c)).

(* MoveToBack when the key has a list element *)
Definition touch (k : key) (o : list key) : list key :=
  if memk k o then remove_key k o ++ [k] else o.

Definition key_expired (now : time) (it : list (key * entry)) (k : key) : bool :=
  match lookup k it with Some e => expired now e | None => false end.

(* evictOldest: first expired entry scanning from the front, else the front *)
Definition evict (now : time) (c : cache) : cache :=
  match find (key_expired now (items c)) (order c) with
  | Some k => remove k c
  | None => match order c with
            | k :: _ => remove k c
            | [] => c
            end
  end.

Definition set (now : time) (k : key) (v : Z) (ttl : Z) (c : cache) : cache :=
  let e := mkEntry v (now + ttl) in
  match lookup k (items c) with
  | Some _ => mkCache (cap c) (update k e (items c)) (touch k (order c))
  | None =>
      let c' := if Nat.leb (cap c) (length (items c)) then evict now c else c in
      mkCache (cap c') (items c' ++ [(k, e)]) (order c' ++ [k])
  end.

Definition get (now : time) (k : key) (c : cache) : cache * option Z :=
  match lookup k (items c) with
  | None => (c, None)
  | Some e => if expired now e then (remove k c, None)
              else (mkCache (cap c) (items c) (touch k (order c)), Some (e_val e))
  end.

Definition delete (k : key) (c : cache) : cache := remove k c.

(* Cleanup's removal condition as written:
   now.After(exp) || now.Add(Duration(float64(exp.Sub(now))*0.1)).After(exp)
   The float product is modelled by truncating integer division (Duration(x)
   truncates toward zero); proofs show the second disjunct never adds anything. *)
Definition cleanup_cond (now : time) (e : entry) : bool :=
  expired now e || Z.ltb (e_exp e) (now + Z.quot (e_exp e - now) 10).

Definition cleanup_keys (now : time) (it : list (key * entry)) : list key :=
  map fst (filter (fun p => cleanup_cond now (snd p)) it).

Definition cleanup (now : time) (c : cache) : cache :=
  fold_left (fun c k => remove k c) (cleanup_keys now (items c)) c.

(* ---- operations and runs, shared by the correspondence check and the theorems *)

Inductive op :=
| OSet (k : key) (v : Z) (ttl : Z)
| OGet (k : key)
| ODel (k : key)
| OCleanup.

(* a history step: the instant at which the operation runs, and the operation *)
Definition step (c : cache) (ev : time * op) : cache * option Z :=
  let '(now, o) := ev in
  match o with
  | OSet k v ttl => (set now k v ttl c, None)
  | OGet k => get now k c
  | ODel k => (delete k c, None)
  | OCleanup => (cleanup now c, None)
  end.

Fixpoint run (c : cache) (h : list (time * op)) : cache * list (option Z) :=
  match h with
  | [] => (c, [])
  | ev :: r => let '(c1, o) := step c ev in
               let '(c2, os) := run c1 r in (c2, o :: os)
  end.

Fixpoint states (c : cache) (h : list (time * op)) : list cache :=
  match h with
  | [] => []
  | ev :: r => let c1 := fst (step c ev) in c1 :: states c1 r
  end.
