(* Executable model of provider discovery in /repo/main.go (initializeMetadata,
   updateMetadataEndpoints, startMetadataRefresh, discoverProviderMetadata,
   fetchMetadata, the first select of ServeHTTP) and /repo/metadata_cache.go
   (GetMetadata, Cleanup) — definitions only, no proofs.  Branch order follows
   the Go source.

   The provider is an input: a script of answers consumed one per fetch; after
   the script it answers with the `healthy` document.  Modelled time advances by
   the modelled sleeps (time.Sleep in the retry loops) and by the client's
   timeout on a fetch that is answered too slowly; everything else takes no
   modelled time.  URLs are identities (N); 0 is the empty string. *)
From VF Require Import Base.Prelude.
From VFP Require Import ParamsDiscovery.
Open Scope Z_scope.

(* ProviderMetadata *)
Record doc := mkDoc { d_issuer : N; d_auth : N; d_token : N; d_jwks : N; d_revoke : N; d_end : N }.
Definition no_doc : doc := mkDoc 0 0 0 0 0 0.     (* zero value of the endpoint fields *)

Inductive fault := FRefused | FReset | F500 | F503 | FMalformed | FTruncated | FSlow.
Inductive answer := AFault (f : fault) | ADoc (d : doc).

Definition sec : Z := 1000000000.
Definition base_delay : Z := 1 * sec.        (* baseDelay *)
Definition max_delay : Z := 30 * sec.        (* maxDelay *)
Definition total_timeout : Z := 300 * sec.   (* totalTimeout *)
Definition cache_ttl : Z := 3600 * sec.      (* GetMetadata: 1 h *)
Definition cache_extend : Z := 300 * sec.    (* GetMetadata: 5 min on error with a cached document *)
Definition max_retries : nat := disc_attempts.          (* maxRetries, as measured *)
Definition init_wait : Z := init_wait_s * sec.          (* time.After in ServeHTTP, as measured *)

(* time.Duration(math.Pow(2, attempt)) * baseDelay, capped *)
Definition delay (i : nat) : Z := Z.min (2 ^ Z.of_nat i * base_delay) max_delay.

(* the pauses after attempts i, i+1, ..., i+n-1 *)
Fixpoint delays_from (i n : nat) : Z :=
  match n with O => 0 | S l => delay i + delays_from (S i) l end.

Record world := mkWorld {
  w_script : list answer;      (* what the provider will answer next *)
  w_healthy : doc;             (* ... and after the script *)
  w_timeout : Z;               (* httpClient.Timeout *)
  w_now : time;
  w_hits : N;                  (* requests seen by the discovery endpoint *)
  w_log : list answer;         (* answers given, most recent first *)
}.

Definition fresh_world (script : list answer) (h : doc) (timeout : Z) : world :=
  mkWorld script h timeout 0 0 [].

Definition cost (timeout : Z) (a : answer) : Z :=
  match a with AFault FSlow => timeout | _ => 0 end.

(* fetchMetadata: one GET; anything but a decodable 200 is an error *)
Definition fetch (w : world) : world * answer :=
  match w_script w with
  | [] => let a := ADoc (w_healthy w) in
          (mkWorld [] (w_healthy w) (w_timeout w) (w_now w) (w_hits w + 1) (a :: w_log w), a)
  | a :: r => (mkWorld r (w_healthy w) (w_timeout w) (w_now w + cost (w_timeout w) a) (w_hits w + 1)
                       (a :: w_log w), a)
  end.

Definition sleep (d : Z) (w : world) : world :=
  mkWorld (w_script w) (w_healthy w) (w_timeout w) (w_now w + d) (w_hits w) (w_log w).

Definition set_script (l : list answer) (h : doc) (w : world) : world :=
  mkWorld l h (w_timeout w) (w_now w) (w_hits w) (w_log w).

(* discoverProviderMetadata: `left` attempts remain, `i` is the attempt number *)
Fixpoint discover_loop (left i : nat) (start : time) (w : world) : world * option doc :=
  match left with
  | O => (w, None)                                           (* max retries exceeded *)
  | S l =>
      if Z.ltb total_timeout (w_now w - start) then (w, None)   (* time.Since(start) > totalTimeout *)
      else let '(w1, a) := fetch w in
           match a with
           | ADoc d => (w1, Some d)
           | AFault _ => discover_loop l (S i) start (sleep (delay i) w1)
           end
  end.

Definition discover (w : world) : world * option doc := discover_loop max_retries 0 (w_now w) w.

(* MetadataCache *)
Record mcache := mkMc { mc_doc : option doc; mc_exp : time }.
Definition empty_mcache : mcache := mkMc None 0.

(* isCacheValid: metadata != nil && now.Before(expiresAt) *)
Definition cache_valid (now : time) (c : mcache) : bool :=
  match mc_doc c with Some _ => Z.ltb now (mc_exp c) | None => false end.

Definition get_metadata (c : mcache) (w : world) : mcache * world * option doc :=
  if cache_valid (w_now w) c then (c, w, mc_doc c)
  else let '(w1, r) := discover w in
       match r with
       | None => match mc_doc c with
                 | Some d => (mkMc (Some d) (w_now w1 + cache_extend), w1, Some d)
                 | None => (c, w1, None)
                 end
       | Some d => (mkMc (Some d) (w_now w1 + cache_ttl), w1, Some d)
       end.

(* MetadataCache.Cleanup: metadata != nil && now.After(expiresAt) => drop *)
Definition mc_cleanup (now : time) (c : mcache) : mcache :=
  match mc_doc c with
  | Some _ => if Z.ltb (mc_exp c) now then mkMc None (mc_exp c) else c
  | None => c
  end.

(* the part of TraefikOidc this property is about *)
Record mw := mkMw {
  m_ready : bool;      (* initComplete is closed *)
  m_ep : doc;          (* issuerURL, authURL, tokenURL, jwksURL, revocationURL, endSessionURL *)
  m_cache : mcache;
}.
Definition fresh_mw : mw := mkMw false no_doc empty_mcache.

(* initializeMetadata as it is on the pinned tree: one GetMetadata, on error return *)
Definition initialize_pinned (m : mw) (w : world) : mw * world :=
  let '(c, w1, r) := get_metadata (m_cache m) w in
  match r with
  | None => (mkMw (m_ready m) (m_ep m) c, w1)
  | Some d => (mkMw true d c, w1)         (* updateMetadataEndpoints; close(initComplete) *)
  end.

(* initializeMetadata repaired: for attempt := 0; ; attempt++ { GetMetadata; on error
   sleep min(2^attempt, 30) s and retry }.  `fuel` bounds the unrolling; a round
   that fails consumes at least one scripted answer, so S (length script) rounds
   are enough for the loop to be run to its end. *)
Fixpoint init_loop (fuel k : nat) (m : mw) (w : world) : mw * world :=
  match fuel with
  | O => (m, w)
  | S f =>
      let '(c, w1, r) := get_metadata (m_cache m) w in
      match r with
      | None => init_loop f (S k) (mkMw (m_ready m) (m_ep m) c) (sleep (delay k) w1)
      | Some d => (mkMw true d c, w1)
      end
  end.

Definition initialize_retrying (m : mw) (w : world) : mw * world :=
  init_loop (S (length (w_script w))) 0 m w.

(* which of the two the tree under verification has is measured by the harness *)
Definition initialize (m : mw) (w : world) : mw * world :=
  if init_retries_forever then initialize_retrying m w else initialize_pinned m w.

(* one tick of startMetadataRefresh; the goroutine exists only after a successful initialisation *)
Definition refresh (m : mw) (w : world) : mw * world :=
  if m_ready m then
    let '(c, w1, r) := get_metadata (m_cache m) w in
    match r with
    | None => (mkMw (m_ready m) (m_ep m) c, w1)
    | Some d => (mkMw (m_ready m) d c, w1)
    end
  else (m, w).

Definition cleanup (m : mw) (w : world) : mw * world :=
  (mkMw (m_ready m) (m_ep m) (mc_cleanup (w_now w) (m_cache m)), w).

(* ---- histories after initialisation *)

Inductive event :=
| ERefresh                                   (* hourly tick *)
| ECleanup                                   (* 5-minute tick of the metadata cache *)
| EAdvance (d : Z)                           (* time passes *)
| EScript (l : list answer) (h : doc).       (* the provider's behaviour changes *)

Definition step (s : mw * world) (e : event) : mw * world :=
  let '(m, w) := s in
  match e with
  | ERefresh => refresh m w
  | ECleanup => cleanup m w
  | EAdvance d => (m, sleep d w)
  | EScript l h => (m, set_script l h w)
  end.

Definition run (s : mw * world) (h : list event) : mw * world := fold_left step h s.

(* ---- the first step of ServeHTTP and what a cookie-less request gets after it *)

Inductive path := PGated | PExcluded | PCallback.
(* rq_patience: how long the client waits before its context ends *)
Record request := mkReq { rq_path : path; rq_patience : Z }.

Inductive gate := G503 | G408 | GProceed.

Definition serve_gate (m : mw) (rq : request) : gate :=
  if m_ready m then
    if N.eqb (d_issuer (m_ep m)) 0 then G503 else GProceed
  else if Z.ltb (rq_patience rq) init_wait then G408 else G503.

Record response := mkResp {
  r_status : Z;
  r_forwarded : bool;          (* the downstream handler ran *)
  r_location : option N;       (* Location header: identity of the URL before '?' *)
  r_cookies : bool;            (* any Set-Cookie *)
}.

Definition closed_response (status : Z) : response := mkResp status false None false.

(* excluded path: forwarded; gated path without a session: login redirect to the
   authorization endpoint in use; callback without a session: 400 *)
Definition after_gate (m : mw) (rq : request) : response :=
  match rq_path rq with
  | PExcluded => mkResp 200 true None false
  | PGated => mkResp 302 false (Some (d_auth (m_ep m))) true
  | PCallback => mkResp 400 false None false
  end.

Definition serve (m : mw) (rq : request) : response :=
  match serve_gate m rq with
  | G503 => closed_response 503
  | G408 => closed_response 408
  | GProceed => after_gate m rq
  end.

(* ---- reading the provider's log *)

Fixpoint latest_ok (log : list answer) : option doc :=
  match log with
  | [] => None
  | ADoc d :: _ => Some d
  | AFault _ :: r => latest_ok r
  end.

Definition faults (fs : list fault) : list answer := map AFault fs.
