(* Executable model of rate.Limiter.Allow / AllowN(t, 1) as vendored in
   /repo/vendor/golang.org/x/time/rate/rate.go — definitions only, no proofs.
   Branch order follows reserveN (with n = 1, maxFutureReserve = 0), advance,
   tokensFromDuration and durationFromTokens.

   rate   : lim.limit, an integer number of tokens per second (New() derives it
            from the integer config.RateLimit); rate <= 0 behaves as in the Go
            code (no refill, InfDuration wait).
            GUARD: limit == rate.Inf (math.MaxFloat64) is NOT representable
            here; the harness reports it as a parameter the model cannot take
            and the correspondence then counts as broken.
   burst  : lim.burst
   tokens : lim.tokens in units of 10^-9 token (Go: float64 tokens).  With an
            integer rate and integer nanoseconds the real-number value of every
            quantity the Go code computes is a whole number of these units, so
            the model computes exactly what the Go code approximates in float64
            (see Corr/LimiterCorr.v for the uncompared neighbourhood of the
            decision threshold)
   last   : lim.last, nanoseconds.  The Go zero time.Time lies before every
            instant; instants here are offsets >= 0 from the construction of
            the limiter and `last` starts at 0, which is equivalent because the
            bucket starts full.
   lim.lastEvent is written but never read on the Allow path: not modelled. *)
From VF Require Import Base.Prelude.
Open Scope Z_scope.

Definition token : Z := 1000000000.            (* one token, in units of 10^-9 token *)
Definition inf_duration : Z := 9223372036854775807.   (* rate.InfDuration = MaxInt64 *)

Record lim := mkLim { rate : Z; burst : Z; tokens : Z; last : time }.

(* rate.NewLimiter(r, b): tokens = float64(b), last = zero time *)
Definition init (r b : Z) : lim := mkLim r b (b * token) 0.

(* Limit.tokensFromDuration: d.Seconds() * limit, 0 when limit <= 0.
   d ns at r tokens/s = r*d units of 10^-9 token, exactly. *)
Definition tokens_from_duration (r : Z) (d : Z) : Z :=
  if r <=? 0 then 0 else r * d.

(* Limit.durationFromTokens: time.Duration(1e9 * tokens / limit) truncates
   toward zero; InfDuration when limit <= 0.  `tok` is in 10^-9 token. *)
Definition duration_from_tokens (r : Z) (tok : Z) : Z :=
  if r <=? 0 then inf_duration else Z.quot tok r.

(* advance: the token level at `now`; a `now` before `last` counts as no time elapsed *)
Definition advance (now : time) (s : lim) : Z :=
  let last' := Z.min now (last s) in
  Z.min (burst s * token) (tokens s + tokens_from_duration (rate s) (now - last')).

(* tokens -= float64(n), n = 1: the level the bucket would have after this event.
   Exposed so that the correspondence can recognise decisions taken within
   10^-6 token of the threshold. *)
Definition level (now : time) (s : lim) : Z := advance now s - token.

Definition wait_duration (now : time) (s : lim) : Z :=
  let t := level now s in
  if t <? 0 then duration_from_tokens (rate s) (- t) else 0.

(* ok := n <= lim.burst && waitDuration <= maxFutureReserve *)
Definition allow_ok (now : time) (s : lim) : bool :=
  (1 <=? burst s) && (wait_duration now s <=? 0).

(* state written when ok: lim.last = t; lim.tokens = tokens *)
Definition take (now : time) (s : lim) : lim :=
  mkLim (rate s) (burst s) (level now s) now.

(* AllowN(now, 1): the state is left untouched when the event is refused *)
Definition allow (now : time) (s : lim) : lim * bool :=
  if allow_ok now s then (take now s, true) else (s, false).

(* a run over a list of arrival instants: final state and the decisions *)
Fixpoint run (s : lim) (l : list time) : lim * list bool :=
  match l with
  | [] => (s, [])
  | now :: r => let '(s1, ok) := allow now s in
                let '(s2, oks) := run s1 r in (s2, ok :: oks)
  end.

(* the same run as a list of observations (arrival instant, admitted?) *)
Fixpoint trace (s : lim) (l : list time) : list (time * bool) :=
  match l with
  | [] => []
  | now :: r => (now, snd (allow now s)) :: trace (fst (allow now s)) r
  end.

Fixpoint final (s : lim) (l : list time) : lim :=
  match l with
  | [] => s
  | now :: r => final (fst (allow now s)) r
  end.

(* ---- what New() builds from config.RateLimit = n.  The model takes the
   MEASURED (Limit(), Burst()) of an instance built by New() (ParamsLimiter.v);
   the two constructions below only name the two parameter choices seen so far. *)

(* rate.NewLimiter(rate.Limit(config.RateLimit), config.RateLimit) *)
Definition built_repaired (n : Z) : lim := init n n.
(* rate.NewLimiter(rate.Every(time.Second), config.RateLimit): pinned commit, defect F12 *)
Definition built_pinned (n : Z) : lim := init 1 n.
