(* Executable model of RevokeToken (/repo/main.go, as repaired) and of
   histories of VerifyToken / RevokeToken calls on one instance — definitions
   only.

   RevokeToken: tokenCache.Delete(token); the blacklist entry lasts until
   max(now + 24 h, token exp + ClockSkewToleranceFuture) when the token's
   claims can be extracted and exp is a number, otherwise 24 h.

   The model takes the longer duration exactly for the tokens that pass every
   time-independent check (ti_static): for any other string the duration has
   no influence on any verdict, because such a string is rejected by
   VerifyJWTSignatureAndClaims at every instant and RevokeToken has removed it
   from the verification cache (see Proofs/VerifyProofs.banned_rejects). *)
From VF Require Import Base.Prelude Model.Cache Model.Session Model.Middleware.
Open Scope Z_scope.

(* the last instant (ns) at which the time window of t can still be accepted *)
Definition dead_line (E : env) (t : istr) : Z := (ti_exp (tok E t) + skew_future_s) * sec.

Definition revoke_ttl (E : env) (now : time) (t : istr) : Z :=
  if ti_static (tok E t) then Z.max day (dead_line E t - now) else day.

Definition revoke (E : env) (st : inst) (now : time) (t : istr) : inst :=
  mkInst (i_ready st) (i_auth_url st) (i_end_session st)
         (delete t (i_tcache st))
         (set now t 1 (revoke_ttl E now t) (i_black st)).

(* a history on one instance: verify a token, revoke a token, let time pass *)
Inductive vstep :=
| Verify (t : istr)
| Revoke (t : istr)
| Wait (d : Z).

(* the verdicts of a history: (instant, token, accepted) in order *)
Fixpoint vrun (E : env) (st : inst) (now : time) (h : list vstep) : list (time * istr * bool) :=
  match h with
  | [] => []
  | Verify t :: r => (now, t, snd (verify_token E st now t)) :: vrun E (fst (verify_token E st now t)) now r
  | Revoke t :: r => vrun E (revoke E st now t) now r
  | Wait d :: r => vrun E st (now + d) r
  end.

(* the state and instant a history ends in *)
Fixpoint vstate (E : env) (st : inst) (now : time) (h : list vstep) : inst * time :=
  match h with
  | [] => (st, now)
  | Verify t :: r => vstate E (fst (verify_token E st now t)) now r
  | Revoke t :: r => vstate E (revoke E st now t) now r
  | Wait d :: r => vstate E st (now + d) r
  end.

(* time never runs backwards *)
Definition wait_ok (s : vstep) : bool := match s with Wait d => Z.leb 0 d | _ => true end.
Definition waits_nonneg (h : list vstep) : bool := forallb wait_ok h.

(* how many blacklist entries a history may add: one per call (the token's jti
   for VerifyToken, the token itself for RevokeToken) *)
Fixpoint inserts (h : list vstep) : nat :=
  match h with
  | [] => 0
  | Wait _ :: r => inserts r
  | _ :: r => S (inserts r)
  end.
