(* Executable model of ID-token verification: /repo/jwt.go (parseJWT, JWT.Verify,
   verifySignature, verifyTimeConstraint), /repo/jwk.go (jwkToPEM) and
   /repo/main.go (VerifyJWTSignatureAndClaims, VerifyToken on a fresh instance).
   Definitions only, no proofs.  Branch order follows the Go source.

   A token is a RECORD of exactly what the ladder inspects.  Strings that are
   only compared (kid, iss, aud members, jti) are interned as N by the harness.
   Cryptography is symbolic and is an INPUT: the record says which key material
   produced the signature, with which scheme, over which bytes and in which
   byte form (sigdesc); a signature verifies exactly when those match the key
   and algorithm used to verify (sig_matches).  Nothing is assumed as an axiom.

   The record `impl` holds what is MEASURED from the running code on every run
   (tolerances, the float->int64 conversion of out-of-range numbers, and four
   behaviour switches that distinguish the pinned from the repaired tree), so
   that the model follows the tree it is run against. *)
From VF Require Import Base.Prelude.
Open Scope Z_scope.

(* ------------------------------------------------------------------ tokens *)

Inductive hsize := H256 | H384 | H512.
Inductive algfam := FRS | FPS | FES.

(* the value of the header field "alg" when it is a JSON string *)
Inductive algname :=
| AStd (f : algfam) (h : hsize)   (* exactly "RS256" ... "ES512" *)
| ANone                           (* "none" *)
| AHS (h : hsize)                 (* "HS256" "HS384" "HS512" *)
| AOther (id : N).                (* any other string: "rs256", "None", "", "XS256" ... *)

Inductive kty := KRSA | KEC | KOther.

(* one JWKS entry: kid, identity of the key material, key type, and whether
   jwkToPEM + x509.ParsePKIXPublicKey yield a key of that type (base64 fields
   decodable, crv one of P-256/P-384/P-521, point on the curve) *)
Record jwk := mkJwk { k_kid : N; k_mat : N; k_kty : kty; k_pem_ok : bool }.

(* byte form of the decoded signature value, relative to the canonical one
   (RSA: modulus length; ECDSA: r||s, each exactly ceil(bits/8) bytes) *)
Inductive sigform :=
| SCanon                          (* canonical *)
| SPadded                         (* EC: each half left-padded with zero bytes; RSA: leading zero byte *)
| SStripped                       (* EC: leading zero byte of each half removed (same integers) *)
| SOddLen                         (* one extra byte: odd total length *)
| SGarbage                        (* some other value: bit flips, random bytes *)
| SEmpty.

Record sigdesc := mkSig {
  s_mat : N;                      (* key material that produced it (0: none) *)
  s_alg : algname;                (* scheme it was produced with *)
  s_input_ok : bool;              (* produced over exactly the presented header.payload bytes *)
  s_form : sigform }.

Inductive audshape := AudAbsent | AudOther | AudStr (s : N) | AudArr (l : list (option N)).
(* a numeric claim: absent, present but not a JSON number, or a number whose
   integer part (truncation toward zero, as an unbounded integer) is secs *)
Inductive numshape := NumAbsent | NumOther | Num (secs : Z).
Inductive subshape := SubAbsent | SubOther | SubStr (nonempty : bool).

Record token := mkTok {
  t_parts3 : bool;                (* exactly three '.'-separated parts *)
  t_hdr_ok : bool;                (* part 1 base64url-decodes and unmarshals into a JSON object (or null) *)
  t_claims_ok : bool;             (* part 2 likewise *)
  t_sig_b64_ok : bool;            (* part 3 base64url-decodes *)
  t_alg : option algname;         (* None: absent or not a string *)
  t_kid : option N;               (* None: absent or not a string *)
  t_sig : sigdesc;
  t_iss : option N;               (* None: absent or not a string *)
  t_aud : audshape;
  t_exp : numshape;
  t_iat : numshape;
  t_nbf : numshape;
  t_jti : option N;               (* None: absent or not a string *)
  t_sub : subshape }.

Record config := mkCfg { c_issuer : N; c_client : N }.

(* ------------------------------------------------- measured implementation *)

Record impl := mkImpl {
  ec_len_checked : bool;          (* ECDSA: signature length must be 2*ceil(bits/8) *)
  time_saturates : bool;          (* out-of-range time claims saturate instead of int64() wrapping *)
  nbf_type_checked : bool;        (* a present, non-numeric nbf is rejected *)
  has_replay_step : bool;         (* JWT.Verify consults the process-global jti replay map *)
  skew_future : Z;                (* ClockSkewToleranceFuture, ns *)
  skew_past : Z;                  (* ClockSkewTolerancePast, ns *)
  i64_huge_pos : Z;               (* int64(f) for a float64 f >= 2^63 on this platform *)
  i64_huge_neg : Z }.             (* int64(f) for a float64 f < -2^63 *)

(* ----------------------------------------------------------- time claims *)

Definition two62 : Z := 4611686018427387904.
Definition two63 : Z := 9223372036854775808.
Definition unix_to_internal : Z := 62135596800.   (* seconds from year 1 to 1970: time.unixToInternal *)
Definition ns_per_s : Z := 1000000000.

Definition wrap64 (z : Z) : Z := (z + two63) mod (2 * two63) - two63.

(* Go's int64(float64): truncation for representable values, a platform value otherwise *)
Definition go_int64 (im : impl) (v : Z) : Z :=
  if Z.leb two63 v then i64_huge_pos im
  else if Z.ltb v (- two63) then i64_huge_neg im
  else v.

Definition clamp62 (v : Z) : Z :=
  if Z.leb two62 v then two62 else if Z.leb v (- two62) then - two62 else v.

(* seconds since 1970 of time.Unix(sec, 0) as the Time value stores it:
   pinned   sec := int64(claim); Time.ext := sec + unixToInternal (wrapping)
   repaired sec := saturate(claim) to +-2^62, no wrap possible.
   Time.Add saturates at the int64 range of ext; that cannot change a
   comparison with an instant `now` anywhere near the present and is not modelled. *)
Definition claim_sec (im : impl) (v : Z) : Z :=
  if time_saturates im then clamp62 v
  else wrap64 (go_int64 im v + unix_to_internal) - unix_to_internal.

(* verifyTimeConstraint(.., future=true): reject when now.After(claim + skew_future) *)
Definition exp_ok (im : impl) (now : time) (v : Z) : bool :=
  negb (Z.ltb (claim_sec im v * ns_per_s + skew_future im) now).

(* verifyTimeConstraint(.., future=false): reject when now.Before(claim - skew_past) *)
Definition past_ok (im : impl) (now : time) (v : Z) : bool :=
  negb (Z.ltb now (claim_sec im v * ns_per_s - skew_past im)).

(* -------------------------------------------------------------- equality *)

Definition hsize_eqb (a b : hsize) : bool :=
  match a, b with H256, H256 | H384, H384 | H512, H512 => true | _, _ => false end.
Definition algfam_eqb (a b : algfam) : bool :=
  match a, b with FRS, FRS | FPS, FPS | FES, FES => true | _, _ => false end.
Definition alg_eqb (a b : algname) : bool :=
  match a, b with
  | AStd f h, AStd f' h' => algfam_eqb f f' && hsize_eqb h h'
  | ANone, ANone => true
  | AHS h, AHS h' => hsize_eqb h h'
  | AOther i, AOther j => N.eqb i j
  | _, _ => false
  end.

(* ----------------------------------------------------------- signature *)

(* symbolic verification: the signature value is one produced by this key
   material, with this scheme, over the presented signing input *)
Definition sig_matches (k : jwk) (a : algname) (s : sigdesc) : bool :=
  N.eqb (k_mat k) (s_mat s) && alg_eqb a (s_alg s) && s_input_ok s.

Definition has_kid (kid : N) (k : jwk) : bool := N.eqb (k_kid k) kid.

(* for _, key := range jwks.Keys { if key.Kid == kid { matchingKey = &key; break } } *)
Definition find_key (kid : N) (jw : list jwk) : option jwk := find (has_kid kid) jw.

(* jwkToPEM: a converter exists only for "RSA" and "EC" *)
Definition jwk_to_pem_ok (k : jwk) : bool :=
  match k_kty k with KOther => false | _ => k_pem_ok k end.

(* rsa.VerifyPKCS1v15 / VerifyPSS: the signature must have the modulus length *)
Definition rsa_form_ok (f : sigform) : bool :=
  match f with SCanon => true | _ => false end.

(* ECDSA branch: odd lengths are rejected; the halves are read as big-endian
   integers, so a padded or stripped encoding carries the same (r, s);
   the repaired code first requires the exact length for the key's curve *)
Definition ec_form_ok (im : impl) (f : sigform) : bool :=
  match f with
  | SCanon => true
  | SPadded | SStripped => negb (ec_len_checked im)
  | SOddLen | SGarbage | SEmpty => false
  end.

(* verifySignature, after the PEM block has been parsed into a public key *)
Definition verify_signature (im : impl) (k : jwk) (a : algname) (s : sigdesc) : bool :=
  match a with
  | AStd f _ =>                                   (* hash selected: 256/384/512 *)
      match k_kty k with
      | KRSA => match f with
                | FRS | FPS => rsa_form_ok (s_form s) && sig_matches k a s
                | FES => false                    (* unexpected key type for algorithm *)
                end
      | KEC => match f with
               | FES => ec_form_ok im (s_form s) && sig_matches k a s
               | FRS | FPS => false
               end
      | KOther => false
      end
  | _ => false                                    (* unsupported algorithm *)
  end.

(* ----------------------------------------------------------- JWT.Verify *)

Definition supported_alg (a : algname) : bool :=
  match a with AStd _ _ => true | _ => false end.

Definition is_client (cid : N) (x : option N) : bool :=
  match x with Some s => N.eqb s cid | None => false end.

Definition aud_ok (cid : N) (a : audshape) : bool :=
  match a with
  | AudAbsent => false
  | AudStr s => N.eqb s cid
  | AudArr l => existsb (is_client cid) l
  | AudOther => false
  end.

Definition exp_claim_ok (im : impl) (now : time) (n : numshape) : bool :=
  match n with Num v => exp_ok im now v | _ => false end.

Definition iat_claim_ok (im : impl) (now : time) (n : numshape) : bool :=
  match n with Num v => past_ok im now v | _ => false end.

(* pinned: `if nbf, ok := claims["nbf"].(float64); ok { ... }` skips a non-number *)
Definition nbf_claim_ok (im : impl) (now : time) (n : numshape) : bool :=
  match n with
  | NumAbsent => true
  | NumOther => negb (nbf_type_checked im)
  | Num v => past_ok im now v
  end.

Definition sub_ok (s : subshape) : bool :=
  match s with SubStr true => true | _ => false end.

(* the replay map as a list of jti values (purging of expired entries is not
   modelled: C02 is about first presentation, the harness uses fresh values) *)
Definition replay_step (im : impl) (seen : list N) (j : option N) : bool * list N :=
  match j with
  | Some x => if has_replay_step im
              then (if memk x seen then (false, seen) else (true, x :: seen))
              else (true, seen)
  | None => (true, seen)
  end.

(* JWT.Verify; the alg header is known to be a string at this point *)
Definition claims_verify (im : impl) (cfg : config) (now : time) (seen : list N)
           (a : algname) (t : token) : bool * list N :=
  if negb (supported_alg a) then (false, seen) else
  if negb (match t_iss t with Some i => N.eqb i (c_issuer cfg) | None => false end) then (false, seen) else
  if negb (aud_ok (c_client cfg) (t_aud t)) then (false, seen) else
  if negb (exp_claim_ok im now (t_exp t)) then (false, seen) else
  if negb (iat_claim_ok im now (t_iat t)) then (false, seen) else
  if negb (nbf_claim_ok im now (t_nbf t)) then (false, seen) else
  let '(fresh, seen') := replay_step im seen (t_jti t) in
  if negb fresh then (false, seen') else
  (sub_ok (t_sub t), seen').

(* VerifyJWTSignatureAndClaims *)
Definition verify_sig_and_claims (im : impl) (cfg : config) (jw : list jwk) (now : time)
           (seen : list N) (t : token) : bool * list N :=
  match t_kid t with
  | None => (false, seen)                              (* missing key ID *)
  | Some kid =>
  match t_alg t with
  | None => (false, seen)                              (* missing algorithm *)
  | Some a =>
  match find_key kid jw with
  | None => (false, seen)                              (* no matching public key *)
  | Some k =>
      if negb (jwk_to_pem_ok k) then (false, seen) else
      if negb (verify_signature im k a (t_sig t)) then (false, seen) else
      claims_verify im cfg now seen a t
  end end end.

(* parseJWT *)
Definition parse_ok (t : token) : bool :=
  t_parts3 t && t_hdr_ok t && t_claims_ok t && t_sig_b64_ok t.

(* parseJWT then VerifyJWTSignatureAndClaims, with the replay map `seen` *)
Definition verify (im : impl) (cfg : config) (jw : list jwk) (now : time)
           (seen : list N) (t : token) : bool * list N :=
  if parse_ok t then verify_sig_and_claims im cfg jw now seen t else (false, seen).

(* first presentation *)
Definition accept (im : impl) (cfg : config) (jw : list jwk) (now : time) (t : token) : bool :=
  fst (verify im cfg jw now [] t).

(* VerifyToken on a fresh instance: token cache empty, limiter generous,
   blacklist empty -> parseJWT + VerifyJWTSignatureAndClaims (caching and
   blacklisting afterwards do not change the verdict; they belong to C14) *)
Definition verify_token_fresh (im : impl) (cfg : config) (jw : list jwk) (now : time) (t : token) : bool :=
  accept im cfg jw now t.

(* the pinned and the repaired behaviour, with the tolerances of the property *)
Definition pinned_impl (huge_pos huge_neg : Z) : impl :=
  mkImpl false false false true 120000000000 10000000000 huge_pos huge_neg.
Definition repaired_impl : impl :=
  mkImpl true true true false 120000000000 10000000000 0 0.

Definition accept_pinned := accept (pinned_impl (- two63) (- two63)).
Definition accept_repaired := accept repaired_impl.
