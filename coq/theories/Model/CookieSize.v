(* What /repo/session.go SetAccessToken / SetRefreshToken put into cookies for a
   compressed token text s (bytes), as far as LENGTHS go: definitions only.

     if len(compressed) <= maxCookieSize { accessSession.Values[token] = compressed }
     else { accessSession.Values[token] = empty
            for i, chunk := range splitIntoChunks(compressed, maxCookieSize) {
                chunkSession(i).Values[token_chunk] = chunk } }

   A measured size table is a list (payload length, length of the Set-Cookie
   line); line 0 means the cookie store refused the value. *)
From VF Require Import Base.Prelude Model.Codec.

Section Store.
  Context {A : Type}.

  (* the text stored in the token cookie itself *)
  Definition token_field (max : nat) (s : list A) : list A :=
    if Nat.leb (length s) max then s else [].

  (* the texts stored in the chunk cookies, in index order *)
  Definition chunk_fields (max : nat) (s : list A) : list (list A) :=
    if Nat.leb (length s) max then [] else split_chunks max s.
End Store.

Open Scope N_scope.

Definition line_of (tab : list (N * N)) (len : nat) : option N := lookup (N.of_nat len) tab.

(* the cookie was accepted and its line is within the limit *)
Definition line_ok (lim : N) (n : N) : bool := N.leb 1 n && N.leb n lim.

Definition entry_ok (lim : N) (p : N * N) : bool := line_ok lim (snd p).
Definition entry_within (lim : N) (p : N * N) : bool := N.leb (snd p) lim.

Definition covered_at (lim : N) (tab : list (N * N)) (i : nat) : bool :=
  match line_of tab i with Some n => line_ok lim n | None => false end.

(* every payload length 0..max has an entry, accepted and within the limit *)
Definition covered (lim : N) (tab : list (N * N)) (max : nat) : bool :=
  forallb (covered_at lim tab) (seq 0 (S max)).

Definition fits (lim : N) (tab : list (N * N)) (len : nat) : Prop :=
  exists n, line_of tab len = Some n /\ 1 <= n /\ n <= lim.
