(* What a party WITHOUT the session key can learn from, and do with, the
   cookies of Model/Session.v — definitions only.

   Symbolic (Dolev-Yao) attacker: HMAC-SHA256 over name|date|value is modelled
   as unforgeable, AES-CTR (when the store has a block key) as perfectly hiding.
   Both idealisations are ASSUMPTIONS of the model, listed in the trusted base;
   what is measured on the code is whether payloads are encrypted at all
   (VFP.ParamsCrypto.cookie_encrypted) and that tampered cookies are treated
   exactly as `decode` predicts (world correspondence, tampering profile).

   Knowledge is a closure over facts:
     from Sealed k n p   the attacker reads the cookie name n and the size of p;
                         it reads p itself iff payloads are not encrypted or it holds k
     it can build        Junk (any bytes), payloads from values it knows, and
                         Sealed k' n p only for keys k' it holds
   Values are atomic (interned strings, 2000-byte slices of a compressed token
   text): a text can be cut into its slices and slices can be joined. *)
From VF Require Import Base.Prelude Model.Cache Model.Session Model.Middleware.
Open Scope N_scope.

(* ------------------------------------------------------------------ atoms of a value *)

Inductive atom :=
| AStr (s : istr)          (* a non-empty string: e-mail, state, nonce, verifier, path *)
| APiece (p : piece).      (* one slice of the compressed text of a token *)

Definition atoms_val (v : val) : list atom :=
  match v with
  | VS s => if N.eqb s 0 then [] else [AStr s]
  | VC c => map APiece c
  | VB _ | VZ _ => []
  end.

Definition atoms_entry (e : N * val) : list atom := atoms_val (snd e).
Definition atoms_payload (p : payload) : list atom := flat_map atoms_entry p.

(* size class visible even through encryption: number of fields and of text slices *)
Definition psize (p : payload) : nat := length p + length (atoms_payload p).

(* ------------------------------------------------------------------ attacker knowledge *)

Inductive fact :=
| FCookie (c : cookie)               (* a cookie value it can present *)
| FName (n : cname)
| FSize (n : cname) (sz : nat)
| FPayload (p : payload)
| FVal (v : val).

Section Attacker.
  Variable enc : bool.            (* are payloads encrypted (measured parameter) *)
  Variable K : list N.            (* keys the attacker holds *)
  Variable I : list val.          (* values it knows beforehand (its own e-mail, its own tokens, guesses) *)
  Variable obs : list cookie.     (* cookie values it has seen on the wire or in a browser *)

  Inductive derives : fact -> Prop :=
  | d_obs c : In c obs -> derives (FCookie c)
  | d_init v : In v I -> derives (FVal v)
  | d_bool b : derives (FVal (VB b))
  | d_num z : derives (FVal (VZ z))
  | d_empty_s : derives (FVal (VS 0))
  | d_empty_c : derives (FVal (VC []))
  | d_name k n p : derives (FCookie (Sealed k n p)) -> derives (FName n)
  | d_size k n p : derives (FCookie (Sealed k n p)) -> derives (FSize n (psize p))
  | d_plain k n p : enc = false -> derives (FCookie (Sealed k n p)) -> derives (FPayload p)
  | d_open k n p : In k K -> derives (FCookie (Sealed k n p)) -> derives (FPayload p)
  | d_field p f v : derives (FPayload p) -> In (f, v) p -> derives (FVal v)
  | d_slice c x : derives (FVal (VC c)) -> In x c -> derives (FVal (VC [x]))
  | d_join a b : derives (FVal (VC a)) -> derives (FVal (VC b)) -> derives (FVal (VC (a ++ b)))
  | d_nil : derives (FPayload [])
  | d_cons f v p : derives (FVal v) -> derives (FPayload p) -> derives (FPayload ((f, v) :: p))
  | d_junk : derives (FCookie Junk)
  | d_seal k n p : In k K -> derives (FPayload p) -> derives (FCookie (Sealed k n p)).

  (* an atom the attacker knew beforehand *)
  Definition initially_known (a : atom) : Prop := exists v, In v I /\ In a (atoms_val v).

  (* an atom inside an observed cookie it can open *)
  Definition exposed (a : atom) : Prop :=
    exists k n p, In (Sealed k n p) obs /\ (enc = false \/ In k K) /\ In a (atoms_payload p).

  Definition known_atom (a : atom) : Prop := initially_known a \/ exposed a.
End Attacker.

(* ------------------------------------------------------------------ what the deployment puts on the wire *)

Definition wire_cookie (k : N) (sc : setcookie) : cookie := Sealed k (fst (fst sc)) (snd (fst sc)).
Definition wire (k : N) (l : list setcookie) : list cookie := map (wire_cookie k) l.

(* one step of the deployment: state, instant, request, fresh values, provider answer *)
Definition run := (inst * time * request * (istr * istr * istr) * option answer)%type.

Definition run_cookies (E : env) (cfg : config) (r : run) : list cookie :=
  let '(st, now, rq, rnd, ans) := r in
  wire (c_key cfg) (r_cookies (snd (serve E cfg st now rq rnd ans))).

(* every cookie value set by any response of a list of steps (any states, any requests) *)
Definition emitted (E : env) (cfg : config) (runs : list run) : list cookie :=
  flat_map (run_cookies E cfg) runs.

(* secret fields: main cookie 3 state (csrf)  4 nonce  5 PKCE verifier  6 e-mail;
   token and chunk cookies 1 the (compressed) ID / refresh token text *)
Definition secret_fields (n : cname) : list N :=
  match n with CMain => [3; 4; 5; 6] | _ => [1] end.

Definition secret_of (n : cname) (p : payload) (v : val) : Prop :=
  exists f, In f (secret_fields n) /\ In (f, v) p.

(* ------------------------------------------------------------------ undecodable cookies *)

Definition decodable (k : N) (e : cname * cookie) : bool :=
  match decode k (fst e) (snd e) with Some _ => true | None => false end.

Definition with_jar (rq : request) (j : jar) : request :=
  mkReq (q_options rq) (q_path rq) (q_uri rq) (q_uri_len rq) (q_error rq) (q_error_desc rq) (q_state rq)
        (q_code rq) (q_json rq) (q_origin rq) (q_scheme rq) (q_host rq) (q_ctx_done rq) (q_client_ids rq) j.
