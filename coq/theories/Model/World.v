(* Honest-browser histories of the model: one browser whose cookie jar changes
   only through the Set-Cookie headers it receives (replace / delete
   semantics), sending a list of requests.  Each event names the instance state
   that serves it: this covers one long-lived instance, several instances
   behind a balancer, and instances restarted with empty caches at any point
   (property C04 quantifies over exactly that). *)
From VF Require Import Base.Prelude Model.Cache Model.Session Model.Middleware Corr.WorldCorr.
Open Scope N_scope.

Record event := mkEvent {
  ev_st : inst;                     (* state of the instance that serves this request *)
  ev_now : time;
  ev_rq : request;                  (* its q_jar is ignored: the browser's jar is sent *)
  ev_rnd : istr * istr * istr;
  ev_ans : option answer;
}.

Definition with_jar (rq : request) (j : jar) : request :=
  mkReq (q_options rq) (q_path rq) (q_uri rq) (q_uri_len rq) (q_error rq) (q_error_desc rq) (q_state rq)
        (q_code rq) (q_json rq) (q_origin rq) (q_scheme rq) (q_host rq) (q_ctx_done rq) (q_client_ids rq) j.

(* the steps an honest browser starting with jar j produces: each as a wstep
   (instance 0, browser 0), so that the history monitors of Spec/WorldSpec.v
   apply to model histories and to observed ones alike *)
Fixpoint browser_run (E : env) (cfg : config) (j : jar) (evs : list event) : list wstep :=
  match evs with
  | [] => []
  | e :: r =>
      let rq := with_jar (ev_rq e) j in
      let resp := snd (serve E cfg (ev_st e) (ev_now e) rq (ev_rnd e) (ev_ans e)) in
      mkStep 0 0 (ev_now e) rq (ev_rnd e) (ev_ans e) resp 0
      :: browser_run E cfg (apply_cookies (c_key cfg) j (r_cookies resp)) r
  end.

(* instants never decrease along the history *)
Fixpoint nondecreasing (t0 : time) (evs : list event) : bool :=
  match evs with
  | [] => true
  | e :: r => Z.leb t0 (ev_now e) && nondecreasing (ev_now e) r
  end.
