(* The session-object pool of /repo/session.go under concurrency (property C05)
   — definitions only.

   Handlers (one per in-flight request) run micro-operations on SessionData
   objects taken from a shared pool; a scheduler picks which handler moves
   next (the schedule is an arbitrary list of handler indices).  The model is
   about exactly one thing: who may touch an object.

     MGet      sessionPool.Get() (an old object, or a new one) followed by the
               loading in GetSession, which overwrites every field from the
               request: the content becomes the handler's own (0 = "just loaded")
     MWrite v  the handler writes v into its object (SetCSRF, SetAccessToken, ...)
     MRead     the handler reads its object (Save, getters): it observes what is stored
     MPut      sessionPool.Put(obj); the handler still has its pointer

   What a handler legitimately expects to read is the last value it wrote itself
   since MGet (h_last); h_ok records whether every read so far saw exactly that. *)
From VF Require Import Base.Prelude.
Open Scope N_scope.

Inductive mop := MGet | MWrite (v : N) | MRead | MPut.

Record hstate := mkH {
  h_prog : list mop;          (* what is left to do *)
  h_ref : option nat;         (* the pointer the handler has *)
  h_owns : bool;              (* taken from the pool and not put back *)
  h_last : N;                 (* last value it wrote since MGet *)
  h_ok : bool;                (* every read so far returned h_last *)
}.

Record pstate := mkP {
  p_pool : list nat;          (* objects in the pool *)
  p_next : nat;               (* next fresh object *)
  p_store : list (nat * N);   (* object contents, newest binding first *)
  p_hs : list hstate;
}.

Fixpoint content (o : nat) (s : list (nat * N)) : N :=
  match s with
  | [] => 0
  | (o', v) :: r => if Nat.eqb o o' then v else content o r
  end.

Fixpoint set_nth (i : nat) (h : hstate) (l : list hstate) : list hstate :=
  match l, i with
  | [], _ => []
  | _ :: r, O => h :: r
  | x :: r, S j => x :: set_nth j h r
  end.

(* handler i takes one micro-step *)
Definition pstep (p : pstate) (i : nat) : pstate :=
  match nth_error (p_hs p) i with
  | None => p
  | Some h =>
      match h_prog h with
      | [] => p
      | MGet :: rest =>
          let '(o, pool', next') :=
            match p_pool p with
            | x :: r => (x, r, p_next p)
            | [] => (p_next p, [], S (p_next p))
            end in
          mkP pool' next' ((o, 0) :: p_store p)
              (set_nth i (mkH rest (Some o) true 0 (h_ok h)) (p_hs p))
      | MWrite v :: rest =>
          match h_ref h with
          | Some o => mkP (p_pool p) (p_next p) ((o, v) :: p_store p)
                          (set_nth i (mkH rest (h_ref h) (h_owns h) v (h_ok h)) (p_hs p))
          | None => mkP (p_pool p) (p_next p) (p_store p)
                        (set_nth i (mkH rest None (h_owns h) (h_last h) (h_ok h)) (p_hs p))
          end
      | MRead :: rest =>
          match h_ref h with
          | Some o => mkP (p_pool p) (p_next p) (p_store p)
                          (set_nth i (mkH rest (h_ref h) (h_owns h) (h_last h)
                                          (h_ok h && N.eqb (content o (p_store p)) (h_last h))) (p_hs p))
          | None => mkP (p_pool p) (p_next p) (p_store p)
                        (set_nth i (mkH rest None (h_owns h) (h_last h) (h_ok h)) (p_hs p))
          end
      | MPut :: rest =>
          match h_ref h with
          | Some o => mkP (o :: p_pool p) (p_next p) (p_store p)
                          (set_nth i (mkH rest (h_ref h) false (h_last h) (h_ok h)) (p_hs p))
          | None => mkP (p_pool p) (p_next p) (p_store p)
                        (set_nth i (mkH rest None false (h_last h) (h_ok h)) (p_hs p))
          end
      end
  end.

Definition prun (p : pstate) (schedule : list nat) : pstate := fold_left pstep schedule p.

Definition start (progs : list (list mop)) : pstate :=
  mkP [] 0 [] (map (fun pr => mkH pr None false 0 true) progs).

(* The discipline the repaired code follows: an object is read or written only
   between taking it (MGet) and putting it back (MPut), and it is put back at
   most once per MGet. *)
Fixpoint disciplined (owns : bool) (prog : list mop) : bool :=
  match prog with
  | [] => true
  | MGet :: r => negb owns && disciplined true r
  | MWrite _ :: r => owns && disciplined owns r
  | MRead :: r => owns && disciplined owns r
  | MPut :: r => owns && disciplined false r
  end.

Definition all_ok (p : pstate) : bool := forallb h_ok (p_hs p).
