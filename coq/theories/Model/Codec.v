(* Byte-level chunking of /repo/session.go splitIntoChunks — definitions only.
   Generic over the element type (bytes in the implementation).

     for len(s) > 0 {
         if len(s) > chunkSize { chunks = append(chunks, s[:chunkSize]); s = s[chunkSize:] }
         else                  { chunks = append(chunks, s); break }
     }

   The loop runs at most len(s) times when chunkSize > 0: that is the fuel. *)
From VF Require Import Base.Prelude.

Section Chunks.
  Context {A : Type}.

  Fixpoint split_chunks_fuel (fuel n : nat) (s : list A) : list (list A) :=
    match fuel with
    | O => []
    | S f =>
        match s with
        | [] => []
        | _ :: _ =>
            if Nat.ltb n (length s)
            then firstn n s :: split_chunks_fuel f n (skipn n s)
            else [s]
        end
    end.

  Definition split_chunks (n : nat) (s : list A) : list (list A) :=
    split_chunks_fuel (length s) n s.

End Chunks.
