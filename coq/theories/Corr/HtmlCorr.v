(* Correspondence check for Model/Html.v against the Go code: the functions
   evaluated (vm_compute) on the cases harness/zz_vf_escape_test.go observed.
   A case carries a message (bytes), html.EscapeString of it as computed by the
   Go standard library, and what the middleware's sendErrorResponse actually
   put between <p> and </p> of its HTML page for that message, plus the
   harness's findings about the page shape, the Content-Type, and the JSON
   variant of the same error (parsed with encoding/json). *)
From VF Require Import Base.Prelude Model.Html.
Open Scope N_scope.

Record ecase := mkECase {
  ec_id : N;
  ec_msg : list N;        (* the message handed to sendErrorResponse *)
  ec_go : list N;         (* html.EscapeString(message) *)
  ec_page : list N;       (* bytes between the fixed prefix and suffix of the HTML body *)
  ec_shape : bool;        (* the HTML body starts with the fixed prefix and ends with the fixed suffix *)
  ec_ctype : bool;        (* HTML answer: text/html; JSON answer: application/json; status as requested *)
  ec_json : bool;         (* the JSON body parses, error_description is a string equal to the message
                             (invalid UTF-8 replaced by U+FFFD), status_code is the status *)
}.

(* model output differs from what the implementation produced *)
Definition emismatch (c : ecase) : bool :=
  negb (bytes_eq (html_escape (ec_msg c)) (ec_go c) && bytes_eq (html_escape (ec_msg c)) (ec_page c)).

(* the property read on the implementation's output alone: the fragment holds
   no markup byte, every ampersand starts an entity, it decodes to the message;
   the body has the fixed frame and type; the JSON variant is well-formed *)
Definition violates_c16e (c : ecase) : bool :=
  negb (ec_shape c && ec_ctype c && ec_json c
        && forallb (fun x => negb (markup_byte x)) (ec_page c)
        && amps_ok (ec_page c)
        && bytes_eq (html_unescape_basic (ec_page c)) (ec_msg c)).

Definition eids_where (p : ecase -> bool) (l : list ecase) : list N := map ec_id (filter p l).
