(* Correspondence check for Model/Cache.v against the Go Cache: the functions
   evaluated (vm_compute) on the cases the harness observed.  A case carries,
   per operation, the instant, the operation, what the implementation
   returned and a projection of the implementation's real state. *)
From VF Require Import Base.Prelude Model.Cache Spec.CacheSpec Spec.CacheLruSpec.
Open Scope Z_scope.

Record obs_state := mkObs {
  os_order : list key;              (* c.order, front to back *)
  os_items : list (key * (Z * Z));  (* c.items: key, value, remaining minutes (rounded) *)
  os_elems : list key;              (* keys of c.elems *)
}.

Definition obs_step := (time * op * option Z * obs_state)%type.

Record ccase := mkCase { cc_id : N; cc_cap : nat; cc_steps : list obs_step }.

Definition minute : Z := 60000000000.
Definition round_min (d : Z) : Z := (d + 30000000000) / minute.

Fixpoint list_eqb (a b : list key) : bool :=
  match a, b with
  | [], [] => true
  | x :: a', y :: b' => N.eqb x y && list_eqb a' b'
  | _, _ => false
  end.

Definition item_matches (now : time) (it : list (key * entry)) (o : key * (Z * Z)) : bool :=
  let '(k, (v, m)) := o in
  match lookup k it with
  | Some e => Z.eqb v (e_val e) && Z.eqb m (round_min (e_exp e - now))
  | None => false
  end.

Definition state_matches (now : time) (c : cache) (o : obs_state) : bool :=
  list_eqb (order c) (os_order o)
  && Nat.eqb (length (items c)) (length (os_items o))
  && forallb (item_matches now (items c)) (os_items o)
  && Nat.eqb (length (os_elems o)) (length (order c))
  && forallb (fun k => memk k (order c)) (os_elems o).

Definition out_eqb (a b : option Z) : bool :=
  match a, b with
  | None, None => true
  | Some x, Some y => Z.eqb x y
  | _, _ => false
  end.

(* index of the first step at which model and implementation differ *)
Fixpoint first_diff (c : cache) (steps : list obs_step) (i : N) : option N :=
  match steps with
  | [] => None
  | (t, o, out, st) :: r =>
      let '(c1, mout) := step c (t, o) in
      if out_eqb mout out && state_matches t c1 st then first_diff c1 r (i + 1) else Some i
  end.

Definition hist_of (cs : ccase) : list (time * op) :=
  map (fun s : obs_step => let '(t, o, _, _) := s in (t, o)) (cc_steps cs).
Definition outs_of (cs : ccase) : list (option Z) :=
  map (fun s : obs_step => let '(_, _, out, _) := s in out) (cc_steps cs).
Definition presents_of (cs : ccase) : list (list key) :=
  map (fun s : obs_step => let '(_, _, _, st) := s in map fst (os_items st)) (cc_steps cs).

Definition mismatch (cs : ccase) : bool :=
  match first_diff (empty (cc_cap cs)) (cc_steps cs) 0 with Some _ => true | None => false end.

(* the property monitors applied to what the implementation did *)
Definition violates_c12 (cs : ccase) : bool :=
  negb (strictly_monotone (hist_of cs) && check_history (cc_cap cs) (hist_of cs) (outs_of cs)).

Definition violates_c13 (cs : ccase) : bool :=
  negb (check_lru (cc_cap cs) (hist_of cs) (outs_of cs) (presents_of cs)).

Definition ids_where (p : ccase -> bool) (l : list ccase) : list N :=
  map cc_id (filter p l).

(* what the model does on a case: printed into replay files *)
Definition model_trace (cs : ccase) : list (option Z * list key) :=
  let h := hist_of cs in
  combine (snd (run (empty (cc_cap cs)) h)) (map order (states (empty (cc_cap cs)) h)).
