(* Correspondence check for VerifyToken / RevokeToken histories (property C14):
   the model's verify_token (Model/Middleware.v) and revoke (Model/Revoke.v) are
   replayed on the observed history of one instance; compared per step: the
   verdict and whether the verification cache holds a live entry afterwards. *)
From VF Require Import Base.Prelude Model.Cache Model.Session Model.Middleware Model.Revoke Corr.WorldCorr.
Open Scope N_scope.

Inductive vop := VVerify (t : istr) | VRevoke (t : istr).

(* operation, instant, observed verdict, observed "cached afterwards" *)
Definition vobs := (vop * Z * bool * bool)%type.

Record vcase := mkVCase { vc_id : N; vc_toks : list (istr * tokinfo); vc_steps : list vobs }.

Definition venv (c : vcase) : env :=
  mkEnv (fun _ => []) (fun s => match lookup s (vc_toks c) with Some t => t | None => no_token end)
        (fun _ => 1%nat) (fun _ _ => None) (fun s => s).

Definition live_entry (now : time) (t : istr) (st : inst) : bool :=
  match lookup t (items (i_tcache st)) with Some e => negb (expired now e) | None => false end.

Fixpoint vfirst_diff (E : env) (st : inst) (steps : list vobs) (i : N) : option N :=
  match steps with
  | [] => None
  | (VVerify t, now, acc, cached) :: r =>
      let '(st', v) := verify_token E st now t in
      if Bool.eqb v acc && Bool.eqb (live_entry now t st') cached then vfirst_diff E st' r (i + 1) else Some i
  | (VRevoke t, now, _, _) :: r => vfirst_diff E (revoke E st now t) r (i + 1)
  end.

Definition vinst0 : inst := mkInst true 0 0 (empty default_capacity) (empty default_capacity).

Definition vmismatch (c : vcase) : bool :=
  match vfirst_diff (venv c) vinst0 (vc_steps c) 0 with Some _ => true | None => false end.

(* ---- the property as a monitor over the observed history (never looks at the model's state):
   a token is reported valid only if a from-scratch verification at that moment would accept it
   and it has not been revoked earlier in the history; a cached accept never outlives the token's
   expiry; a token that failed verification is not cached; a revocation takes effect on the very
   next verification *)
Fixpoint vmonitor (E : env) (revoked : list istr) (steps : list vobs) : bool :=
  match steps with
  | [] => true
  | (VVerify t, now, acc, cached) :: r =>
      (if acc then accept_at now (tok E t) && negb (memk t revoked) else true)
      && (if cached then acc && negb (Z.ltb (ti_exp (tok E t) * sec) now) else true)
      && vmonitor E revoked r
  | (VRevoke t, _, _, _) :: r => vmonitor E (t :: revoked) r
  end.

Definition violates_c14 (c : vcase) : bool := negb (vmonitor (venv c) [] (vc_steps c)).

Definition vids_where (p : vcase -> bool) (l : list vcase) : list N := map vc_id (filter p l).
