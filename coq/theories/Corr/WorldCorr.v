(* Correspondence check for Model/Middleware.v: world histories observed on the
   Go implementation (one step = one HTTP request served by an instance),
   replayed step by step on the model.  Each step carries the request as the
   implementation saw it (cookies already decoded by the harness with the
   deployment's own codec), the random values it drew, the provider's answer
   and the observed response. *)
From VF Require Import Base.Prelude Model.Cache Model.Session Model.Middleware Spec.Url.
Open Scope N_scope.

Record wstep := mkStep {
  w_inst : N;                      (* which instance served it *)
  w_browser : N;                   (* which browser sent it *)
  w_now : Z;                       (* instant, ns since the case's base *)
  w_rq : request;
  w_rnd : istr * istr * istr;      (* state, nonce, verifier the implementation drew (0 if none) *)
  w_ans : option answer;           (* the provider's answer to this step's token-endpoint call *)
  w_obs : response;                (* what the implementation did *)
  w_tag : N;                       (* generator's label of the step (see harness), for monitors *)
}.

Record wcase := mkWCase {
  wc_id : N;
  wc_cfg : config;
  wc_bytes : list (istr * list N);
  wc_toks : list (istr * tokinfo);
  wc_chunks : list (istr * nat);
  wc_tmpl : list (N * (istr * option istr));
  wc_redir : list (istr * istr);                  (* what http.Redirect makes of a stored return URI *)
  wc_insts : list (N * (bool * (istr * istr)));   (* instance: ready, auth endpoint, end-session endpoint *)
  wc_steps : list wstep;
}.

Definition tmpl_of (l : list (N * (istr * option istr))) (n : N) (t : istr) : option istr :=
  match find (fun e => N.eqb (fst e) n && N.eqb (fst (snd e)) t) l with
  | Some e => snd (snd e)
  | None => None
  end.

Definition env_of (c : wcase) : env :=
  mkEnv (fun s => match lookup s (wc_bytes c) with Some b => b | None => [] end)
        (fun s => match lookup s (wc_toks c) with Some t => t | None => no_token end)
        (fun s => match lookup s (wc_chunks c) with Some n => n | None => 1%nat end)
        (tmpl_of (wc_tmpl c))
        (fun s => match lookup s (wc_redir c) with Some t => t | None => s end).

Definition default_capacity : nat := 500.

Definition inst_of (d : bool * (istr * istr)) : inst :=
  mkInst (fst d) (fst (snd d)) (snd (snd d)) (empty default_capacity) (empty default_capacity).

(* ------------------------------------------------------------------ comparison *)

Definition tval_code (t : tval) : N := match t with TEmpty => 0 | TTok t => 2 + t | TJunk => 1 end.

Fixpoint loc_eqb (a b : location) : bool :=
  match a, b with
  | LAuth b1 s1 n1 c1 rs1 rh1, LAuth b2 s2 n2 c2 rs2 rh2 =>
      N.eqb b1 b2 && N.eqb s1 s2 && N.eqb n1 n2 && N.eqb c1 c2 && N.eqb rs1 rs2 && N.eqb rh1 rh2
  | LEndSession b1 h1 p1, LEndSession b2 h2 p2 => N.eqb b1 b2 && tval_eqb h1 h2 && loc_eqb p1 p2
  | LPostAbs u1, LPostAbs u2 => N.eqb u1 u2
  | LPostRel s1 h1 u1, LPostRel s2 h2 u2 => N.eqb s1 s2 && N.eqb h1 h2 && N.eqb u1 u2
  | LPath p1, LPath p2 => N.eqb p1 p2
  | _, _ => false
  end.

Definition oloc_eqb (a b : option location) : bool :=
  match a, b with
  | None, None => true
  | Some x, Some y => loc_eqb x y
  | _, _ => false
  end.

Definition msg_eqb (a b : message) : bool :=
  match a, b with
  | MFixed _, MFixed _ => true          (* the wording of the fixed messages is not an observable the properties speak of *)
  | MProviderError x, MProviderError y => N.eqb x y
  | _, _ => false
  end.

Definition body_eqb (a b : body) : bool :=
  match a, b with
  | BNone, BNone => true
  | BPlain, BPlain => true
  | BHtml x, BHtml y => msg_eqb x y
  | BJson x, BJson y => msg_eqb x y
  | BJson401, BJson401 => true
  | _, _ => false
  end.

Fixpoint list_N_eqb (a b : list N) : bool :=
  match a, b with
  | [], [] => true
  | x :: a', y :: b' => N.eqb x y && list_N_eqb a' b'
  | _, _ => false
  end.

Definition hval_eqb (a b : hval) : bool :=
  match a, b with
  | HStr x, HStr y => N.eqb x y
  | HList x, HList y => list_N_eqb x y
  | _, _ => false
  end.

Fixpoint hdrs_eqb (a b : list (N * hval)) : bool :=
  match a, b with
  | [], [] => true
  | (c, v) :: a', (d, w) :: b' => N.eqb c d && hval_eqb v w && hdrs_eqb a' b'
  | _, _ => false
  end.

Definition fwd_eqb (a b : option (list (N * hval))) : bool :=
  match a, b with
  | None, None => true
  | Some x, Some y => hdrs_eqb x y
  | _, _ => false
  end.

Definition call_eqb (a b : pcall) : bool :=
  match a, b with
  | PExchange c1 s1 h1 v1, PExchange c2 s2 h2 v2 => N.eqb c1 c2 && N.eqb s1 s2 && N.eqb h1 h2 && N.eqb v1 v2
  | PRefresh t1, PRefresh t2 => tval_eqb t1 t2
  | _, _ => false
  end.

Fixpoint calls_eqb (a b : list pcall) : bool :=
  match a, b with
  | [], [] => true
  | x :: a', y :: b' => call_eqb x y && calls_eqb a' b'
  | _, _ => false
  end.

(* payload equality, created_at (main cookie field 2) within 2 s: the
   implementation reads the clock a little after the harness did *)
Definition val_close (is_main : bool) (f : N) (a b : val) : bool :=
  match a, b with
  | VZ x, VZ y => if is_main && N.eqb f 2 then Z.leb (Z.abs (x - y)) 2 else Z.eqb x y
  | _, _ => val_eqb a b
  end.

Fixpoint payload_close (is_main : bool) (a b : payload) : bool :=
  match a, b with
  | [], [] => true
  | (f, v) :: a', (g, w) :: b' => N.eqb f g && val_close is_main f v w && payload_close is_main a' b'
  | _, _ => false
  end.

Definition sc_close (a b : setcookie) : bool :=
  let '(n1, p1, d1) := a in
  let '(n2, p2, d2) := b in
  cname_eqb n1 n2 && Bool.eqb d1 d2 && payload_close (cname_eqb n1 CMain) p1 p2.

(* Set-Cookie lists are compared after a stable sort by cookie name: the
   implementation emits chunk cookies in map order *)
Fixpoint insert_sc (x : setcookie) (l : list setcookie) : list setcookie :=
  match l with
  | [] => [x]
  | y :: r => if N.ltb (cname_code (fst (fst x))) (cname_code (fst (fst y))) then x :: y :: r
              else y :: insert_sc x r
  end.

Definition sort_sc (l : list setcookie) : list setcookie := fold_right insert_sc [] l.

Fixpoint scs_close (a b : list setcookie) : bool :=
  match a, b with
  | [], [] => true
  | x :: a', y :: b' => sc_close x y && scs_close a' b'
  | _, _ => false
  end.

Definition resp_close (m o : response) : bool :=
  N.eqb (r_status m) (r_status o)
  && oloc_eqb (r_loc m) (r_loc o)
  && scs_close (sort_sc (r_cookies m)) (sort_sc (r_cookies o))
  && body_eqb (r_body m) (r_body o)
  && fwd_eqb (r_fwd m) (r_fwd o)
  && Bool.eqb (r_cors m) (r_cors o)
  && calls_eqb (r_calls m) (r_calls o)
  && list_N_eqb (r_flags m) (r_flags o).

(* ------------------------------------------------------------------ replay on the model *)

Fixpoint set_inst (i : N) (s : inst) (l : list (N * inst)) : list (N * inst) :=
  match l with
  | [] => [(i, s)]
  | (j, t) :: r => if N.eqb i j then (i, s) :: r else (j, t) :: set_inst i s r
  end.

Definition model_step (E : env) (cfg : config) (insts : list (N * inst)) (s : wstep)
  : list (N * inst) * response :=
  match lookup (w_inst s) insts with
  | Some st =>
      let '(st', r) := serve E cfg st (w_now s) (w_rq s) (w_rnd s) (w_ans s) in
      (set_inst (w_inst s) st' insts, r)
  | None => (insts, resp0)
  end.

Fixpoint first_diff (E : env) (cfg : config) (insts : list (N * inst)) (steps : list wstep) (i : N)
  : option N :=
  match steps with
  | [] => None
  | s :: r =>
      let '(insts', m) := model_step E cfg insts s in
      if resp_close m (w_obs s) then first_diff E cfg insts' r (i + 1) else Some i
  end.

Definition insts0 (c : wcase) : list (N * inst) := map (fun e => (fst e, inst_of (snd e))) (wc_insts c).

(* the environment tables of a case must denote real strings and tokens: the
   executable form of Proofs/WorldBase.env_ok on the strings the case mentions *)
Definition env_check (c : wcase) : bool :=
  let E := env_of c in
  negb (ti_static (tok E 0))
  && forallb (fun e => Nat.leb 1 (snd e)) (wc_chunks c)
  && forallb (fun e => negb (ti_static (snd e)) || ti_claims (snd e)) (wc_toks c)
  && list_N_eqb (bytes_of E slash) [47]
  && forallb (fun e => negb (local_path E (fst e)) || same_origin_path (bytes_of E (snd e))) (wc_redir c).

Definition wmismatch (c : wcase) : bool :=
  negb (env_check c) ||
  match first_diff (env_of c) (wc_cfg c) (insts0 c) (wc_steps c) 0 with Some _ => true | None => false end.

Definition wids_where (p : wcase -> bool) (l : list wcase) : list N := map wc_id (filter p l).

(* the model's responses for a case: printed into replay files *)
Fixpoint model_responses (E : env) (cfg : config) (insts : list (N * inst)) (steps : list wstep)
  : list response :=
  match steps with
  | [] => []
  | s :: r => let '(insts', m) := model_step E cfg insts s in m :: model_responses E cfg insts' r
  end.

Definition first_diff_of (c : wcase) : option N :=
  first_diff (env_of c) (wc_cfg c) (insts0 c) (wc_steps c) 0.
