(* Correspondence check for Model/Limiter.v against the real rate.Limiter of a
   middleware instance built by New(): the functions evaluated (vm_compute) on
   the cases the harness observed.

   A case carries the configured rateLimit n, the MEASURED Limit() (in
   millitokens per second, so that a fractional rate is visible; -1 stands for
   rate.Inf) and Burst() of the instance, and the observations
   (arrival instant as ns offset from the case's base instant, admitted?) of
   AllowN(base + offset, 1) on that instance's limiter.

   The Go limiter computes in float64, the model in exact integers.  A decision
   whose exact token level lies within `eps` of the decision threshold is not
   compared (it is counted): there the model FOLLOWS the implementation's
   decision so that the two states stay aligned for the rest of the case.
   DESIGN.md allows 10^-6 token for eps; 10^-8 token is used: the threshold sits
   at a deficit of rate * 10^-9 token (one nanosecond of refill), an arrival
   that is exactly on time has level 0, and with eps = 10^-6 every on-time
   arrival at rate 1000/s would go uncompared.  float64 error on levels <= 1000
   tokens over <= 1300 operations stays below 10^-9 token. *)
From VF Require Import Base.Prelude Model.Limiter Spec.LimiterSpec.
Open Scope Z_scope.

Record lcase := mkLCase {
  lc_id : N;
  lc_n : Z;                 (* configured rateLimit *)
  lc_rate_milli : Z;        (* measured Limit() * 1000, rounded; -1 = Inf *)
  lc_burst : Z;             (* measured Burst() *)
  lc_obs : list (time * bool);
}.

(* Arrival instants are written in the case files as arithmetic runs
   (first instant, spacing, count) — bursts and steady streams are long runs —
   and expanded here; the admitted/refused flags are listed one per arrival. *)
Fixpoint run_of (t d : Z) (k : nat) : list time :=
  match k with
  | O => []
  | S k' => t :: run_of (t + d) d k'
  end.

Definition expand_run (r : Z * Z * Z) : list time :=
  let '(t, d, k) := r in run_of t d (Z.to_nat k).

Definition expand (runs : list (Z * Z * Z)) : list time := flat_map expand_run runs.

Definition observed (runs : list (Z * Z * Z)) (adm : list bool) : list (time * bool) :=
  combine (expand runs) adm.

(* can the model take the measured rate?  (whole tokens per second, finite) *)
Definition representable (c : lcase) : bool :=
  (0 <=? lc_rate_milli c) && (lc_rate_milli c mod 1000 =? 0).

Definition model_init (c : lcase) : lim := init (lc_rate_milli c / 1000) (lc_burst c).

(* 10^-8 token in the model's units of 10^-9 token *)
Definition eps : Z := 10.

(* the decision flips where level = -rate (rate >= 1) or level = 0 (rate <= 0) *)
Definition near_threshold (now : time) (s : lim) : bool :=
  Z.abs (level now s + Z.max (rate s) 0) <=? eps.

(* the state after the implementation's decision *)
Definition follow (now : time) (s : lim) (ok : bool) : lim :=
  if ok then take now s else s.

(* index of the first compared decision on which model and implementation differ *)
Fixpoint first_diff (s : lim) (os : list (time * bool)) (i : N) : option N :=
  match os with
  | [] => None
  | (t, ok) :: r =>
      if near_threshold t s then first_diff (follow t s ok) r (i + 1)
      else let '(s1, mok) := allow t s in
           if Bool.eqb mok ok then first_diff s1 r (i + 1) else Some i
  end.

Fixpoint skipped_from (s : lim) (os : list (time * bool)) : N :=
  match os with
  | [] => 0%N
  | (t, ok) :: r =>
      if near_threshold t s then (1 + skipped_from (follow t s ok) r)%N
      else skipped_from (fst (allow t s)) r
  end.

Definition mismatch (c : lcase) : bool :=
  if representable c
  then match first_diff (model_init c) (lc_obs c) 0 with Some _ => true | None => false end
  else true.

(* the property monitor applied to what the implementation did, for the configured n *)
Definition violates_c19 (c : lcase) : bool := negb (monitor (lc_n c) (lc_obs c)).

Definition ids_where (p : lcase -> bool) (l : list lcase) : list N :=
  map lc_id (filter p l).

(* statistics printed into the evidence *)
Definition skipped (c : lcase) : N :=
  if representable c then skipped_from (model_init c) (lc_obs c) else 0%N.
Definition decisions (c : lcase) : N := N.of_nat (length (lc_obs c)).
Definition sumN (l : list N) : N := fold_left N.add l 0%N.
Definition total_skipped (l : list lcase) : N := sumN (map skipped l).
Definition total_decisions (l : list lcase) : N := sumN (map decisions l).

(* which clause of the monitor fails, for reading replays: (arrivals, upper, lower) *)
Definition clauses (c : lcase) : bool * bool * bool :=
  (arrivals_ok (lc_obs c), upper_ok (lc_n c) (lc_obs c), lower_ok (lc_n c) (lc_obs c)).

(* what the model and the reference bucket decide on a case *)
Definition model_trace (c : lcase) : list bool :=
  snd (run (model_init c) (map fst (lc_obs c))).
Definition reference_trace (c : lcase) : list bool :=
  ref_trace (lc_n c) (ref_init (lc_n c)) (map fst (lc_obs c)).
