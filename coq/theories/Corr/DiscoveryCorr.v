(* Correspondence check for Model/Discovery.v against the Go code: the
   functions evaluated (vm_compute) on the cases the harness observed.
   `mismatch` runs the model on a case's inputs and compares with what the
   implementation did, on projected observables only (status, forwarded,
   Location identity, any Set-Cookie, discovery hit counts, the endpoint fields,
   whether the metadata cache holds a document and for how many minutes, the
   time to serving within a tolerance).  `violates_c20` applies the property
   monitor to the implementation's observations. *)
From VF Require Import Base.Prelude Model.Discovery Spec.DiscoverySpec.
From VFP Require Import ParamsDiscovery.
Open Scope Z_scope.

Definition opt_N_eqb (a b : option N) : bool :=
  match a, b with
  | None, None => true
  | Some x, Some y => N.eqb x y
  | _, _ => false
  end.

Definition doc_eqb (a b : doc) : bool :=
  N.eqb (d_issuer a) (d_issuer b) && N.eqb (d_auth a) (d_auth b) && N.eqb (d_token a) (d_token b)
  && N.eqb (d_jwks a) (d_jwks b) && N.eqb (d_revoke a) (d_revoke b) && N.eqb (d_end a) (d_end b).

Fixpoint zlist_eqb (a b : list Z) : bool :=
  match a, b with
  | [], [] => true
  | x :: a', y :: b' => Z.eqb x y && zlist_eqb a' b'
  | _, _ => false
  end.

Definition delay_s (i : nat) : Z := delay i / sec.

(* the measured pauses of one discoverProviderMetadata call are the model's *)
Definition params_ok : bool := zlist_eqb (map delay_s (seq 0 max_retries)) disc_sleeps_s.

Definition req_of (q : obs_req) : request := mkReq (oq_path q) (oq_patience q).

Definition resp_matches (r : response) (q : obs_req) : bool :=
  Z.eqb (r_status r) (oq_status q) && Bool.eqb (r_forwarded r) (oq_fwd q)
  && opt_N_eqb (r_location r) (oq_loc q) && Bool.eqb (r_cookies r) (oq_cookies q).

(* a request sent while initialisation was running: compared when the
   implementation's ready flag did not change while it was being served *)
Definition pre_matches (m_final : mw) (q : obs_req) : bool :=
  match oq_ready_before q, oq_ready_after q with
  | false, false => resp_matches (serve fresh_mw (req_of q)) q
  | true, true => resp_matches (serve m_final (req_of q)) q
  | _, _ => true
  end.

Definition minute : Z := 60 * sec.
Definition round_min (d : Z) : Z := (d + 30 * sec) / minute.

Definition is_some {A} (o : option A) : bool := match o with Some _ => true | None => false end.

Definition state_matches (m : mw) (w : world) (o : obs_state) : bool :=
  N.eqb (w_hits w) (os_hits o) && Bool.eqb (m_ready m) (os_ready o) && doc_eqb (m_ep m) (os_ep o)
  && Bool.eqb (is_some (mc_doc (m_cache m))) (os_cached o)
  && (negb (os_cached o)
      || (Z.leb (round_min (mc_exp (m_cache m) - w_now w) - 1) (os_rem_min o)
          && Z.leb (os_rem_min o) (round_min (mc_exp (m_cache m) - w_now w) + 1))).

Definition apply_op (s : mw * world) (o : op) : mw * world :=
  match o with
  | OServe _ => s
  | OScript l h => step s (EScript l h)
  | OShift d => step s (EAdvance d)
  | ORefresh => step s ERefresh
  | OCleanup => step s ECleanup
  end.

Fixpoint first_diff (s : mw * world) (steps : list obs_step) (i : N) : option N :=
  match steps with
  | [] => None
  | (o, q, st) :: r =>
      let s1 := apply_op s o in
      let ok_resp := match o, q with
                     | OServe _, Some q => resp_matches (serve (fst s) (req_of q)) q
                     | OServe _, None => false
                     | _, _ => true
                     end in
      if ok_resp && state_matches (fst s1) (snd s1) st then first_diff s1 r (i + 1) else Some i
  end.

Definition model_init (c : dcase) : mw * world :=
  initialize fresh_mw (fresh_world (dc_script c) (dc_healthy c) (dc_timeout c)).

(* the model serves login redirects *)
Definition serving (m : mw) : bool := m_ready m && negb (N.eqb (d_issuer (m_ep m)) 0).

(* observed time to serving vs modelled: never earlier (300 ms tolerance), at most 9/8 + timeout + 4 s later *)
Definition time_matches (c : dcase) (model_ns : Z) (obs_ms : Z) : bool :=
  Z.leb (model_ns / 1000000 - 300) obs_ms
  && Z.leb obs_ms ((model_ns * 9 / 8 + dc_timeout c + 4 * sec) / 1000000).

Definition init_matches (c : dcase) : bool :=
  let '(m0, w0) := model_init c in
  N.eqb (w_hits w0) (dc_init_hits c)
  && match dc_ready_ms c with
     | Some t => time_matches c (w_now w0) t
                 && (if dc_direct c then m_ready m0
                     else serving m0 && N.eqb (dc_ready_loc c) (d_auth (m_ep m0)))
     | None => if dc_direct c then negb (m_ready m0) else negb (serving m0)
     end.

Definition mismatch (c : dcase) : bool :=
  negb (params_ok
        && init_matches c
        && forallb (pre_matches (fst (model_init c))) (dc_pre c)
        && match first_diff (model_init c) (dc_steps c) 0 with Some _ => false | None => true end).

Definition violates_c20 (c : dcase) : bool := negb (check_case c && stays_ok c && ep_ok c).

Definition ids_where (p : dcase -> bool) (l : list dcase) : list N := map dc_id (filter p l).

(* what the model says about a case: printed into replay files
   (ready, serving, ns to that point, discovery hits, index of the first diverging step) *)
Definition model_trace (c : dcase) : bool * bool * Z * N * option N :=
  let '(m0, w0) := model_init c in
  (m_ready m0, serving m0, w_now w0, w_hits w0, first_diff (m0, w0) (dc_steps c) 0).

(* ---- the observations the MODEL produces for an input, in the same format
   (used by the theorem that the monitor accepts everything the model does) *)

Fixpoint docs_of (log : list answer) : list doc :=
  match log with
  | [] => []
  | ADoc d :: r => d :: docs_of r
  | AFault _ :: r => docs_of r
  end.

Definition model_req (s : mw * world) (rq : request) : obs_req :=
  let r := serve (fst s) rq in
  mkOq (rq_path rq) (rq_patience rq) (r_status r) (r_forwarded r) (r_location r) (r_cookies r)
       (N.of_nat (length (docs_of (w_log (snd s))))) (m_ready (fst s)) (m_ready (fst s)).

Definition model_state (s : mw * world) : obs_state :=
  mkOs (w_hits (snd s)) (m_ready (fst s)) (m_ep (fst s)) (is_some (mc_doc (m_cache (fst s))))
       (round_min (mc_exp (m_cache (fst s)) - w_now (snd s))).

Fixpoint model_steps (s : mw * world) (ops : list op) : list obs_step * (mw * world) :=
  match ops with
  | [] => ([], s)
  | o :: r =>
      let s1 := apply_op s o in
      let q := match o with OServe rq => Some (model_req s rq) | _ => None end in
      let '(steps, s2) := model_steps s1 r in
      ((o, q, model_state s1) :: steps, s2)
  end.

Definition model_case (script : list answer) (h : doc) (T : Z) (pre : list request) (ops : list op) : dcase :=
  let w := fresh_world script h T in
  let s0 := initialize_retrying fresh_mw w in
  let '(steps, s1) := model_steps s0 ops in
  mkDc 0 false T script h (map (model_req (fresh_mw, w)) pre)
       (if serving (fst s0) then Some (w_now (snd s0) / 1000000) else None)
       (d_auth (m_ep (fst s0))) 0 (w_hits (snd s0)) steps
       (rev (docs_of (w_log (snd s1)))).
