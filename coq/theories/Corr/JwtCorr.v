(* Correspondence check for Model/Jwt.v against the Go verifier: the functions
   evaluated (vm_compute) on the cases the harness observed.

   A structured case carries the configuration, the key set, the instant the
   harness read just before calling the code, the token RECORD derived from
   the description the token was generated from, and what was observed:
     vj   parseJWT + TraefikOidc.VerifyJWTSignatureAndClaims accepted
     vt   TraefikOidc.VerifyToken on a fresh instance accepted
     pan  a panic was recovered
     ref  verdict of the harness's independent strict reference verifier on
          the signature alone (Go stdlib called directly: key chosen by the
          described kid, exact family, exact hash, fixed-length r||s, exact
          signing input) - cross-checks the symbolic signature description.
   A raw case (random bytes, random mutations of a valid token) has no record:
   nothing but the unchanged valid token passes the reference verifier, so the
   expected verdict is `ref`.

   `im` (the measured implementation parameters) is defined in the header of
   each generated case file from the same measurements as gen/params/ParamsJwt.v. *)
From VF Require Import Base.Prelude Model.Jwt Spec.JwtSpec.
Open Scope Z_scope.

Inductive jcase :=
| JTok (id : N) (cfg : config) (jw : list jwk) (now : time) (t : token) (vj vt pan ref : bool)
| JRaw (id : N) (vj vt pan ref : bool).

Definition jc_id (c : jcase) : N :=
  match c with JTok id _ _ _ _ _ _ _ _ => id | JRaw id _ _ _ _ => id end.

(* model output differs from the implementation's observation, or the symbolic
   signature description disagrees with the reference verifier *)
Definition mismatch (im : impl) (c : jcase) : bool :=
  match c with
  | JTok _ cfg jw now t vj vt pan ref =>
      negb (Bool.eqb (accept im cfg jw now t) vj)
      || negb (Bool.eqb (verify_token_fresh im cfg jw now t) vt)
      || pan
      || negb (Bool.eqb (t_parts3 t && t_sig_b64_ok t && spec_sig jw t) ref)
  | JRaw _ vj vt pan ref => negb (Bool.eqb vj ref) || negb (Bool.eqb vt ref) || pan
  end.

(* the property monitor applied to what the implementation did *)
Definition violates_c02 (c : jcase) : bool :=
  match c with
  | JTok _ cfg jw now t vj vt pan _ =>
      pan || negb (Bool.eqb vj (spec cfg jw now t)) || negb (Bool.eqb vt (spec cfg jw now t))
  | JRaw _ vj vt pan ref => pan || ((vj || vt) && negb ref)
  end.

Definition ids_where (p : jcase -> bool) (l : list jcase) : list N :=
  map jc_id (filter p l).

(* (model verdict, specification verdict): printed into replay files *)
Definition model_trace (im : impl) (c : jcase) : option (bool * bool) :=
  match c with
  | JTok _ cfg jw now t _ _ _ _ => Some (accept im cfg jw now t, spec cfg jw now t)
  | JRaw _ _ _ _ _ => None
  end.
