(* C07 at the level of the session API: arbitrary sequences of session updates
   over successive requests of one browser, evaluated on the model of
   Model/Session.v and on a reference ("what was last written and saved"), to be
   compared with what the real SessionManager / SessionData getters return at the
   start of every request.  Evaluated on generated cases with vm_compute (the
   harness is harness/zz_vf_sessionops_test.go). *)
From VF Require Import Base.Prelude Model.Cache Model.Session.
Open Scope N_scope.

(* one call on the session object of the current request *)
Inductive sop :=
| SAuth (b : bool)                (* SetAuthenticated *)
| SMain (f : N) (s : istr)        (* SetCSRF 3 / SetNonce 4 / SetCodeVerifier 5 / SetEmail 6 / SetIncomingPath 7 *)
| SAcc (t : istr)                 (* SetAccessToken *)
| SRef (t : istr)                 (* SetRefreshToken *)
| SClear                          (* Clear(r, w): drop everything and Save *)
| SSave.                          (* Save(r, w) *)

(* what the getters return at the start of a request *)
Record sreads := mkReads {
  rd_auth : bool; rd_email : istr; rd_csrf : istr; rd_nonce : istr; rd_verifier : istr; rd_incoming : istr;
  rd_acc : tval; rd_ref : tval;
}.

Definition reads_eqb (a b : sreads) : bool :=
  Bool.eqb (rd_auth a) (rd_auth b) && N.eqb (rd_email a) (rd_email b) && N.eqb (rd_csrf a) (rd_csrf b)
  && N.eqb (rd_nonce a) (rd_nonce b) && N.eqb (rd_verifier a) (rd_verifier b) && N.eqb (rd_incoming a) (rd_incoming b)
  && tval_eqb (rd_acc a) (rd_acc b) && tval_eqb (rd_ref a) (rd_ref b).

(* a request: instant, the reads OBSERVED on the implementation at its start, the calls made *)
Record sreq := mkSReq { sr_now : time; sr_obs : sreads; sr_ops : list sop }.

Record scase := mkSCase {
  sc_id : N;
  sc_key : N;
  sc_nchunks : list (istr * nat);   (* number of chunk cookies per token text (measured); absent: 1 *)
  sc_reqs : list sreq;
}.

Definition nch_of (tbl : list (istr * nat)) (t : istr) : nat :=
  match lookup t tbl with Some n => n | None => 1%nat end.

(* ---------------------------------------------------------------- the model *)

Section Model.
  Variable nch : istr -> nat.
  Variable k : N.

  Definition model_reads (now : time) (sd : sdata) : sreads :=
    mkReads (authenticated now sd) (get_str 6 (s_main sd)) (get_str 3 (s_main sd)) (get_str 4 (s_main sd))
            (get_str 5 (s_main sd)) (get_str 7 (s_main sd)) (get_access nch sd) (get_refresh nch sd).

  Definition model_op (now : time) (st : sdata * list setcookie) (o : sop) : sdata * list setcookie :=
    let '(sd, cs) := st in
    match o with
    | SAuth b => (set_authenticated now b sd, cs)
    | SMain f s => (set_main f s sd, cs)
    | SAcc t => (set_access nch t sd, cs)
    | SRef t => (set_refresh nch t sd, cs)
    | SClear => let '(sd', c) := clear sd in (sd', cs ++ c)
    | SSave => (after_save sd, cs ++ save_cookies sd)
    end.

  (* one request on a jar: the reads at its start and the jar afterwards *)
  Definition model_request (j : jar) (rq : sreq) : sreads * jar :=
    let sd := load k (sr_now rq) j in
    let '(_, cs) := fold_left (model_op (sr_now rq)) (sr_ops rq) (sd, []) in
    (model_reads (sr_now rq) sd, apply_cookies k j cs).

  Fixpoint model_run (j : jar) (l : list sreq) : list sreads :=
    match l with
    | [] => []
    | rq :: r => let '(rd, j') := model_request j rq in rd :: model_run j' r
    end.
End Model.

(* ---------------------------------------------------------------- the reference: last written and saved *)

Record sref := mkRef {
  rf_auth : bool; rf_created : Z; rf_email : istr; rf_csrf : istr; rf_nonce : istr; rf_verifier : istr; rf_incoming : istr;
  rf_acc : tval; rf_ref : tval;
}.

Definition ref_empty : sref := mkRef false 0 0 0 0 0 0 TEmpty TEmpty.

Definition tval_of (t : istr) : tval := if N.eqb t 0 then TEmpty else TTok t.

Definition ref_op (now : time) (st : sref * sref) (o : sop) : sref * sref :=
  let '(cur, stored) := st in
  match o with
  | SAuth b =>
      (mkRef b (if b then now / 1000000000 else rf_created cur) (rf_email cur) (rf_csrf cur) (rf_nonce cur) (rf_verifier cur)
             (rf_incoming cur) (rf_acc cur) (rf_ref cur), stored)
  | SMain f s =>
      (mkRef (rf_auth cur) (rf_created cur)
             (if N.eqb f 6 then s else rf_email cur) (if N.eqb f 3 then s else rf_csrf cur) (if N.eqb f 4 then s else rf_nonce cur)
             (if N.eqb f 5 then s else rf_verifier cur) (if N.eqb f 7 then s else rf_incoming cur) (rf_acc cur) (rf_ref cur), stored)
  | SAcc t => (mkRef (rf_auth cur) (rf_created cur) (rf_email cur) (rf_csrf cur) (rf_nonce cur) (rf_verifier cur) (rf_incoming cur)
                     (tval_of t) (rf_ref cur), stored)
  | SRef t => (mkRef (rf_auth cur) (rf_created cur) (rf_email cur) (rf_csrf cur) (rf_nonce cur) (rf_verifier cur) (rf_incoming cur)
                     (rf_acc cur) (tval_of t), stored)
  | SClear => (ref_empty, ref_empty)
  | SSave => (cur, cur)
  end.

Definition day_ns_ref : Z := 86400 * 1000000000.

(* what the next request must read: the stored values (an authenticated flag counts only within 24 h of its setting) *)
Definition ref_reads (now : time) (s : sref) : sreads :=
  mkReads (rf_auth s && Z.leb (now - rf_created s * 1000000000) day_ns_ref)
          (rf_email s) (rf_csrf s) (rf_nonce s) (rf_verifier s) (rf_incoming s) (rf_acc s) (rf_ref s).

Fixpoint ref_run (stored : sref) (l : list sreq) : list sreads :=
  match l with
  | [] => []
  | rq :: r =>
      let '(_, stored') := fold_left (ref_op (sr_now rq)) (sr_ops rq) (stored, stored) in
      ref_reads (sr_now rq) stored :: ref_run stored' r
  end.

(* ---------------------------------------------------------------- verdicts on a case *)

Fixpoint all_reads_eq (a b : list sreads) : bool :=
  match a, b with
  | [], [] => true
  | x :: a', y :: b' => reads_eqb x y && all_reads_eq a' b'
  | _, _ => false
  end.

Definition observed (c : scase) : list sreads := map sr_obs (sc_reqs c).

(* model and implementation read different things somewhere *)
Definition smismatch (c : scase) : bool :=
  negb (all_reads_eq (observed c) (model_run (nch_of (sc_nchunks c)) (sc_key c) [] (sc_reqs c))).

(* the implementation does not read back what was last written and saved *)
Definition violates_c07s (c : scase) : bool :=
  negb (all_reads_eq (observed c) (ref_run ref_empty (sc_reqs c))).

(* the model itself against the reference (printed too: a case where they differ points at the model or the reference) *)
Definition model_vs_ref (c : scase) : bool :=
  negb (all_reads_eq (model_run (nch_of (sc_nchunks c)) (sc_key c) [] (sc_reqs c)) (ref_run ref_empty (sc_reqs c))).

Definition sids_where (p : scase -> bool) (l : list scase) : list N := map sc_id (filter p l).
