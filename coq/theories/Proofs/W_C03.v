(* Property C03, per step: Model/Middleware.serve satisfies Spec/WorldSpec.c03_step
   for every input, and what an initiation stores / shows. *)
From VF Require Import Base.Prelude Model.Cache Model.Session Model.Middleware Corr.WorldCorr Spec.WorldSpec.
From VF Require Import Proofs.CacheProofs Proofs.WorldBase Proofs.W_BLemmas.
From Coq Require Import ZifyBool ZifyNat ZifyN.
Open Scope N_scope.

Section C03.
  Variable E : env.
  Variable cfg : config.

  Lemma b_c03_quiet now rq ans r :
    r_calls r = [] -> emits_auth r = false -> c03_step E cfg now rq ans r = true.
  Proof.
    intros Hc He. unfold c03_step. rewrite (b_establishes_no_auth _ _ _ _ _ He), Hc.
    destruct (is_callback cfg rq); [|reflexivity].
    destruct (N.eqb (get_str 3 (s_main (carried cfg now rq))) 0); reflexivity.
  Qed.

  Lemma b_c03_not_cb now rq ans r : is_callback cfg rq = false -> c03_step E cfg now rq ans r = true.
  Proof. intros H. unfold c03_step. rewrite H. reflexivity. Qed.

  Theorem c03_serve st now rq rnd ans :
    env_ok E -> cfg_ok cfg -> i_ready st = true ->
    c03_step E cfg now rq ans (snd (serve E cfg st now rq rnd ans)) = true.
  Proof.
    intros HE Hcfg Hready.
    apply (b_serve_cases E cfg st now rq rnd ans
             (fun x => c03_step E cfg now rq ans (snd x) = true) Hready); cbn [snd].
    - intros _. apply b_c03_quiet; [reflexivity|apply b_emits_auth_nil; reflexivity].
    - intros _ _. destruct (b_logout_shape E cfg rq st (carried cfg now rq)) as (loc & ->).
      apply b_c03_quiet; [reflexivity|]. eapply b_emits_auth_cleared. reflexivity.
    - intros _ _ Hcb.
      apply (b_cb_cases E cfg rq st now (carried cfg now rq) ans
               (fun x => c03_step E cfg now rq ans (snd x) = true)); cbn [snd].
      + intros st' m code. apply b_c03_quiet; [reflexivity|apply b_emits_auth_nil; reflexivity].
      + intros st' m code Herr Hs0 Hsc Hcode.
        unfold c03_step. rewrite Hcb.
        rewrite b_establishes_no_auth by (apply b_emits_auth_nil; reflexivity).
        cbn [r_calls send_error].
        rewrite <- Hsc. apply N.eqb_neq in Hs0, Hcode. rewrite Hs0, Hcode, Herr. reflexivity.
      + intros id rt tgt Hans Herr Hs0 Hsc Hcode Hv Hn0 Hn Hem Had.
        unfold c03_step. rewrite Hcb. cbn [r_calls].
        set (r := mkResp _ _ _ _ _ _ _ _).
        assert (Hmain : match emitted_main r with
                        | Some p => N.eqb (get_str 3 p) 0 && N.eqb (get_str 4 p) 0 && N.eqb (get_str 5 p) 0
                        | None => false
                        end = true).
        { rewrite (b_emitted_main_save0 r (b_cb_final E now (carried cfg now rq) id rt)) by reflexivity.
          destruct (b_cb_final_main E now (carried cfg now rq) id rt) as (m & ->).
          rewrite (b_get_str_set_other 3 7), (b_get_str_set_other 3 5), (b_get_str_set_other 3 4) by discriminate.
          rewrite b_get_str_set_same.
          rewrite (b_get_str_set_other 4 7), (b_get_str_set_other 4 5) by discriminate.
          rewrite b_get_str_set_same.
          rewrite (b_get_str_set_other 5 7) by discriminate.
          rewrite b_get_str_set_same. reflexivity. }
        rewrite Hmain, Hans. rewrite <- Hsc, <- Hn.
        apply N.eqb_neq in Hs0, Hcode, Hn0. rewrite Hs0, Hcode, Herr, Hn0, !N.eqb_refl.
        rewrite orb_true_r. cbn [negb andb].
        destruct (establishes E cfg now rq r); reflexivity.
    - intros Hg. apply b_c03_not_cb, (b_gated_not_callback E), Hg.
    - intros Hg t _. apply b_c03_not_cb, (b_gated_not_callback E), Hg.
    - intros Hg _. apply b_c03_not_cb, (b_gated_not_callback E), Hg.
    - intros Hg. apply b_c03_not_cb, (b_gated_not_callback E), Hg.
  Qed.

  (* what an initiation stores and shows: exactly the values drawn for it *)
  Lemma c03_initiation rq csrf nonce verifier st sd cookies calls :
    let r := initiate cfg rq (csrf, nonce, verifier) st sd cookies calls in
    let ch := if c_pkce cfg then verifier else 0 in
    r_status r = 302
    /\ r_loc r = Some (LAuth (i_auth_url st) csrf nonce ch (q_scheme rq) (q_host rq))
    /\ exists p, emitted_main r = Some p
                 /\ get_str 3 p = csrf /\ get_str 4 p = nonce /\ get_str 5 p = ch
                 /\ get_bool 1 p = false.
  Proof.
    intros r ch. subst r.
    destruct (b_initiate_shape cfg rq (csrf, nonce, verifier) st sd cookies calls) as (sd4 & Heq & _).
    split; [rewrite Heq; reflexivity|]. split; [rewrite Heq; reflexivity|].
    exists (b_login_main cfg rq (csrf, nonce, verifier)).
    split; [apply b_initiate_main|].
    split; [|split; [|split; [|apply b_login_main_auth]]]; unfold b_login_main, ch.
    - rewrite (b_get_str_set_other 3 7) by discriminate.
      destruct (c_pkce cfg); rewrite ?(b_get_str_set_other 3 5), (b_get_str_set_other 3 4) by discriminate;
        apply b_get_str_set_same.
    - rewrite (b_get_str_set_other 4 7) by discriminate.
      destruct (c_pkce cfg); rewrite ?(b_get_str_set_other 4 5) by discriminate; apply b_get_str_set_same.
    - rewrite (b_get_str_set_other 5 7) by discriminate.
      destruct (c_pkce cfg); [apply b_get_str_set_same|reflexivity].
  Qed.
  (* the same read off a step of serve: a response that redirects to the
     authorization endpoint is an initiation with the values drawn for this step *)
  Definition b_init_ok (rnd : istr * istr * istr) (r : response) : Prop :=
    forall b s n c sc h,
      r_loc r = Some (LAuth b s n c sc h) ->
      s = fst (fst rnd) /\ n = snd (fst rnd) /\ c = (if c_pkce cfg then snd rnd else 0)
      /\ r_status r = 302
      /\ exists p, emitted_main r = Some p
                   /\ get_str 3 p = s /\ get_str 4 p = n /\ get_str 5 p = c /\ get_bool 1 p = false.

  Lemma b_init_ok_initiate rq rnd st sd cookies calls :
    b_init_ok rnd (initiate cfg rq rnd st sd cookies calls).
  Proof.
    destruct rnd as [[csrf nonce] verifier]. intros b s n c sc h Hloc.
    destruct (c03_initiation rq csrf nonce verifier st sd cookies calls) as (Hst & Hl & p & Hp).
    rewrite Hl in Hloc. injection Hloc as <- <- <- <- <- <-. cbn [fst snd].
    repeat split; try exact Hst. exists p. exact Hp.
  Qed.

  Lemma b_init_ok_none rnd r : r_loc r = None -> b_init_ok rnd r.
  Proof. intros H b s n c sc h Hl. rewrite H in Hl. discriminate. Qed.

  Theorem c03_serve_initiation st now rq rnd ans :
    i_ready st = true -> b_init_ok rnd (snd (serve E cfg st now rq rnd ans)).
  Proof.
    intros Hready.
    apply (b_serve_cases E cfg st now rq rnd ans (fun x => b_init_ok rnd (snd x)) Hready); cbn [snd].
    - intros _. apply b_init_ok_none. reflexivity.
    - intros _ _ b s n c sc h. unfold handle_logout, clear, post_logout. cbn [r_loc].
      destruct (get_access (NC E) (carried cfg now rq)); destruct (c_post_logout_abs cfg);
        destruct (N.eqb (i_end_session st) 0); discriminate.
    - intros _ _ _.
      apply (b_cb_cases E cfg rq st now (carried cfg now rq) ans (fun x => b_init_ok rnd (snd x))); cbn [snd].
      + intros. apply b_init_ok_none. reflexivity.
      + intros. apply b_init_ok_none. reflexivity.
      + intros. intros b s n c sc h Hl. discriminate.
    - intros _. unfold handle_expired. apply b_init_ok_initiate.
    - intros _ t _. apply (b_pa_cases E cfg rq rnd st (carried cfg now rq) [] [] (b_init_ok rnd)).
      + intros _. apply b_init_ok_initiate.
      + intros. apply b_init_ok_none. reflexivity.
      + intros. apply b_init_ok_none. reflexivity.
      + intros. apply b_init_ok_none. reflexivity.
    - intros _ Hrt. unfold b_refresh_branch.
      destruct (b_refresh_okb E st now ans) eqn:Eok.
      + destruct (b_refresh_ok E st now _ ans Hrt Eok) as (id & newrt & _ & _ & _ & _ & ->). cbn [snd].
        apply (b_pa_cases E cfg rq rnd _ _ _ _ (b_init_ok rnd)).
        * intros _. apply b_init_ok_initiate.
        * intros. apply b_init_ok_none. reflexivity.
        * intros. apply b_init_ok_none. reflexivity.
        * intros. apply b_init_ok_none. reflexivity.
      + destruct (b_refresh_fail E st now _ ans Hrt Eok) as (st1 & _ & ->).
        destruct (q_json rq); cbn [snd]; [apply b_init_ok_none; reflexivity|apply b_init_ok_initiate].
    - intros _. apply b_init_ok_initiate.
  Qed.
End C03.
