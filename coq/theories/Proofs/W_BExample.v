(* A small concrete world used by the non-vacuity examples of Properties/C03,
   C06, C08, C10: it satisfies the premises env_ok / cfg_ok / inst_ok /
   fresh_for of the step theorems.

   strings:  1 "/"   20 "a@ex"  22 "a@ev"  21 "ex"   30 "/app"  31 "/cb"  32 "/out"  33 "/fav"
   tokens :  50 valid until t=5000 s (e-mail 20, nonce 61, groups ["g1" (91), <non-string>, "g2" (92)])
             51 like 50 but e-mail 22 (domain not listed)
             52 well-formed but expired at t=900 s (e-mail 20) *)
From VF Require Import Base.Prelude Model.Cache Model.Session Model.Middleware Corr.WorldCorr Spec.WorldSpec.
From VF Require Import Proofs.WorldBase.
From Coq Require Import ZifyBool ZifyNat ZifyN.
Open Scope N_scope.

Definition b_ex_bytes (s : istr) : list N :=
  if N.eqb s 1 then [47]
  else if N.eqb s 20 then [97; 64; 101; 120]
  else if N.eqb s 22 then [97; 64; 101; 118]
  else if N.eqb s 21 then [101; 120]
  else if N.eqb s 30 then [47; 97; 112; 112]
  else if N.eqb s 31 then [47; 99; 98]
  else if N.eqb s 32 then [47; 111; 117; 116]
  else if N.eqb s 33 then [47; 102; 97; 118]
  else [].

Definition b_ex_tok (s : istr) : tokinfo :=
  if N.eqb s 50 then mkTok true true 5000 990 None 0 20 61 (ClArr [Some 91; None; Some 92]) ClAbsent
  else if N.eqb s 51 then mkTok true true 5000 990 None 0 22 61 ClAbsent ClAbsent
  else if N.eqb s 52 then mkTok true true 900 800 None 0 20 61 ClAbsent ClAbsent
  else no_token.

Definition b_ex_tmpl (n : N) (t : istr) : option istr :=
  if N.eqb n 0 && N.eqb t 50 then Some 90 else None.

Definition b_ex_env : env :=
  mkEnv b_ex_bytes b_ex_tok (fun _ => 1%nat) b_ex_tmpl (fun _ => slash).

(* key 7, callback "/cb", logout "/out", excluded "/fav", PKCE, domain "ex",
   no role restriction, 60 s grace, post-logout "/", template header 0 *)
Definition b_ex_cfg : config :=
  mkCfg 7 31 32 [33] true false [21] [] (60 * 1000000000)%Z 1 false [0].

Definition b_ex_inst : inst := fresh_inst true 40 41.

Definition b_ex_req (path : istr) (state code : istr) (ids : list N) (j : jar) : request :=
  mkReq false path path 4 0 0 state code false 0 5 6 false ids j.

Lemma b_ex_env_ok : env_ok b_ex_env.
Proof.
  constructor.
  - reflexivity.
  - intros t. cbn. lia.
  - intros t. cbn [tok b_ex_env]. unfold b_ex_tok.
    destruct (N.eqb t 50); [reflexivity|]. destruct (N.eqb t 51); [reflexivity|].
    destruct (N.eqb t 52); [reflexivity|]. discriminate.
  - reflexivity.
  - intros u _. reflexivity.
Qed.

Lemma b_ex_cfg_ok : cfg_ok b_ex_cfg.
Proof.
  constructor.
  - intros n [<-|[]]. reflexivity.
  - cbn. lia.
Qed.

Lemma b_ex_inst_ok now : inst_ok b_ex_env b_ex_inst now.
Proof. apply inst_ok_fresh. Qed.

Lemma b_ex_fresh t : fresh_for b_ex_env b_ex_inst t.
Proof. apply fresh_for_fresh. Qed.
