(* Property C04, completion step.  Whatever the request, the instance state and
   the provider's answer, a response of Model/Middleware.serve that COMPLETES a
   login (one code exchange answered with tokens, 302 to a local path) or a
   refresh (one refresh grant answered with tokens, request forwarded) stores in
   that very response an authenticated main cookie and the ID token obtained:
   Spec/WorldSpec.c04_step holds of every step of the model.
   Rests on ServeLemmas (serve_cases, cb_cases, pa_cases, emitted_*_save) and on
   the facts about callback_sd / refreshed_sd of W_C07.  Lemma names: s4_ . *)
From VF Require Import Base.Prelude Model.Cache Model.Session Model.Middleware Corr.WorldCorr Spec.WorldSpec.
From VF Require Import Proofs.WorldBase Proofs.ServeLemmas Proofs.SessionProofs Proofs.W_Cookies Proofs.W_C07.
From Coq Require Import ZifyBool ZifyNat ZifyN.
Open Scope N_scope.

Section Completion.
  Variable E : env.
  Variable cfg : config.
  Hypothesis HE : env_ok E.
  Notation NCE := (nchunks E).

  (* ---------------------------------------------------------------- ways the monitor holds *)

  (* no provider call: nothing was completed *)
  Lemma s4_no_call ans r : r_calls r = [] -> c04_step E ans r = true.
  Proof. intros Hc. unfold c04_step. rewrite Hc. destruct ans as [[g|id rt]|]; reflexivity. Qed.

  (* a code exchange not answered by a 302 *)
  Lemma s4_exchange_not_302 ans r c s h v :
    r_calls r = [PExchange c s h v] -> N.eqb (r_status r) 302 = false -> c04_step E ans r = true.
  Proof.
    intros Hc Hs. unfold c04_step. rewrite Hc, Hs. destruct ans as [[g|id rt]|]; reflexivity.
  Qed.

  (* a refresh grant after which the request is not forwarded *)
  Lemma s4_refresh_not_fwd ans r t :
    r_calls r = [PRefresh t] -> r_fwd r = None -> c04_step E ans r = true.
  Proof.
    intros Hc Hf. unfold c04_step, forwarded. rewrite Hc, Hf. destruct ans as [[g|id rt]|]; reflexivity.
  Qed.

  (* the response stores the session of the answered ID token *)
  Lemma s4_stored id rt r : stores_session E id r = true -> c04_step E (Some (AOk id rt)) r = true.
  Proof.
    intros Hs. unfold c04_step. rewrite Hs.
    destruct (r_calls r) as [|[c s h v|t] [|x l]]; try reflexivity.
    - destruct (N.eqb (r_status r) 302 && is_lpath (r_loc r)); reflexivity.
    - destruct (forwarded r); reflexivity.
  Qed.

  (* ---------------------------------------------------------------- what a Save of the new session stores *)

  Lemma s4_save_stores r sd id :
    id <> 0 -> r_cookies r = save_cookies sd ->
    get_bool 1 (s_main sd) = true -> get_access NCE sd = (if N.eqb id 0 then TEmpty else TTok id) ->
    stores_session E id r = true.
  Proof.
    intros Hid Hc Hauth Hacc. unfold stores_session, emits_auth.
    rewrite (emitted_main_save r sd Hc), Hauth, (emitted_id_save E r sd Hc), Hacc.
    destruct (N.eqb_spec id 0) as [H0|_]; [contradiction|]. cbn [andb]. apply tval_eqb_refl.
  Qed.

  (* the ID token of a verified answer with claims is not the empty string *)
  Lemma s4_claims_nonzero id : ti_claims (tok E id) = true -> id <> 0.
  Proof. intros Hcl ->. rewrite (eo_empty E HE) in Hcl. discriminate. Qed.

  Lemma s4_callback_stores now sd id rt r :
    ti_claims (tok E id) = true -> r_cookies r = save_cookies (callback_sd E now sd id rt) ->
    stores_session E id r = true.
  Proof.
    intros Hcl Hc. apply (s4_save_stores r (callback_sd E now sd id rt) id (s4_claims_nonzero id Hcl) Hc).
    - apply c_callback_sd_auth.
    - apply get_access_callback_sd, (eo_chunks E HE).
  Qed.

  Lemma s4_refreshed_stores now sd id newrt r :
    id <> 0 -> r_cookies r = save_cookies (refreshed_sd E now sd id newrt) ->
    stores_session E id r = true.
  Proof.
    intros Hid Hc. apply (s4_save_stores r (refreshed_sd E now sd id newrt) id Hid Hc).
    - apply c_refreshed_sd_auth.
    - apply get_access_refreshed_sd, (eo_chunks E HE).
  Qed.

  (* ---------------------------------------------------------------- the sub-handlers *)

  Lemma s4_callback rq st now sd ans : c04_step E ans (snd (handle_callback E cfg rq st now sd ans)) = true.
  Proof.
    apply (cb_cases E cfg rq st now sd ans (fun x => c04_step E ans (snd x) = true)); cbn [snd].
    - intros m. apply s4_no_call. reflexivity.
    - intros m _. eapply s4_exchange_not_302; [unfold cb_call; reflexivity|reflexivity].
    - intros m id rt _ _. eapply s4_exchange_not_302; [unfold cb_call; reflexivity|reflexivity].
    - intros m id rt _ _ _. eapply s4_exchange_not_302; [unfold cb_call; reflexivity|reflexivity].
    - intros m id rt _ _. eapply s4_exchange_not_302; [unfold cb_call; reflexivity|reflexivity].
    - intros id rt loc Ha _ Hcl. rewrite Ha. apply s4_stored.
      apply (s4_callback_stores now sd id rt _ Hcl). reflexivity.
  Qed.

  Lemma s4_initiate ans rq rnd st sd cookies t :
    c04_step E ans (initiate cfg rq rnd st sd cookies [PRefresh t]) = true.
  Proof. apply (s4_refresh_not_fwd ans _ t); [apply initiate_calls|apply initiate_fwd]. Qed.

  Lemma s4_initiate_nil ans rq rnd st sd cookies : c04_step E ans (initiate cfg rq rnd st sd cookies []) = true.
  Proof. apply s4_no_call, initiate_calls. Qed.

  Lemma s4_pa_nil ans rq rnd st sd cookies :
    c04_step E ans (process_authorized E cfg rq rnd st sd cookies []) = true.
  Proof.
    apply pa_cases.
    - intros _. apply s4_initiate_nil.
    - intros m _. apply s4_no_call. reflexivity.
    - intros _ _ _. apply s4_no_call. reflexivity.
    - intros h cors _. apply s4_no_call. reflexivity.
  Qed.

  Lemma s4_refresh_failed ans rq rnd st sd cs t :
    c04_step E ans (refresh_failed_resp cfg rq rnd st sd cs [PRefresh t]) = true.
  Proof.
    unfold refresh_failed_resp. destruct (q_json rq); [|apply s4_initiate].
    apply (s4_refresh_not_fwd ans _ t); reflexivity.
  Qed.

  (* ---------------------------------------------------------------- serve *)

  Theorem s4_serve st now rq rnd ans : c04_step E ans (snd (serve E cfg st now rq rnd ans)) = true.
  Proof.
    destruct (i_ready st) eqn:Hready.
    2:{ unfold serve. rewrite Hready. apply s4_no_call. reflexivity. }
    apply (serve_cases E cfg st now rq rnd ans (fun x => c04_step E ans (snd x) = true) Hready); cbn [snd].
    - intros _. apply s4_no_call. reflexivity.
    - intros _ _. destruct (handle_logout_eq E cfg rq st (carried cfg now rq)) as [loc ->].
      apply s4_no_call. reflexivity.
    - intros _ _ _. apply s4_callback.
    - intros _. rewrite handle_expired_eq. apply s4_initiate_nil.
    - intros _ _. apply s4_pa_nil.
    - intros _ _ st' _. apply s4_refresh_failed.
    - intros _ _ _. apply s4_refresh_failed.
    - intros _ _ id newrt Ha Hid _ _ _. apply pa_cases.
      + intros _. apply s4_initiate.
      + intros m _. eapply s4_refresh_not_fwd; reflexivity.
      + intros _ _ _. eapply s4_refresh_not_fwd; reflexivity.
      + intros h cors _. rewrite Ha. apply s4_stored.
        apply (s4_refreshed_stores now (carried cfg now rq) id newrt _ Hid). reflexivity.
    - intros _. apply s4_initiate_nil.
  Qed.

End Completion.

Theorem c04_serve (E : env) (cfg : config) (st : inst) (now : time) (rq : request)
                  (rnd : istr * istr * istr) (ans : option answer) :
  env_ok E -> c04_step E ans (snd (serve E cfg st now rq rnd ans)) = true.
Proof. intros HE. apply s4_serve, HE. Qed.
