(* Lemmas about Model/Secrecy.v.
     derives_bound        knowledge does not grow: every atom of a derivable value was
                          known beforehand or sits in an observed cookie the attacker can open
     secrecy              with encrypted payloads, learning a new atom requires a key
     decode_sealed        only the cookie sealed under k for name n with payload p decodes to p
     unforgeable          a cookie the attacker can present and the deployment accepts was
                          emitted by the deployment, for that name, with that payload
     load_filter          undecodable cookies are ignored by GetSession
     serve_ignores_undecodable   ... and therefore by the whole request ladder *)
From VF Require Import Base.Prelude Model.Cache Model.Session Model.Middleware Model.Secrecy.
From VF Require Import Proofs.SessionProofs.
From Coq Require Import ZifyBool ZifyNat ZifyN.
Open Scope N_scope.

(* ================================================================== knowledge *)

Section Bound.
  Variables (enc : bool) (K : list N) (I0 : list val) (obs : list cookie).
  Notation D := (derives enc K I0 obs).
  Notation known := (known_atom enc K I0 obs).

  Definition bound (f : fact) : Prop :=
    match f with
    | FVal v => forall a, In a (atoms_val v) -> known a
    | FPayload p => forall a, In a (atoms_payload p) -> known a
    | FCookie (Sealed k n p) =>
        In (Sealed k n p) obs \/ (In k K /\ forall a, In a (atoms_payload p) -> known a)
    | _ => True
    end.

  Lemma atoms_field p f v a : In (f, v) p -> In a (atoms_val v) -> In a (atoms_payload p).
  Proof.
    intros Hin Ha. unfold atoms_payload. apply in_flat_map. exists (f, v). split; [exact Hin|exact Ha].
  Qed.

  Lemma open_known k n p : (enc = false \/ In k K) -> bound (FCookie (Sealed k n p)) ->
    forall a, In a (atoms_payload p) -> known a.
  Proof.
    intros Ho [Hobs|[_ Hk]] a Ha; [|exact (Hk a Ha)].
    right. exists k, n, p. split; [exact Hobs|split; [exact Ho|exact Ha]].
  Qed.

  Theorem derives_bound f : D f -> bound f.
  Proof.
    intros H.
    induction H as [c Hc|v Hv|b|z| | |k n p H IH|k n p H IH|k n p He H IH|k n p Hk H IH
                    |p f v H IH Hin|c x H IH Hin|a b Ha IHa Hb IHb| |f v p Hv IHv Hp IHp| |k n p Hk H IH];
      cbn [bound] in *.
    - destruct c as [k n p|]; [left; exact Hc|exact I].
    - intros a Ha. left. exists v. split; [exact Hv|exact Ha].
    - intros a [].
    - intros a [].
    - intros a [].
    - intros a [].
    - exact I.
    - exact I.
    - apply (open_known k n p); [left; exact He|exact IH].
    - apply (open_known k n p); [right; exact Hk|exact IH].
    - intros a Ha. apply IH. exact (atoms_field p f v a Hin Ha).
    - intros a [<-|[]]. apply IH. cbn [atoms_val]. apply in_map. exact Hin.
    - intros x Hx. cbn [atoms_val] in *. rewrite map_app in Hx. apply in_app_or in Hx as [Hx|Hx];
        [exact (IHa x Hx)|exact (IHb x Hx)].
    - intros a [].
    - intros a Ha. unfold atoms_payload in Ha. cbn [flat_map atoms_entry snd] in Ha.
      apply in_app_or in Ha as [Ha|Ha]; [exact (IHv a Ha)|exact (IHp a Ha)].
    - exact I.
    - right. split; [exact Hk|exact IH].
  Qed.

  (* with encrypted payloads an atom that was not known beforehand can only come
     out of an observed cookie whose key the attacker holds *)
  Theorem secrecy v a :
    enc = true -> D (FVal v) -> In a (atoms_val v) -> ~ initially_known I0 a ->
    exists k n p, In (Sealed k n p) obs /\ In k K /\ In a (atoms_payload p).
  Proof.
    intros He Hd Ha Hni. destruct (derives_bound _ Hd a Ha) as [Hi|[k [n [p [Ho [Hk Hp]]]]]]; [tauto|].
    exists k, n, p. split; [exact Ho|]. split; [|exact Hp].
    destruct Hk as [Hk|Hk]; [congruence|exact Hk].
  Qed.

  Lemma decode_sealed k n c p : decode k n c = Some p -> c = Sealed k n p.
  Proof.
    destruct c as [k' n' p'|]; cbn [decode]; [|discriminate].
    destruct (N.eqb_spec k k') as [<-|]; [|discriminate]. cbn [andb].
    destruct (cname_eqb n n') eqn:En; [|discriminate].
    apply cname_eqb_eq in En. subst n'. intros H. injection H as ->. reflexivity.
  Qed.

  (* whatever the attacker can present, a cookie accepted under a key it does
     not hold is one the deployment itself emitted, under that very name *)
  Theorem unforgeable k n c p :
    D (FCookie c) -> ~ In k K -> decode k n c = Some p -> In (Sealed k n p) obs.
  Proof.
    intros Hd Hk Hdec. apply decode_sealed in Hdec. subst c.
    destruct (derives_bound _ Hd) as [Ho|[Hin _]]; [exact Ho|tauto].
  Qed.
End Bound.

(* ================================================================== the deployment's cookies *)

Lemma emitted_key E cfg runs k n p : In (Sealed k n p) (emitted E cfg runs) -> k = c_key cfg.
Proof.
  unfold emitted. intros H. apply in_flat_map in H as [r [_ H]].
  destruct r as [[[[st now] rq] rnd] ans]. unfold run_cookies, wire in H.
  apply in_map_iff in H as [sc [H _]]. unfold wire_cookie in H. injection H as <- _ _. reflexivity.
Qed.

Theorem serve_opaque enc E cfg runs K I0 v a :
  enc = true ->
  derives enc K I0 (emitted E cfg runs) (FVal v) -> In a (atoms_val v) -> ~ initially_known I0 a ->
  In (c_key cfg) K.
Proof.
  intros He Hd Ha Hni.
  destruct (secrecy enc K I0 _ v a He Hd Ha Hni) as [k [n [p [Ho [Hk _]]]]].
  apply emitted_key in Ho. subst k. exact Hk.
Qed.

Theorem serve_unforgeable enc E cfg runs K I0 n c p :
  derives enc K I0 (emitted E cfg runs) (FCookie c) -> ~ In (c_key cfg) K ->
  decode (c_key cfg) n c = Some p -> In (Sealed (c_key cfg) n p) (emitted E cfg runs).
Proof. apply unforgeable. Qed.

(* ================================================================== undecodable cookies are ignored *)

Definition ndec (k : N) (j : jar) : nat := length (filter (decodable k) j).

Lemma names_filter f (j : jar) n : In n (names (filter f j)) -> In n (names j).
Proof.
  unfold names. intros H. apply in_map_iff in H as [e [He Hin]]. apply filter_In in Hin as [Hin _].
  apply in_map_iff. exists e. split; [exact He|exact Hin].
Qed.

Lemma get_session_filter k n j : NoDup (names j) ->
  get_session k n (filter (decodable k) j) = get_session k n j.
Proof.
  induction j as [|[m c] r IH]; intros Hnd; [reflexivity|].
  cbn [names map fst] in Hnd. apply NoDup_cons_iff in Hnd as [Hm Hnd]. specialize (IH Hnd).
  cbn [filter]. destruct (decodable k (m, c)) eqn:Ed.
  - unfold get_session in *. cbn [jar_get]. destruct (cname_eqb n m); [reflexivity|exact IH].
  - unfold get_session at 2. cbn [jar_get]. destruct (cname_eqb n m) eqn:En.
    + apply cname_eqb_eq in En. subst m.
      unfold decodable in Ed. cbn [fst snd] in Ed.
      destruct (decode k n c) as [p|]; [discriminate|].
      assert (Hg : jar_get n (filter (decodable k) r) = None).
      { apply jar_get_None. intros Hin. apply Hm. exact (names_filter _ _ _ Hin). }
      unfold get_session. rewrite Hg. reflexivity.
    + exact IH.
Qed.

Lemma load_chunks_filter k mk j : NoDup (names j) ->
  forall fuel i, load_chunks k mk (filter (decodable k) j) i fuel = load_chunks k mk j i fuel.
Proof.
  intros Hnd. induction fuel as [|fuel IH]; intros i; [reflexivity|].
  cbn [load_chunks]. rewrite (get_session_filter k (mk i) j Hnd).
  destruct (get_session k (mk i) j) as [p [|]]; [|reflexivity]. f_equal. apply IH.
Qed.

Lemma get_session_remove k n m j : n <> m -> get_session k n (jar_remove m j) = get_session k n j.
Proof.
  intros Hne. unfold get_session. rewrite jar_get_remove.
  destruct (cname_eqb n m) eqn:E; [apply cname_eqb_eq in E; contradiction|reflexivity].
Qed.

Lemma load_chunks_remove k mk (Hinj : inj_names mk) j i0 :
  forall fuel i, (i0 < i)%nat ->
  load_chunks k mk (jar_remove (mk i0) j) i fuel = load_chunks k mk j i fuel.
Proof.
  induction fuel as [|fuel IH]; intros i Hi; [reflexivity|].
  cbn [load_chunks]. rewrite get_session_remove.
  - destruct (get_session k (mk i) j) as [p [|]]; [|reflexivity]. f_equal. apply IH. lia.
  - intros Heq. apply Hinj in Heq. lia.
Qed.

Lemma ndec_remove_le k n j : (ndec k (jar_remove n j) <= ndec k j)%nat.
Proof.
  unfold ndec. induction j as [|[m c] r IH]; [cbn; lia|].
  cbn [jar_remove]. destruct (cname_eqb n m); cbn [filter]; destruct (decodable k (m, c)); cbn [length]; lia.
Qed.

Lemma ndec_remove k n j p : get_session k n j = (p, true) -> (ndec k (jar_remove n j) < ndec k j)%nat.
Proof.
  unfold ndec. induction j as [|[m c] r IH]; intros H.
  - unfold get_session in H. cbn [jar_get] in H. discriminate.
  - unfold get_session in H. cbn [jar_get] in H. cbn [jar_remove].
    destruct (cname_eqb n m) eqn:En.
    + apply cname_eqb_eq in En. subst m. cbn [filter]. unfold decodable at 2. cbn [fst snd].
      destruct (decode k n c) as [q|]; [|discriminate].
      cbn [length]. pose proof (ndec_remove_le k n r) as Hle. unfold ndec in Hle. lia.
    + fold (get_session k n r) in H. specialize (IH H).
      cbn [filter]. destruct (decodable k (m, c)); cbn [length]; lia.
Qed.

(* the loop over chunk cookies stops after at most (number of decodable cookies)
   successes: any fuel beyond that gives the same result *)
Lemma load_chunks_fuel k mk (Hinj : inj_names mk) :
  forall d j i f1 f2, (ndec k j <= d)%nat -> (d <= f1)%nat -> (d <= f2)%nat ->
  load_chunks k mk j i f1 = load_chunks k mk j i f2.
Proof.
  induction d as [|d IH]; intros j i f1 f2 Hd H1 H2.
  - destruct f1 as [|f1], f2 as [|f2]; cbn [load_chunks]; try reflexivity;
      destruct (get_session k (mk i) j) as [p [|]] eqn:E; try reflexivity;
      apply ndec_remove in E; lia.
  - destruct f1 as [|f1]; [lia|]. destruct f2 as [|f2]; [lia|]. cbn [load_chunks].
    destruct (get_session k (mk i) j) as [p [|]] eqn:E; [|reflexivity]. f_equal.
    rewrite <- (load_chunks_remove k mk Hinj j i f1 (S i)) by lia.
    rewrite <- (load_chunks_remove k mk Hinj j i f2 (S i)) by lia.
    apply ndec_remove in E. apply IH; lia.
Qed.

Lemma filter_length_le_jar (f : cname * cookie -> bool) (j : jar) : (length (filter f j) <= length j)%nat.
Proof. induction j as [|e r IH]; cbn [filter length]; [lia|]. destruct (f e); cbn [length]; lia. Qed.

(* the chunk-cookie walk of expire*TokenChunks (it counts the cookies PRESENT from
   index 0, decodable or not: fix 098055b) sees the same counts in both jars *)
Definition same_chunk_walk (k : N) (j : jar) : Prop :=
  let j' := filter (decodable k) j in
  present_chunks CAccChunk j' 0 (length j') = present_chunks CAccChunk j 0 (length j)
  /\ present_chunks CRefChunk j' 0 (length j') = present_chunks CRefChunk j 0 (length j).

(* the session CONTENT GetSession loads never depends on undecodable cookies *)
Theorem load_filter_content k now j : NoDup (names j) ->
  let sd' := load k now (filter (decodable k) j) in
  let sd := load k now j in
  s_main sd' = s_main sd /\ s_acc sd' = s_acc sd /\ s_ref sd' = s_ref sd
  /\ s_achunks sd' = s_achunks sd /\ s_rchunks sd' = s_rchunks sd
  /\ s_marked_a sd' = s_marked_a sd /\ s_marked_r sd' = s_marked_r sd /\ s_live sd' = s_live sd.
Proof.
  intros Hnd. cbv zeta. unfold load.
  rewrite !(get_session_filter k _ j Hnd), !(load_chunks_filter k _ j Hnd).
  pose proof (filter_length_le_jar (decodable k) j) as Hle.
  rewrite (load_chunks_fuel k CAccChunk inj_acc (ndec k j) j 0 (length (filter (decodable k) j)) (length j))
    by (unfold ndec; lia).
  rewrite (load_chunks_fuel k CRefChunk inj_ref (ndec k j) j 0 (length (filter (decodable k) j)) (length j))
    by (unfold ndec; lia).
  destruct (session_too_old now (fst (get_session k CMain j))); cbn; repeat split; reflexivity.
Qed.

(* ... and the whole loaded session is the same when, in addition, the walk that
   schedules chunk-cookie deletions sees the same number of cookies *)
Theorem load_filter k now j : NoDup (names j) -> same_chunk_walk k j ->
  load k now (filter (decodable k) j) = load k now j.
Proof.
  intros Hnd [Wa Wr]. unfold load. rewrite Wa, Wr.
  rewrite !(get_session_filter k _ j Hnd), !(load_chunks_filter k _ j Hnd).
  pose proof (filter_length_le_jar (decodable k) j) as Hle.
  rewrite (load_chunks_fuel k CAccChunk inj_acc (ndec k j) j 0 (length (filter (decodable k) j)) (length j))
    by (unfold ndec; lia).
  rewrite (load_chunks_fuel k CRefChunk inj_ref (ndec k j) j 0 (length (filter (decodable k) j)) (length j))
    by (unfold ndec; lia).
  reflexivity.
Qed.

(* serve looks at the request's cookies only through load *)
Lemma serve_jar_irrelevant E cfg st now rq rnd ans j :
  load (c_key cfg) now j = load (c_key cfg) now (q_jar rq) ->
  serve E cfg st now (with_jar rq j) rnd ans = serve E cfg st now rq rnd ans.
Proof.
  intros Hl. destruct rq as [o pa ur ul er ed qs qc js og sc ho cd ids j0].
  unfold with_jar. cbn [q_options q_path q_uri q_uri_len q_error q_error_desc q_state q_code q_json
                        q_origin q_scheme q_host q_ctx_done q_client_ids q_jar] in *.
  unfold serve. cbn [q_options q_path q_uri q_uri_len q_error q_error_desc q_state q_code q_json
                      q_origin q_scheme q_host q_ctx_done q_client_ids q_jar].
  rewrite Hl. reflexivity.
Qed.

Theorem serve_ignores_undecodable E cfg st now rq rnd ans :
  NoDup (names (q_jar rq)) -> same_chunk_walk (c_key cfg) (q_jar rq) ->
  serve E cfg st now (with_jar rq (filter (decodable (c_key cfg)) (q_jar rq))) rnd ans
  = serve E cfg st now rq rnd ans.
Proof. intros Hnd Hw. apply serve_jar_irrelevant. apply load_filter; assumption. Qed.
