(* Shared lemmas for the step theorems W_C03 / W_C06 / W_C08 / W_C10 about
   Model/Middleware.serve: payload get/set, what the monitors' readers
   (payload_of, emitted_main, emitted_id, emitted_rt) compute from the cookies
   the model emits, token store/read round trips, what each sub-handler of
   serve returns, and the two facts about verify_token the theorems rest on.
   All names are prefixed b_ . *)
From VF Require Import Base.Prelude Model.Cache Model.Session Model.Middleware Corr.WorldCorr Spec.WorldSpec.
From VF Require Import Proofs.CacheProofs Proofs.WorldBase.
From Coq Require Import ZifyBool ZifyNat ZifyN.
Open Scope N_scope.

(* ------------------------------------------------------------------ reflexivity of the boolean equalities *)

Lemma b_piece_eqb_refl a : piece_eqb a a = true.
Proof. destruct a as [t i]. cbn. rewrite N.eqb_refl, Nat.eqb_refl. reflexivity. Qed.

Lemma b_ctext_eqb_refl c : ctext_eqb c c = true.
Proof. induction c as [|a c IH]; cbn; [reflexivity|]. rewrite b_piece_eqb_refl, IH. reflexivity. Qed.

Lemma b_tval_eqb_refl t : tval_eqb t t = true.
Proof. destruct t; cbn; [reflexivity|apply N.eqb_refl|reflexivity]. Qed.

Lemma b_tval_eqb_eq a b : tval_eqb a b = true -> a = b.
Proof.
  destruct a, b; cbn; try discriminate; try reflexivity.
  intros H. apply N.eqb_eq in H. congruence.
Qed.

Lemma b_val_eqb_refl v : val_eqb v v = true.
Proof.
  destruct v; cbn; [apply Bool.eqb_reflx|apply Z.eqb_refl|apply N.eqb_refl|apply b_ctext_eqb_refl].
Qed.

Lemma b_payload_eqb_refl p : payload_eqb p p = true.
Proof.
  induction p as [|[f v] p IH]; cbn; [reflexivity|].
  rewrite N.eqb_refl, b_val_eqb_refl, IH. reflexivity.
Qed.

Lemma b_hval_eqb_refl v : hval_eqb v v = true.
Proof.
  destruct v as [s|l]; cbn; [apply N.eqb_refl|].
  induction l as [|a l IH]; cbn; [reflexivity|]. rewrite N.eqb_refl. exact IH.
Qed.

(* ------------------------------------------------------------------ payload fields *)

Lemma b_getf_setf_same f v p : getf f (setf f v p) = Some v.
Proof.
  unfold getf. induction p as [|[g w] p IH]; cbn; [rewrite N.eqb_refl; reflexivity|].
  destruct (N.eqb f g) eqn:Efg; cbn; [rewrite N.eqb_refl; reflexivity|].
  destruct (N.ltb f g); cbn; [rewrite N.eqb_refl; reflexivity|].
  rewrite Efg. exact IH.
Qed.

Lemma b_getf_setf_other f g v p : f <> g -> getf f (setf g v p) = getf f p.
Proof.
  unfold getf. intros Hne. induction p as [|[h w] p IH]; cbn.
  - destruct (N.eqb_spec f g); [contradiction|reflexivity].
  - destruct (N.eqb_spec g h) as [->|Hgh]; cbn.
    + destruct (N.eqb_spec f h); [contradiction|reflexivity].
    + destruct (N.ltb g h); cbn.
      * destruct (N.eqb_spec f g); [contradiction|reflexivity].
      * destruct (N.eqb f h); [reflexivity|exact IH].
Qed.

Lemma b_get_str_set_same f s p : get_str f (setf f (VS s) p) = s.
Proof. unfold get_str. rewrite b_getf_setf_same. reflexivity. Qed.

Lemma b_get_str_set_other f g v p : f <> g -> get_str f (setf g v p) = get_str f p.
Proof. intros H. unfold get_str. rewrite b_getf_setf_other by exact H. reflexivity. Qed.

Lemma b_get_bool_set_same f b p : get_bool f (setf f (VB b) p) = b.
Proof. unfold get_bool. rewrite b_getf_setf_same. reflexivity. Qed.

Lemma b_get_bool_set_other f g v p : f <> g -> get_bool f (setf g v p) = get_bool f p.
Proof. intros H. unfold get_bool. rewrite b_getf_setf_other by exact H. reflexivity. Qed.

Lemma b_get_text_set_same f c p : get_text f (setf f (VC c) p) = c.
Proof. unfold get_text. rewrite b_getf_setf_same. reflexivity. Qed.

Lemma b_get_text_set_other f g v p : f <> g -> get_text f (setf g v p) = get_text f p.
Proof. intros H. unfold get_text. rewrite b_getf_setf_other by exact H. reflexivity. Qed.

Lemma b_get_bool_set_str f g s p : get_bool f (setf g (VS s) p) = if N.eqb f g then false else get_bool f p.
Proof.
  destruct (N.eqb_spec f g) as [->|Hne].
  - unfold get_bool. rewrite b_getf_setf_same. reflexivity.
  - apply b_get_bool_set_other, Hne.
Qed.

(* ------------------------------------------------------------------ token store / read *)

Section Tokens.
  Variable nch : istr -> nat.
  Hypothesis nch_pos : forall t, (1 <= nch t)%nat.

  Lemma b_whole_nonempty t : exists i r, whole nch t = PSlice t i :: r.
  Proof.
    unfold whole. specialize (nch_pos t). destruct (nch t) as [|n]; [lia|].
    cbn. eauto.
  Qed.

  Lemma b_dec_whole t : dec nch (whole nch t) = if N.eqb t 0 then TEmpty else TTok t.
  Proof.
    destruct (b_whole_nonempty t) as (i & r & Hw).
    unfold dec. rewrite Hw. rewrite <- Hw. rewrite b_ctext_eqb_refl. reflexivity.
  Qed.

  Lemma b_concat_slices t l :
    concat (map (get_text 1) (map (fun i => [(1, VC [PSlice t i])]) l)) = map (PSlice t) l.
  Proof. induction l as [|a l IH]; cbn; [reflexivity|]. f_equal. exact IH. Qed.

  Lemma b_read_store t old :
    read_token nch (fst (store_token nch t old)) (snd (store_token nch t old))
    = if N.eqb t 0 then TEmpty else TTok t.
  Proof.
    unfold store_token. destruct (Nat.leb (nch t) 1) eqn:El; cbn [fst snd]; unfold read_token.
    - rewrite b_get_text_set_same.
      destruct (b_whole_nonempty t) as (i & r & Hw). rewrite Hw. rewrite <- Hw.
      rewrite b_get_bool_set_other by discriminate. rewrite b_get_bool_set_same.
      apply b_dec_whole.
    - rewrite b_get_text_set_same.
      rewrite b_get_bool_set_other by discriminate. rewrite b_get_bool_set_same.
      rewrite b_concat_slices. fold (whole nch t).
      apply Nat.leb_gt in El.
      destruct (seq 0 (nch t)) as [|x l] eqn:Es.
      + apply (f_equal (@length nat)) in Es. rewrite seq_length in Es. cbn in Es. lia.
      + cbn [map]. apply b_dec_whole.
  Qed.

  Lemma b_get_access_set_access t sd :
    get_access nch (set_access nch t sd) = if N.eqb t 0 then TEmpty else TTok t.
  Proof.
    unfold get_access, set_access. generalize (b_read_store t (s_acc sd)).
    destruct (store_token nch t (s_acc sd)) as [a ch]. cbn [fst snd s_acc s_achunks]. tauto.
  Qed.

  Lemma b_get_refresh_set_refresh t sd :
    get_refresh nch (set_refresh nch t sd) = if N.eqb t 0 then TEmpty else TTok t.
  Proof.
    unfold get_refresh, set_refresh. generalize (b_read_store t (s_ref sd)).
    destruct (store_token nch t (s_ref sd)) as [a ch]. cbn [fst snd s_ref s_rchunks]. tauto.
  Qed.

  Lemma b_get_refresh_set_access t sd : get_refresh nch (set_access nch t sd) = get_refresh nch sd.
  Proof.
    unfold get_refresh, set_access. destruct (store_token nch t (s_acc sd)). reflexivity.
  Qed.

  Lemma b_get_access_set_refresh t sd : get_access nch (set_refresh nch t sd) = get_access nch sd.
  Proof.
    unfold get_access, set_refresh. destruct (store_token nch t (s_ref sd)). reflexivity.
  Qed.

  Lemma b_main_set_access t sd : s_main (set_access nch t sd) = s_main sd.
  Proof. unfold set_access. destruct (store_token nch t (s_acc sd)). reflexivity. Qed.

  Lemma b_main_set_refresh t sd : s_main (set_refresh nch t sd) = s_main sd.
  Proof. unfold set_refresh. destruct (store_token nch t (s_ref sd)). reflexivity. Qed.

  (* a token getter only ever returns a non-empty token id *)
  Lemma b_dec_tok c t : dec nch c = TTok t -> t <> 0.
  Proof.
    unfold dec. destruct c as [|[u i] c]; [discriminate|].
    destruct (ctext_eqb _ _); [|discriminate].
    destruct (N.eqb_spec u 0); [discriminate|]. intros H; injection H as <-. assumption.
  Qed.

  Lemma b_read_token_tok p ch t : read_token nch p ch = TTok t -> t <> 0.
  Proof.
    unfold read_token. destruct (get_text 1 p) as [|x c].
    - destruct ch as [|c0 ch]; [discriminate|].
      destruct (get_bool 2 p); [apply b_dec_tok|].
      destruct (concat _); discriminate.
    - destruct (get_bool 2 p); [apply b_dec_tok|discriminate].
  Qed.
End Tokens.

Lemma b_get_access_set_main nch f s sd : get_access nch (set_main f s sd) = get_access nch sd.
Proof. reflexivity. Qed.
Lemma b_get_refresh_set_main nch f s sd : get_refresh nch (set_main f s sd) = get_refresh nch sd.
Proof. reflexivity. Qed.
Lemma b_get_access_set_auth nch now b sd : get_access nch (set_authenticated now b sd) = get_access nch sd.
Proof. reflexivity. Qed.
Lemma b_get_refresh_set_auth nch now b sd : get_refresh nch (set_authenticated now b sd) = get_refresh nch sd.
Proof. reflexivity. Qed.
Lemma b_get_access_after_save nch sd : get_access nch (after_save sd) = get_access nch sd.
Proof. reflexivity. Qed.
Lemma b_get_refresh_after_save nch sd : get_refresh nch (after_save sd) = get_refresh nch sd.
Proof. reflexivity. Qed.
Lemma b_main_after_save sd : s_main (after_save sd) = s_main sd.
Proof. reflexivity. Qed.
Lemma b_main_set_main f s sd : s_main (set_main f s sd) = setf f (VS s) (s_main sd).
Proof. reflexivity. Qed.

(* ------------------------------------------------------------------ reading the emitted cookies *)

Definition b_sel (n : cname) (sc : setcookie) : bool := cname_eqb (fst (fst sc)) n && negb (snd sc).

Lemma b_last_nonempty {A} (y : A) l d d' : last (y :: l) d = last (y :: l) d'.
Proof. revert y. induction l as [|z l IH]; intros y; [reflexivity|]. cbn [last]. apply IH. Qed.

Lemma b_last_app_cons {A} l (y : A) r d d' : last (l ++ y :: r) d = last (y :: r) d'.
Proof.
  induction l as [|x l IH]; [apply b_last_nonempty|].
  cbn [app]. destruct (l ++ y :: r) as [|a t] eqn:El; [destruct l; discriminate|].
  change (last (x :: a :: t) d) with (last (a :: t) d). exact IH.
Qed.

Definition b_lastsel {A B} (g : A -> B) (l : list A) : option B :=
  match l with [] => None | x :: r => Some (g (last (x :: r) x)) end.

Lemma b_lastsel_app {A B} (g : A -> B) (a b : list A) :
  b_lastsel g (a ++ b) = match b_lastsel g b with Some p => Some p | None => b_lastsel g a end.
Proof.
  destruct b as [|y r]; [rewrite app_nil_r; reflexivity|].
  destruct a as [|x a]; [reflexivity|].
  unfold b_lastsel. cbn [app]. f_equal. f_equal.
  change (x :: a ++ y :: r) with ((x :: a) ++ y :: r). apply b_last_app_cons.
Qed.

Lemma b_payload_of_lastsel n l :
  payload_of n l = b_lastsel (fun x : setcookie => snd (fst x)) (filter (b_sel n) l).
Proof. reflexivity. Qed.

Lemma b_payload_of_app n l1 l2 :
  payload_of n (l1 ++ l2) = match payload_of n l2 with Some p => Some p | None => payload_of n l1 end.
Proof. rewrite !b_payload_of_lastsel, filter_app. apply b_lastsel_app. Qed.

Lemma b_payload_of_nil n : payload_of n [] = None.
Proof. reflexivity. Qed.

Lemma b_payload_of_none n l : (forall sc, In sc l -> b_sel n sc = false) -> payload_of n l = None.
Proof.
  intros H. rewrite b_payload_of_lastsel.
  replace (filter (b_sel n) l) with (@nil setcookie); [reflexivity|].
  symmetry. induction l as [|x l IH]; [reflexivity|]. cbn [filter].
  rewrite (H x (or_introl eq_refl)). apply IH.
  intros sc Hin. apply H. right. exact Hin.
Qed.

Lemma b_payload_of_cons n m p d l :
  payload_of n ((m, p, d) :: l) =
  match payload_of n l with Some q => Some q | None => if cname_eqb m n && negb d then Some p else None end.
Proof.
  change ((m, p, d) :: l) with ([(m, p, d)] ++ l). rewrite b_payload_of_app.
  destruct (payload_of n l); [reflexivity|].
  unfold payload_of. cbn. destruct (cname_eqb m n && negb d); reflexivity.
Qed.

Lemma b_po_deletions n mk m a b : payload_of n (deletions mk m a b) = None.
Proof.
  apply b_payload_of_none. intros sc Hin. unfold deletions in Hin.
  destruct m; [|contradiction]. apply in_map_iff in Hin. destruct Hin as (i & <- & _).
  unfold b_sel. cbn. apply andb_false_r.
Qed.

Lemma b_po_number_other n mk k l :
  (forall j, cname_eqb (mk j) n = false) -> payload_of n (number_from mk k l) = None.
Proof.
  intros H. apply b_payload_of_none. revert k.
  induction l as [|p l IH]; intros k sc Hin; [contradiction|].
  cbn [number_from] in Hin. destruct Hin as [<-|Hin]; [|exact (IH _ _ Hin)].
  unfold b_sel. cbn [fst snd]. rewrite H. reflexivity.
Qed.

Lemma b_po_number_same mk k l i :
  (forall a b, cname_eqb (mk a) (mk b) = Nat.eqb a b) ->
  payload_of (mk i) (number_from mk k l) = if Nat.ltb i k then None else nth_error l (i - k).
Proof.
  intros Hinj. revert k. induction l as [|p l IH]; intros k.
  - cbn [number_from]. rewrite b_payload_of_nil. destruct (Nat.ltb i k); [reflexivity|].
    destruct (i - k)%nat; reflexivity.
  - cbn [number_from]. rewrite b_payload_of_cons, IH, Hinj. cbn [negb]. rewrite andb_true_r.
    destruct (Nat.ltb_spec i k) as [Hlt|Hge].
    + destruct (Nat.ltb_spec i (S k)); [|lia]. destruct (Nat.eqb_spec k i); [lia|reflexivity].
    + destruct (Nat.ltb_spec i (S k)) as [Hlt|Hge'].
      * assert (i = k) by lia. subst i. rewrite Nat.eqb_refl, Nat.sub_diag. reflexivity.
      * replace (i - k)%nat with (S (i - S k)) by lia. cbn [nth_error].
        destruct (nth_error l (i - S k)); [reflexivity|].
        destruct (Nat.eqb_spec k i); [lia|reflexivity].
Qed.

Lemma b_acc_inj a b : cname_eqb (CAccChunk a) (CAccChunk b) = Nat.eqb a b.
Proof.
  unfold cname_eqb, cname_code. destruct (Nat.eqb_spec a b) as [->|Hne]; [apply N.eqb_refl|].
  apply N.eqb_neq. lia.
Qed.

Lemma b_ref_inj a b : cname_eqb (CRefChunk a) (CRefChunk b) = Nat.eqb a b.
Proof.
  unfold cname_eqb, cname_code. destruct (Nat.eqb_spec a b) as [->|Hne]; [apply N.eqb_refl|].
  apply N.eqb_neq. lia.
Qed.

Lemma b_acc_ref a b : cname_eqb (CAccChunk a) (CRefChunk b) = false.
Proof. unfold cname_eqb, cname_code. apply N.eqb_neq. lia. Qed.
Lemma b_ref_acc a b : cname_eqb (CRefChunk a) (CAccChunk b) = false.
Proof. unfold cname_eqb, cname_code. apply N.eqb_neq. lia. Qed.
Lemma b_acc_base a n : n = CMain \/ n = CAcc \/ n = CRef -> cname_eqb (CAccChunk a) n = false.
Proof. intros [->|[->| ->]]; unfold cname_eqb, cname_code; apply N.eqb_neq; lia. Qed.
Lemma b_ref_base a n : n = CMain \/ n = CAcc \/ n = CRef -> cname_eqb (CRefChunk a) n = false.
Proof. intros [->|[->| ->]]; unfold cname_eqb, cname_code; apply N.eqb_neq; lia. Qed.
Lemma b_base_acc a n : n = CMain \/ n = CAcc \/ n = CRef -> cname_eqb n (CAccChunk a) = false.
Proof. intros [->|[->| ->]]; unfold cname_eqb, cname_code; apply N.eqb_neq; lia. Qed.
Lemma b_base_ref a n : n = CMain \/ n = CAcc \/ n = CRef -> cname_eqb n (CRefChunk a) = false.
Proof. intros [->|[->| ->]]; unfold cname_eqb, cname_code; apply N.eqb_neq; lia. Qed.

Lemma b_po_save_main sd : payload_of CMain (save_cookies sd) = Some (s_main sd).
Proof.
  unfold save_cookies. rewrite !b_payload_of_app, !b_po_deletions.
  rewrite !b_po_number_other by (intros j; first [apply b_acc_base|apply b_ref_base]; tauto).
  reflexivity.
Qed.

Lemma b_po_save_acc sd : payload_of CAcc (save_cookies sd) = Some (s_acc sd).
Proof.
  unfold save_cookies. rewrite !b_payload_of_app, !b_po_deletions.
  rewrite !b_po_number_other by (intros j; first [apply b_acc_base|apply b_ref_base]; tauto).
  reflexivity.
Qed.

Lemma b_po_save_ref sd : payload_of CRef (save_cookies sd) = Some (s_ref sd).
Proof.
  unfold save_cookies. rewrite !b_payload_of_app, !b_po_deletions.
  rewrite !b_po_number_other by (intros j; first [apply b_acc_base|apply b_ref_base]; tauto).
  reflexivity.
Qed.

Lemma b_po_save_acc_chunk sd i : payload_of (CAccChunk i) (save_cookies sd) = nth_error (s_achunks sd) i.
Proof.
  unfold save_cookies. rewrite !b_payload_of_app, !b_po_deletions.
  rewrite (b_po_number_other (CAccChunk i) CRefChunk) by (intros j; apply b_ref_acc).
  rewrite (b_po_number_same CAccChunk) by exact b_acc_inj.
  cbn [Nat.ltb Nat.leb]. rewrite Nat.sub_0_r.
  destruct (nth_error (s_achunks sd) i); [reflexivity|].
  rewrite !b_payload_of_cons, b_payload_of_nil. rewrite !b_base_acc by tauto. reflexivity.
Qed.

Lemma b_po_save_ref_chunk sd i : payload_of (CRefChunk i) (save_cookies sd) = nth_error (s_rchunks sd) i.
Proof.
  unfold save_cookies. rewrite !b_payload_of_app, !b_po_deletions.
  rewrite (b_po_number_other (CRefChunk i) CAccChunk) by (intros j; apply b_acc_ref).
  rewrite (b_po_number_same CRefChunk) by exact b_ref_inj.
  cbn [Nat.ltb Nat.leb]. rewrite Nat.sub_0_r.
  destruct (nth_error (s_rchunks sd) i); [reflexivity|].
  rewrite !b_payload_of_cons, b_payload_of_nil. rewrite !b_base_ref by tauto. reflexivity.
Qed.

Lemma b_chunk_payloads_exact mk l L :
  (forall j, payload_of (mk j) l = nth_error L j) ->
  forall fuel i, (length L < i + fuel)%nat -> chunk_payloads mk l i fuel = skipn i L.
Proof.
  intros H. induction fuel as [|f IH]; intros i Hlen.
  - cbn [chunk_payloads]. symmetry. apply skipn_all2. lia.
  - cbn [chunk_payloads]. rewrite H. destruct (nth_error L i) as [p|] eqn:En.
    + rewrite IH by lia. clear -En. revert i En. induction L as [|x L IHL]; intros i En.
      * destruct i; discriminate.
      * destruct i as [|i]; cbn in En |- *; [congruence|]. apply IHL, En.
    + symmetry. apply skipn_all2. apply nth_error_None. exact En.
Qed.

Lemma b_save_length sd : (length (s_achunks sd) + length (s_rchunks sd) < length (save_cookies sd))%nat.
Proof.
  unfold save_cookies. rewrite !app_length. cbn [length].
  assert (Hn : forall mk k l, length (number_from mk k l) = length l).
  { intros mk k l. revert k. induction l as [|p l IH]; intros k; cbn; [reflexivity|]. rewrite IH. reflexivity. }
  rewrite !Hn. lia.
Qed.

Section Emitted.
  Variable E : env.

  Lemma b_emitted_id_save r sd :
    r_cookies r = save_cookies sd -> emitted_id E r = Some (get_access (nchunks E) sd).
  Proof.
    intros Hc. unfold emitted_id, emitted_token. rewrite Hc, b_po_save_acc.
    rewrite (b_chunk_payloads_exact CAccChunk _ (s_achunks sd)).
    - reflexivity.
    - intros j. apply b_po_save_acc_chunk.
    - generalize (b_save_length sd). lia.
  Qed.

  Lemma b_emitted_rt_save r sd :
    r_cookies r = save_cookies sd -> emitted_rt E r = Some (get_refresh (nchunks E) sd).
  Proof.
    intros Hc. unfold emitted_rt, emitted_token. rewrite Hc, b_po_save_ref.
    rewrite (b_chunk_payloads_exact CRefChunk _ (s_rchunks sd)).
    - reflexivity.
    - intros j. apply b_po_save_ref_chunk.
    - generalize (b_save_length sd). lia.
  Qed.
End Emitted.

Lemma b_emitted_main_save r pre sd :
  r_cookies r = pre ++ save_cookies sd -> emitted_main r = Some (s_main sd).
Proof. intros Hc. unfold emitted_main. rewrite Hc, b_payload_of_app, b_po_save_main. reflexivity. Qed.

Lemma b_emitted_main_save0 r sd :
  r_cookies r = save_cookies sd -> emitted_main r = Some (s_main sd).
Proof. intros Hc. apply (b_emitted_main_save r [] sd). rewrite Hc. reflexivity. Qed.

Lemma b_emitted_main_nil r : r_cookies r = [] -> emitted_main r = None.
Proof. intros Hc. unfold emitted_main. rewrite Hc. reflexivity. Qed.

Lemma b_emits_auth_nil r : r_cookies r = [] -> emits_auth r = false.
Proof. intros Hc. unfold emits_auth. rewrite b_emitted_main_nil by exact Hc. reflexivity. Qed.

Lemma b_chunk_payloads_all mk l (Q : payload -> Prop) :
  (forall j p, payload_of (mk j) l = Some p -> Q p) ->
  forall fuel i, Forall Q (chunk_payloads mk l i fuel).
Proof.
  intros H. induction fuel as [|f IH]; intros i; cbn [chunk_payloads]; [constructor|].
  destruct (payload_of (mk i) l) as [p|] eqn:Ep; [|constructor].
  constructor; [exact (H _ _ Ep)|apply IH].
Qed.

Lemma b_read_token_empty nch chunks :
  Forall (fun p => p = []) chunks -> read_token nch [] chunks = TEmpty.
Proof.
  intros H. unfold read_token. cbn. destruct chunks as [|c ch]; [reflexivity|].
  replace (concat (map (get_text 1) (c :: ch))) with (@nil piece); [reflexivity|].
  symmetry. induction H as [|x l Hx Hl IH]; [reflexivity|]. subst x. cbn. exact IH.
Qed.

Lemma b_nth_error_empty_payloads l i p : nth_error (empty_payloads l) i = Some p -> p = [].
Proof.
  unfold empty_payloads. intros H. apply nth_error_In, in_map_iff in H.
  destruct H as (x & <- & _). reflexivity.
Qed.

(* ------------------------------------------------------------------ verify_token *)

Section Verify.
  Variable E : env.

  Lemma b_get_miss now k c : lookup k (items c) = None -> get now k c = (c, None).
  Proof. intros H. unfold get. rewrite H. reflexivity. Qed.

  Lemma b_get_hit now k c c' v :
    get now k c = (c', Some v) -> exists e, lookup k (items c) = Some e /\ (now <= e_exp e)%Z.
  Proof.
    unfold get. destruct (lookup k (items c)) as [e|]; [|discriminate].
    unfold expired. destruct (Z.ltb_spec (e_exp e) now); [discriminate|].
    intros _. exists e. split; [reflexivity|assumption].
  Qed.

  Lemma b_verify_url st now t : i_auth_url (fst (verify_token E st now t)) = i_auth_url st.
  Proof.
    unfold verify_token.
    destruct (get now t (i_tcache st)) as [tc1 [v|]]; [reflexivity|].
    destruct (get now t (i_black st)) as [b1 [v|]]; [reflexivity|].
    destruct (if N.eqb _ 0 then _ else _) as [b2 [v|]]; [reflexivity|].
    destruct (accept_at now (tok E t)); reflexivity.
  Qed.

  Lemma b_verify_sound st now t :
    inst_ok E st now -> snd (verify_token E st now t) = true -> accept_at now (tok E t) = true.
  Proof.
    intros Hok. unfold verify_token.
    destruct (get now t (i_tcache st)) as [tc1 [v|]] eqn:Eg.
    - intros _. apply b_get_hit in Eg. destruct Eg as (e & Hl & Hle).
      destruct (Hok _ _ Hl) as (Hs & Hiat & Hnbf & Hexp).
      unfold accept_at. rewrite Hs. unfold skew_future_s, skew_past_s, sec in *.
      destruct (ti_nbf (tok E t)) as [n|]; lia.
    - destruct (get now t (i_black st)) as [b1 [v|]]; [discriminate|].
      destruct (if N.eqb _ 0 then _ else _) as [b2 [v|]]; [discriminate|].
      destruct (accept_at now (tok E t)); [reflexivity|discriminate].
  Qed.

  Lemma b_verify_complete st now t :
    fresh_for E st t -> accept_at now (tok E t) = true -> snd (verify_token E st now t) = true.
  Proof.
    intros [Hraw Hjti] Hacc. unfold verify_token.
    destruct (get now t (i_tcache st)) as [tc1 [v|]]; [reflexivity|].
    rewrite (b_get_miss now t _ Hraw).
    set (jti := if ti_claims (tok E t) then ti_jti (tok E t) else 0).
    assert (Hg : (if N.eqb jti 0 then (i_black st, @None Z) else get now jti (i_black st)) = (i_black st, None)).
    { destruct (N.eqb_spec jti 0) as [|Hne]; [reflexivity|]. apply b_get_miss.
      subst jti. destruct (ti_claims (tok E t)); [|congruence].
      destruct Hjti as [H0|H]; [congruence|exact H]. }
    rewrite Hg, Hacc. reflexivity.
  Qed.
End Verify.

(* ------------------------------------------------------------------ what the sub-handlers of serve return *)

Section Handlers.
  Variable E : env.
  Variable cfg : config.
  Notation NCE := (nchunks E).

  (* ---- initiate *)

  Definition b_cleared (sd : sdata) : sdata :=
    mkSd [] [] [] (empty_payloads (s_achunks sd)) (empty_payloads (s_rchunks sd))
         (s_jar_a sd) (s_jar_r sd) (s_marked_a sd) (s_marked_r sd) (s_live sd).

  Definition b_login_main (rq : request) (rnd : istr * istr * istr) : payload :=
    let '(csrf, nonce, verifier) := rnd in
    let m2 := setf 4 (VS nonce) (setf 3 (VS csrf) []) in
    let m3 := if c_pkce cfg then setf 5 (VS verifier) m2 else m2 in
    setf 7 (VS (if Nat.ltb 1024%nat (q_uri_len rq) then slash else q_uri rq)) m3.

  Lemma b_initiate_shape rq rnd st sd cookies calls :
    exists sd4,
      initiate cfg rq rnd st sd cookies calls
      = mkResp 302 (Some (LAuth (i_auth_url st) (fst (fst rnd)) (snd (fst rnd))
                                (if c_pkce cfg then snd rnd else 0) (q_scheme rq) (q_host rq)))
               (cookies ++ save_cookies (b_cleared sd) ++ save_cookies sd4) BNone None false calls []
      /\ s_main sd4 = b_login_main rq rnd
      /\ s_ref sd4 = [] /\ s_rchunks sd4 = empty_payloads (s_rchunks sd)
      /\ s_acc sd4 = [] /\ s_achunks sd4 = empty_payloads (s_achunks sd).
  Proof.
    destruct rnd as [[csrf nonce] verifier]. unfold initiate, clear. cbn [fst snd].
    eexists. split; [reflexivity|].
    unfold b_login_main. destruct (c_pkce cfg); cbn; repeat split; unfold empty_payloads; rewrite ?map_map; reflexivity.
  Qed.

  Lemma b_login_main_auth rq rnd : get_bool 1 (b_login_main rq rnd) = false.
  Proof.
    destruct rnd as [[csrf nonce] verifier]. unfold b_login_main.
    rewrite b_get_bool_set_str. cbn [N.eqb Pos.eqb].
    destruct (c_pkce cfg); rewrite !b_get_bool_set_str; reflexivity.
  Qed.

  Lemma b_initiate_fwd rq rnd st sd cookies calls : r_fwd (initiate cfg rq rnd st sd cookies calls) = None.
  Proof. destruct (b_initiate_shape rq rnd st sd cookies calls) as (sd4 & -> & _). reflexivity. Qed.

  Lemma b_initiate_calls rq rnd st sd cookies calls : r_calls (initiate cfg rq rnd st sd cookies calls) = calls.
  Proof. destruct (b_initiate_shape rq rnd st sd cookies calls) as (sd4 & -> & _). reflexivity. Qed.

  Lemma b_initiate_main rq rnd st sd cookies calls :
    emitted_main (initiate cfg rq rnd st sd cookies calls) = Some (b_login_main rq rnd).
  Proof.
    destruct (b_initiate_shape rq rnd st sd cookies calls) as (sd4 & -> & Hm & _).
    rewrite <- Hm. apply (b_emitted_main_save _ (cookies ++ save_cookies (b_cleared sd))).
    cbn [r_cookies]. rewrite app_assoc. reflexivity.
  Qed.

  Lemma b_initiate_emits rq rnd st sd cookies calls :
    emits_auth (initiate cfg rq rnd st sd cookies calls) = false.
  Proof. unfold emits_auth. rewrite b_initiate_main. apply b_login_main_auth. Qed.

  Lemma b_initiate_redirect rq rnd st sd cookies calls :
    is_auth_redirect (i_auth_url st) (initiate cfg rq rnd st sd cookies calls) = true.
  Proof.
    destruct (b_initiate_shape rq rnd st sd cookies calls) as (sd4 & -> & _).
    unfold is_auth_redirect. cbn. apply N.eqb_refl.
  Qed.

  (* ---- send_error *)

  Lemma b_send_error_fwd rq m c cs calls : r_fwd (send_error rq m c cs calls) = None.
  Proof. reflexivity. Qed.

  (* ---- handle_logout *)

  Lemma b_logout_shape rq st sd :
    exists loc, handle_logout E cfg rq st sd
                = mkResp 302 (Some loc) (save_cookies (b_cleared sd)) BNone None false [] [].
  Proof. unfold handle_logout, clear. eexists. reflexivity. Qed.

  (* ---- handle_callback *)

  Definition b_cb_final (now : time) (sd : sdata) (id rt : istr) : sdata :=
    let sd1 := set_authenticated now true sd in
    let sd2 := set_main 6 (ti_email (tok E id)) sd1 in
    let sd3 := set_refresh NCE rt (set_access NCE id sd2) in
    let sd4 := set_main 5 0 (set_main 4 0 (set_main 3 0 sd3)) in
    set_main 7 0 sd4.

  Lemma b_cb_cases rq st now sd ans (P : inst * response -> Prop) :
    (forall st' m code, P (st', send_error rq m code [] [])) ->
    (forall st' m code,
        q_error rq = 0 -> q_state rq <> 0 -> q_state rq = get_str 3 (s_main sd) -> q_code rq <> 0 ->
        P (st', send_error rq m code [] [PExchange (q_code rq) (q_scheme rq) (q_host rq) (get_str 5 (s_main sd))])) ->
    (forall id rt tgt,
        ans = Some (AOk id rt) ->
        q_error rq = 0 -> q_state rq <> 0 -> q_state rq = get_str 3 (s_main sd) -> q_code rq <> 0 ->
        snd (verify_token E st now id) = true ->
        ti_nonce (tok E id) <> 0 -> ti_nonce (tok E id) = get_str 4 (s_main sd) ->
        ti_email (tok E id) <> 0 -> allowed_domain E cfg (ti_email (tok E id)) = true ->
        P (fst (verify_token E st now id),
           mkResp 302 (Some (LPath tgt)) (save_cookies (b_cb_final now sd id rt)) BNone None false
                  [PExchange (q_code rq) (q_scheme rq) (q_host rq) (get_str 5 (s_main sd))] [])) ->
    P (handle_callback E cfg rq st now sd ans).
  Proof.
    intros Hquiet Hcall Hok. unfold handle_callback.
    destruct (N.eqb_spec (q_error rq) 0) as [He|He]; cbn [negb]; [|apply Hquiet].
    destruct (N.eqb_spec (q_state rq) 0) as [Hs|Hs]; [apply Hquiet|].
    destruct (N.eqb_spec (get_str 3 (s_main sd)) 0) as [Hc|Hc]; [apply Hquiet|].
    destruct (N.eqb_spec (q_state rq) (get_str 3 (s_main sd))) as [Hsc|Hsc]; cbn [negb]; [|apply Hquiet].
    destruct (N.eqb_spec (q_code rq) 0) as [Hcode|Hcode]; [apply Hquiet|].
    destruct ans as [[ig|id rt]|]; [apply Hcall; assumption| |apply Hcall; assumption].
    destruct (verify_token E st now id) as [st1 ok] eqn:Ev.
    destruct ok; cbn [negb]; [|apply Hcall; assumption].
    destruct (ti_claims (tok E id)); cbn [negb]; [|apply Hcall; assumption].
    destruct (N.eqb_spec (ti_nonce (tok E id)) 0) as [Hn|Hn]; [apply Hcall; assumption|].
    destruct (N.eqb_spec (get_str 4 (s_main sd)) 0) as [Hsn|Hsn]; [apply Hcall; assumption|].
    destruct (N.eqb_spec (ti_nonce (tok E id)) (get_str 4 (s_main sd))) as [Hnn|Hnn]; cbn [negb];
      [|apply Hcall; assumption].
    destruct (N.eqb_spec (ti_email (tok E id)) 0) as [Hem|Hem]; [apply Hcall; assumption|].
    destruct (allowed_domain E cfg (ti_email (tok E id))) eqn:Had; cbn [negb]; [|apply Hcall; assumption].
    replace st1 with (fst (verify_token E st now id)) by (rewrite Ev; reflexivity).
    apply (Hok id rt); try assumption; try reflexivity. rewrite Ev. reflexivity.
  Qed.

  Lemma b_cb_final_main now sd id rt :
    exists m, s_main (b_cb_final now sd id rt)
              = setf 7 (VS 0) (setf 5 (VS 0) (setf 4 (VS 0) (setf 3 (VS 0)
                  (setf 6 (VS (ti_email (tok E id))) (setf 1 (VB true) m))))).
  Proof.
    unfold b_cb_final. rewrite !b_main_set_main, b_main_set_refresh, b_main_set_access, b_main_set_main.
    eexists. reflexivity.
  Qed.

  (* ---- process_authorized *)

  Definition b_headers (rq : request) (sd : sdata) : list (N * hval) :=
    let email := get_str 6 (s_main sd) in
    let t := get_access NCE sd in
    let gr := groups_roles E t in
    let h0 := surviving_client_headers cfg rq in
    let h1 := match gr with
              | Some (g, r) =>
                  let hg := match g with [] => h0 | _ => insert_hdr 4 (HList g) h0 end in
                  match r with [] => hg | _ => insert_hdr 5 (HList r) hg end
              | None => h0
              end in
    let h2 := insert_hdr 6 (HStr (q_uri rq)) (insert_hdr 2 (HStr email) (insert_hdr 1 (HStr email) h1)) in
    let h3 := match t with
              | TTok s => insert_hdr 3 (HStr s) h2
              | TJunk => insert_hdr 3 (HStr 0) h2
              | TEmpty => h2
              end in
    template_headers E cfg t h3.

  Lemma b_roles_allowed t :
    match c_roles cfg with
    | [] => true
    | _ => match groups_roles E t with
           | Some (g, r) => existsb (role_listed cfg) (g ++ r)
           | None => false
           end
    end = roles_ok E cfg t.
  Proof.
    unfold roles_ok. destruct (c_roles cfg) as [|x rs] eqn:Er; [reflexivity|].
    assert (Hf : forall l, existsb (role_listed cfg) l = existsb (fun y => memk y (x :: rs)) l).
    { intros l. induction l as [|y l IH]; [reflexivity|]. cbn [existsb]. rewrite IH.
      unfold role_listed at 1. rewrite Er. reflexivity. }
    destruct t as [|s|]; [reflexivity| |reflexivity].
    unfold groups_roles, claims_well_typed, claim_strings.
    destruct (ti_claims (tok E s)); [|reflexivity].
    destruct (ti_groups (tok E s)), (ti_roles (tok E s)); cbn [shape_strings andb]; rewrite ?Hf; reflexivity.
  Qed.

  Lemma b_pa_eq rq rnd st sd cookies calls :
    get_str 6 (s_main sd) <> 0 ->
    process_authorized E cfg rq rnd st sd cookies calls =
    if negb (domain_ok E cfg (get_str 6 (s_main sd))) then send_error rq msg_domain_denied 403 cookies calls
    else if negb (roles_ok E cfg (get_access NCE sd)) then send_error rq msg_roles_denied 403 cookies calls
    else if negb (N.eqb (q_origin rq) 0) && q_options rq
         then mkResp 200 None cookies BNone None true calls []
         else mkResp 200 None cookies BNone (Some (b_headers rq sd)) (negb (N.eqb (q_origin rq) 0)) calls [].
  Proof.
    intros Hem. unfold process_authorized.
    destruct (N.eqb_spec (get_str 6 (s_main sd)) 0) as [H0|_]; [contradiction|].
    change (allowed_domain E cfg (get_str 6 (s_main sd))) with (domain_ok E cfg (get_str 6 (s_main sd))).
    destruct (domain_ok E cfg (get_str 6 (s_main sd))); cbn [negb]; [|reflexivity].
    fold (NC E). change (NC E) with NCE.
    rewrite b_roles_allowed.
    destruct (roles_ok E cfg (get_access NCE sd)); cbn [negb]; [|reflexivity].
    reflexivity.
  Qed.

  Lemma b_pa_initiate rq rnd st sd cookies calls :
    get_str 6 (s_main sd) = 0 ->
    process_authorized E cfg rq rnd st sd cookies calls = initiate cfg rq rnd st sd cookies calls.
  Proof. intros H. unfold process_authorized. rewrite H. reflexivity. Qed.

  (* everything the theorems need to know about a response of process_authorized *)
  Lemma b_pa_cases rq rnd st sd cookies calls (P : response -> Prop) :
    (get_str 6 (s_main sd) = 0 -> P (initiate cfg rq rnd st sd cookies calls)) ->
    (forall m, get_str 6 (s_main sd) <> 0 ->
               domain_ok E cfg (get_str 6 (s_main sd)) && roles_ok E cfg (get_access NCE sd) = false ->
               P (send_error rq m 403 cookies calls)) ->
    (get_str 6 (s_main sd) <> 0 ->
     domain_ok E cfg (get_str 6 (s_main sd)) = true -> roles_ok E cfg (get_access NCE sd) = true ->
     q_options rq = true -> q_origin rq <> 0 ->
     P (mkResp 200 None cookies BNone None true calls [])) ->
    (forall cors, get_str 6 (s_main sd) <> 0 ->
     domain_ok E cfg (get_str 6 (s_main sd)) = true -> roles_ok E cfg (get_access NCE sd) = true ->
     P (mkResp 200 None cookies BNone (Some (b_headers rq sd)) cors calls [])) ->
    P (process_authorized E cfg rq rnd st sd cookies calls).
  Proof.
    intros Hinit Herr Hpre Hfwd.
    destruct (N.eqb_spec (get_str 6 (s_main sd)) 0) as [H0|Hne].
    - rewrite b_pa_initiate by exact H0. apply Hinit, H0.
    - rewrite b_pa_eq by exact Hne.
      destruct (domain_ok E cfg (get_str 6 (s_main sd))) eqn:Hd; cbn [negb]; [|apply Herr; [exact Hne|reflexivity]].
      destruct (roles_ok E cfg (get_access NCE sd)) eqn:Hr; cbn [negb]; [|apply Herr; [exact Hne|reflexivity]].
      destruct (N.eqb_spec (q_origin rq) 0) as [Ho|Ho]; cbn [negb andb];
        [apply Hfwd; solve [assumption|reflexivity]|].
      destruct (q_options rq) eqn:Hopt; [apply Hpre|apply Hfwd]; solve [assumption|reflexivity].
  Qed.
End Handlers.

(* ------------------------------------------------------------------ refreshToken, isUserAuthenticated, the ladder *)

Section Ladder.
  Variable E : env.
  Variable cfg : config.
  Notation NCE := (nchunks E).

  Definition b_refreshed (now : time) (id newrt : istr) (sd : sdata) : sdata :=
    let rt := get_refresh NCE sd in
    let sd1 := set_main 6 (ti_email (tok E id)) sd in
    let sd2 := set_access NCE id sd1 in
    let sd3 := match newrt, rt with
               | 0%N, TTok old => set_refresh NCE old sd2
               | 0%N, _ => sd2
               | n, _ => set_refresh NCE n sd2
               end in
    set_authenticated now true sd3.

  Definition b_refresh_okb (st : inst) (now : time) (ans : option answer) : bool :=
    match ans with
    | Some (AOk id _) =>
        negb (N.eqb id 0) && snd (verify_token E st now id) && ti_claims (tok E id)
        && negb (N.eqb (ti_email (tok E id)) 0)
    | _ => false
    end.

  Definition b_fail_sd (ans : option answer) (sd : sdata) : sdata :=
    match ans with Some (AErr true) => after_save (set_refresh NCE 0 sd) | _ => sd end.
  Definition b_fail_cs (ans : option answer) (sd : sdata) : list setcookie :=
    match ans with Some (AErr true) => save_cookies (set_refresh NCE 0 sd) | _ => [] end.

  Lemma b_refresh_ok st now sd ans :
    get_refresh NCE sd <> TEmpty -> b_refresh_okb st now ans = true ->
    exists id newrt,
      ans = Some (AOk id newrt) /\ id <> 0 /\ ti_email (tok E id) <> 0
      /\ snd (verify_token E st now id) = true
      /\ refresh_token E st now sd ans
         = (fst (verify_token E st now id), after_save (b_refreshed now id newrt sd),
            save_cookies (b_refreshed now id newrt sd), [PRefresh (get_refresh NCE sd)], true).
  Proof.
    intros Hrt Hok. destruct ans as [[ig|id newrt]|]; try discriminate.
    unfold b_refresh_okb in Hok. apply andb_prop in Hok. destruct Hok as [Hok Hem].
    apply andb_prop in Hok. destruct Hok as [Hok Hcl]. apply andb_prop in Hok. destruct Hok as [Hid Hv].
    exists id, newrt. split; [reflexivity|].
    split; [intros ->; discriminate|]. split; [intros H0; rewrite H0 in Hem; discriminate|].
    split; [exact Hv|].
    unfold refresh_token, b_refreshed, NC. cbv zeta.
    destruct (verify_token E st now id) as [st1 ok] eqn:Ev. cbn [fst snd] in *. subst ok.
    apply negb_true_iff in Hid, Hem. rewrite Hid, Hcl, Hem. cbn [negb].
    destruct (get_refresh NCE sd) eqn:Ert; [contradiction| |]; reflexivity.
  Qed.

  Lemma b_refresh_fail st now sd ans :
    get_refresh NCE sd <> TEmpty -> b_refresh_okb st now ans = false ->
    exists st1,
      i_auth_url st1 = i_auth_url st
      /\ refresh_token E st now sd ans
         = (st1, b_fail_sd ans sd, b_fail_cs ans sd, [PRefresh (get_refresh NCE sd)], false).
  Proof.
    intros Hrt Hok. unfold refresh_token, b_fail_sd, b_fail_cs, NC. cbv zeta.
    destruct ans as [[[|]|id newrt]|].
    - exists st. split; [reflexivity|]. destruct (get_refresh NCE sd); [contradiction| |]; reflexivity.
    - exists st. split; [reflexivity|]. destruct (get_refresh NCE sd); [contradiction| |]; reflexivity.
    - unfold b_refresh_okb in Hok.
      generalize (b_verify_url E st now id).
      destruct (verify_token E st now id) as [st1 ok]. cbn [fst snd] in *. intros Hurl.
      destruct (N.eqb id 0) eqn:Hid.
      { exists st. split; [reflexivity|]. destruct (get_refresh NCE sd); [contradiction| |]; reflexivity. }
      exists st1. split; [exact Hurl|].
      destruct ok; cbn [negb andb] in *;
        [|destruct (get_refresh NCE sd); [contradiction| |]; reflexivity].
      destruct (ti_claims (tok E id)); cbn [negb andb] in *;
        [|destruct (get_refresh NCE sd); [contradiction| |]; reflexivity].
      apply negb_false_iff in Hok. rewrite Hok.
      destruct (get_refresh NCE sd); [contradiction| |]; reflexivity.
    - exists st. split; [reflexivity|]. destruct (get_refresh NCE sd); [contradiction| |]; reflexivity.
  Qed.

  Section Refreshed.
    Hypothesis nch_pos : forall t, (1 <= nchunks E t)%nat.

    Lemma b_refreshed_main now id newrt sd :
      exists m, s_main (b_refreshed now id newrt sd)
                = setf 1 (VB true) (setf 2 m (setf 6 (VS (ti_email (tok E id))) (s_main sd))).
    Proof.
      unfold b_refreshed. cbv zeta. eexists.
      destruct newrt; [destruct (get_refresh NCE sd)|]; cbn [set_authenticated s_main];
        rewrite ?b_main_set_refresh, b_main_set_access; reflexivity.
    Qed.

    Lemma b_refreshed_email now id newrt sd :
      get_str 6 (s_main (b_refreshed now id newrt sd)) = ti_email (tok E id).
    Proof.
      destruct (b_refreshed_main now id newrt sd) as (m & ->).
      rewrite !b_get_str_set_other by discriminate. apply b_get_str_set_same.
    Qed.

    Lemma b_refreshed_auth now id newrt sd : get_bool 1 (s_main (b_refreshed now id newrt sd)) = true.
    Proof. destruct (b_refreshed_main now id newrt sd) as (m & ->). apply b_get_bool_set_same. Qed.

    Lemma b_refreshed_access now id newrt sd :
      id <> 0 -> get_access NCE (b_refreshed now id newrt sd) = TTok id.
    Proof.
      intros Hid. unfold b_refreshed. cbv zeta. rewrite b_get_access_set_auth.
      assert (Ha : get_access NCE (set_access NCE id (set_main 6 (ti_email (tok E id)) sd)) = TTok id).
      { rewrite b_get_access_set_access by exact nch_pos. destruct (N.eqb_spec id 0); [contradiction|reflexivity]. }
      destruct newrt; [destruct (get_refresh NCE sd)|]; rewrite ?b_get_access_set_refresh; exact Ha.
    Qed.

    Lemma b_refreshed_refresh now id newrt sd :
      get_refresh NCE sd <> TEmpty ->
      get_refresh NCE (b_refreshed now id newrt sd)
      = if N.eqb newrt 0 then get_refresh NCE sd else TTok newrt.
    Proof.
      intros Hrt. unfold b_refreshed. cbv zeta. rewrite b_get_refresh_set_auth.
      destruct newrt as [|p].
      - cbn [N.eqb]. destruct (get_refresh NCE sd) as [|old|] eqn:Ert; [contradiction| |].
        + rewrite b_get_refresh_set_refresh by exact nch_pos.
          assert (old <> 0) by (unfold get_refresh in Ert; eapply b_read_token_tok; exact Ert).
          destruct (N.eqb_spec old 0); [contradiction|reflexivity].
        + rewrite b_get_refresh_set_access, b_get_refresh_set_main. exact Ert.
      - rewrite b_get_refresh_set_refresh by exact nch_pos. reflexivity.
    Qed.
  End Refreshed.

  (* ---- isUserAuthenticated *)

  Lemma b_iua_auth now sd r e :
    is_user_authenticated E cfg now sd = (true, r, e) ->
    exists t, get_access NCE sd = TTok t /\ accept_at now (tok E t) = true /\ authenticated now sd = true.
  Proof.
    unfold is_user_authenticated, NC.
    destruct (authenticated now sd); cbn [negb]; [|discriminate].
    destruct (get_access NCE sd) as [|t|]; [discriminate| |discriminate].
    destruct (accept_at now (tok E t)) eqn:Eacc; cbn [negb]; [|discriminate].
    intros _. exists t. repeat split. exact Eacc.
  Qed.

  (* ---- the ladder, branch by branch *)

  Definition b_refresh_branch (st : inst) (now : time) (rq : request) (rnd : istr * istr * istr)
             (ans : option answer) (sd : sdata) : inst * response :=
    let '(st1, sd1, cs, calls, ok) := refresh_token E st now sd ans in
    if ok then (st1, process_authorized E cfg rq rnd st1 sd1 cs calls)
    else if q_json rq then (st1, mkResp 401 None cs BJson401 None false calls [])
    else (st1, initiate cfg rq rnd st1 sd1 cs calls).

  Lemma b_serve_cases st now rq rnd ans (P : inst * response -> Prop) :
    i_ready st = true ->
    let sd := carried cfg now rq in
    (is_excluded E cfg rq = true ->
     P (st, mkResp 200 None [] BNone (Some (map (fun c => (1000 + c, HStr 0)) (q_client_ids rq))) false [] [])) ->
    (is_excluded E cfg rq = false -> is_logout cfg rq = true -> P (st, handle_logout E cfg rq st sd)) ->
    (is_excluded E cfg rq = false -> is_logout cfg rq = false -> is_callback cfg rq = true ->
     P (handle_callback E cfg rq st now sd ans)) ->
    (gated E cfg rq = true -> P (st, handle_expired E cfg rq rnd st sd)) ->
    (gated E cfg rq = true -> forall t, get_access NCE sd = TTok t ->
     P (st, process_authorized E cfg rq rnd st sd [] [])) ->
    (gated E cfg rq = true -> get_refresh NCE sd <> TEmpty -> P (b_refresh_branch st now rq rnd ans sd)) ->
    (gated E cfg rq = true -> P (st, initiate cfg rq rnd st sd [] [])) ->
    P (serve E cfg st now rq rnd ans).
  Proof.
    intros Hready sd Hex Hlo Hcb Hexp Hpa Hrf Hin.
    unfold serve. rewrite Hready. cbn [negb].
    unfold gated, is_excluded, is_logout, is_callback in *.
    destruct (excluded E cfg (q_path rq)); [apply Hex; reflexivity|].
    fold (carried cfg now rq). fold sd.
    destruct (N.eqb (q_path rq) (c_logout cfg)); [apply Hlo; reflexivity|].
    destruct (N.eqb (q_path rq) (c_callback cfg)); [apply Hcb; reflexivity|].
    cbn [negb andb] in *.
    destruct (is_user_authenticated E cfg now sd) as [[a r] e] eqn:Eiua.
    destruct e; [apply Hexp; reflexivity|].
    destruct a.
    - destruct (b_iua_auth _ _ _ _ Eiua) as (t & Ht & _).
      destruct r; cbn [negb andb].
      + destruct (tval_eqb (get_refresh (NC E) sd) TEmpty) eqn:Et; cbn [negb].
        * apply Hin; reflexivity.
        * apply Hrf; [reflexivity|]. unfold NC in Et. intros H0. rewrite H0 in Et. discriminate.
      + apply (Hpa eq_refl t Ht).
    - cbn [andb]. destruct r; cbn [andb]; [|apply Hin; reflexivity].
      destruct (tval_eqb (get_refresh (NC E) sd) TEmpty) eqn:Et; cbn [negb].
      + apply Hin; reflexivity.
      + apply Hrf; [reflexivity|]. unfold NC in Et. intros H0. rewrite H0 in Et. discriminate.
  Qed.

  Lemma b_serve_due st now rq rnd ans :
    i_ready st = true -> gated E cfg rq = true -> refresh_due E cfg now rq = true ->
    serve E cfg st now rq rnd ans = b_refresh_branch st now rq rnd ans (carried cfg now rq).
  Proof.
    intros Hready Hg Hdue. unfold serve. rewrite Hready. cbn [negb].
    unfold gated, is_excluded, is_logout, is_callback in Hg.
    destruct (excluded E cfg (q_path rq)); [discriminate|].
    destruct (N.eqb (q_path rq) (c_callback cfg)); [discriminate|].
    destruct (N.eqb (q_path rq) (c_logout cfg)); [discriminate|].
    fold (carried cfg now rq).
    unfold refresh_due, session_refresh, session_token, NCm in Hdue.
    set (sd := carried cfg now rq) in *.
    apply andb_prop in Hdue. destruct Hdue as [Hdue Htok].
    apply andb_prop in Hdue. destruct Hdue as [Hauth Hrt].
    unfold is_user_authenticated, NC. rewrite Hauth, Hrt. cbn [negb].
    destruct (get_access NCE sd) as [|t|]; try discriminate.
    apply andb_prop in Htok. destruct Htok as [_ Hgr].
    destruct (accept_at now (tok E t)); cbn [negb orb] in *.
    - rewrite Hgr. cbn [andb negb]. reflexivity.
    - cbn [andb negb]. reflexivity.
  Qed.
End Ladder.

(* ------------------------------------------------------------------ small facts used by several step theorems *)

Lemma b_emits_auth_cleared r sd : r_cookies r = save_cookies (b_cleared sd) -> emits_auth r = false.
Proof.
  intros Hc. unfold emits_auth. rewrite (b_emitted_main_save0 r (b_cleared sd)) by exact Hc. reflexivity.
Qed.

Lemma b_gated_not_callback E cfg rq : gated E cfg rq = true -> is_callback cfg rq = false.
Proof.
  unfold gated. intros H. apply andb_prop in H. destruct H as [H _]. apply andb_prop in H.
  destruct H as [_ H]. apply negb_true_iff in H. exact H.
Qed.

Lemma b_establishes_no_auth E cfg now rq r : emits_auth r = false -> establishes E cfg now rq r = false.
Proof. intros H. unfold establishes. rewrite H. reflexivity. Qed.

(* the carried session written back unchanged (apart from the refresh token) establishes nothing *)
Lemma b_establishes_same E cfg now rq r sd :
  (forall t, (1 <= nchunks E t)%nat) ->
  sd = carried cfg now rq ->
  r_cookies r = save_cookies (set_refresh (nchunks E) 0 sd) ->
  establishes E cfg now rq r = false.
Proof.
  intros Hpos Hsd Hc. unfold establishes, main_rewritten, new_token.
  rewrite (b_emitted_main_save0 r _ Hc), (b_emitted_id_save E r _ Hc).
  rewrite b_main_set_refresh, b_get_access_set_refresh. subst sd.
  rewrite b_payload_eqb_refl. unfold session_token, NCm. rewrite b_tval_eqb_refl.
  cbn [negb orb]. rewrite andb_false_r, andb_false_r. reflexivity.
Qed.

(* ------------------------------------------------------------------ the forwarded header list *)

Lemma b_lookup_insert_same c v l : lookup c (insert_hdr c v l) = Some v.
Proof.
  induction l as [|[d w] l IH]; cbn [insert_hdr lookup]; [rewrite N.eqb_refl; reflexivity|].
  destruct (N.eqb c d) eqn:Ecd; cbn [lookup]; [rewrite N.eqb_refl; reflexivity|].
  destruct (N.ltb c d); cbn [lookup]; [rewrite N.eqb_refl; reflexivity|].
  rewrite Ecd. exact IH.
Qed.

Lemma b_lookup_insert_other c c' v l : c' <> c -> lookup c' (insert_hdr c v l) = lookup c' l.
Proof.
  intros Hne. induction l as [|[d w] l IH]; cbn [insert_hdr lookup].
  - destruct (N.eqb_spec c' c); [contradiction|reflexivity].
  - destruct (N.eqb_spec c d) as [->|Hcd]; cbn [lookup].
    + destruct (N.eqb_spec c' d); [contradiction|reflexivity].
    + destruct (N.ltb c d); cbn [lookup].
      * destruct (N.eqb_spec c' c); [contradiction|reflexivity].
      * destruct (N.eqb c' d); [reflexivity|exact IH].
Qed.

Lemma b_In_insert c v l x : In x (insert_hdr c v l) -> x = (c, v) \/ In x l.
Proof.
  induction l as [|[d w] l IH]; cbn [insert_hdr].
  - intros [<-|[]]. left. reflexivity.
  - destruct (N.eqb c d).
    + intros [<-|H]; [left; reflexivity|right; right; exact H].
    + destruct (N.ltb c d).
      * intros [<-|H]; [left; reflexivity|right; exact H].
      * intros [<-|H]; [right; left; reflexivity|].
        destruct (IH H) as [->|H']; [left; reflexivity|right; right; exact H'].
Qed.

Lemma b_In_insert_new c v l : In (c, v) (insert_hdr c v l).
Proof.
  induction l as [|[d w] l IH]; cbn [insert_hdr]; [left; reflexivity|].
  destruct (N.eqb c d); [left; reflexivity|]. destruct (N.ltb c d); [left; reflexivity|right; exact IH].
Qed.

Lemma b_forallb_insert (P : N * hval -> bool) c v l :
  P (c, v) = true -> forallb P l = true -> forallb P (insert_hdr c v l) = true.
Proof.
  intros Hc Hl. apply forallb_forall. intros x Hin.
  destruct (b_In_insert _ _ _ _ Hin) as [->|H]; [exact Hc|].
  rewrite forallb_forall in Hl. apply Hl, H.
Qed.

Section Templates.
  Variable E : env.
  Variable cfg : config.

  Definition b_tmpl_step (s : istr) (acc : list (N * hval)) (n : N) : list (N * hval) :=
    match tmpl E n s with
    | Some v => insert_hdr (100 + n) (HStr v) acc
    | None => acc
    end.

  Lemma b_template_headers_eq t l :
    template_headers E cfg t l =
    match t with
    | TTok s => if ti_claims (tok E s) then fold_left (b_tmpl_step s) (c_templates cfg) l else l
    | _ => l
    end.
  Proof.
    unfold template_headers. destruct (c_templates cfg) as [|n ts]; [|reflexivity].
    destruct t as [|s|]; [reflexivity| |reflexivity]. destruct (ti_claims (tok E s)); reflexivity.
  Qed.

  Lemma b_forallb_templates (P : N * hval -> bool) t l :
    (forall s n v, t = TTok s -> In n (c_templates cfg) -> tmpl E n s = Some v -> P (100 + n, HStr v) = true) ->
    forallb P l = true -> forallb P (template_headers E cfg t l) = true.
  Proof.
    intros Hn Hl. rewrite b_template_headers_eq. destruct t as [|s|]; try exact Hl.
    destruct (ti_claims (tok E s)); [|exact Hl].
    specialize (Hn s). revert l Hl Hn. generalize (c_templates cfg) as ts.
    induction ts as [|n ts IH]; intros l Hl Hn; [exact Hl|].
    cbn [fold_left]. apply IH.
    - unfold b_tmpl_step. destruct (tmpl E n s) as [v|] eqn:Et; [|exact Hl].
      apply b_forallb_insert; [|exact Hl]. apply (Hn n v eq_refl); [left; reflexivity|exact Et].
    - intros n' v' Heq Hin. apply Hn; [exact Heq|right; exact Hin].
  Qed.

  Lemma b_lookup_templates c t l : c < 100 -> lookup c (template_headers E cfg t l) = lookup c l.
  Proof.
    intros Hc. rewrite b_template_headers_eq. destruct t as [|s|]; try reflexivity.
    destruct (ti_claims (tok E s)); [|reflexivity].
    revert l. generalize (c_templates cfg) as ts.
    induction ts as [|n ts IH]; intros l; [reflexivity|].
    cbn [fold_left]. rewrite IH. unfold b_tmpl_step. destruct (tmpl E n s); [|reflexivity].
    apply b_lookup_insert_other. lia.
  Qed.
End Templates.

Lemma b_forallb_ext {A} (f g : A -> bool) l : (forall x, f x = g x) -> forallb f l = forallb g l.
Proof. intros H. induction l as [|a l IH]; cbn; [reflexivity|]. rewrite H, IH. reflexivity. Qed.
