(* The Set-Cookie headers of Model/Middleware.serve, branch by branch: every
   response either sets no cookie, or its cookies are a sequence of Saves /
   Clears of sessions derived from `load` of the request's jar (SessionProofs.emit).
   Consequences used by W_C07 and W_C11: what the browser's jar holds afterwards
   (emit_holds) is exactly what the monitors read from the response as stored
   (emitted_id, emitted_rt, emitted_main).
   Lemma names are prefixed c_ . *)
From VF Require Import Base.Prelude Model.Cache Model.Session Model.Middleware Corr.WorldCorr Spec.WorldSpec.
From VF Require Import Proofs.WorldBase Proofs.ServeLemmas Proofs.SessionProofs.
From Coq Require Import ZifyBool ZifyNat ZifyN.
Open Scope N_scope.

Section Cookies.
  Variable E : env.
  Variable cfg : config.
  Notation NCE := (nchunks E).
  Notation K := (c_key cfg).

  (* ---------------------------------------------------------------- the login redirect *)

  Lemma c_emit_login now j rq rnd sd sv cs :
    emit NCE K now j sd sv cs ->
    emit NCE K now j (after_save (login_sd cfg rq rnd sd)) (login_sd cfg rq rnd sd)
         ((cs ++ save_cookies (SessionProofs.cleared sd)) ++ save_cookies (login_sd cfg rq rnd sd)).
  Proof.
    intros He. destruct rnd as [[a b] c]. unfold login_sd.
    eapply emit_again. apply emit_main.
    assert (H0 : emit NCE K now j (fst (clear sd)) (SessionProofs.cleared sd) (cs ++ save_cookies (SessionProofs.cleared sd)))
      by (apply (emit_clear_again NCE K now j sd sv cs He)).
    destruct (c_pkce cfg); repeat apply emit_main; exact H0.
  Qed.

  Lemma c_emit_login_first now j rq rnd sd :
    pre NCE K now j sd ->
    emit NCE K now j (after_save (login_sd cfg rq rnd sd)) (login_sd cfg rq rnd sd)
         (([] ++ save_cookies (SessionProofs.cleared sd)) ++ save_cookies (login_sd cfg rq rnd sd)).
  Proof.
    intros Hp. destruct rnd as [[a b] c]. unfold login_sd. cbn [app].
    eapply emit_again. apply emit_main.
    assert (H0 : emit NCE K now j (fst (clear sd)) (SessionProofs.cleared sd) (save_cookies (SessionProofs.cleared sd)))
      by (apply (emit_clear NCE K now j sd Hp)).
    destruct (c_pkce cfg); repeat apply emit_main; exact H0.
  Qed.

  (* the sessions the handlers save are derived from the loaded one by setters only *)
  Lemma c_pre_callback now j sd id rt : pre NCE K now j sd -> pre NCE K now j (callback_sd E now sd id rt).
  Proof. intros H. unfold callback_sd. repeat constructor. exact H. Qed.

  Lemma c_pre_expired now j sd : pre NCE K now j sd -> pre NCE K now j (expired_sd E sd).
  Proof. intros H. unfold expired_sd. repeat constructor. exact H. Qed.

  Lemma c_pre_refreshed now j sd id newrt : pre NCE K now j sd -> pre NCE K now j (refreshed_sd E now sd id newrt).
  Proof.
    intros H. unfold refreshed_sd. constructor.
    destruct newrt as [|p]; [destruct (get_refresh NCE sd)|]; repeat constructor; exact H.
  Qed.

  (* ---------------------------------------------------------------- every response *)

  Definition c_emits (now : time) (j : jar) (cs : list setcookie) : Prop :=
    cs = [] \/ exists sd sv, emit NCE K now j sd sv cs.

  Lemma c_initiate_first now rq rnd st calls :
    c_emits now (q_jar rq) (r_cookies (initiate cfg rq rnd st (carried cfg now rq) [] calls)).
  Proof.
    right. rewrite initiate_cookies. eexists. eexists. apply c_emit_login_first. constructor.
  Qed.

  Lemma c_initiate_after now rq rnd st sd calls :
    pre NCE K now (q_jar rq) sd ->
    c_emits now (q_jar rq) (r_cookies (initiate cfg rq rnd st (after_save sd) (save_cookies sd) calls)).
  Proof.
    intros Hp. right. rewrite initiate_cookies. eexists. eexists. eapply c_emit_login. apply emit_save, Hp.
  Qed.

  Lemma c_pa_emits_nil now rq rnd st calls :
    c_emits now (q_jar rq) (r_cookies (process_authorized E cfg rq rnd st (carried cfg now rq) [] calls)).
  Proof.
    apply pa_cases.
    - intros _. apply c_initiate_first.
    - intros m _. left. reflexivity.
    - intros _ _ _. left. reflexivity.
    - intros h cors _. left. reflexivity.
  Qed.

  Lemma c_pa_emits_after now rq rnd st sd calls :
    pre NCE K now (q_jar rq) sd ->
    c_emits now (q_jar rq) (r_cookies (process_authorized E cfg rq rnd st (after_save sd) (save_cookies sd) calls)).
  Proof.
    intros Hp. assert (Hs : c_emits now (q_jar rq) (save_cookies sd))
      by (right; eexists; eexists; apply emit_save, Hp).
    apply pa_cases.
    - intros _. apply c_initiate_after, Hp.
    - intros m _. exact Hs.
    - intros _ _ _. exact Hs.
    - intros h cors _. exact Hs.
  Qed.

  Theorem c_serve_emits st now rq rnd ans :
    c_emits now (q_jar rq) (r_cookies (snd (serve E cfg st now rq rnd ans))).
  Proof.
    destruct (i_ready st) eqn:Hready.
    2:{ unfold serve. rewrite Hready. left. reflexivity. }
    apply (serve_cases E cfg st now rq rnd ans
             (fun x => c_emits now (q_jar rq) (r_cookies (snd x))) Hready); cbn [snd].
    - intros _. left. reflexivity.
    - intros _ _. destruct (handle_logout_eq E cfg rq st (carried cfg now rq)) as [loc ->].
      right. eexists. eexists. cbn [r_cookies]. apply (emit_clear NCE K now (q_jar rq)). constructor.
    - intros _ _ _. apply cb_cases; cbn [snd]; try (intros; left; reflexivity).
      intros id rt loc _ _ _. right. eexists. eexists. cbn [r_cookies].
      apply emit_save, c_pre_callback. constructor.
    - intros _. rewrite handle_expired_eq. apply c_initiate_after, c_pre_expired. constructor.
    - intros _ _. apply c_pa_emits_nil.
    - intros _ _ st' _. unfold refresh_failed_resp. destruct (q_json rq); [left; reflexivity|].
      apply c_initiate_first.
    - intros _ _ _. unfold refresh_failed_resp. destruct (q_json rq).
      + right. eexists. eexists. cbn [r_cookies]. apply emit_save. repeat constructor.
      + apply c_initiate_after. repeat constructor.
    - intros _ _ id newrt _ _ _ _ _. apply c_pa_emits_after, c_pre_refreshed. constructor.
    - intros _. apply c_initiate_first.
  Qed.

  (* ---------------------------------------------------------------- what the monitors read from such cookies *)

  Lemma c_emit_shape now j sd sv cs :
    emit NCE K now j sd sv cs ->
    (exists before, cs = before ++ save_cookies sv
                    /\ chunks_bounded CAccChunk (length (s_achunks sv)) before
                    /\ chunks_bounded CRefChunk (length (s_rchunks sv)) before)
    /\ length (s_achunks sd) = length (s_achunks sv)
    /\ length (s_rchunks sd) = length (s_rchunks sv).
  Proof.
    intros He. induction He as [sd Hp|sd Hp|f s sd sv cs He IH|t b sd sv cs He IH|sd sv cs He IH|sd sv cs He IH].
    - split; [|split; reflexivity]. exists []. repeat split; apply chunks_bounded_nil.
    - split; [|split; reflexivity]. exists []. repeat split; apply chunks_bounded_nil.
    - exact IH.
    - exact IH.
    - destruct IH as ((before & -> & Ba & Br) & La & Lr). split; [|split; reflexivity].
      exists (before ++ save_cookies sv). split; [reflexivity|]. split.
      + apply chunks_bounded_app; [rewrite La; exact Ba|apply chunks_bounded_save_acc; lia].
      + apply chunks_bounded_app; [rewrite Lr; exact Br|apply chunks_bounded_save_ref; lia].
    - destruct IH as ((before & -> & Ba & Br) & La & Lr). split; [|split; reflexivity].
      exists (before ++ save_cookies sv). split; [reflexivity|].
      cbn [SessionProofs.cleared s_achunks s_rchunks]. rewrite !empty_payloads_length. split.
      + apply chunks_bounded_app; [rewrite La; exact Ba|apply chunks_bounded_save_acc; lia].
      + apply chunks_bounded_app; [rewrite Lr; exact Br|apply chunks_bounded_save_ref; lia].
  Qed.

  (* what the monitors take as "stored by this response" is what the last Save wrote *)
  Theorem c_emit_monitors now j sd sv r :
    emit NCE K now j sd sv (r_cookies r) ->
    emitted_id E r = Some (get_access NCE sv)
    /\ emitted_rt E r = Some (get_refresh NCE sv)
    /\ emitted_main r = Some (s_main sv).
  Proof.
    intros He. destruct (c_emit_shape _ _ _ _ _ He) as ((before & Hc & Ba & Br) & _ & _).
    split; [|split].
    - exact (emitted_id_app_save E r before sv Hc Ba).
    - exact (emitted_rt_app_save E r before sv Hc Br).
    - exact (emitted_main_app_save r before sv Hc).
  Qed.

  (* ... and what the browser's jar holds once it applied them *)
  Theorem c_emit_jar now j sd sv cs :
    contiguous K j -> emit NCE K now j sd sv cs -> holds_session K (apply_cookies K j cs) sv.
  Proof. intros Hc He. exact (proj1 (emit_holds NCE K now j sd sv cs Hc He)). Qed.

  Lemma c_holds_reads j sv now :
    holds_session K j sv -> session_too_old now (s_main sv) = false ->
    get_access NCE (load K now j) = get_access NCE sv
    /\ get_refresh NCE (load K now j) = get_refresh NCE sv
    /\ s_main (load K now j) = s_main sv.
  Proof.
    intros Hh Hold. rewrite (load_of_holds _ _ _ _ _ _ _ _ Hh Hold). repeat split; reflexivity.
  Qed.

  (* the jar stays contiguous along every step *)
  Theorem c_serve_contiguous st now rq rnd ans :
    contiguous K (q_jar rq) ->
    contiguous K (apply_cookies K (q_jar rq) (r_cookies (snd (serve E cfg st now rq rnd ans)))).
  Proof.
    intros Hc. destruct (c_serve_emits st now rq rnd ans) as [->|(sd & sv & He)]; [exact Hc|].
    exact (holds_contiguous _ _ _ _ _ _ _ (c_emit_jar _ _ _ _ _ Hc He)).
  Qed.

End Cookies.
