(* Proofs about Model/Jwt.v against Spec/JwtSpec.v (property C02). *)
From VF Require Import Base.Prelude Model.Jwt Spec.JwtSpec.
From Coq Require Import ZifyBool ZifyNat ZifyN.
Open Scope Z_scope.

(* the behaviour switches and tolerances of the repaired code; the replay
   switch and the platform's out-of-range conversion values are irrelevant *)
Definition repaired (im : impl) : bool :=
  ec_len_checked im && time_saturates im && nbf_type_checked im
  && Z.eqb (skew_future im) spec_skew_future && Z.eqb (skew_past im) spec_skew_past.

Lemma repaired_fields im : repaired im = true ->
  ec_len_checked im = true /\ time_saturates im = true /\ nbf_type_checked im = true
  /\ skew_future im = 120000000000 /\ skew_past im = 10000000000.
Proof.
  unfold repaired, spec_skew_future, spec_skew_past. intros H.
  repeat (apply andb_prop in H; destruct H as [H ?]).
  repeat split; try assumption; apply Z.eqb_eq; assumption.
Qed.

(* ------------------------------------------------------------ time claims *)

Lemma clamp62_cases v :
  (two62 <= v /\ clamp62 v = two62) \/ (v <= - two62 /\ clamp62 v = - two62)
  \/ (- two62 < v < two62 /\ clamp62 v = v).
Proof.
  unfold clamp62.
  destruct (Z.leb_spec two62 v) as [H1|H1]; [left; split; [exact H1|reflexivity]|].
  destruct (Z.leb_spec v (- two62)) as [H2|H2]; [right; left; split; [exact H2|reflexivity]|].
  right; right. split; [split; assumption|reflexivity].
Qed.

Lemma exp_ok_spec im now v : repaired im = true -> sane_now now ->
  exp_ok im now v = Z.leb (now - spec_skew_future) (v * ns_per_s).
Proof.
  intros Hr Hn. apply repaired_fields in Hr. destruct Hr as (_ & Hs & _ & Hf & _).
  unfold exp_ok, claim_sec. rewrite Hs, Hf.
  unfold sane_now, two61 in Hn. unfold spec_skew_future, ns_per_s in *.
  destruct (clamp62_cases v) as [[Hv ->]|[[Hv ->]|[Hv ->]]]; unfold two62 in *; lia.
Qed.

Lemma past_ok_spec im now v : repaired im = true -> sane_now now ->
  past_ok im now v = Z.leb (v * ns_per_s) (now + spec_skew_past).
Proof.
  intros Hr Hn. apply repaired_fields in Hr. destruct Hr as (_ & Hs & _ & _ & Hp).
  unfold past_ok, claim_sec. rewrite Hs, Hp.
  unfold sane_now, two61 in Hn. unfold spec_skew_past, ns_per_s in *.
  destruct (clamp62_cases v) as [[Hv ->]|[[Hv ->]|[Hv ->]]]; unfold two62 in *; lia.
Qed.

(* ------------------------------------------------- the ladder as a conjunction *)

Definition sig_part (im : impl) (jw : list jwk) (t : token) : bool :=
  match t_kid t, t_alg t with
  | Some kid, Some a =>
      match find_key kid jw with
      | Some k => jwk_to_pem_ok k && verify_signature im k a (t_sig t)
      | None => false
      end
  | _, _ => false
  end.

Definition claims_part (im : impl) (cfg : config) (now : time) (t : token) : bool :=
  iss_is cfg t && aud_ok (c_client cfg) (t_aud t) && exp_claim_ok im now (t_exp t)
  && iat_claim_ok im now (t_iat t) && nbf_claim_ok im now (t_nbf t) && sub_ok (t_sub t).

Lemma verify_signature_supported im k a s : verify_signature im k a s = true -> supported_alg a = true.
Proof. destruct a; cbn; congruence. Qed.

Lemma replay_step_nil im j : fst (replay_step im [] j) = true.
Proof. unfold replay_step. destruct j; [destruct (has_replay_step im)|]; reflexivity. Qed.

Lemma claims_verify_nil im cfg now a t : supported_alg a = true ->
  fst (claims_verify im cfg now [] a t) = claims_part im cfg now t.
Proof.
  intros Ha. unfold claims_verify, claims_part, iss_is. rewrite Ha. cbn [negb].
  destruct (match t_iss t with Some i => N.eqb i (c_issuer cfg) | None => false end); [|reflexivity].
  destruct (aud_ok (c_client cfg) (t_aud t)); [|reflexivity].
  destruct (exp_claim_ok im now (t_exp t)); [|reflexivity].
  destruct (iat_claim_ok im now (t_iat t)); [|reflexivity].
  destruct (nbf_claim_ok im now (t_nbf t)); [|reflexivity].
  cbn [negb andb].
  pose proof (replay_step_nil im (t_jti t)) as Hrs.
  destruct (replay_step im [] (t_jti t)) as [fresh seen']. cbn [fst] in Hrs. subst fresh.
  reflexivity.
Qed.

Lemma accept_conj im cfg jw now t :
  accept im cfg jw now t = parse_ok t && sig_part im jw t && claims_part im cfg now t.
Proof.
  unfold accept, verify. destruct (parse_ok t); [|reflexivity]. cbn [andb].
  unfold verify_sig_and_claims, sig_part.
  destruct (t_kid t) as [kid|]; [|reflexivity].
  destruct (t_alg t) as [a|]; [|reflexivity].
  destruct (find_key kid jw) as [k|]; [|reflexivity].
  destruct (jwk_to_pem_ok k); [|reflexivity]. cbn [negb andb].
  destruct (verify_signature im k a (t_sig t)) eqn:Ev; [|reflexivity]. cbn [negb andb].
  apply claims_verify_nil. exact (verify_signature_supported _ _ _ _ Ev).
Qed.

(* signature part: the repaired code's checks are the strict reading *)
Lemma sig_part_spec im jw t : ec_len_checked im = true -> sig_part im jw t = spec_sig jw t.
Proof.
  intros Hl. unfold sig_part, spec_sig.
  destruct (t_kid t) as [kid|]; [|destruct (t_alg t) as [[]|]; reflexivity].
  destruct (t_alg t) as [a|]; [|reflexivity].
  destruct a as [f h| |h|i]; try (destruct (find_key kid jw) as [k|]; [|reflexivity];
    unfold verify_signature; apply andb_false_r).
  destruct (find_key kid jw) as [k|]; [|reflexivity].
  unfold jwk_to_pem_ok, verify_signature, family_matches, sig_genuine, rsa_form_ok, ec_form_ok.
  rewrite Hl.
  destruct (k_kty k), (k_pem_ok k), f, (s_form (t_sig t)); cbn [negb andb]; reflexivity.
Qed.

Lemma claims_part_spec im cfg now t : repaired im = true -> sane_now now ->
  claims_part im cfg now t =
  iss_is cfg t && aud_has cfg t && exp_in_time now t && iat_in_time now t && nbf_in_time now t
  && sub_nonempty t.
Proof.
  intros Hr Hn. unfold claims_part.
  replace (aud_ok (c_client cfg) (t_aud t)) with (aud_has cfg t)
    by (unfold aud_has, aud_ok; destruct (t_aud t); reflexivity).
  replace (exp_claim_ok im now (t_exp t)) with (exp_in_time now t)
    by (unfold exp_in_time, exp_claim_ok; destruct (t_exp t); try reflexivity;
        symmetry; apply exp_ok_spec; assumption).
  replace (iat_claim_ok im now (t_iat t)) with (iat_in_time now t)
    by (unfold iat_in_time, iat_claim_ok; destruct (t_iat t); try reflexivity;
        symmetry; apply past_ok_spec; assumption).
  replace (nbf_claim_ok im now (t_nbf t)) with (nbf_in_time now t).
  - reflexivity.
  - unfold nbf_in_time, nbf_claim_ok. destruct (t_nbf t); try reflexivity.
    + apply repaired_fields in Hr. destruct Hr as (_ & _ & Hb & _). rewrite Hb. reflexivity.
    + symmetry; apply past_ok_spec; assumption.
Qed.

(* ------------------------------------------------------------ main theorem *)

Theorem accept_spec im : repaired im = true ->
  forall cfg jw now t, sane_now now -> accept im cfg jw now t = spec cfg jw now t.
Proof.
  intros Hr cfg jw now t Hn.
  rewrite accept_conj. unfold spec.
  rewrite (claims_part_spec im cfg now t Hr Hn).
  rewrite (sig_part_spec im jw t) by (apply repaired_fields in Hr; tauto).
  unfold parse_ok, well_formed.
  rewrite <- !andb_assoc. reflexivity.
Qed.

Lemma repaired_impl_repaired : repaired repaired_impl = true.
Proof. vm_compute. reflexivity. Qed.

Theorem accept_repaired_spec cfg jw now t : sane_now now ->
  accept_repaired cfg jw now t = spec cfg jw now t.
Proof. apply accept_spec, repaired_impl_repaired. Qed.

(* as an "if and only if" *)
Theorem accept_iff im cfg jw now t : repaired im = true -> sane_now now ->
  (accept im cfg jw now t = true <-> spec cfg jw now t = true).
Proof. intros Hr Hn. rewrite (accept_spec im Hr cfg jw now t Hn). tauto. Qed.

(* first presentation: with a replay map that does not hold the token's jti the
   verdict is the one of the empty map, and VerifyToken on a fresh instance is
   the ladder *)
Definition jti_fresh (seen : list N) (t : token) : bool :=
  match t_jti t with Some j => negb (memk j seen) | None => true end.

Lemma replay_step_fresh im seen t : jti_fresh seen t = true -> fst (replay_step im seen (t_jti t)) = true.
Proof.
  unfold jti_fresh, replay_step. destruct (t_jti t) as [j|]; [|reflexivity].
  destruct (has_replay_step im); [|reflexivity]. destruct (memk j seen); [discriminate|reflexivity].
Qed.

Theorem first_presentation im cfg jw now seen t : jti_fresh seen t = true ->
  fst (verify im cfg jw now seen t) = accept im cfg jw now t.
Proof.
  intros Hf. unfold accept, verify. destruct (parse_ok t); [|reflexivity].
  unfold verify_sig_and_claims.
  destruct (t_kid t) as [kid|]; [|reflexivity].
  destruct (t_alg t) as [a|]; [|reflexivity].
  destruct (find_key kid jw) as [k|]; [|reflexivity].
  destruct (negb (jwk_to_pem_ok k)); [reflexivity|].
  destruct (negb (verify_signature im k a (t_sig t))); [reflexivity|].
  unfold claims_verify.
  destruct (negb (supported_alg a)); [reflexivity|].
  destruct (negb _); [reflexivity|].
  destruct (negb (aud_ok _ _)); [reflexivity|].
  destruct (negb (exp_claim_ok _ _ _)); [reflexivity|].
  destruct (negb (iat_claim_ok _ _ _)); [reflexivity|].
  destruct (negb (nbf_claim_ok _ _ _)); [reflexivity|].
  pose proof (replay_step_fresh im seen t Hf) as H1.
  pose proof (replay_step_nil im (t_jti t)) as H2.
  destruct (replay_step im seen (t_jti t)) as [f1 s1].
  destruct (replay_step im [] (t_jti t)) as [f2 s2].
  cbn [fst] in H1, H2. subst f1 f2. reflexivity.
Qed.

Theorem verify_token_fresh_is_accept im cfg jw now t :
  verify_token_fresh im cfg jw now t = accept im cfg jw now t.
Proof. reflexivity. Qed.

(* ------------------------------------------------------------- corollaries
   The rejections below hold for EVERY value of the measured switches (pinned
   and repaired code alike) and every instant. *)

Lemma accept_true_parts im cfg jw now t : accept im cfg jw now t = true ->
  parse_ok t = true /\ sig_part im jw t = true /\ claims_part im cfg now t = true.
Proof.
  rewrite accept_conj. intros H. apply andb_prop in H. destruct H as [H H3].
  apply andb_prop in H. tauto.
Qed.

Lemma not_true_false b : (b = true -> False) -> b = false.
Proof. destruct b; [intros H; exfalso; apply H; reflexivity|reflexivity]. Qed.

(* any alg value other than the nine names: "none", "HS256", case variants, ... *)
Theorem alg_not_named_rejected im cfg jw now t :
  (forall f h, t_alg t <> Some (AStd f h)) -> accept im cfg jw now t = false.
Proof.
  intros Ha. apply not_true_false. intros H. apply accept_true_parts in H. destruct H as (_ & Hs & _).
  unfold sig_part in Hs. destruct (t_kid t) as [kid|]; [|discriminate].
  destruct (t_alg t) as [a|]; [|discriminate].
  destruct (find_key kid jw) as [k|]; [|discriminate].
  apply andb_prop in Hs. destruct Hs as [_ Hs].
  destruct a as [f h| | |]; try (cbn in Hs; discriminate). exact (Ha f h eq_refl).
Qed.

Theorem alg_none_rejected im cfg jw now t : t_alg t = Some ANone -> accept im cfg jw now t = false.
Proof. intros E. apply alg_not_named_rejected. intros f h. rewrite E. discriminate. Qed.

Theorem hs_rejected im cfg jw now t h : t_alg t = Some (AHS h) -> accept im cfg jw now t = false.
Proof. intros E. apply alg_not_named_rejected. intros f h'. rewrite E. discriminate. Qed.

Theorem alg_missing_rejected im cfg jw now t : t_alg t = None -> accept im cfg jw now t = false.
Proof. intros E. apply alg_not_named_rejected. intros f h. rewrite E. discriminate. Qed.

(* key-type confusion: RS/PS with an EC key, ES with an RSA key, any alg with another key type *)
Definition family_of_key (k : jwk) (f : algfam) : bool :=
  match k_kty k, f with KRSA, FRS | KRSA, FPS | KEC, FES => true | _, _ => false end.

Theorem family_confusion_rejected im cfg jw now t f h kid k :
  t_alg t = Some (AStd f h) -> t_kid t = Some kid -> find_key kid jw = Some k ->
  family_of_key k f = false -> accept im cfg jw now t = false.
Proof.
  intros Ea Ek Ef Hf. apply not_true_false. intros H. apply accept_true_parts in H.
  destruct H as (_ & Hs & _). unfold sig_part in Hs. rewrite Ek, Ea, Ef in Hs.
  apply andb_prop in Hs. destruct Hs as [_ Hs]. unfold verify_signature, family_of_key in *.
  destruct (k_kty k), f; discriminate.
Qed.

Theorem unknown_kid_rejected im cfg jw now t kid :
  t_kid t = Some kid -> find_key kid jw = None -> accept im cfg jw now t = false.
Proof.
  intros Ek Ef. apply not_true_false. intros H. apply accept_true_parts in H.
  destruct H as (_ & Hs & _). unfold sig_part in Hs. rewrite Ek, Ef in Hs.
  destruct (t_alg t); discriminate.
Qed.

Theorem missing_kid_rejected im cfg jw now t : t_kid t = None -> accept im cfg jw now t = false.
Proof.
  intros Ek. apply not_true_false. intros H. apply accept_true_parts in H.
  destruct H as (_ & Hs & _). unfold sig_part in Hs. rewrite Ek in Hs. discriminate.
Qed.

(* the key chosen is the FIRST one carrying the kid, and the signature must be
   this key's: a signature by any other key material is rejected *)
Theorem other_key_rejected im cfg jw now t kid k :
  t_kid t = Some kid -> find_key kid jw = Some k -> k_mat k <> s_mat (t_sig t) ->
  accept im cfg jw now t = false.
Proof.
  intros Ek Ef Hm. apply not_true_false. intros H. apply accept_true_parts in H.
  destruct H as (_ & Hs & _). unfold sig_part in Hs. rewrite Ek, Ef in Hs.
  destruct (t_alg t) as [a|]; [|discriminate].
  apply andb_prop in Hs. destruct Hs as [_ Hs]. unfold verify_signature, sig_matches in Hs.
  apply N.eqb_neq in Hm.
  destruct a as [f h| | |]; try discriminate.
  destruct (k_kty k), f; try discriminate; rewrite Hm, ?andb_false_r in Hs; discriminate.
Qed.

(* any change to the header or payload text after signing *)
Theorem changed_text_rejected im cfg jw now t :
  s_input_ok (t_sig t) = false -> accept im cfg jw now t = false.
Proof.
  intros Hi. apply not_true_false. intros H. apply accept_true_parts in H.
  destruct H as (_ & Hs & _). unfold sig_part in Hs.
  destruct (t_kid t) as [kid|]; [|discriminate].
  destruct (t_alg t) as [a|]; [|discriminate].
  destruct (find_key kid jw) as [k|]; [|discriminate].
  apply andb_prop in Hs. destruct Hs as [_ Hs]. unfold verify_signature, sig_matches in Hs.
  destruct a as [f h| | |]; try discriminate.
  destruct (k_kty k), f; try discriminate; rewrite Hi, ?andb_false_r in Hs; discriminate.
Qed.

(* a signature made with another scheme than the one the header names
   (RS <-> PS, another hash size, HMAC keyed with the public key, ...) *)
Theorem other_scheme_rejected im cfg jw now t a :
  t_alg t = Some a -> alg_eqb a (s_alg (t_sig t)) = false -> accept im cfg jw now t = false.
Proof.
  intros Ea Hne. apply not_true_false. intros H. apply accept_true_parts in H.
  destruct H as (_ & Hs & _). unfold sig_part in Hs. rewrite Ea in Hs.
  destruct (t_kid t) as [kid|]; [|discriminate].
  destruct (find_key kid jw) as [k|]; [|discriminate].
  apply andb_prop in Hs. destruct Hs as [_ Hs]. unfold verify_signature, sig_matches in Hs.
  destruct a as [f h| | |]; try discriminate.
  destruct (k_kty k), f; try discriminate; rewrite Hne, ?andb_false_r in Hs; discriminate.
Qed.

(* any change to the decoded signature value (repaired code: including
   re-encodings of the same integers) *)
Theorem changed_signature_rejected im cfg jw now t :
  ec_len_checked im = true -> s_form (t_sig t) <> SCanon -> accept im cfg jw now t = false.
Proof.
  intros Hl Hf. apply not_true_false. intros H. apply accept_true_parts in H.
  destruct H as (_ & Hs & _). unfold sig_part in Hs.
  destruct (t_kid t) as [kid|]; [|discriminate].
  destruct (t_alg t) as [a|]; [|discriminate].
  destruct (find_key kid jw) as [k|]; [|discriminate].
  apply andb_prop in Hs. destruct Hs as [_ Hs].
  unfold verify_signature, rsa_form_ok, ec_form_ok in Hs. rewrite Hl in Hs.
  destruct a as [f h| | |]; try discriminate.
  destruct (k_kty k), f, (s_form (t_sig t)); try discriminate; apply Hf; reflexivity.
Qed.

(* garbage, empty and odd-length signatures are rejected by the pinned code too *)
Theorem bad_signature_rejected im cfg jw now t :
  (s_form (t_sig t) = SGarbage \/ s_form (t_sig t) = SEmpty \/ s_form (t_sig t) = SOddLen) ->
  accept im cfg jw now t = false.
Proof.
  intros Hf. apply not_true_false. intros H. apply accept_true_parts in H.
  destruct H as (_ & Hs & _). unfold sig_part in Hs.
  destruct (t_kid t) as [kid|]; [|discriminate].
  destruct (t_alg t) as [a|]; [|discriminate].
  destruct (find_key kid jw) as [k|]; [|discriminate].
  apply andb_prop in Hs. destruct Hs as [_ Hs].
  unfold verify_signature, rsa_form_ok, ec_form_ok in Hs.
  destruct a as [f h| | |]; try discriminate.
  destruct (k_kty k), f; try discriminate;
    destruct Hf as [E|[E|E]]; rewrite E in Hs; discriminate.
Qed.

(* wrong claim types (and absent claims) *)
Definition wrong_claim_type (t : token) : bool :=
  match t_iss t with None => true | Some _ => false end
  || match t_aud t with AudOther | AudAbsent => true | _ => false end
  || match t_exp t with Num _ => false | _ => true end
  || match t_iat t with Num _ => false | _ => true end
  || match t_sub t with SubStr _ => false | _ => true end.

Theorem wrong_claim_type_rejected im cfg jw now t :
  wrong_claim_type t = true -> accept im cfg jw now t = false.
Proof.
  intros Hw. apply not_true_false. intros H. apply accept_true_parts in H.
  destruct H as (_ & _ & Hc). unfold claims_part, iss_is, exp_claim_ok, iat_claim_ok, sub_ok in Hc.
  unfold wrong_claim_type in Hw.
  destruct (t_iss t); [|discriminate]. cbn [orb] in Hw.
  destruct (t_aud t); try (rewrite ?andb_false_r in Hc; cbn in Hc; discriminate);
  (destruct (t_exp t); [rewrite ?andb_false_r in Hc; discriminate|rewrite ?andb_false_r in Hc; discriminate|]);
  (destruct (t_iat t); [rewrite ?andb_false_r in Hc; discriminate|rewrite ?andb_false_r in Hc; discriminate|]);
  (destruct (t_sub t); [rewrite ?andb_false_r in Hc; discriminate|rewrite ?andb_false_r in Hc; discriminate|]);
  cbn in Hw; discriminate.
Qed.

Theorem nbf_wrong_type_rejected im cfg jw now t :
  nbf_type_checked im = true -> t_nbf t = NumOther -> accept im cfg jw now t = false.
Proof.
  intros Hb En. apply not_true_false. intros H. apply accept_true_parts in H.
  destruct H as (_ & _ & Hc). unfold claims_part, nbf_claim_ok in Hc. rewrite En, Hb in Hc.
  cbn [negb] in Hc. rewrite ?andb_false_r in Hc. discriminate.
Qed.

Theorem empty_sub_rejected im cfg jw now t : t_sub t = SubStr false -> accept im cfg jw now t = false.
Proof.
  intros Es. apply not_true_false. intros H. apply accept_true_parts in H.
  destruct H as (_ & _ & Hc). unfold claims_part, sub_ok in Hc. rewrite Es in Hc.
  rewrite ?andb_false_r in Hc. discriminate.
Qed.

Theorem wrong_issuer_rejected im cfg jw now t i :
  t_iss t = Some i -> i <> c_issuer cfg -> accept im cfg jw now t = false.
Proof.
  intros Ei Hne. apply not_true_false. intros H. apply accept_true_parts in H.
  destruct H as (_ & _ & Hc). unfold claims_part, iss_is in Hc. rewrite Ei in Hc.
  apply N.eqb_neq in Hne. rewrite Hne in Hc. discriminate.
Qed.

(* malformed structure *)
Theorem malformed_rejected im cfg jw now t : parse_ok t = false -> accept im cfg jw now t = false.
Proof. intros Hp. rewrite accept_conj, Hp. reflexivity. Qed.

(* ---------------------------------------------------- tolerance boundaries
   exact to the nanosecond: Go rejects when now.After(exp + 120 s), i.e. the
   last accepted instant is exp + 120 s itself; it rejects when
   now.Before(iat - 10 s), i.e. the first accepted instant is iat - 10 s. *)

Lemma clamp62_id v : - two62 < v < two62 -> clamp62 v = v.
Proof. intros H. destruct (clamp62_cases v) as [[Hv _]|[[Hv _]|[_ E]]]; [lia|lia|exact E]. Qed.

Theorem exp_boundary im e : repaired im = true -> - two62 < e < two62 ->
  exp_ok im (e * ns_per_s + 120000000000) e = true
  /\ exp_ok im (e * ns_per_s + 120000000000 + 1) e = false.
Proof.
  intros Hr He. apply repaired_fields in Hr. destruct Hr as (_ & Hs & _ & Hf & _).
  unfold exp_ok, claim_sec. rewrite Hs, Hf, (clamp62_id e He). unfold ns_per_s. split; lia.
Qed.

Theorem past_boundary im i : repaired im = true -> - two62 < i < two62 ->
  past_ok im (i * ns_per_s - 10000000000) i = true
  /\ past_ok im (i * ns_per_s - 10000000000 - 1) i = false.
Proof.
  intros Hr Hi. apply repaired_fields in Hr. destruct Hr as (_ & Hs & _ & _ & Hp).
  unfold past_ok, claim_sec. rewrite Hs, Hp, (clamp62_id i Hi). unfold ns_per_s. split; lia.
Qed.

(* the same boundaries read on whole tokens: a token that is otherwise
   acceptable flips exactly there *)
Definition with_times (t : token) (e i : Z) (n : numshape) : token :=
  mkTok (t_parts3 t) (t_hdr_ok t) (t_claims_ok t) (t_sig_b64_ok t) (t_alg t) (t_kid t) (t_sig t)
        (t_iss t) (t_aud t) (Num e) (Num i) n (t_jti t) (t_sub t).

Theorem exp_boundary_token im cfg jw t e i : repaired im = true ->
  - two62 < e < two62 -> i <= e ->
  accept im cfg jw (e * ns_per_s) (with_times t e i NumAbsent) = true ->
  accept im cfg jw (e * ns_per_s + 120000000000) (with_times t e i NumAbsent) = true
  /\ accept im cfg jw (e * ns_per_s + 120000000000 + 1) (with_times t e i NumAbsent) = false.
Proof.
  intros Hr He Hie Hacc.
  destruct (exp_boundary im e Hr He) as [Hb1 Hb2].
  rewrite accept_conj in Hacc. rewrite !accept_conj.
  apply andb_prop in Hacc. destruct Hacc as [Hps Hc]. rewrite Hps. cbn [andb].
  unfold claims_part in *. cbn [with_times t_iss t_aud t_exp t_iat t_nbf t_sub iss_is exp_claim_ok
    iat_claim_ok nbf_claim_ok] in *.
  repeat (apply andb_prop in Hc; destruct Hc as [Hc ?]).
  pose proof (repaired_fields im Hr) as (_ & Hs & _ & _ & Hp).
  assert (Hpast : forall d, 0 <= d -> past_ok im (e * ns_per_s + d) i = true).
  { intros d Hd. unfold past_ok, claim_sec in *. rewrite Hs, Hp in *.
    destruct (clamp62_cases i) as [[Hv E]|[[Hv E]|[Hv E]]]; rewrite E in *; unfold ns_per_s, two62 in *; lia. }
  split.
  - unfold iss_is in *. cbn [with_times t_iss] in *.
    rewrite Hc, Hb1, (Hpast 120000000000) by lia.
    match goal with H : aud_ok _ _ = true |- _ => rewrite H end.
    match goal with H : sub_ok _ = true |- _ => rewrite H end. reflexivity.
  - rewrite Hb2. rewrite ?andb_false_r. reflexivity.
Qed.

(* ------------------------------------------- the pinned code refutes the iff *)

Definition ex_cfg : config := mkCfg 1 2.
Definition ex_jwks : list jwk := [mkJwk 10 100 KRSA true; mkJwk 11 101 KEC true].
Definition ex_now : time := 1790000000 * ns_per_s.
Definition ex_tok (a : algname) (kid mat : N) (form : sigform) (iat nbf : numshape) : token :=
  mkTok true true true true (Some a) (Some kid) (mkSig mat a true form)
        (Some 1%N) (AudStr 2%N) (Num 1790000300) iat nbf None (SubStr true).

(* F2: ES256 signature re-encoded as 0||r||0||s *)
Theorem refuted_pinned_padded : exists cfg jw now t,
  accept_pinned cfg jw now t = true /\ spec cfg jw now t = false.
Proof.
  exists ex_cfg, ex_jwks, ex_now, (ex_tok (AStd FES H256) 11 101 SPadded (Num 1789999990) NumAbsent).
  vm_compute. split; reflexivity.
Qed.

(* F2 (second form): the leading zero byte of each half stripped *)
Theorem refuted_pinned_stripped : exists cfg jw now t,
  accept_pinned cfg jw now t = true /\ spec cfg jw now t = false.
Proof.
  exists ex_cfg, ex_jwks, ex_now, (ex_tok (AStd FES H512) 11 101 SStripped (Num 1789999990) NumAbsent).
  vm_compute. split; reflexivity.
Qed.

(* F2b: "iat": 1e30 — int64() of an out-of-range float is the minimum int64 on amd64 *)
Theorem refuted_pinned_huge_iat : exists cfg jw now t,
  accept_pinned cfg jw now t = true /\ spec cfg jw now t = false.
Proof.
  exists ex_cfg, ex_jwks, ex_now,
    (ex_tok (AStd FRS H256) 10 100 SCanon (Num 1000000000000000019884624838656) NumAbsent).
  vm_compute. split; reflexivity.
Qed.

(* F2b, other direction: "exp": 1e30 is in time but rejected *)
Theorem refuted_pinned_huge_exp : exists cfg jw now t,
  accept_pinned cfg jw now t = false /\ spec cfg jw now t = true.
Proof.
  exists ex_cfg, ex_jwks, ex_now,
    (with_times (ex_tok (AStd FRS H256) 10 100 SCanon NumAbsent NumAbsent)
                1000000000000000019884624838656 1789999990 NumAbsent).
  vm_compute. split; reflexivity.
Qed.

(* F2c: a present, non-numeric nbf is skipped *)
Theorem refuted_pinned_nbf_type : exists cfg jw now t,
  accept_pinned cfg jw now t = true /\ spec cfg jw now t = false.
Proof.
  exists ex_cfg, ex_jwks, ex_now, (ex_tok (AStd FPS H384) 10 100 SCanon (Num 1789999990) NumOther).
  vm_compute. split; reflexivity.
Qed.

(* the same tokens on the repaired code *)
Theorem repaired_rejects_witnesses :
  accept_repaired ex_cfg ex_jwks ex_now (ex_tok (AStd FES H256) 11 101 SPadded (Num 1789999990) NumAbsent) = false
  /\ accept_repaired ex_cfg ex_jwks ex_now (ex_tok (AStd FES H512) 11 101 SStripped (Num 1789999990) NumAbsent) = false
  /\ accept_repaired ex_cfg ex_jwks ex_now
       (ex_tok (AStd FRS H256) 10 100 SCanon (Num 1000000000000000019884624838656) NumAbsent) = false
  /\ accept_repaired ex_cfg ex_jwks ex_now (ex_tok (AStd FPS H384) 10 100 SCanon (Num 1789999990) NumOther) = false.
Proof. vm_compute. repeat split. Qed.
