(* Premises shared by the theorems about Model/Middleware.serve, and the core
   facts about VerifyToken (property C14's kernel) they rest on.

   env_ok   : what the environment tables must satisfy to denote real strings
              and tokens (every clause is checked on each generated case by
              Corr/WorldCorr.env_check, so a case whose tables violate them is
              reported, not silently used)
   cfg_ok   : configuration sanity
   inst_ok  : invariant of the instance state (verification cache): every
              cached token was accepted when it was cached and is cached no
              longer than its own expiry.  It holds for a fresh instance and is
              preserved by every step (inst_ok_serve), so it holds along every
              history with non-decreasing instants. *)
From VF Require Import Base.Prelude Model.Cache Model.Session Model.Middleware Corr.WorldCorr Spec.WorldSpec.
From VF Require Import Proofs.CacheProofs.
From Coq Require Import ZifyBool ZifyNat ZifyN.
Open Scope N_scope.

Record env_ok (E : env) : Prop := mkEnvOk {
  eo_empty : tok E 0 = no_token;                       (* the empty string is not a token *)
  eo_chunks : forall t, (1 <= nchunks E t)%nat;         (* compressToken never yields "" *)
  eo_claims : forall t, ti_static (tok E t) = true -> ti_claims (tok E t) = true;
  eo_slash : bytes_of E slash = [47];
  eo_redir : forall u, local_path E u = true ->         (* net/http.Redirect keeps a local path local *)
                       same_origin_path (bytes_of E (redir E u)) = true;
}.

Record cfg_ok (cfg : config) : Prop := mkCfgOk {
  co_templates : forall n, In n (c_templates cfg) -> n < 900;
  co_grace : (0 <= c_grace cfg)%Z;
}.

(* a verification-cache entry for token t *)
Definition entry_sound (E : env) (now : time) (t : key) (e : entry) : Prop :=
  let ti := tok E t in
  ti_static ti = true
  /\ ((ti_iat ti - skew_past_s) * sec <= now)%Z
  /\ (match ti_nbf ti with Some n => ((n - skew_past_s) * sec <= now)%Z | None => True end)
  /\ (e_exp e <= ti_exp ti * sec)%Z.

Definition inst_ok (E : env) (st : inst) (now : time) : Prop :=
  forall t e, lookup t (items (i_tcache st)) = Some e -> entry_sound E now t e.

(* the token and its jti are not on the instance's blacklist: what "first
   presentation" means for VerifyToken *)
Definition fresh_for (E : env) (st : inst) (t : istr) : Prop :=
  lookup t (items (i_black st)) = None
  /\ (ti_jti (tok E t) = 0 \/ lookup (ti_jti (tok E t)) (items (i_black st)) = None).

Definition fresh_inst (ready : bool) (a e : istr) : inst :=
  mkInst ready a e (empty default_capacity) (empty default_capacity).

Lemma inst_ok_fresh E ready a e now : inst_ok E (fresh_inst ready a e) now.
Proof. intros t en H. discriminate. Qed.

Lemma fresh_for_fresh E ready a e t : fresh_for E (fresh_inst ready a e) t.
Proof. split; [reflexivity|right; reflexivity]. Qed.
