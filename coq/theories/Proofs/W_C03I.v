(* The login-redirect monitor c03_init_step holds of every response of serve
   (corollary of W_C03.c03_serve_initiation). *)
From VF Require Import Base.Prelude Model.Cache Model.Session Model.Middleware Corr.WorldCorr Spec.WorldSpec.
From VF Require Import Proofs.WorldBase Proofs.ServeLemmas Proofs.W_C03.
Open Scope N_scope.

Theorem c03_init_serve (E : env) (cfg : config) (st : inst) (now : time) (rq : request)
                       (rnd : istr * istr * istr) (ans : option answer) :
  c03_init_step (snd (serve E cfg st now rq rnd ans)) = true.
Proof.
  destruct (i_ready st) eqn:Hready.
  2:{ unfold serve. rewrite Hready. reflexivity. }
  unfold c03_init_step.
  destruct (r_loc (snd (serve E cfg st now rq rnd ans))) as [[b s n c sc h| | | |]|] eqn:El; try reflexivity.
  destruct (c03_serve_initiation E cfg st now rq rnd ans Hready b s n c sc h El)
    as (_ & _ & _ & Hst & p & Hp & H3 & H4 & H5 & H1).
  rewrite Hst, Hp, H3, H4, H5, H1, !N.eqb_refl. reflexivity.
Qed.
