(* Property C07 — tokens survive the cookie round trip, end to end.
   Along every honest-browser history of the model (logins, refreshes with
   tokens of any chunk counts, failed refreshes, logouts, re-logins), what the
   next request reads back as ID token and refresh token is what the last
   response WROTE: the provider's tokens after a callback / refresh
   (Spec/WorldSpec.written_by), nothing after a response that cleared them.

   Premise: no request carries a session past the 24 h absolute timeout
   (`no_timeout`): GetSession drops every value of such a session, so the stored
   tokens are — by design — not read back (C07_needs_no_timeout). *)
From VF Require Import Base.Prelude Model.Cache Model.Session Model.Middleware Model.World Corr.WorldCorr Spec.WorldSpec.
From VF Require Import Proofs.WorldBase Proofs.ServeLemmas Proofs.SessionProofs Proofs.W_Cookies Proofs.W_C15.
From Coq Require Import ZifyBool ZifyNat ZifyN.
Open Scope N_scope.

Definition tk (i : istr) : tval := if N.eqb i 0 then TEmpty else TTok i.

(* the request does not carry a session past the absolute timeout *)
Definition within_limit (k : N) (s : wstep) : bool :=
  negb (session_too_old (w_now s) (fst (get_session k CMain (q_jar (w_rq s))))).

Definition no_timeout (cfg : config) (l : list wstep) : bool := forallb (within_limit (c_key cfg)) l.

Section C07.
  Variable E : env.
  Variable cfg : config.
  Hypothesis HE : env_ok E.
  Notation NCE := (nchunks E).
  Notation K := (c_key cfg).

  Let Hpos : forall t, (1 <= NCE t)%nat := eo_chunks E HE.

  (* ---------------------------------------------------------------- what the saved sessions hold *)

  Lemma c_callback_sd_auth now sd id rt : get_bool 1 (s_main (callback_sd E now sd id rt)) = true.
  Proof.
    unfold callback_sd. rewrite !main_set_main, main_set_refresh, main_set_access, main_set_main.
    rewrite !get_bool_set_str. cbn [N.eqb Pos.eqb]. unfold set_authenticated. cbn [s_main].
    apply get_bool_setf_same.
  Qed.

  Lemma c_callback_sd_refresh now sd id rt : get_refresh NCE (callback_sd E now sd id rt) = tk rt.
  Proof.
    unfold callback_sd. rewrite !get_refresh_set_main.
    apply SessionProofs.get_refresh_set_refresh, Hpos.
  Qed.

  Lemma c_refreshed_sd_auth now sd id newrt : get_bool 1 (s_main (refreshed_sd E now sd id newrt)) = true.
  Proof. unfold refreshed_sd, set_authenticated. cbn [s_main]. apply get_bool_setf_same. Qed.

  Lemma c_refreshed_sd_refresh now sd id newrt :
    get_refresh NCE (refreshed_sd E now sd id newrt)
    = if N.eqb newrt 0 then get_refresh NCE sd else TTok newrt.
  Proof.
    unfold refreshed_sd. rewrite get_refresh_set_auth. destruct newrt as [|p].
    - cbn [N.eqb]. destruct (get_refresh NCE sd) as [|o|] eqn:Er.
      + rewrite (get_refresh_set_access NCE), get_refresh_set_main. exact Er.
      + rewrite (SessionProofs.get_refresh_set_refresh NCE o _ (Hpos o)).
        pose proof (read_token_tok NCE _ _ _ Er) as Ho. destruct (N.eqb_spec o 0); [contradiction|reflexivity].
      + rewrite (get_refresh_set_access NCE), get_refresh_set_main. exact Er.
    - rewrite (SessionProofs.get_refresh_set_refresh NCE (N.pos p) _ (Hpos _)). reflexivity.
  Qed.

  (* ---------------------------------------------------------------- the outcome of one step *)

  Section Step.
    Variable now : time.
    Variable rq : request.
    Variable rnd : istr * istr * istr.
    Variable ans : option answer.

    Definition c_step_of (r : response) : wstep := mkStep 0 0 now rq rnd ans r 0.

    Inductive c07_out (r : response) : Prop :=
    | c07_none : r_cookies r = [] -> c07_out r
    | c07_keep sd' sv :
        emit NCE K now (q_jar rq) sd' sv (r_cookies r) ->
        written_by (c_step_of r) = None ->
        (get_access NCE sv = TEmpty \/ get_access NCE sv = get_access NCE (carried cfg now rq)) ->
        (get_refresh NCE sv = TEmpty \/ get_refresh NCE sv = get_refresh NCE (carried cfg now rq)) ->
        c07_out r
    | c07_write sd' sv i t :
        emit NCE K now (q_jar rq) sd' sv (r_cookies r) ->
        written_by (c_step_of r) = Some (i, t) ->
        get_access NCE sv = tk i -> get_refresh NCE sv = t ->
        c07_out r.

    Lemma c07_login st sd0 sv0 cookies calls :
      (cookies = [] /\ pre NCE K now (q_jar rq) sd0) \/ emit NCE K now (q_jar rq) sd0 sv0 cookies ->
      c07_out (initiate cfg rq rnd st sd0 cookies calls).
    Proof.
      intros Hcase. apply (c07_keep _ (after_save (login_sd cfg rq rnd sd0)) (login_sd cfg rq rnd sd0)).
      - rewrite initiate_cookies.
        destruct Hcase as [[-> Hp]|He]; [apply c_emit_login_first, Hp|eapply c_emit_login, He].
      - unfold written_by. cbn [w_obs c_step_of]. rewrite initiate_emits. reflexivity.
      - left. apply get_access_login_sd.
      - left. apply get_refresh_login_sd.
    Qed.

    Lemma c07_pa_nil st calls :
      c07_out (process_authorized E cfg rq rnd st (carried cfg now rq) [] calls).
    Proof.
      apply pa_cases.
      - intros _. apply (c07_login st _ (carried cfg now rq)). left. split; [reflexivity|constructor].
      - intros m _. apply c07_none. reflexivity.
      - intros _ _ _. apply c07_none. reflexivity.
      - intros h cors _. apply c07_none. reflexivity.
    Qed.

    (* a response whose cookies are the Save of the refreshed session *)
    Lemma c07_refreshed_resp id newrt r :
      ans = Some (AOk id newrt) ->
      r_cookies r = save_cookies (refreshed_sd E now (carried cfg now rq) id newrt) ->
      r_calls r = [PRefresh (get_refresh NCE (carried cfg now rq))] ->
      c07_out r.
    Proof.
      intros Ha Hc Hcalls.
      apply (c07_write r (after_save (refreshed_sd E now (carried cfg now rq) id newrt))
                       (refreshed_sd E now (carried cfg now rq) id newrt) id
                       (if N.eqb newrt 0 then get_refresh NCE (carried cfg now rq) else TTok newrt)).
      - rewrite Hc. apply emit_save, c_pre_refreshed. constructor.
      - unfold written_by, emits_auth. cbn [w_obs w_ans c_step_of].
        rewrite (emitted_main_save r _ Hc), c_refreshed_sd_auth, Ha, Hcalls. reflexivity.
      - apply get_access_refreshed_sd, Hpos.
      - apply c_refreshed_sd_refresh.
    Qed.

    Theorem c07_serve_out st : c07_out (snd (serve E cfg st now rq rnd ans)).
    Proof.
      destruct (i_ready st) eqn:Hready.
      2:{ unfold serve. rewrite Hready. apply c07_none. reflexivity. }
      apply (serve_cases E cfg st now rq rnd ans (fun x => c07_out (snd x)) Hready); cbn [snd].
      - intros _. apply c07_none. reflexivity.
      - (* logout *)
        intros _ _. destruct (handle_logout_eq E cfg rq st (carried cfg now rq)) as [loc ->].
        apply (c07_keep _ (fst (clear (carried cfg now rq))) (SessionProofs.cleared (carried cfg now rq))).
        + cbn [r_cookies]. apply (emit_clear NCE K now (q_jar rq)). constructor.
        + unfold written_by, emits_auth. cbn [w_obs c_step_of].
          rewrite (emitted_main_save _ (SessionProofs.cleared (carried cfg now rq))) by reflexivity. reflexivity.
        + left. apply get_access_cleared.
        + left. apply get_refresh_cleared.
      - (* callback *)
        intros _ _ _. apply cb_cases; cbn [snd]; try (intros; apply c07_none; reflexivity).
        intros id rt loc Ha _ _.
        apply (c07_write _ (after_save (callback_sd E now (carried cfg now rq) id rt))
                         (callback_sd E now (carried cfg now rq) id rt) id (tk rt)).
        + cbn [r_cookies]. apply emit_save, c_pre_callback. constructor.
        + unfold written_by, emits_auth. cbn [w_obs w_ans c_step_of].
          rewrite (emitted_main_save _ (callback_sd E now (carried cfg now rq) id rt)) by reflexivity.
          rewrite c_callback_sd_auth, Ha. reflexivity.
        + apply get_access_callback_sd, Hpos.
        + apply c_callback_sd_refresh.
      - (* expired *)
        intros _. rewrite handle_expired_eq. apply (c07_login st _ (expired_sd E (carried cfg now rq))). right.
        apply emit_save, c_pre_expired. constructor.
      - intros _ _. apply c07_pa_nil.
      - (* refresh failed, session untouched *)
        intros _ _ st' _. unfold refresh_failed_resp. destruct (q_json rq); [apply c07_none; reflexivity|].
        apply (c07_login st' _ (carried cfg now rq)). left. split; [reflexivity|constructor].
      - (* invalid_grant *)
        intros _ _ Ha. unfold refresh_failed_resp. destruct (q_json rq).
        + apply (c07_keep _ (after_save (set_refresh NCE 0 (carried cfg now rq))) (set_refresh NCE 0 (carried cfg now rq))).
          * cbn [r_cookies]. apply emit_save. repeat constructor.
          * unfold written_by. cbn [w_obs w_ans c_step_of]. rewrite Ha.
            destruct (emits_auth _); reflexivity.
          * right. apply get_access_set_refresh.
          * left. apply (SessionProofs.get_refresh_set_refresh NCE 0 _ (Hpos 0)).
        + apply (c07_login st _ (set_refresh NCE 0 (carried cfg now rq))). right.
          apply emit_save. repeat constructor.
      - (* refresh succeeded *)
        intros _ _ id newrt Ha _ _ _ _. apply pa_cases.
        + intros _. apply (c07_login _ _ (refreshed_sd E now (carried cfg now rq) id newrt)). right.
          apply emit_save, c_pre_refreshed. constructor.
        + intros m _. apply (c07_refreshed_resp id newrt); [exact Ha|reflexivity|reflexivity].
        + intros _ _ _. apply (c07_refreshed_resp id newrt); [exact Ha|reflexivity|reflexivity].
        + intros h cors _. apply (c07_refreshed_resp id newrt); [exact Ha|reflexivity|reflexivity].
      - intros _. apply (c07_login st _ (carried cfg now rq)). left. split; [reflexivity|constructor].
    Qed.

  End Step.

  (* ---------------------------------------------------------------- the history *)

  (* what the next GetAccessToken / GetRefreshToken reads from a jar *)
  Definition racc (j : jar) : tval :=
    read_token NCE (fst (get_session K CAcc j)) (load_chunks K CAccChunk j 0 (length j)).
  Definition rref (j : jar) : tval :=
    read_token NCE (fst (get_session K CRef j)) (load_chunks K CRefChunk j 0 (length j)).

  Lemma c_load_fresh j now : session_too_old now (fst (get_session K CMain j)) = false ->
    get_access NCE (load K now j) = racc j /\ get_refresh NCE (load K now j) = rref j.
  Proof. intros H. unfold load. rewrite H. split; reflexivity. Qed.

  Lemma c_holds_reads_jar j sv : holds_session K j sv ->
    racc j = get_access NCE sv /\ rref j = get_refresh NCE sv.
  Proof.
    intros (_ & _ & Ha & Hr & Hac & Hrc). unfold racc, rref. rewrite Ha, Hr, Hac, Hrc. split; reflexivity.
  Qed.

  Definition c07_inv (j : jar) (id rt : option tval) : Prop :=
    contiguous K j /\ (forall t, id = Some t -> racc j = t) /\ (forall t, rt = Some t -> rref j = t).

  Lemma c07_run evs : forall j id rt,
    c07_inv j id rt -> no_timeout cfg (browser_run E cfg j evs) = true ->
    c07_browser E cfg id rt (browser_run E cfg j evs) = true.
  Proof.
    induction evs as [|e evs IH]; intros j id rt (Hcont & Hid & Hrt) Hnt; [reflexivity|].
    cbn [browser_run no_timeout forallb] in Hnt. apply andb_true_iff in Hnt as [Hw Hnt].
    cbn [browser_run c07_browser w_rq w_obs w_now].
    set (rq := with_jar (ev_rq e) j) in *.
    set (r := snd (serve E cfg (ev_st e) (ev_now e) rq (ev_rnd e) (ev_ans e))) in *.
    assert (Hj : q_jar rq = j) by reflexivity.
    unfold within_limit in Hw. cbn [w_now w_rq] in Hw. rewrite Hj in Hw. apply negb_true_iff in Hw.
    destruct (c_load_fresh j (ev_now e) Hw) as [Hga Hgr].
    unfold carried at 1 2. rewrite Hj, Hga, Hgr.
    assert (Hhere : (match id with Some t => tval_eqb (racc j) t | None => true end
                     && match rt with Some t => tval_eqb (rref j) t | None => true end) = true).
    { destruct id as [t|]; [rewrite (Hid t eq_refl), tval_eqb_refl|];
        (destruct rt as [u|]; [rewrite (Hrt u eq_refl), tval_eqb_refl|]); reflexivity. }
    rewrite Hhere. cbn [andb].
    pose proof (c07_serve_out (ev_now e) rq (ev_rnd e) (ev_ans e) (ev_st e)) as Hout. fold r in Hout.
    destruct Hout as [Hnil|sd' sv He Hwr Ha Hr|sd' sv i t He Hwr Ha Hr]; try unfold c_step_of in Hwr.
    - (* no cookie: nothing changes *)
      assert (Hwr : written_by (mkStep 0 0 (ev_now e) rq (ev_rnd e) (ev_ans e) r 0) = None).
      { unfold written_by. cbn [w_obs]. rewrite (emits_auth_nil r Hnil). reflexivity. }
      rewrite Hwr, (emitted_id_nil E r Hnil), (emitted_rt_nil E r Hnil), Hnil.
      apply IH; [repeat split; assumption|]. rewrite Hnil in Hnt. exact Hnt.
    - (* the tokens are kept or cleared *)
      rewrite Hwr. destruct (c_emit_monitors E cfg _ _ _ _ _ He) as (Hei & Her & _). rewrite Hei, Her.
      rewrite Hj in He.
      pose proof (c_emit_jar E cfg _ _ _ _ _ Hcont He) as Hh.
      destruct (c_holds_reads_jar _ _ Hh) as [Ra Rr].
      apply IH; [|exact Hnt]. split; [exact (holds_contiguous _ _ _ _ _ _ _ Hh)|]. split.
      + intros x. rewrite Ra. unfold carried in Ha. rewrite Hj, Hga in Ha.
        destruct (get_access NCE sv) eqn:Eg; cbn [is_TEmpty]; try (intros H; inversion H; reflexivity);
          (destruct Ha as [Ha|Ha]; [discriminate|]); intros Hx; rewrite Ha; apply Hid, Hx.
      + intros x. rewrite Rr. unfold carried in Hr. rewrite Hj, Hgr in Hr.
        destruct (get_refresh NCE sv) eqn:Eg; cbn [is_TEmpty]; try (intros H; inversion H; reflexivity);
          (destruct Hr as [Hr|Hr]; [discriminate|]); intros Hx; rewrite Hr; apply Hrt, Hx.
    - (* new tokens were written *)
      rewrite Hwr. rewrite Hj in He.
      pose proof (c_emit_jar E cfg _ _ _ _ _ Hcont He) as Hh.
      destruct (c_holds_reads_jar _ _ Hh) as [Ra Rr].
      apply IH; [|exact Hnt]. split; [exact (holds_contiguous _ _ _ _ _ _ _ Hh)|]. split.
      + intros x Hx. inversion Hx. rewrite Ra. exact Ha.
      + intros x Hx. inversion Hx. subst x. rewrite Rr. exact Hr.
  Qed.

End C07.

Theorem C07_roundtrip E cfg evs :
  env_ok E -> cfg_ok cfg ->
  no_timeout cfg (browser_run E cfg [] evs) = true ->
  c07_browser E cfg None None (browser_run E cfg [] evs) = true.
Proof.
  intros HE _ Hnt. apply (c07_run E cfg HE evs [] None None); [|exact Hnt].
  split; [apply contiguous_empty|]. split; discriminate.
Qed.

(* ------------------------------------------------------------------ the premise is necessary *)

Definition c07_ex_env : env :=
  mkEnv (fun s => if N.eqb s 1 then [47] else if N.eqb s 30 then [47; 97]
                  else if N.eqb s 8 then [47; 99] else if N.eqb s 9 then [47; 108] else [])
        (fun s => if N.eqb s 50 then mkTok true true 100000 0 None 0 60 41 ClAbsent ClAbsent else no_token)
        (fun s => if N.eqb s 50 then 3%nat else 1%nat)
        (fun _ _ => None) (fun s => s).

Definition c07_ex_cfg : config := mkCfg 7 8 9 [] false false [] [] 0%Z 1 false [].

Definition c07_ex_gated : request := mkReq false 30 30 2 0 0 0 0 false 0 0 0 false [] [].
Definition c07_ex_callback : request := mkReq false 8 8 2 0 0 40 77 false 0 0 0 false [] [].

Definition c07_ex_events (t3 : Z) : list event :=
  [ mkEvent (fresh_inst true 20 21) 1000000000%Z c07_ex_gated (40, 41, 42) None;
    mkEvent (fresh_inst true 20 21) 2000000000%Z c07_ex_callback (0, 0, 0) (Some (AOk 50 51));
    mkEvent (fresh_inst true 20 21) t3 c07_ex_gated (43, 44, 45) None ].

(* a login (3-chunk ID token), then a request one second later: the tokens are
   read back; the same request 25 h later carries a session past the absolute
   timeout, which GetSession empties — the monitor (which knows nothing of the
   timeout) then sees "" instead of the stored token *)
Example C07_needs_no_timeout :
  let run t3 := browser_run c07_ex_env c07_ex_cfg [] (c07_ex_events t3) in
  no_timeout c07_ex_cfg (run 3000000000%Z) = true
  /\ c07_browser c07_ex_env c07_ex_cfg None None (run 3000000000%Z) = true
  /\ map (fun s => r_status (w_obs s)) (run 3000000000%Z) = [302; 302; 200]
  /\ no_timeout c07_ex_cfg (run 90002000000000%Z) = false
  /\ c07_browser c07_ex_env c07_ex_cfg None None (run 90002000000000%Z) = false.
Proof. vm_compute. repeat split. Qed.

(* the example environment meets the shared premises *)
Lemma c07_ex_env_ok : env_ok c07_ex_env.
Proof.
  constructor.
  - reflexivity.
  - intros t. cbn. destruct (N.eqb t 50); lia.
  - intros t. cbn. destruct (N.eqb t 50); [reflexivity|discriminate].
  - reflexivity.
  - intros u H. apply local_path_same_origin. exact H.
Qed.

Lemma c07_ex_cfg_ok : cfg_ok c07_ex_cfg.
Proof. constructor; [intros n []|cbn; lia]. Qed.
