(* Property C20, clause `ep_ok`: whenever the instance is ready, the six
   endpoint fields it uses are those of ONE document the provider handed out.
   For the model this follows from the invariant `inv` (a ready middleware
   holds the latest successfully fetched document of the provider's log) and
   from the log only growing: the document is still in the final log, whose
   documents are `dc_served`.  Holds for every provider script, healthy
   document, client timeout and list of operations (no premise is needed). *)
From VF Require Import Base.Prelude Model.Discovery Spec.DiscoverySpec Corr.DiscoveryCorr
  Proofs.DiscoveryProofs.
From VFP Require Import ParamsDiscovery.
Open Scope Z_scope.

Lemma doc_same_refl d : doc_same d d = true.
Proof. unfold doc_same. rewrite !N.eqb_refl. reflexivity. Qed.

(* a ready state satisfying the invariant uses a document of its own log *)
Lemma inv_ep_in_log s : inv s -> m_ready (fst s) = true -> In (m_ep (fst s)) (docs_of (w_log (snd s))).
Proof.
  intros [_ HR] R. specialize (HR R). rewrite latest_ok_docs in HR.
  destruct (docs_of (w_log (snd s))) as [|d0 rest]; [discriminate|].
  cbn [hd_error] in HR. inversion HR. left. reflexivity.
Qed.

(* documents of a log are documents of every later log *)
Lemma extends_docs w w' d : extends w w' -> In d (docs_of (w_log w)) -> In d (docs_of (w_log w')).
Proof.
  intros [x Hx] H. rewrite Hx, docs_of_app. apply in_or_app. right. exact H.
Qed.

(* the state projection of a state satisfying the invariant passes the clause
   against the documents of any later world *)
Lemma model_state_ok s w' : inv s -> extends (snd s) w' ->
  (if os_ready (model_state s)
   then existsb (doc_same (os_ep (model_state s))) (rev (docs_of (w_log w')))
   else true) = true.
Proof.
  intros I E. unfold model_state. cbn [os_ready os_ep].
  destruct (m_ready (fst s)) eqn:R; [|reflexivity].
  apply existsb_exists. exists (m_ep (fst s)). split; [|apply doc_same_refl].
  apply -> in_rev. apply (extends_docs (snd s)); [exact E|]. apply inv_ep_in_log; assumption.
Qed.

Lemma model_steps_ep ops : forall s steps s1,
  inv s -> model_steps s ops = (steps, s1) ->
  forall w', extends (snd s1) w' ->
  forallb (fun st : obs_step =>
             let o := snd st in
             if os_ready o then existsb (doc_same (os_ep o)) (rev (docs_of (w_log w'))) else true)
          steps = true.
Proof.
  induction ops as [|o r IH]; intros s steps s1 I; cbn [model_steps].
  - intros H; inversion H; subst. intros w' _. reflexivity.
  - destruct (model_steps (apply_op s o) r) as [steps' s2] eqn:M.
    intros H; inversion H; subst steps s1. clear H.
    pose proof (inv_apply_op s o I) as I1.
    destruct (model_steps_ok r _ _ _ I1 M) as [E2 _].
    intros w' E3. cbn [forallb snd]. apply andb_true_intro. split.
    + apply model_state_ok; [exact I1|]. apply (extends_trans _ _ _ E2 E3).
    + apply (IH _ _ _ I1 M w' E3).
Qed.

(* for every script, not only scripts of failures *)
Theorem ep_model_script script h T pre ops :
  ep_ok (model_case script h T pre ops) = true.
Proof.
  unfold model_case.
  set (w := fresh_world script h T).
  set (s0 := initialize_retrying fresh_mw w).
  assert (I0 : inv s0) by (apply inv_init_loop, inv_fresh).
  destruct (model_steps s0 ops) as [steps s1] eqn:M.
  unfold ep_ok. cbn [dc_steps dc_served].
  apply (model_steps_ep ops s0 steps s1 I0 M (snd s1)), extends_refl.
Qed.

Theorem ep_model fs h T pre ops :
  ep_ok (model_case (faults fs) h T pre ops) = true.
Proof. apply ep_model_script. Qed.
