(* Proofs about Model/Discovery.v for property C20: the gate fails closed, the
   endpoints in use are those of the latest successful fetch (invariant over
   all histories), a retrying initialisation heals after every finite list of
   failures within a linear bound, the pinned one does not. *)
From VF Require Import Base.Prelude Model.Discovery Spec.DiscoverySpec.
From VFP Require Import ParamsDiscovery.
From Coq Require Import ZifyBool ZifyNat ZifyN.
Open Scope Z_scope.

(* ------------------------------------------------------------ fail closed *)

Definition closed (r : response) : Prop :=
  (r_status r = 503 \/ r_status r = 408) /\ r_forwarded r = false /\ r_location r = None /\ r_cookies r = false.

Lemma closed_503 : closed (closed_response 503).
Proof. unfold closed; cbn; tauto. Qed.
Lemma closed_408 : closed (closed_response 408).
Proof. unfold closed; cbn; tauto. Qed.

Theorem serve_closed_not_ready m rq : m_ready m = false -> closed (serve m rq).
Proof.
  intros H. unfold serve, serve_gate. rewrite H.
  destruct (Z.ltb (rq_patience rq) init_wait); [apply closed_408|apply closed_503].
Qed.

Theorem serve_closed_no_issuer m rq : d_issuer (m_ep m) = 0%N -> closed (serve m rq).
Proof.
  intros H. unfold serve, serve_gate. rewrite H. cbn [N.eqb].
  destruct (m_ready m); [apply closed_503|].
  destruct (Z.ltb (rq_patience rq) init_wait); [apply closed_408|apply closed_503].
Qed.

(* 408 exactly when the client gives up before the wait in ServeHTTP ends *)
Theorem serve_not_ready_status m rq :
  m_ready m = false ->
  r_status (serve m rq) = if Z.ltb (rq_patience rq) init_wait then 408 else 503.
Proof.
  intros H. unfold serve, serve_gate. rewrite H.
  destruct (Z.ltb (rq_patience rq) init_wait); reflexivity.
Qed.

(* ------------------------------------------------------------ endpoints = latest successful fetch *)

Definition inv (s : mw * world) : Prop :=
  (forall d, mc_doc (m_cache (fst s)) = Some d -> latest_ok (w_log (snd s)) = Some d)
  /\ (m_ready (fst s) = true -> latest_ok (w_log (snd s)) = Some (m_ep (fst s))).

Lemma fetch_log w w1 a : fetch w = (w1, a) -> w_log w1 = a :: w_log w.
Proof.
  unfold fetch. destruct (w_script w) as [|a0 r]; intros H; inversion H; reflexivity.
Qed.

Lemma discover_loop_log left : forall i start w w' r,
  discover_loop left i start w = (w', r) ->
  match r with
  | Some d => latest_ok (w_log w') = Some d
  | None => latest_ok (w_log w') = latest_ok (w_log w)
  end.
Proof.
  induction left as [|l IH]; intros i start w w' r; cbn [discover_loop].
  - intros H; inversion H; reflexivity.
  - destruct (Z.ltb total_timeout (w_now w - start)) eqn:TO.
    + intros H; inversion H; reflexivity.
    + destruct (fetch w) as [w1 a] eqn:F. pose proof (fetch_log _ _ _ F) as L.
      destruct a as [f|d].
      * intros H. apply IH in H. cbn [sleep w_log] in H. rewrite L in H. cbn [latest_ok] in H. exact H.
      * intros H; inversion H; subst. rewrite L. reflexivity.
Qed.

Lemma get_metadata_inv c w c' w' r :
  (forall d, mc_doc c = Some d -> latest_ok (w_log w) = Some d) ->
  get_metadata c w = (c', w', r) ->
  (forall d, mc_doc c' = Some d -> latest_ok (w_log w') = Some d)
  /\ match r with
     | Some d => latest_ok (w_log w') = Some d
     | None => latest_ok (w_log w') = latest_ok (w_log w)
     end.
Proof.
  intros HC. unfold get_metadata. destruct (cache_valid (w_now w) c) eqn:V.
  - intros H; inversion H; subst. split; [exact HC|].
    destruct (mc_doc c') as [d|] eqn:D; [apply HC; reflexivity|reflexivity].
  - destruct (discover w) as [w1 r1] eqn:Dv. unfold discover in Dv.
    apply discover_loop_log in Dv. destruct r1 as [d|].
    + intros H; inversion H; subst. cbn [mc_doc]. split; [|exact Dv].
      intros d0 E; inversion E; subst; exact Dv.
    + destruct (mc_doc c) as [d|] eqn:D.
      * intros H; inversion H; subst. cbn [mc_doc].
        assert (Q : latest_ok (w_log w') = Some d) by (rewrite Dv; apply HC; reflexivity).
        split; [intros d0 E; inversion E; subst; exact Q|exact Q].
      * intros H; inversion H; subst. split; [|exact Dv].
        intros d0 E. rewrite D in E. discriminate.
Qed.

Lemma inv_fresh script h T : inv (fresh_mw, fresh_world script h T).
Proof. split; cbn; intros; discriminate. Qed.

Lemma inv_initialize_pinned m w : inv (m, w) -> inv (initialize_pinned m w).
Proof.
  intros [HC HR]. cbn [fst snd] in HC, HR. unfold initialize_pinned.
  destruct (get_metadata (m_cache m) w) as [[c w1] r] eqn:G.
  destruct (get_metadata_inv _ _ _ _ _ HC G) as [HC' Hr].
  destruct r as [d|]; split; cbn [fst snd m_cache m_ready m_ep]; try exact HC'.
  - intros _. exact Hr.
  - intros R. rewrite Hr. apply HR, R.
Qed.

Lemma inv_init_loop fuel : forall k m w, inv (m, w) -> inv (init_loop fuel k m w).
Proof.
  induction fuel as [|f IH]; intros k m w I; cbn [init_loop]; [exact I|].
  destruct I as [HC HR]. cbn [fst snd] in HC, HR.
  destruct (get_metadata (m_cache m) w) as [[c w1] r] eqn:G.
  destruct (get_metadata_inv _ _ _ _ _ HC G) as [HC' Hr].
  destruct r as [d|].
  - split; cbn [fst snd m_cache m_ready m_ep]; [exact HC'|intros _; exact Hr].
  - apply IH. split; cbn [fst snd m_cache m_ready m_ep sleep w_log]; [exact HC'|].
    intros R. rewrite Hr. apply HR, R.
Qed.

Lemma inv_initialize m w : inv (m, w) -> inv (initialize m w).
Proof.
  intros I. unfold initialize. destruct init_retries_forever.
  - apply inv_init_loop, I.
  - apply inv_initialize_pinned, I.
Qed.

Lemma inv_step s e : inv s -> inv (step s e).
Proof.
  destruct s as [m w]. intros [HC HR]. cbn [fst snd] in HC, HR.
  destruct e as [| |d|l h]; cbn [step].
  - unfold refresh. destruct (m_ready m) eqn:R; [|split; assumption].
    destruct (get_metadata (m_cache m) w) as [[c w1] r] eqn:G.
    destruct (get_metadata_inv _ _ _ _ _ HC G) as [HC' Hr].
    destruct r as [d|]; split; cbn [fst snd m_cache m_ready m_ep]; try exact HC'.
    + intros _. exact Hr.
    + intros _. rewrite Hr. apply HR. reflexivity.
  - unfold cleanup, mc_cleanup. split; cbn [fst snd m_cache m_ready m_ep]; [|exact HR].
    destruct (mc_doc (m_cache m)) as [d0|] eqn:D.
    + destruct (Z.ltb (mc_exp (m_cache m)) (w_now w)); cbn [mc_doc]; [intros d E; discriminate|].
      rewrite D. exact HC.
    + rewrite D. exact HC.
  - split; cbn [fst snd sleep w_log]; assumption.
  - split; cbn [fst snd set_script w_log]; assumption.
Qed.

Lemma inv_run h : forall s, inv s -> inv (run s h).
Proof.
  unfold run. induction h as [|e h IH]; intros s I; cbn [fold_left]; [exact I|].
  apply IH, inv_step, I.
Qed.

(* Whatever the provider did and whatever ticks happened, a ready middleware
   uses exactly the document of the latest successful fetch. *)
Theorem endpoints_latest script h T events :
  let s := run (initialize fresh_mw (fresh_world script h T)) events in
  m_ready (fst s) = true -> latest_ok (w_log (snd s)) = Some (m_ep (fst s)).
Proof.
  intros s. subst s. apply (inv_run events), inv_initialize, inv_fresh.
Qed.

Theorem endpoints_latest_retrying script h T events :
  let s := run (initialize_retrying fresh_mw (fresh_world script h T)) events in
  m_ready (fst s) = true -> latest_ok (w_log (snd s)) = Some (m_ep (fst s)).
Proof.
  intros s. subst s. apply (inv_run events). apply inv_init_loop, inv_fresh.
Qed.

(* ... so the login redirect of a ready middleware goes to the authorization
   endpoint of that document, and no field the document had is empty *)
Corollary redirect_latest script h T events rq :
  let s := run (initialize fresh_mw (fresh_world script h T)) events in
  forall l, r_location (serve (fst s) rq) = Some l ->
  exists d, latest_ok (w_log (snd s)) = Some d /\ l = d_auth d /\ m_ep (fst s) = d.
Proof.
  intros s l. pose proof (endpoints_latest script h T events) as E. fold s in E. cbv zeta in E.
  unfold serve, serve_gate. destruct (m_ready (fst s)) eqn:R.
  - destruct (N.eqb (d_issuer (m_ep (fst s))) 0); [discriminate|].
    unfold after_gate. destruct (rq_path rq); cbn [r_location]; try discriminate.
    intros H; inversion H. exists (m_ep (fst s)). split; [apply E; reflexivity|split; reflexivity].
  - destruct (Z.ltb (rq_patience rq) init_wait); discriminate.
Qed.
