(* Proofs about Model/Discovery.v for property C20: the gate fails closed, the
   endpoints in use are those of the latest successful fetch (invariant over
   all histories), a retrying initialisation heals after every finite list of
   failures within a linear bound, the pinned one does not. *)
From VF Require Import Base.Prelude Model.Discovery Spec.DiscoverySpec Corr.DiscoveryCorr.
From VFP Require Import ParamsDiscovery.
From Coq Require Import ZifyBool ZifyNat ZifyN.
Open Scope Z_scope.

(* ------------------------------------------------------------ fail closed *)

Definition closed (r : response) : Prop :=
  (r_status r = 503 \/ r_status r = 408) /\ r_forwarded r = false /\ r_location r = None /\ r_cookies r = false.

Lemma closed_503 : closed (closed_response 503).
Proof. unfold closed; cbn; tauto. Qed.
Lemma closed_408 : closed (closed_response 408).
Proof. unfold closed; cbn; tauto. Qed.

Theorem serve_closed_not_ready m rq : m_ready m = false -> closed (serve m rq).
Proof.
  intros H. unfold serve, serve_gate. rewrite H.
  destruct (Z.ltb (rq_patience rq) init_wait); [apply closed_408|apply closed_503].
Qed.

Theorem serve_closed_no_issuer m rq : d_issuer (m_ep m) = 0%N -> closed (serve m rq).
Proof.
  intros H. unfold serve, serve_gate. rewrite H. cbn [N.eqb].
  destruct (m_ready m); [apply closed_503|].
  destruct (Z.ltb (rq_patience rq) init_wait); [apply closed_408|apply closed_503].
Qed.

(* 408 exactly when the client gives up before the wait in ServeHTTP ends *)
Theorem serve_not_ready_status m rq :
  m_ready m = false ->
  r_status (serve m rq) = if Z.ltb (rq_patience rq) init_wait then 408 else 503.
Proof.
  intros H. unfold serve, serve_gate. rewrite H.
  destruct (Z.ltb (rq_patience rq) init_wait); reflexivity.
Qed.

(* ------------------------------------------------------------ endpoints = latest successful fetch *)

Definition inv (s : mw * world) : Prop :=
  (forall d, mc_doc (m_cache (fst s)) = Some d -> latest_ok (w_log (snd s)) = Some d)
  /\ (m_ready (fst s) = true -> latest_ok (w_log (snd s)) = Some (m_ep (fst s))).

Lemma fetch_log w w1 a : fetch w = (w1, a) -> w_log w1 = a :: w_log w.
Proof.
  unfold fetch. destruct (w_script w) as [|a0 r]; intros H; inversion H; reflexivity.
Qed.

Lemma discover_loop_log left : forall i start w w' r,
  discover_loop left i start w = (w', r) ->
  match r with
  | Some d => latest_ok (w_log w') = Some d
  | None => latest_ok (w_log w') = latest_ok (w_log w)
  end.
Proof.
  induction left as [|l IH]; intros i start w w' r; cbn [discover_loop].
  - intros H; inversion H; reflexivity.
  - destruct (Z.ltb total_timeout (w_now w - start)) eqn:TO.
    + intros H; inversion H; reflexivity.
    + destruct (fetch w) as [w1 a] eqn:F. pose proof (fetch_log _ _ _ F) as L.
      destruct a as [f|d].
      * intros H. apply IH in H. cbn [sleep w_log] in H. rewrite L in H. cbn [latest_ok] in H. exact H.
      * intros H; inversion H; subst. rewrite L. reflexivity.
Qed.

Lemma get_metadata_inv c w c' w' r :
  (forall d, mc_doc c = Some d -> latest_ok (w_log w) = Some d) ->
  get_metadata c w = (c', w', r) ->
  (forall d, mc_doc c' = Some d -> latest_ok (w_log w') = Some d)
  /\ match r with
     | Some d => latest_ok (w_log w') = Some d
     | None => latest_ok (w_log w') = latest_ok (w_log w)
     end.
Proof.
  intros HC. unfold get_metadata. destruct (cache_valid (w_now w) c) eqn:V.
  - intros H; inversion H; subst. split; [exact HC|].
    destruct (mc_doc c') as [d|] eqn:D; [apply HC; reflexivity|reflexivity].
  - destruct (discover w) as [w1 r1] eqn:Dv. unfold discover in Dv.
    apply discover_loop_log in Dv. destruct r1 as [d|].
    + intros H; inversion H; subst. cbn [mc_doc]. split; [|exact Dv].
      intros d0 E; inversion E; subst; exact Dv.
    + destruct (mc_doc c) as [d|] eqn:D.
      * intros H; inversion H; subst. cbn [mc_doc].
        assert (Q : latest_ok (w_log w') = Some d) by (rewrite Dv; apply HC; reflexivity).
        split; [intros d0 E; inversion E; subst; exact Q|exact Q].
      * intros H; inversion H; subst. split; [|exact Dv].
        intros d0 E. rewrite D in E. discriminate.
Qed.

Lemma inv_fresh script h T : inv (fresh_mw, fresh_world script h T).
Proof. split; cbn; intros; discriminate. Qed.

Lemma inv_initialize_pinned m w : inv (m, w) -> inv (initialize_pinned m w).
Proof.
  intros [HC HR]. cbn [fst snd] in HC, HR. unfold initialize_pinned.
  destruct (get_metadata (m_cache m) w) as [[c w1] r] eqn:G.
  destruct (get_metadata_inv _ _ _ _ _ HC G) as [HC' Hr].
  destruct r as [d|]; split; cbn [fst snd m_cache m_ready m_ep]; try exact HC'.
  - intros _. exact Hr.
  - intros R. rewrite Hr. apply HR, R.
Qed.

Lemma inv_init_loop fuel : forall k m w, inv (m, w) -> inv (init_loop fuel k m w).
Proof.
  induction fuel as [|f IH]; intros k m w I; cbn [init_loop]; [exact I|].
  destruct I as [HC HR]. cbn [fst snd] in HC, HR.
  destruct (get_metadata (m_cache m) w) as [[c w1] r] eqn:G.
  destruct (get_metadata_inv _ _ _ _ _ HC G) as [HC' Hr].
  destruct r as [d|].
  - split; cbn [fst snd m_cache m_ready m_ep]; [exact HC'|intros _; exact Hr].
  - apply IH. split; cbn [fst snd m_cache m_ready m_ep sleep w_log]; [exact HC'|].
    intros R. rewrite Hr. apply HR, R.
Qed.

Lemma inv_initialize m w : inv (m, w) -> inv (initialize m w).
Proof.
  intros I. unfold initialize. destruct init_retries_forever.
  - apply inv_init_loop, I.
  - apply inv_initialize_pinned, I.
Qed.

Lemma inv_step s e : inv s -> inv (step s e).
Proof.
  destruct s as [m w]. intros [HC HR]. cbn [fst snd] in HC, HR.
  destruct e as [| |d|l h]; cbn [step].
  - unfold refresh. destruct (m_ready m) eqn:R;
      [|split; cbn [fst snd]; [exact HC|rewrite R; intros X; discriminate]].
    destruct (get_metadata (m_cache m) w) as [[c w1] r] eqn:G.
    destruct (get_metadata_inv _ _ _ _ _ HC G) as [HC' Hr].
    destruct r as [d|]; split; cbn [fst snd m_cache m_ready m_ep]; try exact HC'.
    + intros _. exact Hr.
    + intros _. rewrite Hr. apply HR. reflexivity.
  - unfold cleanup, mc_cleanup. split; cbn [fst snd m_cache m_ready m_ep]; [|exact HR].
    destruct (mc_doc (m_cache m)) as [d0|] eqn:D.
    + destruct (Z.ltb (mc_exp (m_cache m)) (w_now w)); cbn [mc_doc]; [intros d E; discriminate|].
      rewrite D. exact HC.
    + rewrite D. exact HC.
  - split; cbn [fst snd sleep w_log]; assumption.
  - split; cbn [fst snd set_script w_log]; assumption.
Qed.

Lemma inv_run h : forall s, inv s -> inv (run s h).
Proof.
  unfold run. induction h as [|e h IH]; intros s I; cbn [fold_left]; [exact I|].
  apply IH, inv_step, I.
Qed.

(* Whatever the provider did and whatever ticks happened, a ready middleware
   uses exactly the document of the latest successful fetch. *)
Theorem endpoints_latest script h T events :
  let s := run (initialize fresh_mw (fresh_world script h T)) events in
  m_ready (fst s) = true -> latest_ok (w_log (snd s)) = Some (m_ep (fst s)).
Proof.
  intros s. subst s. apply (inv_run events), inv_initialize, inv_fresh.
Qed.

Theorem endpoints_latest_retrying script h T events :
  let s := run (initialize_retrying fresh_mw (fresh_world script h T)) events in
  m_ready (fst s) = true -> latest_ok (w_log (snd s)) = Some (m_ep (fst s)).
Proof.
  intros s. subst s. apply (inv_run events). apply inv_init_loop, inv_fresh.
Qed.

(* ... so the login redirect of a ready middleware goes to the authorization
   endpoint of that document, and no field the document had is empty *)
Corollary redirect_latest script h T events rq :
  let s := run (initialize fresh_mw (fresh_world script h T)) events in
  forall l, r_location (serve (fst s) rq) = Some l ->
  exists d, latest_ok (w_log (snd s)) = Some d /\ l = d_auth d /\ m_ep (fst s) = d.
Proof.
  intros s l. pose proof (endpoints_latest script h T events) as E. fold s in E. cbv zeta in E.
  unfold serve, serve_gate. destruct (m_ready (fst s)) eqn:R.
  - destruct (N.eqb (d_issuer (m_ep (fst s))) 0); [discriminate|].
    unfold after_gate. destruct (rq_path rq); cbn [r_location]; try discriminate.
    intros H; inversion H. exists (m_ep (fst s)). split; [apply E; reflexivity|split; reflexivity].
  - destruct (Z.ltb (rq_patience rq) init_wait); discriminate.
Qed.

(* ------------------------------------------------------------ the retry schedule *)

Definition fcost (T : Z) (f : fault) : Z := cost T (AFault f).

Fixpoint costs (T : Z) (fs : list fault) : Z :=
  match fs with [] => 0 | f :: r => fcost T f + costs T r end.

Lemma delay_nonneg i : 0 <= delay i.
Proof.
  unfold delay. apply Z.min_glb; [|unfold max_delay, sec; lia].
  apply Z.mul_nonneg_nonneg; [apply Z.pow_nonneg; lia|unfold base_delay, sec; lia].
Qed.

Lemma delay_le_max i : delay i <= max_delay.
Proof. unfold delay. apply Z.le_min_r. Qed.

Lemma delays_from_nonneg left : forall i, 0 <= delays_from i left.
Proof.
  induction left as [|l IH]; intros i; cbn [delays_from]; [lia|].
  pose proof (delay_nonneg i). pose proof (IH (S i)). lia.
Qed.

Lemma fcost_bounds T f : 0 <= T -> 0 <= fcost T f <= T.
Proof. intros H. destruct f; cbn; lia. Qed.

Lemma costs_bounds T fs : 0 <= T -> 0 <= costs T fs <= Z.of_nat (length fs) * T.
Proof.
  intros H. induction fs as [|f r IH]; cbn [costs length]; [lia|].
  pose proof (fcost_bounds T f H). rewrite Nat2Z.inj_succ, Z.mul_succ_l. lia.
Qed.

(* the totalTimeout test inside discoverProviderMetadata does not fire *)
Definition budget (left i : nat) (elapsed T : Z) : Prop :=
  match left with
  | O => True
  | S l => elapsed + delays_from i l + Z.of_nat l * T <= total_timeout
  end.

Lemma faults_cons f fs : faults (f :: fs) = AFault f :: faults fs.
Proof. reflexivity. Qed.

(* What one discoverProviderMetadata call does against a provider that fails
   `length fs` times and is healthy afterwards. *)
Lemma discover_loop_faults left : forall i start w fs w' r,
  w_script w = faults fs -> 0 <= w_timeout w ->
  budget left i (w_now w - start) (w_timeout w) ->
  discover_loop left i start w = (w', r) ->
  w_healthy w' = w_healthy w /\ w_timeout w' = w_timeout w /\
  if Nat.ltb (length fs) left
  then r = Some (w_healthy w) /\ w_script w' = []
       /\ w_hits w' = (w_hits w + N.of_nat (length fs) + 1)%N
       /\ w_now w' = w_now w + costs (w_timeout w) fs + delays_from i (length fs)
  else r = None /\ w_script w' = faults (skipn left fs)
       /\ w_hits w' = (w_hits w + N.of_nat left)%N
       /\ w_now w' = w_now w + costs (w_timeout w) (firstn left fs) + delays_from i left.
Proof.
  induction left as [|l IH]; intros i start w fs w' r HS HT HB; cbn [discover_loop].
  - intros H; inversion H; subst w' r. cbn [Nat.ltb Nat.leb skipn firstn costs delays_from].
    repeat split; try assumption; lia.
  - cbn [budget] in HB.
    pose proof (delays_from_nonneg l i) as Dn.
    assert (Ln : 0 <= Z.of_nat l * w_timeout w) by (apply Z.mul_nonneg_nonneg; lia).
    replace (Z.ltb total_timeout (w_now w - start)) with false by (symmetry; apply Z.ltb_ge; lia).
    unfold fetch. rewrite HS. destruct fs as [|f fs'].
    + cbn [faults map]. intros H; inversion H; subst w' r.
      cbn [length Nat.ltb Nat.leb w_healthy w_timeout w_script w_hits w_now costs delays_from].
      repeat split; lia.
    + rewrite faults_cons. intros H.
      eapply IH in H; cycle 1.
      * cbn [sleep w_script]. reflexivity.
      * cbn [sleep w_timeout]. exact HT.
      * cbn [sleep w_timeout w_now]. destruct l as [|l']; cbn [budget]; [exact I|].
        cbn [delays_from] in HB. rewrite Nat2Z.inj_succ, Z.mul_succ_l in HB.
        pose proof (fcost_bounds (w_timeout w) f HT) as Fb. unfold fcost in Fb. lia.
      * cbn [sleep w_healthy w_timeout w_script w_hits w_now] in H.
        destruct H as [H1 [H2 H3]]. split; [exact H1|split; [exact H2|]].
        change (Nat.ltb (length (f :: fs')) (S l)) with (Nat.ltb (length fs') l).
        destruct (Nat.ltb (length fs') l);
          destruct H3 as [Hr [Hs [Hh Hn]]]; (split; [exact Hr|split; [exact Hs|split]]);
          cbn [length skipn firstn costs delays_from]; unfold fcost; lia.
Qed.

Definition budget_ok (T : Z) : bool :=
  Z.leb (delays_from 0 (pred max_retries) + Z.of_nat (pred max_retries) * T) total_timeout.

Lemma budget_of_ok T : budget_ok T = true -> budget max_retries 0 0 T.
Proof.
  unfold budget_ok. intros H. apply Z.leb_le in H.
  destruct max_retries as [|l]; cbn [budget pred] in *; [exact I|lia].
Qed.

Lemma budget_ok_mono T T0 : 0 <= T <= T0 -> budget_ok T0 = true -> budget_ok T = true.
Proof.
  unfold budget_ok. intros HT H. apply Z.leb_le in H. apply Z.leb_le.
  assert (Z.of_nat (pred max_retries) * T <= Z.of_nat (pred max_retries) * T0)
    by (apply Z.mul_le_mono_nonneg_l; lia).
  lia.
Qed.

Lemma budget_ok_71s : budget_ok (71 * sec) = true.
Proof. vm_compute. reflexivity. Qed.

(* GetMetadata on an empty cache *)
Lemma get_metadata_empty c w : mc_doc c = None ->
  get_metadata c w =
  let '(w1, r) := discover w in
  match r with
  | None => (c, w1, None)
  | Some d => (mkMc (Some d) (w_now w1 + cache_ttl), w1, Some d)
  end.
Proof.
  intros H. unfold get_metadata, cache_valid. rewrite H. reflexivity.
Qed.

(* side conditions of the bound, decided on the measured retry constants *)
Definition schedule_ok : bool :=
  Nat.leb 1 max_retries
  && Z.leb (delays_from 0 max_retries + max_delay) (Z.of_nat max_retries * heal_rate)
  && forallb (fun j => Z.leb (delays_from 0 j) (Z.of_nat j * heal_rate)) (seq 0 (S max_retries)).

Lemma schedule_ok_holds : schedule_ok = true.
Proof. vm_compute. reflexivity. Qed.

Lemma schedule_facts :
  (1 <= max_retries)%nat
  /\ delays_from 0 max_retries + max_delay <= Z.of_nat max_retries * heal_rate
  /\ forall j, (j <= max_retries)%nat -> delays_from 0 j <= Z.of_nat j * heal_rate.
Proof.
  pose proof schedule_ok_holds as H. unfold schedule_ok in H.
  apply andb_prop in H. destruct H as [H H3]. apply andb_prop in H. destruct H as [H1 H2].
  apply Nat.leb_le in H1. apply Z.leb_le in H2. split; [exact H1|split; [exact H2|]].
  intros j Hj. rewrite forallb_forall in H3. apply Z.leb_le. apply H3. apply in_seq. lia.
Qed.

Lemma heal_bound_split (a b : nat) c : (b <= a)%nat ->
  heal_bound a c = heal_bound b c + heal_bound (a - b) c.
Proof. intros H. unfold heal_bound. rewrite Nat2Z.inj_sub by exact H. ring. Qed.

(* the schedule is bounded by the linear B *)
Lemma sched_bounds fuel : forall k n T, 0 <= T -> 0 <= sched fuel k n T <= heal_bound n T.
Proof.
  destruct schedule_facts as [R1 [R2 R3]].
  induction fuel as [|f IH]; intros k n T HT; cbn [sched].
  - unfold heal_bound, heal_rate, sec. nia.
  - destruct (Nat.ltb n max_retries) eqn:LT.
    + apply Nat.ltb_lt in LT. pose proof (R3 n ltac:(lia)). pose proof (delays_from_nonneg n 0).
      assert (0 <= Z.of_nat n * T) by (apply Z.mul_nonneg_nonneg; lia).
      unfold heal_bound. rewrite Z.mul_add_distr_l. lia.
    + apply Nat.ltb_ge in LT. specialize (IH (S k) (n - max_retries)%nat T HT).
      pose proof (delay_nonneg k). pose proof (delay_le_max k).
      pose proof (delays_from_nonneg max_retries 0).
      assert (0 <= Z.of_nat max_retries * T) by (apply Z.mul_nonneg_nonneg; lia).
      rewrite (heal_bound_split n max_retries) by exact LT.
      unfold heal_bound at 1. rewrite Z.mul_add_distr_l. lia.
Qed.

Lemma heal_time_linear n T : 0 <= T -> 0 <= heal_time n T <= heal_bound n T.
Proof. apply sched_bounds. Qed.

(* The repaired loop, from an empty cache, against `length fs` failures then a
   healthy provider: ready, with the healthy document, after exactly
   length fs + 1 fetches and at most `sched` modelled ns. *)
Lemma init_loop_heals fuel : forall k m w fs m' w',
  w_script w = faults fs -> mc_doc (m_cache m) = None ->
  0 <= w_timeout w -> budget_ok (w_timeout w) = true ->
  (length fs < fuel)%nat ->
  init_loop fuel k m w = (m', w') ->
  m_ready m' = true /\ m_ep m' = w_healthy w
  /\ w_hits w' = (w_hits w + N.of_nat (length fs) + 1)%N
  /\ w_now w <= w_now w' <= w_now w + sched fuel k (length fs) (w_timeout w).
Proof.
  induction fuel as [|f IH]; intros k m w fs m' w' HS HC HT HB HF; [lia|].
  cbn [init_loop sched]. rewrite (get_metadata_empty _ _ HC).
  destruct (discover w) as [w1 r] eqn:D. unfold discover in D.
  apply (discover_loop_faults max_retries 0 (w_now w) w fs w1 r HS HT) in D;
    [|rewrite Z.sub_diag; apply budget_of_ok, HB].
  destruct D as [Dh [Dt D]].
  pose proof (costs_bounds (w_timeout w) fs HT) as Cb.
  destruct (Nat.ltb (length fs) max_retries) eqn:LT.
  - destruct D as [-> [Ds [Dhits Dn]]].
    intros H; inversion H; subst m' w'. cbn [m_ready m_ep].
    split; [reflexivity|split; [reflexivity|split; [exact Dhits|]]].
    pose proof (delays_from_nonneg (length fs) 0). lia.
  - apply Nat.ltb_ge in LT. destruct D as [-> [Ds [Dhits Dn]]].
    intros H.
    eapply (IH (S k) _ _ (skipn max_retries fs)) in H; cycle 1.
    + cbn [sleep w_script]. exact Ds.
    + cbn [m_cache]. exact HC.
    + cbn [sleep w_timeout]. lia.
    + cbn [sleep w_timeout]. rewrite Dt. exact HB.
    + rewrite skipn_length. destruct schedule_facts as [R1 _]. lia.
    + cbn [sleep w_healthy w_timeout w_hits w_now] in H. rewrite skipn_length in H.
      destruct H as [Hr [He [Hh Hn]]].
      split; [exact Hr|split; [rewrite He; exact Dh|split; [lia|]]].
      rewrite Dt in Hn.
      pose proof (costs_bounds (w_timeout w) (firstn max_retries fs) HT) as Cf.
      rewrite firstn_length_le in Cf by exact LT.
      pose proof (delay_nonneg k). pose proof (delays_from_nonneg max_retries 0). lia.
Qed.

Theorem initialize_retrying_heals fs h T :
  0 <= T -> budget_ok T = true ->
  let s := initialize_retrying fresh_mw (fresh_world (faults fs) h T) in
  m_ready (fst s) = true /\ m_ep (fst s) = h
  /\ w_hits (snd s) = (N.of_nat (length fs) + 1)%N
  /\ 0 <= w_now (snd s) <= heal_time (length fs) T
  /\ heal_time (length fs) T <= heal_bound (length fs) T.
Proof.
  intros HT HB s. subst s. unfold initialize_retrying.
  destruct (init_loop _ 0 fresh_mw _) as [m' w'] eqn:E.
  assert (HL : length (w_script (fresh_world (faults fs) h T)) = length fs).
  { cbn [fresh_world w_script]. unfold faults. apply map_length. }
  rewrite HL in E.
  pose proof (init_loop_heals _ 0 fresh_mw (fresh_world (faults fs) h T) fs m' w'
                eq_refl eq_refl HT HB (Nat.lt_succ_diag_r _) E) as Q.
  cbn [fresh_world w_healthy w_hits w_now w_timeout] in Q. cbn [fst snd].
  destruct Q as [E1 [E2 [E3 E4]]]. fold (heal_time (length fs) T) in E4.
  pose proof (heal_time_linear (length fs) T HT).
  split; [exact E1|split; [exact E2|split; [lia|split; lia]]].
Qed.

(* ------------------------------------------------------------ the pinned initialisation *)

(* shorter than the retry budget: heals in the first GetMetadata *)
Theorem initialize_pinned_short fs h T :
  0 <= T -> budget_ok T = true -> (length fs < max_retries)%nat ->
  let s := initialize_pinned fresh_mw (fresh_world (faults fs) h T) in
  m_ready (fst s) = true /\ m_ep (fst s) = h /\ 0 <= w_now (snd s) <= heal_bound (length fs) T.
Proof.
  intros HT HB HL s. subst s. unfold initialize_pinned.
  destruct schedule_facts as [R1 [R2 R3]].
  rewrite get_metadata_empty by reflexivity.
  destruct (discover _) as [w1 r] eqn:D. unfold discover in D.
  apply (discover_loop_faults max_retries 0 _ _ fs w1 r) in D; cbn [fresh_world w_script w_timeout w_now w_healthy w_hits] in *;
    try reflexivity; try assumption; [|rewrite Z.sub_diag; apply budget_of_ok, HB].
  destruct D as [Dh [Dt D]].
  replace (Nat.ltb (length fs) max_retries) with true in D by (symmetry; apply Nat.ltb_lt, HL).
  destruct D as [-> [Ds [Dhits Dn]]]. cbn [fst snd m_ready m_ep].
  pose proof (costs_bounds T fs HT). pose proof (R3 (length fs) ltac:(lia)).
  pose proof (delays_from_nonneg (length fs) 0).
  split; [reflexivity|split; [reflexivity|]]. unfold heal_bound. lia.
Qed.

(* at least as long as the retry budget: gives up ... *)
Theorem initialize_pinned_gives_up fs h T :
  0 <= T -> budget_ok T = true -> (max_retries <= length fs)%nat ->
  m_ready (fst (initialize_pinned fresh_mw (fresh_world (faults fs) h T))) = false.
Proof.
  intros HT HB HL. unfold initialize_pinned.
  rewrite get_metadata_empty by reflexivity.
  destruct (discover _) as [w1 r] eqn:D. unfold discover in D.
  apply (discover_loop_faults max_retries 0 _ _ fs w1 r) in D; cbn [fresh_world w_script w_timeout w_now w_healthy w_hits] in *;
    try reflexivity; try assumption; [|rewrite Z.sub_diag; apply budget_of_ok, HB].
  destruct D as [Dh [Dt D]].
  replace (Nat.ltb (length fs) max_retries) with false in D by (symmetry; apply Nat.ltb_ge, HL).
  destruct D as [-> _]. reflexivity.
Qed.

(* ... and nothing that happens afterwards makes it ready *)
Lemma not_ready_step s e : m_ready (fst s) = false -> m_ready (fst (step s e)) = false.
Proof.
  destruct s as [m w]. cbn [fst]. intros H. destruct e as [| |d|l h]; cbn [step fst].
  - unfold refresh. rewrite H. exact H.
  - exact H.
  - exact H.
  - exact H.
Qed.

Lemma not_ready_run h : forall s, m_ready (fst s) = false -> m_ready (fst (run s h)) = false.
Proof.
  unfold run. induction h as [|e h IH]; intros s H; cbn [fold_left]; [exact H|].
  apply IH, not_ready_step, H.
Qed.

Theorem initialize_pinned_never_heals fs h T events :
  0 <= T -> budget_ok T = true -> (max_retries <= length fs)%nat ->
  m_ready (fst (run (initialize_pinned fresh_mw (fresh_world (faults fs) h T)) events)) = false.
Proof.
  intros HT HB HL. apply not_ready_run, initialize_pinned_gives_up; assumption.
Qed.

Theorem initialize_heals_measured : init_retries_forever = true ->
  forall (fs : list fault) (h : doc) (T : Z),
  0 <= T -> budget_ok T = true ->
  let s := initialize fresh_mw (fresh_world (faults fs) h T) in
  m_ready (fst s) = true /\ m_ep (fst s) = h
  /\ w_hits (snd s) = (N.of_nat (length fs) + 1)%N
  /\ 0 <= w_now (snd s) <= heal_time (length fs) T
  /\ heal_time (length fs) T <= heal_bound (length fs) T.
Proof.
  intros H fs h T. unfold initialize. rewrite H. apply initialize_retrying_heals.
Qed.

Theorem pinned_refuted_5 :
  exists fs : list fault, length fs = 5%nat /\
  forall (h : doc) (events : list event),
  m_ready (fst (run (initialize_pinned fresh_mw (fresh_world (faults fs) h (15 * sec))) events)) = false.
Proof.
  exists [F500; F503; FRefused; FMalformed; FSlow]. split; [reflexivity|].
  intros h events. apply not_ready_run. vm_compute. reflexivity.
Qed.

(* ------------------------------------------------------------ the monitor accepts what the model does *)

Lemma latest_ok_docs log : latest_ok log = hd_error (docs_of log).
Proof. induction log as [|[f|d] r IH]; cbn; [reflexivity|exact IH|reflexivity]. Qed.

Lemma docs_of_app a b : docs_of (a ++ b) = docs_of a ++ docs_of b.
Proof.
  induction a as [|[f|d] r IH]; cbn; [reflexivity|exact IH|rewrite IH; reflexivity].
Qed.

(* the provider's log only grows *)
Definition extends (w w' : world) : Prop := exists ext, w_log w' = ext ++ w_log w.

Lemma extends_refl w : extends w w.
Proof. exists []. reflexivity. Qed.

Lemma extends_trans a b c : extends a b -> extends b c -> extends a c.
Proof. intros [x Hx] [y Hy]. exists (y ++ x). rewrite Hy, Hx. apply app_assoc. Qed.

Lemma discover_loop_extends left : forall i start w w' r,
  discover_loop left i start w = (w', r) -> extends w w'.
Proof.
  induction left as [|l IH]; intros i start w w' r; cbn [discover_loop].
  - intros H; inversion H; apply extends_refl.
  - destruct (Z.ltb total_timeout (w_now w - start)).
    + intros H; inversion H; apply extends_refl.
    + destruct (fetch w) as [w1 a] eqn:F. pose proof (fetch_log _ _ _ F) as L.
      assert (E1 : extends w w1) by (exists [a]; exact L).
      destruct a as [f|d].
      * intros H. apply IH in H. apply (extends_trans _ w1); [exact E1|].
        destruct H as [x Hx]. exists x. exact Hx.
      * intros H; inversion H; subst. exact E1.
Qed.

Lemma get_metadata_extends c w c' w' r : get_metadata c w = (c', w', r) -> extends w w'.
Proof.
  unfold get_metadata. destruct (cache_valid (w_now w) c).
  - intros H; inversion H; apply extends_refl.
  - destruct (discover w) as [w1 r1] eqn:D. unfold discover in D. apply discover_loop_extends in D.
    destruct r1 as [d|]; [intros H; inversion H; subst; exact D|].
    destruct (mc_doc c); intros H; inversion H; subst; exact D.
Qed.

Lemma step_extends s e : extends (snd s) (snd (step s e)).
Proof.
  destruct s as [m w]. destruct e as [| |d|l h]; cbn [step snd].
  - unfold refresh. destruct (m_ready m); [|apply extends_refl].
    destruct (get_metadata (m_cache m) w) as [[c w1] r] eqn:G. apply get_metadata_extends in G.
    destruct r; exact G.
  - apply extends_refl.
  - exists []. reflexivity.
  - exists []. reflexivity.
Qed.

Lemma apply_op_extends s o : extends (snd s) (snd (apply_op s o)).
Proof. destruct o; cbn [apply_op]; try apply step_extends. apply extends_refl. Qed.

Lemma inv_apply_op s o : inv s -> inv (apply_op s o).
Proof. intros I. destruct o; cbn [apply_op]; try (apply inv_step; exact I). exact I. Qed.

Lemma nth_error_rev_mid (a r : list doc) d : nth_error (rev (a ++ d :: r)) (length r) = Some d.
Proof.
  rewrite rev_app_distr. cbn [rev]. rewrite <- app_assoc.
  rewrite nth_error_app2 by (rewrite rev_length; lia).
  rewrite rev_length, Nat.sub_diag. reflexivity.
Qed.

Lemma firstn_rev_tail (a l : list doc) : firstn (length l) (rev (a ++ l)) = rev l.
Proof.
  rewrite rev_app_distr. rewrite firstn_app, rev_length, Nat.sub_diag. cbn [firstn].
  rewrite app_nil_r. rewrite <- (rev_length l). apply firstn_all.
Qed.

(* one request served by the model in a state satisfying the invariant passes
   both per-request clauses, whatever the provider hands out later *)
Lemma model_req_ok s rq ext : inv s ->
  closed_ok (rev (docs_of (ext ++ w_log (snd s)))) (model_req s rq) = true
  /\ endpoint_ok (rev (docs_of (ext ++ w_log (snd s)))) (model_req s rq) = true.
Proof.
  destruct s as [m w]. intros [_ HR]. cbn [fst snd] in HR.
  unfold model_req, closed_ok, endpoint_ok, is_closed. cbn [fst snd oq_ok_after oq_loc oq_status oq_fwd oq_cookies].
  rewrite docs_of_app, Nnat.Nat2N.id, firstn_rev_tail.
  unfold serve, serve_gate. destruct (m_ready m) eqn:R.
  - specialize (HR eq_refl). rewrite latest_ok_docs in HR.
    destruct (docs_of (w_log w)) as [|d0 rest] eqn:DL; [discriminate|].
    cbn [hd_error] in HR. inversion HR; subst d0.
    split.
    + destruct (existsb has_issuer (rev (m_ep m :: rest))) eqn:X; [reflexivity|].
      assert (Hi : has_issuer (m_ep m) = false).
      { destruct (has_issuer (m_ep m)) eqn:Hh; [|reflexivity].
        assert (existsb has_issuer (rev (m_ep m :: rest)) = true); [|congruence].
        apply existsb_exists. exists (m_ep m). split; [|exact Hh].
        apply -> in_rev. left. reflexivity. }
      unfold has_issuer in Hi. apply negb_false_iff in Hi. rewrite Hi. reflexivity.
    + destruct (N.eqb (d_issuer (m_ep m)) 0); [reflexivity|].
      unfold after_gate. destruct (rq_path rq); cbn [r_location]; try reflexivity.
      cbn [length]. replace (S (length rest) - 1)%nat with (length rest) by lia.
      rewrite nth_error_rev_mid.
      destruct (N.eqb (d_auth (m_ep m)) 0); [reflexivity|apply N.eqb_refl].
  - destruct (Z.ltb (rq_patience rq) init_wait); cbn; split; try reflexivity;
      destruct (existsb has_issuer _); reflexivity.
Qed.

Lemma model_steps_ok ops : forall s steps s1,
  inv s -> model_steps s ops = (steps, s1) ->
  extends (snd s) (snd s1)
  /\ forall ext q, In q (flat_map reqs_of_step steps) ->
       closed_ok (rev (docs_of (ext ++ w_log (snd s1)))) q = true
       /\ endpoint_ok (rev (docs_of (ext ++ w_log (snd s1)))) q = true.
Proof.
  induction ops as [|o r IH]; intros s steps s1 I; cbn [model_steps].
  - intros H; inversion H; subst. split; [apply extends_refl|intros ext q []].
  - destruct (model_steps (apply_op s o) r) as [steps' s2] eqn:M.
    intros H; inversion H; subst steps s1. clear H.
    destruct (IH _ _ _ (inv_apply_op s o I) M) as [E2 Q2].
    pose proof (apply_op_extends s o) as E1.
    split; [apply (extends_trans _ _ _ E1 E2)|].
    intros ext q. cbn [flat_map reqs_of_step]. rewrite in_app_iff. intros [Hq|Hq].
    + destruct o as [rq| | | |]; cbn in Hq; try tauto. destruct Hq as [<-|[]].
      destruct (extends_trans _ _ _ E1 E2) as [x Hx]. rewrite Hx, app_assoc.
      apply model_req_ok, I.
    + apply Q2, Hq.
Qed.

Lemma faults_all_fault fs : forallb is_fault (faults fs) = true.
Proof. induction fs as [|f r IH]; cbn; [reflexivity|exact IH]. Qed.

Theorem monitor_model fs h T pre ops :
  0 <= T -> budget_ok T = true ->
  check_case (model_case (faults fs) h T pre ops) = true.
Proof.
  intros HT HB. unfold model_case.
  set (w := fresh_world (faults fs) h T).
  set (s0 := initialize_retrying fresh_mw w).
  assert (I0 : inv s0) by (apply inv_init_loop, inv_fresh).
  destruct (model_steps s0 ops) as [steps s1] eqn:M.
  destruct (model_steps_ok ops s0 steps s1 I0 M) as [_ Q].
  unfold check_case, all_reqs, step_reqs. cbn [dc_pre dc_steps dc_served].
  apply andb_true_intro. split; [apply andb_true_intro; split|].
  - apply forallb_forall. intros q Hq. apply in_app_or in Hq. destruct Hq as [Hq|Hq].
    + apply in_map_iff in Hq. destruct Hq as [rq [<- _]].
      pose proof (model_req_ok (fresh_mw, w) rq (w_log (snd s1)) (inv_fresh _ _ _)) as [E _].
      cbn [snd fresh_world w_log] in E. subst w. cbn [fresh_world w_log] in E.
      rewrite app_nil_r in E. exact E.
    + apply (Q [] q Hq).
  - apply forallb_forall. intros q Hq. apply in_app_or in Hq. destruct Hq as [Hq|Hq].
    + apply in_map_iff in Hq. destruct Hq as [rq [<- _]].
      pose proof (model_req_ok (fresh_mw, w) rq (w_log (snd s1)) (inv_fresh _ _ _)) as [_ E].
      cbn [snd fresh_world w_log] in E. subst w. cbn [fresh_world w_log] in E.
      rewrite app_nil_r in E. exact E.
    + apply (Q [] q Hq).
  - unfold heal_applies. cbn [dc_script dc_healthy]. rewrite faults_all_fault. cbn [andb].
    destruct (full_doc h) eqn:F; [|reflexivity].
    pose proof (initialize_retrying_heals fs h T HT HB) as Hh. cbv zeta in Hh.
    fold w in Hh. fold s0 in Hh. destruct Hh as [Hr [He [_ [[Hn0 Hn] _]]]].
    unfold heal_ok. cbn [dc_ready_ms dc_script dc_timeout dc_direct dc_ready_loc dc_healthy].
    unfold serving. rewrite Hr, He. unfold full_doc in F. apply andb_prop in F. destruct F as [F1 F2].
    rewrite F1. cbn [andb orb]. rewrite N.eqb_refl, andb_true_r.
    unfold faults. rewrite map_length. apply Z.leb_le.
    unfold heal_allowance_ms. apply Z.div_le_mono; [lia|].
    assert (heal_time (length fs) T <= heal_time (length fs) T * 9 / 8)
      by (apply Z.div_le_lower_bound; lia).
    unfold sec. lia.
Qed.
