(* The cookie layer (kernel of property C07): chunking, token store/read round
   trip, and the browser-jar round trip of Save / Clear, for ALL tokens and
   jars.  Model: Model/Session.v (against /repo/session.go), Model/Codec.v. *)
From VF Require Import Base.Prelude Model.Session Model.Codec.
From Coq Require Import ZifyBool ZifyNat ZifyN FinFun.
Open Scope nat_scope.

(* ================================================================== 1a. chunking *)

(* The model of the session layer is symbolic about compressed token text:
   `whole t = [PSlice t 0; ...; PSlice t (nchunks t - 1)]` stands for the byte
   string compressToken(t) cut by splitIntoChunks.  The three facts below are
   what that abstraction relies on: the pieces concatenate back to the text,
   none is empty or longer than the limit, and their number is
   ceil(len / limit) — so `nchunks t >= 1` exactly when the text is non-empty,
   and the re-assembly `concat (map chunk ...)` of the model is faithful. *)

Definition cdiv (a n : nat) : nat := (a + n - 1) / n.

Lemma split_chunks_fuel_spec (A : Type) (n : nat) : 0 < n ->
  forall fuel (s : list A), length s <= fuel ->
    concat (split_chunks_fuel fuel n s) = s
    /\ Forall (fun p => 1 <= length p <= n) (split_chunks_fuel fuel n s)
    /\ length (split_chunks_fuel fuel n s) = cdiv (length s) n.
Proof.
  intros Hn. induction fuel as [|f IH]; intros s Hlen.
  - destruct s as [|x s]; [|cbn in Hlen; lia]. cbn. unfold cdiv. cbn.
    repeat split; [constructor|]. symmetry. apply Nat.div_small. lia.
  - destruct s as [|x s].
    + cbn. unfold cdiv. cbn. repeat split; [constructor|]. symmetry. apply Nat.div_small. lia.
    + cbn [split_chunks_fuel]. destruct (Nat.ltb n (length (x :: s))) eqn:El.
      * apply Nat.ltb_lt in El.
        assert (Hsk : length (skipn n (x :: s)) = length (x :: s) - n) by apply skipn_length.
        set (L := length (x :: s)) in *.
        destruct (IH (skipn n (x :: s))) as (Hc & Hf & Hl); [lia|].
        repeat split.
        -- cbn [concat]. rewrite Hc. apply firstn_skipn.
        -- constructor; [|exact Hf]. rewrite firstn_length. fold L. lia.
        -- cbn [length]. rewrite Hl, Hsk. unfold cdiv.
           replace (L + n - 1) with ((L - n + n - 1) + 1 * n) by lia.
           rewrite Nat.div_add by lia. lia.
      * apply Nat.ltb_ge in El. cbn [concat]. rewrite app_nil_r.
        set (L := length (x :: s)) in *.
        assert (HL : 1 <= L) by (subst L; cbn [length]; lia).
        repeat split.
        -- constructor; [|constructor]. fold L. lia.
        -- cbn [length]. unfold cdiv.
           apply (Nat.div_unique (L + n - 1) n 1 (L - 1)); lia.
Qed.

Theorem split_chunks_concat (A : Type) (n : nat) (s : list A) :
  0 < n -> concat (split_chunks n s) = s.
Proof. intros Hn. apply (split_chunks_fuel_spec A n Hn (length s) s). lia. Qed.

Theorem split_chunks_sizes (A : Type) (n : nat) (s : list A) :
  0 < n -> Forall (fun p => 1 <= length p <= n) (split_chunks n s).
Proof. intros Hn. apply (split_chunks_fuel_spec A n Hn (length s) s). lia. Qed.

Theorem split_chunks_count (A : Type) (n : nat) (s : list A) :
  0 < n -> length (split_chunks n s) = cdiv (length s) n.
Proof. intros Hn. apply (split_chunks_fuel_spec A n Hn (length s) s). lia. Qed.

(* every piece but the last is full: the chunk cookies are cut at exactly the limit *)
Lemma split_chunks_fuel_full (A : Type) (n : nat) : 0 < n ->
  forall fuel (s : list A) i, length s <= fuel ->
    S i < length (split_chunks_fuel fuel n s) ->
    length (nth i (split_chunks_fuel fuel n s) []) = n.
Proof.
  intros Hn. induction fuel as [|f IH]; intros s i Hlen Hi; [cbn in Hi; lia|].
  destruct s as [|x s]; [cbn in Hi; lia|].
  cbn [split_chunks_fuel] in *. destruct (Nat.ltb n (length (x :: s))) eqn:El.
  - apply Nat.ltb_lt in El. destruct i as [|i].
    + cbn [nth]. rewrite firstn_length. lia.
    + cbn [nth]. apply IH; [rewrite skipn_length; cbn [length] in *; lia|cbn [length] in Hi; lia].
  - cbn in Hi. lia.
Qed.

Theorem split_chunks_full (A : Type) (n : nat) (s : list A) i :
  0 < n -> S i < length (split_chunks n s) -> length (nth i (split_chunks n s) []) = n.
Proof. intros Hn. apply split_chunks_fuel_full; [exact Hn|lia]. Qed.

Example split_chunks_example :
  split_chunks 3 [1; 2; 3; 4; 5; 6; 7] = [[1; 2; 3]; [4; 5; 6]; [7]]
  /\ split_chunks 3 [1; 2; 3; 4; 5; 6] = [[1; 2; 3]; [4; 5; 6]]
  /\ split_chunks 3 (@nil nat) = [].
Proof. vm_compute. repeat split. Qed.

(* ================================================================== equalities *)

Lemma piece_eqb_eq a b : piece_eqb a b = true <-> a = b.
Proof.
  destruct a as [t i], b as [u j]. cbn. rewrite andb_true_iff, N.eqb_eq, Nat.eqb_eq.
  split; [intros [-> ->]; reflexivity|intros H; inversion H; auto].
Qed.

Lemma ctext_eqb_eq a : forall b, ctext_eqb a b = true <-> a = b.
Proof.
  induction a as [|x a IH]; intros [|y b]; cbn; try (split; [discriminate|discriminate]); [tauto|].
  rewrite andb_true_iff, piece_eqb_eq, IH. split; [intros [-> ->]; reflexivity|intros H; inversion H; auto].
Qed.

Lemma ctext_eqb_refl a : ctext_eqb a a = true.
Proof. apply ctext_eqb_eq. reflexivity. Qed.

Lemma tval_eqb_eq a b : tval_eqb a b = true <-> a = b.
Proof.
  destruct a, b; cbn; try (split; [discriminate|discriminate]); try tauto.
  rewrite N.eqb_eq. split; [intros ->; reflexivity|intros H; inversion H; auto].
Qed.

Lemma tval_eqb_refl a : tval_eqb a a = true.
Proof. apply tval_eqb_eq. reflexivity. Qed.

Lemma val_eqb_eq a b : val_eqb a b = true <-> a = b.
Proof.
  destruct a, b; cbn; try (split; [discriminate|discriminate]).
  - rewrite Bool.eqb_true_iff. split; [intros ->; reflexivity|intros H; inversion H; auto].
  - rewrite Z.eqb_eq. split; [intros ->; reflexivity|intros H; inversion H; auto].
  - rewrite N.eqb_eq. split; [intros ->; reflexivity|intros H; inversion H; auto].
  - rewrite ctext_eqb_eq. split; [intros ->; reflexivity|intros H; inversion H; auto].
Qed.

Lemma payload_eqb_eq a : forall b, payload_eqb a b = true <-> a = b.
Proof.
  induction a as [|[f v] a IH]; intros [|[g w] b]; cbn; try (split; [discriminate|discriminate]); [tauto|].
  rewrite !andb_true_iff, N.eqb_eq, val_eqb_eq, IH.
  split; [intros [[-> ->] ->]; reflexivity|intros H; inversion H; auto].
Qed.

Lemma cname_code_inj a b : cname_code a = cname_code b -> a = b.
Proof.
  destruct a as [| | |i|i], b as [| | |j|j]; unfold cname_code; intros H; try reflexivity; try lia;
    f_equal; lia.
Qed.

Lemma cname_eqb_eq a b : cname_eqb a b = true <-> a = b.
Proof.
  unfold cname_eqb. rewrite N.eqb_eq. split; [apply cname_code_inj|intros ->; reflexivity].
Qed.

Lemma cname_eqb_refl a : cname_eqb a a = true.
Proof. apply cname_eqb_eq. reflexivity. Qed.

Lemma cname_eqb_neq a b : cname_eqb a b = false <-> a <> b.
Proof. rewrite <- cname_eqb_eq. destruct (cname_eqb a b); split; congruence. Qed.

Lemma cname_eqb_sym a b : cname_eqb a b = cname_eqb b a.
Proof. unfold cname_eqb. apply N.eqb_sym. Qed.

Lemma cname_eq_dec (a b : cname) : {a = b} + {a <> b}.
Proof.
  destruct (cname_eqb a b) eqn:E; [left; apply cname_eqb_eq, E|right; apply cname_eqb_neq, E].
Qed.

(* ================================================================== payload fields *)

Lemma getf_setf_same f v p : getf f (setf f v p) = Some v.
Proof.
  unfold getf. induction p as [|[g w] p IH]; cbn; [rewrite N.eqb_refl; reflexivity|].
  destruct (N.eqb f g) eqn:E1; cbn; [rewrite N.eqb_refl; reflexivity|].
  destruct (N.ltb f g) eqn:E2; cbn; [rewrite N.eqb_refl; reflexivity|].
  rewrite E1. exact IH.
Qed.

Lemma getf_setf_other f g v p : f <> g -> getf f (setf g v p) = getf f p.
Proof.
  intros Hne. apply N.eqb_neq in Hne. unfold getf.
  induction p as [|[h w] p IH]; cbn; [rewrite Hne; reflexivity|].
  destruct (N.eqb g h) eqn:E1; cbn.
  - apply N.eqb_eq in E1. subst h. rewrite Hne. reflexivity.
  - destruct (N.ltb g h) eqn:E2; cbn; [rewrite Hne; reflexivity|].
    destruct (N.eqb f h); [reflexivity|exact IH].
Qed.

Lemma get_bool_setf_same f b p : get_bool f (setf f (VB b) p) = b.
Proof. unfold get_bool. rewrite getf_setf_same. reflexivity. Qed.
Lemma get_bool_setf_other f g v p : f <> g -> get_bool f (setf g v p) = get_bool f p.
Proof. intros H. unfold get_bool. rewrite getf_setf_other by exact H. reflexivity. Qed.
Lemma get_str_setf_same f s p : get_str f (setf f (VS s) p) = s.
Proof. unfold get_str. rewrite getf_setf_same. reflexivity. Qed.
Lemma get_str_setf_other f g v p : f <> g -> get_str f (setf g v p) = get_str f p.
Proof. intros H. unfold get_str. rewrite getf_setf_other by exact H. reflexivity. Qed.
Lemma get_text_setf_same f c p : get_text f (setf f (VC c) p) = c.
Proof. unfold get_text. rewrite getf_setf_same. reflexivity. Qed.
Lemma get_text_setf_other f g v p : f <> g -> get_text f (setf g v p) = get_text f p.
Proof. intros H. unfold get_text. rewrite getf_setf_other by exact H. reflexivity. Qed.

(* ================================================================== 1b. token store / read *)

Section Tokens.
  Variable nchunks : istr -> nat.

  Lemma whole_cons t : 1 <= nchunks t ->
    whole nchunks t = PSlice t 0 :: map (PSlice t) (seq 1 (nchunks t - 1)).
  Proof.
    intros H. unfold whole. destruct (nchunks t) as [|n]; [lia|].
    cbn [seq map]. rewrite Nat.sub_succ, Nat.sub_0_r. reflexivity.
  Qed.

  (* decompressing exactly what compressToken produced gives the token back *)
  Theorem dec_whole t : 1 <= nchunks t ->
    dec nchunks (whole nchunks t) = (if N.eqb t 0 then TEmpty else TTok t).
  Proof.
    intros H. unfold dec. pose proof (whole_cons t H) as Hw.
    destruct (whole nchunks t) as [|[u i] c] eqn:Ew; [discriminate|].
    injection Hw as -> -> _. rewrite Ew, ctext_eqb_refl. reflexivity.
  Qed.

  Lemma joined_chunks t l :
    concat (map (get_text 1) (map (fun i => [(1%N, VC [PSlice t i])]) l)) = map (PSlice t) l.
  Proof. induction l as [|i l IH]; cbn; [reflexivity|]. f_equal. exact IH. Qed.

  (* SetAccessToken then GetAccessToken on the same SessionData, single-cookie and chunked *)
  Theorem read_store t old : 1 <= nchunks t ->
    let '(tk, ch) := store_token nchunks t old in
    read_token nchunks tk ch = (if N.eqb t 0 then TEmpty else TTok t).
  Proof.
    intros H. unfold store_token. destruct (Nat.leb (nchunks t) 1) eqn:El.
    - unfold read_token. rewrite get_text_setf_same.
      rewrite get_bool_setf_other by discriminate. rewrite get_bool_setf_same.
      pose proof (dec_whole t H) as Hd. pose proof (whole_cons t H) as Hw.
      destruct (whole nchunks t) as [|x c]; [discriminate|]. exact Hd.
    - apply Nat.leb_gt in El. unfold read_token. rewrite get_text_setf_same.
      rewrite get_bool_setf_other by discriminate. rewrite get_bool_setf_same.
      rewrite joined_chunks. fold (whole nchunks t).
      pose proof (dec_whole t H) as Hd.
      destruct (seq 0 (nchunks t)) as [|x l] eqn:Es; [|exact Hd].
      apply (f_equal (@length nat)) in Es. rewrite seq_length in Es. cbn in Es. lia.
  Qed.

  Corollary get_access_set_access t sd : 1 <= nchunks t ->
    get_access nchunks (set_access nchunks t sd) = (if N.eqb t 0 then TEmpty else TTok t).
  Proof.
    intros H. unfold get_access, set_access. pose proof (read_store t (s_acc sd) H) as R.
    destruct (store_token nchunks t (s_acc sd)) as [a ch]. exact R.
  Qed.

  Corollary get_refresh_set_refresh t sd : 1 <= nchunks t ->
    get_refresh nchunks (set_refresh nchunks t sd) = (if N.eqb t 0 then TEmpty else TTok t).
  Proof.
    intros H. unfold get_refresh, set_refresh. pose proof (read_store t (s_ref sd) H) as R.
    destruct (store_token nchunks t (s_ref sd)) as [a ch]. exact R.
  Qed.

End Tokens.

(* ================================================================== 1c. the browser's cookie jar *)

Definition names (j : jar) : list cname := map fst j.

(* produced by this deployment's codec (key k) for the very name it sits under *)
Definition sealed_own (k : N) (e : cname * cookie) : Prop := exists p, snd e = Sealed k (fst e) p.

(* every cookie is sealed under k for its own name (no junk, no foreign key, no
   renamed cookie), names are unique, and the chunk cookies present are exactly
   the indices 0..a-1 (access) and 0..r-1 (refresh): no gaps *)
Definition contiguous_at (k : N) (a r : nat) (j : jar) : Prop :=
  Forall (sealed_own k) j
  /\ NoDup (names j)
  /\ (forall i, In (CAccChunk i) (names j) <-> i < a)
  /\ (forall i, In (CRefChunk i) (names j) <-> i < r).

Definition contiguous (k : N) (j : jar) : Prop := exists a r, contiguous_at k a r j.

Theorem contiguous_empty k : contiguous k [].
Proof.
  exists 0, 0. repeat split; try constructor; cbn; try tauto; lia.
Qed.

(* ---------------------------------------------------------------- jar_get / jar_remove *)

Lemma jar_get_In n j c : jar_get n j = Some c -> In (n, c) j.
Proof.
  induction j as [|[m d] j IH]; cbn; [discriminate|].
  destruct (cname_eqb n m) eqn:E.
  - apply cname_eqb_eq in E. subst m. intros H. inversion H. left. reflexivity.
  - intros H. right. apply IH, H.
Qed.

Lemma jar_get_None n j : jar_get n j = None <-> ~ In n (names j).
Proof.
  induction j as [|[m d] j IH]; cbn; [tauto|].
  destruct (cname_eqb n m) eqn:E.
  - apply cname_eqb_eq in E. subst m. split; [discriminate|tauto].
  - apply cname_eqb_neq in E. rewrite IH. split; [intros H [H1|H1]; [congruence|tauto]|tauto].
Qed.

Lemma jar_get_Some_names n j : In n (names j) <-> jar_get n j <> None.
Proof.
  rewrite jar_get_None. destruct (in_dec cname_eq_dec n (names j)); tauto.
Qed.

Lemma jar_get_remove n m j : jar_get n (jar_remove m j) = if cname_eqb n m then None else jar_get n j.
Proof.
  induction j as [|[x d] j IH]; cbn; [destruct (cname_eqb n m); reflexivity|].
  destruct (cname_eqb m x) eqn:E1.
  - apply cname_eqb_eq in E1. subst x. rewrite IH. destruct (cname_eqb n m); reflexivity.
  - cbn. rewrite IH. destruct (cname_eqb n x) eqn:E2; [|reflexivity].
    apply cname_eqb_eq in E2. subst x. rewrite cname_eqb_sym, E1. reflexivity.
Qed.

Lemma names_remove x m j : In x (names (jar_remove m j)) <-> In x (names j) /\ x <> m.
Proof.
  rewrite !jar_get_Some_names, jar_get_remove. destruct (cname_eqb x m) eqn:E.
  - apply cname_eqb_eq in E. split; [congruence|tauto].
  - apply cname_eqb_neq in E. tauto.
Qed.

Lemma remove_incl m j : incl (jar_remove m j) j.
Proof.
  induction j as [|[x d] j IH]; cbn; [apply incl_refl|].
  destruct (cname_eqb m x); [apply incl_tl, IH|apply incl_cons; [left; reflexivity|apply incl_tl, IH]].
Qed.

Lemma remove_NoDup m j : NoDup (names j) -> NoDup (names (jar_remove m j)).
Proof.
  induction j as [|[x d] j IH]; cbn; [tauto|]. intros H. inversion H as [|? ? Hn Hd]; subst.
  destruct (cname_eqb m x); [apply IH, Hd|]. cbn. constructor; [|apply IH, Hd].
  fold (names (jar_remove m j)). rewrite names_remove. tauto.
Qed.

Lemma remove_sealed k m j : Forall (sealed_own k) j -> Forall (sealed_own k) (jar_remove m j).
Proof.
  rewrite !Forall_forall. intros H e He. apply H. apply (remove_incl m j), He.
Qed.

Lemma remove_length m j : length (jar_remove m j) <= length j.
Proof. induction j as [|[x d] j IH]; cbn; [lia|]. destruct (cname_eqb m x); cbn; lia. Qed.

(* ---------------------------------------------------------------- Set-Cookie application *)

Lemma jar_get_apply_cookie k n j m p d :
  jar_get n (apply_cookie k j (m, p, d)) =
  if cname_eqb n m then (if d then None else Some (Sealed k m p)) else jar_get n j.
Proof.
  unfold apply_cookie. destruct d.
  - rewrite jar_get_remove. reflexivity.
  - cbn [jar_get]. rewrite jar_get_remove. destruct (cname_eqb n m); reflexivity.
Qed.

Lemma apply_cookie_sealed k j sc : Forall (sealed_own k) j -> Forall (sealed_own k) (apply_cookie k j sc).
Proof.
  destruct sc as [[m p] d]. unfold apply_cookie. intros H. destruct d; [apply remove_sealed, H|].
  constructor; [exists p; reflexivity|apply remove_sealed, H].
Qed.

Lemma apply_cookie_NoDup k j sc : NoDup (names j) -> NoDup (names (apply_cookie k j sc)).
Proof.
  destruct sc as [[m p] d]. unfold apply_cookie. intros H. destruct d; [apply remove_NoDup, H|].
  cbn. constructor; [|apply remove_NoDup, H]. fold (names (jar_remove m j)). rewrite names_remove. tauto.
Qed.

Lemma apply_cookies_cons k j sc l : apply_cookies k j (sc :: l) = apply_cookies k (apply_cookie k j sc) l.
Proof. reflexivity. Qed.

Lemma apply_cookies_app k j l1 l2 : apply_cookies k j (l1 ++ l2) = apply_cookies k (apply_cookies k j l1) l2.
Proof. unfold apply_cookies. apply fold_left_app. Qed.

Lemma apply_cookies_sealed k l : forall j, Forall (sealed_own k) j -> Forall (sealed_own k) (apply_cookies k j l).
Proof.
  induction l as [|sc l IH]; intros j H; [exact H|]. rewrite apply_cookies_cons. apply IH, apply_cookie_sealed, H.
Qed.

Lemma apply_cookies_NoDup k l : forall j, NoDup (names j) -> NoDup (names (apply_cookies k j l)).
Proof.
  induction l as [|sc l IH]; intros j H; [exact H|]. rewrite apply_cookies_cons. apply IH, apply_cookie_NoDup, H.
Qed.

(* the last Set-Cookie for a name in a response decides *)
Fixpoint last_sc (n : cname) (l : list setcookie) : option (payload * bool) :=
  match l with
  | [] => None
  | (m, p, d) :: r =>
      match last_sc n r with
      | Some x => Some x
      | None => if cname_eqb n m then Some (p, d) else None
      end
  end.

Definition after_sc (k : N) (n : cname) (o : option (payload * bool)) (old : option cookie) : option cookie :=
  match o with
  | Some (p, false) => Some (Sealed k n p)
  | Some (_, true) => None
  | None => old
  end.

Lemma jar_get_apply k n l : forall j,
  jar_get n (apply_cookies k j l) = after_sc k n (last_sc n l) (jar_get n j).
Proof.
  induction l as [|[[m p] d] l IH]; intros j; [reflexivity|].
  rewrite apply_cookies_cons, IH. cbn [last_sc].
  destruct (last_sc n l) as [[q e]|]; [reflexivity|].
  cbn [after_sc]. rewrite jar_get_apply_cookie. destruct (cname_eqb n m) eqn:E; [|reflexivity].
  apply cname_eqb_eq in E. subst m. destruct d; reflexivity.
Qed.

Lemma last_sc_app n l1 l2 :
  last_sc n (l1 ++ l2) = match last_sc n l2 with Some x => Some x | None => last_sc n l1 end.
Proof.
  induction l1 as [|[[m p] d] l1 IH]; cbn; [destruct (last_sc n l2); reflexivity|].
  rewrite IH. destruct (last_sc n l2); reflexivity.
Qed.

Lemma last_sc_miss n l : (forall sc, In sc l -> fst (fst sc) <> n) -> last_sc n l = None.
Proof.
  induction l as [|[[m p] d] l IH]; intros H; [reflexivity|]. cbn.
  rewrite IH by (intros sc Hsc; apply H; right; exact Hsc).
  destruct (cname_eqb n m) eqn:E; [|reflexivity]. apply cname_eqb_eq in E. subst m.
  exfalso. apply (H (n, p, d)); [left; reflexivity|reflexivity].
Qed.

(* ---------------------------------------------------------------- the cookies of one Save *)

Definition inj_names (mk : nat -> cname) : Prop := forall i j, mk i = mk j -> i = j.

Lemma inj_acc : inj_names CAccChunk.
Proof. intros i j H. inversion H. reflexivity. Qed.
Lemma inj_ref : inj_names CRefChunk.
Proof. intros i j H. inversion H. reflexivity. Qed.

Lemma in_number_from mk l : forall i0 sc, In sc (number_from mk i0 l) ->
  exists i, i0 <= i < i0 + length l /\ sc = (mk i, nth (i - i0) l [], false).
Proof.
  induction l as [|p l IH]; intros i0 sc; cbn; [tauto|]. intros [H|H].
  - exists i0. split; [lia|]. rewrite Nat.sub_diag. symmetry. exact H.
  - destruct (IH _ _ H) as (i & Hi & ->). exists i. split; [lia|].
    replace (i - i0) with (S (i - S i0)) by lia. reflexivity.
Qed.

Lemma last_sc_number_from_hit mk (Hinj : inj_names mk) l : forall i0 i, i < length l ->
  last_sc (mk (i0 + i)) (number_from mk i0 l) = Some (nth i l [], false).
Proof.
  induction l as [|p l IH]; intros i0 i Hi; [cbn in Hi; lia|]. cbn [number_from last_sc].
  destruct i as [|i].
  - rewrite last_sc_miss.
    + rewrite Nat.add_0_r, cname_eqb_refl. reflexivity.
    + intros sc Hsc. destruct (in_number_from _ _ _ _ Hsc) as (x & Hx & ->). cbn. intros Hc.
      apply Hinj in Hc. lia.
  - replace (i0 + S i) with (S i0 + i) by lia. rewrite IH by (cbn in Hi; lia). reflexivity.
Qed.

Lemma last_sc_number_from_miss mk l i0 n :
  (forall i, i0 <= i < i0 + length l -> n <> mk i) -> last_sc n (number_from mk i0 l) = None.
Proof.
  intros H. apply last_sc_miss. intros sc Hsc.
  destruct (in_number_from _ _ _ _ Hsc) as (x & Hx & ->). cbn. intros Hc. apply (H x Hx). congruence.
Qed.

Lemma in_deletions mk marked ij cur sc : In sc (deletions mk marked ij cur) ->
  marked = true /\ exists i, cur <= i < ij /\ sc = (mk i, [], true).
Proof.
  unfold deletions. destruct marked; [|cbn; tauto]. rewrite in_map_iff. intros (i & <- & Hi).
  apply in_seq in Hi. split; [reflexivity|]. exists i. split; [lia|reflexivity].
Qed.

Lemma last_sc_deletions_miss mk marked ij cur n :
  (marked = true -> forall i, cur <= i < ij -> n <> mk i) -> last_sc n (deletions mk marked ij cur) = None.
Proof.
  intros H. apply last_sc_miss. intros sc Hsc.
  destruct (in_deletions _ _ _ _ _ Hsc) as (Hm & x & Hx & ->). cbn. intros Hc. apply (H Hm x Hx). congruence.
Qed.

Lemma last_sc_dels (mk : nat -> cname) n l x :
  last_sc n (map (fun i => (mk i, @nil (N * val), true)) l) = Some x -> x = ([], true).
Proof.
  induction l as [|i l IH]; cbn; [discriminate|].
  destruct (last_sc n (map (fun i => (mk i, @nil (N * val), true)) l)) as [y|]; [intros H; inversion H; subst; apply IH; reflexivity|].
  destruct (cname_eqb n (mk i)); [intros H; inversion H; reflexivity|discriminate].
Qed.

Lemma last_sc_deletions_hit mk ij cur i : cur <= i < ij ->
  last_sc (mk i) (deletions mk true ij cur) = Some ([], true).
Proof.
  intros Hi. unfold deletions.
  assert (Hin : In i (seq cur (ij - cur))) by (apply in_seq; lia).
  revert Hin. generalize (seq cur (ij - cur)) as l. induction l as [|x l IH]; cbn; [tauto|].
  intros Hin.
  destruct (last_sc (mk i) (map (fun i => (mk i, @nil (N * val), true)) l)) as [y|] eqn:E.
  - apply last_sc_dels in E. subst y. reflexivity.
  - destruct Hin as [->|Hin]; [rewrite cname_eqb_refl; reflexivity|]. apply IH in Hin. discriminate.
Qed.

(* what one Save says about each cookie name *)
Definition saved_chunk (l : list payload) (marked : bool) (in_jar i : nat) : option (payload * bool) :=
  if Nat.ltb i (length l) then Some (nth i l [], false)
  else if marked && Nat.ltb i in_jar then Some ([], true) else None.

Definition saved (sd : sdata) (n : cname) : option (payload * bool) :=
  match n with
  | CMain => Some (s_main sd, false)
  | CAcc => Some (s_acc sd, false)
  | CRef => Some (s_ref sd, false)
  | CAccChunk i => saved_chunk (s_achunks sd) (s_marked_a sd) (s_jar_a sd) i
  | CRefChunk i => saved_chunk (s_rchunks sd) (s_marked_r sd) (s_jar_r sd) i
  end.

Lemma last_sc_chunk_segment mk (Hinj : inj_names mk) l marked ij i :
  match last_sc (mk i) (deletions mk marked ij (length l)) with
  | Some x => Some x
  | None => last_sc (mk i) (number_from mk 0 l)
  end = saved_chunk l marked ij i.
Proof.
  unfold saved_chunk. destruct (Nat.ltb i (length l)) eqn:E1.
  - apply Nat.ltb_lt in E1. rewrite last_sc_deletions_miss.
    + apply (last_sc_number_from_hit mk Hinj l 0 i E1).
    + intros _ x Hx Hc. apply Hinj in Hc. lia.
  - apply Nat.ltb_ge in E1. destruct marked; cbn [andb].
    + destruct (Nat.ltb i ij) eqn:E2.
      * apply Nat.ltb_lt in E2. rewrite last_sc_deletions_hit by lia. reflexivity.
      * apply Nat.ltb_ge in E2. rewrite last_sc_deletions_miss.
        -- apply last_sc_number_from_miss. intros x Hx Hc. apply Hinj in Hc. lia.
        -- intros _ x Hx Hc. apply Hinj in Hc. lia.
    + rewrite last_sc_deletions_miss by discriminate.
      apply last_sc_number_from_miss. intros x Hx Hc. apply Hinj in Hc. lia.
Qed.

Lemma last_sc_other_number_from mk l i0 n : (forall i, n <> mk i) -> last_sc n (number_from mk i0 l) = None.
Proof. intros H. apply last_sc_number_from_miss. intros i _. apply H. Qed.

Lemma last_sc_other_deletions mk marked ij cur n : (forall i, n <> mk i) -> last_sc n (deletions mk marked ij cur) = None.
Proof. intros H. apply last_sc_deletions_miss. intros _ i _. apply H. Qed.

Lemma last_sc_fixed_other (a b c : payload) n : n <> CMain -> n <> CAcc -> n <> CRef ->
  last_sc n [(CMain, a, false); (CAcc, b, false); (CRef, c, false)] = None.
Proof.
  intros H1 H2 H3. apply last_sc_miss. intros sc [<-|[<-|[<-|[]]]]; cbn; congruence.
Qed.

Lemma last_sc_save sd n : last_sc n (save_cookies sd) = saved sd n.
Proof.
  unfold save_cookies. rewrite !last_sc_app.
  destruct n as [| | |i|i]; cbn [saved].
  - rewrite !last_sc_other_deletions, !last_sc_other_number_from by discriminate. reflexivity.
  - rewrite !last_sc_other_deletions, !last_sc_other_number_from by discriminate. reflexivity.
  - rewrite !last_sc_other_deletions, !last_sc_other_number_from by discriminate. reflexivity.
  - rewrite (last_sc_other_deletions CRefChunk), (last_sc_other_number_from CRefChunk) by discriminate.
    rewrite last_sc_fixed_other by discriminate.
    rewrite <- (last_sc_chunk_segment CAccChunk inj_acc).
    destruct (last_sc (CAccChunk i) (deletions CAccChunk (s_marked_a sd) (s_jar_a sd) (length (s_achunks sd)))); [reflexivity|].
    destruct (last_sc (CAccChunk i) (number_from CAccChunk 0 (s_achunks sd))); reflexivity.
  - rewrite (last_sc_other_deletions CAccChunk), (last_sc_other_number_from CAccChunk) by discriminate.
    rewrite last_sc_fixed_other by discriminate.
    rewrite <- (last_sc_chunk_segment CRefChunk inj_ref).
    destruct (last_sc (CRefChunk i) (deletions CRefChunk (s_marked_r sd) (s_jar_r sd) (length (s_rchunks sd)))); [reflexivity|].
    destruct (last_sc (CRefChunk i) (number_from CRefChunk 0 (s_rchunks sd))); reflexivity.
Qed.

Lemma jar_get_after_save k j sd n :
  jar_get n (apply_cookies k j (save_cookies sd)) = after_sc k n (saved sd n) (jar_get n j).
Proof. rewrite jar_get_apply, last_sc_save. reflexivity. Qed.

(* ---------------------------------------------------------------- reading a jar *)

Lemma get_session_sealed k n j p : jar_get n j = Some (Sealed k n p) -> get_session k n j = (p, true).
Proof.
  unfold get_session. intros ->. cbn [decode]. rewrite N.eqb_refl, cname_eqb_refl. reflexivity.
Qed.

Lemma get_session_none k n j : jar_get n j = None -> get_session k n j = ([], false).
Proof. unfold get_session. intros ->. reflexivity. Qed.

Lemma jar_get_sealed k j n c : Forall (sealed_own k) j -> jar_get n j = Some c -> exists p, c = Sealed k n p.
Proof.
  intros HF H. apply jar_get_In in H. rewrite Forall_forall in HF.
  destruct (HF _ H) as [p Hp]. exists p. exact Hp.
Qed.

Lemma load_chunks_length k mk j ca :
  Forall (sealed_own k) j -> (forall i, In (mk i) (names j) <-> i < ca) ->
  forall fuel i0, i0 <= ca -> ca - i0 <= fuel -> length (load_chunks k mk j i0 fuel) = ca - i0.
Proof.
  intros HF Hc. induction fuel as [|fuel IH]; intros i0 H1 H2; [cbn; lia|].
  cbn [load_chunks]. destruct (Nat.eq_dec i0 ca) as [->|Hne].
  - rewrite get_session_none; [cbn; lia|]. apply jar_get_None. rewrite Hc. lia.
  - assert (Hin : In (mk i0) (names j)) by (apply Hc; lia).
    apply jar_get_Some_names in Hin. destruct (jar_get (mk i0) j) as [c|] eqn:E; [|congruence].
    destruct (jar_get_sealed _ _ _ _ HF E) as [p ->]. rewrite (get_session_sealed _ _ _ _ E).
    cbn [length]. rewrite IH by lia. lia.
Qed.

Lemma load_chunks_exact k mk j l : forall i0 fuel, length l <= fuel ->
  (forall i, i < length l -> jar_get (mk (i0 + i)) j = Some (Sealed k (mk (i0 + i)) (nth i l []))) ->
  jar_get (mk (i0 + length l)) j = None ->
  load_chunks k mk j i0 fuel = l.
Proof.
  induction l as [|p l IH]; intros i0 fuel Hf Hh Hn; cbn [length] in *.
  - destruct fuel; [reflexivity|]. cbn [load_chunks]. rewrite Nat.add_0_r in Hn.
    rewrite get_session_none by exact Hn. reflexivity.
  - destruct fuel; [lia|]. cbn [load_chunks].
    assert (H0 := Hh 0 ltac:(lia)). rewrite Nat.add_0_r in H0. cbn [nth] in H0.
    rewrite (get_session_sealed _ _ _ _ H0). f_equal. apply IH; [lia| |].
    + intros i Hi. replace (S i0 + i) with (i0 + S i) by lia. apply (Hh (S i)). lia.
    + replace (S i0 + length l) with (i0 + S (length l)) by lia. exact Hn.
Qed.

Lemma names_length_ge mk (Hinj : inj_names mk) j n : (forall i, i < n -> In (mk i) (names j)) -> n <= length j.
Proof.
  intros H. rewrite <- (map_length fst j). fold (names j).
  rewrite <- (seq_length n 0), <- (map_length mk). apply NoDup_incl_length.
  - apply FinFun.Injective_map_NoDup; [exact Hinj|apply seq_NoDup].
  - intros x Hx. apply in_map_iff in Hx as (i & <- & Hi). apply in_seq in Hi. apply H. lia.
Qed.

(* what the next GetSession finds in jar j (when the session is not past the absolute timeout) *)
Definition jar_holds (k : N) (j : jar) (m a r : payload) (ac rc : list payload) : Prop :=
  contiguous_at k (length ac) (length rc) j
  /\ fst (get_session k CMain j) = m
  /\ fst (get_session k CAcc j) = a
  /\ fst (get_session k CRef j) = r
  /\ load_chunks k CAccChunk j 0 (length j) = ac
  /\ load_chunks k CRefChunk j 0 (length j) = rc.

Definition holds_session (k : N) (j : jar) (sd : sdata) : Prop :=
  jar_holds k j (s_main sd) (s_acc sd) (s_ref sd) (s_achunks sd) (s_rchunks sd).

Lemma contiguous_counts k ca cr j : contiguous_at k ca cr j ->
  length (load_chunks k CAccChunk j 0 (length j)) = ca
  /\ length (load_chunks k CRefChunk j 0 (length j)) = cr.
Proof.
  intros (HF & HN & Ha & Hr). split.
  - rewrite (load_chunks_length k CAccChunk j ca HF Ha); [lia|lia|].
    pose proof (names_length_ge CAccChunk inj_acc j ca (fun i Hi => proj2 (Ha i) Hi)). lia.
  - rewrite (load_chunks_length k CRefChunk j cr HF Hr); [lia|lia|].
    pose proof (names_length_ge CRefChunk inj_ref j cr (fun i Hi => proj2 (Hr i) Hi)). lia.
Qed.

Lemma contiguous_holds k ca cr j : contiguous_at k ca cr j ->
  jar_holds k j (fst (get_session k CMain j)) (fst (get_session k CAcc j)) (fst (get_session k CRef j))
            (load_chunks k CAccChunk j 0 (length j)) (load_chunks k CRefChunk j 0 (length j)).
Proof.
  intros H. destruct (contiguous_counts _ _ _ _ H) as [Ea Er]. unfold jar_holds. rewrite Ea, Er.
  repeat split; apply H.
Qed.

Lemma holds_contiguous k j m a r ac rc : jar_holds k j m a r ac rc -> contiguous k j.
Proof. intros H. exists (length ac), (length rc). apply H. Qed.

Lemma present_chunks_count mk j ca :
  (forall i, In (mk i) (names j) <-> i < ca) ->
  forall fuel i0, i0 <= ca -> ca - i0 <= fuel -> present_chunks mk j i0 fuel = ca - i0.
Proof.
  intros Hc. induction fuel as [|fuel IH]; intros i0 H1 H2; [cbn; lia|].
  cbn [present_chunks]. destruct (Nat.eq_dec i0 ca) as [->|Hne].
  - assert (E : jar_get (mk ca) j = None) by (apply jar_get_None; rewrite Hc; lia).
    rewrite E. lia.
  - assert (Hin : In (mk i0) (names j)) by (apply Hc; lia).
    apply jar_get_Some_names in Hin. destruct (jar_get (mk i0) j) as [c|] eqn:E; [|congruence].
    rewrite IH by lia. lia.
Qed.

Lemma contiguous_present k ca cr j : contiguous_at k ca cr j ->
  present_chunks CAccChunk j 0 (length j) = ca /\ present_chunks CRefChunk j 0 (length j) = cr.
Proof.
  intros (HF & HN & Ha & Hr). split.
  - rewrite (present_chunks_count CAccChunk j ca Ha); [lia|lia|].
    pose proof (names_length_ge CAccChunk inj_acc j ca (fun i Hi => proj2 (Ha i) Hi)). lia.
  - rewrite (present_chunks_count CRefChunk j cr Hr); [lia|lia|].
    pose proof (names_length_ge CRefChunk inj_ref j cr (fun i Hi => proj2 (Hr i) Hi)). lia.
Qed.

Lemma load_of_holds k now j m a r ac rc :
  jar_holds k j m a r ac rc -> session_too_old now m = false ->
  load k now j = mkSd m a r ac rc (length ac) (length rc) false false true.
Proof.
  intros (Hc & Hm & Ha & Hr & Hac & Hrc) Hold. destruct (contiguous_present _ _ _ _ Hc) as [Pa Pr].
  unfold load. rewrite Hm, Ha, Hr, Hac, Hrc, Hold, Pa, Pr. reflexivity.
Qed.

Lemma load_of_holds_old k now j m a r ac rc :
  jar_holds k j m a r ac rc -> session_too_old now m = true ->
  load k now j = mkSd [] [] [] (empty_payloads ac) (empty_payloads rc) (length ac) (length rc) false false true.
Proof.
  intros (Hc & Hm & Ha & Hr & Hac & Hrc) Hold. destruct (contiguous_present _ _ _ _ Hc) as [Pa Pr].
  unfold load. rewrite Hm, Ha, Hr, Hac, Hrc, Hold, Pa, Pr. reflexivity.
Qed.

(* ---------------------------------------------------------------- one Save applied to a jar *)

(* the Save covers every chunk cookie of the jar: either it rewrites at least as
   many chunks as the jar holds, or the surplus is scheduled for deletion *)
Definition cov (c len : nat) (marked : bool) (in_jar : nat) : Prop :=
  c <= len \/ (marked = true /\ c <= in_jar).

Lemma saved_chunk_present k mk l marked ij c i old :
  cov c (length l) marked ij -> (old <> None <-> i < c) ->
  after_sc k (mk i) (saved_chunk l marked ij i) old <> None <-> i < length l.
Proof.
  intros Hcov Hold. unfold saved_chunk. destruct (Nat.ltb i (length l)) eqn:E1.
  - apply Nat.ltb_lt in E1. cbn. split; [intros _; exact E1|discriminate].
  - apply Nat.ltb_ge in E1. destruct (marked && Nat.ltb i ij) eqn:E2; cbn [after_sc].
    + split; [congruence|lia].
    + rewrite Hold. destruct Hcov as [Hc|[-> Hc]]; [lia|]. cbn in E2. apply Nat.ltb_ge in E2. lia.
Qed.

(* the chunk cookies PRESENT in the jar form a prefix 0..a-1 / 0..r-1, with any
   content: undecodable cookies (junk, another key, renamed) allowed under every name *)
Definition prefix_at (a r : nat) (j : jar) : Prop :=
  NoDup (names j)
  /\ (forall i, In (CAccChunk i) (names j) <-> i < a)
  /\ (forall i, In (CRefChunk i) (names j) <-> i < r).

Lemma contiguous_prefix k a r j : contiguous_at k a r j -> prefix_at a r j.
Proof. intros (_ & HN & Ha & Hr). repeat split; try apply Ha; try apply Hr; exact HN. Qed.

Lemma In_jar_get n c j : NoDup (names j) -> In (n, c) j -> jar_get n j = Some c.
Proof.
  induction j as [|[m d] r IH]; intros Hnd Hin; [destruct Hin|]. cbn [jar_get].
  cbn [names map fst] in Hnd. inversion Hnd as [|x l Hni Hnd']; subst.
  destruct Hin as [E|Hin].
  - inversion E; subst. rewrite cname_eqb_refl. reflexivity.
  - destruct (cname_eqb n m) eqn:E.
    + apply cname_eqb_eq in E. subst. exfalso. apply Hni. change (In (fst (m, c)) (map fst r)). apply in_map, Hin.
    + apply IH; assumption.
Qed.

(* HEALING.  One Save whose chunk lists cover the jar's chunk cookies (see cov)
   turns ANY jar whose chunk cookies form a prefix -- decodable or not -- into a
   contiguous jar that holds exactly the saved session: the main and token
   cookies are always rewritten, chunk cookies below the new count are rewritten,
   the others deleted. *)
Theorem save_heals k j sd ca cr :
  prefix_at ca cr j ->
  cov ca (length (s_achunks sd)) (s_marked_a sd) (s_jar_a sd) ->
  cov cr (length (s_rchunks sd)) (s_marked_r sd) (s_jar_r sd) ->
  holds_session k (apply_cookies k j (save_cookies sd)) sd.
Proof.
  intros (HN & Ha & Hr) Hca Hcr. set (j' := apply_cookies k j (save_cookies sd)).
  assert (Ha' : forall i, In (CAccChunk i) (names j') <-> i < length (s_achunks sd)).
  { intros i. rewrite jar_get_Some_names. unfold j'. rewrite jar_get_after_save. cbn [saved].
    apply (saved_chunk_present k CAccChunk _ _ _ ca); [exact Hca|]. rewrite <- jar_get_Some_names. apply Ha. }
  assert (Hr' : forall i, In (CRefChunk i) (names j') <-> i < length (s_rchunks sd)).
  { intros i. rewrite jar_get_Some_names. unfold j'. rewrite jar_get_after_save. cbn [saved].
    apply (saved_chunk_present k CRefChunk _ _ _ cr); [exact Hcr|]. rewrite <- jar_get_Some_names. apply Hr. }
  assert (HN' : NoDup (names j')) by (apply apply_cookies_NoDup, HN).
  unfold holds_session, jar_holds. repeat split.
  - apply Forall_forall. intros [n c] Hin. unfold sealed_own. cbn [fst snd].
    pose proof (In_jar_get n c j' HN' Hin) as Hg. unfold j' in Hg. rewrite jar_get_after_save in Hg.
    assert (Hnm : In n (names j')) by (change (In (fst (n, c)) (map fst j')); apply in_map, Hin).
    destruct n as [| | |i|i]; cbn [saved] in Hg.
    + cbn in Hg. inversion Hg. eauto.
    + cbn in Hg. inversion Hg. eauto.
    + cbn in Hg. inversion Hg. eauto.
    + apply Ha' in Hnm. unfold saved_chunk in Hg. apply Nat.ltb_lt in Hnm. rewrite Hnm in Hg.
      cbn in Hg. inversion Hg. eauto.
    + apply Hr' in Hnm. unfold saved_chunk in Hg. apply Nat.ltb_lt in Hnm. rewrite Hnm in Hg.
      cbn in Hg. inversion Hg. eauto.
  - exact HN'.
  - apply Ha'.
  - apply Ha'.
  - apply Hr'.
  - apply Hr'.
  - rewrite (get_session_sealed k CMain j' (s_main sd)); [reflexivity|]. unfold j'. rewrite jar_get_after_save. reflexivity.
  - rewrite (get_session_sealed k CAcc j' (s_acc sd)); [reflexivity|]. unfold j'. rewrite jar_get_after_save. reflexivity.
  - rewrite (get_session_sealed k CRef j' (s_ref sd)); [reflexivity|]. unfold j'. rewrite jar_get_after_save. reflexivity.
  - apply load_chunks_exact.
    + apply (names_length_ge CAccChunk inj_acc). intros i Hi. apply Ha', Hi.
    + intros i Hi. cbn [Nat.add]. unfold j'. rewrite jar_get_after_save. cbn [saved]. unfold saved_chunk.
      destruct (Nat.ltb i (length (s_achunks sd))) eqn:E; [reflexivity|apply Nat.ltb_ge in E; unfold payload in *; lia].
    + cbn [Nat.add]. apply jar_get_None. rewrite Ha'. unfold payload. lia.
  - apply load_chunks_exact.
    + apply (names_length_ge CRefChunk inj_ref). intros i Hi. apply Hr', Hi.
    + intros i Hi. cbn [Nat.add]. unfold j'. rewrite jar_get_after_save. cbn [saved]. unfold saved_chunk.
      destruct (Nat.ltb i (length (s_rchunks sd))) eqn:E; [reflexivity|apply Nat.ltb_ge in E; unfold payload in *; lia].
    + cbn [Nat.add]. apply jar_get_None. rewrite Hr'. unfold payload. lia.
Qed.

Theorem save_holds k j sd ca cr :
  contiguous_at k ca cr j ->
  cov ca (length (s_achunks sd)) (s_marked_a sd) (s_jar_a sd) ->
  cov cr (length (s_rchunks sd)) (s_marked_r sd) (s_jar_r sd) ->
  holds_session k (apply_cookies k j (save_cookies sd)) sd.
Proof. intros Hc. apply save_heals. exact (contiguous_prefix _ _ _ _ Hc). Qed.

(* ---------------------------------------------------------------- sessions derived from a request *)

Lemma empty_payloads_length l : length (empty_payloads l) = length l.
Proof. apply map_length. Qed.

Definition cleared (sd : sdata) : sdata :=
  mkSd [] [] [] (empty_payloads (s_achunks sd)) (empty_payloads (s_rchunks sd))
       (s_jar_a sd) (s_jar_r sd) (s_marked_a sd) (s_marked_r sd) (s_live sd).

Lemma clear_snd sd : snd (clear sd) = save_cookies (cleared sd).
Proof. reflexivity. Qed.

Lemma clear_fst sd : fst (clear sd) =
  mkSd [] [] [] (empty_payloads (s_achunks sd)) (empty_payloads (s_rchunks sd))
       (s_jar_a sd) (s_jar_r sd) false false false.
Proof. reflexivity. Qed.

Section RoundTrip.
  Variable nchunks : istr -> nat.

  (* a session as the handlers hold it before the first Save: loaded from the
     request's jar, then modified by any sequence of setters *)
  Inductive pre (k : N) (now : time) (j : jar) : sdata -> Prop :=
  | pre_load : pre k now j (load k now j)
  | pre_main f s sd : pre k now j sd -> pre k now j (set_main f s sd)
  | pre_auth t b sd : pre k now j sd -> pre k now j (set_authenticated t b sd)
  | pre_acc t sd : pre k now j sd -> pre k now j (set_access nchunks t sd)
  | pre_ref t sd : pre k now j sd -> pre k now j (set_refresh nchunks t sd).

  Definition pre_inv (ca cr : nat) (sd : sdata) : Prop :=
    s_live sd = true /\ s_jar_a sd = ca /\ s_jar_r sd = cr
    /\ (s_marked_a sd = true \/ length (s_achunks sd) = ca)
    /\ (s_marked_r sd = true \/ length (s_rchunks sd) = cr).

  Lemma pre_invariant k now j ca cr sd : contiguous_at k ca cr j -> pre k now j sd -> pre_inv ca cr sd.
  Proof.
    intros Hc Hp. induction Hp as [|f s sd Hp IH|t b sd Hp IH|t sd Hp IH|t sd Hp IH].
    - destruct (contiguous_counts _ _ _ _ Hc) as [Ea Er]. destruct (contiguous_present _ _ _ _ Hc) as [Pa Pr].
      unfold load, pre_inv. rewrite Pa, Pr.
      destruct (session_too_old now (fst (get_session k CMain j))); cbn;
        rewrite ?empty_payloads_length; auto 10.
    - exact IH.
    - exact IH.
    - destruct IH as (Hl & Ha & Hr & Hma & Hmr). unfold set_access, pre_inv.
      destruct (store_token nchunks t (s_acc sd)) as [a ch]. cbn. rewrite Hl, orb_true_r. auto 10.
    - destruct IH as (Hl & Ha & Hr & Hma & Hmr). unfold set_refresh, pre_inv.
      destruct (store_token nchunks t (s_ref sd)) as [a ch]. cbn. rewrite Hl, orb_true_r. auto 10.
  Qed.

  Lemma pre_inv_cov ca cr sd : pre_inv ca cr sd ->
    cov ca (length (s_achunks sd)) (s_marked_a sd) (s_jar_a sd)
    /\ cov cr (length (s_rchunks sd)) (s_marked_r sd) (s_jar_r sd).
  Proof.
    intros (Hl & Ha & Hr & Hma & Hmr). unfold cov. split.
    - destruct Hma as [Hm|Hm]; [right; split; [exact Hm|lia]|left; lia].
    - destruct Hmr as [Hm|Hm]; [right; split; [exact Hm|lia]|left; lia].
  Qed.

  (* THE JAR ROUND TRIP.  Whatever the handlers did to the session before
     saving, after the browser applied the Set-Cookie headers of Save its jar is
     contiguous again and holds exactly the saved session: the stale chunk
     cookies (indices >= the new count) were deleted by `deletions`. *)
  Theorem save_roundtrip k now j sd :
    contiguous k j -> pre k now j sd -> holds_session k (apply_cookies k j (save_cookies sd)) sd.
  Proof.
    intros (ca & cr & Hc) Hp. destruct (pre_inv_cov _ _ _ (pre_invariant _ _ _ _ _ _ Hc Hp)) as [H1 H2].
    exact (save_holds k j sd ca cr Hc H1 H2).
  Qed.

  (* HEALING at the level of one request: the jar may hold undecodable cookies
     under any name (its chunk cookies forming a prefix); once both token setters
     ran in the request (a completed login or refresh sets both) the Save leaves a
     contiguous jar holding exactly the saved session. *)
  Lemma pre_counts k now j ca cr sd : prefix_at ca cr j -> pre k now j sd ->
    s_live sd = true /\ s_jar_a sd = ca /\ s_jar_r sd = cr.
  Proof.
    intros (HN & Ha & Hr) Hp. induction Hp as [|f s sd Hp IH|t b sd Hp IH|t sd Hp IH|t sd Hp IH].
    - assert (Pa : present_chunks CAccChunk j 0 (length j) = ca).
      { rewrite (present_chunks_count CAccChunk j ca Ha); [lia|lia|].
        pose proof (names_length_ge CAccChunk inj_acc j ca (fun i Hi => proj2 (Ha i) Hi)). lia. }
      assert (Pr : present_chunks CRefChunk j 0 (length j) = cr).
      { rewrite (present_chunks_count CRefChunk j cr Hr); [lia|lia|].
        pose proof (names_length_ge CRefChunk inj_ref j cr (fun i Hi => proj2 (Hr i) Hi)). lia. }
      unfold load. rewrite Pa, Pr. destruct (session_too_old now (fst (get_session k CMain j))); cbn; auto.
    - exact IH.
    - exact IH.
    - destruct IH as (Hl & Ha' & Hr'). unfold set_access.
      destruct (store_token nchunks t (s_acc sd)) as [a ch]. cbn. auto.
    - destruct IH as (Hl & Ha' & Hr'). unfold set_refresh.
      destruct (store_token nchunks t (s_ref sd)) as [a ch]. cbn. auto.
  Qed.

  Theorem save_heals_pre k now j sd ca cr :
    prefix_at ca cr j -> pre k now j sd -> s_marked_a sd = true -> s_marked_r sd = true ->
    holds_session k (apply_cookies k j (save_cookies sd)) sd.
  Proof.
    intros Hpf Hp Hma Hmr. destruct (pre_counts _ _ _ _ _ _ Hpf Hp) as (_ & Ea & Er).
    apply (save_heals k j sd ca cr Hpf); right; split; try assumption; lia.
  Qed.

  Theorem save_load_roundtrip k now now' j sd :
    contiguous k j -> pre k now j sd -> session_too_old now' (s_main sd) = false ->
    let j' := apply_cookies k j (save_cookies sd) in
    contiguous k j'
    /\ load k now' j' = mkSd (s_main sd) (s_acc sd) (s_ref sd) (s_achunks sd) (s_rchunks sd)
                             (length (s_achunks sd)) (length (s_rchunks sd)) false false true.
  Proof.
    intros Hc Hp Hold j'. pose proof (save_roundtrip k now j sd Hc Hp) as Hh. split.
    - exact (holds_contiguous _ _ _ _ _ _ _ Hh).
    - exact (load_of_holds _ _ _ _ _ _ _ _ Hh Hold).
  Qed.

  Corollary save_load_reads k now now' j sd :
    contiguous k j -> pre k now j sd -> session_too_old now' (s_main sd) = false ->
    let sd' := load k now' (apply_cookies k j (save_cookies sd)) in
    get_access nchunks sd' = get_access nchunks sd
    /\ get_refresh nchunks sd' = get_refresh nchunks sd
    /\ s_main sd' = s_main sd
    /\ (forall f, get_str f (s_main sd') = get_str f (s_main sd))
    /\ authenticated now' sd' = authenticated now' sd
    /\ s_achunks sd' = s_achunks sd /\ s_rchunks sd' = s_rchunks sd.
  Proof.
    intros Hc Hp Hold sd'. destruct (save_load_roundtrip k now now' j sd Hc Hp Hold) as [_ E].
    unfold sd'. rewrite E. unfold get_access, get_refresh, authenticated. cbn. repeat split; reflexivity.
  Qed.

  Lemma read_token_empty l : read_token nchunks [] (empty_payloads l) = TEmpty.
  Proof.
    assert (E : forall l, concat (map (get_text 1) (empty_payloads l)) = []).
    { intros l0. induction l0 as [|q l0 IH]; [reflexivity|exact IH]. }
    unfold read_token. change (get_text 1 []) with (@nil piece). change (get_bool 2 []) with false.
    cbv iota. rewrite E. destruct (empty_payloads l); reflexivity.
  Qed.

  (* Clear: every cookie of the jar is overwritten by an empty one *)
  Theorem clear_roundtrip k now now' j sd :
    contiguous k j -> pre k now j sd ->
    let j' := apply_cookies k j (snd (clear sd)) in
    contiguous k j'
    /\ load k now' j' = mkSd [] [] [] (empty_payloads (s_achunks sd)) (empty_payloads (s_rchunks sd))
                             (length (s_achunks sd)) (length (s_rchunks sd)) false false true.
  Proof.
    intros (ca & cr & Hc) Hp j'. unfold j'. rewrite clear_snd.
    destruct (pre_inv_cov _ _ _ (pre_invariant _ _ _ _ _ _ Hc Hp)) as [H1 H2].
    assert (Hh : holds_session k (apply_cookies k j (save_cookies (cleared sd))) (cleared sd)).
    { apply (save_holds k j (cleared sd) ca cr Hc); cbn; rewrite empty_payloads_length; assumption. }
    split; [exact (holds_contiguous _ _ _ _ _ _ _ Hh)|].
    rewrite (load_of_holds _ now' _ _ _ _ _ _ Hh) by reflexivity. cbn.
    rewrite !empty_payloads_length. reflexivity.
  Qed.

  Corollary clear_load_reads k now now' j sd :
    contiguous k j -> pre k now j sd ->
    let sd' := load k now' (apply_cookies k j (snd (clear sd))) in
    s_main sd' = [] /\ s_acc sd' = [] /\ s_ref sd' = []
    /\ Forall (fun p => p = []) (s_achunks sd') /\ Forall (fun p => p = []) (s_rchunks sd')
    /\ get_access nchunks sd' = TEmpty /\ get_refresh nchunks sd' = TEmpty
    /\ authenticated now' sd' = false.
  Proof.
    intros Hc Hp sd'. destruct (clear_roundtrip k now now' j sd Hc Hp) as [_ E].
    unfold sd'. rewrite E. unfold get_access, get_refresh, authenticated.
    cbn [s_main s_acc s_ref s_achunks s_rchunks]. rewrite !read_token_empty.
    repeat split; try reflexivity; unfold empty_payloads; apply Forall_forall; intros p Hp';
      apply in_map_iff in Hp' as (q & <- & _); reflexivity.
  Qed.

  (* ---------------------------------------------------------------- several Saves in one response *)

  (* The handlers may Save more than once while building one response (a failed
     refresh saves, then the login redirect clears and saves again).  `emit`
     describes that: the current session, the last saved snapshot, and all
     Set-Cookie headers so far.  After the first Save only the main cookie's
     values change (the token setters are never called again). *)
  Inductive emit (k : N) (now : time) (j : jar) : sdata -> sdata -> list setcookie -> Prop :=
  | emit_save sd : pre k now j sd -> emit k now j (after_save sd) sd (save_cookies sd)
  | emit_clear sd : pre k now j sd -> emit k now j (fst (clear sd)) (cleared sd) (snd (clear sd))
  | emit_main f s sd sv cs : emit k now j sd sv cs -> emit k now j (set_main f s sd) sv cs
  | emit_auth t b sd sv cs : emit k now j sd sv cs -> emit k now j (set_authenticated t b sd) sv cs
  | emit_again sd sv cs : emit k now j sd sv cs -> emit k now j (after_save sd) sd (cs ++ save_cookies sd)
  | emit_clear_again sd sv cs :
      emit k now j sd sv cs -> emit k now j (fst (clear sd)) (cleared sd) (cs ++ snd (clear sd)).

  Theorem emit_holds k now j sd sv cs :
    contiguous k j -> emit k now j sd sv cs ->
    holds_session k (apply_cookies k j cs) sv
    /\ length (s_achunks sd) = length (s_achunks sv)
    /\ length (s_rchunks sd) = length (s_rchunks sv).
  Proof.
    intros Hc He. induction He as [sd Hp|sd Hp|f s sd sv cs He IH|t b sd sv cs He IH|sd sv cs He IH|sd sv cs He IH].
    - split; [exact (save_roundtrip k now j sd Hc Hp)|split; reflexivity].
    - split; [|split; reflexivity]. rewrite clear_snd. destruct Hc as (ca & cr & Hc).
      destruct (pre_inv_cov _ _ _ (pre_invariant _ _ _ _ _ _ Hc Hp)) as [H1 H2].
      apply (save_holds k j (cleared sd) ca cr Hc); cbn; rewrite empty_payloads_length; assumption.
    - exact IH.
    - exact IH.
    - destruct IH as (Hh & La & Lr). split; [|split; reflexivity].
      rewrite apply_cookies_app. destruct Hh as (Hcont & _).
      apply (save_holds k _ sd _ _ Hcont); left; lia.
    - destruct IH as (Hh & La & Lr). split; [|split; reflexivity].
      rewrite apply_cookies_app, clear_snd. destruct Hh as (Hcont & _).
      apply (save_holds k _ (cleared sd) _ _ Hcont); left; cbn; rewrite empty_payloads_length; lia.
  Qed.

End RoundTrip.

(* ---------------------------------------------------------------- the repaired defect *)

(* Save without the deletion of stale chunk cookies (the pinned behaviour) *)
Definition save_cookies_nodel (sd : sdata) : list setcookie :=
  [(CMain, s_main sd, false); (CAcc, s_acc sd, false); (CRef, s_ref sd, false)]
  ++ number_from CAccChunk 0 (s_achunks sd) ++ number_from CRefChunk 0 (s_rchunks sd).

Definition ex_nc (t : istr) : nat := if N.eqb t 1 then 3 else if N.eqb t 2 then 2 else 1.

(* a 3-chunk token is stored, then replaced by a 2-chunk token: with the
   deletions the jar reads back the new token; without them the old third chunk
   stays in the jar and the re-assembled text is not a token *)
Example roundtrip_refuted_without_deletion :
  let k := 7%N in
  let j1 := apply_cookies k [] (save_cookies (set_access ex_nc 1%N (load k 0%Z []))) in
  let sd2 := set_access ex_nc 2%N (load k 0%Z j1) in
  get_access ex_nc (load k 0%Z j1) = TTok 1%N
  /\ get_access ex_nc sd2 = TTok 2%N
  /\ get_access ex_nc (load k 0%Z (apply_cookies k j1 (save_cookies sd2))) = TTok 2%N
  /\ get_access ex_nc (load k 0%Z (apply_cookies k j1 (save_cookies_nodel sd2))) = TJunk.
Proof. vm_compute. repeat split. Qed.

(* `after_save` models "Save has been called": its Set-Cookie headers are part
   of the response.  Dropping them (saving only the later state) loses the
   deletions, so the round trip is NOT a property of arbitrary interleavings of
   after_save with the setters; `emit` above is the accurate formulation. *)
Example roundtrip_needs_every_save :
  let k := 7%N in
  let j1 := apply_cookies k [] (save_cookies (set_access ex_nc 1%N (load k 0%Z []))) in
  let sd2 := after_save (set_access ex_nc 2%N (load k 0%Z j1)) in
  get_access ex_nc sd2 = TTok 2%N
  /\ get_access ex_nc (load k 0%Z (apply_cookies k j1 (save_cookies sd2))) = TJunk.
Proof. vm_compute. repeat split. Qed.
