(* Property C11 — logout ends the session.
     c11_serve : the logout response of the model clears every cookie the
                 middleware would read and redirects to the end-session endpoint
                 (with the ID token as hint) or to the configured post-logout URI
     C11_ends  : along every honest-browser history, after a logout response was
                 applied to the browser's jar no gated request is forwarded and no
                 refresh grant is attempted until a callback establishes a session

   Premise added to the ones of WorldBase: the logout path is not itself an
   excluded path (ServeHTTP tests the exclusion list first; with the logout URL
   excluded no logout ever happens — see c11_needs_logout_not_excluded). *)
From VF Require Import Base.Prelude Model.Cache Model.Session Model.Middleware Model.World Corr.WorldCorr Spec.WorldSpec.
From VF Require Import Proofs.WorldBase Proofs.ServeLemmas Proofs.SessionProofs Proofs.W_Cookies.
From Coq Require Import ZifyBool ZifyNat ZifyN.
Open Scope N_scope.

Section C11.
  Variable E : env.
  Variable cfg : config.
  Notation NCE := (nchunks E).
  Notation K := (c_key cfg).

  (* ---------------------------------------------------------------- the logout response *)

  Definition c_logout_loc (rq : request) (st : inst) (sd : sdata) : location :=
    match get_access NCE sd with
    | TEmpty => post_logout cfg rq
    | _ => if N.eqb (i_end_session st) 0 then post_logout cfg rq
           else LEndSession (i_end_session st) (get_access NCE sd) (post_logout cfg rq)
    end.

  Lemma c_handle_logout_eq rq st sd :
    handle_logout E cfg rq st sd
    = mkResp 302 (Some (c_logout_loc rq st sd)) (save_cookies (SessionProofs.cleared sd)) BNone None false [] [].
  Proof. unfold handle_logout, c_logout_loc. change (NC E) with NCE. destruct (get_access NCE sd); reflexivity. Qed.

  Lemma c_expected_post_logout rq : expected_post_logout cfg rq (post_logout cfg rq) = true.
  Proof.
    unfold expected_post_logout, post_logout. destruct (c_post_logout_abs cfg).
    - apply N.eqb_refl.
    - rewrite !N.eqb_refl. reflexivity.
  Qed.

  Lemma c_covers_chunks_intro r mk : forall n i,
    (forall x, (i <= x < i + n)%nat -> covers r (mk x) = true) -> covers_chunks r mk i n = true.
  Proof.
    induction n as [|n IH]; intros i H; [reflexivity|]. cbn [covers_chunks].
    rewrite (H i) by lia. rewrite IH; [reflexivity|]. intros x Hx. apply H. lia.
  Qed.

  Lemma c_in_number_from mk l : forall i0 x, (x < length l)%nat ->
    In (mk (i0 + x)%nat, nth x l [], false) (number_from mk i0 l).
  Proof.
    induction l as [|p l IH]; intros i0 x Hx; [cbn in Hx; lia|]. cbn [number_from].
    destruct x as [|x]; [left; rewrite Nat.add_0_r; reflexivity|]. right.
    replace (i0 + S x)%nat with (S i0 + x)%nat by lia. apply IH. cbn in Hx. lia.
  Qed.

  Lemma c_covers_save_acc_chunk r sd x :
    r_cookies r = save_cookies sd -> (x < length (s_achunks sd))%nat -> covers r (CAccChunk x) = true.
  Proof.
    intros Hc Hx. unfold covers. rewrite Hc. apply existsb_exists.
    exists (CAccChunk x, nth x (s_achunks sd) [], false). split; [|apply cname_eqb_refl].
    unfold save_cookies. apply in_or_app. right. apply in_or_app. left.
    apply (c_in_number_from CAccChunk (s_achunks sd) 0 x Hx).
  Qed.

  Lemma c_covers_save_ref_chunk r sd x :
    r_cookies r = save_cookies sd -> (x < length (s_rchunks sd))%nat -> covers r (CRefChunk x) = true.
  Proof.
    intros Hc Hx. unfold covers. rewrite Hc. apply existsb_exists.
    exists (CRefChunk x, nth x (s_rchunks sd) [], false). split; [|apply cname_eqb_refl].
    unfold save_cookies. apply in_or_app. right. apply in_or_app. right. apply in_or_app. left.
    apply (c_in_number_from CRefChunk (s_rchunks sd) 0 x Hx).
  Qed.

  Theorem c11_serve st now rq rnd ans :
    env_ok E -> cfg_ok cfg -> i_ready st = true ->
    excluded E cfg (c_logout cfg) = false ->
    c11_step E cfg (i_end_session st) now rq (snd (serve E cfg st now rq rnd ans)) = true.
  Proof.
    intros _ _ Hready Hnex. unfold c11_step. destruct (is_logout cfg rq) eqn:Hl; [|reflexivity].
    unfold is_logout in Hl. pose proof Hl as Hp. apply N.eqb_eq in Hp.
    unfold serve. rewrite Hready, Hp, Hnex, N.eqb_refl. cbn [negb snd].
    fold (carried cfg now rq). rewrite c_handle_logout_eq.
    set (sd := carried cfg now rq).
    set (r := mkResp 302 (Some (c_logout_loc rq st sd)) (save_cookies (SessionProofs.cleared sd)) BNone None false [] []).
    assert (Hc : r_cookies r = save_cookies (SessionProofs.cleared sd)) by reflexivity.
    assert (H3 : all_empty_payloads r = true).
    { unfold all_empty_payloads. apply forallb_forall. intros sc Hsc. rewrite Hc in Hsc.
      rewrite (cleared_all_empty sd sc Hsc). reflexivity. }
    assert (H4 : covers r CMain = true)
      by (unfold covers; rewrite Hc; apply covers_save_base; tauto).
    assert (H5 : covers r CAcc = true)
      by (unfold covers; rewrite Hc; apply covers_save_base; tauto).
    assert (H6 : covers r CRef = true)
      by (unfold covers; rewrite Hc; apply covers_save_base; tauto).
    assert (H7 : covers_chunks r CAccChunk 0 (length (s_achunks sd)) = true).
    { apply c_covers_chunks_intro. intros x Hx. apply (c_covers_save_acc_chunk r _ x Hc).
      cbn [SessionProofs.cleared s_achunks]. rewrite empty_payloads_length. lia. }
    assert (H8 : covers_chunks r CRefChunk 0 (length (s_rchunks sd)) = true).
    { apply c_covers_chunks_intro. intros x Hx. apply (c_covers_save_ref_chunk r _ x Hc).
      cbn [SessionProofs.cleared s_rchunks]. rewrite empty_payloads_length. lia. }
    rewrite H3, H4, H5, H6, H7, H8. cbn [r r_status r_loc forwarded r_fwd N.eqb Pos.eqb negb andb].
    unfold session_token. fold sd. change (NCm E) with NCE.
    unfold c_logout_loc. destruct (get_access NCE sd) as [|t|] eqn:Et.
    - pose proof (c_expected_post_logout rq) as Hx.
      destruct (post_logout cfg rq) eqn:Epl; try (rewrite Hx, orb_true_r; reflexivity).
      unfold post_logout in Epl. destruct (c_post_logout_abs cfg); discriminate.
    - destruct (N.eqb_spec (i_end_session st) 0) as [H0|H0].
      + pose proof (c_expected_post_logout rq) as Hx.
        destruct (post_logout cfg rq) eqn:Epl; try (rewrite Hx; reflexivity).
        unfold post_logout in Epl. destruct (c_post_logout_abs cfg); discriminate.
      + rewrite N.eqb_refl, c_expected_post_logout. cbn [tval_eqb]. rewrite N.eqb_refl.
        destruct (N.eqb_spec (i_end_session st) 0); [contradiction|reflexivity].
    - destruct (N.eqb_spec (i_end_session st) 0) as [H0|H0].
      + pose proof (c_expected_post_logout rq) as Hx.
        destruct (post_logout cfg rq) eqn:Epl; try (rewrite Hx; reflexivity).
        unfold post_logout in Epl. destruct (c_post_logout_abs cfg); discriminate.
      + rewrite N.eqb_refl, c_expected_post_logout. cbn [tval_eqb].
        destruct (N.eqb_spec (i_end_session st) 0); [contradiction|reflexivity].
  Qed.

  (* ---------------------------------------------------------------- the history *)

  (* the jar carries no authenticated session and no refresh token *)
  Definition logged_out (j : jar) : Prop :=
    get_bool 1 (fst (get_session K CMain j)) = false
    /\ read_token NCE (fst (get_session K CRef j)) (load_chunks K CRefChunk j 0 (length j)) = TEmpty.

  Lemma c_logged_out_load j now : logged_out j ->
    authenticated now (load K now j) = false /\ get_refresh NCE (load K now j) = TEmpty
    /\ get_bool 1 (s_main (load K now j)) = false.
  Proof.
    intros [Hm Hr]. unfold load. destruct (session_too_old now (fst (get_session K CMain j)));
      unfold authenticated, get_refresh; cbn [s_main s_ref s_rchunks].
    - rewrite SessionProofs.read_token_empty. repeat split; reflexivity.
    - rewrite Hm, Hr. repeat split; reflexivity.
  Qed.

  Lemma c_holds_logged_out j sv :
    holds_session K j sv -> get_bool 1 (s_main sv) = false -> get_refresh NCE sv = TEmpty -> logged_out j.
  Proof.
    intros (_ & Hm & _ & Hr & _ & Hrc) Hb Hg. unfold logged_out. rewrite Hm, Hr, Hrc. split; [exact Hb|exact Hg].
  Qed.

  (* a successful callback answered to a browser without an authenticated session establishes one *)
  Lemma c_callback_establishes now rq sd id rt loc calls :
    get_bool 1 (s_main (carried cfg now rq)) = false ->
    establishes E cfg now rq
      (mkResp 302 (Some loc) (save_cookies (callback_sd E now sd id rt)) BNone None false calls []) = true.
  Proof.
    intros Hb. unfold establishes, emits_auth, main_rewritten.
    rewrite (emitted_main_save _ (callback_sd E now sd id rt)) by reflexivity.
    assert (Ht : get_bool 1 (s_main (callback_sd E now sd id rt)) = true).
    { unfold callback_sd. rewrite !main_set_main, main_set_refresh, main_set_access, main_set_main.
      rewrite !get_bool_set_str. cbn [N.eqb Pos.eqb]. unfold set_authenticated. cbn [s_main].
      apply get_bool_setf_same. }
    rewrite Ht. cbn [andb].
    destruct (payload_eqb (s_main (callback_sd E now sd id rt)) (s_main (carried cfg now rq))) eqn:Ep; [|reflexivity].
    apply payload_eqb_eq in Ep. rewrite Ep in Ht. congruence.
  Qed.

  Definition c_no_refresh_call (c : pcall) : bool := match c with PRefresh _ => false | _ => true end.

  Lemma c_gated_parts rq : gated E cfg rq = true ->
    is_excluded E cfg rq = false /\ is_callback cfg rq = false /\ is_logout cfg rq = false.
  Proof.
    unfold gated. destruct (is_excluded E cfg rq), (is_callback cfg rq), (is_logout cfg rq); cbn; intros H;
      try discriminate; repeat split; reflexivity.
  Qed.

  (* a gated request from a logged-out browser is answered by the login redirect *)
  Lemma c_gated_logged_out st now rq rnd ans :
    i_ready st = true -> contiguous K (q_jar rq) -> logged_out (q_jar rq) -> gated E cfg rq = true ->
    let r := snd (serve E cfg st now rq rnd ans) in
    r_fwd r = None /\ r_calls r = []
    /\ establishes E cfg now rq r = false
    /\ logged_out (apply_cookies K (q_jar rq) (r_cookies r)).
  Proof.
    intros Hready Hcont Hlo Hg. destruct (c_gated_parts rq Hg) as (Hex & Hcb & Hlg).
    destruct (c_logged_out_load (q_jar rq) now Hlo) as (Hau & Hrt & _). fold (carried cfg now rq) in Hau, Hrt.
    assert (Hlogin : forall sd0 sv0 cookies, (cookies = [] /\ pre NCE K now (q_jar rq) sd0)
                       \/ emit NCE K now (q_jar rq) sd0 sv0 cookies ->
              let r := initiate cfg rq rnd st sd0 cookies [] in
              r_fwd r = None /\ r_calls r = [] /\ establishes E cfg now rq r = false
              /\ logged_out (apply_cookies K (q_jar rq) (r_cookies r))).
    { intros sd0 sv0 cookies Hcase r. unfold r.
      split; [apply initiate_fwd|]. split; [apply initiate_calls|]. split; [apply initiate_establishes|].
      rewrite initiate_cookies.
      assert (He : emit NCE K now (q_jar rq) (after_save (login_sd cfg rq rnd sd0)) (login_sd cfg rq rnd sd0)
                        ((cookies ++ save_cookies (SessionProofs.cleared sd0)) ++ save_cookies (login_sd cfg rq rnd sd0))).
      { destruct Hcase as [[-> Hp]|He]; [apply c_emit_login_first, Hp|eapply c_emit_login, He]. }
      apply (c_holds_logged_out _ (login_sd cfg rq rnd sd0)).
      - exact (c_emit_jar E cfg _ _ _ _ _ Hcont He).
      - apply login_sd_not_auth.
      - apply get_refresh_login_sd. }
    apply (serve_cases E cfg st now rq rnd ans
             (fun x => r_fwd (snd x) = None /\ r_calls (snd x) = []
                       /\ establishes E cfg now rq (snd x) = false
                       /\ logged_out (apply_cookies K (q_jar rq) (r_cookies (snd x)))) Hready); cbn [snd].
    - intros H. congruence.
    - intros _ H. congruence.
    - intros _ _ H. congruence.
    - intros _. rewrite handle_expired_eq. apply (Hlogin _ (expired_sd E (carried cfg now rq))). right.
      apply emit_save, c_pre_expired. constructor.
    - intros _ Hv. unfold carries_valid_session in Hv. rewrite Hau in Hv. discriminate.
    - intros _ Hne. exfalso. apply Hne. exact Hrt.
    - intros _ Hne. exfalso. apply Hne. exact Hrt.
    - intros _ Hne. exfalso. apply Hne. exact Hrt.
    - intros _. apply (Hlogin _ (carried cfg now rq)). left. split; [reflexivity|constructor].
  Qed.

  (* the logout response logs the browser out *)
  Lemma c_logout_logs_out st now rq rnd ans :
    i_ready st = true -> excluded E cfg (c_logout cfg) = false ->
    contiguous K (q_jar rq) -> is_logout cfg rq = true ->
    logged_out (apply_cookies K (q_jar rq) (r_cookies (snd (serve E cfg st now rq rnd ans)))).
  Proof.
    intros Hready Hnex Hcont Hl. unfold is_logout in Hl. pose proof Hl as Hp. apply N.eqb_eq in Hp.
    unfold serve. rewrite Hready, Hp, Hnex, N.eqb_refl. cbn [negb snd]. rewrite c_handle_logout_eq. cbn [r_cookies].
    apply (c_holds_logged_out _ (SessionProofs.cleared (load K now (q_jar rq)))).
    - apply (c_emit_jar E cfg now _ (fst (clear (load K now (q_jar rq)))) _ _ Hcont).
      apply (emit_clear NCE K now (q_jar rq)). constructor.
    - reflexivity.
    - apply get_refresh_cleared.
  Qed.

  (* a non-gated, non-logout request from a logged-out browser either
     establishes a session or leaves the browser logged out *)
  Lemma c_other_logged_out st now rq rnd ans :
    i_ready st = true -> contiguous K (q_jar rq) -> logged_out (q_jar rq) ->
    gated E cfg rq = false -> is_logout cfg rq = false ->
    let r := snd (serve E cfg st now rq rnd ans) in
    establishes E cfg now rq r = false -> logged_out (apply_cookies K (q_jar rq) (r_cookies r)).
  Proof.
    intros Hready Hcont Hlo Hg Hl.
    destruct (c_logged_out_load (q_jar rq) now Hlo) as (_ & _ & Hb). fold (carried cfg now rq) in Hb.
    apply (serve_cases E cfg st now rq rnd ans
             (fun x => establishes E cfg now rq (snd x) = false ->
                       logged_out (apply_cookies K (q_jar rq) (r_cookies (snd x)))) Hready); cbn [snd];
      try (intros H; congruence).
    - intros _ _. exact Hlo.
    - intros _ _ _. apply cb_cases; cbn [snd]; try (intros; exact Hlo).
      intros id rt loc _ _ _ Hest. rewrite c_callback_establishes in Hest by exact Hb. discriminate.
  Qed.

  Definition events_ready (evs : list event) : Prop := Forall (fun e => i_ready (ev_st e) = true) evs.

  Lemma c11_run evs : events_ready evs -> excluded E cfg (c_logout cfg) = false ->
    forall j out, contiguous K j -> (out = true -> logged_out j) ->
    c11_browser E cfg out (browser_run E cfg j evs) = true.
  Proof.
    intros Hr Hnex. induction Hr as [|e evs Hready _ IH]; intros j out Hcont Hout; [reflexivity|].
    cbn [browser_run c11_browser w_rq w_obs w_now].
    set (rq := with_jar (ev_rq e) j).
    set (r := snd (serve E cfg (ev_st e) (ev_now e) rq (ev_rnd e) (ev_ans e))).
    assert (Hj : q_jar rq = j) by reflexivity.
    assert (Hcont' : contiguous K (apply_cookies K j (r_cookies r))).
    { unfold r. rewrite <- Hj at 1. apply c_serve_contiguous. rewrite Hj. exact Hcont. }
    rewrite <- Hj in Hcont.
    destruct (is_logout cfg rq) eqn:Hl.
    - (* the logout itself *)
      assert (Hng : gated E cfg rq = false) by (unfold gated; rewrite Hl, !andb_false_r; reflexivity).
      rewrite Hng, andb_false_r. cbn [andb]. apply IH; [exact Hcont'|]. intros _.
      rewrite <- Hj at 1. apply c_logout_logs_out; assumption.
    - destruct out.
      + specialize (Hout eq_refl). rewrite <- Hj in Hout. cbn [andb].
        destruct (gated E cfg rq) eqn:Hg.
        * destruct (c_gated_logged_out (ev_st e) (ev_now e) rq (ev_rnd e) (ev_ans e) Hready Hcont Hout Hg)
            as (Hf & Hc & He & Hlo'). fold r in Hf, Hc, He, Hlo'.
          unfold forwarded. rewrite Hf, Hc, He. cbn [negb forallb andb].
          apply IH; [exact Hcont'|]. intros _. rewrite Hj in Hlo'. exact Hlo'.
        * cbn [andb]. destruct (establishes E cfg (ev_now e) rq r) eqn:He.
          -- apply IH; [exact Hcont'|discriminate].
          -- apply IH; [exact Hcont'|]. intros _.
             pose proof (c_other_logged_out (ev_st e) (ev_now e) rq (ev_rnd e) (ev_ans e) Hready Hcont Hout Hg Hl) as H.
             fold r in H. rewrite Hj in H. apply H, He.
      + cbn [andb]. destruct (establishes E cfg (ev_now e) rq r); apply IH; try exact Hcont'; discriminate.
  Qed.

  Theorem C11_ends evs :
    env_ok E -> cfg_ok cfg -> excluded E cfg (c_logout cfg) = false -> events_ready evs ->
    c11_browser E cfg false (browser_run E cfg [] evs) = true.
  Proof.
    intros _ _ Hnex Hr. apply (c11_run evs Hr Hnex); [apply contiguous_empty|discriminate].
  Qed.

End C11.

(* ------------------------------------------------------------------ the added premise is necessary *)

Definition c11_ex_env : env :=
  mkEnv (fun s => if N.eqb s 1 then [47] else if N.eqb s 9 then [47; 108] else [])
        (fun _ => no_token) (fun _ => 1%nat) (fun _ _ => None) (fun s => s).

Definition c11_ex_cfg (excl : list istr) : config := mkCfg 7 8 9 excl false false [] [] 0%Z 1 false [].

Definition c11_ex_rq : request := mkReq false 9 9 2 0 0 0 0 false 0 0 0 false [] [].

(* with "/" on the exclusion list the logout URL "/l" is forwarded untouched
   (ServeHTTP tests the exclusion list first): nothing is cleared *)
Example c11_needs_logout_not_excluded :
  let st := fresh_inst true 20 21 in
  c11_step c11_ex_env (c11_ex_cfg [1]) 21 0%Z c11_ex_rq
           (snd (serve c11_ex_env (c11_ex_cfg [1]) st 0%Z c11_ex_rq (0, 0, 0) None)) = false
  /\ r_status (snd (serve c11_ex_env (c11_ex_cfg [1]) st 0%Z c11_ex_rq (0, 0, 0) None)) = 200
  /\ c11_step c11_ex_env (c11_ex_cfg []) 21 0%Z c11_ex_rq
              (snd (serve c11_ex_env (c11_ex_cfg []) st 0%Z c11_ex_rq (0, 0, 0) None)) = true.
Proof. vm_compute. repeat split. Qed.
