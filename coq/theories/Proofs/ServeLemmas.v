(* Reusable facts about Model/Middleware.serve and its sub-handlers, for the
   step theorems W_C01 / W_C17 (and whoever else needs them):
     1. reflexivity of the boolean equalities
     2. payload fields (getf / setf)
     3. token store / read round trips
     4. what the monitors' readers (payload_of, chunk_payloads, emitted_id,
        emitted_rt, emitted_main) compute from the cookies the model emits
     5. what each sub-handler returns (initiate, send_error, handle_expired,
        handle_logout, process_authorized, handle_callback, refresh_token,
        is_user_authenticated), as case-analysis principles
     6. serve_cases: the case analysis of serve itself
   Append only: other files import this one. *)
From VF Require Import Base.Prelude Model.Cache Model.Session Model.Middleware Corr.WorldCorr Spec.WorldSpec.
From VF Require Import Proofs.CacheProofs Proofs.WorldBase.
From Coq Require Import ZifyBool ZifyNat ZifyN.
Open Scope N_scope.

(* ================================================================== 1. boolean equalities *)

Lemma piece_eqb_refl a : piece_eqb a a = true.
Proof. destruct a as [t i]. cbn. rewrite N.eqb_refl, Nat.eqb_refl. reflexivity. Qed.

Lemma ctext_eqb_refl c : ctext_eqb c c = true.
Proof. induction c as [|a c IH]; cbn; [reflexivity|]. rewrite piece_eqb_refl, IH. reflexivity. Qed.

Lemma tval_eqb_refl t : tval_eqb t t = true.
Proof. destruct t; cbn; [reflexivity|apply N.eqb_refl|reflexivity]. Qed.

Lemma tval_eqb_eq a b : tval_eqb a b = true -> a = b.
Proof.
  destruct a, b; cbn; try discriminate; try reflexivity.
  intros H. apply N.eqb_eq in H. congruence.
Qed.

Lemma tval_eqb_empty_false t : tval_eqb t TEmpty = false <-> t <> TEmpty.
Proof. destruct t; cbn; split; congruence. Qed.

Lemma val_eqb_refl v : val_eqb v v = true.
Proof.
  destruct v; cbn; [apply Bool.eqb_reflx|apply Z.eqb_refl|apply N.eqb_refl|apply ctext_eqb_refl].
Qed.

Lemma payload_eqb_refl p : payload_eqb p p = true.
Proof.
  induction p as [|[f v] p IH]; cbn; [reflexivity|].
  rewrite N.eqb_refl, val_eqb_refl, IH. reflexivity.
Qed.

Lemma hval_eqb_refl v : hval_eqb v v = true.
Proof.
  destruct v as [s|l]; cbn; [apply N.eqb_refl|].
  induction l as [|a l IH]; cbn; [reflexivity|]. rewrite N.eqb_refl. exact IH.
Qed.

Lemma hdrs_eqb_refl h : hdrs_eqb h h = true.
Proof.
  induction h as [|[c v] h IH]; cbn; [reflexivity|].
  rewrite N.eqb_refl, hval_eqb_refl, IH. reflexivity.
Qed.

(* ================================================================== 2. payload fields *)

Lemma getf_setf_same f v p : getf f (setf f v p) = Some v.
Proof.
  unfold getf. induction p as [|[g w] p IH]; cbn; [rewrite N.eqb_refl; reflexivity|].
  destruct (N.eqb f g) eqn:Efg; cbn; [rewrite N.eqb_refl; reflexivity|].
  destruct (N.ltb f g); cbn; [rewrite N.eqb_refl; reflexivity|].
  rewrite Efg. exact IH.
Qed.

Lemma getf_setf_other f g v p : f <> g -> getf f (setf g v p) = getf f p.
Proof.
  unfold getf. intros Hne. induction p as [|[h w] p IH]; cbn.
  - destruct (N.eqb_spec f g); [contradiction|reflexivity].
  - destruct (N.eqb_spec g h) as [->|Hgh]; cbn.
    + destruct (N.eqb_spec f h); [contradiction|reflexivity].
    + destruct (N.ltb g h); cbn.
      * destruct (N.eqb_spec f g); [contradiction|reflexivity].
      * destruct (N.eqb f h); [reflexivity|exact IH].
Qed.

Lemma get_str_set_same f s p : get_str f (setf f (VS s) p) = s.
Proof. unfold get_str. rewrite getf_setf_same. reflexivity. Qed.

Lemma get_str_set_other f g v p : f <> g -> get_str f (setf g v p) = get_str f p.
Proof. intros H. unfold get_str. rewrite getf_setf_other by exact H. reflexivity. Qed.

Lemma get_bool_set_same f b p : get_bool f (setf f (VB b) p) = b.
Proof. unfold get_bool. rewrite getf_setf_same. reflexivity. Qed.

Lemma get_bool_set_other f g v p : f <> g -> get_bool f (setf g v p) = get_bool f p.
Proof. intros H. unfold get_bool. rewrite getf_setf_other by exact H. reflexivity. Qed.

Lemma get_text_set_same f c p : get_text f (setf f (VC c) p) = c.
Proof. unfold get_text. rewrite getf_setf_same. reflexivity. Qed.

Lemma get_text_set_other f g v p : f <> g -> get_text f (setf g v p) = get_text f p.
Proof. intros H. unfold get_text. rewrite getf_setf_other by exact H. reflexivity. Qed.

(* storing a string never makes a boolean field true *)
Lemma get_bool_set_str f g s p : get_bool f (setf g (VS s) p) = if N.eqb f g then false else get_bool f p.
Proof.
  destruct (N.eqb_spec f g) as [->|Hne].
  - unfold get_bool. rewrite getf_setf_same. reflexivity.
  - apply get_bool_set_other, Hne.
Qed.

(* ================================================================== 3. token store / read *)

Section Tokens.
  Variable nch : istr -> nat.
  Hypothesis nch_pos : forall t, (1 <= nch t)%nat.

  Lemma whole_nonempty t : exists i r, whole nch t = PSlice t i :: r.
  Proof.
    unfold whole. specialize (nch_pos t). destruct (nch t) as [|n]; [lia|].
    cbn. eauto.
  Qed.

  Lemma dec_whole t : dec nch (whole nch t) = if N.eqb t 0 then TEmpty else TTok t.
  Proof.
    destruct (whole_nonempty t) as (i & r & Hw).
    unfold dec. rewrite Hw. rewrite <- Hw. rewrite ctext_eqb_refl. reflexivity.
  Qed.

  (* the chunked case: the chunk payloads concatenate back to the whole text *)
  Lemma concat_slices t l :
    concat (map (get_text 1) (map (fun i => [(1, VC [PSlice t i])]) l)) = map (PSlice t) l.
  Proof. induction l as [|a l IH]; cbn; [reflexivity|]. f_equal. exact IH. Qed.

  Lemma concat_chunks_whole t :
    concat (map (get_text 1) (map (fun i => [(1, VC [PSlice t i])]) (seq 0 (nch t)))) = whole nch t.
  Proof. apply concat_slices. Qed.

  (* read_token of what store_token writes (one-cookie and chunked case) *)
  Lemma read_store t old :
    read_token nch (fst (store_token nch t old)) (snd (store_token nch t old))
    = if N.eqb t 0 then TEmpty else TTok t.
  Proof.
    unfold store_token. destruct (Nat.leb (nch t) 1) eqn:El; cbn [fst snd]; unfold read_token.
    - rewrite get_text_set_same.
      destruct (whole_nonempty t) as (i & r & Hw). rewrite Hw. rewrite <- Hw.
      rewrite get_bool_set_other by discriminate. rewrite get_bool_set_same.
      apply dec_whole.
    - rewrite get_text_set_same.
      rewrite get_bool_set_other by discriminate. rewrite get_bool_set_same.
      rewrite concat_slices. fold (whole nch t).
      apply Nat.leb_gt in El.
      destruct (seq 0 (nch t)) as [|x l] eqn:Es.
      + apply (f_equal (@length nat)) in Es. rewrite seq_length in Es. cbn in Es. lia.
      + cbn [map]. apply dec_whole.
  Qed.

  Lemma read_store_tok t old : t <> 0 ->
    read_token nch (fst (store_token nch t old)) (snd (store_token nch t old)) = TTok t.
  Proof. intros H. rewrite read_store. destruct (N.eqb_spec t 0); [contradiction|reflexivity]. Qed.

  Lemma get_access_set_access t sd :
    get_access nch (set_access nch t sd) = if N.eqb t 0 then TEmpty else TTok t.
  Proof.
    unfold get_access, set_access. generalize (read_store t (s_acc sd)).
    destruct (store_token nch t (s_acc sd)) as [a ch]. cbn [fst snd s_acc s_achunks]. tauto.
  Qed.

  Lemma get_refresh_set_refresh t sd :
    get_refresh nch (set_refresh nch t sd) = if N.eqb t 0 then TEmpty else TTok t.
  Proof.
    unfold get_refresh, set_refresh. generalize (read_store t (s_ref sd)).
    destruct (store_token nch t (s_ref sd)) as [a ch]. cbn [fst snd s_ref s_rchunks]. tauto.
  Qed.

  Lemma get_access_set_access_tok t sd : t <> 0 -> get_access nch (set_access nch t sd) = TTok t.
  Proof. intros H. rewrite get_access_set_access. destruct (N.eqb_spec t 0); [contradiction|reflexivity]. Qed.

  Lemma get_refresh_set_access t sd : get_refresh nch (set_access nch t sd) = get_refresh nch sd.
  Proof. unfold get_refresh, set_access. destruct (store_token nch t (s_acc sd)). reflexivity. Qed.

  Lemma get_access_set_refresh t sd : get_access nch (set_refresh nch t sd) = get_access nch sd.
  Proof. unfold get_access, set_refresh. destruct (store_token nch t (s_ref sd)). reflexivity. Qed.

  Lemma main_set_access t sd : s_main (set_access nch t sd) = s_main sd.
  Proof. unfold set_access. destruct (store_token nch t (s_acc sd)). reflexivity. Qed.

  Lemma main_set_refresh t sd : s_main (set_refresh nch t sd) = s_main sd.
  Proof. unfold set_refresh. destruct (store_token nch t (s_ref sd)). reflexivity. Qed.

  (* a token getter only ever returns a non-empty token id *)
  Lemma dec_tok c t : dec nch c = TTok t -> t <> 0.
  Proof.
    unfold dec. destruct c as [|[u i] c]; [discriminate|].
    destruct (ctext_eqb _ _); [|discriminate].
    destruct (N.eqb_spec u 0); [discriminate|]. intros H; injection H as <-. assumption.
  Qed.

  Lemma read_token_tok p ch t : read_token nch p ch = TTok t -> t <> 0.
  Proof.
    unfold read_token. destruct (get_text 1 p) as [|x c].
    - destruct ch as [|c0 ch]; [discriminate|].
      destruct (get_bool 2 p); [apply dec_tok|].
      destruct (concat _); discriminate.
    - destruct (get_bool 2 p); [apply dec_tok|discriminate].
  Qed.
End Tokens.

Lemma get_access_set_main nch f s sd : get_access nch (set_main f s sd) = get_access nch sd.
Proof. reflexivity. Qed.
Lemma get_refresh_set_main nch f s sd : get_refresh nch (set_main f s sd) = get_refresh nch sd.
Proof. reflexivity. Qed.
Lemma get_access_set_auth nch now b sd : get_access nch (set_authenticated now b sd) = get_access nch sd.
Proof. reflexivity. Qed.
Lemma get_refresh_set_auth nch now b sd : get_refresh nch (set_authenticated now b sd) = get_refresh nch sd.
Proof. reflexivity. Qed.
Lemma get_access_after_save nch sd : get_access nch (after_save sd) = get_access nch sd.
Proof. reflexivity. Qed.
Lemma get_refresh_after_save nch sd : get_refresh nch (after_save sd) = get_refresh nch sd.
Proof. reflexivity. Qed.
Lemma main_after_save sd : s_main (after_save sd) = s_main sd.
Proof. reflexivity. Qed.
Lemma main_set_main f s sd : s_main (set_main f s sd) = setf f (VS s) (s_main sd).
Proof. reflexivity. Qed.
Lemma achunks_after_save sd : s_achunks (after_save sd) = s_achunks sd.
Proof. reflexivity. Qed.
Lemma rchunks_after_save sd : s_rchunks (after_save sd) = s_rchunks sd.
Proof. reflexivity. Qed.

(* a token cookie with no value and only value-less chunks reads as "" *)
Lemma read_token_empty nch chunks :
  Forall (fun p => p = []) chunks -> read_token nch [] chunks = TEmpty.
Proof.
  intros H. unfold read_token. cbn. destruct chunks as [|c ch]; [reflexivity|].
  replace (concat (map (get_text 1) (c :: ch))) with (@nil piece); [reflexivity|].
  symmetry. induction H as [|x l Hx Hl IH]; [reflexivity|]. subst x. cbn. exact IH.
Qed.

Lemma Forall_empty_payloads l : Forall (fun p : payload => p = []) (empty_payloads l).
Proof. unfold empty_payloads. induction l as [|x l IH]; cbn; constructor; [reflexivity|exact IH]. Qed.

Lemma length_empty_payloads l : length (empty_payloads l) = length l.
Proof. apply map_length. Qed.

(* ================================================================== 4. reading the emitted cookies *)

Definition sel (n : cname) (sc : setcookie) : bool := cname_eqb (fst (fst sc)) n && negb (snd sc).

Lemma last_nonempty {A} (y : A) l d d' : last (y :: l) d = last (y :: l) d'.
Proof. revert y. induction l as [|z l IH]; intros y; [reflexivity|]. cbn [last]. apply IH. Qed.

Lemma last_app_cons {A} l (y : A) r d d' : last (l ++ y :: r) d = last (y :: r) d'.
Proof.
  induction l as [|x l IH]; [apply last_nonempty|].
  cbn [app]. destruct (l ++ y :: r) as [|a t] eqn:El; [destruct l; discriminate|].
  change (last (x :: a :: t) d) with (last (a :: t) d). exact IH.
Qed.

Definition lastsel {A B} (g : A -> B) (l : list A) : option B :=
  match l with [] => None | x :: r => Some (g (last (x :: r) x)) end.

Lemma lastsel_app {A B} (g : A -> B) (a b : list A) :
  lastsel g (a ++ b) = match lastsel g b with Some p => Some p | None => lastsel g a end.
Proof.
  destruct b as [|y r]; [rewrite app_nil_r; reflexivity|].
  destruct a as [|x a]; [reflexivity|].
  unfold lastsel. cbn [app]. f_equal. f_equal.
  change (x :: a ++ y :: r) with ((x :: a) ++ y :: r). apply last_app_cons.
Qed.

Lemma payload_of_lastsel n l :
  payload_of n l = lastsel (fun x : setcookie => snd (fst x)) (filter (sel n) l).
Proof. reflexivity. Qed.

(* the LAST non-deleting Set-Cookie of a name wins *)
Lemma payload_of_app n l1 l2 :
  payload_of n (l1 ++ l2) = match payload_of n l2 with Some p => Some p | None => payload_of n l1 end.
Proof. rewrite !payload_of_lastsel, filter_app. apply lastsel_app. Qed.

Lemma payload_of_nil n : payload_of n [] = None.
Proof. reflexivity. Qed.

Lemma payload_of_none n l : (forall sc, In sc l -> sel n sc = false) -> payload_of n l = None.
Proof.
  intros H. rewrite payload_of_lastsel.
  replace (filter (sel n) l) with (@nil setcookie); [reflexivity|].
  symmetry. induction l as [|x l IH]; [reflexivity|]. cbn [filter].
  rewrite (H x (or_introl eq_refl)). apply IH.
  intros sc Hin. apply H. right. exact Hin.
Qed.

Lemma payload_of_cons n m p d l :
  payload_of n ((m, p, d) :: l) =
  match payload_of n l with Some q => Some q | None => if cname_eqb m n && negb d then Some p else None end.
Proof.
  change ((m, p, d) :: l) with ([(m, p, d)] ++ l). rewrite payload_of_app.
  destruct (payload_of n l); [reflexivity|].
  unfold payload_of. cbn. destruct (cname_eqb m n && negb d); reflexivity.
Qed.

Lemma po_deletions n mk m a b : payload_of n (deletions mk m a b) = None.
Proof.
  apply payload_of_none. intros sc Hin. unfold deletions in Hin.
  destruct m; [|contradiction]. apply in_map_iff in Hin. destruct Hin as (i & <- & _).
  unfold sel. cbn. apply andb_false_r.
Qed.

Lemma po_number_other n mk k l :
  (forall j, cname_eqb (mk j) n = false) -> payload_of n (number_from mk k l) = None.
Proof.
  intros H. apply payload_of_none. revert k.
  induction l as [|p l IH]; intros k sc Hin; [contradiction|].
  cbn [number_from] in Hin. destruct Hin as [<-|Hin]; [|exact (IH _ _ Hin)].
  unfold sel. cbn [fst snd]. rewrite H. reflexivity.
Qed.

Lemma po_number_same mk k l i :
  (forall a b, cname_eqb (mk a) (mk b) = Nat.eqb a b) ->
  payload_of (mk i) (number_from mk k l) = if Nat.ltb i k then None else nth_error l (i - k).
Proof.
  intros Hinj. revert k. induction l as [|p l IH]; intros k.
  - cbn [number_from]. rewrite payload_of_nil. destruct (Nat.ltb i k); [reflexivity|].
    destruct (i - k)%nat; reflexivity.
  - cbn [number_from]. rewrite payload_of_cons, IH, Hinj. cbn [negb]. rewrite andb_true_r.
    destruct (Nat.ltb_spec i k) as [Hlt|Hge].
    + destruct (Nat.ltb_spec i (S k)); [|lia]. destruct (Nat.eqb_spec k i); [lia|reflexivity].
    + destruct (Nat.ltb_spec i (S k)) as [Hlt|Hge'].
      * assert (i = k) by lia. subst i. rewrite Nat.eqb_refl, Nat.sub_diag. reflexivity.
      * replace (i - k)%nat with (S (i - S k)) by lia. cbn [nth_error].
        destruct (nth_error l (i - S k)); [reflexivity|].
        destruct (Nat.eqb_spec k i); [lia|reflexivity].
Qed.

Lemma length_number_from mk k l : length (number_from mk k l) = length l.
Proof. revert k. induction l as [|p l IH]; intros k; cbn; [reflexivity|]. rewrite IH. reflexivity. Qed.

Lemma acc_inj a b : cname_eqb (CAccChunk a) (CAccChunk b) = Nat.eqb a b.
Proof.
  unfold cname_eqb, cname_code. destruct (Nat.eqb_spec a b) as [->|Hne]; [apply N.eqb_refl|].
  apply N.eqb_neq. lia.
Qed.

Lemma ref_inj a b : cname_eqb (CRefChunk a) (CRefChunk b) = Nat.eqb a b.
Proof.
  unfold cname_eqb, cname_code. destruct (Nat.eqb_spec a b) as [->|Hne]; [apply N.eqb_refl|].
  apply N.eqb_neq. lia.
Qed.

Lemma acc_ref a b : cname_eqb (CAccChunk a) (CRefChunk b) = false.
Proof. unfold cname_eqb, cname_code. apply N.eqb_neq. lia. Qed.
Lemma ref_acc a b : cname_eqb (CRefChunk a) (CAccChunk b) = false.
Proof. unfold cname_eqb, cname_code. apply N.eqb_neq. lia. Qed.
Lemma acc_base a n : n = CMain \/ n = CAcc \/ n = CRef -> cname_eqb (CAccChunk a) n = false.
Proof. intros [->|[->| ->]]; unfold cname_eqb, cname_code; apply N.eqb_neq; lia. Qed.
Lemma ref_base a n : n = CMain \/ n = CAcc \/ n = CRef -> cname_eqb (CRefChunk a) n = false.
Proof. intros [->|[->| ->]]; unfold cname_eqb, cname_code; apply N.eqb_neq; lia. Qed.
Lemma base_acc a n : n = CMain \/ n = CAcc \/ n = CRef -> cname_eqb n (CAccChunk a) = false.
Proof. intros [->|[->| ->]]; unfold cname_eqb, cname_code; apply N.eqb_neq; lia. Qed.
Lemma base_ref a n : n = CMain \/ n = CAcc \/ n = CRef -> cname_eqb n (CRefChunk a) = false.
Proof. intros [->|[->| ->]]; unfold cname_eqb, cname_code; apply N.eqb_neq; lia. Qed.

(* ---- what payload_of reads from one Save *)

Lemma po_save_main sd : payload_of CMain (save_cookies sd) = Some (s_main sd).
Proof.
  unfold save_cookies. rewrite !payload_of_app, !po_deletions.
  rewrite !po_number_other by (intros j; first [apply acc_base|apply ref_base]; tauto).
  reflexivity.
Qed.

Lemma po_save_acc sd : payload_of CAcc (save_cookies sd) = Some (s_acc sd).
Proof.
  unfold save_cookies. rewrite !payload_of_app, !po_deletions.
  rewrite !po_number_other by (intros j; first [apply acc_base|apply ref_base]; tauto).
  reflexivity.
Qed.

Lemma po_save_ref sd : payload_of CRef (save_cookies sd) = Some (s_ref sd).
Proof.
  unfold save_cookies. rewrite !payload_of_app, !po_deletions.
  rewrite !po_number_other by (intros j; first [apply acc_base|apply ref_base]; tauto).
  reflexivity.
Qed.

Lemma po_save_acc_chunk sd i : payload_of (CAccChunk i) (save_cookies sd) = nth_error (s_achunks sd) i.
Proof.
  unfold save_cookies. rewrite !payload_of_app, !po_deletions.
  rewrite (po_number_other (CAccChunk i) CRefChunk) by (intros j; apply ref_acc).
  rewrite (po_number_same CAccChunk) by exact acc_inj.
  cbn [Nat.ltb Nat.leb]. rewrite Nat.sub_0_r.
  destruct (nth_error (s_achunks sd) i); [reflexivity|].
  rewrite !payload_of_cons, payload_of_nil. rewrite !base_acc by tauto. reflexivity.
Qed.

Lemma po_save_ref_chunk sd i : payload_of (CRefChunk i) (save_cookies sd) = nth_error (s_rchunks sd) i.
Proof.
  unfold save_cookies. rewrite !payload_of_app, !po_deletions.
  rewrite (po_number_other (CRefChunk i) CAccChunk) by (intros j; apply acc_ref).
  rewrite (po_number_same CRefChunk) by exact ref_inj.
  cbn [Nat.ltb Nat.leb]. rewrite Nat.sub_0_r.
  destruct (nth_error (s_rchunks sd) i); [reflexivity|].
  rewrite !payload_of_cons, payload_of_nil. rewrite !base_ref by tauto. reflexivity.
Qed.

Lemma save_length sd : (length (s_achunks sd) + length (s_rchunks sd) < length (save_cookies sd))%nat.
Proof. unfold save_cookies. rewrite !app_length. cbn [length]. rewrite !length_number_from. lia. Qed.

(* ---- chunk_payloads walks indices 0.. until a name is missing *)

Lemma chunk_payloads_exact mk l L :
  (forall j, payload_of (mk j) l = nth_error L j) ->
  forall fuel i, (length L < i + fuel)%nat -> chunk_payloads mk l i fuel = skipn i L.
Proof.
  intros H. induction fuel as [|f IH]; intros i Hlen.
  - cbn [chunk_payloads]. symmetry. apply skipn_all2. lia.
  - cbn [chunk_payloads]. rewrite H. destruct (nth_error L i) as [p|] eqn:En.
    + rewrite IH by lia. clear -En. revert i En. induction L as [|x L IHL]; intros i En.
      * destruct i; discriminate.
      * destruct i as [|i]; cbn in En |- *; [congruence|]. apply IHL, En.
    + symmetry. apply skipn_all2. apply nth_error_None. exact En.
Qed.

Lemma chunk_payloads_all mk l (Q : payload -> Prop) :
  (forall j p, payload_of (mk j) l = Some p -> Q p) ->
  forall fuel i, Forall Q (chunk_payloads mk l i fuel).
Proof.
  intros H. induction fuel as [|f IH]; intros i; cbn [chunk_payloads]; [constructor|].
  destruct (payload_of (mk i) l) as [p|] eqn:Ep; [|constructor].
  constructor; [exact (H _ _ Ep)|apply IH].
Qed.

(* ---- cookies emitted BEFORE a Save do not show through it, provided they
        carry no chunk cookie beyond the ones the Save rewrites *)

Definition chunks_bounded (mk : nat -> cname) (n : nat) (pre : list setcookie) : Prop :=
  forall i, (n <= i)%nat -> payload_of (mk i) pre = None.

Lemma chunks_bounded_nil mk n : chunks_bounded mk n [].
Proof. intros i _. reflexivity. Qed.

Lemma chunks_bounded_app mk n a b :
  chunks_bounded mk n a -> chunks_bounded mk n b -> chunks_bounded mk n (a ++ b).
Proof. intros Ha Hb i Hi. rewrite payload_of_app, (Hb i Hi). apply Ha, Hi. Qed.

Lemma chunks_bounded_save_acc sd n :
  (length (s_achunks sd) <= n)%nat -> chunks_bounded CAccChunk n (save_cookies sd).
Proof. intros Hn i Hi. rewrite po_save_acc_chunk. apply nth_error_None. lia. Qed.

Lemma chunks_bounded_save_ref sd n :
  (length (s_rchunks sd) <= n)%nat -> chunks_bounded CRefChunk n (save_cookies sd).
Proof. intros Hn i Hi. rewrite po_save_ref_chunk. apply nth_error_None. lia. Qed.

Lemma po_app_save_acc_chunk pre sd i :
  chunks_bounded CAccChunk (length (s_achunks sd)) pre ->
  payload_of (CAccChunk i) (pre ++ save_cookies sd) = nth_error (s_achunks sd) i.
Proof.
  intros Hb. rewrite payload_of_app, po_save_acc_chunk.
  destruct (nth_error (s_achunks sd) i) eqn:En; [reflexivity|].
  apply Hb. apply nth_error_None. exact En.
Qed.

Lemma po_app_save_ref_chunk pre sd i :
  chunks_bounded CRefChunk (length (s_rchunks sd)) pre ->
  payload_of (CRefChunk i) (pre ++ save_cookies sd) = nth_error (s_rchunks sd) i.
Proof.
  intros Hb. rewrite payload_of_app, po_save_ref_chunk.
  destruct (nth_error (s_rchunks sd) i) eqn:En; [reflexivity|].
  apply Hb. apply nth_error_None. exact En.
Qed.

Section Emitted.
  Variable E : env.

  (* the ID token a response stores when its cookies end with a Save of sd *)
  Lemma emitted_id_app_save r pre sd :
    r_cookies r = pre ++ save_cookies sd ->
    chunks_bounded CAccChunk (length (s_achunks sd)) pre ->
    emitted_id E r = Some (get_access (nchunks E) sd).
  Proof.
    intros Hc Hb. unfold emitted_id, emitted_token. rewrite Hc, payload_of_app, po_save_acc.
    rewrite (chunk_payloads_exact CAccChunk _ (s_achunks sd)).
    - reflexivity.
    - intros j. apply po_app_save_acc_chunk, Hb.
    - rewrite app_length. generalize (save_length sd). lia.
  Qed.

  Lemma emitted_rt_app_save r pre sd :
    r_cookies r = pre ++ save_cookies sd ->
    chunks_bounded CRefChunk (length (s_rchunks sd)) pre ->
    emitted_rt E r = Some (get_refresh (nchunks E) sd).
  Proof.
    intros Hc Hb. unfold emitted_rt, emitted_token. rewrite Hc, payload_of_app, po_save_ref.
    rewrite (chunk_payloads_exact CRefChunk _ (s_rchunks sd)).
    - reflexivity.
    - intros j. apply po_app_save_ref_chunk, Hb.
    - rewrite app_length. generalize (save_length sd). lia.
  Qed.

  Lemma emitted_id_save r sd :
    r_cookies r = save_cookies sd -> emitted_id E r = Some (get_access (nchunks E) sd).
  Proof. intros Hc. apply (emitted_id_app_save r []); [exact Hc|apply chunks_bounded_nil]. Qed.

  Lemma emitted_rt_save r sd :
    r_cookies r = save_cookies sd -> emitted_rt E r = Some (get_refresh (nchunks E) sd).
  Proof. intros Hc. apply (emitted_rt_app_save r []); [exact Hc|apply chunks_bounded_nil]. Qed.

  Lemma emitted_id_nil r : r_cookies r = [] -> emitted_id E r = None.
  Proof. intros Hc. unfold emitted_id, emitted_token. rewrite Hc. reflexivity. Qed.

  Lemma emitted_rt_nil r : r_cookies r = [] -> emitted_rt E r = None.
  Proof. intros Hc. unfold emitted_rt, emitted_token. rewrite Hc. reflexivity. Qed.
End Emitted.

Lemma emitted_main_app_save r pre sd :
  r_cookies r = pre ++ save_cookies sd -> emitted_main r = Some (s_main sd).
Proof. intros Hc. unfold emitted_main. rewrite Hc, payload_of_app, po_save_main. reflexivity. Qed.

Lemma emitted_main_save r sd : r_cookies r = save_cookies sd -> emitted_main r = Some (s_main sd).
Proof. intros Hc. apply (emitted_main_app_save r []). exact Hc. Qed.

Lemma emitted_main_nil r : r_cookies r = [] -> emitted_main r = None.
Proof. intros Hc. unfold emitted_main. rewrite Hc. reflexivity. Qed.

Lemma emits_auth_nil r : r_cookies r = [] -> emits_auth r = false.
Proof. intros Hc. unfold emits_auth. rewrite emitted_main_nil by exact Hc. reflexivity. Qed.

(* a response that sets no cookie establishes nothing and stores no token *)
Lemma establishes_nil E cfg now rq r : r_cookies r = [] -> establishes E cfg now rq r = false.
Proof. intros Hc. unfold establishes. rewrite emits_auth_nil by exact Hc. reflexivity. Qed.

Lemma new_token_nil E cfg now rq r : r_cookies r = [] -> new_token E cfg now rq r = false.
Proof. intros Hc. unfold new_token. rewrite emitted_id_nil by exact Hc. reflexivity. Qed.

(* covers: a Save always rewrites the three base cookies *)
Lemma covers_app_r r pre post n :
  r_cookies r = pre ++ post ->
  existsb (fun sc : setcookie => cname_eqb (fst (fst sc)) n) post = true -> covers r n = true.
Proof. intros Hc H. unfold covers. rewrite Hc, existsb_app, H. apply orb_true_r. Qed.

Lemma covers_save_base sd n :
  n = CMain \/ n = CAcc \/ n = CRef ->
  existsb (fun sc : setcookie => cname_eqb (fst (fst sc)) n) (save_cookies sd) = true.
Proof. intros [->|[->| ->]]; unfold save_cookies; cbn; rewrite ?orb_true_r; reflexivity. Qed.
