(* Reusable facts about Model/Middleware.serve and its sub-handlers, for the
   step theorems W_C01 / W_C17 (and whoever else needs them):
     1. reflexivity of the boolean equalities
     2. payload fields (getf / setf)
     3. token store / read round trips
     4. what the monitors' readers (payload_of, chunk_payloads, emitted_id,
        emitted_rt, emitted_main) compute from the cookies the model emits
     5. what each sub-handler returns (initiate, send_error, handle_expired,
        handle_logout, process_authorized, handle_callback, refresh_token,
        is_user_authenticated), as case-analysis principles
     6. serve_cases: the case analysis of serve itself
   Append only: other files import this one. *)
From VF Require Import Base.Prelude Model.Cache Model.Session Model.Middleware Corr.WorldCorr Spec.WorldSpec.
From VF Require Import Proofs.CacheProofs Proofs.WorldBase.
From Coq Require Import ZifyBool ZifyNat ZifyN.
Open Scope N_scope.

(* ================================================================== 1. boolean equalities *)

Lemma piece_eqb_refl a : piece_eqb a a = true.
Proof. destruct a as [t i]. cbn. rewrite N.eqb_refl, Nat.eqb_refl. reflexivity. Qed.

Lemma ctext_eqb_refl c : ctext_eqb c c = true.
Proof. induction c as [|a c IH]; cbn; [reflexivity|]. rewrite piece_eqb_refl, IH. reflexivity. Qed.

Lemma tval_eqb_refl t : tval_eqb t t = true.
Proof. destruct t; cbn; [reflexivity|apply N.eqb_refl|reflexivity]. Qed.

Lemma tval_eqb_eq a b : tval_eqb a b = true -> a = b.
Proof.
  destruct a, b; cbn; try discriminate; try reflexivity.
  intros H. apply N.eqb_eq in H. congruence.
Qed.

Lemma tval_eqb_empty_false t : tval_eqb t TEmpty = false <-> t <> TEmpty.
Proof. destruct t; cbn; split; congruence. Qed.

Lemma val_eqb_refl v : val_eqb v v = true.
Proof.
  destruct v; cbn; [apply Bool.eqb_reflx|apply Z.eqb_refl|apply N.eqb_refl|apply ctext_eqb_refl].
Qed.

Lemma payload_eqb_refl p : payload_eqb p p = true.
Proof.
  induction p as [|[f v] p IH]; cbn; [reflexivity|].
  rewrite N.eqb_refl, val_eqb_refl, IH. reflexivity.
Qed.

Lemma hval_eqb_refl v : hval_eqb v v = true.
Proof.
  destruct v as [s|l]; cbn; [apply N.eqb_refl|].
  induction l as [|a l IH]; cbn; [reflexivity|]. rewrite N.eqb_refl. exact IH.
Qed.

Lemma hdrs_eqb_refl h : hdrs_eqb h h = true.
Proof.
  induction h as [|[c v] h IH]; cbn; [reflexivity|].
  rewrite N.eqb_refl, hval_eqb_refl, IH. reflexivity.
Qed.

(* ================================================================== 2. payload fields *)

Lemma getf_setf_same f v p : getf f (setf f v p) = Some v.
Proof.
  unfold getf. induction p as [|[g w] p IH]; cbn; [rewrite N.eqb_refl; reflexivity|].
  destruct (N.eqb f g) eqn:Efg; cbn; [rewrite N.eqb_refl; reflexivity|].
  destruct (N.ltb f g); cbn; [rewrite N.eqb_refl; reflexivity|].
  rewrite Efg. exact IH.
Qed.

Lemma getf_setf_other f g v p : f <> g -> getf f (setf g v p) = getf f p.
Proof.
  unfold getf. intros Hne. induction p as [|[h w] p IH]; cbn.
  - destruct (N.eqb_spec f g); [contradiction|reflexivity].
  - destruct (N.eqb_spec g h) as [->|Hgh]; cbn.
    + destruct (N.eqb_spec f h); [contradiction|reflexivity].
    + destruct (N.ltb g h); cbn.
      * destruct (N.eqb_spec f g); [contradiction|reflexivity].
      * destruct (N.eqb f h); [reflexivity|exact IH].
Qed.

Lemma get_str_set_same f s p : get_str f (setf f (VS s) p) = s.
Proof. unfold get_str. rewrite getf_setf_same. reflexivity. Qed.

Lemma get_str_set_other f g v p : f <> g -> get_str f (setf g v p) = get_str f p.
Proof. intros H. unfold get_str. rewrite getf_setf_other by exact H. reflexivity. Qed.

Lemma get_bool_set_same f b p : get_bool f (setf f (VB b) p) = b.
Proof. unfold get_bool. rewrite getf_setf_same. reflexivity. Qed.

Lemma get_bool_set_other f g v p : f <> g -> get_bool f (setf g v p) = get_bool f p.
Proof. intros H. unfold get_bool. rewrite getf_setf_other by exact H. reflexivity. Qed.

Lemma get_text_set_same f c p : get_text f (setf f (VC c) p) = c.
Proof. unfold get_text. rewrite getf_setf_same. reflexivity. Qed.

Lemma get_text_set_other f g v p : f <> g -> get_text f (setf g v p) = get_text f p.
Proof. intros H. unfold get_text. rewrite getf_setf_other by exact H. reflexivity. Qed.

(* storing a string never makes a boolean field true *)
Lemma get_bool_set_str f g s p : get_bool f (setf g (VS s) p) = if N.eqb f g then false else get_bool f p.
Proof.
  destruct (N.eqb_spec f g) as [->|Hne].
  - unfold get_bool. rewrite getf_setf_same. reflexivity.
  - apply get_bool_set_other, Hne.
Qed.

(* ================================================================== 3. token store / read *)

Section Tokens.
  Variable nch : istr -> nat.
  Hypothesis nch_pos : forall t, (1 <= nch t)%nat.

  Lemma whole_nonempty t : exists i r, whole nch t = PSlice t i :: r.
  Proof.
    unfold whole. specialize (nch_pos t). destruct (nch t) as [|n]; [lia|].
    cbn. eauto.
  Qed.

  Lemma dec_whole t : dec nch (whole nch t) = if N.eqb t 0 then TEmpty else TTok t.
  Proof.
    destruct (whole_nonempty t) as (i & r & Hw).
    unfold dec. rewrite Hw. rewrite <- Hw. rewrite ctext_eqb_refl. reflexivity.
  Qed.

  (* the chunked case: the chunk payloads concatenate back to the whole text *)
  Lemma concat_slices t l :
    concat (map (get_text 1) (map (fun i => [(1, VC [PSlice t i])]) l)) = map (PSlice t) l.
  Proof. induction l as [|a l IH]; cbn; [reflexivity|]. f_equal. exact IH. Qed.

  Lemma concat_chunks_whole t :
    concat (map (get_text 1) (map (fun i => [(1, VC [PSlice t i])]) (seq 0 (nch t)))) = whole nch t.
  Proof. apply concat_slices. Qed.

  (* read_token of what store_token writes (one-cookie and chunked case) *)
  Lemma read_store t old :
    read_token nch (fst (store_token nch t old)) (snd (store_token nch t old))
    = if N.eqb t 0 then TEmpty else TTok t.
  Proof.
    unfold store_token. destruct (Nat.leb (nch t) 1) eqn:El; cbn [fst snd]; unfold read_token.
    - rewrite get_text_set_same.
      destruct (whole_nonempty t) as (i & r & Hw). rewrite Hw. rewrite <- Hw.
      rewrite get_bool_set_other by discriminate. rewrite get_bool_set_same.
      apply dec_whole.
    - rewrite get_text_set_same.
      rewrite get_bool_set_other by discriminate. rewrite get_bool_set_same.
      rewrite concat_slices. fold (whole nch t).
      apply Nat.leb_gt in El.
      destruct (seq 0 (nch t)) as [|x l] eqn:Es.
      + apply (f_equal (@length nat)) in Es. rewrite seq_length in Es. cbn in Es. lia.
      + cbn [map]. apply dec_whole.
  Qed.

  Lemma read_store_tok t old : t <> 0 ->
    read_token nch (fst (store_token nch t old)) (snd (store_token nch t old)) = TTok t.
  Proof. intros H. rewrite read_store. destruct (N.eqb_spec t 0); [contradiction|reflexivity]. Qed.

  Lemma get_access_set_access t sd :
    get_access nch (set_access nch t sd) = if N.eqb t 0 then TEmpty else TTok t.
  Proof.
    unfold get_access, set_access. generalize (read_store t (s_acc sd)).
    destruct (store_token nch t (s_acc sd)) as [a ch]. cbn [fst snd s_acc s_achunks]. tauto.
  Qed.

  Lemma get_refresh_set_refresh t sd :
    get_refresh nch (set_refresh nch t sd) = if N.eqb t 0 then TEmpty else TTok t.
  Proof.
    unfold get_refresh, set_refresh. generalize (read_store t (s_ref sd)).
    destruct (store_token nch t (s_ref sd)) as [a ch]. cbn [fst snd s_ref s_rchunks]. tauto.
  Qed.

  Lemma get_access_set_access_tok t sd : t <> 0 -> get_access nch (set_access nch t sd) = TTok t.
  Proof. intros H. rewrite get_access_set_access. destruct (N.eqb_spec t 0); [contradiction|reflexivity]. Qed.

  Lemma get_refresh_set_access t sd : get_refresh nch (set_access nch t sd) = get_refresh nch sd.
  Proof. unfold get_refresh, set_access. destruct (store_token nch t (s_acc sd)). reflexivity. Qed.

  Lemma get_access_set_refresh t sd : get_access nch (set_refresh nch t sd) = get_access nch sd.
  Proof. unfold get_access, set_refresh. destruct (store_token nch t (s_ref sd)). reflexivity. Qed.

  Lemma main_set_access t sd : s_main (set_access nch t sd) = s_main sd.
  Proof. unfold set_access. destruct (store_token nch t (s_acc sd)). reflexivity. Qed.

  Lemma main_set_refresh t sd : s_main (set_refresh nch t sd) = s_main sd.
  Proof. unfold set_refresh. destruct (store_token nch t (s_ref sd)). reflexivity. Qed.

  (* a token getter only ever returns a non-empty token id *)
  Lemma dec_tok c t : dec nch c = TTok t -> t <> 0.
  Proof.
    unfold dec. destruct c as [|[u i] c]; [discriminate|].
    destruct (ctext_eqb _ _); [|discriminate].
    destruct (N.eqb_spec u 0); [discriminate|]. intros H; injection H as <-. assumption.
  Qed.

  Lemma read_token_tok p ch t : read_token nch p ch = TTok t -> t <> 0.
  Proof.
    unfold read_token. destruct (get_text 1 p) as [|x c].
    - destruct ch as [|c0 ch]; [discriminate|].
      destruct (get_bool 2 p); [apply dec_tok|].
      destruct (concat _); discriminate.
    - destruct (get_bool 2 p); [apply dec_tok|discriminate].
  Qed.
End Tokens.

Lemma get_access_set_main nch f s sd : get_access nch (set_main f s sd) = get_access nch sd.
Proof. reflexivity. Qed.
Lemma get_refresh_set_main nch f s sd : get_refresh nch (set_main f s sd) = get_refresh nch sd.
Proof. reflexivity. Qed.
Lemma get_access_set_auth nch now b sd : get_access nch (set_authenticated now b sd) = get_access nch sd.
Proof. reflexivity. Qed.
Lemma get_refresh_set_auth nch now b sd : get_refresh nch (set_authenticated now b sd) = get_refresh nch sd.
Proof. reflexivity. Qed.
Lemma get_access_after_save nch sd : get_access nch (after_save sd) = get_access nch sd.
Proof. reflexivity. Qed.
Lemma get_refresh_after_save nch sd : get_refresh nch (after_save sd) = get_refresh nch sd.
Proof. reflexivity. Qed.
Lemma main_after_save sd : s_main (after_save sd) = s_main sd.
Proof. reflexivity. Qed.
Lemma main_set_main f s sd : s_main (set_main f s sd) = setf f (VS s) (s_main sd).
Proof. reflexivity. Qed.
Lemma achunks_after_save sd : s_achunks (after_save sd) = s_achunks sd.
Proof. reflexivity. Qed.
Lemma rchunks_after_save sd : s_rchunks (after_save sd) = s_rchunks sd.
Proof. reflexivity. Qed.

(* a token cookie with no value and only value-less chunks reads as "" *)
Lemma read_token_empty nch chunks :
  Forall (fun p => p = []) chunks -> read_token nch [] chunks = TEmpty.
Proof.
  intros H. unfold read_token. cbn. destruct chunks as [|c ch]; [reflexivity|].
  replace (concat (map (get_text 1) (c :: ch))) with (@nil piece); [reflexivity|].
  symmetry. induction H as [|x l Hx Hl IH]; [reflexivity|]. subst x. cbn. exact IH.
Qed.

Lemma Forall_empty_payloads l : Forall (fun p : payload => p = []) (empty_payloads l).
Proof. unfold empty_payloads. induction l as [|x l IH]; cbn; constructor; [reflexivity|exact IH]. Qed.

Lemma length_empty_payloads l : length (empty_payloads l) = length l.
Proof. apply map_length. Qed.

(* ================================================================== 4. reading the emitted cookies *)

Definition sel (n : cname) (sc : setcookie) : bool := cname_eqb (fst (fst sc)) n && negb (snd sc).

Lemma last_nonempty {A} (y : A) l d d' : last (y :: l) d = last (y :: l) d'.
Proof. revert y. induction l as [|z l IH]; intros y; [reflexivity|]. cbn [last]. apply IH. Qed.

Lemma last_app_cons {A} l (y : A) r d d' : last (l ++ y :: r) d = last (y :: r) d'.
Proof.
  induction l as [|x l IH]; [apply last_nonempty|].
  cbn [app]. destruct (l ++ y :: r) as [|a t] eqn:El; [destruct l; discriminate|].
  change (last (x :: a :: t) d) with (last (a :: t) d). exact IH.
Qed.

Definition lastsel {A B} (g : A -> B) (l : list A) : option B :=
  match l with [] => None | x :: r => Some (g (last (x :: r) x)) end.

Lemma lastsel_app {A B} (g : A -> B) (a b : list A) :
  lastsel g (a ++ b) = match lastsel g b with Some p => Some p | None => lastsel g a end.
Proof.
  destruct b as [|y r]; [rewrite app_nil_r; reflexivity|].
  destruct a as [|x a]; [reflexivity|].
  unfold lastsel. cbn [app]. f_equal. f_equal.
  change (x :: a ++ y :: r) with ((x :: a) ++ y :: r). apply last_app_cons.
Qed.

Lemma payload_of_lastsel n l :
  payload_of n l = lastsel (fun x : setcookie => snd (fst x)) (filter (sel n) l).
Proof. reflexivity. Qed.

(* the LAST non-deleting Set-Cookie of a name wins *)
Lemma payload_of_app n l1 l2 :
  payload_of n (l1 ++ l2) = match payload_of n l2 with Some p => Some p | None => payload_of n l1 end.
Proof. rewrite !payload_of_lastsel, filter_app. apply lastsel_app. Qed.

Lemma payload_of_nil n : payload_of n [] = None.
Proof. reflexivity. Qed.

Lemma payload_of_none n l : (forall sc, In sc l -> sel n sc = false) -> payload_of n l = None.
Proof.
  intros H. rewrite payload_of_lastsel.
  replace (filter (sel n) l) with (@nil setcookie); [reflexivity|].
  symmetry. induction l as [|x l IH]; [reflexivity|]. cbn [filter].
  rewrite (H x (or_introl eq_refl)). apply IH.
  intros sc Hin. apply H. right. exact Hin.
Qed.

Lemma payload_of_cons n m p d l :
  payload_of n ((m, p, d) :: l) =
  match payload_of n l with Some q => Some q | None => if cname_eqb m n && negb d then Some p else None end.
Proof.
  change ((m, p, d) :: l) with ([(m, p, d)] ++ l). rewrite payload_of_app.
  destruct (payload_of n l); [reflexivity|].
  unfold payload_of. cbn. destruct (cname_eqb m n && negb d); reflexivity.
Qed.

Lemma po_deletions n mk m a b : payload_of n (deletions mk m a b) = None.
Proof.
  apply payload_of_none. intros sc Hin. unfold deletions in Hin.
  destruct m; [|contradiction]. apply in_map_iff in Hin. destruct Hin as (i & <- & _).
  unfold sel. cbn. apply andb_false_r.
Qed.

Lemma po_number_other n mk k l :
  (forall j, cname_eqb (mk j) n = false) -> payload_of n (number_from mk k l) = None.
Proof.
  intros H. apply payload_of_none. revert k.
  induction l as [|p l IH]; intros k sc Hin; [contradiction|].
  cbn [number_from] in Hin. destruct Hin as [<-|Hin]; [|exact (IH _ _ Hin)].
  unfold sel. cbn [fst snd]. rewrite H. reflexivity.
Qed.

Lemma po_number_same mk k l i :
  (forall a b, cname_eqb (mk a) (mk b) = Nat.eqb a b) ->
  payload_of (mk i) (number_from mk k l) = if Nat.ltb i k then None else nth_error l (i - k).
Proof.
  intros Hinj. revert k. induction l as [|p l IH]; intros k.
  - cbn [number_from]. rewrite payload_of_nil. destruct (Nat.ltb i k); [reflexivity|].
    destruct (i - k)%nat; reflexivity.
  - cbn [number_from]. rewrite payload_of_cons, IH, Hinj. cbn [negb]. rewrite andb_true_r.
    destruct (Nat.ltb_spec i k) as [Hlt|Hge].
    + destruct (Nat.ltb_spec i (S k)); [|lia]. destruct (Nat.eqb_spec k i); [lia|reflexivity].
    + destruct (Nat.ltb_spec i (S k)) as [Hlt|Hge'].
      * assert (i = k) by lia. subst i. rewrite Nat.eqb_refl, Nat.sub_diag. reflexivity.
      * replace (i - k)%nat with (S (i - S k)) by lia. cbn [nth_error].
        destruct (nth_error l (i - S k)); [reflexivity|].
        destruct (Nat.eqb_spec k i); [lia|reflexivity].
Qed.

Lemma length_number_from mk k l : length (number_from mk k l) = length l.
Proof. revert k. induction l as [|p l IH]; intros k; cbn; [reflexivity|]. rewrite IH. reflexivity. Qed.

Lemma acc_inj a b : cname_eqb (CAccChunk a) (CAccChunk b) = Nat.eqb a b.
Proof.
  unfold cname_eqb, cname_code. destruct (Nat.eqb_spec a b) as [->|Hne]; [apply N.eqb_refl|].
  apply N.eqb_neq. lia.
Qed.

Lemma ref_inj a b : cname_eqb (CRefChunk a) (CRefChunk b) = Nat.eqb a b.
Proof.
  unfold cname_eqb, cname_code. destruct (Nat.eqb_spec a b) as [->|Hne]; [apply N.eqb_refl|].
  apply N.eqb_neq. lia.
Qed.

Lemma acc_ref a b : cname_eqb (CAccChunk a) (CRefChunk b) = false.
Proof. unfold cname_eqb, cname_code. apply N.eqb_neq. lia. Qed.
Lemma ref_acc a b : cname_eqb (CRefChunk a) (CAccChunk b) = false.
Proof. unfold cname_eqb, cname_code. apply N.eqb_neq. lia. Qed.
Lemma acc_base a n : n = CMain \/ n = CAcc \/ n = CRef -> cname_eqb (CAccChunk a) n = false.
Proof. intros [->|[->| ->]]; unfold cname_eqb, cname_code; apply N.eqb_neq; lia. Qed.
Lemma ref_base a n : n = CMain \/ n = CAcc \/ n = CRef -> cname_eqb (CRefChunk a) n = false.
Proof. intros [->|[->| ->]]; unfold cname_eqb, cname_code; apply N.eqb_neq; lia. Qed.
Lemma base_acc a n : n = CMain \/ n = CAcc \/ n = CRef -> cname_eqb n (CAccChunk a) = false.
Proof. intros [->|[->| ->]]; unfold cname_eqb, cname_code; apply N.eqb_neq; lia. Qed.
Lemma base_ref a n : n = CMain \/ n = CAcc \/ n = CRef -> cname_eqb n (CRefChunk a) = false.
Proof. intros [->|[->| ->]]; unfold cname_eqb, cname_code; apply N.eqb_neq; lia. Qed.

(* ---- what payload_of reads from one Save *)

Lemma po_save_main sd : payload_of CMain (save_cookies sd) = Some (s_main sd).
Proof.
  unfold save_cookies. rewrite !payload_of_app, !po_deletions.
  rewrite !po_number_other by (intros j; first [apply acc_base|apply ref_base]; tauto).
  reflexivity.
Qed.

Lemma po_save_acc sd : payload_of CAcc (save_cookies sd) = Some (s_acc sd).
Proof.
  unfold save_cookies. rewrite !payload_of_app, !po_deletions.
  rewrite !po_number_other by (intros j; first [apply acc_base|apply ref_base]; tauto).
  reflexivity.
Qed.

Lemma po_save_ref sd : payload_of CRef (save_cookies sd) = Some (s_ref sd).
Proof.
  unfold save_cookies. rewrite !payload_of_app, !po_deletions.
  rewrite !po_number_other by (intros j; first [apply acc_base|apply ref_base]; tauto).
  reflexivity.
Qed.

Lemma po_save_acc_chunk sd i : payload_of (CAccChunk i) (save_cookies sd) = nth_error (s_achunks sd) i.
Proof.
  unfold save_cookies. rewrite !payload_of_app, !po_deletions.
  rewrite (po_number_other (CAccChunk i) CRefChunk) by (intros j; apply ref_acc).
  rewrite (po_number_same CAccChunk) by exact acc_inj.
  cbn [Nat.ltb Nat.leb]. rewrite Nat.sub_0_r.
  destruct (nth_error (s_achunks sd) i); [reflexivity|].
  rewrite !payload_of_cons, payload_of_nil. rewrite !base_acc by tauto. reflexivity.
Qed.

Lemma po_save_ref_chunk sd i : payload_of (CRefChunk i) (save_cookies sd) = nth_error (s_rchunks sd) i.
Proof.
  unfold save_cookies. rewrite !payload_of_app, !po_deletions.
  rewrite (po_number_other (CRefChunk i) CAccChunk) by (intros j; apply acc_ref).
  rewrite (po_number_same CRefChunk) by exact ref_inj.
  cbn [Nat.ltb Nat.leb]. rewrite Nat.sub_0_r.
  destruct (nth_error (s_rchunks sd) i); [reflexivity|].
  rewrite !payload_of_cons, payload_of_nil. rewrite !base_ref by tauto. reflexivity.
Qed.

Lemma save_length sd : (length (s_achunks sd) + length (s_rchunks sd) < length (save_cookies sd))%nat.
Proof. unfold save_cookies. rewrite !app_length. cbn [length]. rewrite !length_number_from. lia. Qed.

(* ---- chunk_payloads walks indices 0.. until a name is missing *)

Lemma chunk_payloads_exact mk l L :
  (forall j, payload_of (mk j) l = nth_error L j) ->
  forall fuel i, (length L < i + fuel)%nat -> chunk_payloads mk l i fuel = skipn i L.
Proof.
  intros H. induction fuel as [|f IH]; intros i Hlen.
  - cbn [chunk_payloads]. symmetry. apply skipn_all2. lia.
  - cbn [chunk_payloads]. rewrite H. destruct (nth_error L i) as [p|] eqn:En.
    + rewrite IH by lia. clear -En. revert i En. induction L as [|x L IHL]; intros i En.
      * destruct i; discriminate.
      * destruct i as [|i]; cbn in En |- *; [congruence|]. apply IHL, En.
    + symmetry. apply skipn_all2. apply nth_error_None. exact En.
Qed.

Lemma chunk_payloads_all mk l (Q : payload -> Prop) :
  (forall j p, payload_of (mk j) l = Some p -> Q p) ->
  forall fuel i, Forall Q (chunk_payloads mk l i fuel).
Proof.
  intros H. induction fuel as [|f IH]; intros i; cbn [chunk_payloads]; [constructor|].
  destruct (payload_of (mk i) l) as [p|] eqn:Ep; [|constructor].
  constructor; [exact (H _ _ Ep)|apply IH].
Qed.

(* ---- cookies emitted BEFORE a Save do not show through it, provided they
        carry no chunk cookie beyond the ones the Save rewrites *)

Definition chunks_bounded (mk : nat -> cname) (n : nat) (pre : list setcookie) : Prop :=
  forall i, (n <= i)%nat -> payload_of (mk i) pre = None.

Lemma chunks_bounded_nil mk n : chunks_bounded mk n [].
Proof. intros i _. reflexivity. Qed.

Lemma chunks_bounded_app mk n a b :
  chunks_bounded mk n a -> chunks_bounded mk n b -> chunks_bounded mk n (a ++ b).
Proof. intros Ha Hb i Hi. rewrite payload_of_app, (Hb i Hi). apply Ha, Hi. Qed.

Lemma chunks_bounded_save_acc sd n :
  (length (s_achunks sd) <= n)%nat -> chunks_bounded CAccChunk n (save_cookies sd).
Proof. intros Hn i Hi. rewrite po_save_acc_chunk. apply nth_error_None. lia. Qed.

Lemma chunks_bounded_save_ref sd n :
  (length (s_rchunks sd) <= n)%nat -> chunks_bounded CRefChunk n (save_cookies sd).
Proof. intros Hn i Hi. rewrite po_save_ref_chunk. apply nth_error_None. lia. Qed.

Lemma po_app_save_acc_chunk pre sd i :
  chunks_bounded CAccChunk (length (s_achunks sd)) pre ->
  payload_of (CAccChunk i) (pre ++ save_cookies sd) = nth_error (s_achunks sd) i.
Proof.
  intros Hb. rewrite payload_of_app, po_save_acc_chunk.
  destruct (nth_error (s_achunks sd) i) eqn:En; [reflexivity|].
  apply Hb. apply nth_error_None. exact En.
Qed.

Lemma po_app_save_ref_chunk pre sd i :
  chunks_bounded CRefChunk (length (s_rchunks sd)) pre ->
  payload_of (CRefChunk i) (pre ++ save_cookies sd) = nth_error (s_rchunks sd) i.
Proof.
  intros Hb. rewrite payload_of_app, po_save_ref_chunk.
  destruct (nth_error (s_rchunks sd) i) eqn:En; [reflexivity|].
  apply Hb. apply nth_error_None. exact En.
Qed.

Section Emitted.
  Variable E : env.

  (* the ID token a response stores when its cookies end with a Save of sd *)
  Lemma emitted_id_app_save r pre sd :
    r_cookies r = pre ++ save_cookies sd ->
    chunks_bounded CAccChunk (length (s_achunks sd)) pre ->
    emitted_id E r = Some (get_access (nchunks E) sd).
  Proof.
    intros Hc Hb. unfold emitted_id, emitted_token. rewrite Hc, payload_of_app, po_save_acc.
    rewrite (chunk_payloads_exact CAccChunk _ (s_achunks sd)).
    - reflexivity.
    - intros j. apply po_app_save_acc_chunk, Hb.
    - rewrite app_length. generalize (save_length sd). lia.
  Qed.

  Lemma emitted_rt_app_save r pre sd :
    r_cookies r = pre ++ save_cookies sd ->
    chunks_bounded CRefChunk (length (s_rchunks sd)) pre ->
    emitted_rt E r = Some (get_refresh (nchunks E) sd).
  Proof.
    intros Hc Hb. unfold emitted_rt, emitted_token. rewrite Hc, payload_of_app, po_save_ref.
    rewrite (chunk_payloads_exact CRefChunk _ (s_rchunks sd)).
    - reflexivity.
    - intros j. apply po_app_save_ref_chunk, Hb.
    - rewrite app_length. generalize (save_length sd). lia.
  Qed.

  Lemma emitted_id_save r sd :
    r_cookies r = save_cookies sd -> emitted_id E r = Some (get_access (nchunks E) sd).
  Proof. intros Hc. apply (emitted_id_app_save r []); [exact Hc|apply chunks_bounded_nil]. Qed.

  Lemma emitted_rt_save r sd :
    r_cookies r = save_cookies sd -> emitted_rt E r = Some (get_refresh (nchunks E) sd).
  Proof. intros Hc. apply (emitted_rt_app_save r []); [exact Hc|apply chunks_bounded_nil]. Qed.

  Lemma emitted_id_nil r : r_cookies r = [] -> emitted_id E r = None.
  Proof. intros Hc. unfold emitted_id, emitted_token. rewrite Hc. reflexivity. Qed.

  Lemma emitted_rt_nil r : r_cookies r = [] -> emitted_rt E r = None.
  Proof. intros Hc. unfold emitted_rt, emitted_token. rewrite Hc. reflexivity. Qed.
End Emitted.

Lemma emitted_main_app_save r pre sd :
  r_cookies r = pre ++ save_cookies sd -> emitted_main r = Some (s_main sd).
Proof. intros Hc. unfold emitted_main. rewrite Hc, payload_of_app, po_save_main. reflexivity. Qed.

Lemma emitted_main_save r sd : r_cookies r = save_cookies sd -> emitted_main r = Some (s_main sd).
Proof. intros Hc. apply (emitted_main_app_save r []). exact Hc. Qed.

Lemma emitted_main_nil r : r_cookies r = [] -> emitted_main r = None.
Proof. intros Hc. unfold emitted_main. rewrite Hc. reflexivity. Qed.

Lemma emits_auth_nil r : r_cookies r = [] -> emits_auth r = false.
Proof. intros Hc. unfold emits_auth. rewrite emitted_main_nil by exact Hc. reflexivity. Qed.

(* a response that sets no cookie establishes nothing and stores no token *)
Lemma establishes_nil E cfg now rq r : r_cookies r = [] -> establishes E cfg now rq r = false.
Proof. intros Hc. unfold establishes. rewrite emits_auth_nil by exact Hc. reflexivity. Qed.

Lemma new_token_nil E cfg now rq r : r_cookies r = [] -> new_token E cfg now rq r = false.
Proof. intros Hc. unfold new_token. rewrite emitted_id_nil by exact Hc. reflexivity. Qed.

(* covers: a Save always rewrites the three base cookies *)
Lemma covers_app_r r pre post n :
  r_cookies r = pre ++ post ->
  existsb (fun sc : setcookie => cname_eqb (fst (fst sc)) n) post = true -> covers r n = true.
Proof. intros Hc H. unfold covers. rewrite Hc, existsb_app, H. apply orb_true_r. Qed.

Lemma covers_save_base sd n :
  n = CMain \/ n = CAcc \/ n = CRef ->
  existsb (fun sc : setcookie => cname_eqb (fst (fst sc)) n) (save_cookies sd) = true.
Proof. intros [->|[->| ->]]; unfold save_cookies; cbn; rewrite ?orb_true_r; reflexivity. Qed.

(* ================================================================== 5. what the sub-handlers return *)

Section Handlers.
  Variable E : env.
  Variable cfg : config.
  Notation NCE := (nchunks E).

  (* ---------------------------------------------------------------- Clear *)

  Definition cleared (sd : sdata) : sdata :=
    mkSd [] [] [] (empty_payloads (s_achunks sd)) (empty_payloads (s_rchunks sd))
         (s_jar_a sd) (s_jar_r sd) (s_marked_a sd) (s_marked_r sd) (s_live sd).

  Lemma clear_cookies sd : snd (clear sd) = save_cookies (cleared sd).
  Proof. reflexivity. Qed.

  Lemma get_access_cleared sd : get_access NCE (cleared sd) = TEmpty.
  Proof. unfold get_access. cbn [cleared s_acc s_achunks]. apply read_token_empty, Forall_empty_payloads. Qed.

  Lemma get_refresh_cleared sd : get_refresh NCE (cleared sd) = TEmpty.
  Proof. unfold get_refresh. cbn [cleared s_ref s_rchunks]. apply read_token_empty, Forall_empty_payloads. Qed.

  Lemma cleared_all_empty sd : forall sc, In sc (save_cookies (cleared sd)) -> snd (fst sc) = [].
  Proof.
    intros sc. unfold save_cookies. cbn [cleared s_main s_acc s_ref s_achunks s_rchunks s_marked_a s_marked_r s_jar_a s_jar_r].
    rewrite !in_app_iff. intros [H|[H|[H|[H|H]]]].
    - cbn in H. destruct H as [<-|[<-|[<-|[]]]]; reflexivity.
    - revert H. generalize 0%nat. induction (s_achunks sd) as [|p l IH]; intros k H; [contradiction|].
      cbn in H. destruct H as [<-|H]; [reflexivity|exact (IH _ H)].
    - revert H. generalize 0%nat. induction (s_rchunks sd) as [|p l IH]; intros k H; [contradiction|].
      cbn in H. destruct H as [<-|H]; [reflexivity|exact (IH _ H)].
    - unfold deletions in H. destruct (s_marked_a sd); [|contradiction].
      apply in_map_iff in H. destruct H as (i & <- & _). reflexivity.
    - unfold deletions in H. destruct (s_marked_r sd); [|contradiction].
      apply in_map_iff in H. destruct H as (i & <- & _). reflexivity.
  Qed.

  (* ---------------------------------------------------------------- initiate *)

  (* the session initiate saves: the cleared one plus state, nonce, verifier, return URI *)
  Definition login_sd (rq : request) (rnd : istr * istr * istr) (sd : sdata) : sdata :=
    let '(csrf, nonce, verifier) := rnd in
    let sd1 := fst (clear sd) in
    let sd2 := set_main 4 nonce (set_main 3 csrf sd1) in
    let sd3 := if c_pkce cfg then set_main 5 verifier sd2 else sd2 in
    set_main 7 (if Nat.ltb 1024%nat (q_uri_len rq) then slash else q_uri rq) sd3.

  Lemma initiate_eq rq rnd st sd cookies calls :
    initiate cfg rq rnd st sd cookies calls =
    mkResp 302 (Some (LAuth (i_auth_url st) (fst (fst rnd)) (snd (fst rnd))
                            (if c_pkce cfg then snd rnd else 0) (q_scheme rq) (q_host rq)))
           ((cookies ++ save_cookies (cleared sd)) ++ save_cookies (login_sd rq rnd sd))
           BNone None false calls [].
  Proof. destruct rnd as [[csrf nonce] verifier]. unfold initiate. cbn [clear fst snd]. rewrite <- app_assoc. reflexivity. Qed.

  Lemma login_sd_acc rq rnd sd : s_acc (login_sd rq rnd sd) = [].
  Proof. destruct rnd as [[a b] c]. unfold login_sd. destruct (c_pkce cfg); reflexivity. Qed.
  Lemma login_sd_ref rq rnd sd : s_ref (login_sd rq rnd sd) = [].
  Proof. destruct rnd as [[a b] c]. unfold login_sd. destruct (c_pkce cfg); reflexivity. Qed.
  Lemma login_sd_achunks rq rnd sd : s_achunks (login_sd rq rnd sd) = empty_payloads (s_achunks sd).
  Proof.
    destruct rnd as [[a b] c]. unfold login_sd, empty_payloads.
    destruct (c_pkce cfg); reflexivity.
  Qed.
  Lemma login_sd_rchunks rq rnd sd : s_rchunks (login_sd rq rnd sd) = empty_payloads (s_rchunks sd).
  Proof.
    destruct rnd as [[a b] c]. unfold login_sd, empty_payloads.
    destruct (c_pkce cfg); reflexivity.
  Qed.

  Lemma login_sd_not_auth rq rnd sd : get_bool 1 (s_main (login_sd rq rnd sd)) = false.
  Proof.
    destruct rnd as [[a b] c]. unfold login_sd.
    destruct (c_pkce cfg); rewrite !main_set_main, !get_bool_set_str; reflexivity.
  Qed.

  Lemma get_access_login_sd rq rnd sd : get_access NCE (login_sd rq rnd sd) = TEmpty.
  Proof.
    unfold get_access. rewrite login_sd_acc, login_sd_achunks.
    apply read_token_empty, Forall_empty_payloads.
  Qed.

  Lemma get_refresh_login_sd rq rnd sd : get_refresh NCE (login_sd rq rnd sd) = TEmpty.
  Proof.
    unfold get_refresh. rewrite login_sd_ref, login_sd_rchunks.
    apply read_token_empty, Forall_empty_payloads.
  Qed.

  Lemma initiate_status rq rnd st sd cookies calls : r_status (initiate cfg rq rnd st sd cookies calls) = 302.
  Proof. rewrite initiate_eq. reflexivity. Qed.
  Lemma initiate_fwd rq rnd st sd cookies calls : r_fwd (initiate cfg rq rnd st sd cookies calls) = None.
  Proof. rewrite initiate_eq. reflexivity. Qed.
  Lemma initiate_calls rq rnd st sd cookies calls : r_calls (initiate cfg rq rnd st sd cookies calls) = calls.
  Proof. rewrite initiate_eq. reflexivity. Qed.
  Lemma initiate_flags rq rnd st sd cookies calls : r_flags (initiate cfg rq rnd st sd cookies calls) = [].
  Proof. rewrite initiate_eq. reflexivity. Qed.
  Lemma initiate_body rq rnd st sd cookies calls : r_body (initiate cfg rq rnd st sd cookies calls) = BNone.
  Proof. rewrite initiate_eq. reflexivity. Qed.
  Lemma initiate_loc rq rnd st sd cookies calls :
    r_loc (initiate cfg rq rnd st sd cookies calls)
    = Some (LAuth (i_auth_url st) (fst (fst rnd)) (snd (fst rnd))
                  (if c_pkce cfg then snd rnd else 0) (q_scheme rq) (q_host rq)).
  Proof. rewrite initiate_eq. reflexivity. Qed.
  Lemma initiate_cookies rq rnd st sd cookies calls :
    r_cookies (initiate cfg rq rnd st sd cookies calls)
    = (cookies ++ save_cookies (cleared sd)) ++ save_cookies (login_sd rq rnd sd).
  Proof. rewrite initiate_eq. reflexivity. Qed.

  Lemma initiate_redirect rq rnd st sd cookies calls :
    is_auth_redirect (i_auth_url st) (initiate cfg rq rnd st sd cookies calls) = true.
  Proof. unfold is_auth_redirect. rewrite initiate_status, initiate_loc. cbn. apply N.eqb_refl. Qed.

  Lemma initiate_main rq rnd st sd cookies calls :
    emitted_main (initiate cfg rq rnd st sd cookies calls) = Some (s_main (login_sd rq rnd sd)).
  Proof. eapply emitted_main_app_save. apply initiate_cookies. Qed.

  Lemma initiate_emits rq rnd st sd cookies calls :
    emits_auth (initiate cfg rq rnd st sd cookies calls) = false.
  Proof. unfold emits_auth. rewrite initiate_main. apply login_sd_not_auth. Qed.

  Lemma initiate_establishes now rq' rq rnd st sd cookies calls :
    establishes E cfg now rq' (initiate cfg rq rnd st sd cookies calls) = false.
  Proof. unfold establishes. rewrite initiate_emits. reflexivity. Qed.

  (* the login redirect stores no ID token, provided the cookies emitted before it
     carry no chunk cookie beyond those of the session it clears *)
  Lemma initiate_emitted_id rq rnd st sd cookies calls :
    chunks_bounded CAccChunk (length (s_achunks sd)) cookies ->
    emitted_id E (initiate cfg rq rnd st sd cookies calls) = Some TEmpty.
  Proof.
    intros Hb. rewrite <- (get_access_login_sd rq rnd sd).
    eapply emitted_id_app_save; [apply initiate_cookies|].
    rewrite login_sd_achunks, length_empty_payloads.
    apply chunks_bounded_app; [exact Hb|].
    apply chunks_bounded_save_acc. cbn [cleared s_achunks]. rewrite length_empty_payloads. lia.
  Qed.

  Lemma initiate_emitted_rt rq rnd st sd cookies calls :
    chunks_bounded CRefChunk (length (s_rchunks sd)) cookies ->
    emitted_rt E (initiate cfg rq rnd st sd cookies calls) = Some TEmpty.
  Proof.
    intros Hb. rewrite <- (get_refresh_login_sd rq rnd sd).
    eapply emitted_rt_app_save; [apply initiate_cookies|].
    rewrite login_sd_rchunks, length_empty_payloads.
    apply chunks_bounded_app; [exact Hb|].
    apply chunks_bounded_save_ref. cbn [cleared s_rchunks]. rewrite length_empty_payloads. lia.
  Qed.

  Lemma initiate_new_token now rq' rq rnd st sd cookies calls :
    chunks_bounded CAccChunk (length (s_achunks sd)) cookies ->
    new_token E cfg now rq' (initiate cfg rq rnd st sd cookies calls) = false.
  Proof. intros Hb. unfold new_token. rewrite initiate_emitted_id by exact Hb. reflexivity. Qed.

  Lemma initiate_covers rq rnd st sd cookies calls n :
    n = CMain \/ n = CAcc \/ n = CRef -> covers (initiate cfg rq rnd st sd cookies calls) n = true.
  Proof. intros Hn. eapply covers_app_r; [apply initiate_cookies|]. apply covers_save_base, Hn. Qed.

  (* ---------------------------------------------------------------- send_error *)

  Lemma send_error_eq rq m code cs calls :
    send_error rq m code cs calls
    = mkResp code None cs (if q_json rq then BJson m else BHtml m) None false calls [].
  Proof. reflexivity. Qed.

  (* ---------------------------------------------------------------- handle_expired *)

  Definition expired_sd (sd : sdata) : sdata :=
    set_main 6 0 (set_refresh NCE 0 (set_access NCE 0 (set_authenticated 0%Z false sd))).

  Lemma handle_expired_eq rq rnd st sd :
    handle_expired E cfg rq rnd st sd
    = initiate cfg rq rnd st (after_save (expired_sd sd)) (save_cookies (expired_sd sd)) [].
  Proof. reflexivity. Qed.

  (* ---------------------------------------------------------------- handle_logout *)

  Lemma handle_logout_eq rq st sd :
    exists loc, handle_logout E cfg rq st sd
                = mkResp 302 (Some loc) (save_cookies (cleared sd)) BNone None false [] [].
  Proof. unfold handle_logout. cbn [clear]. eexists. reflexivity. Qed.

  (* ---------------------------------------------------------------- is_user_authenticated *)

  Lemma iua_auth now sd r x :
    is_user_authenticated E cfg now sd = (true, r, x) ->
    authenticated now sd = true
    /\ exists t, get_access NCE sd = TTok t /\ accept_at now (tok E t) = true.
  Proof.
    unfold is_user_authenticated. fold NCE. change (NC E) with NCE.
    destruct (authenticated now sd); cbn [negb]; [|discriminate].
    destruct (get_access NCE sd) as [|t|]; [discriminate| |discriminate].
    destruct (accept_at now (tok E t)) eqn:Ha; cbn [negb]; [|discriminate].
    intros _. split; [reflexivity|]. exists t. split; [reflexivity|exact Ha].
  Qed.

  Lemma iua_refresh now sd a x :
    is_user_authenticated E cfg now sd = (a, true, x) -> get_refresh NCE sd <> TEmpty.
  Proof.
    unfold is_user_authenticated. change (NC E) with NCE.
    intros H Hr. rewrite Hr in H. cbn [tval_eqb negb] in H.
    destruct (authenticated now sd); cbn [negb] in H; [|discriminate].
    destruct (get_access NCE sd) as [|t|]; try discriminate.
    destruct (accept_at now (tok E t)); cbn [negb] in H; [|discriminate].
    destruct (Z.ltb _ _); discriminate.
  Qed.

  (* ---------------------------------------------------------------- process_authorized *)

  Lemma pa_cases rq rnd st sd cookies calls (P : response -> Prop) :
    (get_str 6 (s_main sd) = 0 -> P (initiate cfg rq rnd st sd cookies calls)) ->
    (forall m, get_str 6 (s_main sd) <> 0 -> P (send_error rq m 403 cookies calls)) ->
    (get_str 6 (s_main sd) <> 0 -> q_options rq = true -> q_origin rq <> 0 ->
     P (mkResp 200 None cookies BNone None true calls [])) ->
    (forall h cors, get_str 6 (s_main sd) <> 0 ->
     P (mkResp 200 None cookies BNone (Some h) cors calls [])) ->
    P (process_authorized E cfg rq rnd st sd cookies calls).
  Proof.
    intros Hinit Herr Hpre Hfwd. unfold process_authorized.
    destruct (N.eqb_spec (get_str 6 (s_main sd)) 0) as [H0|Hne]; [apply Hinit, H0|].
    destruct (allowed_domain E cfg (get_str 6 (s_main sd))); cbn [negb]; [|apply Herr, Hne].
    match goal with |- P (if negb ?b then _ else _) => destruct b end; cbn [negb]; [|apply Herr, Hne].
    destruct (N.eqb_spec (q_origin rq) 0) as [Ho|Ho]; cbn [negb andb]; [apply Hfwd, Hne|].
    destruct (q_options rq) eqn:Hopt; [apply Hpre; [exact Hne|reflexivity|exact Ho]|apply Hfwd, Hne].
  Qed.

  (* ---------------------------------------------------------------- handle_callback *)

  (* the session a successful callback saves *)
  Definition callback_sd (now : time) (sd : sdata) (id rt : istr) : sdata :=
    let sd1 := set_authenticated now true sd in
    let sd2 := set_main 6 (ti_email (tok E id)) sd1 in
    let sd3 := set_refresh NCE rt (set_access NCE id sd2) in
    let sd4 := set_main 5 0 (set_main 4 0 (set_main 3 0 sd3)) in
    set_main 7 0 sd4.

  Definition cb_call (rq : request) (sd : sdata) : pcall :=
    PExchange (q_code rq) (q_scheme rq) (q_host rq) (get_str 5 (s_main sd)).

  Lemma cb_cases rq st now sd ans (P : inst * response -> Prop) :
    (* rejected before any provider call: always 400 *)
    (forall m, P (st, send_error rq m 400 [] [])) ->
    (* the code exchange failed *)
    (forall m, (ans = None \/ exists g, ans = Some (AErr g)) ->
               P (st, send_error rq m 500 [] [cb_call rq sd])) ->
    (* the returned ID token was not verified *)
    (forall m id rt, ans = Some (AOk id rt) -> snd (verify_token E st now id) = false ->
               P (fst (verify_token E st now id), send_error rq m 500 [] [cb_call rq sd])) ->
    (* verified, but unusable for this login *)
    (forall m id rt, ans = Some (AOk id rt) -> snd (verify_token E st now id) = true ->
               (ti_claims (tok E id) = false \/ ti_nonce (tok E id) = 0
                \/ ti_nonce (tok E id) <> get_str 4 (s_main sd) \/ ti_email (tok E id) = 0) ->
               P (fst (verify_token E st now id), send_error rq m 500 [] [cb_call rq sd])) ->
    (* verified, e-mail domain not allowed *)
    (forall m id rt, ans = Some (AOk id rt) -> snd (verify_token E st now id) = true ->
               P (fst (verify_token E st now id), send_error rq m 403 [] [cb_call rq sd])) ->
    (* success *)
    (forall id rt loc, ans = Some (AOk id rt) -> snd (verify_token E st now id) = true ->
               ti_claims (tok E id) = true ->
               P (fst (verify_token E st now id),
                  mkResp 302 (Some (LPath loc)) (save_cookies (callback_sd now sd id rt)) BNone None false
                         [cb_call rq sd] [])) ->
    P (handle_callback E cfg rq st now sd ans).
  Proof.
    intros Hquiet Hex Hver Hbad Hdom Hok. unfold handle_callback. fold (cb_call rq sd).
    destruct (N.eqb_spec (q_error rq) 0) as [He|He]; cbn [negb]; [|apply Hquiet].
    destruct (N.eqb_spec (q_state rq) 0) as [Hs|Hs]; [apply Hquiet|].
    destruct (N.eqb_spec (get_str 3 (s_main sd)) 0) as [Hc|Hc]; [apply Hquiet|].
    destruct (N.eqb_spec (q_state rq) (get_str 3 (s_main sd))) as [Hsc|Hsc]; cbn [negb]; [|apply Hquiet].
    destruct (N.eqb_spec (q_code rq) 0) as [Hcode|Hcode]; [apply Hquiet|].
    destruct ans as [[ig|id rt]|]; [apply Hex; right; eauto| |apply Hex; left; reflexivity].
    destruct (verify_token E st now id) as [st1 ok] eqn:Ev.
    replace st1 with (fst (verify_token E st now id)) by (rewrite Ev; reflexivity).
    assert (Eok : snd (verify_token E st now id) = ok) by (rewrite Ev; reflexivity).
    destruct ok; cbn [negb]; [|apply (Hver _ id rt); [reflexivity|exact Eok]].
    destruct (ti_claims (tok E id)) eqn:Hcl; cbn [negb]; [|apply (Hbad _ id rt); auto].
    destruct (N.eqb_spec (ti_nonce (tok E id)) 0) as [Hn|Hn]; [apply (Hbad _ id rt); auto|].
    destruct (N.eqb_spec (get_str 4 (s_main sd)) 0) as [Hsn|Hsn];
      [apply (Hbad _ id rt); auto; right; right; left; congruence|].
    destruct (N.eqb_spec (ti_nonce (tok E id)) (get_str 4 (s_main sd))) as [Hnn|Hnn]; cbn [negb];
      [|apply (Hbad _ id rt); auto].
    destruct (N.eqb_spec (ti_email (tok E id)) 0) as [Hem|Hem]; [apply (Hbad _ id rt); auto|].
    destruct (allowed_domain E cfg (ti_email (tok E id))) eqn:Had; cbn [negb]; [|apply (Hdom _ id rt); auto].
    apply (Hok id rt); auto.
  Qed.

  Lemma get_access_callback_sd now sd id rt :
    (forall t, (1 <= NCE t)%nat) ->
    get_access NCE (callback_sd now sd id rt) = if N.eqb id 0 then TEmpty else TTok id.
  Proof.
    intros Hpos. unfold callback_sd. rewrite !get_access_set_main, get_access_set_refresh.
    apply get_access_set_access, Hpos.
  Qed.

  (* ---------------------------------------------------------------- refresh_token *)

  (* the session a successful refresh saves *)
  Definition refreshed_sd (now : time) (sd : sdata) (id newrt : istr) : sdata :=
    let sd1 := set_main 6 (ti_email (tok E id)) sd in
    let sd2 := set_access NCE id sd1 in
    let sd3 := match newrt, get_refresh NCE sd with
               | 0%N, TTok old => set_refresh NCE old sd2
               | 0%N, _ => sd2
               | n, _ => set_refresh NCE n sd2
               end in
    set_authenticated now true sd3.

  Lemma refresh_cases st now sd ans (P : inst * sdata * list setcookie * list pcall * bool -> Prop) :
    get_refresh NCE sd <> TEmpty ->
    (* failed, session untouched (the state may have been through VerifyToken) *)
    (forall st', (st' = st \/ exists id, st' = fst (verify_token E st now id)) ->
                 P (st', sd, [], [PRefresh (get_refresh NCE sd)], false)) ->
    (* invalid_grant: the refresh token is dropped from the session *)
    (ans = Some (AErr true) ->
     P (st, after_save (set_refresh NCE 0 sd), save_cookies (set_refresh NCE 0 sd),
        [PRefresh (get_refresh NCE sd)], false)) ->
    (* success *)
    (forall id newrt, ans = Some (AOk id newrt) -> id <> 0 ->
       snd (verify_token E st now id) = true -> ti_claims (tok E id) = true -> ti_email (tok E id) <> 0 ->
       P (fst (verify_token E st now id), after_save (refreshed_sd now sd id newrt),
          save_cookies (refreshed_sd now sd id newrt), [PRefresh (get_refresh NCE sd)], true)) ->
    P (refresh_token E st now sd ans).
  Proof.
    intros Hrt Hfail Hinv Hok. unfold refresh_token. change (NC E) with NCE.
    unfold refreshed_sd in Hok.
    destruct (get_refresh NCE sd) as [|old|] eqn:Er; [contradiction| |];
    (destruct ans as [[[|]|id newrt]|];
       [apply Hinv; reflexivity|apply Hfail; left; reflexivity| |apply Hfail; left; reflexivity];
     destruct (N.eqb_spec id 0) as [Hid|Hid]; [apply Hfail; left; reflexivity|];
     destruct (verify_token E st now id) as [st1 ok] eqn:Ev;
     assert (Est : st1 = fst (verify_token E st now id)) by (rewrite Ev; reflexivity);
     assert (Eok : snd (verify_token E st now id) = ok) by (rewrite Ev; reflexivity);
     destruct ok; cbn [negb]; [|apply Hfail; right; eauto];
     destruct (ti_claims (tok E id)) eqn:Hcl; cbn [negb]; [|apply Hfail; right; eauto];
     destruct (N.eqb_spec (ti_email (tok E id)) 0) as [Hem|Hem]; [apply Hfail; right; eauto|];
     rewrite Est; apply (Hok id newrt); auto).
  Qed.

  Lemma get_access_refreshed_sd now sd id newrt :
    (forall t, (1 <= NCE t)%nat) ->
    get_access NCE (refreshed_sd now sd id newrt) = if N.eqb id 0 then TEmpty else TTok id.
  Proof.
    intros Hpos. unfold refreshed_sd. rewrite get_access_set_auth.
    destruct newrt as [|p]; [destruct (get_refresh NCE sd)|];
      rewrite ?get_access_set_refresh; apply get_access_set_access, Hpos.
  Qed.

End Handlers.

(* ================================================================== 6. the case analysis of serve *)

Section ServeCases.
  Variable E : env.
  Variable cfg : config.
  Notation NCE := (nchunks E).

  (* what serve answers when a due refresh failed *)
  Definition refresh_failed_resp (rq : request) (rnd : istr * istr * istr) (st1 : inst) (sd1 : sdata)
             (cs : list setcookie) (calls : list pcall) : response :=
    if q_json rq then mkResp 401 None cs BJson401 None false calls []
    else initiate cfg rq rnd st1 sd1 cs calls.

  Definition excluded_resp (rq : request) : response :=
    mkResp 200 None [] BNone (Some (map (fun c => (1000 + c, HStr 0)) (q_client_ids rq))) false [] [].

  Lemma gated_intro rq :
    excluded E cfg (q_path rq) = false -> q_path rq <> c_logout cfg -> q_path rq <> c_callback cfg ->
    gated E cfg rq = true.
  Proof.
    intros He Hl Hc. unfold gated, is_excluded, is_callback, is_logout. rewrite He.
    destruct (N.eqb_spec (q_path rq) (c_callback cfg)); [contradiction|].
    destruct (N.eqb_spec (q_path rq) (c_logout cfg)); [contradiction|]. reflexivity.
  Qed.

  (* every way a ready instance answers a request; sd is the session the
     request carried (the monitors' `carried`) *)
  Lemma serve_cases st now rq rnd ans (P : inst * response -> Prop) :
    i_ready st = true ->
    (* excluded path: forwarded untouched *)
    (is_excluded E cfg rq = true -> P (st, excluded_resp rq)) ->
    (* logout *)
    (is_excluded E cfg rq = false -> is_logout cfg rq = true ->
     P (st, handle_logout E cfg rq st (carried cfg now rq))) ->
    (* callback *)
    (is_excluded E cfg rq = false -> is_logout cfg rq = false -> is_callback cfg rq = true ->
     P (handle_callback E cfg rq st now (carried cfg now rq) ans)) ->
    (* gated, token expired and no refresh token *)
    (gated E cfg rq = true -> P (st, handle_expired E cfg rq rnd st (carried cfg now rq))) ->
    (* gated, valid session, no refresh due *)
    (gated E cfg rq = true -> carries_valid_session E cfg now rq = true ->
     P (st, process_authorized E cfg rq rnd st (carried cfg now rq) [] [])) ->
    (* gated, refresh due: failed with the session untouched *)
    (gated E cfg rq = true -> session_refresh E cfg now rq <> TEmpty ->
     forall st', (st' = st \/ exists id, st' = fst (verify_token E st now id)) ->
       P (st', refresh_failed_resp rq rnd st' (carried cfg now rq) []
                                   [PRefresh (session_refresh E cfg now rq)])) ->
    (* gated, refresh due: invalid_grant *)
    (gated E cfg rq = true -> session_refresh E cfg now rq <> TEmpty -> ans = Some (AErr true) ->
       P (st, refresh_failed_resp rq rnd st (after_save (set_refresh NCE 0 (carried cfg now rq)))
                                  (save_cookies (set_refresh NCE 0 (carried cfg now rq)))
                                  [PRefresh (session_refresh E cfg now rq)])) ->
    (* gated, refresh due: succeeded *)
    (gated E cfg rq = true -> session_refresh E cfg now rq <> TEmpty ->
     forall id newrt, ans = Some (AOk id newrt) -> id <> 0 ->
       snd (verify_token E st now id) = true -> ti_claims (tok E id) = true -> ti_email (tok E id) <> 0 ->
       P (fst (verify_token E st now id),
          process_authorized E cfg rq rnd (fst (verify_token E st now id))
                             (after_save (refreshed_sd E now (carried cfg now rq) id newrt))
                             (save_cookies (refreshed_sd E now (carried cfg now rq) id newrt))
                             [PRefresh (session_refresh E cfg now rq)])) ->
    (* gated, anything else: login redirect *)
    (gated E cfg rq = true -> P (st, initiate cfg rq rnd st (carried cfg now rq) [] [])) ->
    P (serve E cfg st now rq rnd ans).
  Proof.
    intros Hready Hexc Hlogout Hcb Hexp Hauth Hrfail Hrinv Hrok Hinit.
    unfold serve. rewrite Hready. cbn [negb]. fold (carried cfg now rq).
    change (excluded E cfg (q_path rq)) with (is_excluded E cfg rq).
    change (N.eqb (q_path rq) (c_logout cfg)) with (is_logout cfg rq).
    change (N.eqb (q_path rq) (c_callback cfg)) with (is_callback cfg rq).
    destruct (is_excluded E cfg rq) eqn:He; [apply Hexc; reflexivity|].
    destruct (is_logout cfg rq) eqn:Hl; [apply Hlogout; reflexivity|].
    destruct (is_callback cfg rq) eqn:Hc; [apply Hcb; reflexivity|].
    assert (Hg : gated E cfg rq = true) by (unfold gated; rewrite He, Hl, Hc; reflexivity).
    change (NC E) with NCE.
    destruct (is_user_authenticated E cfg now (carried cfg now rq)) as [[a r] x] eqn:Hiua.
    destruct x; [apply Hexp, Hg|].
    destruct a, r; cbn [andb negb].
    - (* authenticated, refresh due *)
      pose proof (iua_refresh E cfg _ _ _ _ Hiua) as Hrt.
      destruct (tval_eqb (get_refresh NCE (carried cfg now rq)) TEmpty) eqn:Et;
        [apply tval_eqb_eq in Et; contradiction|]. cbn [negb].
      apply (refresh_cases E st now (carried cfg now rq) ans); [exact Hrt| | |].
      + intros st' Hst'. generalize (Hrfail Hg Hrt st' Hst'). unfold refresh_failed_resp.
        destruct (q_json rq); intros HH; exact HH.
      + intros Ha. generalize (Hrinv Hg Hrt Ha). unfold refresh_failed_resp.
        destruct (q_json rq); intros HH; exact HH.
      + intros id newrt Ha Hid Hv Hcl Hem. exact (Hrok Hg Hrt id newrt Ha Hid Hv Hcl Hem).
    - (* authenticated, no refresh due *)
      apply Hauth; [exact Hg|]. unfold carries_valid_session, session_token.
      destruct (iua_auth E cfg _ _ _ _ Hiua) as (Hau & t & Ht & Hacc).
      change (NCm E) with NCE. rewrite Hau, Ht. exact Hacc.
    - (* not authenticated, refresh token present *)
      pose proof (iua_refresh E cfg _ _ _ _ Hiua) as Hrt.
      destruct (tval_eqb (get_refresh NCE (carried cfg now rq)) TEmpty) eqn:Et;
        [apply tval_eqb_eq in Et; contradiction|]. cbn [negb].
      apply (refresh_cases E st now (carried cfg now rq) ans); [exact Hrt| | |].
      + intros st' Hst'. generalize (Hrfail Hg Hrt st' Hst'). unfold refresh_failed_resp.
        destruct (q_json rq); intros HH; exact HH.
      + intros Ha. generalize (Hrinv Hg Hrt Ha). unfold refresh_failed_resp.
        destruct (q_json rq); intros HH; exact HH.
      + intros id newrt Ha Hid Hv Hcl Hem. exact (Hrok Hg Hrt id newrt Ha Hid Hv Hcl Hem).
    - apply Hinit, Hg.
  Qed.
End ServeCases.
