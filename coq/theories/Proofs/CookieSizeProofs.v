(* From a measured table covering every payload length 0..max to a statement
   about every compressed token text of ANY length: the token cookie holds the
   text (length <= max) or nothing, the chunk cookies hold pieces of 1..max
   bytes (Proofs/SessionProofs.split_chunks_sizes), and each of those lengths
   has a table entry within the limit. *)
From VF Require Import Base.Prelude Model.Codec Model.CookieSize Proofs.SessionProofs.
From Coq Require Import ZifyBool ZifyNat ZifyN.
Open Scope N_scope.

Lemma covered_fits lim tab max : covered lim tab max = true ->
  forall len, (len <= max)%nat -> fits lim tab len.
Proof.
  intros H len Hl. unfold covered in H. rewrite forallb_forall in H.
  assert (Hin : In len (seq 0 (S max))) by (apply in_seq; lia).
  specialize (H len Hin). unfold covered_at in H.
  destruct (line_of tab len) as [n|] eqn:E; [|discriminate].
  exists n. unfold line_ok in H. split; [exact E|lia].
Qed.

Section Sizes.
  Context {A : Type}.
  Variables (lim : N) (token_tab chunk_tab : list (N * N)) (max : nat).
  Hypothesis Hmax : (0 < max)%nat.
  Hypothesis Htoken : covered lim token_tab max = true.
  Hypothesis Hchunk : covered lim chunk_tab max = true.

  Lemma token_field_len (s : list A) : (length (token_field max s) <= max)%nat.
  Proof. unfold token_field. destruct (Nat.leb (length s) max) eqn:E; cbn [length]; lia. Qed.

  Lemma chunk_fields_len (s : list A) :
    Forall (fun p => (1 <= length p <= max)%nat) (chunk_fields max s).
  Proof.
    unfold chunk_fields. destruct (Nat.leb (length s) max); [constructor|].
    apply split_chunks_sizes. exact Hmax.
  Qed.

  (* nothing of the text is lost: token cookie text ++ chunk texts is the text *)
  Lemma stored_text (s : list A) : token_field max s ++ concat (chunk_fields max s) = s.
  Proof.
    unfold token_field, chunk_fields. destruct (Nat.leb (length s) max).
    - apply app_nil_r.
    - cbn [app]. apply split_chunks_concat. exact Hmax.
  Qed.

  Theorem stored_cookies_fit (s : list A) :
    fits lim token_tab (length (token_field max s))
    /\ Forall (fun p => fits lim chunk_tab (length p)) (chunk_fields max s).
  Proof.
    split.
    - apply (covered_fits lim token_tab max Htoken). apply token_field_len.
    - eapply Forall_impl; [|apply chunk_fields_len]. cbn beta. intros p Hp.
      apply (covered_fits lim chunk_tab max Hchunk). lia.
  Qed.
End Sizes.
