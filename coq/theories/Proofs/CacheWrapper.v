(* The cache behind an injective renaming of keys.

   The Go code wraps the cache in TokenCache (helpers.go): every operation of
   the wrapper is the cache's operation on the key "t-" ++ token.  That is an
   injective renaming of the caller's keys.  This file shows that the model
   (Model/Cache.v) cannot tell the difference: the cache run on the renamed
   history goes through exactly the renamed states and produces exactly the
   same outputs, because every decision the model takes about keys is an
   equality test (N.eqb) and an injective function preserves and reflects
   equality.  Consequently the history specification (Spec/CacheSpec.v), read
   with the caller's keys, holds of the wrapped cache. *)
From VF Require Import Base.Prelude Model.Cache Spec.CacheSpec Proofs.CacheProofs.
Open Scope Z_scope.

(* the same operation on key f k; Cleanup unchanged *)
Definition rename_op (f : key -> key) (o : op) : op :=
  match o with
  | OSet k v ttl => OSet (f k) v ttl
  | OGet k => OGet (f k)
  | ODel k => ODel (f k)
  | OCleanup => OCleanup
  end.

Definition rename_hist (f : key -> key) (h : list (time * op)) : list (time * op) :=
  map (fun e => (fst e, rename_op f (snd e))) h.

Definition rename_pair (f : key -> key) (p : key * entry) : key * entry := (f (fst p), snd p).

Definition rename_items (f : key -> key) (it : list (key * entry)) : list (key * entry) :=
  map (rename_pair f) it.

Definition rename_cache (f : key -> key) (c : cache) : cache :=
  mkCache (cap c) (rename_items f (items c)) (map f (order c)).

Section Rename.
  Variable f : key -> key.
  Hypothesis Hinj : forall a b, f a = f b -> a = b.

  Lemma eqb_rename a b : N.eqb (f a) (f b) = N.eqb a b.
  Proof.
    destruct (N.eqb_spec a b) as [->|Hne]; [apply N.eqb_refl|].
    apply N.eqb_neq. intros E. apply Hne, Hinj, E.
  Qed.

  Lemma rename_items_cons k e it :
    rename_items f ((k, e) :: it) = (f k, e) :: rename_items f it.
  Proof. reflexivity. Qed.

  Lemma rename_items_app it1 it2 :
    rename_items f (it1 ++ it2) = rename_items f it1 ++ rename_items f it2.
  Proof. apply map_app. Qed.

  Lemma rename_items_length it : length (rename_items f it) = length it.
  Proof. apply map_length. Qed.

  Lemma lookup_rename k it : lookup (f k) (rename_items f it) = lookup k it.
  Proof.
    induction it as [|[a e] it IH]; [reflexivity|].
    rewrite rename_items_cons. cbn [lookup]. rewrite eqb_rename, IH. reflexivity.
  Qed.

  Lemma remove_assoc_rename k it :
    remove_assoc (f k) (rename_items f it) = rename_items f (remove_assoc k it).
  Proof.
    induction it as [|[a e] it IH]; [reflexivity|].
    rewrite rename_items_cons. cbn [remove_assoc]. rewrite eqb_rename, IH.
    destruct (N.eqb k a) eqn:E; [reflexivity|]. rewrite rename_items_cons. reflexivity.
  Qed.

  Lemma update_rename k e it :
    update (f k) e (rename_items f it) = rename_items f (update k e it).
  Proof.
    induction it as [|[a e'] it IH]; [reflexivity|].
    rewrite rename_items_cons. cbn [update]. rewrite eqb_rename, IH.
    destruct (N.eqb k a) eqn:E; rewrite rename_items_cons; reflexivity.
  Qed.

  Lemma remove_key_rename k o : remove_key (f k) (map f o) = map f (remove_key k o).
  Proof.
    induction o as [|a o IH]; [reflexivity|].
    cbn [map remove_key]. rewrite eqb_rename, IH.
    destruct (N.eqb k a) eqn:E; reflexivity.
  Qed.

  Lemma memk_rename k o : memk (f k) (map f o) = memk k o.
  Proof.
    induction o as [|a o IH]; [reflexivity|].
    cbn [map memk]. rewrite eqb_rename, IH. reflexivity.
  Qed.

  Lemma touch_rename k o : touch (f k) (map f o) = map f (touch k o).
  Proof.
    unfold touch. rewrite memk_rename, remove_key_rename.
    destruct (memk k o) eqn:E; [|reflexivity]. rewrite map_app. reflexivity.
  Qed.

  Lemma remove_rename k c : remove (f k) (rename_cache f c) = rename_cache f (remove k c).
  Proof.
    unfold remove, rename_cache. cbn [cap items order].
    rewrite remove_assoc_rename, remove_key_rename. reflexivity.
  Qed.

  Lemma key_expired_rename now it k :
    key_expired now (rename_items f it) (f k) = key_expired now it k.
  Proof. unfold key_expired. rewrite lookup_rename. reflexivity. Qed.

  Lemma find_rename now it o :
    find (key_expired now (rename_items f it)) (map f o) =
    option_map f (find (key_expired now it) o).
  Proof.
    induction o as [|a o IH]; [reflexivity|].
    cbn [map find]. rewrite key_expired_rename, IH.
    destruct (key_expired now it a) eqn:E; reflexivity.
  Qed.

  Lemma evict_rename now c : evict now (rename_cache f c) = rename_cache f (evict now c).
  Proof.
    unfold evict. cbn [rename_cache items order]. rewrite find_rename.
    destruct (find (key_expired now (items c)) (order c)) as [k|] eqn:E; cbn [option_map].
    - apply remove_rename.
    - destruct (order c) as [|k o] eqn:Eo; cbn [map].
      + reflexivity.
      + apply remove_rename.
  Qed.

  Lemma set_rename now k v ttl c :
    set now (f k) v ttl (rename_cache f c) = rename_cache f (set now k v ttl c).
  Proof.
    unfold set. cbn [rename_cache cap items order].
    rewrite lookup_rename, rename_items_length.
    destruct (lookup k (items c)) as [e|] eqn:El.
    - rewrite update_rename, touch_rename. reflexivity.
    - destruct (Nat.leb (cap c) (length (items c))) eqn:Ec.
      + change (mkCache (cap c) (rename_items f (items c)) (map f (order c)))
          with (rename_cache f c).
        rewrite evict_rename. unfold rename_cache. cbn [cap items order].
        rewrite rename_items_app, map_app. reflexivity.
      + unfold rename_cache. cbn [cap items order].
        rewrite rename_items_app, map_app. reflexivity.
  Qed.

  Lemma get_rename now k c :
    get now (f k) (rename_cache f c) =
    (rename_cache f (fst (get now k c)), snd (get now k c)).
  Proof.
    unfold get. cbn [rename_cache cap items order]. rewrite lookup_rename.
    destruct (lookup k (items c)) as [e|] eqn:El; [|reflexivity].
    destruct (expired now e) eqn:Ee; cbn [fst snd].
    - change (mkCache (cap c) (rename_items f (items c)) (map f (order c)))
        with (rename_cache f c).
      rewrite remove_rename. reflexivity.
    - rewrite touch_rename. reflexivity.
  Qed.

  Lemma cleanup_keys_rename now it :
    cleanup_keys now (rename_items f it) = map f (cleanup_keys now it).
  Proof.
    unfold cleanup_keys. induction it as [|[a e] it IH]; [reflexivity|].
    rewrite rename_items_cons. cbn [filter snd].
    destruct (cleanup_cond now e) eqn:E; cbn [map fst]; rewrite IH; reflexivity.
  Qed.

  Lemma fold_remove_rename ks c :
    fold_left (fun c k => remove k c) (map f ks) (rename_cache f c) =
    rename_cache f (fold_left (fun c k => remove k c) ks c).
  Proof.
    revert c. induction ks as [|k ks IH]; intros c; [reflexivity|].
    cbn [map fold_left]. rewrite remove_rename. apply IH.
  Qed.

  Lemma cleanup_rename now c : cleanup now (rename_cache f c) = rename_cache f (cleanup now c).
  Proof.
    unfold cleanup. cbn [rename_cache items]. rewrite cleanup_keys_rename.
    apply fold_remove_rename.
  Qed.

  (* one step of the renamed cache on the renamed operation: the renamed
     successor state, the same output *)
  Lemma step_rename c t o :
    step (rename_cache f c) (t, rename_op f o) =
    (rename_cache f (fst (step c (t, o))), snd (step c (t, o))).
  Proof.
    destruct o as [k v ttl|k|k|]; cbn [step rename_op fst snd].
    - rewrite set_rename. reflexivity.
    - apply get_rename.
    - unfold delete. rewrite remove_rename. reflexivity.
    - rewrite cleanup_rename. reflexivity.
  Qed.

  Lemma run_rename c h :
    run (rename_cache f c) (rename_hist f h) =
    (rename_cache f (fst (run c h)), snd (run c h)).
  Proof.
    revert c. induction h as [|[t o] h IH]; intros c; [reflexivity|].
    cbn [rename_hist map fst snd run]. fold (rename_hist f h).
    rewrite step_rename. destruct (step c (t, o)) as [c1 out]. cbn [fst snd].
    rewrite IH. destruct (run c1 h) as [c2 outs]. reflexivity.
  Qed.

  Lemma rename_empty n : rename_cache f (empty n) = empty n.
  Proof. reflexivity. Qed.

  (* The outputs of the wrapped cache on the caller's history are those of a
     plain cache on that history. *)
  Theorem wrapper_outputs capacity h :
    snd (run (empty capacity) (rename_hist f h)) = snd (run (empty capacity) h).
  Proof. rewrite <- (rename_empty capacity) at 1. rewrite run_rename. reflexivity. Qed.

  (* The final state of the wrapped cache is the renamed final state. *)
  Theorem wrapper_state capacity h :
    fst (run (empty capacity) (rename_hist f h)) = rename_cache f (fst (run (empty capacity) h)).
  Proof. rewrite <- (rename_empty capacity) at 1. rewrite run_rename. reflexivity. Qed.

  (* The history specification, read with the caller's keys, holds of the
     outputs of the wrapped cache. *)
  Theorem wrapper_history capacity h :
    monotone h = true ->
    check_history capacity h (snd (run (empty capacity) (rename_hist f h))) = true.
  Proof. intros M. rewrite wrapper_outputs. apply run_check_history, M. Qed.
End Rename.
