(* A concrete deployment, built by hand, on which the premises of the world
   theorems (env_ok, cfg_ok) hold and the interesting branches of serve are
   taken: used by the non-vacuity Examples of Properties/C01.v, C14.v, C17.v.

   strings: 1 "/"  2 "/cb"  3 "/lo"  4 "/f" (excluded prefix)  5 "/a" (protected)
            10 an ID token (exp 1000 s, e-mail 11, nonce 12)   11 "a@b"
            16 a long-lived ID token (exp 173300 s = 48 h after ex_now), no jti
            1000..1999 long-lived ID tokens, token s carrying the jti s + 1000
            12 nonce  13 state  14 code  30 authorization endpoint  31 end-session endpoint *)
From VF Require Import Base.Prelude Model.Cache Model.Session Model.Middleware Corr.WorldCorr Spec.WorldSpec.
From VF Require Import Proofs.CacheProofs Proofs.WorldBase.
From Coq Require Import ZifyBool ZifyNat ZifyN.
Open Scope N_scope.

Definition ex_bytes (s : istr) : list N :=
  match lookup s [(1, [47]); (2, [47; 99; 98]); (3, [47; 108; 111]); (4, [47; 102]); (5, [47; 97])] with
  | Some b => b
  | None => []
  end.

Definition ex_tok (s : istr) : tokinfo :=
  if N.eqb s 10 then mkTok true true 1000 0 None 0 11 12 ClAbsent ClAbsent
  else if N.eqb s 16 then mkTok true true 173300 0 None 0 11 12 ClAbsent ClAbsent
  else if N.leb 1000 s && N.ltb s 2000 then mkTok true true 173300 0 None (s + 1000) 11 12 ClAbsent ClAbsent
  else no_token.

Definition exE : env := mkEnv ex_bytes ex_tok (fun _ => 1%nat) (fun _ _ => None) (fun s => s).

Definition excfg : config := mkCfg 7 2 3 [4] false false [] [] 0 1 false [].

Lemma exE_ok : env_ok exE.
Proof.
  split.
  - reflexivity.
  - intros t. cbn. lia.
  - intros t. cbn [tok exE]. unfold ex_tok. destruct (N.eqb t 10); [reflexivity|].
    destruct (N.eqb t 16); [reflexivity|]. destruct (N.leb 1000 t && N.ltb t 2000); [reflexivity|discriminate].
  - reflexivity.
  - intros u. unfold local_path. cbn [bytes_of redir exE]. unfold ex_bytes. cbn [lookup].
    destruct (N.eqb u 1); [reflexivity|].
    destruct (N.eqb u 2); [reflexivity|].
    destruct (N.eqb u 3); [reflexivity|].
    destruct (N.eqb u 4); [reflexivity|].
    destruct (N.eqb u 5); [reflexivity|]. discriminate.
Qed.

Lemma excfg_ok : cfg_ok excfg.
Proof. split; [intros n []|cbn; lia]. Qed.

Definition ex_now : time := (500 * sec)%Z.
Definition ex_inst : inst := fresh_inst true 30 31.
Definition ex_rnd : istr * istr * istr := (13, 12, 15).

(* cookies of a browser logged in with token 10 since instant 400 s *)
Definition ex_main_auth : payload := [(1, VB true); (2, VZ 400); (6, VS 11)].
Definition ex_acc : payload := [(1, VC [PSlice 10 0]); (2, VB true)].
Definition ex_jar_auth : jar := [(CMain, Sealed 7 CMain ex_main_auth); (CAcc, Sealed 7 CAcc ex_acc)].

(* cookies of a browser in the middle of a login (state 13, nonce 12) *)
Definition ex_jar_pending : jar := [(CMain, Sealed 7 CMain [(3, VS 13); (4, VS 12); (7, VS 5)])].

(* a main cookie this deployment cannot decode *)
Definition ex_jar_junk : jar := [(CMain, Junk)].

Definition ex_req (path : istr) (j : jar) : request :=
  mkReq false path path 2 0 0 0 0 false 0 20 21 false [1; 7] j.

Definition ex_callback (j : jar) : request :=
  mkReq false 2 2 3 0 0 13 14 false 0 20 21 false [] j.
