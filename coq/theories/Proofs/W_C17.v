(* Property C17 (step monitor) and the response-flag monitors C16 / C18 / C09:
   every response of Model/Middleware.serve
     - raises no anomaly flag (flags_serve), hence c16_step / c18_step / c09_step;
       an HTML / JSON error body only ever goes with a status >= 400
     - is never a 5xx unless the PROVIDER interaction of a callback failed
       (refused code exchange, or an ID token that is unacceptable / lacks the
       nonce or e-mail of this login)
     - answers an undecodable main cookie on a protected path with a login
       redirect that rewrites the three base cookies (or 401 for JSON clients). *)
From VF Require Import Base.Prelude Model.Cache Model.Session Model.Middleware Corr.WorldCorr Spec.WorldSpec.
From VF Require Import Proofs.CacheProofs Proofs.WorldBase Proofs.ServeLemmas Proofs.VerifyProofs.
From Coq Require Import ZifyBool ZifyNat ZifyN.
Open Scope N_scope.

Section C17.
  Variable E : env.
  Variable cfg : config.
  Notation NCE := (nchunks E).

  (* ================================================================ flags and bodies (C16, C18, C09) *)

  Definition resp_wf (r : response) : Prop :=
    r_flags r = []
    /\ match r_body r with BHtml _ | BJson _ => 400 <= r_status r | _ => True end.

  Lemma wf_initiate rq rnd st sd cookies calls : resp_wf (initiate cfg rq rnd st sd cookies calls).
  Proof. rewrite initiate_eq. split; [reflexivity|exact I]. Qed.

  Lemma wf_send_error rq m code cs calls : 400 <= code -> resp_wf (send_error rq m code cs calls).
  Proof. intros Hc. unfold send_error. split; [reflexivity|]. cbn [r_body r_status]. destruct (q_json rq); exact Hc. Qed.

  Lemma wf_pa rq rnd st sd cookies calls : resp_wf (process_authorized E cfg rq rnd st sd cookies calls).
  Proof.
    apply (pa_cases E cfg rq rnd st sd cookies calls).
    - intros _. apply wf_initiate.
    - intros m _. apply wf_send_error. lia.
    - intros _ _ _. split; [reflexivity|exact I].
    - intros h cors _. split; [reflexivity|exact I].
  Qed.

  Lemma wf_refresh_failed rq rnd st sd cs calls : resp_wf (refresh_failed_resp cfg rq rnd st sd cs calls).
  Proof. unfold refresh_failed_resp. destruct (q_json rq); [split; [reflexivity|exact I]|apply wf_initiate]. Qed.

  Theorem serve_resp_wf st now rq rnd ans : resp_wf (snd (serve E cfg st now rq rnd ans)).
  Proof.
    destruct (i_ready st) eqn:Hr.
    - apply (serve_cases E cfg st now rq rnd ans (fun p => resp_wf (snd p))); [exact Hr|..]; cbn [snd].
      + intros _. split; [reflexivity|exact I].
      + intros _ _. destruct (handle_logout_eq E cfg rq st (carried cfg now rq)) as [loc ->].
        split; [reflexivity|exact I].
      + intros _ _ _. apply (cb_cases E cfg rq st now (carried cfg now rq) ans); cbn [snd];
          try (intros; apply wf_send_error; lia).
        intros. split; [reflexivity|exact I].
      + intros _. rewrite handle_expired_eq. apply wf_initiate.
      + intros _ _. apply wf_pa.
      + intros _ _ st' _. apply wf_refresh_failed.
      + intros _ _ _. apply wf_refresh_failed.
      + intros _ _ id newrt _ _ _ _ _. apply wf_pa.
      + intros _. apply wf_initiate.
    - unfold serve. rewrite Hr. cbn [negb snd]. split; [reflexivity|exact I].
  Qed.

  Theorem flags_serve st now rq rnd ans : r_flags (snd (serve E cfg st now rq rnd ans)) = [].
  Proof. apply serve_resp_wf. Qed.

  Theorem c16_serve st now rq rnd ans : c16_step (snd (serve E cfg st now rq rnd ans)) = true.
  Proof.
    destruct (serve_resp_wf st now rq rnd ans) as [Hf Hb]. unfold c16_step, no_flag. rewrite Hf.
    cbn [memk negb andb]. destruct (r_body _); try reflexivity; apply N.leb_le, Hb.
  Qed.

  Theorem c18_serve st now rq rnd ans : c18_step (snd (serve E cfg st now rq rnd ans)) = true.
  Proof. unfold c18_step, no_flag. rewrite flags_serve. reflexivity. Qed.

  Theorem c09_serve st now rq rnd ans : c09_step (snd (serve E cfg st now rq rnd ans)) = true.
  Proof. unfold c09_step, no_flag. rewrite flags_serve. reflexivity. Qed.

  (* ================================================================ C17 *)

  (* the clause about an unusable main cookie *)
  Definition unusable_clause (a : istr) (now : time) (rq : request) (ans : option answer) (r : response) : bool :=
    if gated E cfg rq && unusable cfg CMain rq && negb (refreshed_ok E cfg now rq ans r)
       && negb (q_json rq && forwarded r)
    then (is_auth_redirect a r || (q_json rq && N.eqb (r_status r) 401))
         && (if is_auth_redirect a r then covers r CMain && covers r CAcc && covers r CRef else true)
    else true.

  Lemma c17_build a now rq ans r :
    r_flags r = [] ->
    (r_status r < 500 \/ (r_status r = 500 /\ provider_failure E cfg now rq ans r = true)) ->
    unusable_clause a now rq ans r = true ->
    c17_step E cfg a now rq ans r = true.
  Proof.
    intros Hf Hs Hu. unfold c17_step, no_flag. fold (unusable_clause a now rq ans r).
    rewrite Hf, Hu. cbn [memk negb andb]. rewrite andb_true_r.
    destruct Hs as [Hs|[Hs Hp]].
    - destruct (N.eqb_spec (r_status r) 999); [lia|].
      destruct (N.ltb_spec (r_status r) 500); [reflexivity|lia].
    - rewrite Hp, Hs. reflexivity.
  Qed.

  Lemma clause_ungated a now rq ans r : gated E cfg rq = false -> unusable_clause a now rq ans r = true.
  Proof. intros Hg. unfold unusable_clause. rewrite Hg. reflexivity. Qed.

  Lemma clause_usable a now rq ans r : unusable cfg CMain rq = false -> unusable_clause a now rq ans r = true.
  Proof. intros Hu. unfold unusable_clause. rewrite Hu, andb_false_r. reflexivity. Qed.

  Lemma clause_refreshed a now rq ans r :
    refreshed_ok E cfg now rq ans r = true -> unusable_clause a now rq ans r = true.
  Proof. intros Hr. unfold unusable_clause. rewrite Hr. cbn [negb]. rewrite andb_false_r. reflexivity. Qed.

  Lemma clause_redirect a now rq ans r :
    is_auth_redirect a r = true -> covers r CMain = true -> covers r CAcc = true -> covers r CRef = true ->
    unusable_clause a now rq ans r = true.
  Proof.
    intros Hr H1 H2 H3. unfold unusable_clause. rewrite Hr, H1, H2, H3.
    destruct (_ && _ && _ && _); reflexivity.
  Qed.

  Lemma clause_401 a now rq ans r :
    q_json rq = true -> r_status r = 401 -> unusable_clause a now rq ans r = true.
  Proof.
    intros Hj Hs. unfold unusable_clause, is_auth_redirect. rewrite Hj, Hs. cbn.
    destruct (_ && _ && _ && _); reflexivity.
  Qed.

  Lemma clause_initiate st now rq rnd ans st' sd cookies calls :
    i_auth_url st' = i_auth_url st ->
    unusable_clause (i_auth_url st) now rq ans (initiate cfg rq rnd st' sd cookies calls) = true.
  Proof.
    intros Hu. apply clause_redirect; [rewrite <- Hu; apply initiate_redirect|..];
      apply initiate_covers; tauto.
  Qed.

  (* an undecodable main cookie loads as an empty, unauthenticated session *)
  Lemma unusable_main_empty now rq : unusable cfg CMain rq = true -> s_main (carried cfg now rq) = [].
  Proof.
    unfold unusable, carried, load, get_session.
    destruct (jar_get CMain (q_jar rq)) as [c|]; [|discriminate].
    destruct (decode (c_key cfg) CMain c); [discriminate|]. intros _. cbn [fst].
    unfold session_too_old. cbn. reflexivity.
  Qed.

  Lemma unusable_not_valid now rq :
    unusable cfg CMain rq = true -> carries_valid_session E cfg now rq = false.
  Proof.
    intros Hu. unfold carries_valid_session, authenticated.
    rewrite (unusable_main_empty now rq Hu). reflexivity.
  Qed.

  Lemma c17_initiate st now rq rnd ans st' sd cookies calls :
    i_auth_url st' = i_auth_url st ->
    c17_step E cfg (i_auth_url st) now rq ans (initiate cfg rq rnd st' sd cookies calls) = true.
  Proof.
    intros Hu. apply c17_build; [apply initiate_flags|left; rewrite initiate_status; lia|].
    apply (clause_initiate st now rq rnd ans st' sd cookies calls Hu).
  Qed.

  (* a response of process_authorized when the main-cookie clause is known to hold *)
  Lemma c17_pa st now rq rnd ans st' sd cookies calls :
    i_auth_url st' = i_auth_url st ->
    (forall r, r_calls r = calls -> unusable_clause (i_auth_url st) now rq ans r = true) ->
    c17_step E cfg (i_auth_url st) now rq ans (process_authorized E cfg rq rnd st' sd cookies calls) = true.
  Proof.
    intros Hu Hcl. apply (pa_cases E cfg rq rnd st' sd cookies calls).
    - intros _. apply c17_initiate, Hu.
    - intros m _. apply c17_build; [reflexivity|left; cbn [send_error r_status]; lia|].
      apply Hcl. reflexivity.
    - intros _ _ _. apply c17_build; [reflexivity|left; cbn [r_status]; lia|].
      apply Hcl. reflexivity.
    - intros h cors _. apply c17_build; [reflexivity|left; cbn [r_status]; lia|].
      apply Hcl. reflexivity.
  Qed.

  Lemma accept_static now t : accept_at now (tok E t) = true -> ti_static (tok E t) = true.
  Proof. unfold accept_at. destruct (ti_static (tok E t)); [reflexivity|discriminate]. Qed.

  Theorem c17_serve st now rq rnd ans :
    env_ok E -> cfg_ok cfg -> inst_ok E st now -> i_ready st = true ->
    (forall id rt, ans = Some (AOk id rt) -> fresh_for E st id) ->
    c17_step E cfg (i_auth_url st) now rq ans (snd (serve E cfg st now rq rnd ans)) = true.
  Proof.
    intros He _ Hok Hready Hfresh.
    apply (serve_cases E cfg st now rq rnd ans
             (fun p => c17_step E cfg (i_auth_url st) now rq ans (snd p) = true)); [exact Hready|..];
      cbn [snd].
    - (* excluded *)
      intros Hex. apply c17_build; [reflexivity|left; cbn [excluded_resp r_status]; lia|].
      apply clause_ungated. unfold gated. rewrite Hex. reflexivity.
    - (* logout *)
      intros Hex Hlo. destruct (handle_logout_eq E cfg rq st (carried cfg now rq)) as [loc ->].
      apply c17_build; [reflexivity|left; cbn [r_status]; lia|].
      apply clause_ungated. unfold gated. rewrite Hlo, andb_false_r. reflexivity.
    - (* callback *)
      intros Hex Hlo Hcb.
      assert (Hng : gated E cfg rq = false).
      { unfold gated. rewrite Hcb. cbn [negb]. rewrite andb_false_r. reflexivity. }
      apply (cb_cases E cfg rq st now (carried cfg now rq) ans); cbn [snd].
      + intros m. apply c17_build; [reflexivity|left; cbn [send_error r_status]; lia|apply clause_ungated, Hng].
      + intros m Ha. apply c17_build; [reflexivity| |apply clause_ungated, Hng].
        right. split; [reflexivity|]. unfold provider_failure, cb_call. rewrite Hcb. cbn [send_error r_calls andb].
        destruct Ha as [->|[g ->]]; reflexivity.
      + intros m id rt Ha Hv. apply c17_build; [reflexivity| |apply clause_ungated, Hng].
        right. split; [reflexivity|]. unfold provider_failure, cb_call. rewrite Hcb, Ha. cbn [send_error r_calls andb].
        rewrite (verify_token_rejects E st now id Hok (Hfresh id rt Ha) Hv). cbn [negb].
        rewrite orb_true_r. reflexivity.
      + intros m id rt Ha Hv Hbad. apply c17_build; [reflexivity| |apply clause_ungated, Hng].
        right. split; [reflexivity|]. unfold provider_failure, cb_call. rewrite Hcb, Ha. cbn [send_error r_calls andb].
        assert (Hacc : accept_at now (tok E id) = true) by (apply (verify_token_sound E st now id He Hok Hv)).
        destruct Hbad as [Hcl|[Hn|[Hn|Hem]]].
        * rewrite (eo_claims E He id (accept_static now id Hacc)) in Hcl. discriminate.
        * rewrite Hn. cbn [N.eqb]. rewrite !orb_true_r. reflexivity.
        * apply N.eqb_neq in Hn. rewrite Hn. cbn [negb]. apply orb_true_r.
        * rewrite Hem. cbn [N.eqb]. rewrite !orb_true_r. reflexivity.
      + intros m id rt Ha Hv. apply c17_build; [reflexivity|left; cbn [send_error r_status]; lia|apply clause_ungated, Hng].
      + intros id rt loc Ha Hv Hcl. apply c17_build; [reflexivity|left; cbn [r_status]; lia|apply clause_ungated, Hng].
    - (* expired *)
      intros Hg. rewrite handle_expired_eq. apply c17_initiate. reflexivity.
    - (* valid session: the main cookie was usable *)
      intros Hg Hv. apply c17_pa; [reflexivity|]. intros r _. apply clause_usable.
      destruct (unusable cfg CMain rq) eqn:Hu; [|reflexivity].
      rewrite (unusable_not_valid now rq Hu) in Hv. discriminate.
    - (* refresh failed, session untouched *)
      intros Hg Hrt st' Hst'. unfold refresh_failed_resp. destruct (q_json rq) eqn:Hj.
      + apply c17_build; [reflexivity|left; cbn [r_status]; lia|]. apply clause_401; [exact Hj|reflexivity].
      + apply c17_initiate. destruct Hst' as [->|[id ->]]; [reflexivity|apply verify_token_endpoints].
    - (* refresh failed: invalid_grant *)
      intros Hg Hrt Ha. unfold refresh_failed_resp. destruct (q_json rq) eqn:Hj.
      + apply c17_build; [reflexivity|left; cbn [r_status]; lia|]. apply clause_401; [exact Hj|reflexivity].
      + apply c17_initiate. reflexivity.
    - (* refresh succeeded *)
      intros Hg Hrt id newrt Ha Hid Hv Hcl Hem.
      assert (Hacc : accept_at now (tok E id) = true) by (apply (verify_token_sound E st now id He Hok Hv)).
      apply c17_pa; [apply verify_token_endpoints|].
      intros r Hc. apply clause_refreshed. unfold refreshed_ok. rewrite Ha, Hc, Hacc, tval_eqb_refl.
      destruct (N.eqb_spec id 0); [contradiction|].
      apply tval_eqb_empty_false in Hrt. rewrite Hrt. reflexivity.
    - (* login redirect *)
      intros Hg. apply c17_initiate. reflexivity.
  Qed.
End C17.
