(* Property C17, sessions past the 24-hour absolute limit (monitor c17_age_step of
   Spec/WorldSpec.v): a main cookie that opens under the configured key but whose
   session began more than 24 h before the request loads as an EMPTY session
   (Model/Session.load drops every value: main, ID-token and refresh-token
   cookies, every chunk), so on a gated path Model/Middleware.serve can only take
   its "expired" or "login redirect" branch: the answer is the login redirect to
   the instance's authorization endpoint, nothing is forwarded, no refresh is
   attempted.

   The only premise is  i_ready st = true  (a middleware that is not initialised
   answers 503 / 408 to everything, which is neither a redirect nor a 401: see
   c17_age_needs_ready below).  None of env_ok / cfg_ok / inst_ok / freshness of
   the provider answer is needed: the provider is never called on this branch. *)
From VF Require Import Base.Prelude Model.Cache Model.Session Model.Middleware Corr.WorldCorr Spec.WorldSpec.
From VF Require Import Proofs.CacheProofs Proofs.WorldBase Proofs.ServeLemmas Proofs.W_Example.
From Coq Require Import ZifyBool ZifyNat ZifyN.
Open Scope N_scope.

Section C17Age.
  Variable E : env.
  Variable cfg : config.

  (* ---------------------------------------------------------------- what an over-age session loads as *)

  Lemma overage_too_old now rq :
    overage cfg now rq = true ->
    session_too_old now (fst (get_session (c_key cfg) CMain (q_jar rq))) = true.
  Proof.
    unfold overage, get_session.
    destruct (jar_get CMain (q_jar rq)) as [c|]; [|discriminate].
    destruct (decode (c_key cfg) CMain c) as [p|]; [|discriminate].
    intros H. exact H.
  Qed.

  Lemma overage_carried now rq :
    overage cfg now rq = true ->
    exists ac rc na nr,
      carried cfg now rq = mkSd [] [] [] (empty_payloads ac) (empty_payloads rc) na nr false false true.
  Proof.
    intros Ho. unfold carried, load. rewrite (overage_too_old now rq Ho).
    do 4 eexists. reflexivity.
  Qed.

  Lemma overage_main_empty now rq : overage cfg now rq = true -> s_main (carried cfg now rq) = [].
  Proof. intros Ho. destruct (overage_carried now rq Ho) as (ac & rc & na & nr & ->). reflexivity. Qed.

  Lemma concat_text_empty_payloads f (l : list payload) : concat (map (get_text f) (empty_payloads l)) = [].
  Proof. unfold empty_payloads. induction l as [|p l IH]; [reflexivity|]. cbn [map concat app]. exact IH. Qed.

  Lemma read_token_empty nc (l : list payload) : read_token nc [] (empty_payloads l) = TEmpty.
  Proof.
    unfold read_token. change (get_text 1 []) with (@nil piece). change (get_bool 2 []) with false.
    rewrite concat_text_empty_payloads. destruct (empty_payloads l); reflexivity.
  Qed.

  (* no refresh token survives: the refresh branches of serve are out of reach *)
  Lemma overage_no_refresh now rq : overage cfg now rq = true -> session_refresh E cfg now rq = TEmpty.
  Proof.
    intros Ho. unfold session_refresh, get_refresh.
    destruct (overage_carried now rq Ho) as (ac & rc & na & nr & ->).
    cbn [s_ref s_rchunks]. apply read_token_empty.
  Qed.

  Lemma overage_no_token now rq : overage cfg now rq = true -> session_token E cfg now rq = TEmpty.
  Proof.
    intros Ho. unfold session_token, get_access.
    destruct (overage_carried now rq Ho) as (ac & rc & na & nr & ->).
    cbn [s_acc s_achunks]. apply read_token_empty.
  Qed.

  (* the session is not authenticated: the "valid session" branch is out of reach *)
  Lemma overage_not_valid now rq : overage cfg now rq = true -> carries_valid_session E cfg now rq = false.
  Proof.
    intros Ho. unfold carries_valid_session, authenticated.
    rewrite (overage_main_empty now rq Ho). reflexivity.
  Qed.

  (* ---------------------------------------------------------------- the monitor *)

  Lemma age_initiate a now rq rnd st sd cookies calls :
    i_auth_url st = a ->
    c17_age_step E cfg a now rq (initiate cfg rq rnd st sd cookies calls) = true.
  Proof.
    intros <-. unfold c17_age_step, forwarded.
    rewrite initiate_fwd, initiate_redirect. destruct (_ && _); reflexivity.
  Qed.

  Theorem c17_age_serve (st : inst) (now : time) (rq : request) (rnd : istr * istr * istr) (ans : option answer) :
    i_ready st = true ->
    c17_age_step E cfg (i_auth_url st) now rq (snd (serve E cfg st now rq rnd ans)) = true.
  Proof.
    intros Hready.
    destruct (gated E cfg rq && overage cfg now rq) eqn:Hgo;
      [|unfold c17_age_step; rewrite Hgo; reflexivity].
    apply andb_true_iff in Hgo. destruct Hgo as [Hgat Hover].
    pose proof (overage_no_refresh now rq Hover) as Hnr.
    pose proof (overage_not_valid now rq Hover) as Hnv.
    assert (Hng : forall r, gated E cfg rq = false -> c17_age_step E cfg (i_auth_url st) now rq r = true).
    { intros r Hg. rewrite Hg in Hgat. discriminate. }
    apply (serve_cases E cfg st now rq rnd ans
             (fun p => c17_age_step E cfg (i_auth_url st) now rq (snd p) = true)); [exact Hready|..];
      cbn [snd].
    - (* excluded *)
      intros Hex. apply Hng. unfold gated. rewrite Hex. reflexivity.
    - (* logout *)
      intros _ Hlo. apply Hng. unfold gated. rewrite Hlo, andb_false_r. reflexivity.
    - (* callback *)
      intros _ _ Hcb. apply Hng. unfold gated. rewrite Hcb. cbn [negb]. rewrite andb_false_r. reflexivity.
    - (* expired *)
      intros _. rewrite handle_expired_eq. apply age_initiate. reflexivity.
    - (* valid session: impossible *)
      intros _ Hv. rewrite Hnv in Hv. discriminate.
    - (* refresh due: impossible, no refresh token was loaded *)
      intros _ Hrt. contradiction.
    - intros _ Hrt. contradiction.
    - intros _ Hrt. contradiction.
    - (* login redirect *)
      intros _. apply age_initiate. reflexivity.
  Qed.

  (* The exact answer, not only the monitor: an over-age session on a gated path gets the login redirect to
     the instance's authorization endpoint (also for JSON clients: with no refresh token in the loaded
     session the 401 branch is never taken), nothing is forwarded and the provider is not called. *)
  Theorem c17_age_serve_redirect (st : inst) (now : time) (rq : request) (rnd : istr * istr * istr)
                                 (ans : option answer) :
    i_ready st = true -> gated E cfg rq = true -> overage cfg now rq = true ->
    let p := serve E cfg st now rq rnd ans in
    fst p = st
    /\ is_auth_redirect (i_auth_url st) (snd p) = true
    /\ r_fwd (snd p) = None
    /\ r_calls (snd p) = [].
  Proof.
    intros Hready Hgat Hover. cbv zeta.
    pose proof (overage_no_refresh now rq Hover) as Hnr.
    pose proof (overage_not_valid now rq Hover) as Hnv.
    apply (serve_cases E cfg st now rq rnd ans
             (fun p => fst p = st /\ is_auth_redirect (i_auth_url st) (snd p) = true
                       /\ r_fwd (snd p) = None /\ r_calls (snd p) = [])); [exact Hready|..];
      cbn [fst snd].
    - intros Hex. unfold gated in Hgat. rewrite Hex in Hgat. discriminate.
    - intros _ Hlo. unfold gated in Hgat. rewrite Hlo, andb_false_r in Hgat. discriminate.
    - intros _ _ Hcb. unfold gated in Hgat. rewrite Hcb in Hgat. cbn [negb] in Hgat.
      rewrite andb_false_r in Hgat. discriminate.
    - intros _. rewrite handle_expired_eq.
      repeat split; [apply initiate_redirect|apply initiate_fwd|apply initiate_calls].
    - intros _ Hv. rewrite Hnv in Hv. discriminate.
    - intros _ Hrt. contradiction.
    - intros _ Hrt. contradiction.
    - intros _ Hrt. contradiction.
    - intros _. repeat split; [apply initiate_redirect|apply initiate_fwd|apply initiate_calls].
  Qed.
End C17Age.

(* ------------------------------------------------------------------ the premise is needed, the guard is reachable *)

(* a browser logged in with the long-lived token 16 (exp 173300 s) since instant 400 s *)
Definition ex_acc_long : payload := [(1, VC [PSlice 16 0]); (2, VB true)].
Definition ex_jar_long : jar := [(CMain, Sealed 7 CMain ex_main_auth); (CAcc, Sealed 7 CAcc ex_acc_long)].

(* 24 h and one second after the session began: the token is still good for another day *)
Definition ex_now_aged : time := ((400 + 86401) * sec)%Z.

(* Non-vacuity: on the deployment of W_Example.v a request to the protected path "/a" whose jar holds a
   genuine authenticated main cookie and a still-valid ID token
     - is forwarded one hundred seconds after the login and 24 h sharp after it (the cookies are good, the
       limit is strict);
     - one second later `gated` and `overage` hold, the carried token would still be accepted, and the
       answer is the login redirect to endpoint 30 with nothing forwarded and no provider call. *)
Example c17_age_nonvacuous :
  let rq := ex_req 5 ex_jar_long in
  let run now := snd (serve exE excfg ex_inst now rq ex_rnd None) in
  i_ready ex_inst = true /\ i_auth_url ex_inst = 30
  /\ (gated exE excfg rq = true
      /\ overage excfg ex_now rq = false /\ forwarded (run ex_now) = true
      /\ overage excfg (ex_now_aged - sec)%Z rq = false /\ forwarded (run (ex_now_aged - sec)%Z) = true)
  /\ (overage excfg ex_now_aged rq = true
      /\ accept_at ex_now_aged (tok exE 16) = true
      /\ is_auth_redirect 30 (run ex_now_aged) = true
      /\ r_status (run ex_now_aged) = 302
      /\ forwarded (run ex_now_aged) = false
      /\ r_calls (run ex_now_aged) = []
      /\ c17_age_step exE excfg 30 ex_now_aged rq (run ex_now_aged) = true).
Proof. vm_compute. repeat split. Qed.

(* Why  i_ready st = true  cannot be dropped: the same over-age request served by an instance that is not
   initialised gets 503, which the monitor rejects. *)
Example c17_age_needs_ready :
  let rq := ex_req 5 ex_jar_long in
  let st := fresh_inst false 30 31 in
  let r := snd (serve exE excfg st ex_now_aged rq ex_rnd None) in
  i_ready st = false /\ r_status r = 503
  /\ c17_age_step exE excfg (i_auth_url st) ex_now_aged rq r = false.
Proof. vm_compute. repeat split. Qed.

Print Assumptions c17_age_serve.
Print Assumptions c17_age_serve_redirect.
Print Assumptions c17_age_nonvacuous.
