(* The verification rate limiter in front of VerifyToken (two clauses of
   property C19):
     "verifications beyond the limit are refused without being performed"
     "traffic on already authenticated sessions is not subject to this limit".

   Model/Middleware.verify_token assumes the limiter admits.  Here:

   verify_token_limited E st now t admitted
       /repo/main.go VerifyToken + performPreVerificationChecks with the
       limiter's decision as an input: the verification cache is looked up
       first (a hit answers true without consulting the limiter); on a miss
       `t.limiter.Allow()` is consulted and, when it refuses, the call returns
       an error at once; otherwise it continues exactly as verify_token.
   serve_with E cfg V
       Middleware.serve with VerifyToken replaced by an arbitrary function V
       (same text as handle_callback / refresh_token / serve);
       serve_with E cfg (verify_token E) is serve by computation.
   serve_limited E cfg admitted := serve_with with verify_token_limited.

   verify_limited_admitted   admitted = true: it IS verify_token
   refused_not_performed     admitted = false: the verdict is `true` only for a
                             cache hit; the blacklist is untouched; the
                             verification cache is what its own lookup left;
                             nothing was added to it; endpoints unchanged
   refused_miss              ... on a cache miss: verdict false, that state
   refused_blind             the refused call does not depend on what the token
                             is (any two environments give the same result):
                             nothing of the verification was performed
   sessions_exempt_with      a gated request carrying a valid session that is
                             not due for refresh is answered without calling V
                             at all: for EVERY V the state is returned as it was
                             and the response is the stateless steady_resp
   sessions_exempt           hence the limited ladder answers it identically
                             whether the limiter admits or refuses *)
From VF Require Import Base.Prelude Model.Cache Model.Session Model.Middleware Corr.WorldCorr Spec.WorldSpec.
From VF Require Import Proofs.CacheProofs Proofs.WorldBase Proofs.ServeLemmas Proofs.VerifyProofs Proofs.W_BLemmas
     Proofs.W_C04 Proofs.W_Example.
From Coq Require Import ZifyBool ZifyNat ZifyN.
Open Scope N_scope.

(* ================================================================== VerifyToken behind the limiter *)

Section Limited.
  Variable E : env.

  Definition verify_token_limited (st : inst) (now : time) (t : istr) (admitted : bool) : inst * bool :=
    let '(tc1, hit) := get now t (i_tcache st) in
    match hit with
    | Some _ => (mkInst (i_ready st) (i_auth_url st) (i_end_session st) tc1 (i_black st), true)
    | None =>
        (* performPreVerificationChecks: if !t.limiter.Allow() { return "rate limit exceeded" } *)
        if negb admitted
        then (mkInst (i_ready st) (i_auth_url st) (i_end_session st) tc1 (i_black st), false)
        else
        let '(b1, raw) := get now t (i_black st) in
        let st1 := mkInst (i_ready st) (i_auth_url st) (i_end_session st) tc1 b1 in
        match raw with
        | Some _ => (st1, false)
        | None =>
            let ti := tok E t in
            let jti := if ti_claims ti then ti_jti ti else 0 in
            let '(b2, seen) := if N.eqb jti 0 then (b1, None) else get now jti b1 in
            let st2 := mkInst (i_ready st) (i_auth_url st) (i_end_session st) tc1 b2 in
            match seen with
            | Some _ => (st2, false)
            | None =>
                if accept_at now ti then
                  let tc2 := set now t 1%Z (ti_exp ti * sec - now)%Z tc1 in
                  let b3 := if N.eqb (ti_jti ti) 0 then b2 else set now (ti_jti ti) 1%Z day b2 in
                  (mkInst (i_ready st) (i_auth_url st) (i_end_session st) tc2 b3, true)
                else (st2, false)
            end
        end
    end.

  Theorem verify_limited_admitted st now t :
    verify_token_limited st now t true = verify_token E st now t.
  Proof.
    unfold verify_token_limited, verify_token.
    destruct (get now t (i_tcache st)) as [tc1 [v|]]; reflexivity.
  Qed.

  (* the state a refused call returns: only the verification cache's own lookup happened *)
  Definition after_lookup (st : inst) (now : time) (t : istr) : inst :=
    mkInst (i_ready st) (i_auth_url st) (i_end_session st) (fst (get now t (i_tcache st))) (i_black st).

  Lemma verify_limited_refused st now t :
    verify_token_limited st now t false
    = (after_lookup st now t, match snd (get now t (i_tcache st)) with Some _ => true | None => false end).
  Proof.
    unfold verify_token_limited, after_lookup.
    destruct (get now t (i_tcache st)) as [tc1 [v|]]; reflexivity.
  Qed.

  Theorem refused_not_performed st now t :
    let r := verify_token_limited st now t false in
    (snd r = true <-> exists v, snd (get now t (i_tcache st)) = Some v)
    /\ i_black (fst r) = i_black st
    /\ i_tcache (fst r) = fst (get now t (i_tcache st))
    /\ (forall k e, lookup k (items (i_tcache (fst r))) = Some e -> lookup k (items (i_tcache st)) = Some e)
    /\ i_ready (fst r) = i_ready st /\ i_auth_url (fst r) = i_auth_url st
    /\ i_end_session (fst r) = i_end_session st.
  Proof.
    cbv zeta. rewrite verify_limited_refused. cbn [fst snd after_lookup i_black i_tcache i_ready i_auth_url i_end_session].
    split; [|split; [reflexivity|split; [reflexivity|split; [|repeat split]]]].
    - destruct (snd (get now t (i_tcache st))) as [v|]; split; try discriminate; eauto.
      intros [v H]. discriminate.
    - intros k e H. apply lookup_get_sub in H. exact H.
  Qed.

  (* beyond the limit and not already verified: refused, and the token is not cached *)
  Theorem refused_miss st now t :
    snd (get now t (i_tcache st)) = None ->
    verify_token_limited st now t false = (after_lookup st now t, false)
    /\ lookup t (items (i_tcache (after_lookup st now t))) = None.
  Proof.
    intros Hm. rewrite verify_limited_refused, Hm. split; [reflexivity|].
    cbn [after_lookup i_tcache]. apply lookup_get_none, Hm.
  Qed.

  (* what an admitted call may do that a refused one never does *)
  Theorem admitted_vs_refused st now t :
    snd (get now t (i_tcache st)) = None -> snd (get now t (i_black st)) = None ->
    (if ti_claims (tok E t) then ti_jti (tok E t) else 0) = 0 ->
    accept_at now (tok E t) = true ->
    snd (verify_token_limited st now t true) = true
    /\ lookup t (items (i_tcache (fst (verify_token_limited st now t true)))) <> None
    /\ snd (verify_token_limited st now t false) = false
    /\ lookup t (items (i_tcache (fst (verify_token_limited st now t false)))) = None.
  Proof.
    intros Hm Hb Hj Ha.
    destruct (refused_miss st now t Hm) as [Er Hl]. rewrite Er. cbn [fst snd].
    split; [|split; [|split; [reflexivity|exact Hl]]].
    - unfold verify_token_limited.
      destruct (get now t (i_tcache st)) as [tc1 hit]. cbn [snd] in Hm. subst hit. cbn [negb].
      destruct (get now t (i_black st)) as [b1 raw]. cbn [snd] in Hb. subst raw.
      rewrite Hj. cbn [N.eqb]. rewrite Ha. reflexivity.
    - unfold verify_token_limited.
      destruct (get now t (i_tcache st)) as [tc1 hit]. cbn [snd] in Hm. subst hit. cbn [negb].
      destruct (get now t (i_black st)) as [b1 raw]. cbn [snd] in Hb. subst raw.
      rewrite Hj. cbn [N.eqb]. rewrite Ha. cbn [fst i_tcache]. rewrite lookup_set_same. discriminate.
  Qed.
End Limited.

(* the refused call never looks at the token: any two environments agree *)
Theorem refused_blind E1 E2 st now t :
  verify_token_limited E1 st now t false = verify_token_limited E2 st now t false.
Proof. rewrite !verify_limited_refused. reflexivity. Qed.

(* ================================================================== serve over an arbitrary verifier *)

Section ServeWith.
  Variable E : env.
  Variable cfg : config.
  Variable V : inst -> time -> istr -> inst * bool.      (* VerifyToken *)

  Notation NCE := (nchunks E).

  (* handleCallback, text of Middleware.handle_callback with V for verify_token E *)
  Definition handle_callback_with (rq : request) (st : inst) (now : time) (sd : sdata) (ans : option answer)
    : inst * response :=
    if negb (N.eqb (q_error rq) 0) then
      (st, send_error rq (MProviderError (if N.eqb (q_error_desc rq) 0 then q_error rq else q_error_desc rq)) 400 [] [])
    else if N.eqb (q_state rq) 0 then (st, send_error rq msg_state_missing 400 [] [])
    else
      let csrf := get_str 3 (s_main sd) in
      if N.eqb csrf 0 then (st, send_error rq msg_csrf_missing 400 [] [])
      else if negb (N.eqb (q_state rq) csrf) then (st, send_error rq msg_csrf_mismatch 400 [] [])
      else if N.eqb (q_code rq) 0 then (st, send_error rq msg_no_code 400 [] [])
      else
        let call := PExchange (q_code rq) (q_scheme rq) (q_host rq) (get_str 5 (s_main sd)) in
        match ans with
        | None | Some (AErr _) => (st, send_error rq msg_exchange_failed 500 [] [call])
        | Some (AOk id rt) =>
            let '(st1, ok) := V st now id in
            if negb ok then (st1, send_error rq msg_verify_failed 500 [] [call])
            else
              let ti := tok E id in
              if negb (ti_claims ti) then (st1, send_error rq msg_claims_failed 500 [] [call])
              else if N.eqb (ti_nonce ti) 0 then (st1, send_error rq msg_nonce_missing_token 500 [] [call])
              else
                let sn := get_str 4 (s_main sd) in
                if N.eqb sn 0 then (st1, send_error rq msg_nonce_missing_session 500 [] [call])
                else if negb (N.eqb (ti_nonce ti) sn) then (st1, send_error rq msg_nonce_mismatch 500 [] [call])
                else if N.eqb (ti_email ti) 0 then (st1, send_error rq msg_email_missing 500 [] [call])
                else if negb (allowed_domain E cfg (ti_email ti)) then (st1, send_error rq msg_domain_denied_login 403 [] [call])
                else
                  let sd1 := set_authenticated now true sd in
                  let sd2 := set_main 6 (ti_email ti) sd1 in
                  let sd3 := set_refresh NCE rt (set_access NCE id sd2) in
                  let sd4 := set_main 5 0 (set_main 4 0 (set_main 3 0 sd3)) in
                  let inc := get_str 7 (s_main sd) in
                  let target := if negb (N.eqb inc 0) && negb (N.eqb inc (c_callback cfg)) && local_path E inc
                                then inc else slash in
                  let sd5 := set_main 7 0 sd4 in
                  (st1, mkResp 302 (Some (LPath (redir E target))) (save_cookies sd5) BNone None false [call] [])
        end.

  (* refreshToken, likewise *)
  Definition refresh_token_with (st : inst) (now : time) (sd : sdata) (ans : option answer)
    : inst * sdata * list setcookie * list pcall * bool :=
    let rt := get_refresh NCE sd in
    match rt with
    | TEmpty => (st, sd, [], [], false)
    | _ =>
        let call := PRefresh rt in
        match ans with
        | None | Some (AErr false) => (st, sd, [], [call], false)
        | Some (AErr true) =>
            let sd1 := set_refresh NCE 0 sd in
            (st, after_save sd1, save_cookies sd1, [call], false)
        | Some (AOk id newrt) =>
            if N.eqb id 0 then (st, sd, [], [call], false)
            else
              let '(st1, ok) := V st now id in
              if negb ok then (st1, sd, [], [call], false)
              else
                let ti := tok E id in
                if negb (ti_claims ti) then (st1, sd, [], [call], false)
                else if N.eqb (ti_email ti) 0 then (st1, sd, [], [call], false)
                else
                  let sd1 := set_main 6 (ti_email ti) sd in
                  let sd2 := set_access NCE id sd1 in
                  let sd3 := match newrt, rt with
                             | 0%N, TTok old => set_refresh NCE old sd2
                             | 0%N, _ => sd2
                             | n, _ => set_refresh NCE n sd2
                             end in
                  let sd4 := set_authenticated now true sd3 in
                  (st1, after_save sd4, save_cookies sd4, [call], true)
        end
    end.

  (* ServeHTTP, likewise *)
  Definition serve_with (st : inst) (now : time) (rq : request) (rnd : istr * istr * istr) (ans : option answer)
    : inst * response :=
    if negb (i_ready st) then
      (st, mkResp (if q_ctx_done rq then 408 else 503) None [] BPlain None false [] [])
    else if excluded E cfg (q_path rq) then
      (st, mkResp 200 None [] BNone (Some (map (fun c => (1000 + c, HStr 0))%N (q_client_ids rq))) false [] [])
    else
      let sd := load (c_key cfg) now (q_jar rq) in
      if N.eqb (q_path rq) (c_logout cfg) then (st, handle_logout E cfg rq st sd)
      else if N.eqb (q_path rq) (c_callback cfg) then handle_callback_with rq st now sd ans
      else
        let '(auth, refresh, expired) := is_user_authenticated E cfg now sd in
        if expired then (st, handle_expired E cfg rq rnd st sd)
        else if auth && negb refresh then (st, process_authorized E cfg rq rnd st sd [] [])
        else if refresh && negb (tval_eqb (get_refresh NCE sd) TEmpty) then
          let '(st1, sd1, cs, calls, ok) := refresh_token_with st now sd ans in
          if ok then (st1, process_authorized E cfg rq rnd st1 sd1 cs calls)
          else if q_json rq then (st1, mkResp 401 None cs BJson401 None false calls [])
          else (st1, initiate cfg rq rnd st1 sd1 cs calls)
        else (st, initiate cfg rq rnd st sd [] []).

  (* ---------------------------------------------------------------- sessions are exempt *)

  (* the branch for a valid session that is not due for refresh never calls V:
     the premises are those of W_C04.c4_serve_fresh (C04_stateless) *)
  Theorem sessions_exempt_with st now rq rnd ans t :
    i_ready st = true -> gated E cfg rq = true ->
    authenticated now (carried cfg now rq) = true ->
    get_access NCE (carried cfg now rq) = TTok t ->
    fresh_at E cfg now t = true ->
    get_str 6 (s_main (carried cfg now rq)) <> 0 ->
    serve_with st now rq rnd ans = (st, steady_resp E cfg rq (carried cfg now rq)).
  Proof.
    intros Hready Hg Hau Hacc Hfr Hem.
    destruct (c4_gated_parts E cfg rq Hg) as (Hex & Hcb & Hlo).
    unfold serve_with. rewrite Hready, Hex, Hlo, Hcb. cbn [negb].
    fold (carried cfg now rq). set (sd := carried cfg now rq) in *.
    unfold fresh_at in Hfr. apply andb_prop in Hfr. destruct Hfr as [Ha Hgr].
    unfold is_user_authenticated. change (NC E) with NCE. rewrite Hau, Hacc, Ha. cbn [negb].
    apply negb_true_iff in Hgr. rewrite Hgr. cbn [andb negb].
    rewrite (b_pa_eq E cfg rq rnd st sd [] [] Hem). reflexivity.
  Qed.
End ServeWith.

(* serve is serve_with the model's VerifyToken *)
Lemma serve_with_verify E cfg st now rq rnd ans :
  serve_with E cfg (verify_token E) st now rq rnd ans = serve E cfg st now rq rnd ans.
Proof. reflexivity. Qed.

(* extensionality in the verifier (no axiom: by the text of the three functions) *)
Section Ext.
  Variable E : env.
  Variable cfg : config.
  Variables V1 V2 : inst -> time -> istr -> inst * bool.
  Hypothesis HV : forall st now t, V1 st now t = V2 st now t.

  Lemma handle_callback_with_ext rq st now sd ans :
    handle_callback_with E cfg V1 rq st now sd ans = handle_callback_with E cfg V2 rq st now sd ans.
  Proof.
    unfold handle_callback_with. destruct ans as [[g|id rt]|]; try reflexivity.
    rewrite (HV st now id). reflexivity.
  Qed.

  Lemma refresh_token_with_ext st now sd ans :
    refresh_token_with E V1 st now sd ans = refresh_token_with E V2 st now sd ans.
  Proof.
    unfold refresh_token_with. destruct ans as [[g|id rt]|]; try reflexivity.
    rewrite (HV st now id). reflexivity.
  Qed.

  Lemma serve_with_ext st now rq rnd ans :
    serve_with E cfg V1 st now rq rnd ans = serve_with E cfg V2 st now rq rnd ans.
  Proof.
    unfold serve_with. cbv zeta.
    rewrite handle_callback_with_ext, refresh_token_with_ext. reflexivity.
  Qed.
End Ext.

(* ================================================================== the ladder behind the limiter *)

Definition serve_limited (E : env) (cfg : config) (admitted : bool) :=
  serve_with E cfg (fun st now t => verify_token_limited E st now t admitted).

Theorem serve_limited_admitted E cfg st now rq rnd ans :
  serve_limited E cfg true st now rq rnd ans = serve E cfg st now rq rnd ans.
Proof.
  unfold serve_limited. rewrite <- serve_with_verify. apply serve_with_ext.
  intros st0 now0 t0. apply verify_limited_admitted.
Qed.

(* traffic on an established session is not subject to the limit: whether the
   limiter admits or refuses, from whatever instance state, with whatever
   random draw and provider answer, the step leaves the state as it was, makes
   no provider call and gives the response of the unlimited ladder *)
Theorem sessions_exempt E cfg now rq t :
  gated E cfg rq = true ->
  authenticated now (carried cfg now rq) = true ->
  get_access (nchunks E) (carried cfg now rq) = TTok t ->
  fresh_at E cfg now t = true ->
  get_str 6 (s_main (carried cfg now rq)) <> 0 ->
  forall (admitted : bool) (st st' : inst) (rnd rnd' : istr * istr * istr) (ans ans' : option answer),
    i_ready st = true -> i_ready st' = true ->
    fst (serve_limited E cfg admitted st now rq rnd ans) = st
    /\ fst (serve E cfg st now rq rnd ans) = st
    /\ snd (serve_limited E cfg admitted st now rq rnd ans) = snd (serve E cfg st' now rq rnd' ans')
    /\ r_calls (snd (serve_limited E cfg admitted st now rq rnd ans)) = [].
Proof.
  intros Hg Hau Hacc Hfr Hem admitted st st' rnd rnd' ans ans' Hr Hr'.
  unfold serve_limited.
  rewrite (sessions_exempt_with E cfg _ st now rq rnd ans t Hr Hg Hau Hacc Hfr Hem).
  rewrite <- !serve_with_verify.
  rewrite (sessions_exempt_with E cfg _ st now rq rnd ans t Hr Hg Hau Hacc Hfr Hem).
  rewrite (sessions_exempt_with E cfg _ st' now rq rnd' ans' t Hr' Hg Hau Hacc Hfr Hem).
  cbn [fst snd]. repeat split. apply c4_steady_calls.
Qed.

(* the same under the premises of C04_stateless, as stated there *)
Corollary sessions_exempt_c04 E cfg now rq t :
  gated E cfg rq = true ->
  authenticated now (carried cfg now rq) = true ->
  get_access (nchunks E) (carried cfg now rq) = TTok t ->
  get_str 6 (s_main (carried cfg now rq)) <> 0 ->
  domain_ok E cfg (get_str 6 (s_main (carried cfg now rq))) = true ->
  roles_ok E cfg (TTok t) = true ->
  comfortably_valid E cfg now t = true ->
  forall (admitted : bool) (st st' : inst) (rnd rnd' : istr * istr * istr) (ans ans' : option answer),
    i_ready st = true -> i_ready st' = true ->
    fst (serve_limited E cfg admitted st now rq rnd ans) = st
    /\ fst (serve E cfg st now rq rnd ans) = st
    /\ snd (serve_limited E cfg admitted st now rq rnd ans) = snd (serve E cfg st' now rq rnd' ans')
    /\ r_calls (snd (serve_limited E cfg admitted st now rq rnd ans)) = [].
Proof.
  intros Hg Hau Hacc Hem _ _ Hcv. apply (sessions_exempt E cfg now rq t); try assumption.
  apply c4_cv_fresh, Hcv.
Qed.

(* ================================================================== a concrete deployment (W_Example.v) *)

(* token 10 is acceptable at ex_now and not yet verified by the fresh instance:
   admitted, the login completes (302, session stored, the token cached);
   refused, the callback answers 500 "could not verify", stores nothing, and the
   instance state is the one it started from.  A request carrying the valid
   session is forwarded identically in both cases. *)
Example limiter_example :
  let cb := ex_callback ex_jar_pending in
  let valid := ex_req 5 ex_jar_auth in
  let run adm rq ans := serve_limited exE excfg adm ex_inst ex_now rq ex_rnd ans in
  (snd (verify_token_limited exE ex_inst ex_now 10 true) = true
   /\ verify_token_limited exE ex_inst ex_now 10 false = (ex_inst, false))
  /\ (r_status (snd (run true cb (Some (AOk 10 0)))) = 302
      /\ lookup 10 (items (i_tcache (fst (run true cb (Some (AOk 10 0)))))) <> None)
  /\ (r_status (snd (run false cb (Some (AOk 10 0)))) = 500
      /\ r_cookies (snd (run false cb (Some (AOk 10 0)))) = []
      /\ fst (run false cb (Some (AOk 10 0))) = ex_inst)
  /\ (forwarded (snd (run false valid None)) = true
      /\ run false valid None = run true valid None
      /\ fst (run false valid None) = ex_inst).
Proof. vm_compute. repeat split; discriminate. Qed.
