(* Non-interference of undecodable cookies, unconditionally (C09).

   Since fix 098055b GetSession records how many chunk cookies are PRESENT in
   the request from index 0, decodable or not (s_jar_a / s_jar_r), and a later
   token write makes Save emit DELETION Set-Cookie headers for the indices
   between the new chunk count and that number.  A request carrying undecodable
   chunk cookies is therefore no longer answered with exactly the response of
   the request without them (SecrecyProofs.serve_ignores_undecodable needs the
   same_chunk_walk premise) — but the two answers differ ONLY in such deletion
   headers:

     rejar                  a session with other jar counts
     load_rejar             the filtered jar loads the same session up to rejar
     *_rejar                every session operation of the ladder maps sessions
                            equal up to rejar to sessions equal up to rejar
                            (Save moves the counts: after_save_rejar; so the
                            counts are quantified per lemma, never fixed along
                            a run), every reader ignores it
     cs_sim                 cookie lists equal up to deletion headers, which
                            all name chunk cookies
     *_sim                  each handler, run on rejar-related sessions, gives
                            responses equal up to deletion headers
     serve_undecodable_sim  ... hence so does the whole ladder *)
From VF Require Import Base.Prelude Model.Cache Model.Session Model.Middleware Model.Secrecy.
From VF Require Import Proofs.SessionProofs Proofs.SecrecyProofs.
Open Scope N_scope.

(* ================================================================== responses up to deletion headers *)

Definition is_live (sc : setcookie) : bool := negb (snd sc).

Definition live_cookies (cs : list setcookie) : list setcookie := filter is_live cs.

(* every deletion header names a chunk cookie *)
Definition chunk_dels (cs : list setcookie) : Prop :=
  forall sc, In sc cs -> snd sc = true ->
  exists i, fst (fst sc) = CAccChunk i \/ fst (fst sc) = CRefChunk i.

(* responses equal except for deletion headers *)
Definition resp_sim (r r' : response) : Prop :=
  r_status r = r_status r' /\ r_loc r = r_loc r' /\ r_body r = r_body r' /\ r_fwd r = r_fwd r'
  /\ r_cors r = r_cors r' /\ r_calls r = r_calls r' /\ r_flags r = r_flags r'
  /\ live_cookies (r_cookies r) = live_cookies (r_cookies r')
  /\ (forall sc, In sc (r_cookies r) -> snd sc = true ->
      exists i, fst (fst sc) = CAccChunk i \/ fst (fst sc) = CRefChunk i).

(* cookie lists equal except for deletion headers *)
Definition cs_sim (cs cs' : list setcookie) : Prop :=
  live_cookies cs = live_cookies cs' /\ chunk_dels cs.

(* new state equal, responses equal except for deletion headers *)
Definition out_sim (x x' : inst * response) : Prop :=
  fst x = fst x' /\ resp_sim (snd x) (snd x').

Lemma live_app a b : live_cookies (a ++ b) = live_cookies a ++ live_cookies b.
Proof. apply filter_app. Qed.

Lemma live_deletions mk m a b : live_cookies (deletions mk m a b) = [].
Proof.
  unfold deletions. destruct m; [|reflexivity].
  induction (seq b (a - b)) as [|i l IH]; [reflexivity|]. exact IH.
Qed.

Lemma chunk_dels_nil : chunk_dels [].
Proof. intros sc []. Qed.

Lemma chunk_dels_app a b : chunk_dels a -> chunk_dels b -> chunk_dels (a ++ b).
Proof.
  intros Ha Hb sc Hin Hd. apply in_app_or in Hin as [Hin|Hin]; [exact (Ha sc Hin Hd)|exact (Hb sc Hin Hd)].
Qed.

Lemma chunk_dels_number mk i l : chunk_dels (number_from mk i l).
Proof.
  revert i. induction l as [|p l IH]; intros i sc Hin Hd; [destruct Hin|].
  cbn [number_from] in Hin. destruct Hin as [<-|Hin]; [discriminate Hd|exact (IH (S i) sc Hin Hd)].
Qed.

Lemma chunk_dels_deletions mk m a b :
  (forall i, exists n, mk i = CAccChunk n \/ mk i = CRefChunk n) -> chunk_dels (deletions mk m a b).
Proof.
  intros Hmk sc Hin _. unfold deletions in Hin. destruct m; [|destruct Hin].
  apply in_map_iff in Hin as [i [<- _]]. exact (Hmk i).
Qed.

Lemma chunk_dels_save sd : chunk_dels (save_cookies sd).
Proof.
  unfold save_cookies. repeat apply chunk_dels_app.
  - intros sc Hin Hd. cbn [In] in Hin. destruct Hin as [<-|[<-|[<-|[]]]]; discriminate Hd.
  - apply chunk_dels_number.
  - apply chunk_dels_number.
  - apply chunk_dels_deletions. intros i. exists i. left. reflexivity.
  - apply chunk_dels_deletions. intros i. exists i. right. reflexivity.
Qed.

Lemma clear_snd sd :
  snd (clear sd) = save_cookies (mkSd [] [] [] (empty_payloads (s_achunks sd)) (empty_payloads (s_rchunks sd))
                                      (s_jar_a sd) (s_jar_r sd) (s_marked_a sd) (s_marked_r sd) (s_live sd)).
Proof. reflexivity. Qed.

Lemma chunk_dels_clear sd : chunk_dels (snd (clear sd)).
Proof. rewrite clear_snd. apply chunk_dels_save. Qed.

Lemma cs_sim_nil : cs_sim [] [].
Proof. split; [reflexivity|exact chunk_dels_nil]. Qed.

Lemma cs_sim_app a a' b b' : cs_sim a a' -> cs_sim b b' -> cs_sim (a ++ b) (a' ++ b').
Proof.
  intros [La Da] [Lb Db]. split; [|exact (chunk_dels_app a b Da Db)].
  rewrite !live_app, La, Lb. reflexivity.
Qed.

Lemma resp_sim_mk s l cs cs' b f c calls fl :
  cs_sim cs cs' -> resp_sim (mkResp s l cs b f c calls fl) (mkResp s l cs' b f c calls fl).
Proof. intros [L D]. unfold resp_sim. cbn [r_status r_loc r_cookies r_body r_fwd r_cors r_calls r_flags]. tauto. Qed.

Lemma out_sim_mk st s l cs cs' b f c calls fl :
  cs_sim cs cs' -> out_sim (st, mkResp s l cs b f c calls fl) (st, mkResp s l cs' b f c calls fl).
Proof. intros H. split; [reflexivity|]. cbn [snd]. exact (resp_sim_mk s l cs cs' b f c calls fl H). Qed.

Lemma out_sim_resp st r r' : resp_sim r r' -> out_sim (st, r) (st, r').
Proof. intros H. split; [reflexivity|exact H]. Qed.

(* ================================================================== sessions up to the jar counts *)

Definition rejar (a r : nat) (sd : sdata) : sdata :=
  mkSd (s_main sd) (s_acc sd) (s_ref sd) (s_achunks sd) (s_rchunks sd) a r
       (s_marked_a sd) (s_marked_r sd) (s_live sd).

Lemma load_rejar k now j : NoDup (names j) ->
  let sd' := load k now (filter (decodable k) j) in
  sd' = rejar (s_jar_a sd') (s_jar_r sd') (load k now j).
Proof.
  intros Hnd. pose proof (load_filter_content k now j Hnd) as H. cbv zeta in *.
  destruct (load k now (filter (decodable k) j)) as [m' a' r' ac' rc' ja' jr' ma' mr' l'].
  destruct (load k now j) as [m a r ac rc ja jr ma mr l].
  cbn [s_main s_acc s_ref s_achunks s_rchunks s_jar_a s_jar_r s_marked_a s_marked_r s_live] in H.
  destruct H as [-> [-> [-> [-> [-> [-> [-> ->]]]]]]]. reflexivity.
Qed.

Section Rejar.
  Variable nch : istr -> nat.

  Lemma main_rejar a r sd : s_main (rejar a r sd) = s_main sd.
  Proof. reflexivity. Qed.

  Lemma get_access_rejar a r sd : get_access nch (rejar a r sd) = get_access nch sd.
  Proof. reflexivity. Qed.

  Lemma get_refresh_rejar a r sd : get_refresh nch (rejar a r sd) = get_refresh nch sd.
  Proof. reflexivity. Qed.

  Lemma authenticated_rejar a r now sd : authenticated now (rejar a r sd) = authenticated now sd.
  Proof. reflexivity. Qed.

  Lemma set_main_rejar a r f s sd : set_main f s (rejar a r sd) = rejar a r (set_main f s sd).
  Proof. reflexivity. Qed.

  Lemma set_authenticated_rejar a r now b sd :
    set_authenticated now b (rejar a r sd) = rejar a r (set_authenticated now b sd).
  Proof. reflexivity. Qed.

  Lemma set_access_rejar a r t sd : set_access nch t (rejar a r sd) = rejar a r (set_access nch t sd).
  Proof.
    unfold set_access. change (s_acc (rejar a r sd)) with (s_acc sd).
    destruct (store_token nch t (s_acc sd)) as [p ch]. reflexivity.
  Qed.

  Lemma set_refresh_rejar a r t sd : set_refresh nch t (rejar a r sd) = rejar a r (set_refresh nch t sd).
  Proof.
    unfold set_refresh. change (s_ref (rejar a r sd)) with (s_ref sd).
    destruct (store_token nch t (s_ref sd)) as [p ch]. reflexivity.
  Qed.

  (* Save counts the chunk cookies it has written like the ones of the request: the counts move, each on its side *)
  Lemma after_save_rejar a r sd :
    after_save (rejar a r sd)
    = rejar (Nat.max a (length (s_achunks sd))) (Nat.max r (length (s_rchunks sd))) (after_save sd).
  Proof. reflexivity. Qed.

  Lemma clear_fst_rejar a r sd : fst (clear (rejar a r sd)) = rejar a r (fst (clear sd)).
  Proof. reflexivity. Qed.

  Lemma live_save_rejar a r sd : live_cookies (save_cookies (rejar a r sd)) = live_cookies (save_cookies sd).
  Proof.
    unfold save_cookies.
    change (s_main (rejar a r sd)) with (s_main sd). change (s_acc (rejar a r sd)) with (s_acc sd).
    change (s_ref (rejar a r sd)) with (s_ref sd).
    change (s_achunks (rejar a r sd)) with (s_achunks sd). change (s_rchunks (rejar a r sd)) with (s_rchunks sd).
    rewrite !live_app, !live_deletions. reflexivity.
  Qed.

  Lemma cs_sim_save a r sd : cs_sim (save_cookies sd) (save_cookies (rejar a r sd)).
  Proof. split; [symmetry; apply live_save_rejar|apply chunk_dels_save]. Qed.

  Lemma cs_sim_clear a r sd : cs_sim (snd (clear sd)) (snd (clear (rejar a r sd))).
  Proof.
    rewrite !clear_snd.
    exact (cs_sim_save a r (mkSd [] [] [] (empty_payloads (s_achunks sd)) (empty_payloads (s_rchunks sd))
                             (s_jar_a sd) (s_jar_r sd) (s_marked_a sd) (s_marked_r sd) (s_live sd))).
  Qed.
End Rejar.

(* ================================================================== the handlers *)

Section Handlers.
  Variables (E : env) (cfg : config).

  Ltac push_rejar :=
    repeat first
      [ rewrite main_rejar | rewrite get_access_rejar | rewrite get_refresh_rejar | rewrite authenticated_rejar
      | rewrite set_main_rejar | rewrite set_authenticated_rejar | rewrite set_access_rejar
      | rewrite set_refresh_rejar | rewrite after_save_rejar ].

  Lemma send_error_sim rq m code cs cs' calls :
    cs_sim cs cs' -> resp_sim (send_error rq m code cs calls) (send_error rq m code cs' calls).
  Proof. intros H. unfold send_error. apply resp_sim_mk. exact H. Qed.

  Lemma initiate_sim a r rq rnd st sd cs cs' calls :
    cs_sim cs cs' ->
    resp_sim (initiate cfg rq rnd st sd cs calls) (initiate cfg rq rnd st (rejar a r sd) cs' calls).
  Proof.
    intros H. destruct rnd as [[csrf nonce] verifier]. unfold initiate.
    pose proof (clear_fst_rejar a r sd) as Hf. pose proof (cs_sim_clear a r sd) as Hc.
    destruct (clear (rejar a r sd)) as [sd1' cs1']. destruct (clear sd) as [sd1 cs1].
    cbn [fst snd] in Hf, Hc. subst sd1'. cbv zeta.
    apply resp_sim_mk. apply cs_sim_app; [exact H|]. apply cs_sim_app; [exact Hc|].
    destruct (c_pkce cfg); push_rejar; apply cs_sim_save.
  Qed.

  Lemma process_authorized_sim a r rq rnd st sd cs cs' calls :
    cs_sim cs cs' ->
    resp_sim (process_authorized E cfg rq rnd st sd cs calls)
             (process_authorized E cfg rq rnd st (rejar a r sd) cs' calls).
  Proof.
    intros H. unfold process_authorized. cbv zeta. push_rejar.
    destruct (N.eqb (get_str 6 (s_main sd)) 0); [apply initiate_sim; exact H|].
    destruct (negb (allowed_domain E cfg (get_str 6 (s_main sd)))); [apply send_error_sim; exact H|].
    match goal with |- resp_sim (if ?c then _ else _) _ => destruct c end; [apply send_error_sim; exact H|].
    match goal with |- resp_sim (if ?c then _ else _) _ => destruct c end; apply resp_sim_mk; exact H.
  Qed.

  Lemma handle_logout_sim a r rq st sd :
    resp_sim (handle_logout E cfg rq st sd) (handle_logout E cfg rq st (rejar a r sd)).
  Proof.
    unfold handle_logout. push_rejar. pose proof (cs_sim_clear a r sd) as Hc.
    destruct (clear (rejar a r sd)) as [sd1' cs1']. destruct (clear sd) as [sd1 cs1].
    cbn [snd] in Hc. apply resp_sim_mk. exact Hc.
  Qed.

  Lemma handle_expired_sim a r rq rnd st sd :
    resp_sim (handle_expired E cfg rq rnd st sd) (handle_expired E cfg rq rnd st (rejar a r sd)).
  Proof.
    unfold handle_expired. cbv zeta. push_rejar. apply initiate_sim. apply cs_sim_save.
  Qed.

  Lemma out_sim_err st rq m code calls :
    out_sim (st, send_error rq m code [] calls) (st, send_error rq m code [] calls).
  Proof. apply out_sim_resp. apply send_error_sim. exact cs_sim_nil. Qed.

  Lemma handle_callback_sim a r rq st now sd ans :
    out_sim (handle_callback E cfg rq st now sd ans) (handle_callback E cfg rq st now (rejar a r sd) ans).
  Proof.
    unfold handle_callback. cbv zeta. push_rejar.
    destruct (negb (N.eqb (q_error rq) 0)); [apply out_sim_err|].
    destruct (N.eqb (q_state rq) 0); [apply out_sim_err|].
    destruct (N.eqb (get_str 3 (s_main sd)) 0); [apply out_sim_err|].
    destruct (negb (N.eqb (q_state rq) (get_str 3 (s_main sd)))); [apply out_sim_err|].
    destruct (N.eqb (q_code rq) 0); [apply out_sim_err|].
    destruct ans as [[ig|id rt]|]; [apply out_sim_err| |apply out_sim_err].
    destruct (verify_token E st now id) as [st1 ok].
    destruct (negb ok); [apply out_sim_err|].
    destruct (negb (ti_claims (tok E id))); [apply out_sim_err|].
    destruct (N.eqb (ti_nonce (tok E id)) 0); [apply out_sim_err|].
    destruct (N.eqb (get_str 4 (s_main sd)) 0); [apply out_sim_err|].
    destruct (negb (N.eqb (ti_nonce (tok E id)) (get_str 4 (s_main sd)))); [apply out_sim_err|].
    destruct (N.eqb (ti_email (tok E id)) 0); [apply out_sim_err|].
    destruct (negb (allowed_domain E cfg (ti_email (tok E id)))); [apply out_sim_err|].
    push_rejar. apply out_sim_mk. apply cs_sim_save.
  Qed.

  (* refreshToken on related sessions: same state, calls and verdict, related sessions (with the counts its Save
     leaves on each side) and cookies *)
  Lemma refresh_token_sim a r st now sd ans :
    exists st1 sd1 cs cs' calls ok a' r',
      refresh_token E st now sd ans = (st1, sd1, cs, calls, ok)
      /\ refresh_token E st now (rejar a r sd) ans = (st1, rejar a' r' sd1, cs', calls, ok)
      /\ cs_sim cs cs'.
  Proof.
    unfold refresh_token. cbv zeta. push_rejar.
    assert (Hsame : forall (st1 : inst) (calls : list pcall) (ok : bool),
              exists st2 sd1 cs cs' calls2 ok2 a' r',
                (st1, sd, @nil setcookie, calls, ok) = (st2, sd1, cs, calls2, ok2)
                /\ (st1, rejar a r sd, @nil setcookie, calls, ok) = (st2, rejar a' r' sd1, cs', calls2, ok2)
                /\ cs_sim cs cs').
    { intros st1 calls ok. exists st1, sd, [], [], calls, ok, a, r.
      split; [reflexivity|]. split; [reflexivity|exact cs_sim_nil]. }
    assert (Hsave : forall (st1 : inst) (sdx : sdata) (calls : list pcall) (ok : bool) (a1 r1 : nat),
              exists st2 sd1 cs cs' calls2 ok2 a' r',
                (st1, after_save sdx, save_cookies sdx, calls, ok) = (st2, sd1, cs, calls2, ok2)
                /\ (st1, rejar a1 r1 (after_save sdx), save_cookies (rejar a r sdx), calls, ok)
                   = (st2, rejar a' r' sd1, cs', calls2, ok2)
                /\ cs_sim cs cs').
    { intros st1 sdx calls ok a1 r1.
      exists st1, (after_save sdx), (save_cookies sdx), (save_cookies (rejar a r sdx)), calls, ok, a1, r1.
      split; [reflexivity|]. split; [reflexivity|apply cs_sim_save]. }
    destruct (get_refresh (NC E) sd) as [|old|] eqn:Ert; [apply Hsame| |].
    - destruct ans as [[[|]|id newrt]|]; [push_rejar; apply Hsave|apply Hsame| |apply Hsame].
      destruct (N.eqb id 0); [apply Hsame|].
      destruct (verify_token E st now id) as [st1 ok].
      destruct (negb ok); [apply Hsame|].
      destruct (negb (ti_claims (tok E id))); [apply Hsame|].
      destruct (N.eqb (ti_email (tok E id)) 0); [apply Hsame|].
      destruct newrt as [|p]; push_rejar; apply Hsave.
    - destruct ans as [[[|]|id newrt]|]; [push_rejar; apply Hsave|apply Hsame| |apply Hsame].
      destruct (N.eqb id 0); [apply Hsame|].
      destruct (verify_token E st now id) as [st1 ok].
      destruct (negb ok); [apply Hsame|].
      destruct (negb (ti_claims (tok E id))); [apply Hsame|].
      destruct (N.eqb (ti_email (tok E id)) 0); [apply Hsame|].
      destruct newrt as [|p]; push_rejar; apply Hsave.
  Qed.

  Lemma is_user_authenticated_rejar a r now sd :
    is_user_authenticated E cfg now (rejar a r sd) = is_user_authenticated E cfg now sd.
  Proof. reflexivity. Qed.

  (* ServeHTTP from the loaded session on *)
  Definition serve_from (st : inst) (now : time) (rq : request) (rnd : istr * istr * istr) (ans : option answer)
             (sd : sdata) : inst * response :=
    if negb (i_ready st) then
      (st, mkResp (if q_ctx_done rq then 408 else 503) None [] BPlain None false [] [])
    else if excluded E cfg (q_path rq) then
      (st, mkResp 200 None [] BNone (Some (map (fun c => (1000 + c, HStr 0))%N (q_client_ids rq))) false [] [])
    else
      if N.eqb (q_path rq) (c_logout cfg) then (st, handle_logout E cfg rq st sd)
      else if N.eqb (q_path rq) (c_callback cfg) then handle_callback E cfg rq st now sd ans
      else
        let '(auth, refresh, expired) := is_user_authenticated E cfg now sd in
        if expired then (st, handle_expired E cfg rq rnd st sd)
        else if auth && negb refresh then (st, process_authorized E cfg rq rnd st sd [] [])
        else if refresh && negb (tval_eqb (get_refresh (NC E) sd) TEmpty) then
          let '(st1, sd1, cs, calls, ok) := refresh_token E st now sd ans in
          if ok then (st1, process_authorized E cfg rq rnd st1 sd1 cs calls)
          else if q_json rq then (st1, mkResp 401 None cs BJson401 None false calls [])
          else (st1, initiate cfg rq rnd st1 sd1 cs calls)
        else (st, initiate cfg rq rnd st sd [] []).

  Lemma serve_serve_from st now rq rnd ans j :
    serve E cfg st now (with_jar rq j) rnd ans = serve_from st now rq rnd ans (load (c_key cfg) now j).
  Proof. reflexivity. Qed.

  Lemma serve_serve_from_own st now rq rnd ans :
    serve E cfg st now rq rnd ans = serve_from st now rq rnd ans (load (c_key cfg) now (q_jar rq)).
  Proof. reflexivity. Qed.

  Lemma serve_from_sim a r st now rq rnd ans sd :
    out_sim (serve_from st now rq rnd ans sd) (serve_from st now rq rnd ans (rejar a r sd)).
  Proof.
    unfold serve_from.
    destruct (negb (i_ready st)); [apply out_sim_mk; exact cs_sim_nil|].
    destruct (excluded E cfg (q_path rq)); [apply out_sim_mk; exact cs_sim_nil|].
    destruct (N.eqb (q_path rq) (c_logout cfg)); [apply out_sim_resp; apply handle_logout_sim|].
    destruct (N.eqb (q_path rq) (c_callback cfg)); [apply handle_callback_sim|].
    rewrite is_user_authenticated_rejar, get_refresh_rejar.
    destruct (is_user_authenticated E cfg now sd) as [[auth refresh] expired].
    destruct expired; [apply out_sim_resp; apply handle_expired_sim|].
    destruct (auth && negb refresh); [apply out_sim_resp; apply process_authorized_sim; exact cs_sim_nil|].
    destruct (refresh && negb (tval_eqb (get_refresh (NC E) sd) TEmpty));
      [|apply out_sim_resp; apply initiate_sim; exact cs_sim_nil].
    destruct (refresh_token_sim a r st now sd ans) as [st1 [sd1 [cs [cs' [calls [ok [a' [r' [H1 [H2 Hcs]]]]]]]]]].
    rewrite H1, H2. destruct ok; [apply out_sim_resp; apply process_authorized_sim; exact Hcs|].
    destruct (q_json rq); [apply out_sim_mk; exact Hcs|].
    apply out_sim_resp. apply initiate_sim. exact Hcs.
  Qed.
End Handlers.

(* the same, for sessions that agree on every field except the jar counts *)
Definition sd_sim (sd sd' : sdata) : Prop := exists a r, sd' = rejar a r sd.

Lemma sd_sim_fields sd sd' :
  sd_sim sd sd' <->
  s_main sd' = s_main sd /\ s_acc sd' = s_acc sd /\ s_ref sd' = s_ref sd /\ s_achunks sd' = s_achunks sd
  /\ s_rchunks sd' = s_rchunks sd /\ s_marked_a sd' = s_marked_a sd /\ s_marked_r sd' = s_marked_r sd
  /\ s_live sd' = s_live sd.
Proof.
  split.
  - intros [a [r ->]]. repeat split.
  - intros H. exists (s_jar_a sd'), (s_jar_r sd'). destruct sd' as [m' ac' rf' ach' rch' ja' jr' ma' mr' l'], sd as [m ac rf ach rch ja jr ma mr l].
    cbn [s_main s_acc s_ref s_achunks s_rchunks s_jar_a s_jar_r s_marked_a s_marked_r s_live] in H.
    destruct H as [-> [-> [-> [-> [-> [-> [-> ->]]]]]]]. reflexivity.
Qed.

Lemma serve_from_sd_sim E cfg st now rq rnd ans sd sd' :
  sd_sim sd sd' -> out_sim (serve_from E cfg st now rq rnd ans sd) (serve_from E cfg st now rq rnd ans sd').
Proof. intros [a [r ->]]. apply serve_from_sim. Qed.

(* ================================================================== the ladder *)

(* A request whose undecodable cookies are removed is answered with the same
   new state and the same response up to deletion Set-Cookie headers, each of
   which names a chunk cookie. *)
Theorem serve_undecodable_sim E cfg st now rq rnd ans :
  NoDup (names (q_jar rq)) ->
  let x  := serve E cfg st now rq rnd ans in
  let x' := serve E cfg st now (with_jar rq (filter (decodable (c_key cfg)) (q_jar rq))) rnd ans in
  fst x = fst x' /\ resp_sim (snd x) (snd x').
Proof.
  intros Hnd. cbv zeta. rewrite serve_serve_from, serve_serve_from_own.
  rewrite (load_rejar (c_key cfg) now (q_jar rq) Hnd).
  apply serve_from_sim.
Qed.
